package main

import (
	"fmt"

	"github.com/zclconf/go-cty/cty"
	"verifharness/internal/cq"
	"verifharness/internal/gt"
	"verifharness/internal/gv"
	"verifharness/internal/rng"
)

func init() {
	register(&Prop{ID: "C01", Imports: "Base Ty BigFloat Value Ops Refine KOps Admits K01", CaseType: "k01", Check: "k01_check", PropFn: "k01_prop", Gen: genC01})
}

func genC01(c *Ctx, r *rng.R, i int) {
	if i < 15 {
		c01Corpus(c, i)
		return
	}
	if i%11 == 6 {
		c01Boundary(c, r)
		return
	}
	// concrete operand tuples (wholly known, nulls where the operation accepts them)
	num := func() cty.Value {
		if r.Chance(60) {
			return gv.GenSmallNum(r)
		}
		v, _ := gv.GenNum(r)
		return v
	}
	collOf := func(kinds ...gt.Kind) (cty.Value, *gt.T) {
		for {
			t := collTypes[r.Intn(len(collTypes))]
			for _, k := range kinds {
				if t.K == k {
					cfg := gv.KnownCfg
					cfg.NullPct = 5
					return gv.Gen(r, t, cfg, 2), t
				}
			}
		}
	}
	type plan struct {
		op   string
		args []cty.Value
	}
	var p plan
	switch r.Intn(14) {
	case 0, 1, 2:
		p = plan{[]string{"OAdd", "OSub", "OMul", "ODiv", "OMod"}[r.Intn(5)], []cty.Value{num(), num()}}
		if r.Chance(35) { // both operands known only as small ranges around them, of either sign: interval arithmetic on all corners
			x, y := int64(r.Intn(21)-10), int64(r.Intn(21)-10)
			rg := func(v int64) cty.Value {
				lo, hi := v-int64(r.Intn(6)), v+int64(r.Intn(6))
				return cty.UnknownVal(cty.Number).Refine().NotNull().NumberRangeInclusive(cty.NumberIntVal(lo), cty.NumberIntVal(hi)).NewValue()
			}
			op := []string{"OAdd", "OSub", "OMul"}[r.Intn(3)]
			c01Pair(c, op, []cty.Value{cty.NumberIntVal(x), cty.NumberIntVal(y)}, []cty.Value{rg(x), rg(y)}, true)
			return
		}
	case 3, 4:
		x := num()
		y := num()
		if r.Chance(45) { // operands at or next to each other: the boundary cases of the range shortcuts
			y = x
			if r.Chance(40) && !x.AsBigFloat().IsInf() {
				y = x.Add(cty.NumberIntVal(int64(r.Intn(3) - 1)))
			}
		}
		p = plan{[]string{"OLt", "OGt", "OLe", "OGe", "OEq"}[r.Intn(5)], []cty.Value{x, y}}
	case 5:
		p = plan{[]string{"ONeg", "OAbs"}[r.Intn(2)], []cty.Value{num()}}
	case 6:
		if r.Bool() {
			p = plan{"ONot", []cty.Value{cty.BoolVal(r.Bool())}}
		} else {
			p = plan{[]string{"OAnd", "OOr"}[r.Intn(2)], []cty.Value{cty.BoolVal(r.Bool()), cty.BoolVal(r.Bool())}}
		}
	case 7, 8:
		t := gt.Gen(r, gt.Cfg{Depth: 2, DynPct: 0, OptPct: 0, CapPct: 0, MaxWidth: 3})
		if r.Bool() {
			t = collTypes[r.Intn(len(collTypes))]
		}
		cfg := gv.KnownCfg
		cfg.NullPct = 6
		a := gv.Gen(r, t, cfg, 2)
		b := a
		switch r.Intn(3) {
		case 0:
			b = perturb(r, a)
		case 1:
			b = gv.Gen(r, t, cfg, 2)
		}
		p = plan{[]string{"OEq", "ONe"}[r.Intn(2)], []cty.Value{a, b}}
	case 9:
		v, _ := collOf(gt.List, gt.Map, gt.Tuple)
		var k cty.Value
		switch {
		case v.Type().IsMapType():
			k = cty.StringVal([]string{"a", "b", "c", "zz", "k1"}[r.Intn(5)])
		default:
			k = cty.NumberIntVal(int64(r.Intn(4)))
		}
		p = plan{[]string{"OIndex", "OHasIndex"}[r.Intn(2)], []cty.Value{v, k}}
	case 10, 12, 13:
		v, t := collOf(gt.Set)
		if r.Chance(60) { // sets of structured members: membership of an element that is only partly known
			for k := 0; k < 20 && !(t.Elem.K == gt.Tuple || t.Elem.K == gt.List || t.Elem.K == gt.Obj || t.Elem.K == gt.Set); k++ {
				v, t = collOf(gt.Set)
			}
		}
		var e cty.Value
		var ms []cty.Value
		if !v.IsNull() {
			ms = v.AsValueSlice()
		}
		if len(ms) > 0 && r.Chance(60) {
			e = ms[r.Intn(len(ms))]
		} else {
			e = gv.Gen(r, t.Elem, gv.KnownCfg, 1)
		}
		p = plan{"OHasElem", []cty.Value{v, e}}
		// directed: a member of the (unchanged) set, with something inside it replaced by an unknown
		if len(ms) > 0 && r.Chance(50) && stringsOKSafe(v) {
			m := ms[r.Intn(len(ms))]
			for k := 0; k < 6; k++ {
				if w := gv.Weaken(r, m, 60, false); !w.RawEquals(m) && w.IsKnown() {
					c01Pair(c, "OHasElem", []cty.Value{v, m}, []cty.Value{v, w}, true)
					break
				}
			}
		}
	default:
		v, _ := collOf(gt.List, gt.Map, gt.Set, gt.Tuple)
		p = plan{"OLen", []cty.Value{v}}
	}
	for _, a := range p.args {
		if !stringsOKSafe(a) {
			c.Count("skipped_quote_domain")
			return
		}
	}
	// weakenings
	aargs := make([]cty.Value, len(p.args))
	changed := false
	for k, cv := range p.args {
		aargs[k] = gv.Weaken(r, cv, 35, true)
		if !aargs[k].RawEquals(cv) {
			changed = true
		}
	}
	c01Pair(c, p.op, p.args, aargs, changed)
}

func c01Pair(c *Ctx, op string, cargs, aargs []cty.Value, nontrivial bool) {
	rc, pc, _ := runOp(op, cargs)
	ra, pa, pmsg := runOp(op, aargs)
	desc := map[string]interface{}{"op": op, "concrete": showAll(cargs), "abstract": showAll(aargs)}
	if !pc {
		desc["concrete_result"] = cq.Show(rc)
		c.wf(rc, op)
	} else {
		desc["concrete_result"] = "panic"
	}
	if !pa {
		desc["abstract_result"] = cq.Show(ra)
		c.wf(ra, op)
	} else {
		desc["abstract_result"] = "panic: " + pmsg
	}
	c.Add("pair/"+op, fmt.Sprintf("K01_pair %s %s %s %s %s", op, cq.ValList(cargs), cq.ValList(aargs), cq.ResVal(rc, pc), cq.ResVal(ra, pa)), desc, nontrivial)
	for k := range cargs {
		why := gv.Admits(aargs[k], cargs[k])
		c.Add("admits", fmt.Sprintf("K01_admits %s %s %s", cq.Val(aargs[k]), cq.Val(cargs[k]), cq.Bool(why == "")), map[string]string{"a": cq.Show(aargs[k]), "c": cq.Show(cargs[k])}, nontrivial)
		if why != "" {
			c.Count("generator_weakening_not_admitted")
			return
		}
	}
	c.Count("oracle_evals")
	if pc {
		return // the property speaks about succeeding operations
	}
	wk := true
	for _, a := range cargs {
		if !a.IsWhollyKnown() {
			wk = false
		}
	}
	if wk {
		if !rc.IsWhollyKnown() {
			c.Fail("C01/known-operands-unknown-result", fmt.Sprintf("%s on wholly known operands returned %s", op, cq.Show(rc)), desc)
		}
		if op != "OIndex" && rc.IsNull() {
			c.Fail("C01/null-result", fmt.Sprintf("%s returned null", op), desc)
		}
	}
	if pa {
		c.Fail("C01/spontaneous-failure", fmt.Sprintf("%s succeeds on the concrete operands but fails when sub-values are replaced by unknowns admitting them: %s", op, pmsg), desc)
		return
	}
	if why := gv.Admits(ra, rc); why != "" {
		sig := "C01/unsound-result"
		if (op == "OEq" || op == "ONe" || op == "OLe" || op == "OGe") && textEqualValueDifferent(cargs) {
			sig = "C01/equals-text-vs-value"
		}
		if (op == "OAdd" || op == "OSub" || op == "OMul") && mixedPrecision(cargs, aargs) {
			sig = "C01/arith-bound-rounding"
		}
		c.Fail(sig, fmt.Sprintf("%s: abstract result %s does not admit the concrete result %s: %s", op, cq.Show(ra), cq.Show(rc), why), desc)
	}
	ok := gv.Admits(ra, rc) == ""
	c.Add("admits-result", fmt.Sprintf("K01_admits %s %s %s", cq.Val(ra), cq.Val(rc), cq.Bool(ok)), desc, true)
}

// two concrete number operands are Equals (same shortest decimal text) although their values differ
func textEqualValueDifferent(cargs []cty.Value) bool {
	if len(cargs) != 2 {
		return false
	}
	a, _ := cargs[0].Unmark()
	b, _ := cargs[1].Unmark()
	if a.Type() != cty.Number || b.Type() != cty.Number || !a.IsKnown() || !b.IsKnown() || a.IsNull() || b.IsNull() {
		return false
	}
	return a.Equals(b).True() && a.AsBigFloat().Cmp(b.AsBigFloat()) != 0
}

// the operands involve numbers of different precision (bounds are computed at one precision, the
// concrete result is rounded at another)
func mixedPrecision(cargs, aargs []cty.Value) bool {
	precs := map[uint]bool{}
	note := func(v cty.Value) {
		if v.Type() == cty.Number && v.IsKnown() && !v.IsNull() {
			precs[v.AsBigFloat().Prec()] = true
		}
	}
	for _, v := range cargs {
		u, _ := v.Unmark()
		note(u)
	}
	for _, v := range aargs {
		u, _ := v.Unmark()
		note(u)
		if !u.IsKnown() && u.Type() == cty.Number {
			lo, _ := u.Range().NumberLowerBound()
			hi, _ := u.Range().NumberUpperBound()
			note(lo)
			note(hi)
		}
	}
	return len(precs) > 1
}

// c01Boundary: a known number that sits exactly on a bound of an unknown number's range, the two bounds
// differing in inclusiveness: equality and inequality, either way round, at the top and inside an object,
// may only be decided when the range really excludes the number.
func c01Boundary(c *Ctx, r *rng.R) {
	lo := int64(r.Intn(21) - 10)
	hi := lo + 1 + int64(r.Intn(6))
	loInc := r.Bool()
	hiInc := !loInc
	if r.Chance(20) {
		hiInc = loInc
	}
	a := cty.UnknownVal(cty.Number).Refine().NotNull().
		NumberRangeLowerBound(cty.NumberIntVal(lo), loInc).
		NumberRangeUpperBound(cty.NumberIntVal(hi), hiInc).NewValue()
	// the concrete number the unknown stands for: on an inclusive bound when there is one, else inside
	var x cty.Value
	switch {
	case loInc && (!hiInc || r.Bool()):
		x = cty.NumberIntVal(lo)
	case hiInc:
		x = cty.NumberIntVal(hi)
	default:
		x = cty.NumberFloatVal(float64(lo) + 0.5)
	}
	// the other operand: the same number (equal), or the excluded bound (unequal, and the range says so)
	y := x
	if r.Chance(35) {
		if loInc {
			y = cty.NumberIntVal(hi)
		} else {
			y = cty.NumberIntVal(lo)
		}
	}
	wrap := func(v cty.Value) cty.Value { return v }
	if r.Chance(35) {
		wrap = func(v cty.Value) cty.Value {
			return cty.ObjectVal(map[string]cty.Value{"n": v, "s": cty.StringVal("k")})
		}
	}
	op := []string{"OEq", "ONe"}[r.Intn(2)]
	if r.Bool() {
		c01Pair(c, op, []cty.Value{wrap(y), wrap(x)}, []cty.Value{wrap(y), wrap(a)}, true)
	} else {
		c01Pair(c, op, []cty.Value{wrap(x), wrap(y)}, []cty.Value{wrap(a), wrap(y)}, true)
	}
}

func c01Corpus(c *Ctx, i int) {
	switch i {
	case 0: // mixed precision: bound computed at 512 bits, concrete sum rounded at 53
		one := cty.MustParseNumberVal("1")
		big := cty.NumberFloatVal(1 << 60)
		a := cty.UnknownVal(cty.Number).Refine().NotNull().NumberRangeLowerBound(one, true).NewValue()
		c01Pair(c, "OAdd", []cty.Value{cty.NumberFloatVal(1.5), big}, []cty.Value{a, big}, true)
	case 1: // infinity against a refined placeholder (fixed: default bounds inclusive)
		a := cty.UnknownVal(cty.Number).RefineNotNull()
		c01Pair(c, "OEq", []cty.Value{cty.NegativeInfinity, cty.NegativeInfinity}, []cty.Value{cty.NegativeInfinity, a}, true)
	case 2: // numbers equal by shortest text but not by value: the range disproof contradicts Equals
		f := cty.NumberFloatVal(0.1)
		p := cty.MustParseNumberVal("0.1")
		// a bound strictly between the two values: admits the float64, excludes the parsed decimal
		b := cty.MustParseNumberVal("0.1000000000000000027")
		a := cty.UnknownVal(cty.Number).Refine().NotNull().NumberRangeLowerBound(b, true).NewValue()
		c01Pair(c, "OEq", []cty.Value{f, p}, []cty.Value{a, p}, true)
	case 4: // sets whose members contain unknown values: equality (fixed: e670d77)
		ub := cty.UnknownVal(cty.Bool).RefineNotNull()
		k := cty.SetVal([]cty.Value{cty.SetVal([]cty.Value{cty.False})})
		a := cty.SetVal([]cty.Value{cty.SetVal([]cty.Value{ub})})
		c01Pair(c, "OEq", []cty.Value{k, k}, []cty.Value{a, k}, true)
		c01Pair(c, "ONe", []cty.Value{k, k}, []cty.Value{k, a}, true)
	case 5:
		k := cty.SetVal([]cty.Value{cty.TupleVal([]cty.Value{cty.StringVal("a"), cty.NumberIntVal(1)})})
		a := cty.SetVal([]cty.Value{cty.TupleVal([]cty.Value{cty.UnknownVal(cty.String), cty.NumberIntVal(1)})})
		c01Pair(c, "OEq", []cty.Value{k, k}, []cty.Value{a, k}, true)
	case 6: // membership of an element that merely contains an unknown (fixed: 74cd71d)
		set := cty.SetVal([]cty.Value{cty.TupleVal([]cty.Value{cty.NumberIntVal(1), cty.NumberIntVal(2)})})
		e := cty.TupleVal([]cty.Value{cty.NumberIntVal(1), cty.NumberIntVal(2)})
		ea := cty.TupleVal([]cty.Value{cty.UnknownVal(cty.Number), cty.NumberIntVal(2)})
		c01Pair(c, "OHasElem", []cty.Value{set, e}, []cty.Value{set, ea}, true)
	case 7:
		set := cty.SetVal([]cty.Value{cty.ListVal([]cty.Value{cty.StringVal("x")}), cty.ListVal([]cty.Value{cty.StringVal("y"), cty.StringVal("z")})})
		e := cty.ListVal([]cty.Value{cty.StringVal("y"), cty.StringVal("z")})
		ea := cty.ListVal([]cty.Value{cty.StringVal("y"), cty.UnknownVal(cty.String)})
		c01Pair(c, "OHasElem", []cty.Value{set, e}, []cty.Value{set, ea}, true)
	case 8: // products of ranges reaching below zero: every corner counts
		mk := func(lo, hi int64) cty.Value {
			return cty.UnknownVal(cty.Number).Refine().NotNull().NumberRangeInclusive(cty.NumberIntVal(lo), cty.NumberIntVal(hi)).NewValue()
		}
		c01Pair(c, "OMul", []cty.Value{cty.NumberIntVal(-10), cty.NumberIntVal(-7)}, []cty.Value{mk(-10, 1), mk(-7, 2)}, true)
		c01Pair(c, "OMul", []cty.Value{cty.NumberIntVal(-1), cty.NumberIntVal(-2)}, []cty.Value{mk(-3, -1), mk(-5, -2)}, true)
		c01Pair(c, "OMul", []cty.Value{cty.NumberIntVal(-3), cty.NumberIntVal(-5)}, []cty.Value{mk(-3, -1), mk(-5, -2)}, true)
		c01Pair(c, "OMul", []cty.Value{cty.NumberIntVal(4), cty.NumberIntVal(-6)}, []cty.Value{mk(-2, 4), mk(-6, 3)}, true)
	case 9: // candidate element whose type is only partly known (fixed: 06b2970)
		st := cty.SetVal([]cty.Value{cty.ListVal([]cty.Value{cty.StringVal("a")}), cty.ListValEmpty(cty.String)})
		c01Pair(c, "OHasElem", []cty.Value{st, cty.ListValEmpty(cty.String)}, []cty.Value{st, cty.UnknownVal(cty.List(cty.DynamicPseudoType))}, true)
		c01Pair(c, "OHasElem", []cty.Value{st, cty.ListValEmpty(cty.String)}, []cty.Value{st, cty.UnknownVal(cty.List(cty.DynamicPseudoType)).RefineNotNull()}, true)
	case 10: // placeholders at different positions of the two operands (fixed: ac6172c)
		x := cty.TupleVal([]cty.Value{cty.StringVal("a"), cty.NumberIntVal(1)})
		c01Pair(c, "OEq", []cty.Value{x, x}, []cty.Value{cty.TupleVal([]cty.Value{cty.DynamicVal, cty.NumberIntVal(1)}), cty.TupleVal([]cty.Value{cty.StringVal("a"), cty.DynamicVal})}, true)
		o := cty.ObjectVal(map[string]cty.Value{"p": cty.True, "q": cty.ListVal([]cty.Value{cty.Zero})})
		c01Pair(c, "OEq", []cty.Value{o, o}, []cty.Value{cty.ObjectVal(map[string]cty.Value{"p": cty.DynamicVal, "q": cty.ListVal([]cty.Value{cty.Zero})}), cty.ObjectVal(map[string]cty.Value{"p": cty.True, "q": cty.DynamicVal})}, true)
	case 11: // an unknown whose type constraint has a placeholder inside, against a known value
		l := cty.ListVal([]cty.Value{cty.StringVal("a")})
		c01Pair(c, "OEq", []cty.Value{l, l}, []cty.Value{cty.UnknownVal(cty.List(cty.DynamicPseudoType)), l}, true)
		c01Pair(c, "OEq", []cty.Value{l, l}, []cty.Value{l, cty.UnknownVal(cty.List(cty.DynamicPseudoType))}, true)
		ob := cty.ObjectVal(map[string]cty.Value{"a": cty.TupleVal([]cty.Value{cty.True})})
		c01Pair(c, "OEq", []cty.Value{ob, ob}, []cty.Value{cty.UnknownVal(cty.Object(map[string]cty.Type{"a": cty.Tuple([]cty.Type{cty.DynamicPseudoType})})), ob}, true)
	case 12: // an unknown set that says how long it is, against a known set whose own length is not settled
		k := cty.SetVal([]cty.Value{cty.NumberIntVal(1), cty.NumberIntVal(2)})
		ku := cty.SetVal([]cty.Value{cty.NumberIntVal(1), cty.UnknownVal(cty.Number)})
		for _, u := range []cty.Value{
			cty.UnknownVal(cty.Set(cty.Number)).Refine().NotNull().CollectionLengthLowerBound(1).NewValue(),
			cty.UnknownVal(cty.Set(cty.Number)).Refine().NotNull().CollectionLengthUpperBound(2).NewValue(),
			cty.UnknownVal(cty.Set(cty.Number)).Refine().CollectionLengthLowerBound(2).CollectionLengthUpperBound(3).NewValue(),
		} {
			c01Pair(c, "OEq", []cty.Value{k, k}, []cty.Value{u, ku}, true)
			c01Pair(c, "OEq", []cty.Value{k, k}, []cty.Value{ku, u}, true)
			c01Pair(c, "ONe", []cty.Value{cty.TupleVal([]cty.Value{k}), cty.TupleVal([]cty.Value{k})}, []cty.Value{cty.TupleVal([]cty.Value{u}), cty.TupleVal([]cty.Value{ku})}, true)
		}
	case 13: // a member whose type constraint still has a placeholder inside, one case per kind of type
		st := cty.StringVal
		kinds := []struct{ known, unk cty.Value }{
			{cty.ListVal([]cty.Value{st("x")}), cty.UnknownVal(cty.List(cty.DynamicPseudoType))},
			{cty.SetVal([]cty.Value{st("x")}), cty.UnknownVal(cty.Set(cty.DynamicPseudoType))},
			{cty.MapVal(map[string]cty.Value{"k": st("x")}), cty.UnknownVal(cty.Map(cty.DynamicPseudoType))},
			{cty.TupleVal([]cty.Value{st("x"), cty.True}), cty.UnknownVal(cty.Tuple([]cty.Type{cty.DynamicPseudoType, cty.Bool}))},
			{cty.ObjectVal(map[string]cty.Value{"a": st("x"), "b": cty.Zero}), cty.UnknownVal(cty.Object(map[string]cty.Type{"a": cty.String, "b": cty.DynamicPseudoType}))},
			{cty.MapVal(map[string]cty.Value{"k": cty.ListVal([]cty.Value{cty.True})}), cty.UnknownVal(cty.Map(cty.List(cty.DynamicPseudoType)))},
		}
		for _, k := range kinds {
			a := cty.TupleVal([]cty.Value{k.known, cty.Zero})
			w := cty.TupleVal([]cty.Value{k.unk, cty.Zero})
			c01Pair(c, "OEq", []cty.Value{a, a}, []cty.Value{w, a}, true)
			c01Pair(c, "OEq", []cty.Value{a, a}, []cty.Value{a, w}, true)
			o := cty.ObjectVal(map[string]cty.Value{"m": k.known})
			ow := cty.ObjectVal(map[string]cty.Value{"m": k.unk})
			c01Pair(c, "ONe", []cty.Value{o, o}, []cty.Value{o, ow}, true)
		}
	case 14: // a known value with a dynamic part against a typed unknown (fixed: f29c1fc, 3ea1da3)
		k := cty.TupleVal([]cty.Value{cty.StringVal("a")})
		d := cty.TupleVal([]cty.Value{cty.DynamicVal})
		u := cty.UnknownVal(cty.Tuple([]cty.Type{cty.String}))
		c01Pair(c, "OEq", []cty.Value{k, k}, []cty.Value{d, u}, true)
		c01Pair(c, "OEq", []cty.Value{k, k}, []cty.Value{u, d}, true)
		c01Pair(c, "OEq", []cty.Value{k, k}, []cty.Value{d, u.RefineNotNull()}, true)
		o := cty.ObjectVal(map[string]cty.Value{"a": cty.ListVal([]cty.Value{cty.Zero})})
		od := cty.ObjectVal(map[string]cty.Value{"a": cty.DynamicVal})
		ou := cty.UnknownVal(o.Type())
		c01Pair(c, "ONe", []cty.Value{o, o}, []cty.Value{od, ou}, true)
	default: // object with one unknown and one unequal attribute (fixed: order independence)
		x := cty.ObjectVal(map[string]cty.Value{"a": cty.StringVal("x"), "b": cty.NumberIntVal(1)})
		y := cty.ObjectVal(map[string]cty.Value{"a": cty.StringVal("x"), "b": cty.NumberIntVal(2)})
		xa := cty.ObjectVal(map[string]cty.Value{"a": cty.UnknownVal(cty.String), "b": cty.NumberIntVal(1)})
		c01Pair(c, "OEq", []cty.Value{x, y}, []cty.Value{xa, y}, true)
	}
}
