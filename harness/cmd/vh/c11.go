package main

import (
	"fmt"
	"math"
	"math/big"
	"strings"

	"github.com/zclconf/go-cty/cty"
	"github.com/zclconf/go-cty/cty/function"
	"github.com/zclconf/go-cty/cty/function/stdlib"
	"verifharness/internal/cq"
	"verifharness/internal/gv"
	"verifharness/internal/rng"
)

func init() {
	register(&Prop{ID: "C11", Imports: "Base Ty BigFloat Value Ops Refine Func K11", CaseType: "k11", Check: "k11_check", Gen: genC11})
	register(&Prop{ID: "C12", Imports: "Base Ty BigFloat Value Ops Refine Func K11", CaseType: "k11", Check: "k11_check", Gen: genC12})
}

// inject nulls, unknowns, dynamic values and marks at argument positions and depths
func perturbArgs(r *rng.R, args []cty.Value) ([]cty.Value, string) {
	out := append([]cty.Value{}, args...)
	kind := "plain"
	if len(out) == 0 {
		return out, kind
	}
	for k, n := 0, r.Intn(3); k < n; k++ {
		i := r.Intn(len(out))
		switch r.Intn(9) {
		case 0:
			out[i] = cty.NullVal(out[i].Type())
			kind = "null"
		case 1:
			out[i] = cty.UnknownVal(out[i].Type())
			kind = "unknown"
		case 2:
			out[i] = cty.DynamicVal
			kind = "dynamic"
		case 3:
			out[i] = placeMarks(r, out[i], true)
			kind = "marked"
		case 4:
			out[i] = placeMarks(r, out[i], false)
			kind = "marked-deep"
		case 5:
			out[i] = gv.Weaken(r, out[i], 40, false)
			kind = "unknown-deep"
		case 6:
			if t := out[i].Type(); !t.IsPrimitiveType() && !t.IsCapsuleType() && t != cty.DynamicPseudoType && r.Bool() {
				// an unknown whose type constraint has placeholders inside (set(dynamic), list(object({a=dynamic})), ...)
				out[i] = cty.UnknownVal(gv.GeneraliseType(r, t, 70))
				kind = "unknown-partly-typed"
			} else {
				out[i] = cty.NullVal(cty.DynamicPseudoType)
				kind = "null-dynamic"
			}
		default: // an unknown that says a lot about itself: exact length, prefix, bounds
			t := out[i].Type()
			recovered(func() {
				switch {
				case t.IsCollectionType():
					n := r.Intn(4)
					if out[i].IsKnown() && !out[i].IsNull() && r.Bool() {
						n = out[i].LengthInt()
					}
					if r.Bool() {
						out[i] = cty.UnknownVal(t).Refine().CollectionLength(n).NewValue() // may still be null: stays unknown
					} else {
						out[i] = cty.UnknownVal(t).Refine().NotNull().CollectionLength(n).NewValue()
					}
				case t == cty.String:
					out[i] = cty.UnknownVal(t).Refine().NotNull().StringPrefixFull("ab").NewValue()
				case t == cty.Number:
					out[i] = cty.UnknownVal(t).Refine().NotNull().NumberRangeInclusive(cty.NumberIntVal(1), cty.NumberIntVal(1)).NewValue()
				default:
					out[i] = cty.UnknownVal(t).RefineNotNull()
				}
			})
			kind = "unknown-refined"
		}
	}
	return out, kind
}

func isPanicErr(err error) bool {
	if err == nil {
		return false
	}
	if _, ok := err.(function.PanicError); ok {
		return true
	}
	return strings.Contains(err.Error(), "panic in function implementation")
}

type callRes struct {
	v       cty.Value
	err     error
	p       bool
	pmsg    string
	rtv     cty.Type
	rtvErr  error
	rt      cty.Type
	rtErr   error
	pT, pTV bool
}

func callAll(f function.Function, args []cty.Value) (c callRes) {
	tys := make([]cty.Type, len(args))
	for i, a := range args {
		tys[i] = a.Type()
	}
	c.pT, _ = recovered(func() { c.rt, c.rtErr = f.ReturnType(tys) })
	c.pTV, _ = recovered(func() { c.rtv, c.rtvErr = f.ReturnTypeForValues(args) })
	c.p, c.pmsg = recovered(func() { c.v, c.err = f.Call(args) })
	return
}

func modelable(args []cty.Value) bool {
	for _, a := range args {
		if a.Type().HasDynamicTypes() && a.Type() != cty.DynamicPseudoType {
			// fine
		}
		ok := true
		recovered(func() {
			cty.Walk(a, func(p cty.Path, x cty.Value) (bool, error) {
				if x.Type().IsCapsuleType() {
					ok = false
				}
				return true, nil
			})
		})
		if !ok || !stringsOKSafe(a) || hasHugeNumber(a) {
			return false
		}
	}
	return true
}

// hugeCount: an integer argument beyond 2^24 to a function that also takes strings or collections is a count,
// an offset or a width; the Gallina references build lists of that length, so such calls are decided on the
// implementation alone (C11 runs them)
func hugeCount(args []cty.Value) bool {
	allNum, huge := true, false
	for _, a := range args {
		if a.Type() != cty.Number {
			allNum = false
			continue
		}
		if a.IsKnown() && !a.IsNull() {
			u, _ := a.Unmark()
			f := u.AsBigFloat()
			if f.IsInf() {
				continue
			}
			if g := new(big.Float).Abs(f); g.Cmp(big.NewFloat(1<<24)) > 0 {
				huge = true
			}
		}
	}
	return huge && !allNum
}

func stdName(name string) (string, bool) {
	if strings.HasPrefix(name, "To(") {
		return "", false
	}
	return name, true
}

func addK11(c *Ctx, fn *stdFn, args []cty.Value, cr callRes, class string, desc interface{}) {
	if p, _ := recovered(func() { addK11x(c, fn, args, cr, class, desc) }); p {
		c.Count("outside_model") // capsule types in the prediction or the result
	}
}

func addK11x(c *Ctx, fn *stdFn, args []cty.Value, cr callRes, class string, desc interface{}) {
	name, ok := stdName(fn.Name)
	if !ok || !modelable(args) || cr.p || cr.pTV {
		c.Count("outside_model")
		return
	}
	var argS []string
	for _, a := range args {
		argS = append(argS, cq.Val(a))
	}
	tr := resTy(cr.rtv, cr.rtvErr, false)
	c.Add("type/"+class, fmt.Sprintf("K11_type %s %s %s %s", cq.Str(name), cq.List(argS), tr, tr), desc, true)
	if cr.err == nil && (!stringsOKSafe(cr.v) || hasHugeNumber(cr.v) || cr.v.Type().IsCapsuleType()) {
		return
	}
	c.Add("call/"+class, fmt.Sprintf("K11_call %s %s %s %s", cq.Str(name), cq.List(argS), tr, resValE(cr.v, cr.err, false)), desc, true)
}

func c11Check(c *Ctx, fn *stdFn, args []cty.Value, class string) callRes {
	desc := map[string]interface{}{"fn": fn.Name, "args": showArgs(args), "kind": class}
	cr := callAll(fn.F, args)
	c.Count("oracle_evals")
	c.Count("fn/" + fn.Name)
	sigf := "C11/" + fn.Name + "/"
	if cr.p || cr.pT || cr.pTV {
		c.Fail(sigf+"go-panic", "a Go panic escaped: "+trunc(cr.pmsg, 200), desc)
		return cr
	}
	for _, e := range []error{cr.err, cr.rtErr, cr.rtvErr} {
		if isPanicErr(e) {
			c.Fail(sigf+"internal-panic", "an error reports an internal panic: "+trunc(e.Error(), 300), desc)
			return cr
		}
	}
	addK11(c, fn, args, cr, class, desc)
	if cr.err != nil {
		c.Count("outcome/error")
		return cr
	}
	c.Count("outcome/value")
	wfOK := true
	for _, a := range args {
		if cty.VerifWellFormed(a) != nil {
			wfOK = false
		}
	}
	if wfOK {
		c.wf(cr.v, fn.Name)
	}
	if cr.rtvErr != nil {
		c.Fail(sigf+"values-prediction-rejects", "Call succeeded but ReturnTypeForValues fails: "+cr.rtvErr.Error(), desc)
	} else if errs := cr.v.Type().TestConformance(cr.rtv); len(errs) != 0 {
		c.Fail(sigf+"type-vs-values-prediction", fmt.Sprintf("result type %#v does not conform to the type predicted from the values %#v", cr.v.Type(), cr.rtv), desc)
	}
	if cr.rtErr != nil {
		c.Fail(sigf+"types-prediction-rejects", "Call succeeded but the type-only prediction rejects the call: "+cr.rtErr.Error(), desc)
	} else if errs := cr.v.Type().TestConformance(cr.rt); len(errs) != 0 {
		c.Fail(sigf+"type-vs-types-prediction", fmt.Sprintf("result type %#v does not conform to the type predicted from the argument types %#v", cr.v.Type(), cr.rt), desc)
	}
	return cr
}

// placeholders: the type predicted with some arguments replaced by unknowns of their types must
// neither reject a call that succeeds on the known values nor contradict its result's type
func c11Placeholders(c *Ctx, r *rng.R, fn *stdFn, args []cty.Value, res cty.Value) {
	if len(args) == 0 {
		return
	}
	for q := 0; q < 2; q++ {
		pa := append([]cty.Value{}, args...)
		n := 0
		for k := range pa {
			if r.Bool() {
				pa[k] = cty.UnknownVal(pa[k].Type())
				n++
			}
		}
		if n == 0 {
			continue
		}
		desc := map[string]interface{}{"fn": fn.Name, "args": showArgs(args), "placeholders": showArgs(pa), "result_type": fmt.Sprintf("%#v", res.Type())}
		var pt cty.Type
		var perr error
		p, pm := recovered(func() { pt, perr = fn.F.ReturnTypeForValues(pa) })
		c.Count("oracle_evals")
		switch {
		case p:
			c.Fail("C11/"+fn.Name+"/go-panic", "a Go panic escaped from the type prediction: "+trunc(pm, 200), desc)
		case isPanicErr(perr):
			c.Fail("C11/"+fn.Name+"/internal-panic", "the type prediction reports an internal panic: "+trunc(perr.Error(), 300), desc)
		case perr != nil:
			c.Fail("C11/"+fn.Name+"/placeholder-prediction-rejects", "the call succeeds on the values but the prediction with placeholders rejects it: "+trunc(perr.Error(), 200), desc)
		default:
			if errs := res.Type().TestConformance(pt); len(errs) != 0 {
				c.Fail("C11/"+fn.Name+"/placeholder-prediction-contradicted", fmt.Sprintf("predicted %#v with placeholders, evaluation gives %#v", pt, res.Type()), desc)
			}
		}
	}
}

// corpus: calls that exposed defects before (internal panics, ill-formed results); they run first
type call11 struct {
	fn   string
	args []cty.Value
}

func corpus11() []call11 {
	inf, ninf := cty.NumberFloatVal(math.Inf(1)), cty.NumberFloatVal(math.Inf(-1))
	n := cty.NumberIntVal
	s := cty.StringVal
	uLen2 := cty.UnknownVal(cty.List(cty.String)).Refine().CollectionLength(2).NewValue()
	optObj := cty.ObjectWithOptionalAttrs(map[string]cty.Type{"a": cty.String, "b": cty.Number}, []string{"b"})
	return []call11{
		{"Indent", []cty.Value{n(-1), s("a\nb")}},
		{"Format", []cty.Value{s("%[9223372036854775809]d"), n(1)}}, {"Format", []cty.Value{s("%[18446744073709551617]d %d"), n(1)}},
		{"FormatList", []cty.Value{s("%[9223372036854775809]s"), cty.ListVal([]cty.Value{s("a")})}},
		{"Int", []cty.Value{inf}}, {"Int", []cty.Value{ninf}}, {"Int", []cty.Value{cty.PositiveInfinity}},
		{"Log", []cty.Value{n(-1), n(-3)}}, {"Log", []cty.Value{n(0), n(-1)}}, {"Log", []cty.Value{inf, inf}},
		{"Pow", []cty.Value{n(-3), cty.MustParseNumberVal("0.1")}}, {"Pow", []cty.Value{n(-2), cty.NumberFloatVal(123456.789)}},
		{"Modulo", []cty.Value{ninf, n(7)}}, {"Modulo", []cty.Value{inf, cty.NumberUIntVal(1 << 63)}}, {"Modulo", []cty.Value{n(5), inf}},
		{"Range", []cty.Value{ninf, inf, inf}}, {"Range", []cty.Value{inf, cty.NumberFloatVal(-1.25), ninf}}, {"Range", []cty.Value{inf}},
		{"SetUnion", []cty.Value{cty.NullVal(cty.DynamicPseudoType), cty.SetVal([]cty.Value{s("a")})}},
		{"SetIntersection", []cty.Value{cty.DynamicVal, cty.SetVal([]cty.Value{n(1)})}},
		{"SetSubtract", []cty.Value{cty.SetVal([]cty.Value{n(1)}), cty.DynamicVal}},
		{"SetSymmetricDifference", []cty.Value{cty.DynamicVal, cty.SetValEmpty(cty.String)}},
		{"Zipmap", []cty.Value{cty.ListVal([]cty.Value{s("a"), cty.NullVal(cty.String)}), cty.ListVal([]cty.Value{n(1), n(2)})}},
		{"Merge", []cty.Value{cty.NullVal(cty.Object(map[string]cty.Type{"a": cty.Map(cty.Number)}))}},
		{"Merge", []cty.Value{cty.EmptyObjectVal, cty.NullVal(cty.DynamicPseudoType), s("true")}},
		{"Slice", []cty.Value{uLen2, n(0), n(1)}}, {"Slice", []cty.Value{uLen2, n(3), n(1)}},
		{"Element", []cty.Value{uLen2, n(1)}}, {"Chunklist", []cty.Value{uLen2, n(1)}}, {"Length", []cty.Value{uLen2}},
		{"FormatList", []cty.Value{s("%s"), uLen2}}, {"Flatten", []cty.Value{cty.TupleVal([]cty.Value{uLen2})}}, {"Join", []cty.Value{s(","), uLen2}},
		{"Signum", []cty.Value{cty.NumberFloatVal(1.5)}}, {"Signum", []cty.Value{cty.MustParseNumberVal("1e30")}},
		{"Substr", []cty.Value{s("hello"), n(-2), n(0)}}, {"Format", []cty.Value{s("%.0s|"), s("abc")}},
		{"To(object)", []cty.Value{cty.UnknownVal(cty.DynamicPseudoType)}}, {"To(object)", []cty.Value{cty.UnknownVal(optObj.WithoutOptionalAttributesDeep())}},
		{"Lookup", []cty.Value{cty.ObjectVal(map[string]cty.Value{"a": n(1)}), s("a").Mark("m"), n(0)}},
		{"BytesSlice", []cty.Value{stdlib.BytesVal([]byte("abc")), n(1), n(math.MaxInt64)}},
		{"BytesSlice", []cty.Value{stdlib.BytesVal([]byte("abc")), n(3), n(math.MaxInt64 - 2)}},
	}
}

func genC11(c *Ctx, r *rng.R, i int) {
	if cs := corpus11(); i < len(cs) {
		if fn := stdByName[cs[i].fn]; fn != nil {
			c11Check(c, fn, cs[i].args, "corpus")
		} else {
			for k := range stdFns { // conversion functions are registered under their target's name
				if strings.HasPrefix(stdFns[k].Name, cs[i].fn) {
					c11Check(c, &stdFns[k], cs[i].args, "corpus")
				}
			}
		}
		return
	}
	fn := &stdFns[i%len(stdFns)]
	var args []cty.Value
	class := "hinted"
	if r.Chance(25) {
		args = genericArgs(r, fn.F)
		class = "generic"
	} else {
		args = safeGen(fn, r)
	}
	if r.Chance(6) { // wrong arity
		if len(args) > 0 && r.Bool() {
			args = args[:len(args)-1]
		} else {
			args = append(args, str(r))
		}
		class += "+arity"
	}
	if cr := c11Check(c, fn, args, class); !cr.p && cr.err == nil {
		whole := true
		for _, a := range args {
			if !a.IsWhollyKnown() || a.ContainsMarked() {
				whole = false
			}
		}
		if whole {
			c11Placeholders(c, r, fn, args, cr.v)
		}
	}
	for q := 0; q < 2; q++ {
		pa, kind := perturbArgs(r, args)
		if kind != "plain" {
			c11Check(c, fn, pa, class+"+"+kind)
		}
	}
	// marks on every argument position in turn (parameters that accept marks hand them to the callbacks)
	if len(args) > 0 && r.Chance(35) {
		k := r.Intn(len(args))
		pa := append([]cty.Value{}, args...)
		pa[k] = pa[k].Mark(fmt.Sprintf("m%d", k))
		c11Check(c, fn, pa, class+"+marked-arg")
	}
}

// the hinted generators index into generated collections; a null or empty one makes them panic: retry
func safeGen(fn *stdFn, r *rng.R) (args []cty.Value) {
	for k := 0; k < 8; k++ {
		if p, _ := recovered(func() { args = fn.Gen(r) }); !p {
			return args
		}
	}
	return genericArgs(r, fn.F)
}

// ---------- C12 ----------
func genC12(c *Ctx, r *rng.R, i int) {
	if cs := corpus12(); i >= 1 && i <= len(cs) {
		k := cs[i-1]
		fn := stdByName[k.fn]
		if rk, err := fn.F.Call(k.args); err == nil {
			c.Count("oracle_evals")
			c12Weak(c, fn, k.args, k.weak, rk)
		}
		return
	}
	if i == 0 { // corpus: the recorded finding KF-C12-1
		fn := stdByName["SetProduct"]
		l := cty.ListVal([]cty.Value{cty.True, cty.False})
		args := []cty.Value{cty.SetValEmpty(cty.Bool), l}
		wa := []cty.Value{cty.UnknownVal(cty.Set(cty.Bool)).Refine().CollectionLengthUpperBound(1).NewValue(), l}
		if rk, err := fn.F.Call(args); err == nil {
			c.Count("oracle_evals")
			c12Weak(c, fn, args, wa, rk)
		}
		return
	}
	fn := &stdFns[i%len(stdFns)]
	args := safeGen(fn, r)
	desc := map[string]interface{}{"fn": fn.Name, "args": showArgs(args)}
	var rk cty.Value
	var ek error
	if p, _ := recovered(func() { rk, ek = fn.F.Call(args) }); p || ek != nil {
		c.Count("base_call_fails")
		return
	}
	c.Count("oracle_evals")
	c.Count("fn/" + fn.Name)
	sigf := "C12/" + fn.Name + "/"
	whole := true
	for _, a := range args {
		if !a.IsWhollyKnown() {
			whole = false
		}
	}
	if whole && !rk.IsWhollyKnown() {
		c.Fail(sigf+"known-args-unknown-result", "all arguments are wholly known but the result is not: "+cq.Show(rk), desc)
	}
	for q := 0; q < 4; q++ {
		wa := append([]cty.Value{}, args...)
		changed := false
		for k := range wa {
			if r.Chance(60) {
				w := gv.Weaken(r, wa[k], 45, true)
				// (typed unknowns only: a replacement that forgets the type is C11's dynamic-argument case)
				if !w.RawEquals(wa[k]) && w.Type().Equals(wa[k].Type()) && gv.Admits(w, wa[k]) == "" {
					wa[k] = w
					changed = true
				}
			}
		}
		if !changed {
			continue
		}
		c12Weak(c, fn, args, wa, rk)
	}
	for k := range args { // a collection argument replaced by an unknown of exactly its length
		if t := args[k].Type(); t.IsCollectionType() && args[k].IsKnown() && !args[k].IsNull() && r.Chance(50) {
			wa := append([]cty.Value{}, args...)
			wa[k] = cty.UnknownVal(t).Refine().NotNull().CollectionLength(args[k].LengthInt()).NewValue()
			if wa[k].IsKnown() { // a zero length collapses to the known empty collection
				continue
			}
			if gv.Admits(wa[k], args[k]) == "" {
				c12Weak(c, fn, args, wa, rk)
			}
		}
	}
	if len(args) > 1 { // one argument alone replaced by an unrefined (or prefix-refined) typed unknown
		k := r.Intn(len(args))
		wa := append([]cty.Value{}, args...)
		wa[k] = cty.UnknownVal(args[k].Type())
		if args[k].Type() == cty.String && args[k].IsKnown() && !args[k].IsNull() && r.Bool() {
			sv := args[k].AsString()
			wa[k] = cty.UnknownVal(cty.String).Refine().StringPrefix(sv[:r.Intn(len(sv)+1)]).NewValue()
		}
		if gv.Admits(wa[k], args[k]) == "" {
			c12Weak(c, fn, args, wa, rk)
		}
	} else if len(args) == 1 && args[0].Type() == cty.String && args[0].IsKnown() && !args[0].IsNull() {
		sv := args[0].AsString()
		wa := []cty.Value{cty.UnknownVal(cty.String).Refine().StringPrefix(sv[:r.Intn(len(sv)+1)]).NewValue()}
		if gv.Admits(wa[0], args[0]) == "" {
			c12Weak(c, fn, args, wa, rk)
		}
	}
}

// corpus12: (arguments, weakened arguments) pairs that exposed unsound results before
type call12 struct {
	fn         string
	args, weak []cty.Value
}

func corpus12() []call12 {
	s, n := cty.StringVal, cty.NumberIntVal
	ub := cty.UnknownVal(cty.Bool).RefineNotNull()
	setset := func(x cty.Value) cty.Value { return cty.SetVal([]cty.Value{cty.SetVal([]cty.Value{x})}) }
	return []call12{
		{"Equal", []cty.Value{setset(cty.False), setset(cty.False)}, []cty.Value{setset(ub), setset(cty.False)}},
		{"NotEqual", []cty.Value{setset(cty.True), setset(cty.True)}, []cty.Value{setset(cty.True), setset(ub)}},
		{"ReverseList", []cty.Value{cty.SetVal([]cty.Value{s("false"), s("na\u00efve")})}, []cty.Value{cty.SetVal([]cty.Value{s("na\u00efve"), cty.UnknownVal(cty.String)})}},
		{"FormatList", []cty.Value{s("%s-%s"), cty.ListVal([]cty.Value{s("a"), s("b")}), cty.ListVal([]cty.Value{s("x"), s("y")})},
			[]cty.Value{s("%s-%s"), cty.ListVal([]cty.Value{cty.UnknownVal(cty.String), s("b")}), cty.ListVal([]cty.Value{s("x"), s("y")})}},
		{"FormatList", []cty.Value{s("%d%s"), cty.ListVal([]cty.Value{n(1), n(2), n(3)}), cty.ListVal([]cty.Value{s("x"), s("y"), s("z")})},
			[]cty.Value{s("%d%s"), cty.ListVal([]cty.Value{n(1), cty.UnknownVal(cty.Number), n(3)}), cty.ListVal([]cty.Value{s("x"), s("y"), s("z")})}},
		{"SetHasElement", []cty.Value{cty.SetVal([]cty.Value{cty.TupleVal([]cty.Value{n(1), n(2)})}), cty.TupleVal([]cty.Value{n(1), n(2)})},
			[]cty.Value{cty.SetVal([]cty.Value{cty.TupleVal([]cty.Value{n(1), n(2)})}), cty.TupleVal([]cty.Value{cty.UnknownVal(cty.Number), n(2)})}},
		{"Contains", []cty.Value{cty.SetVal([]cty.Value{cty.ListVal([]cty.Value{n(1)})}), cty.ListVal([]cty.Value{n(1)})},
			[]cty.Value{cty.SetVal([]cty.Value{cty.ListVal([]cty.Value{n(1)})}), cty.ListVal([]cty.Value{cty.UnknownVal(cty.Number)})}},
		// literal text with an escaped percent sign before the first verb: the promised prefix is the text as printed
		{"Format", []cty.Value{s("100%% of %s"), s("them")}, []cty.Value{s("100%% of %s"), cty.UnknownVal(cty.String)}},
		{"Format", []cty.Value{s("%%%d%%"), n(5)}, []cty.Value{s("%%%d%%"), cty.UnknownVal(cty.Number)}},
		{"Format", []cty.Value{s("a%%b%%c %s!"), s("x")}, []cty.Value{s("a%%b%%c %s!"), cty.UnknownVal(cty.String).RefineNotNull()}},
		// a set whose unknown member is not the one that sorts last (its length and order are not settled)
		{"Flatten", []cty.Value{cty.SetVal([]cty.Value{s("b"), s("c")})}, []cty.Value{cty.SetVal([]cty.Value{cty.UnknownVal(cty.String), s("c")})}},
		{"Flatten", []cty.Value{cty.TupleVal([]cty.Value{s("x"), cty.SetVal([]cty.Value{s("a"), s("b"), s("c")})})},
			[]cty.Value{cty.TupleVal([]cty.Value{s("x"), cty.SetVal([]cty.Value{cty.UnknownVal(cty.String), s("b"), s("c")})})}},
		{"Flatten", []cty.Value{cty.ListVal([]cty.Value{cty.SetVal([]cty.Value{n(1), n(2)}), cty.SetVal([]cty.Value{n(3)})})},
			[]cty.Value{cty.ListVal([]cty.Value{cty.SetVal([]cty.Value{cty.UnknownVal(cty.Number), n(2)}), cty.SetVal([]cty.Value{n(3)})})}},
		// a null of a collection or structural type, weakened to an unknown that may still be null
		{"JSONEncode", []cty.Value{cty.NullVal(cty.List(cty.String))}, []cty.Value{cty.UnknownVal(cty.List(cty.String))}},
		{"JSONEncode", []cty.Value{cty.NullVal(cty.EmptyObject)}, []cty.Value{cty.UnknownVal(cty.EmptyObject)}},
		{"JSONEncode", []cty.Value{cty.NullVal(cty.Map(cty.Number))}, []cty.Value{cty.UnknownVal(cty.Map(cty.Number))}},
		{"JSONEncode", []cty.Value{cty.NullVal(cty.Tuple([]cty.Type{cty.Bool}))}, []cty.Value{cty.UnknownVal(cty.Tuple([]cty.Type{cty.Bool}))}},
	}
}

func c12Weak(c *Ctx, fn *stdFn, args, wa []cty.Value, rk cty.Value) {
	sigf := "C12/" + fn.Name + "/"
	d2 := map[string]interface{}{"fn": fn.Name, "args": showArgs(args), "weakened": showArgs(wa), "result": cq.Show(rk)}
	cr := callAll(fn.F, wa)
	c.Count("oracle_evals")
	if cr.p {
		c.Fail(sigf+"go-panic", "a Go panic escaped: "+trunc(cr.pmsg, 200), d2)
		return
	}
	addK11(c, fn, wa, cr, "weakened", d2)
	if cr.err != nil {
		if isPanicErr(cr.err) {
			c.Fail(sigf+"internal-panic", "an error reports an internal panic: "+trunc(cr.err.Error(), 300), d2)
		} else {
			c.Fail(sigf+"weakening-fails", "the call succeeds on the arguments but fails on unknowns that admit them: "+trunc(cr.err.Error(), 200), d2)
		}
		return
	}
	if why := gv.Admits(cr.v, rk); why != "" {
		c.Fail(sigf+"result-not-admitting", "the result for the weakened arguments does not admit the original result: "+why+"; got "+cq.Show(cr.v), d2)
	}
}
