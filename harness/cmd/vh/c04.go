package main

import (
	"fmt"
	"sort"
	"strings"

	"github.com/zclconf/go-cty/cty"
	"github.com/zclconf/go-cty/cty/convert"
	"github.com/zclconf/go-cty/cty/function"
	"github.com/zclconf/go-cty/cty/function/stdlib"
	"verifharness/internal/cq"
	"verifharness/internal/gt"
	"verifharness/internal/gv"
	"verifharness/internal/rng"
)

func init() {
	register(&Prop{ID: "C04", Imports: "Base Ty BigFloat Value Ops Refine KOps K04", CaseType: "k04", Check: "k04_check", Gen: genC04})
}

// placeMarks puts 1..3 distinct marks at random positions (top level and nested members)
func placeMarks(r *rng.R, v cty.Value, top bool) cty.Value {
	n := 0
	cty.Walk(v, func(p cty.Path, x cty.Value) (bool, error) { n++; return true, nil })
	k := 1 + r.Intn(2)
	targets := map[int]int{}
	for i := 0; i < k; i++ {
		targets[r.Intn(n)] = 1 + r.Intn(3)
	}
	if top {
		targets[0] = 1 + r.Intn(3)
	}
	i := -1
	out, err := cty.Transform(v, func(p cty.Path, x cty.Value) (cty.Value, error) { return x, nil })
	_ = out
	idx := 0
	var rec func(x cty.Value) cty.Value
	// post-order numbering differs from Walk's pre-order; any consistent numbering will do
	out, err = cty.TransformWithTransformer(v, &markPlacer{targets: targets, idx: &idx})
	if err != nil {
		return v
	}
	_ = i
	_ = rec
	return out
}

type markPlacer struct {
	targets map[int]int
	idx     *int
}

func (m *markPlacer) Enter(p cty.Path, v cty.Value) (cty.Value, error) { return v, nil }
func (m *markPlacer) Exit(p cty.Path, v cty.Value) (cty.Value, error) {
	i := *m.idx
	*m.idx = i + 1
	if mk, ok := m.targets[i]; ok {
		return v.Mark(mk), nil
	}
	return v, nil
}

// markAboveUnknown marks one container that has an unknown value somewhere inside it (the container
// itself, not the unknown): what the marked container reports about its own known-ness must not change
func markAboveUnknown(r *rng.R, v cty.Value, mark interface{}) cty.Value {
	var paths []cty.Path
	cty.Walk(v, func(p cty.Path, x cty.Value) (bool, error) {
		if !x.IsKnown() && len(p) > 0 {
			paths = append(paths, p.Copy())
		}
		return true, nil
	})
	if len(paths) == 0 {
		return v
	}
	p := paths[r.Intn(len(paths))]
	at := p[:r.Intn(len(p))]
	out, err := cty.Transform(v, func(q cty.Path, x cty.Value) (cty.Value, error) {
		if q.Equals(at) {
			return x.Mark(mark), nil
		}
		return x, nil
	})
	if err != nil {
		return v
	}
	return out
}

func k04k(s string) string { return "K04_k (" + s + ")" }

func deepMarks(v cty.Value) cty.ValueMarks {
	_, ms := v.UnmarkDeep()
	return ms
}

func sortedMarks(m cty.ValueMarks) []string {
	var out []string
	for k := range m {
		out = append(out, fmt.Sprintf("%v", k))
	}
	sort.Strings(out)
	return out
}

func subset(a, b cty.ValueMarks) bool {
	for m := range a {
		if _, ok := b[m]; !ok {
			return false
		}
	}
	return true
}

func unionMarks(vs ...cty.Value) cty.ValueMarks {
	out := cty.ValueMarks{}
	for _, v := range vs {
		for m := range deepMarks(v) {
			out[m] = struct{}{}
		}
	}
	return out
}

func stripAll(vs []cty.Value) []cty.Value {
	out := make([]cty.Value, len(vs))
	for i, v := range vs {
		out[i], _ = v.UnmarkDeep()
	}
	return out
}

// paired: run marked and stripped, compare outcome and unmarked result, check mark propagation
func (c *Ctx) paired(what string, args []cty.Value, run func([]cty.Value) (cty.Value, error), topPromised bool, desc map[string]interface{}) {
	c.Count("oracle_evals")
	for _, a := range args {
		// the predicates every caller decides with answer for the value under the marks
		u, _ := a.UnmarkDeep()
		var wm, ws, km, ks, nm, ns bool
		pa, _ := recovered(func() { wm, km, nm = a.IsWhollyKnown(), a.IsKnown(), a.IsNull() })
		pb, _ := recovered(func() { ws, ks, ns = u.IsWhollyKnown(), u.IsKnown(), u.IsNull() })
		if pa != pb || wm != ws || km != ks || nm != ns {
			c.Fail("C04/predicate-changed", fmt.Sprintf("%s: IsWhollyKnown/IsKnown/IsNull of an operand answer %v/%v/%v (panic %v) with marks, %v/%v/%v (panic %v) without", what, wm, km, nm, pa, ws, ks, ns, pb), desc)
			break
		}
	}
	var rm, rs cty.Value
	var em, es error
	pm, _ := recovered(func() { rm, em = run(args) })
	ps, _ := recovered(func() { rs, es = run(stripAll(args)) })
	desc["marked_outcome"] = outcomeStr(rm, em, pm)
	desc["stripped_outcome"] = outcomeStr(rs, es, ps)
	if pm != ps || (em != nil) != (es != nil) {
		sig := "C04/outcome-changed"
		if what == "op OHasElem" {
			sig = "C04/haselement-nested-marks-panic"
		}
		c.Fail(sig, fmt.Sprintf("%s: marked run %s, stripped run %s", what, outcomeStr(rm, em, pm), outcomeStr(rs, es, ps)), desc)
		return
	}
	if pm || em != nil {
		return
	}
	c.wf(rm, what)
	um, got := rm.UnmarkDeep()
	same := um.RawEquals(rs)
	if !same && um.Type().Equals(rs.Type()) && hasCapsule(um.Type()) {
		// capsule values compare by pointer: two runs each allocate their own; compare what is encapsulated
		same = cq.Show(um) == cq.Show(rs)
	}
	if !same {
		c.Fail("C04/result-changed", fmt.Sprintf("%s: unmarked result of the marked run %s differs from the stripped run %s", what, cq.Show(um), cq.Show(rs)), desc)
	}
	all := unionMarks(args...)
	if !subset(got, all) {
		c.Fail("C04/mark-invented", fmt.Sprintf("%s: result carries a mark no input carried", what), desc)
	}
	if topPromised {
		top := cty.ValueMarks{}
		for _, a := range args {
			for m := range a.Marks() {
				top[m] = struct{}{}
			}
		}
		if !subset(top, got) {
			c.Fail("C04/mark-lost", fmt.Sprintf("%s: a mark of a top-level operand is missing on the result", what), desc)
		}
	}
}

func outcomeStr(v cty.Value, err error, p bool) string {
	switch {
	case p:
		return "panic"
	case err != nil:
		return "error"
	}
	return cq.Show(v)
}

func genC04(c *Ctx, r *rng.R, i int) {
	if i < 4 {
		c04Corpus(c, i)
		return
	}
	if i%13 == 7 {
		c04StructuralToCollection(c, r)
		return
	}
	if i%13 == 3 {
		c04DynamicReceiver(c, r)
		return
	}
	switch r.Intn(16) {
	case 0, 1, 2, 3, 4, 5:
		c04Ops(c, r)
	case 6:
		c04SetVal(c, r)
	case 7, 8:
		c04Convert(c, r)
	case 9, 10:
		c04History(c, r)
	case 11, 12:
		c04Stdlib(c, r)
	default:
		c04Functions(c, r)
	}
}

// c04History: a short history of operations over a pool of values, some of them marked views of
// others. Marks are part of an immutable value: after every step each value in the pool still reports
// exactly the marks (and everything else) it reported when it was made, and a step's result carries
// only marks its own operands carried when the step began.
func c04History(c *Ctx, r *rng.R) {
	cfg := gv.KnownCfg
	if r.Chance(30) {
		cfg = gv.DefaultCfg
		cfg.MarkPct = 0
	}
	v := placeMarks(r, gv.Gen(r, collTypes[r.Intn(len(collTypes))], cfg, 2), r.Chance(30))
	pool := []live{{"v0", v, fingerprint(v)}}
	var history []string
	add := func(x cty.Value) string {
		n := fmt.Sprintf("v%d", len(pool))
		pool = append(pool, live{n, x, fingerprint(x)})
		return n
	}
	steps := 3 + r.Intn(6)
	for s := 0; s < steps; s++ {
		x := pool[r.Intn(len(pool))]
		y := pool[r.Intn(len(pool))]
		before := unionMarks(x.v, y.v)
		var res []cty.Value
		var mustKeep [][2]cty.Value
		var what string
		extra := cty.ValueMarks{}
		p, _ := recovered(func() {
			switch r.Intn(10) {
			case 9:
				// refining a marked (and possibly already refined) unknown keeps every mark
				u, ms := x.v.Unmark()
				if u.IsKnown() {
					u = gv.UnknownFor(r, u)
				}
				src := u.WithMarks(ms).Mark("rf")
				extra["rf"] = struct{}{}
				what = "refine " + x.name + " (as a marked unknown)"
				out := src.Refine().NotNull().NewValue()
				res = append(res, out)
				if u.Type() != cty.DynamicPseudoType {
					out2 := out.RefineNotNull()
					res = append(res, out2)
					mustKeep = append(mustKeep, [2]cty.Value{src, out}, [2]cty.Value{out, out2})
				}
			case 0:
				k := 4 + r.Intn(3)
				extra[k] = struct{}{}
				what = fmt.Sprintf("%s.Mark(%d)", x.name, k)
				res = append(res, x.v.Mark(k))
			case 1:
				k := 4 + r.Intn(3)
				extra[k] = struct{}{}
				extra["w"] = struct{}{}
				what = fmt.Sprintf("%s.WithMarks({%d,w})", x.name, k)
				res = append(res, x.v.WithMarks(cty.NewValueMarks(k), cty.NewValueMarks("w")))
			case 2:
				what = x.name + ".WithSameMarks(" + y.name + ")"
				res = append(res, x.v.WithSameMarks(y.v))
			case 3:
				what = "members of " + x.name
				u, _ := x.v.Unmark()
				ty := u.Type()
				if !u.IsKnown() || u.IsNull() {
					return
				}
				switch {
				case ty.IsObjectType():
					for n := range ty.AttributeTypes() {
						res = append(res, x.v.GetAttr(n))
					}
				case ty.IsListType() || ty.IsTupleType():
					for i := 0; i < u.LengthInt(); i++ {
						key := cty.NumberIntVal(int64(i))
						if r.Bool() {
							key = key.Mark("key")
							extra["key"] = struct{}{}
						}
						res = append(res, x.v.Index(key))
					}
				case ty.IsMapType():
					for it := u.ElementIterator(); it.Next(); {
						k, _ := it.Element()
						if r.Bool() {
							k = k.Mark("key")
							extra["key"] = struct{}{}
						}
						res = append(res, x.v.Index(k))
					}
				case ty.IsSetType():
					for it := u.ElementIterator(); it.Next(); {
						_, e := it.Element()
						res = append(res, e)
					}
				}
			case 4:
				what = x.name + ".Equals(" + y.name + ")"
				res = append(res, x.v.Equals(y.v))
			case 5:
				what = x.name + ".UnmarkDeepWithPaths.WithPathValueMarks"
				u, pms := x.v.UnmarkDeepWithPaths()
				res = append(res, u, u.MarkWithPaths(pms))
			case 6:
				what = "convert " + x.name + " to its own type with dynamic members"
				u, _ := x.v.Unmark()
				ty := u.Type()
				var target cty.Type
				switch {
				case ty.IsListType():
					target = cty.Set(ty.ElementType())
				case ty.IsTupleType() && ty.Length() > 0:
					target = cty.List(cty.DynamicPseudoType)
				case ty.IsObjectType():
					target = cty.Map(cty.DynamicPseudoType)
				default:
					target = cty.DynamicPseudoType
				}
				o, err := convert.Convert(x.v, target)
				if err == nil {
					res = append(res, o)
				}
			case 7:
				what = x.name + " transformed member by member"
				o, err := cty.Transform(x.v, func(p cty.Path, e cty.Value) (cty.Value, error) {
					if e.IsMarked() && r.Bool() {
						extra["t"] = struct{}{}
						return e.Mark("t"), nil
					}
					return e, nil
				})
				if err == nil {
					res = append(res, o)
				}
			default:
				what = "length/isnull/type of " + x.name
				u, _ := x.v.Unmark()
				if u.IsKnown() && !u.IsNull() && u.CanIterateElements() {
					res = append(res, x.v.Length())
				}
				res = append(res, cty.BoolVal(x.v.Mark("q").HasMark("q")).WithSameMarks(x.v.Mark("q")), cty.BoolVal(x.v.IsNull()).WithSameMarks(x.v))
				extra["q"] = struct{}{}
			}
		})
		if what == "" {
			continue
		}
		history = append(history, what)
		desc := map[string]interface{}{"history": strings.Join(history, "; "), "start": cq.Show(v)}
		c.Count("oracle_evals")
		for _, l := range pool {
			if fp := fingerprint(l.v); fp != l.fp {
				c.Fail("C04/marks-of-earlier-value-changed", fmt.Sprintf("after %s the value %s reports %s; when made: %s", what, l.name, trunc(fp, 300), trunc(l.fp, 300)), desc)
				return
			}
		}
		if p {
			continue
		}
		for m := range extra {
			before[m] = struct{}{}
		}
		for _, pr := range mustKeep {
			if !subset(pr[0].Marks(), pr[1].Marks()) {
				c.Fail("C04/mark-lost", fmt.Sprintf("%s: %s lost a mark of the value it was made from, %s", what, cq.Show(pr[1]), cq.Show(pr[0])), desc)
				return
			}
		}
		for _, o := range res {
			if !subset(deepMarks(o), before) {
				c.Fail("C04/mark-invented", fmt.Sprintf("%s: result %s carries a mark no operand carried", what, cq.Show(o)), desc)
				return
			}
			if len(pool) < 12 {
				add(o)
			}
		}
	}
}

// c04Stdlib: every registered standard-library function on its own hinted arguments, perturbed
// (nested unknowns, nulls, refinements), with marks placed on and inside the arguments: same outcome
// and same unmarked result as the call on stripped arguments, nothing invented, and everything inside
// an argument the function does not handle itself is on the result.
var selfMarked []int

func c04Stdlib(c *Ctx, r *rng.R) {
	fn := &stdFns[r.Intn(len(stdFns))]
	directed := r.Chance(45)
	if directed {
		// functions that take marked arguments themselves decide on known-ness with the marks still on
		if len(selfMarked) == 0 {
			for k := range stdFns {
				ps := stdFns[k].F.Params()
				if vp := stdFns[k].F.VarParam(); vp != nil {
					ps = append(ps, *vp)
				}
				for _, p := range ps {
					if p.AllowMarked {
						selfMarked = append(selfMarked, k)
						break
					}
				}
			}
		}
		fn = &stdFns[selfMarked[r.Intn(len(selfMarked))]]
	}
	args := safeGen(fn, r)
	kind := "plain"
	if r.Chance(60) {
		args, kind = perturbArgs(r, args)
	}
	if len(args) == 0 {
		return
	}
	args = stripAll(args)
	marked := 0
	if directed {
		// an unknown (or null) somewhere inside an argument the function handles itself, marked as a whole
		// or on the member that holds the unknown
		ps := fn.F.Params()
		for k := range args {
			allow := false
			if k < len(ps) {
				allow = ps[k].AllowMarked
			} else if vp := fn.F.VarParam(); vp != nil {
				allow = vp.AllowMarked
			}
			if allow && r.Chance(70) {
				recovered(func() {
					args[k] = gv.Weaken(r, args[k], 30+r.Intn(50), false)
					kind += "+weakened"
					if r.Chance(60) {
						args[k] = args[k].Mark(1 + r.Intn(3))
						marked++
					} else {
						args[k] = markAboveUnknown(r, args[k], 1+r.Intn(3))
						marked++
					}
				})
			}
		}
	}
	if vp := fn.F.VarParam(); vp != nil && len(fn.F.Params()) > 0 && len(args) > len(fn.F.Params()) && r.Chance(40) {
		// the call short-circuits on an unknown (or dynamic, or null) positional argument: marks of the
		// arguments that were not looked at yet still belong on the result
		np := len(fn.F.Params())
		k := r.Intn(np)
		recovered(func() {
			switch r.Intn(4) {
			case 0:
				args[k] = cty.DynamicVal
			case 1:
				args[k] = cty.NullVal(args[k].Type())
			default:
				args[k] = cty.UnknownVal(args[k].Type())
			}
			j := np + r.Intn(len(args)-np)
			args[j] = placeMarks(r, args[j], r.Bool())
			marked++
			kind += "+positional-short-circuit"
		})
	}
	if r.Chance(30) {
		// a marked argument that is unknown but says something about itself: the implementation answers with
		// a refined unknown, which the function system refines again
		k := r.Intn(len(args))
		recovered(func() {
			if args[k].IsKnown() {
				args[k] = gv.UnknownFor(r, args[k])
			}
			args[k] = args[k].Mark(1 + r.Intn(3))
			marked++
			kind += "+refined-unknown"
		})
	}
	for k := range args {
		if r.Chance(50) {
			top := r.Chance(60)
			if p, _ := recovered(func() {
				if r.Chance(40) {
					args[k] = args[k].Mark(1 + r.Intn(3))
				} else {
					args[k] = placeMarks(r, args[k], top)
				}
			}); !p {
				marked++
			}
		}
	}
	if marked == 0 {
		args[0] = args[0].Mark(1)
	}
	desc := map[string]interface{}{"func": fn.Name, "args": showAll(args), "perturbation": kind}
	c.Count("stdlib_" + fn.Name)
	c.paired("func "+fn.Name, args, func(as []cty.Value) (cty.Value, error) { return fn.F.Call(as) }, false, desc)
	var ret cty.Value
	var err error
	p, _ := recovered(func() { ret, err = fn.F.Call(args) })
	if p || err != nil {
		return
	}
	params := fn.F.Params()
	vp := fn.F.VarParam()
	want := cty.ValueMarks{}
	for k, a := range args {
		allow := false
		if k < len(params) {
			allow = params[k].AllowMarked
		} else if vp != nil {
			allow = vp.AllowMarked
		}
		if !allow {
			for m := range deepMarks(a) {
				want[m] = struct{}{}
			}
		}
	}
	if !subset(want, deepMarks(ret)) {
		c.Fail("C04/func-mark-lost", fmt.Sprintf("%s: a mark inside an argument the function does not handle itself is missing on the result %s", fn.Name, cq.Show(ret)), desc)
	}
}

func c04Ops(c *Ctx, r *rng.R) {
	// operand tuples per op family
	type fam struct {
		ops  []string
		args func() []cty.Value
	}
	num := func() cty.Value {
		v := gv.GenSmallNum(r)
		if r.Chance(15) {
			v = gv.RefinedUnknown(r, cty.Number)
		}
		if r.Chance(5) {
			v = cty.NullVal(cty.Number)
		}
		return v
	}
	boolv := func() cty.Value {
		if r.Chance(15) {
			return cty.UnknownVal(cty.Bool)
		}
		return cty.BoolVal(r.Bool())
	}
	coll := func() (cty.Value, cty.Value) {
		t := collTypes[r.Intn(len(collTypes))]
		cfg := gv.DefaultCfg
		cfg.NoMarks = true
		cfg.MarkPct = 0
		v := gv.Gen(r, t, cfg, 2)
		var k cty.Value
		switch {
		case v.Type().IsListType() || v.Type().IsTupleType():
			k = cty.NumberIntVal(int64(r.Intn(3)))
		case v.Type().IsMapType():
			k = cty.StringVal([]string{"a", "b", "zz"}[r.Intn(3)])
		case v.Type().IsSetType():
			k = gv.Gen(r, t.Elem, gv.KnownCfg, 1)
		default:
			k = cty.NumberIntVal(0)
		}
		return v, k
	}
	fams := []fam{
		{[]string{"OAdd", "OSub", "OMul", "ODiv", "OMod", "OLt", "OGt", "OLe", "OGe", "OEq", "ONe"}, func() []cty.Value { return []cty.Value{num(), num()} }},
		{[]string{"ONeg", "OAbs"}, func() []cty.Value { return []cty.Value{num()} }},
		{[]string{"OAnd", "OOr"}, func() []cty.Value { return []cty.Value{boolv(), boolv()} }},
		{[]string{"ONot"}, func() []cty.Value { return []cty.Value{boolv()} }},
		{[]string{"OIndex", "OHasIndex", "OHasElem", "OEq"}, func() []cty.Value { v, k := coll(); return []cty.Value{v, k} }},
		{[]string{"OLen"}, func() []cty.Value { v, _ := coll(); return []cty.Value{v} }},
		{[]string{"OEq", "ONe"}, func() []cty.Value { v, _ := coll(); return []cty.Value{v, perturb(r, v)} }},
	}
	f := fams[r.Intn(len(fams))]
	op := f.ops[r.Intn(len(f.ops))]
	args := f.args()
	top := r.Chance(60)
	if len(args) == 2 && r.Chance(25) {
		// asymmetric: one operand carries no mark at all, the other only nested ones
		k := r.Intn(2)
		args[k] = placeMarks(r, args[k], false)
	} else {
		for k := range args {
			if r.Chance(70) {
				args[k] = placeMarks(r, args[k], top)
			}
		}
	}
	if r.Chance(35) {
		k := r.Intn(len(args))
		args[k] = markAboveUnknown(r, args[k], 1+r.Intn(3))
	}
	ok := true
	for _, a := range args {
		if !stringsOKSafe(a) {
			ok = false
		}
	}
	desc := map[string]interface{}{"op": op, "args": showAll(args)}
	if ok {
		for _, a := range args {
			c.Add("op/wk", k04k(fmt.Sprintf("K_wk %s %s %s", cq.Val(a), cq.Bool(a.IsWhollyKnown()), cq.Bool(a.HasWhollyKnownType()))), desc, a.ContainsMarked())
		}
		ret, p, _ := runOp(op, args)
		c.Add("op/"+op, k04k(fmt.Sprintf("K_op %s %s %s", op, cq.ValList(args), cq.ResVal(ret, p))), desc, true)
		for _, a := range args {
			u, ms := a.UnmarkDeep()
			c.Add("unmarkdeep", fmt.Sprintf("K04_unmarkdeep %s %s %s", cq.Val(a), cq.Val(u), cq.Marks(ms)), map[string]string{"v": cq.Show(a)}, a.ContainsMarked())
			c.Add("marksof", fmt.Sprintf("K04_marksof %s %s %s", cq.Val(a), cq.Marks(a.Marks()), cq.Bool(a.ContainsMarked())), map[string]string{"v": cq.Show(a)}, a.ContainsMarked())
		}
	}
	c.paired("op "+op, args, func(as []cty.Value) (cty.Value, error) {
		ret, p, msg := runOp(op, as)
		if p {
			panic(msg)
		}
		return ret, nil
	}, true, desc)
}

func c04SetVal(c *Ctx, r *rng.R) {
	et := elemTypes[r.Intn(len(elemTypes))]
	pool := memberPool(r, et, false)
	n := 1 + r.Intn(4)
	vs := make([]cty.Value, n)
	for i := range vs {
		vs[i] = pool[r.Intn(len(pool))]
		if r.Chance(50) {
			vs[i] = placeMarks(r, vs[i], r.Bool())
		}
	}
	var s cty.Value
	p, _ := recovered(func() { s = cty.SetVal(vs) })
	desc := map[string]interface{}{"members": showAll(vs)}
	c.Add("setval", k04k(fmt.Sprintf("K_setval %s %s", cq.ValList(vs), cq.ResVal(s, p))), desc, true)
	c.Count("oracle_evals")
	if p {
		c.Fail("C04/setval-panic", "SetVal panicked on marked members", desc)
		return
	}
	c.wf(s, "SetVal")
	want := unionMarks(vs...)
	if !s.Marks().Equal(want) && !(len(want) == 0 && !s.IsMarked()) {
		c.Fail("C04/setval-hoist", fmt.Sprintf("SetVal carries %v, members carried %v", s.Marks(), want), desc)
	}
	us, _ := s.Unmark()
	if us.ContainsMarked() {
		c.Fail("C04/setval-hoist", "a set member is still marked", desc)
	}
	if !us.RawEquals(cty.SetVal(stripAll(vs))) {
		c.Fail("C04/result-changed", "SetVal of marked members differs from SetVal of stripped members", desc)
	}
}

// c04DynamicReceiver: the indexing and membership methods on a receiver whose type is not known yet
// (the dynamic placeholder), with marks on the receiver, on the key, or on both: the answer is unknown
// and still carries every mark.
func c04DynamicReceiver(c *Ctx, r *rng.R) {
	recv := cty.DynamicVal
	if r.Chance(25) {
		recv = cty.NullVal(cty.DynamicPseudoType)
	}
	key := []cty.Value{cty.NumberIntVal(int64(r.Intn(3))), cty.StringVal("a"), cty.DynamicVal, cty.UnknownVal(cty.Number), cty.UnknownVal(cty.String)}[r.Intn(5)]
	switch r.Intn(3) {
	case 0:
		recv = recv.Mark("r")
	case 1:
		key = key.Mark("k")
	default:
		recv, key = recv.Mark("r"), key.Mark("k")
	}
	op := []string{"OHasIndex", "OIndex", "OHasElem", "OEq"}[r.Intn(4)]
	args := []cty.Value{recv, key}
	desc := map[string]interface{}{"op": op, "args": showAll(args), "family": "dynamic-receiver"}
	ret, p, _ := runOp(op, args)
	c.Add("op/"+op, k04k(fmt.Sprintf("K_op %s %s %s", op, cq.ValList(args), cq.ResVal(ret, p))), desc, true)
	c.paired("op "+op, args, func(as []cty.Value) (cty.Value, error) {
		ret, p, msg := runOp(op, as)
		if p {
			panic(msg)
		}
		return ret, nil
	}, true, desc)
}

// c04StructuralToCollection: a tuple or object whose members are individually marked, some of them
// null, converted to a list, set or map: every member's marks are still on the result (on the set
// itself when the target is a set).
func c04StructuralToCollection(c *Ctx, r *rng.R) {
	etys := []cty.Type{cty.String, cty.Number, cty.Bool}
	ety := etys[r.Intn(len(etys))]
	n := 1 + r.Intn(3)
	cfg := gv.KnownCfg
	var elems []cty.Value
	for j := 0; j < n; j++ {
		var e cty.Value
		if r.Chance(35) {
			e = cty.NullVal(ety)
		} else {
			e = gv.Gen(r, gt.FromCtyOrNil(ety), cfg, 1)
		}
		if r.Chance(60) {
			e = e.Mark(fmt.Sprintf("m%d", j))
		}
		elems = append(elems, e)
	}
	var v cty.Value
	var target cty.Type
	tety := ety
	if r.Chance(25) {
		tety = cty.String
	}
	switch r.Intn(4) {
	case 0, 1:
		v, target = cty.TupleVal(elems), cty.Set(tety)
	case 2:
		v, target = cty.TupleVal(elems), cty.List(tety)
	default:
		m := map[string]cty.Value{}
		for j, e := range elems {
			m[fmt.Sprintf("k%d", j)] = e
		}
		v, target = cty.ObjectVal(m), cty.Map(tety)
	}
	if r.Chance(25) {
		v = v.Mark("outer")
	}
	desc := map[string]interface{}{"v": cq.Show(v), "target": fmt.Sprintf("%#v", target), "family": "structural-to-collection"}
	c.paired("convert", []cty.Value{v}, func(as []cty.Value) (cty.Value, error) { return convert.Convert(as[0], target) }, true, desc)
	// every member is kept by these conversions, so every member's marks are kept too
	var res cty.Value
	var err error
	if p, _ := recovered(func() { res, err = convert.Convert(v, target) }); !p && err == nil {
		_, got := res.UnmarkDeep()
		_, want := v.UnmarkDeep()
		if !subset(want, got) {
			c.Fail("C04/member-mark-lost", fmt.Sprintf("convert: marks %v of the members, result carries only %v", sortedMarks(want), sortedMarks(got)), desc)
		}
	}
}

func c04Convert(c *Ctx, r *rng.R) {
	t := gt.Gen(r, gt.Cfg{Depth: 2, DynPct: 5, OptPct: 0, CapPct: 0, MaxWidth: 3})
	cfg := gv.DefaultCfg
	cfg.NoMarks = true
	v := gv.Gen(r, t, cfg, 2)
	v = placeMarks(r, v, r.Chance(70))
	var target cty.Type
	switch r.Intn(4) {
	case 0:
		target = gt.Generalize(r, t).Build()
	case 1:
		target = cty.String
	case 2:
		target = gt.Mutate(r, t, gt.DefaultCfg).Build()
	default:
		target = cty.DynamicPseudoType
	}
	desc := map[string]interface{}{"v": cq.Show(v), "target": fmt.Sprintf("%#v", target)}
	c.paired("convert", []cty.Value{v}, func(as []cty.Value) (cty.Value, error) { return convert.Convert(as[0], target) }, true, desc)
}

var markFuncs = []struct {
	name string
	f    function.Function
	args func(r *rng.R) []cty.Value
}{
	{"upper", stdlib.UpperFunc, func(r *rng.R) []cty.Value { return []cty.Value{cty.StringVal(gv.GenStr(r))} }},
	{"length", stdlib.LengthFunc, func(r *rng.R) []cty.Value {
		return []cty.Value{gv.Gen(r, collTypes[r.Intn(4)], gv.KnownCfg, 1)}
	}},
	{"concat", stdlib.ConcatFunc, func(r *rng.R) []cty.Value {
		return []cty.Value{gv.Gen(r, collTypes[0], gv.KnownCfg, 1), gv.Gen(r, collTypes[0], gv.KnownCfg, 1)}
	}},
	{"join", stdlib.JoinFunc, func(r *rng.R) []cty.Value {
		a := cty.StringVal(",")
		if r.Chance(30) {
			a = cty.UnknownVal(cty.String)
		}
		return []cty.Value{a, gv.Gen(r, collTypes[0], gv.KnownCfg, 1), gv.Gen(r, collTypes[0], gv.KnownCfg, 1)}
	}},
	{"coalesce", stdlib.CoalesceFunc, func(r *rng.R) []cty.Value {
		return []cty.Value{cty.NullVal(cty.String), cty.StringVal(gv.GenStr(r)), cty.StringVal("z")}
	}},
	{"add", stdlib.AddFunc, func(r *rng.R) []cty.Value { return []cty.Value{gv.GenSmallNum(r), gv.GenSmallNum(r)} }},
	{"jsonencode", stdlib.JSONEncodeFunc, func(r *rng.R) []cty.Value {
		return []cty.Value{gv.Gen(r, collTypes[r.Intn(len(collTypes))], gv.KnownCfg, 2)}
	}},
	{"merge", stdlib.MergeFunc, func(r *rng.R) []cty.Value {
		return []cty.Value{gv.Gen(r, collTypes[2], gv.KnownCfg, 1), gv.Gen(r, collTypes[2], gv.KnownCfg, 1)}
	}},
	{"lookup", stdlib.LookupFunc, func(r *rng.R) []cty.Value {
		return []cty.Value{gv.Gen(r, collTypes[2], gv.KnownCfg, 1), cty.StringVal("a"), cty.NumberIntVal(0)}
	}},
	{"format", stdlib.FormatFunc, func(r *rng.R) []cty.Value {
		return []cty.Value{cty.StringVal("%s-%d"), cty.StringVal(gv.GenStr(r)), gv.GenSmallNum(r)}
	}},
	{"element", stdlib.ElementFunc, func(r *rng.R) []cty.Value {
		return []cty.Value{gv.Gen(r, collTypes[0], gv.KnownCfg, 1), cty.NumberIntVal(int64(r.Intn(3)))}
	}},
	{"setunion", stdlib.SetUnionFunc, func(r *rng.R) []cty.Value {
		return []cty.Value{gv.Gen(r, collTypes[4], gv.KnownCfg, 1), gv.Gen(r, collTypes[4], gv.KnownCfg, 1)}
	}},
}

func c04Functions(c *Ctx, r *rng.R) {
	mf := markFuncs[r.Intn(len(markFuncs))]
	args := mf.args(r)
	if r.Chance(25) {
		args[r.Intn(len(args))] = cty.UnknownVal(args[0].Type())
	}
	for k := range args {
		if r.Chance(70) {
			args[k] = placeMarks(r, args[k], r.Bool())
		}
	}
	desc := map[string]interface{}{"func": mf.name, "args": showAll(args)}
	// every mark anywhere inside an argument the function does not handle itself is on the result
	c.paired("func "+mf.name, args, func(as []cty.Value) (cty.Value, error) { return mf.f.Call(as) }, false, desc)
	var ret cty.Value
	var err error
	p, _ := recovered(func() { ret, err = mf.f.Call(args) })
	if p || err != nil {
		return
	}
	params := mf.f.Params()
	vp := mf.f.VarParam()
	want := cty.ValueMarks{}
	for k, a := range args {
		allow := false
		if k < len(params) {
			allow = params[k].AllowMarked
		} else if vp != nil {
			allow = vp.AllowMarked
		}
		if !allow {
			for m := range deepMarks(a) {
				want[m] = struct{}{}
			}
		}
	}
	if !subset(want, deepMarks(ret)) {
		c.Fail("C04/func-mark-lost", fmt.Sprintf("%s: a mark inside an argument the function does not handle itself is missing on the result %s", mf.name, cq.Show(ret)), desc)
	}
}

func c04Corpus(c *Ctx, i int) {
	switch i {
	case 0:
		// HasElement with an element that has a nested marked member: panics, the stripped call answers
		s := cty.SetVal([]cty.Value{cty.TupleVal([]cty.Value{cty.StringVal("a"), cty.NumberIntVal(1)})})
		e := cty.TupleVal([]cty.Value{cty.StringVal("a").Mark(1), cty.NumberIntVal(1)})
		desc := map[string]interface{}{"set": cq.Show(s), "elem": cq.Show(e)}
		c.paired("op OHasElem", []cty.Value{s, e}, func(as []cty.Value) (cty.Value, error) { return as[0].HasElement(as[1]), nil }, true, desc)
		ret, p, _ := runOp("OHasElem", []cty.Value{s, e})
		c.Add("corpus", k04k(fmt.Sprintf("K_op OHasElem %s %s", cq.ValList([]cty.Value{s, e}), cq.ResVal(ret, p))), desc, true)
	case 2, 3:
		// a function that handles marks itself, given a marked sequence whose length is not settled (a set with an unknown
		// member), directly and nested: the marks are on the result
		set := cty.SetVal([]cty.Value{cty.UnknownVal(cty.String), cty.StringVal("a")}).Mark(3)
		arg := set
		if i == 3 {
			arg = cty.TupleVal([]cty.Value{cty.StringVal("x"), set})
		}
		desc := map[string]interface{}{"func": "flatten", "args": showAll([]cty.Value{arg})}
		c.paired("func flatten", []cty.Value{arg}, func(as []cty.Value) (cty.Value, error) { return stdlib.FlattenFunc.Call(as) }, false, desc)
		var ret cty.Value
		var err error
		p, _ := recovered(func() { ret, err = stdlib.FlattenFunc.Call([]cty.Value{arg}) })
		c.Count("oracle_evals")
		if p || err != nil || !subset(deepMarks(arg), deepMarks(ret)) {
			c.Fail("C04/func-mark-lost", fmt.Sprintf("flatten of a marked set of unsettled length: the mark is missing on the result %s (panic=%v err=%v)", cq.Show(ret), p, err), desc)
		}
	default:
		v := cty.ObjectVal(map[string]cty.Value{"a": cty.NullVal(cty.String).Mark(2)})
		target := cty.Object(map[string]cty.Type{"a": cty.Number})
		desc := map[string]interface{}{"v": cq.Show(v)}
		c.paired("convert", []cty.Value{v}, func(as []cty.Value) (cty.Value, error) { return convert.Convert(as[0], target) }, false, desc)
		var ret cty.Value
		var err error
		recovered(func() { ret, err = convert.Convert(v, target) })
		if err == nil && !subset(deepMarks(v), deepMarks(ret)) {
			c.Fail("C04/convert-null-member-mark-lost", "converting an object with a marked null attribute drops the mark: "+cq.Show(ret), desc)
		}
	}
}

func hasCapsule(t cty.Type) bool {
	switch {
	case t.IsCapsuleType():
		return true
	case t.IsCollectionType():
		return hasCapsule(t.ElementType())
	case t.IsObjectType():
		for _, a := range t.AttributeTypes() {
			if hasCapsule(a) {
				return true
			}
		}
	case t.IsTupleType():
		for _, e := range t.TupleElementTypes() {
			if hasCapsule(e) {
				return true
			}
		}
	}
	return false
}
