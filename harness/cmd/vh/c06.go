package main

import (
	"fmt"

	"github.com/zclconf/go-cty/cty"
	"github.com/zclconf/go-cty/cty/convert"
	"github.com/zclconf/go-cty/cty/function"
	"github.com/zclconf/go-cty/cty/function/stdlib"
	ctyjson "github.com/zclconf/go-cty/cty/json"
	"github.com/zclconf/go-cty/cty/msgpack"
	"golang.org/x/text/unicode/norm"
	"verifharness/internal/cq"
	"verifharness/internal/gt"
	"verifharness/internal/gv"
	"verifharness/internal/rng"
)

func init() {
	register(&Prop{ID: "C06", Imports: "Base Ty BigFloat Value Ops Refine Wf", CaseType: "k06", Check: "k06_check", PropFn: "k06_prop", Gen: genC06})
}

// publicWalk: validity through public accessors only
func publicWalk(v cty.Value) (err error) {
	defer func() {
		if r := recover(); r != nil {
			err = fmt.Errorf("accessor panicked: %v", r)
		}
	}()
	ty := v.Type()
	if ty == cty.NilType {
		return fmt.Errorf("nil type")
	}
	if !ty.WithoutOptionalAttributesDeep().Equals(ty) {
		return fmt.Errorf("type carries optional-attribute annotations: %#v", ty)
	}
	u, ms := v.Unmark()
	if u.IsMarked() {
		return fmt.Errorf("more than one layer of marks")
	}
	if v.IsMarked() && len(ms) == 0 {
		return fmt.Errorf("marked with no marks")
	}
	if !u.IsKnown() {
		_ = u.Range()
		return nil
	}
	if u.IsNull() {
		return nil
	}
	switch {
	case ty == cty.DynamicPseudoType:
		return fmt.Errorf("known non-null value of the dynamic pseudo-type")
	case ty == cty.String:
		if s := u.AsString(); norm.NFC.String(s) != s {
			return fmt.Errorf("string %q is not NFC", s)
		}
	case ty == cty.Number:
		_ = u.AsBigFloat()
	case ty == cty.Bool:
		_ = u.True()
	case ty.IsCollectionType() || ty.IsTupleType() || ty.IsObjectType():
		n := 0
		var members []cty.Value
		for it := u.ElementIterator(); it.Next(); {
			k, e := it.Element()
			var want cty.Type
			switch {
			case ty.IsCollectionType():
				want = ty.ElementType()
			case ty.IsTupleType():
				want = ty.TupleElementType(n)
			default:
				name := k.AsString()
				if norm.NFC.String(name) != name {
					return fmt.Errorf("attribute name %q is not NFC", name)
				}
				want = ty.AttributeType(name)
			}
			if ty.IsMapType() {
				if ks := k.AsString(); norm.NFC.String(ks) != ks {
					return fmt.Errorf("map key %q is not NFC", ks)
				}
			}
			if !e.Type().Equals(want) {
				return fmt.Errorf("member of type %#v where %#v is declared", e.Type(), want)
			}
			if ty.IsSetType() && e.ContainsMarked() {
				return fmt.Errorf("set member carries marks")
			}
			if err := publicWalk(e); err != nil {
				return err
			}
			members = append(members, e)
			n++
		}
		if n != u.LengthInt() {
			return fmt.Errorf("LengthInt %d but %d members", u.LengthInt(), n)
		}
		if ty.IsSetType() {
			for i := range members {
				for j := i + 1; j < len(members); j++ {
					if e := members[i].Equals(members[j]); e.IsKnown() && e.True() {
						return fmt.Errorf("set holds duplicate members")
					}
				}
			}
		}
	}
	return nil
}

func normTableOf(v cty.Value) string {
	var items []string
	seen := map[string]bool{}
	add := func(s string) {
		if n := norm.NFC.String(s); n != s && !seen[s] {
			seen[s] = true
			items = append(items, cq.Pair(cq.Str(s), cq.Str(n)))
		}
	}
	recovered(func() {
		cty.Walk(v, func(p cty.Path, x cty.Value) (bool, error) {
			u, _ := x.Unmark()
			if u.IsKnown() && !u.IsNull() {
				if u.Type() == cty.String {
					add(u.AsString())
				}
				if u.Type().IsMapType() {
					for k := range u.AsValueMap() {
						add(k)
					}
				}
			}
			return true, nil
		})
	})
	return cq.List(items)
}

// wfCase: monitor + correspondence case for one returned value
func (c *Ctx) wfCase(v cty.Value, where string) {
	c.Count("wf_checked")
	herr := cty.VerifWellFormed(v)
	perr := publicWalk(v)
	var shown string
	recovered(func() { shown = cq.Show(v) })
	desc := map[string]interface{}{"from": where, "value": shown}
	if herr != nil {
		c.Fail("C06/ill-formed", fmt.Sprintf("%s returned an ill-formed value: %v", where, herr), desc)
	} else if perr != nil {
		c.Fail("C06/ill-formed-public", fmt.Sprintf("%s returned a value that fails the public-API walk: %v", where, perr), desc)
	}
	var term string
	p, _ := recovered(func() { term = cq.Val(v) })
	if p || !stringsOKSafe(v) {
		c.Count("unprintable_or_outside_quote_domain")
		return
	}
	c.Add("wf/"+where, fmt.Sprintf("K06_wf %s %s %s", normTableOf(v), term, cq.Bool(herr == nil)), desc, v.Type().IsCollectionType() || v.Type().IsObjectType() || v.Type().IsTupleType() || v.IsMarked() || !v.IsKnown())
}

func stringsOKSafe(v cty.Value) (ok bool) {
	ok = true
	if p, _ := recovered(func() { ok = stringsOK(v) }); p {
		return false
	}
	return
}

func try(c *Ctx, where string, f func() cty.Value) {
	var v cty.Value
	p, _ := recovered(func() { v = f() })
	if p {
		c.Count("api_panics")
		return
	}
	if v == cty.NilVal {
		return
	}
	c.wfCase(v, where)
}

func tryErr(c *Ctx, where string, f func() (cty.Value, error)) {
	var v cty.Value
	var err error
	p, _ := recovered(func() { v, err = f() })
	if p {
		c.Count("api_panics")
		return
	}
	if err != nil || v == cty.NilVal {
		c.Count("api_errors")
		return
	}
	c.wfCase(v, where)
}

func genC06(c *Ctx, r *rng.R, i int) {
	tcfg := gt.Cfg{Depth: 2, DynPct: 10, OptPct: 0, CapPct: 3, MaxWidth: 3}
	t := gt.Gen(r, tcfg)
	v := gv.Gen(r, t, gv.DefaultCfg, 2)
	w := gv.Gen(r, t, gv.DefaultCfg, 2)
	c.wfCase(v, "generator")

	// marks
	try(c, "Mark", func() cty.Value { return v.Mark(7) })
	try(c, "Mark.Mark", func() cty.Value { return v.Mark(7).Mark(8) })
	try(c, "WithMarks", func() cty.Value { return v.WithMarks(cty.NewValueMarks(1, 2), cty.NewValueMarks(2)) })
	try(c, "WithSameMarks", func() cty.Value { return v.WithSameMarks(w, v.Mark(9)) })
	try(c, "WithSameMarks(marked receiver)", func() cty.Value { return v.Mark(3).WithSameMarks(w.Mark(4)) })
	try(c, "Unmark", func() cty.Value { u, _ := v.Unmark(); return u })
	try(c, "UnmarkDeep", func() cty.Value { u, _ := v.UnmarkDeep(); return u })
	try(c, "MarkWithPaths", func() cty.Value { u, pvm := v.UnmarkDeepWithPaths(); return u.MarkWithPaths(pvm) })
	// constructors over the two values
	try(c, "TupleVal", func() cty.Value { return cty.TupleVal([]cty.Value{v, w}) })
	try(c, "ObjectVal", func() cty.Value { return cty.ObjectVal(map[string]cty.Value{"a": v, "é": w}) })
	// two spellings of one attribute name / map key (precomposed and decomposed) with values of
	// different types: whichever survives, type and value must agree (repeated: Go map order decides)
	for k := 0; k < 6; k++ {
		try(c, "ObjectVal(names equal after normalisation)", func() cty.Value {
			return cty.ObjectVal(map[string]cty.Value{"h\u00e9llo": v, "he\u0301llo": w, "z": v})
		})
		try(c, "MapVal(keys equal after normalisation)", func() cty.Value {
			return cty.MapVal(map[string]cty.Value{"h\u00e9llo": v, "he\u0301llo": v, "z": v})
		})
	}
	try(c, "ListVal", func() cty.Value { return cty.ListVal([]cty.Value{v, w}) })
	try(c, "SetVal", func() cty.Value { return cty.SetVal([]cty.Value{v, w, v}) })
	try(c, "MapVal", func() cty.Value { return cty.MapVal(map[string]cty.Value{"k": v, "Å": w}) })
	try(c, "StringVal(denormalised)", func() cty.Value { return cty.StringVal("é" + gv.GenStr(r)) })
	for k := 0; k < 3; k++ {
		d := gv.NonNFC[r.Intn(len(gv.NonNFC))]
		try(c, "StringVal(not NFC)", func() cty.Value { return cty.StringVal(d + gv.GenStr(r)) })
		try(c, "ObjectVal(attribute name not NFC)", func() cty.Value { return cty.ObjectVal(map[string]cty.Value{d: v, "z": w}) })
		try(c, "MapVal(key not NFC)", func() cty.Value { return cty.MapVal(map[string]cty.Value{d: v, "k" + d: v}) })
		try(c, "Object type(attribute name not NFC)", func() cty.Value { return cty.NullVal(cty.Object(map[string]cty.Type{d: v.Type()})) })
	}
	// traversal
	tryErr(c, "Transform(identity)", func() (cty.Value, error) {
		return cty.Transform(v, func(p cty.Path, x cty.Value) (cty.Value, error) { return x, nil })
	})
	try(c, "UnknownAsNull", func() cty.Value { return cty.UnknownAsNull(v) })
	// operations
	uv, _ := v.UnmarkDeep()
	for _, op := range []string{"OEq", "ONe", "OLen", "OAdd", "ONot", "OAbs", "OLt"} {
		args := []cty.Value{v, w}
		if op == "OLen" || op == "ONot" || op == "OAbs" {
			args = []cty.Value{v}
		}
		ret, p, _ := runOp(op, args)
		if !p {
			c.wfCase(ret, "op "+op)
		}
	}
	if uv.IsKnown() && !uv.IsNull() && uv.CanIterateElements() {
		for it := uv.ElementIterator(); it.Next(); {
			_, e := it.Element()
			c.wfCase(e, "ElementIterator")
			break
		}
	}
	try(c, "Refine", func() cty.Value { return v.Refine().NotNull().NewValue() })
	// conversion to mutated / generalised / optional-attribute targets
	targets := []*gt.T{gt.Mutate(r, t, gt.DefaultCfg), gt.Generalize(r, t), gt.Gen(r, gt.DefaultCfg), withOptionalNested(r, t)}
	for _, tt := range targets {
		var tty cty.Type
		if p, _ := recovered(func() { tty = tt.Build() }); p {
			continue
		}
		tryErr(c, "convert.Convert", func() (cty.Value, error) { return convert.Convert(v, tty) })
		tryErr(c, "convert.Convert(null dyn)", func() (cty.Value, error) { return convert.Convert(cty.NullVal(cty.DynamicPseudoType), tty) })
		tryErr(c, "convert.Convert(dynamic)", func() (cty.Value, error) { return convert.Convert(cty.DynamicVal, tty) })
	}
	// collections of unsettled length (a set with an unknown member, with dynamically typed members) converted to the
	// other collection kinds over an element type with optional attributes at depth
	{
		inner := cty.ObjectWithOptionalAttrs(map[string]cty.Type{"c": cty.String, "d": cty.Number}, []string{"d"})
		ety := cty.ObjectWithOptionalAttrs(map[string]cty.Type{"a": cty.String, "b": inner}, []string{"b"})
		srcs := []cty.Value{
			cty.SetVal([]cty.Value{cty.ObjectVal(map[string]cty.Value{"a": cty.UnknownVal(cty.String)}), cty.ObjectVal(map[string]cty.Value{"a": cty.StringVal("x")})}),
			cty.SetVal([]cty.Value{cty.DynamicVal, cty.DynamicVal}),
			cty.SetVal([]cty.Value{cty.ObjectVal(map[string]cty.Value{"a": cty.UnknownVal(cty.String)}), cty.ObjectVal(map[string]cty.Value{"a": cty.StringVal("y")})}).Mark(5),
			cty.UnknownVal(cty.Set(cty.Object(map[string]cty.Type{"a": cty.String}))),
			cty.ListVal([]cty.Value{cty.ObjectVal(map[string]cty.Value{"a": cty.UnknownVal(cty.String)})}),
			cty.TupleVal([]cty.Value{cty.ObjectVal(map[string]cty.Value{"a": cty.StringVal("x")}), cty.DynamicVal}),
		}
		src := srcs[r.Intn(len(srcs))]
		for _, tty := range []cty.Type{cty.List(ety), cty.Set(ety), cty.Map(ety), cty.Tuple([]cty.Type{cty.List(ety)})} {
			tryErr(c, "convert.Convert(unsettled length, optional element type)", func() (cty.Value, error) { return convert.Convert(src, tty) })
		}
	}
	// a tuple type whose element is a collection of objects with optional attributes (at depth): a null, an
	// untyped unknown or an empty collection takes its result type from the constraint, without the annotations
	{
		inner := cty.ObjectWithOptionalAttrs(map[string]cty.Type{"c": cty.String, "d": cty.Number}, []string{"d"})
		ety := cty.ObjectWithOptionalAttrs(map[string]cty.Type{"a": cty.String, "b": cty.List(inner)}, []string{"b"})
		coll := []cty.Type{cty.Map(ety), cty.List(ety), cty.Set(ety), cty.List(cty.Map(inner))}[r.Intn(4)]
		tup := cty.Tuple([]cty.Type{cty.String, coll})
		bare := cty.Tuple([]cty.Type{cty.String, cty.Map(cty.EmptyObject)})
		for _, k := range []struct {
			src cty.Value
			tty cty.Type
		}{
			{cty.NullVal(cty.DynamicPseudoType), tup}, {cty.DynamicVal, tup}, {cty.NullVal(cty.DynamicPseudoType), cty.List(tup)},
			{cty.ListValEmpty(bare), cty.List(tup)}, {cty.SetValEmpty(bare), cty.Set(tup)}, {cty.MapValEmpty(bare), cty.Map(tup)},
			{cty.NullVal(cty.DynamicPseudoType), cty.Object(map[string]cty.Type{"t": tup})},
			{cty.EmptyTupleVal, cty.List(tup)}, {cty.EmptyObjectVal, cty.Map(tup)},
		} {
			k := k
			tryErr(c, "convert.Convert(typed by the constraint, tuple of collections of optional objects)", func() (cty.Value, error) { return convert.Convert(k.src, k.tty) })
		}
	}
	// codecs
	if !uv.ContainsMarked() {
		ty := uv.Type()
		tryErr(c, "json round trip", func() (cty.Value, error) {
			b, err := ctyjson.Marshal(uv, ty)
			if err != nil {
				return cty.NilVal, err
			}
			return ctyjson.Unmarshal(b, ty)
		})
		tryErr(c, "msgpack round trip", func() (cty.Value, error) {
			b, err := msgpack.Marshal(uv, ty)
			if err != nil {
				return cty.NilVal, err
			}
			return msgpack.Unmarshal(b, ty)
		})
		tryErr(c, "msgpack round trip (dynamic)", func() (cty.Value, error) {
			b, err := msgpack.Marshal(uv, cty.DynamicPseudoType)
			if err != nil {
				return cty.NilVal, err
			}
			return msgpack.Unmarshal(b, cty.DynamicPseudoType)
		})
	}
	// a few standard functions
	call := func(name string, f function.Function, args ...cty.Value) {
		tryErr(c, "stdlib "+name, func() (cty.Value, error) { return f.Call(args) })
	}
	call("coalesce", stdlib.CoalesceFunc, v, w)
	call("concat", stdlib.ConcatFunc, cty.TupleVal([]cty.Value{v}), cty.TupleVal([]cty.Value{w}))
	call("merge", stdlib.MergeFunc, cty.ObjectVal(map[string]cty.Value{"a": v}), cty.ObjectVal(map[string]cty.Value{"b": w}))
	call("flatten", stdlib.FlattenFunc, cty.TupleVal([]cty.Value{cty.TupleVal([]cty.Value{v}), w}))
	call("setunion", stdlib.SetUnionFunc, cty.SetVal([]cty.Value{uv}), cty.SetVal([]cty.Value{uv}))
	call("jsonencode", stdlib.JSONEncodeFunc, v)
	call("length", stdlib.LengthFunc, v)
	call("reverse", stdlib.ReverseListFunc, cty.TupleVal([]cty.Value{v, w}))
	call("lookup", stdlib.LookupFunc, cty.ObjectVal(map[string]cty.Value{"a": v}), cty.StringVal("a"), w)
}

// withOptionalNested: a target like t whose objects (at any depth, also below collections) get
// optional attributes, including extra optional attributes the value does not have
func withOptionalNested(r *rng.R, t *gt.T) *gt.T {
	m := t.Clone()
	for _, p := range gt.Positions(m) {
		if p.K == gt.Obj {
			if len(p.Attrs) > 0 && r.Bool() {
				p.Opt = []string{p.Attrs[0].Name}
			}
			if r.Bool() {
				extra := &gt.T{K: gt.List, Elem: &gt.T{K: gt.Obj, Attrs: []gt.Attr{{Name: "q", T: gt.P(gt.Str)}}, Opt: []string{"q"}}}
				if r.Bool() {
					extra = &gt.T{K: gt.Obj, Attrs: []gt.Attr{{Name: "q", T: gt.P(gt.Num)}}, Opt: []string{"q"}}
				}
				has := false
				for _, a := range p.Attrs {
					if a.Name == "zopt" {
						has = true
					}
				}
				if !has {
					p.Attrs = append(p.Attrs, gt.Attr{Name: "zopt", T: extra})
					p.Opt = append(p.Opt, "zopt")
				}
			}
		}
	}
	if m.K != gt.Obj && r.Chance(30) {
		return &gt.T{K: gt.Obj, Attrs: []gt.Attr{{Name: "w", T: &gt.T{K: gt.Map, Elem: &gt.T{K: gt.Obj, Attrs: []gt.Attr{{Name: "q", T: gt.P(gt.Str)}}, Opt: []string{"q"}}}}}, Opt: []string{"w"}}
	}
	return m
}
