package main

import (
	"fmt"
	"math/big"
	"sort"
	"strings"

	"github.com/zclconf/go-cty/cty"
	"github.com/zclconf/go-cty/cty/convert"
	"verifharness/internal/cq"
	"verifharness/internal/gt"
	"verifharness/internal/gv"
	"verifharness/internal/rng"
)

func init() {
	register(&Prop{ID: "C08", Imports: "Base Ty BigFloat Value Ops Refine Walk Wf Convert K08", CaseType: "k08", Check: "k08_check", PropFn: "k08_prop", Gen: genC08})
	register(&Prop{ID: "C09", Imports: "Base Ty BigFloat Value Ops Refine Walk Wf Convert K08", CaseType: "k08", Check: "k08_check", PropFn: "k08_prop", Gen: genC09})
}

var c08cfg = gt.Cfg{Depth: 3, DynPct: 0, OptPct: 0, CapPct: 0, MaxWidth: 3}

// deriveTarget: kind changes (list/set/tuple, map/object), element conversions, dropped or added
// (optional) attributes, inserted dynamic placeholders
func deriveTarget(r *rng.R, t *gt.T) *gt.T {
	m := t.Clone()
	for k, n := 0, 1+r.Intn(3); k < n; k++ {
		ps := gt.Positions(m)
		p := ps[r.Intn(len(ps))]
		switch p.K {
		case gt.Bool, gt.Num, gt.Str:
			switch r.Intn(4) {
			case 0:
				p.K = gt.Str
			case 1:
				p.K = []gt.Kind{gt.Bool, gt.Num, gt.Str}[r.Intn(3)]
			case 2:
				p.K = gt.Dyn
			default:
				*p = gt.T{K: gt.List, Elem: gt.P(p.K)}
			}
		case gt.List, gt.Set:
			switch r.Intn(5) {
			case 0, 1:
				p.K = []gt.Kind{gt.List, gt.Set}[r.Intn(2)]
			case 2:
				p.Elem = gt.P(gt.Dyn)
			case 3:
				*p = gt.T{K: gt.Tuple, Elems: []*gt.T{p.Elem, p.Elem.Clone()}}
			default:
				p.K = gt.Map
			}
		case gt.Map:
			switch r.Intn(4) {
			case 0:
				p.Elem = gt.P(gt.Dyn)
			case 1: // to an object type over a few plausible keys
				o := &gt.T{K: gt.Obj}
				for _, nm := range []string{"a", "b", "c"}[:1+r.Intn(3)] {
					o.Attrs = append(o.Attrs, gt.Attr{Name: nm, T: p.Elem.Clone()})
					if r.Chance(40) {
						o.Opt = append(o.Opt, nm)
					}
				}
				if r.Chance(50) {
					// an optional attribute no generated map has, whose own type has optional attributes inside:
					// the null filled in for it must not carry the annotations
					inner := &gt.T{K: gt.Obj, Attrs: []gt.Attr{{Name: "d", T: gt.P(gt.Num)}}, Opt: []string{"d"}}
					et := &gt.T{K: gt.Obj, Attrs: []gt.Attr{{Name: "b", T: gt.P(gt.Str)}, {Name: "c", T: &gt.T{K: gt.List, Elem: inner}}}, Opt: []string{"b"}}
					if p.Elem.K == gt.Obj && len(p.Elem.Attrs) > 0 && r.Bool() {
						et = p.Elem.Clone()
						et.Opt = []string{et.Attrs[r.Intn(len(et.Attrs))].Name}
					}
					o.Attrs = append(o.Attrs, gt.Attr{Name: "zz9", T: et})
					o.Opt = append(o.Opt, "zz9")
				}
				*p = *o
			case 2:
				p.Elem = gt.P(gt.Str)
			default:
				p.K = gt.List
			}
		case gt.Tuple:
			switch r.Intn(5) {
			case 0, 1:
				et := gt.P(gt.Dyn)
				if len(p.Elems) > 0 && r.Bool() {
					et = p.Elems[r.Intn(len(p.Elems))].Clone()
				} else if r.Bool() {
					et = gt.P(gt.Str)
				}
				*p = gt.T{K: []gt.Kind{gt.List, gt.Set}[r.Intn(2)], Elem: et}
			case 2:
				if len(p.Elems) > 0 {
					p.Elems[r.Intn(len(p.Elems))] = gt.P(gt.Dyn)
				}
			case 3:
				if len(p.Elems) > 0 {
					p.Elems = p.Elems[:len(p.Elems)-1]
				} else {
					p.Elems = append(p.Elems, gt.P(gt.Str))
				}
			default:
				if len(p.Elems) > 0 {
					p.Elems[r.Intn(len(p.Elems))] = gt.P(gt.Str)
				}
			}
		case gt.Obj:
			switch r.Intn(6) {
			case 0: // to a map
				et := gt.P(gt.Dyn)
				if len(p.Attrs) > 0 && r.Bool() {
					et = p.Attrs[r.Intn(len(p.Attrs))].T.Clone()
				} else if r.Bool() {
					et = gt.P(gt.Str)
				}
				*p = gt.T{K: gt.Map, Elem: et}
			case 1: // drop an attribute
				if len(p.Attrs) > 0 {
					i := r.Intn(len(p.Attrs))
					nm := p.Attrs[i].Name
					p.Attrs = append(p.Attrs[:i:i], p.Attrs[i+1:]...)
					var o []string
					for _, x := range p.Opt {
						if x != nm {
							o = append(o, x)
						}
					}
					p.Opt = o
				}
			case 2, 3: // add an attribute (optional or required)
				nm := []string{"zz", "opt", "a", "k9"}[r.Intn(4)]
				has := false
				for _, a := range p.Attrs {
					if a.Name == nm {
						has = true
					}
				}
				if !has {
					p.Attrs = append(p.Attrs, gt.Attr{Name: nm, T: gt.Gen(r, gt.Cfg{Depth: 1, MaxWidth: 2})})
					sortAttrs(p)
					if r.Chance(75) {
						p.Opt = append(p.Opt, nm)
					}
				}
			case 4: // make an existing attribute optional
				if len(p.Attrs) > 0 {
					nm := p.Attrs[r.Intn(len(p.Attrs))].Name
					has := false
					for _, x := range p.Opt {
						if x == nm {
							has = true
						}
					}
					if !has {
						p.Opt = append(p.Opt, nm)
					}
				}
			default:
				if len(p.Attrs) > 0 {
					p.Attrs[r.Intn(len(p.Attrs))].T = gt.P([]gt.Kind{gt.Dyn, gt.Str}[r.Intn(2)])
				}
			}
		case gt.Dyn:
			*p = *gt.Gen(r, gt.Cfg{Depth: 1, MaxWidth: 2})
		}
	}
	return m
}

func sortAttrs(p *gt.T) {
	for i := 1; i < len(p.Attrs); i++ {
		for j := i; j > 0 && p.Attrs[j].Name < p.Attrs[j-1].Name; j-- {
			p.Attrs[j], p.Attrs[j-1] = p.Attrs[j-1], p.Attrs[j]
		}
	}
}

// fullyResolved: no null, unknown or empty member anywhere, so every placeholder of a target is resolved by it
func fullyResolved(v cty.Value) bool {
	ok := true
	recovered(func() {
		cty.Walk(v, func(p cty.Path, x cty.Value) (bool, error) {
			u, _ := x.Unmark()
			if !u.IsKnown() || u.IsNull() || u.Type().HasDynamicTypes() {
				ok = false
				return false, nil
			}
			if (u.Type().IsCollectionType() || u.Type().IsTupleType() || u.Type().IsObjectType()) && u.LengthInt() == 0 {
				ok = false
			}
			return true, nil
		})
	})
	return ok
}

// lossy: converting src -> dst may discard information (sets forget order and duplicates, dropped attributes / map elements)
func lossy(src, dst cty.Type) bool {
	switch {
	case dst == cty.DynamicPseudoType || src == cty.DynamicPseudoType:
		return false
	case dst.IsSetType():
		if !src.IsSetType() {
			return true
		}
		return lossy(src.ElementType(), dst.ElementType())
	case dst.IsCollectionType() && src.IsCollectionType():
		return lossy(src.ElementType(), dst.ElementType())
	case dst.IsCollectionType() && src.IsTupleType():
		for _, e := range src.TupleElementTypes() {
			if lossy(e, dst.ElementType()) {
				return true
			}
		}
		return true // no list -> tuple inverse exists
	case dst.IsMapType() && src.IsObjectType():
		for _, e := range src.AttributeTypes() {
			if lossy(e, dst.ElementType()) {
				return true
			}
		}
		return false
	case dst.IsObjectType() && src.IsObjectType():
		for n, e := range src.AttributeTypes() {
			if !dst.HasAttribute(n) || lossy(e, dst.AttributeType(n)) {
				return true
			}
		}
		return false
	case dst.IsObjectType() && src.IsMapType():
		return true
	case dst.IsTupleType() && src.IsTupleType():
		for i, e := range src.TupleElementTypes() {
			if i < dst.Length() && lossy(e, dst.TupleElementType(i)) {
				return true
			}
		}
		return false
	}
	return false
}

// stable: the call gives the same answer on repeated runs (Go map iteration order inside go-cty)
func stableConvert(v cty.Value, t cty.Type) (ret cty.Value, err error, p bool, pmsg string, stable bool) {
	stable = true
	for k := 0; k < 4; k++ {
		var r2 cty.Value
		var e2 error
		p2, m2 := recovered(func() { r2, e2 = convert.Convert(v, t) })
		if k == 0 {
			ret, err, p, pmsg = r2, e2, p2, m2
			continue
		}
		if p2 != p || (e2 == nil) != (err == nil) || (e2 == nil && !p2 && !r2.RawEquals(ret)) {
			stable = false
		}
	}
	return
}

func c08Pair(c *Ctx, r *rng.R, v cty.Value, tt *gt.T, class string) {
	target := tt.Build()
	desc := map[string]interface{}{"v": cq.Show(v), "target": tt.String(), "kind": class}
	ret, err, p, pmsg, stable := stableConvert(v, target)
	c.Count("oracle_evals")
	if !stable {
		c.Fail("C08/nondeterministic", "Convert gives different answers on repeated calls", desc)
		return
	}
	if stringsOKSafe(v) && !hasHugeNumber(v) && (p || err != nil || (stringsOKSafe(ret) && !hasHugeNumber(ret))) {
		c.Add("convert/"+class, fmt.Sprintf("K08_convert %s %s %s", cq.Val(v), cq.Ty(target), resValE(ret, err, p)), desc, true)
	} else {
		c.Count("outside_model")
	}
	if p {
		c.Fail("C08/panic", "Convert panicked: "+trunc(pmsg, 200), desc)
		return
	}
	if err != nil {
		c.Count("outcome/error")
		return
	}
	c.Count("outcome/value")
	c.wfFrom(v, ret, "convert.Convert")
	if errs := ret.Type().TestConformance(target); len(errs) != 0 {
		c.Fail("C08/nonconforming", fmt.Sprintf("result type %#v does not conform to the requested type", ret.Type()), desc)
		return
	}
	if !ret.Type().Equals(ret.Type().WithoutOptionalAttributesDeep()) {
		c.Fail("C08/optional-annotation-kept", fmt.Sprintf("result type %#v carries optional-attribute annotations", ret.Type()), desc)
		return
	}
	// (an attribute the target adds as optional is resolved by nothing in the input)
	if fullyResolved(v) && ret.Type().HasDynamicTypes() && !gt.HasOpt(tt) {
		c.Fail("C08/unresolved-placeholder", fmt.Sprintf("result type %#v keeps a placeholder the input resolved", ret.Type()), desc)
	}
	if v.Type().Equals(target.WithoutOptionalAttributesDeep()) && !ret.RawEquals(v) {
		c.Fail("C08/identity", "conversion to the value's own type changed it: "+cq.Show(ret), desc)
	}
	var again cty.Value
	var err2 error
	if p2, m2 := recovered(func() { again, err2 = convert.Convert(ret, target) }); p2 || err2 != nil || !sameValue(again, ret) {
		c.Fail("C08/idempotent", fmt.Sprintf("converting the result again: panic=%v %s err=%v value=%s", p2, trunc(m2, 100), err2, cq.Show(again)), desc)
	}
	// round trip through the inverse conversion
	// (the inverse of a conversion offered as safe: string -> bool / number are parses of
	// several spellings and have no inverse)
	if convert.GetConversion(v.Type(), target) != nil && !lossy(v.Type(), ret.Type()) && v.IsWhollyKnown() && !v.ContainsMarked() {
		var back cty.Value
		var err3 error
		if p3, _ := recovered(func() { back, err3 = convert.Convert(ret, v.Type()) }); !p3 && err3 == nil {
			if eq := back.Equals(v); !(eq.IsKnown() && eq.True()) && !back.RawEquals(v) {
				sig := "C08/round-trip"
				if hasInexactNumberText(v) {
					sig = "C08/number-text-not-exact"
				}
				c.Fail(sig, "converting back gives "+cq.Show(back), desc)
			}
		}
	}
}

// sameValue: equal types, equal known parts, unknown parts with equal ranges, equal marks at equal
// paths (RawEquals also compares how an empty refinement is stored)
func sameValue(a, b cty.Value) bool {
	if a.RawEquals(b) {
		return true
	}
	if !a.Type().Equals(b.Type()) {
		return false
	}
	ua, pa := a.UnmarkDeepWithPaths()
	ub, pb := b.UnmarkDeepWithPaths()
	if len(pa)+len(pb) > 0 {
		// ValueMarks prints in Go map order: compare the mark sets as sorted lists
		key := func(x cty.PathValueMarks) string {
			var ms []string
			for m := range x.Marks {
				ms = append(ms, fmt.Sprintf("%#v", m))
			}
			sort.Strings(ms)
			return fmt.Sprintf("%#v %s", x.Path, strings.Join(ms, ","))
		}
		ma, mb := map[string]bool{}, map[string]bool{}
		for _, x := range pa {
			ma[key(x)] = true
		}
		for _, x := range pb {
			mb[key(x)] = true
		}
		if len(ma) != len(mb) {
			return false
		}
		for k := range ma {
			if !mb[k] {
				return false
			}
		}
	}
	return admitsWider(ua, ub) == "" && admitsWider(ub, ua) == ""
}

// a number whose shortest decimal text at its own precision denotes another number (precision below 512 bits)
func hasInexactNumberText(v cty.Value) bool {
	found := false
	recovered(func() {
		cty.Walk(v, func(p cty.Path, x cty.Value) (bool, error) {
			if x.Type() == cty.Number && x.IsKnown() && !x.IsNull() {
				f := x.AsBigFloat()
				if f.Prec() < 512 && !f.IsInf() {
					if g, _, err := big.ParseFloat(f.Text('f', -1), 10, 512, big.ToNearestEven); err == nil && g.Cmp(f) != 0 {
						found = true
					}
				}
			}
			return true, nil
		})
	})
	return found
}

// c08Structural: a structural value (object or tuple) whose member types have a common type only through
// conversions, converted to a collection whose element type is left open: whatever type the known value's
// conversion settles on, the unknown's and the null's conversion settle on too (the input's type says it all)
func c08Structural(c *Ctx, r *rng.R) {
	L, S, M := func(e *gt.T) *gt.T { return &gt.T{K: gt.List, Elem: e} }, func(e *gt.T) *gt.T { return &gt.T{K: gt.Set, Elem: e} }, func(e *gt.T) *gt.T { return &gt.T{K: gt.Map, Elem: e} }
	N, St, B := gt.P(gt.Num), gt.P(gt.Str), gt.P(gt.Bool)
	groups := [][]*gt.T{{L(N), S(St)}, {L(St), S(N), L(B)}, {N, St}, {B, St, N}, {L(N), L(St)}, {M(N), M(St)},
		{&gt.T{K: gt.Tuple, Elems: []*gt.T{N, N}}, L(St)}, {&gt.T{K: gt.Obj, Attrs: []gt.Attr{{Name: "x", T: N}}}, M(St)}, {S(N), S(B)}, {N, N}}
	g := groups[r.Intn(len(groups))]
	var src, tgt *gt.T
	if r.Bool() {
		src = &gt.T{K: gt.Obj}
		for k, m := range g {
			src.Attrs = append(src.Attrs, gt.Attr{Name: []string{"a", "b", "c"}[k], T: m})
		}
		tgt = M(gt.P(gt.Dyn))
	} else {
		src = &gt.T{K: gt.Tuple, Elems: g}
		tgt = []*gt.T{L(gt.P(gt.Dyn)), S(gt.P(gt.Dyn))}[r.Intn(2)]
	}
	if r.Chance(25) { // one level down
		src = &gt.T{K: gt.Tuple, Elems: []*gt.T{src, B}}
		tgt = &gt.T{K: gt.Tuple, Elems: []*gt.T{tgt, B}}
	}
	target := tgt.Build()
	var known, rk cty.Value
	var ek error
	pk := false
	for try := 0; try < 6; try++ { // (an unsafe conversion can refuse particular values: "abc" is no number)
		known = gv.Gen(r, src, gv.KnownCfg, 2)
		pk, _ = recovered(func() { rk, ek = convert.Convert(known, target) })
		if !pk && ek == nil {
			break
		}
	}
	desc := map[string]interface{}{"source": src.String(), "target": tgt.String(), "known": cq.Show(known)}
	c08Pair(c, r, known, tgt, "structural/known")
	for _, u := range []cty.Value{cty.UnknownVal(src.Build()), cty.NullVal(src.Build()), cty.UnknownVal(src.Build()).RefineNotNull()} {
		c08Pair(c, r, u, tgt, "structural/unknown-or-null")
		var ru cty.Value
		var eu error
		pu, _ := recovered(func() { ru, eu = convert.Convert(u, target) })
		c.Count("oracle_evals")
		switch {
		case pk || pu:
		case ek == nil && eu != nil:
			c.Fail("C08/unknown-fails", fmt.Sprintf("a known value of this type converts, %s does not: %v", cq.Show(u), eu), desc)
		case ek == nil && !ru.Type().Equals(rk.Type()):
			c.Fail("C08/unknown-result-type-differs", fmt.Sprintf("a known value of this type converts to %#v, %s to %#v", rk.Type(), cq.Show(u), ru.Type()), desc)
		}
	}
}

// c08NullMemberUnderPlaceholder: a tuple (or object) whose members all have one placeholder-free type,
// some of them null, converted to a set / list / map whose element type has a placeholder BELOW its
// top level (set(object({a=dynamic})), list(list(dynamic)), ...): the members resolve the placeholder,
// the null ones too, so the result type is placeholder-free, equals the type an unknown or null of the
// same source type converts to, and the conversion cannot fail where that one succeeds.
func c08NullMemberUnderPlaceholder(c *Ctx, r *rng.R) {
	L, S, M := func(e *gt.T) *gt.T { return &gt.T{K: gt.List, Elem: e} }, func(e *gt.T) *gt.T { return &gt.T{K: gt.Set, Elem: e} }, func(e *gt.T) *gt.T { return &gt.T{K: gt.Map, Elem: e} }
	leaf := []*gt.T{gt.P(gt.Str), gt.P(gt.Num), gt.P(gt.Bool)}[r.Intn(3)]
	var member, memberDyn *gt.T
	switch r.Intn(4) {
	case 0:
		member, memberDyn = &gt.T{K: gt.Obj, Attrs: []gt.Attr{{Name: "a", T: leaf}}}, &gt.T{K: gt.Obj, Attrs: []gt.Attr{{Name: "a", T: gt.P(gt.Dyn)}}}
	case 1:
		member, memberDyn = L(leaf), L(gt.P(gt.Dyn))
	case 2:
		member, memberDyn = M(leaf), M(gt.P(gt.Dyn))
	default:
		member, memberDyn = &gt.T{K: gt.Tuple, Elems: []*gt.T{leaf, gt.P(gt.Bool)}}, &gt.T{K: gt.Tuple, Elems: []*gt.T{gt.P(gt.Dyn), gt.P(gt.Bool)}}
	}
	n := 1 + r.Intn(3)
	var src, tgt *gt.T
	vals := make([]cty.Value, n)
	anyKnown := false
	for k := range vals {
		if r.Chance(50) {
			vals[k] = cty.NullVal(member.Build())
			if r.Chance(25) {
				vals[k] = vals[k].Mark("m")
			}
		} else {
			vals[k] = gv.Gen(r, member, gv.KnownCfg, 2)
			anyKnown = true
		}
	}
	_ = anyKnown
	var v cty.Value
	if r.Chance(70) {
		src = &gt.T{K: gt.Tuple}
		for range vals {
			src.Elems = append(src.Elems, member)
		}
		tgt = []*gt.T{S(memberDyn), L(memberDyn), S(memberDyn)}[r.Intn(3)]
		v = cty.TupleVal(vals)
	} else {
		src = &gt.T{K: gt.Obj}
		attrs := map[string]cty.Value{}
		for k := range vals {
			nm := []string{"a", "b", "c"}[k]
			src.Attrs = append(src.Attrs, gt.Attr{Name: nm, T: member})
			attrs[nm] = vals[k]
		}
		tgt = M(memberDyn)
		v = cty.ObjectVal(attrs)
	}
	if r.Chance(30) { // one or two levels further down
		src, tgt = &gt.T{K: gt.Obj, Attrs: []gt.Attr{{Name: "s", T: src}}}, &gt.T{K: gt.Obj, Attrs: []gt.Attr{{Name: "s", T: tgt}}}
		v = cty.ObjectVal(map[string]cty.Value{"s": v})
		if r.Bool() {
			src, tgt = M(src), M(tgt)
			v = cty.MapVal(map[string]cty.Value{"k": v})
		}
	}
	target := tgt.Build()
	desc := map[string]interface{}{"source": src.String(), "target": tgt.String(), "value": cq.Show(v), "family": "null-member-under-placeholder"}
	c08Pair(c, r, v, tgt, "structural/null-member")
	var rk, ru cty.Value
	var ek, eu error
	pk, _ := recovered(func() { rk, ek = convert.Convert(v, target) })
	pu, _ := recovered(func() { ru, eu = convert.Convert(cty.UnknownVal(src.Build()), target) })
	c.Count("oracle_evals")
	switch {
	case pk || pu || eu != nil:
	case ek != nil:
		c.Fail("C08/known-fails-where-unknown-converts", fmt.Sprintf("an unknown of this type converts to %#v, this value of the type does not: %v", ru.Type(), ek), desc)
	case !ru.Type().Equals(rk.Type()):
		c.Fail("C08/unknown-result-type-differs", fmt.Sprintf("this value converts to %#v, an unknown of its type to %#v", rk.Type(), ru.Type()), desc)
	}
}

// c08MapToObject: maps with null elements and missing keys converted to object types whose attributes are
// required or optional, of the element type, of a type it converts to, or of a type it does not convert to
func c08MapToObject(c *Ctx, r *rng.R) {
	et := []*gt.T{gt.P(gt.Str), gt.P(gt.Num), gt.P(gt.Bool)}[r.Intn(3)]
	m := map[string]cty.Value{}
	for _, k := range []string{"a", "b", "c"} {
		switch r.Intn(4) {
		case 0: // absent
		case 1:
			m[k] = cty.NullVal(et.Build())
		default:
			m[k] = gv.Gen(r, et, gv.KnownCfg, 1)
		}
	}
	var v cty.Value
	if len(m) == 0 {
		v = cty.MapValEmpty(et.Build())
	} else {
		v = cty.MapVal(m)
	}
	o := &gt.T{K: gt.Obj}
	for _, k := range []string{"a", "b", "c"}[:2+r.Intn(2)] {
		at := et
		switch r.Intn(4) {
		case 0:
			at = gt.P(gt.Str)
		case 1:
			at = &gt.T{K: gt.List, Elem: gt.P(gt.Str)}
		case 2:
			at = &gt.T{K: gt.Obj, Attrs: []gt.Attr{{Name: "q", T: gt.P(gt.Bool)}}}
		}
		o.Attrs = append(o.Attrs, gt.Attr{Name: k, T: at})
		if r.Chance(55) {
			o.Opt = append(o.Opt, k)
		}
	}
	c08Pair(c, r, v, o, "map-to-object")
	if r.Chance(40) {
		// elements that are tuples, attributes that are tuples of the same and of other lengths with placeholders inside;
		// the map known, unknown and null
		tup := func(ts ...*gt.T) *gt.T { return &gt.T{K: gt.Tuple, Elems: ts} }
		S, N, D := gt.P(gt.Str), gt.P(gt.Num), gt.P(gt.Dyn)
		mt := &gt.T{K: gt.Map, Elem: tup(S, S)}
		o2 := &gt.T{K: gt.Obj}
		for _, k := range []string{"a", "b"} {
			at := []*gt.T{tup(S, S), tup(S, D), tup(S, D, N), tup(D), tup(S, S, S)}[r.Intn(5)]
			o2.Attrs = append(o2.Attrs, gt.Attr{Name: k, T: at})
			if r.Bool() {
				o2.Opt = append(o2.Opt, k)
			}
		}
		km := cty.MapVal(map[string]cty.Value{"b": cty.TupleVal([]cty.Value{cty.StringVal("p"), cty.StringVal("q")})})
		for _, mv := range []cty.Value{km, cty.UnknownVal(mt.Build()), cty.NullVal(mt.Build()), cty.ListVal([]cty.Value{cty.UnknownVal(mt.Build())})} {
			tg := o2
			if mv.Type().IsListType() {
				tg = &gt.T{K: gt.List, Elem: o2}
			}
			c08Pair(c, r, mv, tg, "map-of-tuples-to-object")
		}
	}
}

func genC08(c *Ctx, r *rng.R, i int) {
	if r.Chance(6) {
		c08Structural(c, r)
		return
	}
	if r.Chance(5) {
		c08MapToObject(c, r)
		return
	}
	if i%17 == 5 {
		c08NullMemberUnderPlaceholder(c, r)
		return
	}
	t := gt.Gen(r, c08cfg)
	var tt *gt.T
	class := "derived"
	switch r.Intn(10) {
	case 0:
		tt = gt.Gen(r, gt.Cfg{Depth: 2, DynPct: 15, OptPct: 20, MaxWidth: 3})
		class = "unrelated"
	case 1:
		tt = t.Clone()
		class = "same"
	default:
		tt = deriveTarget(r, t)
	}
	cfg := gv.DefaultCfg
	cfg.UnkPct, cfg.NullPct, cfg.MarkPct = 10, 8, 5
	switch r.Intn(3) {
	case 0: // known vs unknown pair: the unknown's conversion must admit the known value's conversion
		k := gv.Gen(r, t, gv.KnownCfg, 3)
		u := gv.Weaken(r, k, 35, true)
		c08Pair(c, r, k, tt, class+"/known")
		c08Pair(c, r, u, tt, class+"/weakened")
		target := tt.Build()
		var rk, ru cty.Value
		var ek, eu error
		pk, _ := recovered(func() { rk, ek = convert.Convert(k, target) })
		pu, _ := recovered(func() { ru, eu = convert.Convert(u, target) })
		desc := map[string]interface{}{"known": cq.Show(k), "weakened": cq.Show(u), "target": tt.String()}
		if !pk && !pu && ek == nil {
			if eu != nil {
				sig := "C08/unknown-fails"
				if strings.Contains(eu.Error(), "types must all match") && target.HasDynamicTypes() && hasEmptyCollection(k) {
					// KF-C08-3: the two typings of KF-C08-2 met as siblings (an empty collection keeps the placeholder,
					// the unknown next to it resolves it), so the collection around them cannot be built
					sig = "C08/unknown-next-to-empty-collection-under-placeholder"
				}
				c.Fail(sig, "the conversion succeeds on a value but fails on an unknown that admits it: "+eu.Error(), desc)
			} else if why := gv.Admits(ru, rk); why != "" {
				sig := "C08/unknown-not-admitting"
				if strings.Contains(why, "conform") && rk.Type().HasDynamicTypes() && !ru.Type().Equals(rk.Type()) {
					sig = "C08/unknown-type-resolves-placeholder-kept-by-value"
				}
				c.Fail(sig, "conversion of the weakened value does not admit the conversion of the value: "+why+"; "+cq.Show(ru)+" vs "+cq.Show(rk), desc)
			}
		}
	default:
		v := gv.Gen(r, t, cfg, 3)
		c08Pair(c, r, v, tt, class)
	}
	// a conversion object is a pure function: used again on another value it answers as a fresh one does
	if r.Chance(30) {
		src := gt.Gen(r, gt.Cfg{Depth: 2, DynPct: 35, OptPct: 0, CapPct: 0, MaxWidth: 3})
		dst := deriveTarget(r, src)
		if !gt.HasDyn(dst) {
			dst = gt.Generalize(r, dst)
		}
		sT, dT := src.Build(), dst.Build()
		var conv convert.Conversion
		if p, _ := recovered(func() { conv = convert.GetConversionUnsafe(sT, dT) }); !p && conv != nil {
			for k := 0; k < 3; k++ {
				ct := gt.Resolve(r, src, gt.Cfg{Depth: 1, MaxWidth: 2}).Build()
				v := []cty.Value{cty.NullVal(ct), cty.UnknownVal(ct), cty.UnknownVal(ct).RefineNotNull()}[r.Intn(3)]
				var a, b cty.Value
				var ea, eb error
				pa, _ := recovered(func() { a, ea = conv(v) })
				pb, _ := recovered(func() { b, eb = convert.GetConversionUnsafe(sT, dT)(v) })
				c.Count("oracle_evals")
				d := map[string]interface{}{"in": src.String(), "out": dst.String(), "v": cq.Show(v), "use": k}
				if pa != pb || (ea == nil) != (eb == nil) || (!pa && ea == nil && !sameValue(a, b)) {
					c.Fail("C08/conversion-stateful", fmt.Sprintf("a conversion used before answers %s (err=%v), a fresh one %s (err=%v)", cq.Show(a), ea, cq.Show(b), eb), d)
					break
				}
			}
		}
	}
	// lookup: safe implies unsafe; a safe conversion to a placeholder-free target never fails on values of the source type
	in, out := t.Build(), tt.Build()
	var cs, cu convert.Conversion
	if p, pm := recovered(func() { cs = convert.GetConversion(in, out); cu = convert.GetConversionUnsafe(in, out) }); p {
		c.Fail("C08/panic", "GetConversion panicked: "+trunc(pm, 200), map[string]interface{}{"in": t.String(), "out": tt.String()})
		return
	}
	desc := map[string]interface{}{"in": t.String(), "out": tt.String()}
	c.Add("lookup", fmt.Sprintf("K08_exists %s %s false %s", cq.Ty(in), cq.Ty(out), cq.Bool(cs != nil)), desc, true)
	c.Add("lookup", fmt.Sprintf("K08_exists %s %s true %s", cq.Ty(in), cq.Ty(out), cq.Bool(cu != nil)), desc, true)
	if cs != nil && cu == nil {
		c.Fail("C08/safe-not-unsafe", "a conversion is offered as safe but not as unsafe", desc)
	}
	for _, pair := range []struct {
		f      convert.Conversion
		unsafe bool
	}{{cs, false}, {cu, true}} {
		if pair.f == nil {
			continue
		}
		for k := 0; k < 2; k++ {
			v := gv.Gen(r, t, cfg, 3)
			var ret cty.Value
			var err error
			p, pm := recovered(func() { ret, err = pair.f(v) })
			d2 := map[string]interface{}{"in": t.String(), "out": tt.String(), "v": cq.Show(v), "unsafe": pair.unsafe}
			c.Count("oracle_evals")
			if stringsOKSafe(v) && !hasHugeNumber(v) && (p || err != nil || (stringsOKSafe(ret) && !hasHugeNumber(ret))) {
				c.Add("apply", fmt.Sprintf("K08_apply %s %s %s %s %s", cq.Ty(in), cq.Ty(out), cq.Bool(pair.unsafe), cq.Val(v), resValE(ret, err, p)), d2, true)
			}
			switch {
			case p:
				c.Fail("C08/panic", "a returned conversion panicked: "+trunc(pm, 200), d2)
			case err != nil:
				if !pair.unsafe && !out.HasDynamicTypes() {
					c.Fail("C08/safe-fails", "a conversion offered as safe to a placeholder-free type failed: "+err.Error(), d2)
				}
			default:
				c.wfFrom(v, ret, "conversion")
				if errs := ret.Type().TestConformance(out); len(errs) != 0 {
					c.Fail("C08/nonconforming", fmt.Sprintf("result type %#v does not conform to the requested type", ret.Type()), d2)
				}
			}
		}
	}
}

// ---------- C09 ----------
// corpus09: type lists and values whose returned conversions misbehaved before
func corpus09(c *Ctx) {
	objT := cty.Object(map[string]cty.Type{"a": cty.EmptyTuple, "b": cty.Object(map[string]cty.Type{"k": cty.Bool})})
	type item struct {
		tys    []cty.Type
		unsafe bool
		idx    int
		vals   []cty.Value
	}
	items := []item{
		{[]cty.Type{cty.Map(cty.DynamicPseudoType), cty.DynamicPseudoType, objT}, true, 1,
			[]cty.Value{cty.NullVal(cty.Tuple([]cty.Type{cty.Bool})), cty.UnknownVal(cty.List(cty.String)), cty.NullVal(cty.String), cty.UnknownVal(cty.Set(cty.Number)).RefineNotNull()}},
		{[]cty.Type{cty.DynamicPseudoType, objT}, true, 0, []cty.Value{cty.NullVal(cty.EmptyTuple), cty.UnknownVal(cty.Bool)}},
		{[]cty.Type{cty.Tuple([]cty.Type{cty.Number}), cty.List(cty.DynamicPseudoType), cty.EmptyTuple}, false, 2, []cty.Value{cty.EmptyTupleVal}},
		{[]cty.Type{cty.List(cty.DynamicPseudoType), cty.Tuple([]cty.Type{cty.String}), cty.EmptyTuple, cty.List(cty.Tuple([]cty.Type{cty.Bool}))}, false, 2, []cty.Value{cty.EmptyTupleVal}},
		{[]cty.Type{cty.Tuple([]cty.Type{cty.Number}), cty.Tuple([]cty.Type{cty.Number, cty.Number}), cty.List(cty.String)}, false, 0, []cty.Value{cty.TupleVal([]cty.Value{cty.NumberIntVal(1)})}},
	}
	for _, it := range items {
		var ut cty.Type
		var convs []convert.Conversion
		p, pm := recovered(func() {
			if it.unsafe {
				ut, convs = convert.UnifyUnsafe(it.tys)
			} else {
				ut, convs = convert.Unify(it.tys)
			}
		})
		d := map[string]interface{}{"types": fmt.Sprintf("%#v", it.tys), "unsafe": it.unsafe}
		c.Count("oracle_evals")
		if p {
			c.Fail("C09/panic", "unification panicked: "+trunc(pm, 200), d)
			continue
		}
		if isNilType(ut) || it.idx >= len(convs) || convs[it.idx] == nil {
			continue
		}
		for _, v := range it.vals {
			var ret cty.Value
			var err error
			p2, pm2 := recovered(func() { ret, err = convs[it.idx](v) })
			d2 := map[string]interface{}{"types": d["types"], "unsafe": it.unsafe, "input": it.idx, "v": cq.Show(v)}
			switch {
			case p2:
				c.Fail("C09/panic", "a returned conversion panicked: "+trunc(pm2, 200), d2)
			case err == nil:
				if errs := ret.Type().TestConformance(ut); len(errs) != 0 {
					c.Fail("C09/not-unified-type", fmt.Sprintf("conversion %d yields type %#v, unified type %#v", it.idx, ret.Type(), ut), d2)
				}
				if stringsOKSafe(v) && stringsOKSafe(ret) {
					c.Add("apply", fmt.Sprintf("K09_apply %s %s %d %s %s", cq.List(tyList(it.tys)), cq.Bool(it.unsafe), it.idx, cq.Val(v), resValE(ret, err, false)), d2, true)
				}
			}
		}
	}
}

func genC09(c *Ctx, r *rng.R, i int) {
	if i == 0 {
		corpus09(c)
		return
	}
	n := 1 + r.Intn(4)
	cfgT := gt.Cfg{Depth: 2, DynPct: 8, OptPct: 0, CapPct: 0, MaxWidth: 3}
	base := gt.Gen(r, cfgT)
	var ts []*gt.T
	for k := 0; k < n; k++ {
		switch r.Intn(5) {
		case 0:
			ts = append(ts, gt.Gen(r, cfgT))
		case 1:
			ts = append(ts, base.Clone())
		default:
			ts = append(ts, deriveTargetNoOpt(r, base))
		}
	}
	if r.Chance(25) { // tuples among lists / objects among maps: the composed two-step conversions
		ts = nil
		prim := func() *gt.T { return gt.P([]gt.Kind{gt.Num, gt.Bool, gt.Str, gt.Num}[r.Intn(4)]) }
		n = 2 + r.Intn(3)
		structs := 0
		for k := 0; k < n; k++ {
			asStruct := r.Chance(60) || (k == n-1 && structs == 0)
			if k == 0 {
				asStruct = false
			}
			if r.Bool() == (i%2 == 0) { // lists and tuples
				if asStruct {
					t := &gt.T{K: gt.Tuple}
					for q, m := 0, r.Intn(4); q < m; q++ {
						t.Elems = append(t.Elems, prim())
					}
					ts = append(ts, t)
					structs++
				} else {
					ts = append(ts, &gt.T{K: gt.List, Elem: []*gt.T{gt.P(gt.Str), prim(), gt.P(gt.Dyn)}[r.Intn(3)]})
				}
			} else { // maps and objects
				if asStruct {
					t := &gt.T{K: gt.Obj}
					for _, nm := range []string{"a", "b", "c"}[:r.Intn(4)] {
						t.Attrs = append(t.Attrs, gt.Attr{Name: nm, T: prim()})
					}
					ts = append(ts, t)
					structs++
				} else {
					ts = append(ts, &gt.T{K: gt.Map, Elem: []*gt.T{gt.P(gt.Str), prim(), gt.P(gt.Dyn)}[r.Intn(3)]})
				}
			}
		}
		// keep one family per list
		fam := ts[0].K
		for k, t := range ts {
			if fam == gt.List && (t.K == gt.Map || t.K == gt.Obj) {
				ts[k] = &gt.T{K: gt.Tuple, Elems: []*gt.T{prim()}}
			}
			if fam == gt.Map && (t.K == gt.List || t.K == gt.Tuple) {
				ts[k] = &gt.T{K: gt.Obj, Attrs: []gt.Attr{{Name: "a", T: prim()}}}
			}
		}
	}
	tys := make([]cty.Type, n)
	var names []string
	for k, t := range ts {
		tys[k] = t.Build()
		names = append(names, t.String())
	}
	desc := map[string]interface{}{"types": strings.Join(names, " | ")}
	type ures struct {
		t     cty.Type
		convs []convert.Conversion
	}
	run := func(unsafe bool) (u ures, p bool, pm string) {
		p, pm = recovered(func() {
			if unsafe {
				u.t, u.convs = convert.UnifyUnsafe(tys)
			} else {
				u.t, u.convs = convert.Unify(tys)
			}
		})
		return
	}
	var results [2]ures
	for m, unsafe := range []bool{false, true} {
		u, p, pm := run(unsafe)
		c.Count("oracle_evals")
		d := map[string]interface{}{"types": desc["types"], "unsafe": unsafe}
		if p {
			c.Fail("C09/panic", "unification panicked: "+trunc(pm, 200), d)
			return
		}
		// stability under repetition (map iteration inside go-cty)
		stable := true
		for k := 0; k < 3; k++ {
			u2, p2, _ := run(unsafe)
			if p2 || !sameTy(u2.t, u.t) {
				stable = false
			}
		}
		if !stable {
			c.Fail("C09/nondeterministic", "unification gives different types on repeated calls", d)
			return
		}
		results[m] = u
		obs := "None"
		if !isNilType(u.t) {
			var flags []string
			for _, f := range u.convs {
				flags = append(flags, cq.Bool(f != nil))
			}
			obs = fmt.Sprintf("(Some (%s, %s))", cq.Ty(u.t), cq.List(flags))
		}
		c.Add("unify", fmt.Sprintf("K09_unify %s %s %s", cq.List(tyList(tys)), cq.Bool(unsafe), obs), d, n > 1)
		if isNilType(u.t) {
			continue
		}
		if len(u.convs) != len(tys) {
			c.Fail("C09/conversion-count", fmt.Sprintf("%d conversions for %d types", len(u.convs), len(tys)), d)
			continue
		}
		allEqual := true
		for _, t := range tys {
			if !t.Equals(tys[0]) {
				allEqual = false
			}
		}
		if allEqual {
			if !u.t.Equals(tys[0]) {
				c.Fail("C09/equal-types", fmt.Sprintf("unifying equal types gives %#v", u.t), d)
			}
			for _, f := range u.convs {
				if f != nil && !tys[0].HasDynamicTypes() {
					c.Fail("C09/equal-types", "unifying equal types returns a conversion", d)
				}
			}
		}
		for k, t := range tys {
			f := u.convs[k]
			if allFree(tys) {
				if (f == nil) != t.Equals(u.t) {
					c.Fail("C09/conversion-absent-iff-equal", fmt.Sprintf("input %d: conversion nil=%v, equals result=%v", k, f == nil, t.Equals(u.t)), d)
				}
			}
			// (whether safe unification relied on an unsafe step is not observable on the lookup: a composed
			// conversion may exist where no direct safe one does; it shows as a failure on some value of the
			// input type, which the applications below look for)
			// apply to values of the input type
			cfg := gv.DefaultCfg
			cfg.UnkPct, cfg.NullPct, cfg.MarkPct = 8, 8, 4
			for q := 0; q < 2; q++ {
				v := gv.Gen(r, ts[k], cfg, 3)
				var ret cty.Value
				var err error
				ret = v
				p4, pm4 := false, ""
				if f != nil {
					p4, pm4 = recovered(func() { ret, err = f(v) })
				}
				d4 := map[string]interface{}{"types": desc["types"], "unsafe": unsafe, "input": k, "v": cq.Show(v)}
				c.Count("oracle_evals")
				if stringsOKSafe(v) && !hasHugeNumber(v) && (p4 || err != nil || (stringsOKSafe(ret) && !hasHugeNumber(ret))) {
					c.Add("apply", fmt.Sprintf("K09_apply %s %s %d %s %s", cq.List(tyList(tys)), cq.Bool(unsafe), k, cq.Val(v), resValE(ret, err, p4)), d4, true)
				}
				switch {
				case p4:
					c.Fail("C09/panic", "a returned conversion panicked: "+trunc(pm4, 200), d4)
				case err != nil:
					if !unsafe && allFree(tys) {
						c.Fail("C09/safe-conversion-fails", "a conversion returned by safe unification failed: "+err.Error(), d4)
					}
				default:
					c.wfFrom(v, ret, "unify conversion")
					if errs := ret.Type().TestConformance(u.t); len(errs) != 0 {
						c.Fail("C09/not-unified-type", fmt.Sprintf("conversion %d yields type %#v, unified type %#v", k, ret.Type(), u.t), d4)
					}
				}
			}
		}
	}
	// unsafe succeeds whenever safe does (placeholder-free inputs)
	if allFree(tys) && !isNilType(results[0].t) && isNilType(results[1].t) {
		c.Fail("C09/unsafe-fails-where-safe-succeeds", fmt.Sprintf("safe unification gives %#v, unsafe unification fails", results[0].t), desc)
	}
}

func allFree(tys []cty.Type) bool {
	for _, t := range tys {
		if t.HasDynamicTypes() {
			return false
		}
	}
	return true
}

func sameTy(a, b cty.Type) bool {
	an, bn := isNilType(a), isNilType(b)
	if an || bn {
		return an && bn
	}
	return a.Equals(b)
}

func isNilType(t cty.Type) (r bool) {
	defer func() {
		if recover() != nil {
			r = false
		}
	}()
	return t == cty.NilType
}

func tyList(tys []cty.Type) []string {
	out := make([]string, len(tys))
	for i, t := range tys {
		out[i] = cq.Ty(t)
	}
	return out
}

func deriveTargetNoOpt(r *rng.R, t *gt.T) *gt.T {
	m := deriveTarget(r, t)
	for _, p := range gt.Positions(m) {
		p.Opt = nil
	}
	return m
}

func hasEmptyCollection(v cty.Value) bool {
	found := false
	recovered(func() {
		cty.Walk(v, func(p cty.Path, x cty.Value) (bool, error) {
			if x.IsKnown() && !x.IsNull() && x.Type().IsCollectionType() && x.LengthInt() == 0 {
				found = true
			}
			return true, nil
		})
	})
	return found
}
