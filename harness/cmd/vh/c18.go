package main

import (
	"fmt"
	"math"
	"math/big"
	"reflect"

	"github.com/zclconf/go-cty/cty"
	"github.com/zclconf/go-cty/cty/gocty"
	"verifharness/internal/cq"
	"verifharness/internal/gv"
	"verifharness/internal/rng"
)

func init() {
	register(&Prop{ID: "C18", Imports: "Base BigFloat Gocty", CaseType: "k18", Check: "k18_check", PropFn: "k18_prop", Gen: genC18})
}

type numTarget struct {
	coq  string
	name string
	mk   func() interface{} // pointer to a zero target
	bits int
	kind string // int uint f32 f64 bigint bigfloat
}

var numTargets18 = []numTarget{
	{"(NTInt 8)", "int8", func() interface{} { return new(int8) }, 8, "int"},
	{"(NTInt 16)", "int16", func() interface{} { return new(int16) }, 16, "int"},
	{"(NTInt 32)", "int32", func() interface{} { return new(int32) }, 32, "int"},
	{"(NTInt 64)", "int64", func() interface{} { return new(int64) }, 64, "int"},
	{"(NTInt 64)", "int", func() interface{} { return new(int) }, 64, "int"},
	{"(NTUint 8)", "uint8", func() interface{} { return new(uint8) }, 8, "uint"},
	{"(NTUint 16)", "uint16", func() interface{} { return new(uint16) }, 16, "uint"},
	{"(NTUint 32)", "uint32", func() interface{} { return new(uint32) }, 32, "uint"},
	{"(NTUint 64)", "uint64", func() interface{} { return new(uint64) }, 64, "uint"},
	{"(NTUint 64)", "uint", func() interface{} { return new(uint) }, 64, "uint"},
	{"NTF32", "float32", func() interface{} { return new(float32) }, 32, "f32"},
	{"NTF64", "float64", func() interface{} { return new(float64) }, 64, "f64"},
	{"NTBigInt", "big.Int", func() interface{} { return new(big.Int) }, 0, "bigint"},
	{"NTBigFloat", "big.Float", func() interface{} { return new(big.Float) }, 0, "bigfloat"},
}

var boundaryNums []cty.Value

func init() {
	add := func(v cty.Value) { boundaryNums = append(boundaryNums, v) }
	for _, w := range []uint{7, 8, 15, 16, 31, 32, 63, 64} {
		p := new(big.Int).Lsh(big.NewInt(1), w)
		for d := int64(-2); d <= 1; d++ {
			x := new(big.Int).Add(p, big.NewInt(d))
			add(cty.NumberVal(new(big.Float).SetInt(x)))
			add(cty.NumberVal(new(big.Float).SetInt(new(big.Int).Neg(x))))
		}
	}
	for _, s := range []string{"0", "-0", "0.5", "1.5", "-1.5", "200.75", "255.5", "-0.25", "1e39", "-1e39", "3.4028234663852886e38", "3.4028235677973366e38", "3.5e38",
		"1e400", "-1e400", "1e-400", "1e-46", "1.4e-45", "0.1", "16777217", "9007199254740993", "1e30", "123456789012345678901234567890", "2.5", "1e-320"} {
		add(cty.MustParseNumberVal(s))
	}
	add(cty.PositiveInfinity)
	add(cty.NegativeInfinity)
	add(cty.NumberFloatVal(math.MaxFloat64))
	add(cty.NumberFloatVal(math.MaxFloat32))
	add(cty.NumberFloatVal(math.SmallestNonzeroFloat32))
	add(cty.NumberFloatVal(math.Copysign(0, -1)))
}

func coqGnum(target interface{}) string {
	switch t := target.(type) {
	case *int8:
		return fmt.Sprintf("(GInt %s)", cq.Z(int64(*t)))
	case *int16:
		return fmt.Sprintf("(GInt %s)", cq.Z(int64(*t)))
	case *int32:
		return fmt.Sprintf("(GInt %s)", cq.Z(int64(*t)))
	case *int64:
		return fmt.Sprintf("(GInt %s)", cq.Z(*t))
	case *int:
		return fmt.Sprintf("(GInt %s)", cq.Z(int64(*t)))
	case *uint8:
		return fmt.Sprintf("(GInt %s)", cq.BigZ(new(big.Int).SetUint64(uint64(*t))))
	case *uint16:
		return fmt.Sprintf("(GInt %s)", cq.BigZ(new(big.Int).SetUint64(uint64(*t))))
	case *uint32:
		return fmt.Sprintf("(GInt %s)", cq.BigZ(new(big.Int).SetUint64(uint64(*t))))
	case *uint64:
		return fmt.Sprintf("(GInt %s)", cq.BigZ(new(big.Int).SetUint64(*t)))
	case *uint:
		return fmt.Sprintf("(GInt %s)", cq.BigZ(new(big.Int).SetUint64(uint64(*t))))
	case *float32:
		return "(GFloat " + cq.BF(new(big.Float).SetFloat64(float64(*t))) + ")"
	case *float64:
		return "(GFloat " + cq.BF(new(big.Float).SetFloat64(*t)) + ")"
	case *big.Int:
		return "(GBigInt " + cq.BigZ(t) + ")"
	case *big.Float:
		return "(GBigFloat " + cq.BF(t) + ")"
	}
	panic("coqGnum")
}

// representable: the specification of "decoding succeeds exactly when"
func representable(f *big.Float, t numTarget) (ok bool, clear bool) {
	switch t.kind {
	case "int", "uint":
		if f.IsInf() || !f.IsInt() {
			return false, true
		}
		i, _ := f.Int(nil)
		lo, hi := new(big.Int), new(big.Int)
		if t.kind == "int" {
			lo.Neg(new(big.Int).Lsh(big.NewInt(1), uint(t.bits-1)))
			hi.Sub(new(big.Int).Lsh(big.NewInt(1), uint(t.bits-1)), big.NewInt(1))
		} else {
			hi.Sub(new(big.Int).Lsh(big.NewInt(1), uint(t.bits)), big.NewInt(1))
		}
		return i.Cmp(lo) >= 0 && i.Cmp(hi) <= 0, true
	case "f64", "f32":
		if f.IsInf() {
			return true, true
		}
		max := math.MaxFloat64
		if t.kind == "f32" {
			max = math.MaxFloat32
		}
		a := new(big.Float).Abs(f)
		c := a.Cmp(big.NewFloat(max))
		if c <= 0 {
			return true, true
		}
		// beyond the largest finite value: refused, except that values within half an ulp round back to it
		return false, a.Cmp(new(big.Float).Mul(big.NewFloat(max), big.NewFloat(1.0000001))) > 0
	case "bigint":
		return !f.IsInf() && f.IsInt(), true
	}
	return true, true
}

type inner struct {
	Name string  `cty:"name"`
	N    *int    `cty:"n"`
	F    float64 `cty:"f"`
}
type outer struct {
	ID    uint16            `cty:"id"`
	Tags  []string          `cty:"tags"`
	Attrs map[string]int8   `cty:"attrs"`
	In    inner             `cty:"in"`
	PIn   *inner            `cty:"pin"`
	Dyn   cty.Value         `cty:"dyn"`
	Deep  map[string][]*int `cty:"deep"`
	PMap  map[string]*int   `cty:"pmap"`
	SMap  map[string]inner  `cty:"smap"`
	PSl   []*inner          `cty:"psl"`
	skip  int
}

func genOuter(r *rng.R) outer {
	pi := func() *int {
		if r.Chance(30) {
			return nil
		}
		x := r.Intn(200) - 100
		return &x
	}
	in := func() inner {
		return inner{Name: gv.GenStr(r), N: pi(), F: []float64{0, 1.5, -2.25, math.Inf(1), 1e300, 5e-324, math.Copysign(0, -1)}[r.Intn(7)]}
	}
	o := outer{ID: uint16(r.Intn(65536)), In: in(), Dyn: cty.NullVal(cty.DynamicPseudoType)}
	if r.Chance(70) {
		o.Tags = []string{}
		for k, n := 0, r.Intn(3); k < n; k++ {
			o.Tags = append(o.Tags, gv.GenStr(r))
		}
	}
	if r.Chance(70) {
		o.Attrs = map[string]int8{}
		for k, n := 0, r.Intn(3); k < n; k++ {
			o.Attrs[[]string{"a", "b", "é"}[r.Intn(3)]] = int8(r.Intn(256) - 128)
		}
	}
	if r.Chance(60) {
		x := in()
		o.PIn = &x
	}
	if r.Chance(50) {
		o.Dyn = []cty.Value{cty.StringVal("x"), cty.NumberIntVal(3), cty.ListVal([]cty.Value{cty.True}), cty.UnknownVal(cty.String)}[r.Intn(4)]
	}
	if r.Chance(60) {
		o.Deep = map[string][]*int{}
		for k, n := 0, 1+r.Intn(2); k < n; k++ {
			var l []*int
			if r.Chance(80) {
				l = []*int{}
				for j, m := 0, r.Intn(3); j < m; j++ {
					l = append(l, pi())
				}
			}
			o.Deep[[]string{"x", "y", "z"}[r.Intn(3)]] = l
		}
	}
	if r.Chance(70) {
		o.PMap = map[string]*int{}
		o.SMap = map[string]inner{}
		for k, n := 0, 2+r.Intn(2); k < n; k++ {
			key := []string{"x", "y", "z", "w"}[k]
			o.PMap[key] = pi()
			o.SMap[key] = in()
		}
		o.PSl = []*inner{}
		for k, n := 0, r.Intn(3); k < n; k++ {
			x := in()
			o.PSl = append(o.PSl, &x)
		}
	}
	return o
}

func genC18(c *Ctx, r *rng.R, i int) {
	if r.Chance(25) {
		c18Struct(c, r)
		return
	}
	var v cty.Value
	cls := "random"
	if i < len(boundaryNums) || r.Chance(50) {
		v = boundaryNums[(i+r.Intn(len(boundaryNums)))%len(boundaryNums)]
		if i < len(boundaryNums) {
			v = boundaryNums[i]
		}
		cls = "boundary"
	} else {
		v, cls = gv.GenNum(r)
	}
	f := v.AsBigFloat()
	for _, t := range numTargets18 {
		tgt := t.mk()
		var err error
		p, pmsg := recovered(func() { err = gocty.FromCtyValue(v, tgt) })
		obs := cq.PanicR
		switch {
		case p:
		case err != nil:
			obs = cq.ErrOther
		default:
			obs = cq.Ok(coqGnum(tgt))
		}
		desc := map[string]interface{}{"number": f.Text('g', 40), "prec": f.Prec(), "target": t.name, "outcome": obs}
		c.Add("from/"+t.kind+"/"+cls, fmt.Sprintf("K18_from %s %s %s", cq.BF(f), t.coq, obs), desc, true)
		c.Count("oracle_evals")
		if p {
			c.Fail("C18/panic", "FromCtyValue panicked: "+pmsg, desc)
			continue
		}
		want, clear := representable(f, t)
		if clear && want != (err == nil) {
			sig := "C18/representable-iff"
			c.Fail(sig, fmt.Sprintf("decoding %s into %s: succeeded=%v, representable=%v", f.Text('g', 30), t.name, err == nil, want), desc)
		}
		if err == nil {
			// the stored number is that number; and it converts back to an equal value
			back, berr := gocty.ToCtyValue(reflect.ValueOf(tgt).Elem().Interface(), cty.Number)
			if berr != nil {
				c.Fail("C18/roundtrip", "ToCtyValue of the decoded number failed", desc)
				continue
			}
			c.Add("to/"+t.kind, fmt.Sprintf("K18_to %s %s", coqGnum(tgt), cq.BF(back.AsBigFloat())), desc, true)
			if t.kind == "int" || t.kind == "uint" || t.kind == "bigint" || t.kind == "bigfloat" {
				if back.AsBigFloat().Cmp(f) != 0 {
					c.Fail("C18/stores-other-number", fmt.Sprintf("decoding %s into %s stored %s", f.Text('g', 30), t.name, back.AsBigFloat().Text('g', 30)), desc)
				}
			} else if !f.IsInf() {
				// floats: the nearest representable value (relative error below 2^-23 / 2^-52, or a subnormal)
				d := new(big.Float).Sub(back.AsBigFloat(), f)
				d.Abs(d)
				tol := new(big.Float).Mul(new(big.Float).Abs(f), big.NewFloat(math.Pow(2, -23)))
				if t.kind == "f64" {
					tol = new(big.Float).Mul(new(big.Float).Abs(f), big.NewFloat(math.Pow(2, -52)))
				}
				abs := big.NewFloat(math.SmallestNonzeroFloat32)
				if t.kind == "f64" {
					abs = big.NewFloat(math.SmallestNonzeroFloat64)
				}
				if d.Cmp(tol) > 0 && d.Cmp(abs) > 0 {
					c.Fail("C18/stores-other-number", fmt.Sprintf("decoding %s into %s stored %s", f.Text('g', 30), t.name, back.AsBigFloat().Text('g', 30)), desc)
				}
			} else if !back.AsBigFloat().IsInf() {
				c.Fail("C18/stores-other-number", "an infinity decoded into a finite float", desc)
			}
		}
	}
}

// structural family: Go value -> implied type -> cty value -> back
func c18Struct(c *Ctx, r *rng.R) {
	o := genOuter(r)
	desc := map[string]interface{}{"go": fmt.Sprintf("%+v", o)}
	c.Count("oracle_evals")
	ty, err := gocty.ImpliedType(o)
	if err != nil {
		c.Fail("C18/implied-type", "ImpliedType failed: "+err.Error(), desc)
		return
	}
	var v cty.Value
	p, pmsg := recovered(func() { v, err = gocty.ToCtyValue(o, ty) })
	if p || err != nil {
		c.Fail("C18/to-cty", fmt.Sprintf("ToCtyValue failed (panic=%v %s err=%v)", p, pmsg, err), desc)
		return
	}
	c.wf(v, "gocty.ToCtyValue")
	if errs := v.Type().TestConformance(ty); len(errs) != 0 {
		c.Fail("C18/to-cty-type", "ToCtyValue returned a value that does not conform to the implied type", desc)
	}
	var back outer
	p, pmsg = recovered(func() { err = gocty.FromCtyValue(v, &back) })
	if p || err != nil {
		c.Fail("C18/from-cty", fmt.Sprintf("FromCtyValue of a ToCtyValue result failed (panic=%v %s err=%v)", p, pmsg, err), desc)
		return
	}
	o.skip, back.skip = 0, 0
	if !equalOuter(o, back) {
		c.Fail("C18/roundtrip", fmt.Sprintf("round trip changed the Go value: %+v", back), desc)
	}
	// refusals: unknown, null into non-nilable, shape mismatch
	var s string
	if e := gocty.FromCtyValue(cty.UnknownVal(cty.String), &s); e == nil {
		c.Fail("C18/refuses", "an unknown value was decoded", nil)
	}
	if e := gocty.FromCtyValue(cty.NullVal(cty.String), &s); e == nil {
		c.Fail("C18/refuses", "null decoded into a non-nilable string", nil)
	}
	var n int
	if e := gocty.FromCtyValue(cty.StringVal("1"), &n); e == nil {
		c.Fail("C18/refuses", "a string decoded into an int", nil)
	}
	// shape mismatches between objects and structs: missing required attributes (down to none at
	// all), extra attributes, at the top and nested
	type req struct {
		A string `cty:"a"`
		B int    `cty:"b"`
	}
	type wrap struct {
		R  req   `cty:"r"`
		Rs []req `cty:"rs"`
	}
	var rq req
	var wr wrap
	full := cty.ObjectVal(map[string]cty.Value{"a": cty.StringVal("x"), "b": cty.NumberIntVal(1)})
	for _, bad := range []cty.Value{cty.EmptyObjectVal, cty.ObjectVal(map[string]cty.Value{"a": cty.StringVal("x")}),
		cty.ObjectVal(map[string]cty.Value{"a": cty.StringVal("x"), "b": cty.NumberIntVal(1), "c": cty.True})} {
		if e := gocty.FromCtyValue(bad, &rq); e == nil {
			c.Fail("C18/refuses", fmt.Sprintf("%#v decoded into a struct with required fields a, b", bad), nil)
		}
		if e := gocty.FromCtyValue(cty.ObjectVal(map[string]cty.Value{"r": bad, "rs": cty.ListValEmpty(full.Type())}), &wr); e == nil {
			c.Fail("C18/refuses", fmt.Sprintf("nested %#v decoded into a struct with required fields", bad), nil)
		}
		if e := gocty.FromCtyValue(cty.ObjectVal(map[string]cty.Value{"r": full, "rs": cty.ListVal([]cty.Value{bad})}), &wr); e == nil {
			c.Fail("C18/refuses", fmt.Sprintf("%#v as a list element decoded into a struct with required fields", bad), nil)
		}
	}
	if e := gocty.FromCtyValue(full, &rq); e != nil || rq.A != "x" || rq.B != 1 {
		c.Fail("C18/from-cty", "a matching object was refused or stored wrongly", nil)
	}
	var ps *string
	if e := gocty.FromCtyValue(cty.NullVal(cty.String), &ps); e != nil || ps != nil {
		c.Fail("C18/null-pointer", "null into a pointer target must store nil", nil)
	}
	// a member that cannot be stored makes the whole decoding fail, whatever collection carries it and wherever that
	// collection sits
	{
		n := cty.NumberIntVal
		bads := []cty.Value{n(300), n(-1), cty.NumberFloatVal(2.5), cty.MustParseNumberVal("1e30"), cty.NullVal(cty.Number), cty.UnknownVal(cty.Number)}
		bad := bads[r.Intn(len(bads))]
		good := n(int64(1 + r.Intn(5)))
		members := []cty.Value{good, bad}
		if r.Bool() {
			members = []cty.Value{bad, good, n(7)}
		}
		type holder struct {
			Vals []uint8 `cty:"vals"`
		}
		type mholder struct {
			M map[string]uint8 `cty:"m"`
		}
		mapMembers := map[string]cty.Value{}
		for k, m := range members {
			mapMembers[fmt.Sprintf("k%d", k)] = m
		}
		carriers := []struct {
			name string
			v    cty.Value
		}{{"list", cty.ListVal(members)}, {"set", cty.SetVal(members)}, {"tuple", cty.TupleVal(members)}, {"map", cty.MapVal(mapMembers)}}
		for _, cr := range carriers {
			c.Count("oracle_evals")
			bd := map[string]interface{}{"carrier": cr.name, "value": cq.Show(cr.v)}
			if cr.name == "map" {
				var out map[string]uint8
				var mh mholder
				p1, _ := recovered(func() { err = gocty.FromCtyValue(cr.v, &out) })
				if p1 || err == nil {
					c.Fail("C18/member-refusal-lost", fmt.Sprintf("a %s with a member that does not fit uint8 was decoded into %v (panic=%v)", cr.name, out, p1), bd)
				}
				p2, _ := recovered(func() { err = gocty.FromCtyValue(cty.ObjectVal(map[string]cty.Value{"m": cr.v}), &mh) })
				if p2 || err == nil {
					c.Fail("C18/member-refusal-lost", fmt.Sprintf("a struct field holding that %s was decoded into %v (panic=%v)", cr.name, mh, p2), bd)
				}
				continue
			}
			var out []uint8
			var arr [3]uint8
			var h holder
			p1, _ := recovered(func() { err = gocty.FromCtyValue(cr.v, &out) })
			if p1 || err == nil {
				c.Fail("C18/member-refusal-lost", fmt.Sprintf("a %s with a member that does not fit uint8 was decoded into %v (panic=%v)", cr.name, out, p1), bd)
			}
			if len(members) == 3 && cr.v.LengthInt() == 3 {
				p3, _ := recovered(func() { err = gocty.FromCtyValue(cr.v, &arr) })
				if p3 || err == nil {
					c.Fail("C18/member-refusal-lost", fmt.Sprintf("a %s with a member that does not fit uint8 was decoded into the array %v (panic=%v)", cr.name, arr, p3), bd)
				}
			}
			p2, _ := recovered(func() { err = gocty.FromCtyValue(cty.ObjectVal(map[string]cty.Value{"vals": cr.v}), &h) })
			if p2 || err == nil {
				c.Fail("C18/member-refusal-lost", fmt.Sprintf("a struct field holding that %s was decoded into %v (panic=%v)", cr.name, h, p2), bd)
			}
		}
	}
	// embedded fields with a tag are fields like any other: in the implied type, on the way in and on the way out
	{
		type Base struct {
			Kind string `cty:"kind"`
			N    int    `cty:"n"`
		}
		type withEmbedded struct {
			Name      string `cty:"name"`
			Base      `cty:"base"`
			cty.Value `cty:"payload"`
		}
		we := withEmbedded{Name: gv.GenStr(r), Base: Base{Kind: "k", N: r.Intn(100)}, Value: cty.StringVal("p")}
		c.Count("oracle_evals")
		ety, e1 := gocty.ImpliedType(we)
		ed := map[string]interface{}{"go": fmt.Sprintf("%+v", we)}
		if e1 != nil || !ety.IsObjectType() || !ety.HasAttribute("base") || !ety.HasAttribute("payload") || !ety.HasAttribute("name") {
			c.Fail("C18/embedded-field", fmt.Sprintf("the implied type of a struct with tagged embedded fields is %#v (err=%v)", ety, e1), ed)
		} else {
			var ev cty.Value
			var e2 error
			p1, _ := recovered(func() { ev, e2 = gocty.ToCtyValue(we, ety) })
			var weBack withEmbedded
			var e3 error
			p2 := false
			if !p1 && e2 == nil {
				p2, _ = recovered(func() { e3 = gocty.FromCtyValue(ev, &weBack) })
			}
			if p1 || p2 || e2 != nil || e3 != nil || weBack.Name != we.Name || weBack.Base != we.Base || !weBack.Value.RawEquals(we.Value) {
				c.Fail("C18/embedded-field", fmt.Sprintf("round trip of a struct with tagged embedded fields: %+v (errors %v %v)", weBack, e2, e3), ed)
			}
		}
	}
	// the numeric case keeps the correspondence fed even for struct indices
	c.Add("to/struct-id", fmt.Sprintf("K18_to (GInt %s) %s", cq.Z(int64(o.ID)), cq.BF(v.GetAttr("id").AsBigFloat())), desc, true)
}

func equalOuter(a, b outer) bool {
	eqDyn := (a.Dyn == cty.NilVal && b.Dyn == cty.NilVal) || (a.Dyn != cty.NilVal && b.Dyn != cty.NilVal && a.Dyn.RawEquals(b.Dyn))
	a.Dyn, b.Dyn = cty.NilVal, cty.NilVal
	fa, fb := a.In.F, b.In.F
	sameF := func(x, y float64) bool { return x == y && math.Signbit(x) == math.Signbit(y) }
	if !sameF(fa, fb) {
		return false
	}
	if (a.PIn == nil) != (b.PIn == nil) || (a.PIn != nil && !sameF(a.PIn.F, b.PIn.F)) {
		return false
	}
	// floats inside maps / slices of structs: compare through a NaN-free, sign-aware rendering
	for k, x := range a.SMap {
		y, ok := b.SMap[k]
		if !ok || !sameF(x.F, y.F) {
			return false
		}
	}
	if len(a.PSl) != len(b.PSl) {
		return false
	}
	for k := range a.PSl {
		if !sameF(a.PSl[k].F, b.PSl[k].F) {
			return false
		}
	}
	return eqDyn && reflect.DeepEqual(a, b)
}
