package main

import (
	"fmt"
	"math"
	"sort"
	"strings"

	"github.com/zclconf/go-cty/cty"
	"github.com/zclconf/go-cty/cty/function"
	"github.com/zclconf/go-cty/cty/function/stdlib"
	"verifharness/internal/gt"
	"verifharness/internal/gv"
	"verifharness/internal/rng"
)

// stdFn: one standard-library function with a generator of wholly known, mostly admissible argument lists
type stdFn struct {
	Name string
	F    function.Function
	Gen  func(r *rng.R) []cty.Value
}

var stdFns []stdFn
var stdByName = map[string]*stdFn{}

func regStd(name string, f function.Function, gen func(r *rng.R) []cty.Value) {
	stdFns = append(stdFns, stdFn{name, f, gen})
}

// ---------- value helpers ----------
var kcfg = gv.KnownCfg

func kv(r *rng.R, t *gt.T) cty.Value { return gv.Gen(r, t, kcfg, 2) }
func kvNull(r *rng.R, t *gt.T) cty.Value {
	c := kcfg
	c.NullPct = 12
	return gv.Gen(r, t, c, 2)
}
func tyOf(k gt.Kind) *gt.T  { return gt.P(k) }
func listOf(e *gt.T) *gt.T  { return &gt.T{K: gt.List, Elem: e} }
func setOf(e *gt.T) *gt.T   { return &gt.T{K: gt.Set, Elem: e} }
func mapOf(e *gt.T) *gt.T   { return &gt.T{K: gt.Map, Elem: e} }
func primT(r *rng.R) *gt.T  { return gt.P([]gt.Kind{gt.Str, gt.Num, gt.Bool}[r.Intn(3)]) }
func anyT(r *rng.R) *gt.T   { return gt.Gen(r, gt.Cfg{Depth: 2, MaxWidth: 3}) }
func smallT(r *rng.R) *gt.T { return gt.Gen(r, gt.Cfg{Depth: 1, MaxWidth: 2}) }
func tupleOf(r *rng.R, n int) *gt.T {
	t := &gt.T{K: gt.Tuple}
	for i := 0; i < n; i++ {
		t.Elems = append(t.Elems, smallT(r))
	}
	return t
}
func objOf(r *rng.R, n int) *gt.T {
	t := &gt.T{K: gt.Obj}
	for _, nm := range []string{"a", "b", "c", "é"}[:n] {
		t.Attrs = append(t.Attrs, gt.Attr{Name: nm, T: smallT(r)})
	}
	return t
}
func num(r *rng.R) cty.Value {
	if r.Chance(55) {
		return gv.GenSmallNum(r)
	}
	v, _ := gv.GenNum(r)
	return v
}
func intv(r *rng.R, lo, hi int) cty.Value { return cty.NumberIntVal(int64(r.Range(lo, hi))) }
func idx(r *rng.R) cty.Value {
	switch r.Intn(10) {
	case 0:
		return cty.NumberFloatVal(1.5)
	case 1:
		return cty.NumberIntVal(int64(r.Intn(2000) - 1000))
	case 2:
		return cty.MustParseNumberVal("1e30")
	case 3:
		// the ends of the machine integer ranges: sums and products of offsets and lengths wrap here
		// (nothing in between: a count of 2^31 is a legitimate request for gigabytes)
		return []cty.Value{cty.NumberIntVal(math.MaxInt64), cty.NumberIntVal(math.MinInt64), cty.NumberIntVal(math.MaxInt64 - 1),
			cty.NumberUIntVal(math.MaxUint64), cty.NumberUIntVal(1 << 63), cty.NumberIntVal(math.MinInt64 + 1)}[r.Intn(6)]
	default:
		return intv(r, -2, 5)
	}
}

var graphemeStrs = []string{"", "a", "abc", "hello world", "  padded  ", "\tline\n", "line\r\n", "é", "é", "日本語", "👍🏽", "👨‍👩‍👧", "à́b", "🇯🇵🇫🇷", "x,y,,z", "a.b.c", "Hello World", "hELLO", "ß", "ǆ", "foo bar baz", "aaa", "ab ab ab", "12", "-7", "0x1f", "1e3", "true", "null", "%", "a\nb\nc\n", "\n\n"}

func str(r *rng.R) cty.Value { return cty.StringVal(graphemeStrs[r.Intn(len(graphemeStrs))]) }
func strList(r *rng.R) cty.Value {
	n := r.Intn(5)
	if n == 0 {
		return cty.ListValEmpty(cty.String)
	}
	vs := make([]cty.Value, n)
	for i := range vs {
		vs[i] = str(r)
		if r.Chance(8) {
			vs[i] = cty.NullVal(cty.String)
		}
	}
	return cty.ListVal(vs)
}
func seqVal(r *rng.R) cty.Value { // a list, tuple (or sometimes set) of assorted element types
	switch r.Intn(6) {
	case 0:
		return kv(r, tupleOf(r, r.Intn(4)))
	case 1:
		return kv(r, setOf(primT(r)))
	case 2:
		return kvNull(r, listOf(smallT(r)))
	default:
		return kv(r, listOf(primT(r)))
	}
}
func mapping(r *rng.R) cty.Value {
	if r.Bool() {
		return kv(r, mapOf(smallT(r)))
	}
	return kv(r, objOf(r, r.Intn(4)))
}

var fmtVerbs = []string{"%s", "%d", "%v", "%q", "%t", "%f", "%.2f", "%5s", "%-5s|", "%05d", "%+d", "%x", "%X", "%o", "%b", "%e", "%g", "%%", "%#v", "%10.3f", "%[1]s", "%[2]v%[1]v", "%*d", "%.1s", "%c", "%!", "%z", "%[9]s", "% d", "%5.1s", "%-8q"}

func fmtArgs(r *rng.R) []cty.Value {
	n := 1 + r.Intn(3)
	var sb strings.Builder
	for i := 0; i < n; i++ {
		sb.WriteString([]string{"", "x=", " ", "é:"}[r.Intn(4)])
		sb.WriteString(fmtVerbs[r.Intn(len(fmtVerbs))])
	}
	args := []cty.Value{cty.StringVal(sb.String())}
	for i, m := 0, r.Intn(4); i < m; i++ {
		switch r.Intn(6) {
		case 0:
			args = append(args, str(r))
		case 1:
			args = append(args, num(r))
		case 2:
			args = append(args, cty.BoolVal(r.Bool()))
		case 3:
			args = append(args, kvNull(r, smallT(r)))
		case 4:
			args = append(args, intv(r, -3, 300))
		default:
			args = append(args, kv(r, listOf(primT(r))))
		}
	}
	return args
}

var regexes = []string{"(?P<user>[a-z]*)@", "(?P<a>x*)(?P<b>y*)z?", "(?P<e>)a", "(?P<opt>b)?a(?P<tail>c*)", "a", "[a-z]+", "(\\w+) (\\w+)", "(?P<first>\\w)(?P<rest>\\w*)", "^$", "x*", "(a)|(b)", "\\d+", "[", "(?P<n>\\d)(?P<n>\\d)", ".", "日本", "(a)(?P<n>b)"}
var timestamps = []string{"2006-01-02T15:04:05-03:30", "2020-06-30T23:59:59-00:45", "1999-12-31T00:00:00+05:45", "2006-01-02T15:04:05-09:30", "2006-01-02T15:04:05+12:45", "2006-01-02T15:04:05Z", "2020-02-29T23:59:59+09:00", "1999-12-31T00:00:00-08:00", "2006-01-02T15:04:05.999Z", "2020-01-01T00:00:00.5Z", "2020-01-01T23:59:59.75+01:00", "2019-12-31T23:59:59.123456Z", "2020-01-01T00:00:00.000000001Z", "2020-01-01T00:00:00.12345678Z", "2006-01-02", "2006-01-02T15:04:05", "2006-13-02T15:04:05Z", "0001-01-01T00:00:00Z", "9999-12-31T23:59:59Z", "2006-01-02t15:04:05z", "2021-02-30T00:00:00Z", "2006-01-02T24:00:00Z"}
var dateFormats = []string{"YYYY-MM-DD", "DD MMM YYYY hh:mm ZZZ", "EEEE, DD-MMM-YY hh:mm:ss ZZZ", "EEE, DD MMM YYYY hh:mm:ss ZZZ", "YYYY-MM-DD'T'hh:mm:ssZ", "h:mm aa", "HH AA", "M/D/YY", "MMMM EEE", "'quoted''s' YYYY", "'unterminated", "X", "YYYYY", "ZZZZ ZZZZZ", "s ss", "hhh"}
var durations = []string{"500ms", "250ms", "-500ms", "999999999ns", "1ns", "750ms", "-1h0m0.5s", "1h", "-30m", "10s", "1h30m15s", "0s", "24h", "1.5h", "100ms", "x", "1d", "", "2562047h47m16.854775807s", "-1ns"}
var jsonDocs = []string{"\n{\"a\": [1, 2]}", "\r\n\t [true]", "\n\n\"s\"", "\t12", `{"a":1,"b":[true,null,"x"]}`, `[1,2,3]`, `"str"`, `12.5`, `null`, `{}`, `[]`, `{"a":{"b":{"c":[]}}}`, `[1,"a"]`, `{"a":1,"a":2}`, `{"a":1,"a":"x"}`, `{`, ``, `1e400`, `[1,2] x`, `{"é":"é"}`, `18446744073709551616`, `true`, `[[],[1]]`, ` [1] `}
var csvDocs = []string{"a,b\n1,2\n3,4\n", "a\n", "", "a,b\n1\n", "a,a\n1,2\n", "\"q,uoted\",b\n\"x\"\"y\",2\n", "a,b\r\n1,2\r\n", "a,b\n1,2,3\n", "é,日本\n1,2", "a,b\n\n1,2\n", "a;b\n1;2\n", "a,b\n\"1,2\n"}

func init() {
	n1 := func(r *rng.R) []cty.Value { return []cty.Value{num(r)} }
	n2 := func(r *rng.R) []cty.Value { return []cty.Value{num(r), num(r)} }
	s1 := func(r *rng.R) []cty.Value { return []cty.Value{str(r)} }
	b1 := func(r *rng.R) []cty.Value { return []cty.Value{cty.BoolVal(r.Bool())} }
	b2 := func(r *rng.R) []cty.Value { return []cty.Value{cty.BoolVal(r.Bool()), cty.BoolVal(r.Bool())} }
	nVar := func(r *rng.R) []cty.Value {
		vs := make([]cty.Value, r.Intn(4))
		for i := range vs {
			vs[i] = num(r)
		}
		return vs
	}
	anyPair := func(r *rng.R) []cty.Value {
		t := anyT(r)
		a := kvNull(r, t)
		if r.Chance(40) {
			return []cty.Value{a, a}
		}
		if r.Chance(30) {
			return []cty.Value{a, kvNull(r, anyT(r))}
		}
		return []cty.Value{a, kvNull(r, t)}
	}
	sets2 := func(r *rng.R) []cty.Value {
		if r.Chance(5) { // element types that unify only unsafely, or only through an untyped null
			num := func(ss ...string) []cty.Value {
				var vs []cty.Value
				for _, x := range ss {
					vs = append(vs, cty.StringVal(x))
				}
				return vs
			}
			switch r.Intn(3) {
			case 0:
				return []cty.Value{
					cty.SetVal([]cty.Value{cty.ListVal([]cty.Value{cty.NumberIntVal(1), cty.NumberIntVal(2)})}),
					cty.SetVal([]cty.Value{cty.SetVal(num("1", "2")), cty.SetVal(num("3"))})}
			case 1:
				return []cty.Value{
					cty.SetVal([]cty.Value{cty.NullVal(cty.DynamicPseudoType)}),
					cty.SetVal(num("a", "b"))}
			default:
				return []cty.Value{
					cty.SetVal([]cty.Value{cty.ListVal(num("x"))}),
					cty.SetVal([]cty.Value{cty.SetVal([]cty.Value{cty.True})})}
			}
		}
		e := primT(r)
		vs := []cty.Value{kv(r, setOf(e))}
		for i, n := 0, 1+r.Intn(2); i < n; i++ {
			switch r.Intn(5) {
			case 0:
				vs = append(vs, kv(r, setOf(primT(r))))
			case 1:
				vs = append(vs, kv(r, listOf(e)))
			default:
				vs = append(vs, kv(r, setOf(e)))
			}
		}
		return vs
	}
	regStd("Not", stdlib.NotFunc, b1)
	regStd("And", stdlib.AndFunc, b2)
	regStd("Or", stdlib.OrFunc, b2)
	regStd("BytesLen", stdlib.BytesLenFunc, func(r *rng.R) []cty.Value {
		return []cty.Value{stdlib.BytesVal([]byte(graphemeStrs[r.Intn(len(graphemeStrs))]))}
	})
	regStd("BytesSlice", stdlib.BytesSliceFunc, func(r *rng.R) []cty.Value {
		return []cty.Value{stdlib.BytesVal([]byte("hello, bytes")), idx(r), idx(r)}
	})
	regStd("HasIndex", stdlib.HasIndexFunc, func(r *rng.R) []cty.Value {
		c := []cty.Value{seqVal(r), mapping(r)}[r.Intn(2)]
		k := []cty.Value{idx(r), cty.StringVal([]string{"a", "b", "k1", "zz"}[r.Intn(4)]), cty.BoolVal(true)}[r.Intn(3)]
		return []cty.Value{c, k}
	})
	regStd("Index", stdlib.IndexFunc, func(r *rng.R) []cty.Value {
		c := []cty.Value{seqVal(r), mapping(r), kv(r, tupleOf(r, r.Intn(4)))}[r.Intn(3)]
		k := []cty.Value{idx(r), cty.StringVal([]string{"a", "b", "k1", "zz"}[r.Intn(4)])}[r.Intn(2)]
		if r.Chance(40) && c.IsKnown() && !c.IsNull() && (c.Type().IsTupleType() || c.Type().IsListType()) {
			// the ends of the index range: first, last, one past the last, one before the first
			n := c.LengthInt()
			k = cty.NumberIntVal(int64([]int{0, n - 1, n, n + 1, -1}[r.Intn(5)]))
		}
		return []cty.Value{c, k}
	})
	regStd("Length", stdlib.LengthFunc, func(r *rng.R) []cty.Value { return []cty.Value{[]cty.Value{seqVal(r), mapping(r), str(r)}[r.Intn(3)]} })
	regStd("Element", stdlib.ElementFunc, func(r *rng.R) []cty.Value {
		if r.Bool() {
			return []cty.Value{kv(r, tupleOf(r, 1+r.Intn(3))), intv(r, -4, 6)}
		}
		return []cty.Value{seqVal(r), idx(r)}
	})
	regStd("CoalesceList", stdlib.CoalesceListFunc, func(r *rng.R) []cty.Value {
		vs := make([]cty.Value, r.Intn(4))
		t := listOf(primT(r))
		for i := range vs {
			switch r.Intn(5) {
			case 0:
				vs[i] = cty.NullVal(t.Build())
			case 1:
				vs[i] = kv(r, tupleOf(r, r.Intn(3)))
			case 2:
				vs[i] = cty.ListValEmpty(t.Build().ElementType())
			default:
				vs[i] = kv(r, t)
			}
		}
		return vs
	})
	regStd("Compact", stdlib.CompactFunc, func(r *rng.R) []cty.Value { return []cty.Value{strList(r)} })
	regStd("Contains", stdlib.ContainsFunc, func(r *rng.R) []cty.Value {
		c := seqVal(r)
		var x cty.Value
		if c.LengthInt() > 0 && r.Chance(50) {
			x = c.AsValueSlice()[r.Intn(c.LengthInt())]
		} else {
			x = kvNull(r, primT(r))
		}
		return []cty.Value{c, x}
	})
	regStd("Distinct", stdlib.DistinctFunc, func(r *rng.R) []cty.Value {
		l := kvNull(r, listOf(smallT(r)))
		if l.IsKnown() && !l.IsNull() && l.LengthInt() > 0 && r.Chance(60) {
			vs := l.AsValueSlice()
			vs = append(vs, vs[r.Intn(len(vs))], vs[0])
			l = cty.ListVal(vs)
		}
		return []cty.Value{l}
	})
	regStd("Chunklist", stdlib.ChunklistFunc, func(r *rng.R) []cty.Value { return []cty.Value{kv(r, listOf(smallT(r))), idx(r)} })
	regStd("Flatten", stdlib.FlattenFunc, func(r *rng.R) []cty.Value {
		switch r.Intn(4) {
		case 0:
			return []cty.Value{kv(r, listOf(listOf(primT(r))))}
		case 1:
			return []cty.Value{kvNull(r, &gt.T{K: gt.Tuple, Elems: []*gt.T{listOf(primT(r)), primT(r), tupleOf(r, 2), setOf(primT(r))}})}
		case 2:
			return []cty.Value{kv(r, setOf(listOf(primT(r))))}
		default:
			return []cty.Value{seqVal(r)}
		}
	})
	regStd("Keys", stdlib.KeysFunc, func(r *rng.R) []cty.Value { return []cty.Value{mapping(r)} })
	regStd("Values", stdlib.ValuesFunc, func(r *rng.R) []cty.Value { return []cty.Value{mapping(r)} })
	regStd("Lookup", stdlib.LookupFunc, func(r *rng.R) []cty.Value {
		m := mapping(r)
		k := cty.StringVal([]string{"a", "b", "k1", "zz", "é"}[r.Intn(5)])
		var d cty.Value
		if m.Type().IsMapType() && r.Chance(70) {
			d = kvNull(r, gt.FromCtyOrNil(m.Type().ElementType()))
		} else {
			d = kvNull(r, smallT(r))
		}
		return []cty.Value{m, k, d}
	})
	regStd("Merge", stdlib.MergeFunc, func(r *rng.R) []cty.Value {
		vs := make([]cty.Value, r.Intn(4))
		e := smallT(r)
		for i := range vs {
			switch r.Intn(5) {
			case 0:
				vs[i] = kv(r, objOf(r, r.Intn(4)))
			case 1:
				vs[i] = cty.NullVal(mapOf(e).Build())
			case 2:
				vs[i] = kv(r, mapOf(smallT(r)))
			default:
				vs[i] = kv(r, mapOf(e))
			}
		}
		return vs
	})
	regStd("ReverseList", stdlib.ReverseListFunc, func(r *rng.R) []cty.Value { return []cty.Value{seqVal(r)} })
	regStd("SetProduct", stdlib.SetProductFunc, func(r *rng.R) []cty.Value {
		vs := make([]cty.Value, 1+r.Intn(3))
		for i := range vs {
			switch r.Intn(4) {
			case 0:
				vs[i] = kv(r, setOf(primT(r)))
			case 1:
				vs[i] = kv(r, tupleOf(r, r.Intn(3)))
			default:
				vs[i] = kv(r, listOf(primT(r)))
			}
		}
		return vs
	})
	regStd("Slice", stdlib.SliceFunc, func(r *rng.R) []cty.Value {
		sq := seqVal(r)
		if r.Chance(70) && sq.IsKnown() && !sq.IsNull() && !sq.Type().IsSetType() { // valid bounds
			n := sq.LengthInt()
			a := r.Intn(n + 1)
			b := a + r.Intn(n-a+1)
			return []cty.Value{sq, cty.NumberIntVal(int64(a)), cty.NumberIntVal(int64(b))}
		}
		return []cty.Value{sq, idx(r), idx(r)}
	})
	regStd("Zipmap", stdlib.ZipmapFunc, func(r *rng.R) []cty.Value {
		ks := strList(r)
		var vs cty.Value
		switch r.Intn(4) {
		case 0:
			vs = kv(r, tupleOf(r, ks.LengthInt()))
		case 1:
			vs = seqVal(r)
		default:
			e := smallT(r)
			l := make([]cty.Value, ks.LengthInt())
			for i := range l {
				l[i] = kv(r, e)
			}
			if len(l) == 0 {
				vs = cty.ListValEmpty(e.Build())
			} else {
				vs = cty.ListVal(l)
			}
		}
		if r.Chance(30) && ks.IsKnown() && !ks.IsNull() && ks.LengthInt() >= 2 {
			// a repeated key: the last value wins, in the result and in its predicted type
			es := ks.AsValueSlice()
			es[len(es)-1] = es[r.Intn(len(es)-1)]
			ks = cty.ListVal(es)
			if r.Bool() {
				ts := make([]cty.Value, len(es))
				for i := range ts {
					ts[i] = kv(r, primT(r))
				}
				vs = cty.TupleVal(ts)
			}
		} else if r.Chance(30) && ks.IsKnown() && !ks.IsNull() && ks.LengthInt() > 0 {
			// a known list of keys with an unknown (or null) key inside
			es := ks.AsValueSlice()
			if r.Chance(80) {
				es[r.Intn(len(es))] = cty.UnknownVal(cty.String)
			} else {
				es[r.Intn(len(es))] = cty.NullVal(cty.String)
			}
			ks = cty.ListVal(es)
		}
		return []cty.Value{ks, vs}
	})
	regStd("AssertNotNull", stdlib.AssertNotNullFunc, func(r *rng.R) []cty.Value { return []cty.Value{kvNull(r, anyT(r))} })
	regStd("CSVDecode", stdlib.CSVDecodeFunc, func(r *rng.R) []cty.Value { return []cty.Value{cty.StringVal(csvDocs[r.Intn(len(csvDocs))])} })
	regStd("FormatDate", stdlib.FormatDateFunc, func(r *rng.R) []cty.Value {
		return []cty.Value{cty.StringVal(dateFormats[r.Intn(len(dateFormats))]), cty.StringVal(timestamps[r.Intn(len(timestamps))])}
	})
	regStd("TimeAdd", stdlib.TimeAddFunc, func(r *rng.R) []cty.Value {
		return []cty.Value{cty.StringVal(timestamps[r.Intn(len(timestamps))]), cty.StringVal(durations[r.Intn(len(durations))])}
	})
	regStd("Format", stdlib.FormatFunc, fmtArgs)
	regStd("FormatList", stdlib.FormatListFunc, func(r *rng.R) []cty.Value {
		if r.Chance(55) { // well-formed: as many verbs as arguments, lists of one length (or scalars)
			n := 1 + r.Intn(3)
			ln := 1 + r.Intn(3)
			var sb strings.Builder
			args := []cty.Value{cty.NilVal}
			for k := 0; k < n; k++ {
				sb.WriteString([]string{"%s", "%v", "%s-", "<%v>"}[r.Intn(4)])
				if r.Chance(70) {
					vs := make([]cty.Value, ln)
					for q := range vs {
						vs[q] = []cty.Value{str(r), intv(r, 0, 99), cty.BoolVal(r.Bool())}[r.Intn(3)]
						if vs[q].Type() != vs[0].Type() {
							vs[q] = vs[0]
						}
					}
					args = append(args, cty.ListVal(vs))
				} else {
					args = append(args, str(r))
				}
			}
			args[0] = cty.StringVal(sb.String())
			return args
		}
		a := fmtArgs(r)
		for i := 1; i < len(a); i++ {
			if r.Chance(50) {
				a[i] = kv(r, listOf(primT(r)))
			}
		}
		return a
	})
	regStd("Equal", stdlib.EqualFunc, anyPair)
	regStd("NotEqual", stdlib.NotEqualFunc, anyPair)
	regStd("Coalesce", stdlib.CoalesceFunc, func(r *rng.R) []cty.Value {
		vs := make([]cty.Value, r.Intn(4))
		t := primT(r)
		for i := range vs {
			if r.Chance(25) {
				vs[i] = kvNull(r, primT(r))
			} else {
				vs[i] = kvNull(r, t)
			}
		}
		if len(vs) >= 2 && r.Chance(35) {
			// a null of another type before (or between) the values: the result type is decided by all the types
			o := primT(r)
			vs[r.Intn(len(vs)-1)] = cty.NullVal(o.Build())
		}
		return vs
	})
	regStd("JSONEncode", stdlib.JSONEncodeFunc, func(r *rng.R) []cty.Value { return []cty.Value{kvNull(r, anyT(r))} })
	regStd("JSONDecode", stdlib.JSONDecodeFunc, func(r *rng.R) []cty.Value { return []cty.Value{cty.StringVal(jsonDocs[r.Intn(len(jsonDocs))])} })
	regStd("Absolute", stdlib.AbsoluteFunc, n1)
	regStd("Add", stdlib.AddFunc, n2)
	regStd("Subtract", stdlib.SubtractFunc, n2)
	regStd("Multiply", stdlib.MultiplyFunc, n2)
	regStd("Divide", stdlib.DivideFunc, n2)
	regStd("Modulo", stdlib.ModuloFunc, n2)
	regStd("GreaterThan", stdlib.GreaterThanFunc, n2)
	regStd("GreaterThanOrEqualTo", stdlib.GreaterThanOrEqualToFunc, n2)
	regStd("LessThan", stdlib.LessThanFunc, n2)
	regStd("LessThanOrEqualTo", stdlib.LessThanOrEqualToFunc, n2)
	regStd("Negate", stdlib.NegateFunc, n1)
	regStd("Min", stdlib.MinFunc, nVar)
	regStd("Max", stdlib.MaxFunc, nVar)
	regStd("Int", stdlib.IntFunc, n1)
	regStd("Ceil", stdlib.CeilFunc, n1)
	regStd("Floor", stdlib.FloorFunc, n1)
	regStd("Log", stdlib.LogFunc, n2)
	regStd("Pow", stdlib.PowFunc, n2)
	regStd("Signum", stdlib.SignumFunc, n1)
	regStd("ParseInt", stdlib.ParseIntFunc, func(r *rng.R) []cty.Value {
		s := []string{"12", "-7", "ff", "FF", "0x1f", "777", "102", "z", "", "1e3", "+5", " 5", "9223372036854775808", "123456789012345678901234567890", "1_000"}[r.Intn(15)]
		b := []int64{10, 16, 8, 2, 36, 62, 63, 1, 0, -1}[r.Intn(10)]
		if r.Chance(20) { // integers wider than any fixed mantissa: every digit must survive
			b = []int64{10, 16, 2, 8, 62}[r.Intn(5)]
			n := map[int64]int{10: 170, 16: 140, 2: 530, 8: 180, 62: 95}[b] + r.Intn(8)
			var sb strings.Builder
			sb.WriteString("1")
			for k := 1; k < n; k++ {
				sb.WriteByte("0123456789abcdefghijklmnopqrstuvwxyzABCDEFGHIJKLMNOPQRSTUVWXYZ"[r.Intn(int(b))])
			}
			sb.WriteString("1")
			s = sb.String()
		}
		return []cty.Value{cty.StringVal(s), cty.NumberIntVal(b)}
	})
	// subjects on which groups match the empty string, do not take part, or match several times
	reSubj := func(r *rng.R) cty.Value {
		if r.Bool() {
			return cty.StringVal([]string{"a", "@example.com", "ab", "", "xy", "z", "ac", "bacc a", "a a a", "user@host @x"}[r.Intn(10)])
		}
		return str(r)
	}
	regStd("Regex", stdlib.RegexFunc, func(r *rng.R) []cty.Value {
		return []cty.Value{cty.StringVal(regexes[r.Intn(len(regexes))]), reSubj(r)}
	})
	regStd("RegexAll", stdlib.RegexAllFunc, func(r *rng.R) []cty.Value {
		return []cty.Value{cty.StringVal(regexes[r.Intn(len(regexes))]), reSubj(r)}
	})
	regStd("Concat", stdlib.ConcatFunc, func(r *rng.R) []cty.Value {
		vs := make([]cty.Value, r.Intn(4))
		e := primT(r)
		for i := range vs {
			switch r.Intn(5) {
			case 0:
				vs[i] = kv(r, tupleOf(r, r.Intn(3)))
			case 1:
				vs[i] = kv(r, listOf(primT(r)))
			default:
				vs[i] = kvNull(r, listOf(e))
			}
		}
		return vs
	})
	regStd("Range", stdlib.RangeFunc, func(r *rng.R) []cty.Value {
		pick := func() cty.Value {
			switch r.Intn(8) {
			case 0:
				return cty.NumberFloatVal(0.5)
			case 1:
				return cty.NumberFloatVal(-1.25)
			case 2:
				return cty.PositiveInfinity
			case 3:
				return cty.NegativeInfinity
			default:
				return intv(r, -6, 9)
			}
		}
		if r.Chance(10) { // a step with no finite binary expansion, held at full precision: each element is the previous one plus the step
			k := r.Intn(4)
			step := cty.MustParseNumberVal([]string{"0.1", "0.3", "-0.7", "0.05"}[k])
			start := []cty.Value{cty.NumberIntVal(0), cty.NumberIntVal(1), cty.NumberIntVal(2), cty.MustParseNumberVal("0.2")}[k]
			end := []cty.Value{cty.NumberIntVal(1), cty.MustParseNumberVal("3.5"), cty.NumberIntVal(-4), cty.MustParseNumberVal("0.7")}[k]
			return []cty.Value{start, end, step}
		}
		vs := make([]cty.Value, r.Intn(5))
		for i := range vs {
			vs[i] = pick()
		}
		if r.Chance(12) { // at and around the documented limit of 1024 elements
			n := int64([]int{1023, 1024, 1025}[r.Intn(3)])
			switch r.Intn(3) {
			case 0:
				return []cty.Value{cty.NumberIntVal(n)}
			case 1:
				return []cty.Value{cty.NumberIntVal(-n)}
			default:
				return []cty.Value{cty.NumberIntVal(10), cty.NumberFloatVal(10 + float64(n)/2), cty.NumberFloatVal(0.5)}
			}
		}
		return vs
	})
	regStd("SetHasElement", stdlib.SetHasElementFunc, func(r *rng.R) []cty.Value {
		e := primT(r)
		s := kv(r, setOf(e))
		if s.LengthInt() > 0 && r.Chance(50) {
			return []cty.Value{s, s.AsValueSlice()[0]}
		}
		return []cty.Value{s, kv(r, e)}
	})
	regStd("SetUnion", stdlib.SetUnionFunc, sets2)
	regStd("SetIntersection", stdlib.SetIntersectionFunc, sets2)
	regStd("SetSubtract", stdlib.SetSubtractFunc, func(r *rng.R) []cty.Value { return sets2(r)[:2] })
	regStd("SetSymmetricDifference", stdlib.SetSymmetricDifferenceFunc, sets2)
	regStd("Upper", stdlib.UpperFunc, s1)
	regStd("Lower", stdlib.LowerFunc, s1)
	regStd("Reverse", stdlib.ReverseFunc, s1)
	regStd("Strlen", stdlib.StrlenFunc, s1)
	regStd("Substr", stdlib.SubstrFunc, func(r *rng.R) []cty.Value { return []cty.Value{str(r), idx(r), idx(r)} })
	regStd("Join", stdlib.JoinFunc, func(r *rng.R) []cty.Value {
		vs := []cty.Value{cty.StringVal([]string{",", "", ", ", "é"}[r.Intn(4)])}
		for i, n := 0, r.Intn(3); i < n; i++ {
			vs = append(vs, strList(r))
		}
		return vs
	})
	regStd("Sort", stdlib.SortFunc, func(r *rng.R) []cty.Value { return []cty.Value{strList(r)} })
	regStd("Split", stdlib.SplitFunc, func(r *rng.R) []cty.Value {
		return []cty.Value{cty.StringVal([]string{",", "", " ", ".", "ab", "́"}[r.Intn(6)]), str(r)}
	})
	regStd("Chomp", stdlib.ChompFunc, s1)
	regStd("Indent", stdlib.IndentFunc, func(r *rng.R) []cty.Value { return []cty.Value{idx(r), str(r)} })
	regStd("Title", stdlib.TitleFunc, s1)
	regStd("TrimSpace", stdlib.TrimSpaceFunc, s1)
	regStd("Trim", stdlib.TrimFunc, func(r *rng.R) []cty.Value {
		return []cty.Value{str(r), cty.StringVal([]string{" ", "a", "ab", "", "\t\n ", "é", "́"}[r.Intn(7)])}
	})
	regStd("TrimPrefix", stdlib.TrimPrefixFunc, func(r *rng.R) []cty.Value {
		return []cty.Value{str(r), cty.StringVal([]string{"a", "ab", "", "hello", "e", " "}[r.Intn(6)])}
	})
	regStd("TrimSuffix", stdlib.TrimSuffixFunc, func(r *rng.R) []cty.Value {
		return []cty.Value{str(r), cty.StringVal([]string{"c", "bc", "", "world", "́", " "}[r.Intn(6)])}
	})
	regStd("Replace", stdlib.ReplaceFunc, func(r *rng.R) []cty.Value {
		return []cty.Value{str(r), cty.StringVal([]string{"a", "ab", "", " ", "l", "e"}[r.Intn(6)]), cty.StringVal([]string{"", "X", "aa", "$1"}[r.Intn(4)])}
	})
	regStd("RegexReplace", stdlib.RegexReplaceFunc, func(r *rng.R) []cty.Value {
		return []cty.Value{str(r), cty.StringVal(regexes[r.Intn(len(regexes))]), cty.StringVal([]string{"", "X", "$1", "${first}", "$$", "$9"}[r.Intn(6)])}
	})
	// conversion functions for representative target types
	for _, t := range []cty.Type{cty.String, cty.Number, cty.Bool, cty.List(cty.String), cty.Set(cty.Number), cty.Map(cty.String), cty.List(cty.DynamicPseudoType),
		cty.Object(map[string]cty.Type{"a": cty.String}), cty.ObjectWithOptionalAttrs(map[string]cty.Type{"a": cty.String, "b": cty.Number}, []string{"b"}), cty.Tuple([]cty.Type{cty.String, cty.Number})} {
		t := t
		regStd("To("+t.FriendlyName()+")", stdlib.MakeToFunc(t), func(r *rng.R) []cty.Value {
			if r.Chance(50) {
				if g := gt.FromCtyOrNil(t.WithoutOptionalAttributesDeep()); g != nil {
					return []cty.Value{kvNull(r, deriveTargetNoOpt(r, gt.Resolve(r, g, gt.DefaultCfg)))}
				}
			}
			return []cty.Value{kvNull(r, anyT(r))}
		})
	}
	sort.SliceStable(stdFns, func(i, j int) bool { return stdFns[i].Name < stdFns[j].Name })
	for i := range stdFns {
		stdByName[stdFns[i].Name] = &stdFns[i]
	}
}

// genericArgs: arguments generated from the parameter constraints alone (dynamic constraints instantiated arbitrarily)
func genericArgs(r *rng.R, f function.Function) []cty.Value {
	var vs []cty.Value
	one := func(p function.Parameter) cty.Value {
		g := gt.FromCtyOrNil(p.Type)
		if g == nil {
			return cty.NullVal(p.Type)
		}
		return kvNull(r, gt.Resolve(r, g, gt.Cfg{Depth: 2, MaxWidth: 3}))
	}
	for _, p := range f.Params() {
		vs = append(vs, one(p))
	}
	if vp := f.VarParam(); vp != nil {
		for i, n := 0, r.Intn(4); i < n; i++ {
			vs = append(vs, one(*vp))
		}
	}
	return vs
}

func showArgs(vs []cty.Value) string {
	var ss []string
	for _, v := range vs {
		ss = append(ss, fmt.Sprintf("%#v", v))
	}
	return strings.Join(ss, ", ")
}
