package main

import (
	"math"
	"bytes"
	"encoding/json"
	"fmt"
	"sort"

	"github.com/zclconf/go-cty/cty"
	ctyjson "github.com/zclconf/go-cty/cty/json"
	"golang.org/x/text/unicode/norm"
	"verifharness/internal/cq"
	"verifharness/internal/gt"
	"verifharness/internal/gv"
	"verifharness/internal/jv"
	"verifharness/internal/rng"
)

func init() {
	register(&Prop{ID: "C15", Imports: "Base Ty BigFloat Value Ops Refine Json K15", CaseType: "k15", Check: "k15_check", PropFn: "k15_prop", Gen: genC15})
}

func hasInf(v cty.Value) bool {
	found := false
	cty.Walk(v, func(p cty.Path, x cty.Value) (bool, error) {
		x, _ = x.Unmark()
		if x.Type() == cty.Number && x.IsKnown() && !x.IsNull() && x.AsBigFloat().IsInf() {
			found = true
		}
		return true, nil
	})
	return found
}

func hasHugeNumber(v cty.Value) bool {
	found := false
	cty.Walk(v, func(p cty.Path, x cty.Value) (bool, error) {
		x, _ = x.Unmark()
		if x.Type() == cty.Number && x.IsKnown() && !x.IsNull() && !x.AsBigFloat().IsInf() {
			if e := x.AsBigFloat().MantExp(nil); e > 600 || e < -600 {
				found = true
			}
		}
		return true, nil
	})
	return found
}

func resJV(b []byte, err error, p bool) (string, *jv.V) {
	switch {
	case p:
		return cq.PanicR, nil
	case err != nil:
		return cq.ErrOther, nil
	}
	t, perr := jv.Parse(b)
	if perr != nil {
		return "INVALID", nil
	}
	return cq.Ok(t.Coq()), t
}

// mirror: does plain encoding/json decoding of the document mirror the value's structure?
func mirrors(doc interface{}, v cty.Value, t cty.Type) string {
	if t == cty.DynamicPseudoType && v.Type() != cty.DynamicPseudoType {
		m, ok := doc.(map[string]interface{})
		if !ok || len(m) != 2 {
			return "dynamic wrapper is not an object with exactly value and type"
		}
		if _, ok := m["type"]; !ok {
			return "dynamic wrapper lacks type"
		}
		inner, ok := m["value"]
		if !ok {
			return "dynamic wrapper lacks value"
		}
		return mirrors(inner, v, v.Type())
	}
	if v.IsNull() {
		if doc != nil {
			return "null value not encoded as null"
		}
		return ""
	}
	switch {
	case t == cty.String:
		if s, ok := doc.(string); !ok || s != v.AsString() {
			return "string mismatch"
		}
	case t == cty.Bool:
		if b, ok := doc.(bool); !ok || b != v.True() {
			return "bool mismatch"
		}
	case t == cty.Number:
		n, ok := doc.(json.Number)
		if !ok {
			return "number not encoded as a JSON number"
		}
		p, err := cty.ParseNumberVal(string(n))
		if err != nil || !p.RawEquals(v) {
			return "number text " + string(n) + " does not denote the number"
		}
	case t.IsListType() || t.IsSetType() || t.IsTupleType():
		l, ok := doc.([]interface{})
		if !ok || len(l) != v.LengthInt() {
			return "sequence not mirrored by an array of the same length"
		}
		i := 0
		for it := v.ElementIterator(); it.Next(); i++ {
			_, ev := it.Element()
			et := cty.DynamicPseudoType
			if t.IsTupleType() {
				et = t.TupleElementType(i)
			} else {
				et = t.ElementType()
			}
			if why := mirrors(l[i], ev, et); why != "" {
				return why
			}
		}
	case t.IsMapType() || t.IsObjectType():
		m, ok := doc.(map[string]interface{})
		if !ok || len(m) != v.LengthInt() {
			return "mapping not mirrored by an object with the same keys"
		}
		for it := v.ElementIterator(); it.Next(); {
			k, ev := it.Element()
			d, ok := m[k.AsString()]
			if !ok {
				return "key " + k.AsString() + " missing"
			}
			et := cty.DynamicPseudoType
			if t.IsMapType() {
				et = t.ElementType()
			} else {
				et = t.AttributeType(k.AsString())
			}
			if why := mirrors(d, ev, et); why != "" {
				return why
			}
		}
	}
	return ""
}

func genC15(c *Ctx, r *rng.R, i int) {
	if r.Chance(35) {
		c15Docs(c, r)
		return
	}
	tcfg := gt.Cfg{Depth: 3, DynPct: 0, OptPct: 0, CapPct: 0, MaxWidth: 3}
	cfg := gv.KnownCfg
	cfg.NullPct = 10
	if i%7 == 3 {
		// the value's own type keeps placeholders below the top (untyped nulls inside tuples and objects,
		// empty collections of the placeholder): still a wholly known value
		tcfg.DynPct = 20
		cfg.NullPct = 25
	}
	t := gt.Gen(r, tcfg)
	v := gv.Gen(r, t, cfg, 3)
	kind := "known"
	switch r.Intn(12) {
	case 0:
		v = placeMarks(r, v, r.Bool())
		kind = "marked"
	case 1:
		v = gv.Weaken(r, v, 40, true)
		kind = "weakened"
	case 2:
		// an infinity of either sign somewhere inside: JSON has no spelling for it
		inf := []cty.Value{cty.PositiveInfinity, cty.NegativeInfinity, cty.NumberFloatVal(math.Inf(1)), cty.NumberFloatVal(math.Inf(-1)),
			cty.MustParseNumberVal("-Inf"), cty.PositiveInfinity.Negate(), cty.NegativeInfinity.Absolute()}[r.Intn(7)]
		done := false
		if w, err := cty.Transform(v, func(p cty.Path, x cty.Value) (cty.Value, error) {
			if !done && x.Type() == cty.Number && x.IsKnown() && !x.IsNull() && r.Bool() {
				done = true
				return inf, nil
			}
			return x, nil
		}); err == nil && done {
			v = w
		} else {
			v = cty.TupleVal([]cty.Value{v, inf})
		}
		kind = "infinity"
	}
	if !stringsOKSafe(v) || hasHugeNumber(v) {
		c.Count("skipped_domain")
		return
	}
	// a constraint the value conforms to, with dynamic placeholders at arbitrary positions
	con := gt.FromCtyOrNil(v.Type())
	if con == nil {
		return
	}
	if r.Chance(60) {
		con = gt.Generalize(r, con)
	}
	if i%7 == 3 && !v.Type().HasDynamicTypes() {
		switch r.Intn(4) {
		case 0:
			v = cty.TupleVal([]cty.Value{v, cty.NullVal(cty.DynamicPseudoType)})
		case 1:
			v = cty.ObjectVal(map[string]cty.Value{"x": v, "y": cty.NullVal(cty.DynamicPseudoType)})
		case 2:
			v = cty.TupleVal([]cty.Value{cty.ListValEmpty(cty.DynamicPseudoType), v})
		default:
			v = cty.ObjectVal(map[string]cty.Value{"m": cty.MapValEmpty(cty.DynamicPseudoType), "s": cty.SetValEmpty(cty.Tuple([]cty.Type{cty.DynamicPseudoType})), "v": v})
		}
		con = gt.FromCtyOrNil(v.Type())
		if con == nil {
			return
		}
	}
	if v.Type().HasDynamicTypes() && v.Type() != cty.DynamicPseudoType && r.Chance(50) {
		// the whole value below a placeholder: its type, placeholders included, travels in the wrapper
		if r.Bool() {
			con = gt.P(gt.Dyn)
		} else {
			v = cty.TupleVal([]cty.Value{cty.True, v})
			con = &gt.T{K: gt.Tuple, Elems: []*gt.T{gt.P(gt.Bool), gt.P(gt.Dyn)}}
		}
	}
	conTy := con.Build()
	if v.Type().HasDynamicTypes() {
		c.Count("value_type_has_placeholder")
	}
	if len(v.Type().TestConformance(conTy)) != 0 {
		c.Count("skipped_nonconforming")
		return
	}
	var buf []byte
	var err error
	p, pmsg := recovered(func() { buf, err = ctyjson.Marshal(v, conTy) })
	obs, tree := resJV(buf, err, p)
	desc := map[string]interface{}{"v": cq.Show(v), "constraint": con.String(), "kind": kind}
	if err == nil && !p {
		desc["json"] = string(buf)
	}
	c.Count("oracle_evals")
	if obs == "INVALID" {
		c.Fail("C15/invalid-json", "Marshal produced invalid JSON: "+string(buf), desc)
		return
	}
	c.Add("marshal/"+kind, fmt.Sprintf("K15_marshal %s %s %s", cq.Val(v), cq.Ty(conTy), obs), desc, true)
	if p {
		c.Fail("C15/marshal-panic", "Marshal panicked: "+pmsg, desc)
		return
	}
	unrepresentable := v.ContainsMarked() || !v.IsWhollyKnown() || hasInf(v)
	if unrepresentable {
		if err == nil {
			c.Fail("C15/misencoded", "a value JSON cannot represent (unknown / marked / infinite) was encoded: "+string(buf), desc)
		}
		return
	}
	if err != nil {
		c.Fail("C15/marshal-error", "Marshal failed on a representable value: "+err.Error(), desc)
		return
	}
	if !json.Valid(buf) {
		c.Fail("C15/invalid-json", "encoding/json rejects the produced bytes", desc)
		return
	}
	var plain interface{}
	dec := json.NewDecoder(bytes.NewReader(buf))
	dec.UseNumber()
	if derr := dec.Decode(&plain); derr != nil {
		c.Fail("C15/invalid-json", "plain decoding failed: "+derr.Error(), desc)
	} else if why := mirrors(plain, v, conTy); why != "" {
		sig := "C15/mirror"
		if hasInexactIntegerText(v) {
			sig = "C15/integer-text-not-exact"
		}
		c.Fail(sig, "plain JSON decoding does not mirror the value: "+why, desc)
	}
	var back cty.Value
	p, pmsg = recovered(func() { back, err = ctyjson.Unmarshal(buf, conTy) })
	c.Add("unmarshal/roundtrip", fmt.Sprintf("K15_unmarshal %s %s %s %s", normTable(tree), tree.Coq(), cq.Ty(conTy), resValE(back, err, p)), desc, true)
	if p || err != nil {
		sig := "C15/roundtrip"
		if emptyUnderDyn(v, conTy) {
			sig = "C15/type-lost-under-nested-dynamic"
		}
		c.Fail(sig, fmt.Sprintf("Unmarshal of Marshal's output failed (panic=%v %.120s err=%v)", p, pmsg, err), desc)
		return
	}
	c.wf(back, "json.Unmarshal")
	if !back.Type().Equals(v.Type()) {
		sig := "C15/roundtrip-type"
		if emptyUnderDyn(v, conTy) {
			sig = "C15/type-lost-under-nested-dynamic"
		}
		c.Fail(sig, fmt.Sprintf("round trip changed the type: %#v", back.Type()), desc)
	} else if !back.RawEquals(v) {
		sig := "C15/roundtrip"
		if hasInexactIntegerText(v) {
			sig = "C15/integer-text-not-exact"
		}
		c.Fail(sig, "round trip changed the value: "+cq.Show(back), desc)
	}
}

// an empty collection sits where the constraint's element type is (or contains) the dynamic placeholder:
// the encoding has no place for its element type
func emptyUnderDyn(v cty.Value, t cty.Type) bool {
	if !v.IsKnown() {
		return false
	}
	if v.IsNull() {
		// a null is written as a bare null: below a constraint that still contains placeholders its type is lost
		return t != cty.DynamicPseudoType && t.HasDynamicTypes()
	}
	ty := v.Type()
	switch {
	case t == cty.DynamicPseudoType:
		return false // wrapped with its full type
	case ty.IsCollectionType() && t.IsCollectionType():
		if v.LengthInt() == 0 {
			return t.ElementType().HasDynamicTypes()
		}
		for it := v.ElementIterator(); it.Next(); {
			_, ev := it.Element()
			if emptyUnderDyn(ev, t.ElementType()) {
				return true
			}
		}
	case ty.IsTupleType() && t.IsTupleType():
		i := 0
		for it := v.ElementIterator(); it.Next(); i++ {
			_, ev := it.Element()
			if emptyUnderDyn(ev, t.TupleElementType(i)) {
				return true
			}
		}
	case ty.IsObjectType() && t.IsObjectType():
		for it := v.ElementIterator(); it.Next(); {
			k, ev := it.Element()
			if emptyUnderDyn(ev, t.AttributeType(k.AsString())) {
				return true
			}
		}
	}
	return false
}

// a whole number with more bits than its precision holds: its shortest decimal text denotes another integer
func hasInexactIntegerText(v cty.Value) bool {
	found := false
	cty.Walk(v, func(p cty.Path, x cty.Value) (bool, error) {
		x, _ = x.Unmark()
		if x.Type() == cty.Number && x.IsKnown() && !x.IsNull() && !x.AsBigFloat().IsInf() && x.AsBigFloat().IsInt() {
			f := x.AsBigFloat()
			if p, err := cty.ParseNumberVal(f.Text('f', -1)); err == nil && p.AsBigFloat().Cmp(f) != 0 {
				found = true
			}
		}
		return true, nil
	})
	return found
}

// ---- documents from a grammar ----
var numSpellings = []string{"0", "1", "-1", "1.0", "1e2", "1E2", "-0", "0.10", "10", "1.5", "123456789012345678901234567890", "1e-7", "0.1", "2.50", "1e+3"}
var docKeys = []string{"a", "b", "c", "id", "é", "é", "k"}
var docStrings = []string{"", "x", "hello", "é", "é", "1", "true", "日本"}

func genDoc(r *rng.R, depth int) *jv.V {
	if depth <= 0 || r.Chance(35) {
		switch r.Intn(5) {
		case 0:
			return jv.NullV()
		case 1:
			return jv.BoolV(r.Bool())
		case 2:
			return jv.NumV(numSpellings[r.Intn(len(numSpellings))])
		default:
			return jv.S(docStrings[r.Intn(len(docStrings))])
		}
	}
	if r.Bool() {
		a := jv.A()
		a.L = []*jv.V{}
		for k, n := 0, r.Intn(4); k < n; k++ {
			a.L = append(a.L, genDoc(r, depth-1))
		}
		return a
	}
	o := jv.O()
	o.L = []*jv.V{}
	for k, n := 0, r.Intn(4); k < n; k++ {
		o.Put(docKeys[r.Intn(len(docKeys))], genDoc(r, depth-1))
	}
	if len(o.Keys) > 0 && r.Chance(20) { // duplicate key: same or conflicting value
		if r.Bool() {
			o.Put(o.Keys[0], o.L[0].Clone())
		} else {
			o.Put(o.Keys[0], genDoc(r, depth-1))
		}
	}
	return o
}

// structural type of a document (the specification of ImpliedType); conflict=true when a
// duplicate key has values of different structural types
func structType(v *jv.V) (t cty.Type, conflict bool) {
	switch v.K {
	case jv.Null:
		return cty.DynamicPseudoType, false
	case jv.Bool:
		return cty.Bool, false
	case jv.Num:
		return cty.Number, false
	case jv.Str:
		return cty.String, false
	case jv.Arr:
		var ts []cty.Type
		for _, x := range v.L {
			et, cf := structType(x)
			if cf {
				return cty.NilType, true
			}
			ts = append(ts, et)
		}
		if len(ts) == 0 {
			return cty.EmptyTuple, false
		}
		return cty.Tuple(ts), false
	default:
		atys := map[string]cty.Type{}
		for i, x := range v.L {
			et, cf := structType(x)
			if cf {
				return cty.NilType, true
			}
			if old, ok := atys[v.Keys[i]]; ok && !old.Equals(et) {
				return cty.NilType, true
			}
			atys[v.Keys[i]] = et
		}
		// keys that collide only after normalisation
		seen := map[string]string{}
		for k := range atys {
			nk := norm.NFC.String(k)
			if other, ok := seen[nk]; ok && other != k {
				return cty.NilType, true
			}
			seen[nk] = k
		}
		return cty.Object(atys), false
	}
}

func c15Docs(c *Ctx, r *rng.R) {
	doc := genDoc(r, 3)
	buf := doc.Bytes()
	desc := map[string]interface{}{"doc": string(buf)}
	var ity cty.Type
	var err error
	p, pmsg := recovered(func() { ity, err = ctyjson.ImpliedType(buf) })
	c.Add("implied", fmt.Sprintf("K15_implied %s %s %s", normTable(doc), doc.Coq(), resTy(ity, err, p)), desc, doc.K >= jv.Arr)
	c.Count("oracle_evals")
	if p {
		c.Fail("C15/implied-panic", "ImpliedType panicked: "+pmsg, desc)
		return
	}
	want, conflict := structType(doc)
	if conflict {
		return // conflicting duplicate keys: outside the clause
	}
	if err != nil {
		c.Fail("C15/implied-type", "ImpliedType failed on a valid document: "+err.Error(), desc)
		return
	}
	if !ity.Equals(want) {
		c.Fail("C15/implied-type", fmt.Sprintf("ImpliedType = %#v, structural type %#v", ity, want), desc)
		return
	}
	var v cty.Value
	p, pmsg = recovered(func() { v, err = ctyjson.Unmarshal(buf, ity) })
	c.Add("unmarshal/doc", fmt.Sprintf("K15_unmarshal %s %s %s %s", normTable(doc), doc.Coq(), cq.Ty(ity), resValE(v, err, p)), desc, doc.K >= jv.Arr)
	if p || err != nil {
		c.Fail("C15/implied-unmarshal", fmt.Sprintf("Unmarshal with the implied type failed (panic=%v %s err=%v)", p, pmsg, err), desc)
		return
	}
	c.wf(v, "json.Unmarshal")
	out, merr := ctyjson.Marshal(v, ity)
	if merr != nil {
		c.Fail("C15/remarshal", "re-marshalling failed: "+merr.Error(), desc)
		return
	}
	if a, b := canonDoc(doc), canonTree(out); a != b {
		c.Fail("C15/remarshal", fmt.Sprintf("re-marshalled document differs beyond key order / number spelling / normalisation: %s vs %s", b, a), desc)
	}
}

// canonical rendering up to key order, duplicate keys (last wins), number spelling, string normalisation
func canonDoc(v *jv.V) string {
	switch v.K {
	case jv.Null:
		return "null"
	case jv.Bool:
		return fmt.Sprint(v.B)
	case jv.Num:
		n, err := cty.ParseNumberVal(v.S)
		if err != nil {
			return "num?" + v.S
		}
		return "n" + n.AsBigFloat().Text('f', -1)
	case jv.Str:
		return "s" + fmt.Sprintf("%q", norm.NFC.String(v.S))
	case jv.Arr:
		out := "["
		for _, x := range v.L {
			out += canonDoc(x) + ","
		}
		return out + "]"
	default:
		m := map[string]string{}
		for i, x := range v.L {
			m[norm.NFC.String(v.Keys[i])] = canonDoc(x)
		}
		ks := make([]string, 0, len(m))
		for k := range m {
			ks = append(ks, k)
		}
		sort.Strings(ks)
		out := "{"
		for _, k := range ks {
			out += fmt.Sprintf("%q:%s,", k, m[k])
		}
		return out + "}"
	}
}

func canonTree(b []byte) string {
	t, err := jv.Parse(b)
	if err != nil {
		return "invalid"
	}
	return canonDoc(t)
}
