package main

import (
	"bufio"
	"bytes"
	"encoding/hex"
	"fmt"
	"io"
	"os"
	"os/exec"
	"regexp"
	"runtime"
	"strings"
	"time"

	"github.com/zclconf/go-cty/cty"
	ctyjson "github.com/zclconf/go-cty/cty/json"
	"github.com/zclconf/go-cty/cty/msgpack"
	"golang.org/x/text/unicode/norm"
	"verifharness/internal/cq"
	"verifharness/internal/gt"
	"verifharness/internal/gv"
	"verifharness/internal/jv"
	"verifharness/internal/mp"
	"verifharness/internal/rng"
)

func init() {
	register(&Prop{ID: "C17", Imports: "Base Ty BigFloat Value Ops Refine Wf Json K15 Msgpack K17", CaseType: "k17", Check: "k17_check", PropFn: "k17_prop", Gen: genC17})
}

// ---------- the five decoders ----------
const (
	dJSONValue   = "json-unmarshal"
	dJSONType    = "json-type"
	dJSONImplied = "json-implied"
	dMPImplied   = "msgpack-implied"
	dMPValue     = "msgpack-unmarshal"
)

type out17 struct {
	v     cty.Value
	t     cty.Type
	err   error
	panic bool
	pmsg  string
}

func runDecoder(dec string, input []byte, ty cty.Type) (o out17) {
	o.panic, o.pmsg = recovered(func() {
		switch dec {
		case dJSONValue:
			o.v, o.err = ctyjson.Unmarshal(input, ty)
		case dJSONType:
			o.t, o.err = ctyjson.UnmarshalType(input)
		case dJSONImplied:
			o.t, o.err = ctyjson.ImpliedType(input)
		case dMPImplied:
			o.t, o.err = msgpack.ImpliedType(input)
		case dMPValue:
			o.v, o.err = msgpack.Unmarshal(input, ty)
		}
	})
	return
}

// ---------- isolated worker: crashes (fatal errors cannot be recovered) and allocation volume ----------
func worker17() {
	in := bufio.NewReaderSize(os.Stdin, 1<<20)
	outw := bufio.NewWriter(os.Stdout)
	var ms runtime.MemStats
	for {
		line, err := in.ReadString('\n')
		if len(line) > 0 {
			f := strings.Fields(line)
			if len(f) == 3 {
				input, _ := hex.DecodeString(f[1])
				if strings.HasPrefix(f[1], "rep:") { // rep:<hexunit>:<count>:<hexsuffix>
					p := strings.Split(f[1], ":")
					unit, _ := hex.DecodeString(p[1])
					var n int
					fmt.Sscanf(p[2], "%d", &n)
					suffix, _ := hex.DecodeString(p[3])
					input = append(bytes.Repeat(unit, n), suffix...)
					if len(p) > 4 {
						tail, _ := hex.DecodeString(p[4])
						input = append(input, bytes.Repeat(tail, n)...)
					}
				}
				tj, _ := hex.DecodeString(f[2])
				ty := cty.DynamicPseudoType
				if len(tj) > 0 {
					ty, _ = ctyjson.UnmarshalType(tj)
				}
				runtime.ReadMemStats(&ms)
				before := ms.TotalAlloc
				o := runDecoder(f[0], input, ty)
				runtime.ReadMemStats(&ms)
				st := "ok"
				if o.panic {
					st = "panic"
				} else if o.err != nil {
					st = "err"
				}
				fmt.Fprintf(outw, "%s %d\n", st, ms.TotalAlloc-before)
				outw.Flush()
			}
		}
		if err != nil {
			return
		}
	}
}

type iso struct {
	cmd    *exec.Cmd
	in     io.WriteCloser
	out    *bufio.Reader
	stderr *bytes.Buffer
}

var theIso *iso

func isoStart() *iso {
	exe, _ := os.Executable()
	cmd := exec.Command("sh", "-c", `ulimit -v 6291456; exec "$0" worker17`, exe)
	w := &iso{cmd: cmd, stderr: &bytes.Buffer{}}
	w.in, _ = cmd.StdinPipe()
	so, _ := cmd.StdoutPipe()
	w.out = bufio.NewReader(so)
	cmd.Stderr = w.stderr
	if err := cmd.Start(); err != nil {
		panic(err)
	}
	return w
}

// isoRun returns the worker's status ("ok", "err", "panic"), the bytes allocated, or crashed=true with the first lines of stderr
func isoRun(dec string, inputSpec string, tyJSON []byte) (st string, alloc uint64, crashed bool, msg string) {
	if theIso == nil {
		theIso = isoStart()
	}
	w := theIso
	tj := hex.EncodeToString(tyJSON)
	if tj == "" {
		tj = "2264796e616d696322" // "dynamic"
	}
	if inputSpec == "" {
		inputSpec = "rep::0::"
	}
	fmt.Fprintf(w.in, "%s %s %s\n", dec, inputSpec, tj)
	type resp struct {
		line string
		err  error
	}
	ch := make(chan resp, 1)
	go func() {
		l, e := w.out.ReadString('\n')
		ch <- resp{l, e}
	}()
	select {
	case r := <-ch:
		if r.err != nil || !strings.Contains(r.line, " ") {
			w.cmd.Wait()
			theIso = nil
			lines := strings.Split(w.stderr.String(), "\n")
			var keep []string
			for _, l := range lines {
				if strings.HasPrefix(l, "fatal error") || strings.HasPrefix(l, "runtime:") || strings.HasPrefix(l, "panic") {
					keep = append(keep, l)
				}
				if len(keep) >= 3 {
					break
				}
			}
			return "", 0, true, trunc(strings.Join(keep, " | "), 300)
		}
		fmt.Sscanf(r.line, "%s %d", &st, &alloc)
		return st, alloc, false, ""
	case <-time.After(60 * time.Second):
		w.cmd.Process.Kill()
		w.cmd.Wait()
		theIso = nil
		return "", 0, true, "no answer within 60s (killed)"
	}
}

// allocation allowance: a fixed part plus a multiple of the input size
// (the msgpack library reads a byte string of claimed length n in chunks and gives up at the end of input after about 3.4 MB, whatever n: a constant)
const allocFixed, allocPerByte = 8 << 20, 8192

var hugeExponent = regexp.MustCompile(`[0-9.][eE][+-]?[0-9]{5,}`)

// decode17 runs one decoder on one input: isolated first, then (if it survived) in process for the detailed oracle
func decode17(c *Ctx, dec string, input []byte, ty cty.Type, desc map[string]interface{}) (o out17, ok bool) {
	var tyJSON []byte
	if dec == dJSONValue || dec == dMPValue {
		tyJSON, _ = ctyjson.MarshalType(ty)
	}
	st, alloc, crashed, msg := isoRun(dec, hex.EncodeToString(input), tyJSON)
	c.Count("decodes/" + dec)
	if hugeExponent.Match(input) {
		// KF-C17-6: a number text with an exponent of five or more digits is parsed by math/big through exact powers of
		// ten: memory (and, for longer exponents, time and the process) goes with the exponent's value, not the input's size
		if crashed || alloc > allocFixed+allocPerByte*uint64(len(input)) {
			c.Fail("C17/number-exponent-resources", fmt.Sprintf("a %d-byte input holding a number with a huge exponent: %d bytes allocated, process ended: %v", len(input), alloc, crashed), desc)
		}
		c.Count("skipped_in_process/huge-exponent")
		return o, false // (not decoded again inside this process)
	}
	if crashed {
		c.Fail("C17/crash-"+dec, "the decoder terminated the process: "+msg, desc)
		return o, false
	}
	_ = st
	if r := alloc / uint64(len(input)+1); int(r) > c.Counters["max_alloc_per_input_byte"] && alloc > allocFixed/4 {
		c.Counters["max_alloc_per_input_byte"] = int(r)
	}
	if alloc > allocFixed+allocPerByte*uint64(len(input)) {
		c.Fail("C17/memory-"+dec, fmt.Sprintf("%d bytes allocated for a %d-byte input (allowance %d + %d per byte)", alloc, len(input), allocFixed, allocPerByte), desc)
	}
	o = runDecoder(dec, input, ty)
	c.Count("oracle_evals")
	if o.panic {
		c.Fail("C17/panic-"+dec, "the decoder panicked: "+trunc(o.pmsg, 200), desc)
		return o, true
	}
	if o.err != nil {
		c.Count("outcome/error")
		return o, true
	}
	c.Count("outcome/value")
	if (dec == dJSONImplied || dec == dMPImplied) && len(input) < 4096 {
		// the implied type is a function of the input: asked again (Go maps iterate in another order each time) it is the same
		for k := 0; k < 5; k++ {
			o2 := runDecoder(dec, input, ty)
			if o2.panic || (o2.err != nil) || !sameTy(o2.t, o.t) {
				c.Fail("C17/implied-type-depends-on-map-order", fmt.Sprintf("the same input gives %#v and then %#v (err=%v)", o.t, o2.t, o2.err), desc)
				break
			}
		}
	}
	switch dec {
	case dJSONValue, dMPValue:
		c.wf(o.v, dec)
		var errs []error
		if p, _ := recovered(func() { errs = o.v.Type().TestConformance(ty) }); p || len(errs) != 0 {
			c.Fail("C17/nonconforming-"+dec, fmt.Sprintf("decoded a value of type %#v, which does not conform to the requested %#v", o.v.Type(), ty), desc)
		}
	default:
		if p, pm := recovered(func() {
			_ = o.t.GoString()
			if o.t == cty.NilType {
				panic("NilType returned without an error")
			}
			if errs := o.t.TestConformance(o.t); len(errs) != 0 {
				panic("type does not conform to itself")
			}
			_ = cty.UnknownVal(o.t)
		}); p {
			c.Fail("C17/malformed-type-"+dec, "the returned type is not well-formed: "+trunc(pm, 200), desc)
		}
	}
	return o, true
}

// ---------- model cases ----------
func mpNumericOK(t *mp.V) bool {
	ok := true
	t.Strings(func(s string) {
		if len(s) > 400 {
			ok = false
		}
		if i := strings.IndexAny(s, "eEpP"); i >= 0 && len(s)-i > 4 && looksNumeric(s[:i]) {
			ok = false
		}
	})
	return ok
}

func looksNumeric(s string) bool {
	if s == "" {
		return false
	}
	for _, ch := range s {
		if !(ch >= '0' && ch <= '9' || ch == '.' || ch == '-' || ch == '+' || ch == '_') {
			return false
		}
	}
	return true
}

func jvNumericOK(t *jv.V) bool {
	for _, n := range t.Nodes() {
		if n.K == jv.Num || n.K == jv.Str {
			if len(n.S) > 400 {
				return false
			}
			if i := strings.IndexAny(n.S, "eE"); i >= 0 && len(n.S)-i > 4 && looksNumeric(n.S[:i]) {
				return false
			}
		}
	}
	return true
}

func valueModelOK(o out17) bool {
	if o.panic || o.err != nil {
		return true
	}
	return stringsOKSafe(o.v) && !hasHugeNumber(o.v)
}

func (c *Ctx) mpCases(input []byte, ty cty.Type, o out17, class string, desc map[string]interface{}) {
	tree, _, err := mp.Parse(input)
	if err != nil {
		c.Count("not_an_item")
		return
	}
	s, ok := tree.Coq()
	// unmarshalMap drops the "non-string key" error it builds (the statement lacks its return), so
	// after a key of another kind the decoder carries on in the middle of that item: a byte-stream
	// behaviour the item-tree model cannot follow (the outcome is still an error or a conforming
	// value, so it is no violation of this property)
	for _, n := range mpNodes(tree) {
		if n.K == mp.Map {
			for k := 0; k+1 < len(n.L); k += 2 {
				if kk := n.L[k].K; kk != mp.Str && kk != mp.Bin && kk != mp.Nil {
					ok = false
				}
			}
		}
	}
	if !ok || !mpNumericOK(tree) || !valueModelOK(o) || gt.FromCtyOrNil(ty) == nil {
		c.Count("outside_item_model")
		return
	}
	c.Add("msgpack-unmarshal/"+class, fmt.Sprintf("K17_m (K16_unmarshal %s %s %s %s %s)", normTableMP(tree), tree.JTable(), s, cq.Ty(ty), resValE(o.v, o.err, o.panic)), desc, true)
}

func (c *Ctx) mpImpliedCase(input []byte, o out17, class string, desc map[string]interface{}) {
	var items []string
	tbl := map[string]bool{}
	var tblItems []string
	rest := input
	for len(rest) > 0 && len(items) < 3 {
		x, r, err := mp.Parse(rest)
		if err != nil {
			c.Count("not_an_item")
			return
		}
		s, ok := x.Coq()
		if !ok {
			c.Count("outside_item_model")
			return
		}
		items = append(items, s)
		rest = r
		x.Strings(func(k string) {
			if n := norm.NFC.String(k); n != k && !tbl[k] {
				tbl[k] = true
				tblItems = append(tblItems, cq.Pair(cq.Str(k), cq.Str(n)))
			}
		})
	}
	c.Add("msgpack-implied/"+class, fmt.Sprintf("K17_mpimplied %s %s %s", cq.List(tblItems), cq.List(items), resTy(o.t, o.err, o.panic)), desc, true)
}

func (c *Ctx) jsonCases(dec string, input []byte, ty cty.Type, o out17, class string, desc map[string]interface{}) {
	doc, err := jv.Parse(input)
	if err != nil {
		c.Count("not_a_document")
		return
	}
	if !jvNumericOK(doc) || !valueModelOK(o) {
		c.Count("outside_item_model")
		return
	}
	switch dec {
	case dJSONValue:
		if gt.FromCtyOrNil(ty) == nil {
			return
		}
		c.Add(dec+"/"+class, fmt.Sprintf("K17_j (K15_unmarshal %s %s %s %s)", normTable(doc), doc.Coq(), cq.Ty(ty), resValE(o.v, o.err, o.panic)), desc, true)
	case dJSONImplied:
		c.Add(dec+"/"+class, fmt.Sprintf("K17_j (K15_implied %s %s %s)", normTable(doc), doc.Coq(), resTy(o.t, o.err, o.panic)), desc, true)
	case dJSONType:
		if o.err == nil && !o.panic && gt.FromCtyOrNil(o.t) == nil {
			return
		}
		c.Add(dec+"/"+class, fmt.Sprintf("K17_j (K15_oftype %s %s %s)", normTable(doc), doc.Coq(), resTy(o.t, o.err, o.panic)), desc, true)
	}
}

// ---------- mutations ----------
func mutateBytes(r *rng.R, b []byte, other []byte) []byte {
	b = append([]byte{}, b...)
	for k, n := 0, 1+r.Intn(4); k < n; k++ {
		if len(b) == 0 {
			b = append(b, byte(r.Intn(256)))
			continue
		}
		i := r.Intn(len(b))
		switch r.Intn(8) {
		case 0:
			b[i] ^= 1 << uint(r.Intn(8))
		case 1:
			b[i] = byte(r.Intn(256))
		case 2:
			b = append(b[:i], append([]byte{byte(r.Intn(256))}, b[i:]...)...)
		case 3:
			b = append(b[:i], b[i+1:]...)
		case 4:
			b = b[:i]
		case 5: // length-field edit: turn a header into a wider one with an arbitrary count, or bump a count
			hdr := [][]byte{{0xdc, 0x00, byte(r.Intn(5))}, {0xdd, 0x7f, 0xff, 0xff, 0xff}, {0xde, 0x00, byte(r.Intn(5))}, {0xdf, 0x7f, 0xff, 0xff, 0xff},
				{0xdb, 0x7f, 0xff, 0xff, 0xff}, {0xc6, 0x7f, 0xff, 0xff, 0xff}, {0xc9, 0x7f, 0xff, 0xff, 0xff, 0x0c}, {0xc7, byte(r.Intn(256)), 0x0c}, {0xd9, byte(r.Intn(256))},
				{0x90 | byte(r.Intn(16))}, {0x80 | byte(r.Intn(16))}, {0xa0 | byte(r.Intn(32))}}[r.Intn(12)]
			b = append(b[:i], append(hdr, b[i+1:]...)...)
		case 6: // splice a fragment of another encoding
			if len(other) > 0 {
				s := r.Intn(len(other))
				e := s + 1 + r.Intn(len(other)-s)
				b = append(b[:i], append(append([]byte{}, other[s:e]...), b[i:]...)...)
			}
		default: // duplicate a range
			e := i + 1 + r.Intn(len(b)-i)
			b = append(b[:e], append(append([]byte{}, b[i:e]...), b[e:]...)...)
		}
	}
	return b
}

var jsonToks = []string{"{", "}", "[", "]", ",", ":", "\"", "null", "true", "1e5", "-", "\\", "\"type\"", "\"value\"", " ", "0", "\"string\"", "[\"list\",\"number\"]"}

func mutateJSONBytes(r *rng.R, b []byte, other []byte) []byte {
	if r.Chance(40) {
		return mutateBytes(r, b, other)
	}
	b = append([]byte{}, b...)
	for k, n := 0, 1+r.Intn(4); k < n; k++ {
		if len(b) == 0 {
			return []byte(jsonToks[r.Intn(len(jsonToks))])
		}
		i := r.Intn(len(b))
		tok := []byte(jsonToks[r.Intn(len(jsonToks))])
		switch r.Intn(3) {
		case 0:
			b = append(b[:i], append(tok, b[i:]...)...)
		case 1:
			b = append(b[:i], append(tok, b[i+1:]...)...)
		default:
			b = append(b[:i], b[i+1:]...)
		}
	}
	return b
}

// mutateDoc applies 1..3 token-tree mutations to a JSON document: repeated, dropped and renamed
// properties, values of another kind, dynamic wrappers with assorted descriptors
func mutateDoc(r *rng.R, d *jv.V) *jv.V {
	d = d.Clone()
	for k, n := 0, 1+r.Intn(3); k < n; k++ {
		nodes := d.Nodes()
		x := nodes[r.Intn(len(nodes))]
		op := r.Intn(8)
		if r.Chance(50) { // prefer an object with several properties, and the repeat / drop / rename mutations
			var objs []*jv.V
			for _, n := range nodes {
				if n.K == jv.Obj && len(n.Keys) > 1 {
					objs = append(objs, n)
				}
			}
			if len(objs) > 0 {
				x = objs[r.Intn(len(objs))]
				op = r.Intn(4)
			}
		}
		switch op {
		case 0, 1: // repeat a property (same or other value), possibly dropping another one
			if x.K == jv.Obj && len(x.Keys) > 0 {
				i := r.Intn(len(x.Keys))
				val := x.L[i].Clone()
				if r.Bool() {
					val = genDoc(r, 1)
				}
				if len(x.Keys) > 1 && r.Bool() {
					j := (i + 1 + r.Intn(len(x.Keys)-1)) % len(x.Keys)
					x.Keys[j] = x.Keys[i]
					x.L[j] = val
				} else {
					x.Keys = append(x.Keys, x.Keys[i])
					x.L = append(x.L, val)
				}
			} else {
				*x = *genDoc(r, 1)
			}
		case 2: // drop a property / an element
			if (x.K == jv.Obj || x.K == jv.Arr) && len(x.L) > 0 {
				i := r.Intn(len(x.L))
				x.L = append(x.L[:i:i], x.L[i+1:]...)
				if x.K == jv.Obj {
					x.Keys = append(x.Keys[:i:i], x.Keys[i+1:]...)
				}
			} else {
				*x = *jv.NullV()
			}
		case 3: // rename a property
			if x.K == jv.Obj && len(x.Keys) > 0 {
				x.Keys[r.Intn(len(x.Keys))] = []string{"", "zz", "e\u0301", "type", "value"}[r.Intn(5)]
			} else {
				*x = *jv.O().Put("a", x.Clone())
			}
		case 4: // append an element
			if x.K == jv.Arr {
				x.L = append(x.L, genDoc(r, 1))
			} else {
				*x = *jv.A(x.Clone(), genDoc(r, 1))
			}
		case 5: // dynamic wrapper
			desc := []string{`"string"`, `"number"`, `["list","dynamic"]`, `["object",{"a":"string"},["a"]]`, `["tuple",["bool","dynamic"]]`, `["map","number"]`, `"nope"`, `null`, `["set","dynamic"]`}[r.Intn(9)]
			td, _ := jv.Parse([]byte(desc))
			w := jv.O()
			if r.Bool() {
				w.Put("type", td).Put("value", x.Clone())
			} else {
				w.Put("value", x.Clone()).Put("type", td)
			}
			if r.Chance(15) {
				w.Put([]string{"type", "value", "extra"}[r.Intn(3)], genDoc(r, 1))
			}
			*x = *w
		default:
			*x = *genDoc(r, 2)
		}
	}
	return d
}

func mpNodes(v *mp.V) []*mp.V {
	out := []*mp.V{v}
	for _, x := range v.L {
		out = append(out, mpNodes(x)...)
	}
	return out
}

func mpExt(code int8, body []byte) *mp.V { return &mp.V{K: mp.Ext, Code: code, S: string(body)} }

func mpMap(kv ...*mp.V) *mp.V { return &mp.V{K: mp.Map, L: kv} }
func mpInt(i int64) *mp.V     { return &mp.V{K: mp.Int, I: i} }
func mpStr(s string) *mp.V    { return &mp.V{K: mp.Str, S: s} }
func mpBool(b bool) *mp.V     { return &mp.V{K: mp.Bool, B: b} }
func mpArr(l ...*mp.V) *mp.V  { return &mp.V{K: mp.Arr, L: l} }

// a refinement body: entries from menus that include contradictions, wrong kinds and unknown keys
func genRefinementExt(r *rng.R) *mp.V {
	nums := []*mp.V{mpInt(0), mpInt(5), mpInt(-3), {K: mp.F64, F: 1.5}, mpStr("12.5"), mpStr("x"), {K: mp.Nil}, {K: mp.Uint, U: 1 << 63}, mpBool(true),
		mpExt(0, []byte{0}), {K: mp.F64, F: inf(1)}, {K: mp.F64, F: inf(-1)}, mpStr("1e400")}
	var kv []*mp.V
	for k, n := 0, 1+r.Intn(4); k < n; k++ {
		var key, val *mp.V
		switch r.Intn(9) {
		case 0:
			key, val = mpInt(1), []*mp.V{mpBool(true), mpBool(false), {K: mp.Nil}, mpInt(1), mpStr("")}[r.Intn(5)]
		case 1:
			key, val = mpInt(2), []*mp.V{mpStr("ab"), mpStr(""), mpStr("e\xcc\x81"), mpStr("\xff\xfe"), {K: mp.Bin, S: "bin"}, {K: mp.Nil}, mpInt(3), mpStr(strings.Repeat("x", 300))}[r.Intn(8)]
		case 2, 3:
			b := mpArr(nums[r.Intn(len(nums))], []*mp.V{mpBool(true), mpBool(false), {K: mp.Nil}, mpInt(1)}[r.Intn(4)])
			if r.Chance(15) {
				b = []*mp.V{mpArr(), mpArr(mpInt(1)), mpArr(mpInt(1), mpBool(true), mpBool(true)), {K: mp.Nil}, mpInt(3), mpExt(0, []byte{0})}[r.Intn(6)]
			}
			key, val = mpInt(int64(3+r.Intn(2))), b
		case 4, 5:
			key, val = mpInt(int64(5+r.Intn(2))), []*mp.V{mpInt(0), mpInt(1), mpInt(3), mpInt(-1), {K: mp.Uint, U: 1<<64 - 1}, {K: mp.Nil}, mpStr("1"), {K: mp.F64, F: 2}, mpInt(1 << 40)}[r.Intn(9)]
		case 6: // a key this decoder does not know, with a value
			key, val = []*mp.V{mpInt(7), mpInt(0), mpInt(100), mpInt(-1), {K: mp.Nil}, {K: mp.Uint, U: 1<<64 - 1}}[r.Intn(6)], []*mp.V{mpInt(1), mpInt(2), mpBool(false), mpStr("x"), mpInt(9)}[r.Intn(5)]
		case 7: // non-integer key
			key, val = []*mp.V{mpStr("1"), mpBool(true), {K: mp.F64, F: 1}}[r.Intn(3)], mpBool(false)
		default:
			key, val = mpInt(int64(r.Intn(8))), nums[r.Intn(len(nums))]
		}
		kv = append(kv, key, val)
	}
	body := mpMap(kv...).Bytes()
	switch r.Intn(12) {
	case 0: // count larger than what follows
		body[0] = 0x80 | byte(len(kv)/2+1+r.Intn(3))
	case 1: // trailing bytes
		body = append(body, byte(r.Intn(256)), 0xc0)
	case 2: // oversize
		body = append(body, bytes.Repeat([]byte{0xc0}, 1100)...)
	case 3: // not a map
		body = []byte{0x92, 0x01, 0x02}
	}
	code := int8(0x0c)
	if r.Chance(8) {
		code = int8(r.Intn(20))
	}
	return mpExt(code, body)
}

func inf(sign int) float64 {
	z := 0.0
	return float64(sign) / z
}

func randomItem(r *rng.R) *mp.V {
	switch r.Intn(16) {
	case 0:
		return &mp.V{K: mp.Nil}
	case 1:
		return mpBool(r.Bool())
	case 2:
		return mpInt([]int64{0, 1, -1, 127, -32, -33, 1 << 31, -1 << 63, 1<<63 - 1}[r.Intn(9)])
	case 3:
		return &mp.V{K: mp.Uint, U: []uint64{0, 255, 1 << 63, 1<<64 - 1}[r.Intn(4)]}
	case 4:
		return &mp.V{K: mp.F64, F: []float64{0.5, -2.25, 1e300, inf(1), inf(-1), 3}[r.Intn(6)]}
	case 5:
		return &mp.V{K: mp.F32, F: []float64{0.5, 16777216, inf(1)}[r.Intn(3)]}
	case 6:
		return mpStr([]string{"", "a", "12", "-0.5", "1e3", "é", "e\xcc\x81", "\xff", "true", "0x10", "1_000", "Inf", "+5", ".5", "5."}[r.Intn(15)])
	case 7:
		return &mp.V{K: mp.Bin, S: []string{`"string"`, `"number"`, `["list","bool"]`, `["object",{"a":"string"},["a"]]`, `["object",{"a":"string"},["b"]]`, `garbage`, ``, `["tuple",[]]`, `"dynamic"`, `["map","dynamic"]`, `12`}[r.Intn(11)]}
	case 8:
		return mpArr()
	case 9:
		return mpMap()
	case 10:
		return mpExt(0, []byte{0})
	case 11:
		return mpExt(int8(r.Intn(128)), []byte{})
	case 12, 13:
		return genRefinementExt(r)
	case 14:
		return mpArr(&mp.V{K: mp.Bin, S: []string{`"string"`, `"number"`, `["list","dynamic"]`, `["set","string"]`, `["object",{"k":"bool"}]`}[r.Intn(5)]}, randomItem(r))
	default:
		return mpArr(randomItem(r), randomItem(r))
	}
}

func mutateTree(r *rng.R, t *mp.V) *mp.V {
	t, _ = mp.ParseAll(t.Bytes()) // deep copy
	for k, n := 0, 1+r.Intn(3); k < n; k++ {
		nodes := mpNodes(t)
		x := nodes[r.Intn(len(nodes))]
		switch r.Intn(8) {
		case 0, 1, 2:
			*x = *randomItem(r)
		case 3: // duplicate an entry / element
			if x.K == mp.Map && len(x.L) >= 2 {
				x.L = append(x.L, x.L[0], randomItem(r))
			} else if x.K == mp.Arr && len(x.L) >= 1 {
				x.L = append(x.L, x.L[r.Intn(len(x.L))])
			} else {
				y := *x
				*x = *mpArr(&y, &y)
			}
		case 4: // drop an entry / element
			if x.K == mp.Map && len(x.L) >= 2 {
				x.L = x.L[2:]
			} else if x.K == mp.Arr && len(x.L) >= 1 {
				x.L = x.L[1:]
			} else {
				*x = mp.V{K: mp.Nil}
			}
		case 5: // key of another kind
			if x.K == mp.Map && len(x.L) >= 2 {
				x.L[0] = []*mp.V{{K: mp.Nil}, {K: mp.Bin, S: x.L[0].S}, mpInt(1), mpStr("e\xcc\x81"), mpStr("")}[r.Intn(5)]
			} else {
				y := *x
				*x = *mpMap(mpStr("a"), &y)
			}
		case 6: // wrap in a dynamic wrapper
			y := *x
			*x = *mpArr(&mp.V{K: mp.Bin, S: []string{`"string"`, `"number"`, `"bool"`, `["list","dynamic"]`, `["tuple",["dynamic"]]`, `["map","string"]`}[r.Intn(6)]}, &y)
		default:
			*x = *genRefinementExt(r)
		}
	}
	return t
}

// ---------- directed hostile inputs ----------
type hostile struct {
	name, dec, spec string // spec: hex input or rep:<unit>:<n>:<suffix>[:<tail>]
	ty              cty.Type
	size            int
}

func hostileInputs() []hostile {
	big5 := [][]byte{{0xdd, 0x7f, 0xff, 0xff, 0xff}, {0xdf, 0x7f, 0xff, 0xff, 0xff}, {0xdb, 0x7f, 0xff, 0xff, 0xff}, {0xc6, 0x7f, 0xff, 0xff, 0xff}, {0xc9, 0x7f, 0xff, 0xff, 0xff, 0x0c},
		{0xdc, 0xff, 0xff}, {0xde, 0xff, 0xff}}
	var hs []hostile
	tys := []cty.Type{cty.List(cty.String), cty.Set(cty.Number), cty.Map(cty.Bool), cty.Tuple([]cty.Type{cty.String}), cty.Object(map[string]cty.Type{"a": cty.String}),
		cty.String, cty.Number, cty.DynamicPseudoType, cty.List(cty.List(cty.DynamicPseudoType))}
	for _, b := range big5 {
		hs = append(hs, hostile{"huge-length-header", dMPImplied, hex.EncodeToString(b), cty.DynamicPseudoType, len(b)})
		hs = append(hs, hostile{"huge-length-header-nested", dMPImplied, hex.EncodeToString(append([]byte{0x92, 0x01}, b...)), cty.DynamicPseudoType, len(b) + 2})
		for _, t := range tys {
			hs = append(hs, hostile{"huge-length-header", dMPValue, hex.EncodeToString(b), t, len(b)})
			hs = append(hs, hostile{"huge-length-header-nested", dMPValue, hex.EncodeToString(append([]byte{0x91}, b...)), cty.List(t), len(b) + 1})
		}
		// inside a dynamic wrapper and inside a refinement body
		hs = append(hs, hostile{"huge-length-header-in-wrapper", dMPValue, hex.EncodeToString(append([]byte{0x92, 0xc4, 0x11}, append([]byte(`["list","string"]`), b...)...)), cty.DynamicPseudoType, len(b) + 19})
		hs = append(hs, hostile{"huge-length-header-in-refinement", dMPValue, hex.EncodeToString(append([]byte{0xc7, byte(len(b)), 0x0c}, b...)), cty.String, len(b) + 3})
	}
	// an unknown list whose refinement fixes its length: the value must not be built out of that many placeholders
	for _, n := range [][]byte{{0xce, 0x01, 0x00, 0x00, 0x00}, {0xce, 0x7f, 0xff, 0xff, 0xff}, {0xcf, 0x00, 0x00, 0x01, 0x00, 0x00, 0x00, 0x00, 0x00}, {0xcd, 0x04, 0x01}} {
		body := append(append(append([]byte{0x83, 0x01, 0xc2, 0x05}, n...), 0x06), n...)
		in := append([]byte{0xc7, byte(len(body)), 0x0c}, body...)
		for _, t := range []cty.Type{cty.List(cty.String), cty.Set(cty.String), cty.Map(cty.String), cty.List(cty.DynamicPseudoType)} {
			hs = append(hs, hostile{"exact-length-refinement", dMPValue, hex.EncodeToString(in), t, len(in)})
		}
		hs = append(hs, hostile{"exact-length-refinement-nested", dMPValue, hex.EncodeToString(append([]byte{0x91}, in...)), cty.Tuple([]cty.Type{cty.List(cty.Number)}), len(in) + 1})
	}
	const deep = 6000000
	hs = append(hs,
		hostile{"deep-nesting", dMPImplied, fmt.Sprintf("rep:91:%d:c0", deep), cty.DynamicPseudoType, deep + 1},
		hostile{"deep-nesting", dMPImplied, fmt.Sprintf("rep:81a161:%d:c0", deep/3), cty.DynamicPseudoType, deep + 1},
		hostile{"deep-nesting", dMPValue, fmt.Sprintf("rep:91:%d:c0", deep), cty.DynamicPseudoType, deep + 1},
		// maps only, deep enough to exhaust the largest goroutine stack if the depth limit did not count them
		hostile{"deep-nesting-maps", dMPImplied, fmt.Sprintf("rep:81a0:%d:c0", 2*deep), cty.DynamicPseudoType, 4*deep + 1},
		hostile{"deep-nesting-mixed", dMPImplied, fmt.Sprintf("rep:9181a0:%d:c0", deep), cty.DynamicPseudoType, 3*deep + 1},
		hostile{"deep-nesting", dJSONImplied, fmt.Sprintf("rep:5b:%d::5d", deep), cty.DynamicPseudoType, 2 * deep},
		hostile{"deep-nesting", dJSONImplied, fmt.Sprintf("rep:7b2261223a:%d:30:7d", deep/5), cty.DynamicPseudoType, 2 * deep},
		hostile{"deep-nesting", dJSONValue, fmt.Sprintf("rep:5b:%d::5d", deep), cty.DynamicPseudoType, 2 * deep},
		hostile{"deep-nesting", dJSONValue, fmt.Sprintf("rep:7b2276616c7565223a:%d:30:7d", deep/9), cty.DynamicPseudoType, 2 * deep},
		hostile{"deep-nesting", dJSONType, fmt.Sprintf("rep:5b226c697374222c:%d:22737472696e6722:5d", deep/8), cty.DynamicPseudoType, 2 * deep},
	)
	return hs
}

// ---------- generator ----------
func targets17(r *rng.R, con *gt.T) []cty.Type {
	cfg := gt.Cfg{Depth: 3, DynPct: 15, OptPct: 0, CapPct: 0, MaxWidth: 3} // target types are value types: no optional-attribute annotations
	ts := []cty.Type{con.Build()}
	ts = append(ts, gt.Mutate(r, con, cfg).Build())
	switch r.Intn(3) {
	case 0:
		ts = append(ts, gt.Gen(r, cfg).Build())
	case 1:
		ts = append(ts, cty.DynamicPseudoType)
	default:
		ts = append(ts, gt.Generalize(r, con).Build())
	}
	for k := range ts {
		ts[k] = ts[k].WithoutOptionalAttributesDeep()
	}
	return ts
}

// corpus17: minimal inputs of defects met before (each was a panic, a crash or a nonconforming /
// ill-formed result at some point); they run first, through the same oracle and model cases
type corpus17 struct {
	dec   string
	input []byte
	ty    cty.Type
}

func corpusInputs() []corpus17 {
	obj := func(m map[string]cty.Type) cty.Type { return cty.Object(m) }
	ext := func(body ...byte) []byte { return append([]byte{0xc7, byte(len(body)), 0x0c}, body...) }
	tyOpt := []byte(`["object",{"a":"string"},["a"]]`)
	wrapMP := func(tj []byte, val ...byte) []byte {
		return append(append([]byte{0x92, 0xc4, byte(len(tj))}, tj...), val...)
	}
	cs := []corpus17{
		// contradictory / out-of-range / wrongly typed refinements
		{dMPValue, ext(0x82, 0x01, 0xc3, 0x02, 0xa2, 'a', 'b'), cty.String},
		{dMPValue, ext(0x82, 0x01, 0xc2, 0x01, 0xc3), cty.String},
		{dMPValue, ext(0x82, 0x03, 0x92, 0x05, 0xc3, 0x04, 0x92, 0x01, 0xc3), cty.Number},
		{dMPValue, ext(0x82, 0x05, 0x03, 0x06, 0x01), cty.List(cty.String)},
		{dMPValue, ext(0x81, 0x05, 0xff), cty.Set(cty.Number)},
		{dMPValue, ext(0x81, 0x02, 0xa1, 'x'), cty.Number},
		{dMPValue, ext(0x81, 0x03, 0x92, 0xd4, 0x00, 0x00, 0xc3), cty.Number},
		{dMPValue, ext(0x81, 0x03, 0x92, 0x01, 0xd4, 0x00, 0x00), cty.Number},
		{dMPValue, ext(0x81, 0x03, 0x92, 0xcb, 0x7f, 0xf8, 0, 0, 0, 0, 0, 1, 0xc3), cty.Number},
		// NaN items
		{dMPValue, []byte{0xcb, 0x7f, 0xf8, 0, 0, 0, 0, 0, 1}, cty.Number},
		{dMPValue, []byte{0xca, 0x7f, 0xc0, 0, 0}, cty.Number},
		{dMPValue, []byte{0x91, 0xcb, 0xff, 0xf8, 0, 0, 0, 0, 0, 0}, cty.List(cty.Number)},
		// empty array / map for a non-empty structure; repeated attribute in place of a missing one; two spellings of one attribute
		{dMPValue, []byte{0x90}, cty.Tuple([]cty.Type{cty.String})},
		{dMPValue, []byte{0x80}, obj(map[string]cty.Type{"a": cty.String})},
		{dMPValue, []byte{0x82, 0xa1, 'a', 0x01, 0xa1, 'a', 0x02}, obj(map[string]cty.Type{"a": cty.Number, "b": cty.Number})},
		{dMPValue, []byte{0x82, 0xa2, 0xc3, 0xa9, 0x01, 0xa3, 0x65, 0xcc, 0x81, 0x02}, obj(map[string]cty.Type{"\u00e9": cty.Number, "x": cty.Number})},
		{dMPValue, []byte{0x92, 0x82, 0xa2, 0xc3, 0xa9, 0x01, 0xa3, 0x65, 0xcc, 0x81, 0x02, 0xc0}, cty.Tuple([]cty.Type{obj(map[string]cty.Type{"\u00e9": cty.Number, "x": cty.Number}), cty.String})},
		// two spellings (precomposed, decomposed) of one property name with values of different types
		{dJSONImplied, []byte("{\"\u00e9\":\"true\",\"e\u0301\":1}"), cty.DynamicPseudoType},
		{dJSONImplied, []byte("{\"e\u0301\":[true],\"\u00e9\":\"x\",\"z\":null}"), cty.DynamicPseudoType},
		{dJSONImplied, []byte("[{\"\u212b\":1,\"\u00c5\":\"s\"}]"), cty.DynamicPseudoType},
		{dJSONImplied, []byte("{\"\u00e9\":1,\"e\u0301\":2}"), cty.DynamicPseudoType},
		{dMPImplied, []byte{0x82, 0xa2, 0xc3, 0xa9, 0xa1, 'x', 0xa3, 0x65, 0xcc, 0x81, 0x01}, cty.DynamicPseudoType},
		{dMPImplied, []byte{0x82, 0xa3, 0x65, 0xcc, 0x81, 0xc3, 0xa2, 0xc3, 0xa9, 0xa1, 'x'}, cty.DynamicPseudoType},
		{dMPImplied, []byte{0x83, 0xa2, 0xc3, 0xa9, 0x01, 0xa1, 'k', 0xc0, 0xa3, 0x65, 0xcc, 0x81, 0x90}, cty.DynamicPseudoType},
		{dMPImplied, []byte{0x91, 0x82, 0xa3, 0x65, 0xcc, 0x81, 0x01, 0xa2, 0xc3, 0xa9, 0xc2}, cty.DynamicPseudoType},
		// type descriptors with optional attributes beside null / unknown / empty values
		{dMPValue, wrapMP(tyOpt, 0xc0), cty.DynamicPseudoType},
		{dMPValue, wrapMP(tyOpt, 0xd4, 0x00, 0x00), cty.DynamicPseudoType},
		{dMPValue, wrapMP([]byte(`["list",["object",{"a":"string"},["a"]]]`), 0x90), cty.DynamicPseudoType},
		{dJSONValue, []byte(`{"type":["object",{"a":"string"},["a"]],"value":null}`), cty.DynamicPseudoType},
		{dJSONValue, []byte(`{"type":["list",["object",{"a":"string"},["a"]]],"value":[]}`), cty.DynamicPseudoType},
		{dJSONValue, []byte(`{"value":{"a":null},"type":["object",{"a":["object",{"b":"bool"},["b"]]}]}`), cty.DynamicPseudoType},
		// type descriptors: undeclared optional, null where a type is expected
		{dJSONType, []byte(`["object",{"a":"string"},["b"]]`), cty.DynamicPseudoType},
		{dJSONType, []byte(`["list",null]`), cty.DynamicPseudoType},
		{dJSONType, []byte(`["tuple",["string",null]]`), cty.DynamicPseudoType},
		{dJSONType, []byte(`["object",{"a":null}]`), cty.DynamicPseudoType},
		{dJSONType, []byte(`null`), cty.DynamicPseudoType},
		{dJSONValue, []byte(`{"type":["list",null],"value":[]}`), cty.DynamicPseudoType},
		{dMPValue, wrapMP([]byte(`["list",null]`), 0x90), cty.DynamicPseudoType},
		// differently typed members under a collection of dynamic; too-short tuples
		{dJSONValue, []byte(`[{"type":"string","value":"a"},{"type":"number","value":1}]`), cty.List(cty.DynamicPseudoType)},
		{dJSONValue, []byte(`{"a":{"type":"string","value":"a"},"b":{"type":"bool","value":true}}`), cty.Map(cty.DynamicPseudoType)},
		{dMPValue, append(append([]byte{0x92}, wrapMP([]byte(`"string"`), 0xa1, 'a')...), wrapMP([]byte(`"number"`), 0x01)...), cty.Set(cty.DynamicPseudoType)},
		{dJSONValue, []byte(`[null]`), cty.Tuple([]cty.Type{cty.DynamicPseudoType, cty.DynamicPseudoType})},
		{dJSONValue, []byte(`[[1]]`), cty.Tuple([]cty.Type{cty.Tuple([]cty.Type{cty.Number, cty.Number})})},
		{dJSONValue, []byte(`{"a":1,"a":2}`), obj(map[string]cty.Type{"a": cty.Number, "b": cty.Number})},
	}
	return cs
}

func genC17(c *Ctx, r *rng.R, i int) {
	hs := hostileInputs()
	if cs := corpusInputs(); i >= len(hs) && i < len(hs)+len(cs) {
		k := cs[i-len(hs)]
		desc := map[string]interface{}{"decoder": k.dec, "input": hex.EncodeToString(k.input), "target": fmt.Sprintf("%#v", k.ty), "kind": "corpus"}
		if k.dec == dJSONValue || k.dec == dJSONType {
			desc["input"] = string(k.input)
		}
		if o, ok := decode17(c, k.dec, k.input, k.ty, desc); ok {
			switch k.dec {
			case dMPImplied:
				c.mpImpliedCase(k.input, o, "corpus", desc)
			case dMPValue:
				c.mpCases(k.input, k.ty, o, "corpus", desc)
			default:
				c.jsonCases(k.dec, k.input, k.ty, o, "corpus", desc)
			}
		}
		return
	}
	if i < len(hs) {
		h := hs[i]
		desc := map[string]interface{}{"decoder": h.dec, "input": h.spec, "target": fmt.Sprintf("%#v", h.ty), "kind": h.name}
		var tyJSON []byte
		if h.dec == dJSONValue || h.dec == dMPValue {
			tyJSON, _ = ctyjson.MarshalType(h.ty)
		}
		st, alloc, crashed, msg := isoRun(h.dec, h.spec, tyJSON)
		c.Count("hostile/" + h.name)
		c.Count("oracle_evals")
		switch {
		case crashed:
			c.Fail("C17/crash-"+h.dec+"/"+h.name, "the decoder terminated the process: "+msg, desc)
		case st == "panic":
			c.Fail("C17/panic-"+h.dec, "the decoder panicked on a hostile input", desc)
		case alloc > allocFixed+allocPerByte*uint64(h.size):
			c.Fail("C17/memory-"+h.dec+"/"+h.name, fmt.Sprintf("%d bytes allocated for a %d-byte input", alloc, h.size), desc)
		}
		return
	}
	cfg := gt.Cfg{Depth: 3, DynPct: 0, OptPct: 0, CapPct: 0, MaxWidth: 3}
	t := gt.Gen(r, cfg)
	vcfg := gv.DefaultCfg
	vcfg.NoMarks, vcfg.MarkPct = true, 0
	if r.Chance(7) {
		c17Heterogeneous(c, r)
		return
	}
	mode := r.Intn(100)
	switch {
	case mode < 55: // MessagePack
		vcfg.UnkPct = 15
		v := gv.Gen(r, t, vcfg, 3)
		if !stringsOKSafe(v) || hasHugeNumber(v) {
			return
		}
		con := gt.FromCtyOrNil(v.Type())
		if con == nil {
			return
		}
		if r.Chance(40) {
			con = gt.Generalize(r, con)
		}
		buf, err := msgpack.Marshal(v, con.Build())
		if err != nil {
			return
		}
		other, _ := msgpack.Marshal(gv.Gen(r, gt.Gen(r, cfg), vcfg, 2), cty.DynamicPseudoType)
		var input []byte
		class := "bytes"
		switch {
		case mode < 25:
			input = mutateBytes(r, buf, other)
		case mode < 50:
			tree, perr := mp.ParseAll(buf)
			if perr != nil {
				return
			}
			input = mutateTree(r, tree).Bytes()
			class = "items"
			if r.Chance(15) {
				input = mutateBytes(r, input, other)
				class = "items+bytes"
			}
		default:
			input = make([]byte, 1+r.Intn(24))
			for k := range input {
				input[k] = byte(r.U64())
			}
			class = "random"
		}
		for _, ty := range targets17(r, con) {
			desc := map[string]interface{}{"decoder": dMPValue, "input": hex.EncodeToString(input), "target": fmt.Sprintf("%#v", ty), "from": cq.Show(v), "kind": class}
			if o, ok := decode17(c, dMPValue, input, ty, desc); ok {
				c.mpCases(input, ty, o, class, desc)
			}
		}
		desc := map[string]interface{}{"decoder": dMPImplied, "input": hex.EncodeToString(input), "kind": class}
		if o, ok := decode17(c, dMPImplied, input, cty.DynamicPseudoType, desc); ok {
			c.mpImpliedCase(input, o, class, desc)
		}
	case mode < 88: // JSON values
		vcfg.UnkPct = 0
		var buf []byte
		var con *gt.T
		class := "bytes"
		if r.Bool() {
			v := gv.Gen(r, t, vcfg, 3)
			if !v.IsWhollyKnown() || !stringsOKSafe(v) || hasHugeNumber(v) || hasInf(v) {
				return
			}
			con = gt.FromCtyOrNil(v.Type())
			if con == nil {
				return
			}
			if r.Chance(40) {
				con = gt.Generalize(r, con)
			}
			var err error
			buf, err = ctyjson.Marshal(v, con.Build())
			if err != nil {
				return
			}
		} else {
			doc := genDoc(r, 3)
			buf = doc.Bytes()
			st, conflict := structType(doc)
			if conflict {
				st = cty.DynamicPseudoType
			}
			con = gt.FromCtyOrNil(st)
			if con == nil {
				return
			}
			class = "document"
		}
		other := genDoc(r, 2).Bytes()
		input := buf
		switch {
		case r.Chance(45):
			input = mutateJSONBytes(r, buf, other)
		case r.Chance(80):
			if doc, perr := jv.Parse(buf); perr == nil {
				input = mutateDoc(r, doc).Bytes()
				class += "+tokens"
			}
		}
		for _, ty := range targets17(r, con) {
			desc := map[string]interface{}{"decoder": dJSONValue, "input": string(input), "target": fmt.Sprintf("%#v", ty), "kind": class}
			if o, ok := decode17(c, dJSONValue, input, ty, desc); ok {
				c.jsonCases(dJSONValue, input, ty, o, class, desc)
			}
		}
		desc := map[string]interface{}{"decoder": dJSONImplied, "input": string(input), "kind": class}
		if o, ok := decode17(c, dJSONImplied, input, cty.DynamicPseudoType, desc); ok {
			c.jsonCases(dJSONImplied, input, cty.DynamicPseudoType, o, class, desc)
		}
	default: // JSON type descriptions
		tt := gt.Gen(r, gt.Cfg{Depth: 3, DynPct: 12, OptPct: 30, CapPct: 0, MaxWidth: 3})
		buf, err := ctyjson.MarshalType(tt.Build())
		if err != nil {
			return
		}
		doc, perr := jv.Parse(buf)
		if perr != nil {
			return
		}
		class := "type-tokens"
		input := buf
		switch r.Intn(3) {
		case 0:
			input = mutateTypeDoc(r, mutateTypeDoc(r, doc)).Bytes()
		case 1:
			input = mutateTypeDoc(r, doc).Bytes()
		default:
			input = mutateJSONBytes(r, buf, genDoc(r, 2).Bytes())
			class = "type-bytes"
		}
		desc := map[string]interface{}{"decoder": dJSONType, "input": string(input), "kind": class}
		if o, ok := decode17(c, dJSONType, input, cty.DynamicPseudoType, desc); ok {
			c.jsonCases(dJSONType, input, cty.DynamicPseudoType, o, class, desc)
		}
	}
}

// c17Heterogeneous: collections whose element type is left to the input (list / set / map of dynamic): members
// that name different types of their own, separated by untyped nulls and unknowns. The collection constructors
// refuse such member lists, so the decoders have to.
func c17Heterogeneous(c *Ctx, r *rng.R) {
	pool := []cty.Value{cty.StringVal("a"), cty.NumberIntVal(1), cty.True, cty.ListVal([]cty.Value{cty.StringVal("x")}),
		cty.StringVal("b"), cty.NumberIntVal(2), cty.EmptyObjectVal, cty.NullVal(cty.String)}
	n := 2 + r.Intn(4)
	ms := make([]cty.Value, n)
	same := r.Chance(35) // all typed members of one type: decodes
	first := pool[r.Intn(len(pool))]
	for k := range ms {
		switch {
		case r.Chance(30):
			ms[k] = cty.NullVal(cty.DynamicPseudoType)
		case r.Chance(10):
			ms[k] = cty.DynamicVal
		case same:
			ms[k] = first
		default:
			ms[k] = pool[r.Intn(len(pool))]
		}
	}
	asMap := r.Chance(30)
	nested := r.Chance(25)
	var targets []cty.Type
	if asMap {
		targets = []cty.Type{cty.Map(cty.DynamicPseudoType), cty.DynamicPseudoType}
	} else {
		targets = []cty.Type{cty.List(cty.DynamicPseudoType), cty.Set(cty.DynamicPseudoType), cty.DynamicPseudoType}
	}
	if nested {
		for k := range targets {
			targets[k] = cty.List(targets[k])
		}
	}
	// MessagePack
	{
		var body []byte
		var pieces [][]byte
		ok := true
		for k, m := range ms {
			b, err := msgpack.Marshal(m, cty.DynamicPseudoType)
			if err != nil {
				ok = false
				break
			}
			if asMap {
				body = append(body, 0xa2, 'k', byte('0'+k))
			}
			body = append(body, b...)
			pieces = append(pieces, b)
		}
		if ok && !asMap && !nested {
			var boxes, objs []byte
			for _, b := range pieces {
				boxes = append(append(boxes, 0x91), b...)
				objs = append(append(objs, 0x81, 0xa1, 'a'), b...)
			}
			for _, sp := range []struct {
				in []byte
				ty cty.Type
			}{
				{append([]byte{byte(0x90 | n)}, boxes...), cty.List(cty.List(cty.DynamicPseudoType))},
				{append([]byte{byte(0x90 | n)}, boxes...), cty.List(cty.Tuple([]cty.Type{cty.DynamicPseudoType}))},
				{append([]byte{byte(0x90 | n)}, boxes...), cty.Set(cty.Set(cty.DynamicPseudoType))},
				{append([]byte{byte(0x90 | n)}, objs...), cty.List(cty.Object(map[string]cty.Type{"a": cty.DynamicPseudoType}))},
				{append([]byte{byte(0x90 | n)}, objs...), cty.Set(cty.Map(cty.DynamicPseudoType))},
			} {
				desc := map[string]interface{}{"decoder": dMPValue, "input": hex.EncodeToString(sp.in), "target": fmt.Sprintf("%#v", sp.ty), "kind": "heterogeneous-split"}
				if o, ok := decode17(c, dMPValue, sp.in, sp.ty, desc); ok {
					c.mpCases(sp.in, sp.ty, o, "heterogeneous-split", desc)
				}
			}
		}
		if ok {
			hdr := byte(0x90 | n)
			if asMap {
				hdr = byte(0x80 | n)
			}
			input := append([]byte{hdr}, body...)
			if nested {
				input = append([]byte{0x91}, input...)
			}
			for _, ty := range targets {
				desc := map[string]interface{}{"decoder": dMPValue, "input": hex.EncodeToString(input), "target": fmt.Sprintf("%#v", ty), "kind": "heterogeneous"}
				if o, ok := decode17(c, dMPValue, input, ty, desc); ok {
					c.mpCases(input, ty, o, "heterogeneous", desc)
				}
			}
		}
	}
	// JSON (no unknown values there)
	{
		var parts []string
		ok := true
		for k, m := range ms {
			if !m.IsKnown() {
				m = cty.NullVal(cty.DynamicPseudoType)
			}
			b, err := ctyjson.Marshal(m, cty.DynamicPseudoType)
			if err != nil {
				ok = false
				break
			}
			if asMap {
				parts = append(parts, fmt.Sprintf("%q:%s", fmt.Sprintf("k%d", k), b))
			} else {
				parts = append(parts, string(b))
			}
		}
		if ok {
			doc := "[" + strings.Join(parts, ",") + "]"
			if asMap {
				doc = "{" + strings.Join(parts, ",") + "}"
			}
			if nested {
				doc = "[" + doc + "]"
			}
			input := []byte(doc)
			for _, ty := range targets {
				desc := map[string]interface{}{"decoder": dJSONValue, "input": doc, "target": fmt.Sprintf("%#v", ty), "kind": "heterogeneous"}
				if o, ok := decode17(c, dJSONValue, input, ty, desc); ok {
					c.jsonCases(dJSONValue, input, ty, o, "heterogeneous", desc)
				}
			}
			// each member in a structure of its own: the members agree with their own constraint one by one, the
			// structures around them get different types, and the collection of those structures has to refuse them
			if !asMap && !nested {
				var boxes, objs []string
				for _, p := range parts {
					boxes = append(boxes, "["+p+"]")
					objs = append(objs, `{"a":`+p+`}`)
				}
				split := []struct {
					doc string
					ty  cty.Type
				}{
					{"[" + strings.Join(boxes, ",") + "]", cty.List(cty.List(cty.DynamicPseudoType))},
					{"[" + strings.Join(boxes, ",") + "]", cty.List(cty.Tuple([]cty.Type{cty.DynamicPseudoType}))},
					{"[" + strings.Join(boxes, ",") + "]", cty.Set(cty.Set(cty.DynamicPseudoType))},
					{"[" + strings.Join(objs, ",") + "]", cty.List(cty.Object(map[string]cty.Type{"a": cty.DynamicPseudoType}))},
					{"[" + strings.Join(objs, ",") + "]", cty.Set(cty.Map(cty.DynamicPseudoType))},
				}
				for _, sp := range split {
					desc := map[string]interface{}{"decoder": dJSONValue, "input": sp.doc, "target": fmt.Sprintf("%#v", sp.ty), "kind": "heterogeneous-split"}
					if o, ok := decode17(c, dJSONValue, []byte(sp.doc), sp.ty, desc); ok {
						c.jsonCases(dJSONValue, []byte(sp.doc), sp.ty, o, "heterogeneous-split", desc)
					}
				}
			}
		}
	}
}
