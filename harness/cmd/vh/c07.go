package main

import (
	"encoding/json"
	"fmt"
	"strings"

	"github.com/zclconf/go-cty/cty"
	"golang.org/x/text/unicode/norm"
	"verifharness/internal/cq"
	"verifharness/internal/gt"
	"verifharness/internal/jv"
	"verifharness/internal/rng"
)

func init() {
	for i, c := range gt.Caps {
		cq.RegisterCapsule(c, i)
	}
	register(&Prop{ID: "C07", Imports: "Base Ty K07", CaseType: "k07", Check: "k07_check", PropFn: "k07_prop", Gen: genC07})
}

// recovered runs f and reports whether it panicked.
func recovered(f func()) (panicked bool, msg string) {
	defer func() {
		if r := recover(); r != nil {
			panicked = true
			msg = fmt.Sprint(r)
		}
	}()
	f()
	return
}

func confCounts(errs []error) [4]int {
	var c [4]int
	for _, e := range errs {
		m := e.Error()
		switch {
		case strings.Contains(m, "unsupported attribute"):
			c[0]++
		case strings.Contains(m, "missing required attribute"):
			c[1]++
		case strings.Contains(m, "elements are required"):
			c[2]++
		default:
			c[3]++
		}
	}
	return c
}

func coqN4(c [4]int) string { return fmt.Sprintf("(%d, %d, %d, %d)", c[0], c[1], c[2], c[3]) }

// typeOfJSONObs runs Type.UnmarshalJSON on the document and prints the observation as [res ty].
func typeOfJSONObs(doc []byte) (obs string, ty cty.Type, ok bool) {
	var t cty.Type
	var err error
	p, _ := recovered(func() { err = json.Unmarshal(doc, &t) })
	switch {
	case p:
		return cq.PanicR, cty.NilType, false
	case err != nil:
		return cq.ErrOther, cty.NilType, false
	}
	return cq.Ok(cq.Ty(t)), t, true
}

func normTable(v *jv.V) string {
	var items []string
	seen := map[string]bool{}
	for _, n := range v.Nodes() {
		ss := append([]string{}, n.Keys...)
		if n.K == jv.Str {
			ss = append(ss, n.S)
		}
		for _, s := range ss {
			ns := norm.NFC.String(s)
			if ns != s && !seen[s] {
				seen[s] = true
				items = append(items, cq.Pair(cq.Str(s), cq.Str(ns)))
			}
		}
	}
	return cq.List(items)
}

func genC07(c *Ctx, r *rng.R, i int) {
	cfg := gt.DefaultCfg
	if c.Tier == "thorough" {
		cfg.Depth = 4
	}
	a := gt.Gen(r, cfg)
	var b *gt.T
	rel := ""
	switch r.Intn(10) {
	case 9:
		// two capsule types made by separate calls with the same name and native type are different types
		a1, b1 := a.Clone(), a.Clone()
		pa, pb := gt.Positions(a1), gt.Positions(b1)
		k := r.Intn(len(pa))
		*pa[k] = gt.T{K: gt.Cap, CapID: 0}
		*pb[k] = gt.T{K: gt.Cap, CapID: 2}
		a, b, rel = a1, b1, "capsule-twin"
	case 0, 1:
		b, rel = a.Clone(), "same"
	case 2, 3, 4:
		b, rel = gt.Mutate(r, a, cfg), "mutant"
	case 5, 6:
		b, rel = gt.Gen(r, cfg), "independent"
	default:
		// as many optional attributes on both sides, under different names
		if a1 := gt.MoveOpt(r, a); a1 != nil {
			if b1 := gt.MoveOpt(r, a1); b1 != nil {
				a, b, rel = a1, b1, "optional-moved"
				break
			}
		}
		b, rel = gt.Mutate(r, a, cfg), "mutant"
	}
	A, B := a.Build(), b.Build()
	desc := map[string]string{"a": a.String(), "b": b.String(), "rel": rel}

	// --- Equals, both directions
	eqAB, eqBA := A.Equals(B), B.Equals(A)
	c.Add("equals/"+rel, fmt.Sprintf("K07_equals %s %s %s", cq.Ty(A), cq.Ty(B), cq.Bool(eqAB)), desc, !gt.Same(a, b) || a.K >= gt.List)
	c.Add("equals/"+rel, fmt.Sprintf("K07_equals %s %s %s", cq.Ty(B), cq.Ty(A), cq.Bool(eqBA)), desc, !gt.Same(a, b) || a.K >= gt.List)
	c.Count("oracle_evals")
	if eqAB != gt.Same(a, b) {
		c.Fail("C07/equals-structural", fmt.Sprintf("Equals(%s, %s)=%v but structurally identical=%v", a, b, eqAB, gt.Same(a, b)), desc)
	}
	if eqAB != eqBA {
		c.Fail("C07/equals-symmetry", fmt.Sprintf("Equals(%s, %s)=%v but reversed=%v", a, b, eqAB, eqBA), desc)
	}
	if !A.Equals(A) {
		c.Fail("C07/equals-reflexive", fmt.Sprintf("Equals(%s, itself)=false", a), desc)
	}
	// transitivity through a third type related to b
	d := gt.Mutate(r, b, cfg)
	if r.Chance(50) {
		d = b.Clone()
	}
	D := d.Build()
	if eqAB && B.Equals(D) && !A.Equals(D) {
		c.Fail("C07/equals-transitive", fmt.Sprintf("%s = %s = %s but not first = last", a, b, d), desc)
	}

	// --- conformance: constraint derived from a (generalised), from b, or resolved the other way
	var con *gt.T
	crel := ""
	switch r.Intn(5) {
	case 4:
		con, crel = gt.Mutate(r, a, cfg), "mutant-of-t"
	case 0:
		con, crel = gt.Generalize(r, a), "generalised"
	case 1:
		con, crel = gt.Mutate(r, gt.Generalize(r, a), cfg), "generalised-mutant"
	case 2:
		con, crel = b, rel
	default:
		con, crel = gt.Generalize(r, b), "generalised-other"
	}
	CON := con.Build()
	errs := A.TestConformance(CON)
	cdesc := map[string]string{"t": a.String(), "constraint": con.String(), "rel": crel}
	c.Add("conformance/"+crel, fmt.Sprintf("K07_conf %s %s %s", cq.Ty(A), cq.Ty(CON), coqN4(confCounts(errs))), cdesc, true)
	c.Count("oracle_evals")
	if (len(errs) == 0) != gt.Conf(a, con) {
		c.Fail("C07/conformance-iff", fmt.Sprintf("TestConformance(%s, %s) reports %d errors but specification says conforms=%v", a, con, len(errs), gt.Conf(a, con)), cdesc)
	}
	if errs != nil && len(errs) == 0 {
		c.Fail("C07/conformance-nonempty", "non-nil empty error slice", cdesc)
	}

	// --- HasDynamicTypes
	hd := A.HasDynamicTypes()
	c.Add("hasdyn", fmt.Sprintf("K07_hasdyn %s %s", cq.Ty(A), cq.Bool(hd)), desc, a.K >= gt.List)
	c.Count("oracle_evals")
	if hd != gt.HasDyn(a) {
		c.Fail("C07/hasdyn-iff", fmt.Sprintf("HasDynamicTypes(%s)=%v, placeholder occurs=%v", a, hd, gt.HasDyn(a)), desc)
	}

	// --- WithoutOptionalAttributesDeep
	S := A.WithoutOptionalAttributesDeep()
	c.Add("strip", fmt.Sprintf("K07_strip %s %s", cq.Ty(A), cq.Ty(S)), desc, gt.HasOpt(a))
	c.Count("oracle_evals")
	if !gt.Same(gt.FromCty(S), gt.Strip(a)) {
		c.Fail("C07/strip-only-opt", fmt.Sprintf("strip(%s) = %s, expected %s", a, gt.FromCty(S), gt.Strip(a)), desc)
	}
	if !S.WithoutOptionalAttributesDeep().Equals(S) {
		c.Fail("C07/strip-idempotent", fmt.Sprintf("strip(strip(%s)) differs from strip", a), desc)
	}

	// --- JSON: marshal, then unmarshal of that and of mutated documents
	var doc []byte
	var merr error
	if p, msg := recovered(func() { doc, merr = A.MarshalJSON() }); p {
		c.Fail("C07/json-marshal-panic", msg, desc)
		return
	}
	if merr != nil {
		c.Add("tojson/error", fmt.Sprintf("K07_tojson %s %s", cq.Ty(A), cq.ErrOther), desc, true)
		if !gt.HasCap(a) {
			c.Fail("C07/json-roundtrip", fmt.Sprintf("MarshalJSON(%s) failed: %v", a, merr), desc)
		}
		return
	}
	tree, perr := jv.Parse(doc)
	if perr != nil {
		c.Fail("C07/json-valid", fmt.Sprintf("MarshalJSON(%s) produced invalid JSON %q: %v", a, doc, perr), desc)
		return
	}
	c.Add("tojson/ok", fmt.Sprintf("K07_tojson %s %s", cq.Ty(A), cq.Ok(tree.Coq())), desc, a.K >= gt.List)
	obs, back, ok := typeOfJSONObs(doc)
	c.Add("ofjson/valid", fmt.Sprintf("K07_ofjson %s %s %s", normTable(tree), tree.Coq(), obs), desc, a.K >= gt.List)
	c.Count("oracle_evals")
	if !ok || !back.Equals(A) || !gt.Same(gt.FromCty(back), a) {
		c.Fail("C07/json-roundtrip", fmt.Sprintf("UnmarshalJSON(MarshalJSON(%s)) = %s", a, obs), desc)
	}
	// mutated documents
	for k := 0; k < 2; k++ {
		m := mutateTypeDoc(r, tree)
		mdoc := m.Bytes()
		mobs, mt, mok := typeOfJSONObs(mdoc)
		mdesc := map[string]string{"doc": string(mdoc), "from": a.String()}
		cls := "ofjson/mutated-err"
		if mok {
			cls = "ofjson/mutated-ok"
			// whatever decodes must itself survive a round trip
			if d2, err := mt.MarshalJSON(); err == nil {
				var t2 cty.Type
				if err := json.Unmarshal(d2, &t2); err != nil || !t2.Equals(mt) {
					c.Fail("C07/json-roundtrip", fmt.Sprintf("type decoded from %s does not round-trip", mdoc), mdesc)
				}
			}
		} else if mobs == cq.PanicR {
			cls = "ofjson/mutated-panic"
		}
		c.Add(cls, fmt.Sprintf("K07_ofjson %s %s %s", normTable(m), m.Coq(), mobs), mdesc, true)
	}
}

// mutateTypeDoc applies one token-level mutation to a type description.
func mutateTypeDoc(r *rng.R, t *jv.V) *jv.V {
	m := t.Clone()
	nodes := m.Nodes()
	n := nodes[r.Intn(len(nodes))]
	kinds := []string{"list", "set", "map", "tuple", "object", "bool", "number", "string", "dynamic", "List", ""}
	switch r.Intn(9) {
	case 0: // replace by another kind word / string
		*n = *jv.S(kinds[r.Intn(len(kinds))])
	case 1: // null
		*n = *jv.NullV()
	case 2: // append an element to an array
		if n.K == jv.Arr {
			n.L = append(n.L, jv.S(kinds[r.Intn(len(kinds))]))
		} else {
			*n = *jv.A(jv.S("list"), n.Clone())
		}
	case 3: // drop the last element of an array
		if n.K == jv.Arr && len(n.L) > 0 {
			n.L = n.L[:len(n.L)-1]
		} else {
			*n = *jv.NumV("1")
		}
	case 4: // duplicate key / add key (possibly not normalised)
		if n.K == jv.Obj {
			if len(n.Keys) > 0 && r.Bool() {
				n.Put(n.Keys[0], jv.S("number"))
			} else {
				n.Put([]string{"é", "zz", "Å"}[r.Intn(3)], jv.S("bool"))
			}
		} else {
			*n = *jv.O().Put("k", n.Clone())
		}
	case 5: // add optional list to an object description
		if n.K == jv.Arr && len(n.L) >= 2 && n.L[0].K == jv.Str && n.L[0].S == "object" {
			opt := jv.A()
			opt.L = []*jv.V{}
			if n.L[1].K == jv.Obj && len(n.L[1].Keys) > 0 && r.Chance(70) {
				opt.L = append(opt.L, jv.S(n.L[1].Keys[r.Intn(len(n.L[1].Keys))]))
			}
			if r.Chance(40) {
				opt.L = append(opt.L, jv.S("undeclared"))
			}
			if r.Chance(15) {
				opt.L = append(opt.L, jv.NullV())
			}
			if len(n.L) == 2 {
				n.L = append(n.L, opt)
			} else {
				n.L[2] = opt
			}
		} else {
			*n = *jv.BoolV(true)
		}
	case 6: // swap kind word of a compound
		if n.K == jv.Arr && len(n.L) > 0 {
			n.L[0] = jv.S(kinds[r.Intn(5)])
		} else {
			*n = *jv.A()
		}
	case 7: // replace an element type by an empty tuple/object description
		*n = *jv.A(jv.S([]string{"tuple", "object"}[r.Intn(2)]), []*jv.V{jv.A(), jv.O(), jv.NullV()}[r.Intn(3)])
		if n.L[1].K == jv.Arr {
			n.L[1].L = []*jv.V{}
		}
	default: // wrap
		*n = *jv.A(jv.S([]string{"list", "set", "map"}[r.Intn(3)]), n.Clone())
	}
	return m
}
