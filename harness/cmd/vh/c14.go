package main

import (
	"encoding/csv"
	"fmt"
	"math"
	"math/big"
	"regexp"
	"strings"
	"time"
	"unicode/utf8"

	"github.com/apparentlymart/go-textseg/v15/textseg"
	"github.com/zclconf/go-cty/cty"
	ctyjson "github.com/zclconf/go-cty/cty/json"
	"golang.org/x/text/unicode/norm"
	"verifharness/internal/cq"
	"verifharness/internal/jv"
	"verifharness/internal/rng"
)

func init() {
	register(&Prop{ID: "C14", Imports: "Base Ty BigFloat Value Ops Refine Walk Convert Json K15 StdRef StdRef14", CaseType: "k14", Check: "k14_check", Gen: genC14})
}

var c14Names = []string{"Absolute", "Negate", "Add", "Subtract", "Multiply", "Divide", "Modulo", "LessThan", "GreaterThan", "LessThanOrEqualTo", "GreaterThanOrEqualTo",
	"Min", "Max", "Int", "Ceil", "Floor", "Signum", "ParseInt", "Log", "Pow",
	"Upper", "Lower", "Title", "TrimSpace", "Trim", "TrimPrefix", "TrimSuffix", "Chomp", "Indent", "Replace", "Split", "Join", "Strlen", "Reverse", "Substr",
	"Format", "FormatList", "JSONEncode", "JSONDecode", "CSVDecode", "FormatDate", "TimeAdd", "Regex", "RegexAll", "RegexReplace"}

var c14Model = map[string]bool{"Absolute": true, "Negate": true, "Add": true, "Subtract": true, "Multiply": true, "Divide": true, "Modulo": true, "LessThan": true, "GreaterThan": true,
	"LessThanOrEqualTo": true, "GreaterThanOrEqualTo": true, "Min": true, "Max": true, "Int": true, "Ceil": true, "Floor": true, "Signum": true, "ParseInt": true,
	"Chomp": true, "Strlen": true, "Reverse": true, "Indent": true, "TrimPrefix": true, "TrimSuffix": true, "Replace": true, "Split": true, "Join": true, "Substr": true}

func clustersOf(s string) []string {
	var out []string
	b := []byte(s)
	for len(b) > 0 {
		d, _, _ := textseg.ScanGraphemeClusters(b, true)
		if d <= 0 {
			break
		}
		out = append(out, string(b[:d]))
		b = b[d:]
	}
	return out
}

func wholeInt(v cty.Value) (int64, bool) {
	f := v.AsBigFloat()
	if !f.IsInt() {
		return 0, false
	}
	i, acc := f.Int64()
	return i, acc == big.Exact
}

// goRef: the answer of Go's standard library (or an independent computation) for the documented
// semantics; raw is the string result before cty's normalisation. ok=false: no reference here.
func goRef(name string, args []cty.Value) (ret cty.Value, raws []string, fails bool, ok bool) {
	str := func(i int) string { return args[i].AsString() }
	sv := func(s string) (cty.Value, []string, bool, bool) { return cty.StringVal(s), []string{s}, false, true }
	switch name {
	case "Upper":
		return sv(strings.ToUpper(str(0)))
	case "Lower":
		return sv(strings.ToLower(str(0)))
	case "Title":
		return sv(strings.Title(str(0)))
	case "TrimSpace":
		return sv(strings.TrimSpace(str(0)))
	case "Trim":
		return sv(strings.Trim(str(0), str(1)))
	case "TrimPrefix":
		return sv(strings.TrimPrefix(str(0), str(1)))
	case "TrimSuffix":
		return sv(strings.TrimSuffix(str(0), str(1)))
	case "Chomp":
		s := str(0)
		for strings.HasSuffix(s, "\n") || strings.HasSuffix(s, "\r") {
			s = s[:len(s)-1]
		}
		return sv(s)
	case "Indent":
		n, w := wholeInt(args[0])
		if !w || n < 0 || n > 1<<20 {
			return cty.NilVal, nil, true, w && n <= 1<<20
		}
		return sv(strings.ReplaceAll(str(1), "\n", "\n"+strings.Repeat(" ", int(n))))
	case "Replace":
		return sv(strings.ReplaceAll(str(0), str(1), str(2)))
	case "Split":
		parts := strings.Split(str(1), str(0))
		vs := make([]cty.Value, len(parts))
		for i, p := range parts {
			vs[i] = cty.StringVal(p)
		}
		if len(vs) == 0 {
			return cty.ListValEmpty(cty.String), parts, false, true
		}
		return cty.ListVal(vs), parts, false, true
	case "Join":
		if len(args) < 2 {
			return cty.NilVal, nil, true, true
		}
		var items []string
		for _, l := range args[1:] {
			for _, e := range l.AsValueSlice() {
				if e.IsNull() {
					return cty.NilVal, nil, true, true
				}
				items = append(items, e.AsString())
			}
		}
		return sv(strings.Join(items, str(0)))
	case "Strlen":
		return cty.NumberIntVal(int64(len(clustersOf(str(0))))), nil, false, true
	case "Reverse":
		cl := clustersOf(str(0))
		for i, j := 0, len(cl)-1; i < j; i, j = i+1, j-1 {
			cl[i], cl[j] = cl[j], cl[i]
		}
		return sv(strings.Join(cl, ""))
	case "Substr":
		off, w1 := wholeInt(args[1])
		ln, w2 := wholeInt(args[2])
		if !w1 || !w2 {
			return cty.NilVal, nil, true, true
		}
		cl := clustersOf(str(0))
		n := int64(len(cl))
		if off < 0 {
			off += n
			if off < 0 {
				off = 0
			}
		}
		if off > n {
			off = n
		}
		rest := cl[off:]
		if ln >= 0 && ln < int64(len(rest)) {
			rest = rest[:ln]
		}
		return sv(strings.Join(rest, ""))
	case "Ceil", "Floor", "Int":
		f := args[0].AsBigFloat()
		if f.IsInf() {
			if name == "Int" {
				return cty.NilVal, nil, true, true
			}
			return args[0], nil, false, true
		}
		r, _ := f.Rat(nil)                        // exact
		q := new(big.Int).Quo(r.Num(), r.Denom()) // truncated toward zero
		isInt := r.IsInt()
		switch name {
		case "Ceil":
			if !isInt && r.Sign() > 0 {
				q.Add(q, big.NewInt(1))
			}
		case "Floor":
			if !isInt && r.Sign() < 0 {
				q.Sub(q, big.NewInt(1))
			}
		}
		return cty.NumberVal(new(big.Float).SetPrec(1024).SetInt(q)), nil, false, true
	case "Signum":
		return cty.NumberIntVal(int64(args[0].AsBigFloat().Sign())), nil, false, true
	case "Log", "Pow":
		a, _ := args[0].AsBigFloat().Float64()
		b, _ := args[1].AsBigFloat().Float64()
		var r float64
		if name == "Log" {
			r = math.Log(a) / math.Log(b)
		} else {
			r = math.Pow(a, b)
		}
		if math.IsNaN(r) {
			return cty.NilVal, nil, true, true
		}
		return cty.NumberFloatVal(r), nil, false, true
	case "Regex", "RegexAll":
		re, err := regexp.Compile(str(0))
		if err != nil {
			return cty.NilVal, nil, true, true
		}
		names := re.SubexpNames()[1:]
		named, unnamed := 0, 0
		for _, n := range names {
			if n == "" {
				unnamed++
			} else {
				named++
			}
		}
		if named > 0 && unnamed > 0 {
			return cty.NilVal, nil, true, true
		}
		// one match, from the strings regexp reports and from who took part in it
		one := func(m []string, loc []int) cty.Value {
			group := func(i int) cty.Value {
				if loc[2*i] < 0 {
					return cty.NullVal(cty.String) // the group took no part in the match
				}
				raws = append(raws, m[i])
				return cty.StringVal(m[i])
			}
			switch {
			case len(names) == 0:
				raws = append(raws, m[0])
				return cty.StringVal(m[0])
			case unnamed > 0:
				vs := make([]cty.Value, len(names))
				for i := range names {
					vs[i] = group(i + 1)
				}
				return cty.TupleVal(vs)
			default:
				o := map[string]cty.Value{}
				for i, n := range names {
					o[n] = group(i + 1)
				}
				return cty.ObjectVal(o)
			}
		}
		subj := str(1)
		if name == "Regex" {
			m, loc := re.FindStringSubmatch(subj), re.FindStringSubmatchIndex(subj)
			if m == nil {
				return cty.NilVal, nil, true, true
			}
			return one(m, loc), raws, false, true
		}
		ms, locs := re.FindAllStringSubmatch(subj, -1), re.FindAllStringSubmatchIndex(subj, -1)
		if len(ms) == 0 {
			return cty.NilVal, nil, false, false // an empty list of a pattern-dependent element type: left to the implementation
		}
		vs := make([]cty.Value, len(ms))
		for i := range ms {
			vs[i] = one(ms[i], locs[i])
		}
		return cty.ListVal(vs), raws, false, true
	case "RegexReplace":
		re, err := regexp.Compile(str(1))
		if err != nil {
			return cty.NilVal, nil, true, true
		}
		// the documented rule, match by match: $name / ${name} / $1 in the replacement refer to the groups
		var sb strings.Builder
		last := 0
		for _, loc := range re.FindAllStringSubmatchIndex(str(0), -1) {
			sb.WriteString(str(0)[last:loc[0]])
			sb.Write(re.ExpandString(nil, str(2), str(0), loc))
			last = loc[1]
		}
		sb.WriteString(str(0)[last:])
		return sv(sb.String())
	case "TimeAdd":
		t, err := time.Parse(time.RFC3339, str(0))
		d, err2 := time.ParseDuration(str(1))
		if err != nil || err2 != nil {
			return cty.NilVal, nil, true, err2 != nil || strictRFC3339(str(0)) // a lenient parse failure only counts when the stamp is plainly not RFC 3339
		}
		return sv(t.Add(d).Format(time.RFC3339))
	case "FormatDate":
		t, err := time.Parse(time.RFC3339, str(1))
		if err != nil {
			return cty.NilVal, nil, true, strictRFC3339(str(1))
		}
		out, bad := refFormatDate(str(0), t)
		if bad {
			return cty.NilVal, nil, true, true
		}
		return sv(out)
	case "CSVDecode":
		rd := csv.NewReader(strings.NewReader(str(0)))
		recs, err := rd.ReadAll()
		if err != nil || len(recs) == 0 {
			return cty.NilVal, nil, true, err != nil // an empty document: no headers, left to the implementation
		}
		hdr := recs[0]
		seen := map[string]bool{}
		for _, h := range hdr {
			if seen[h] {
				return cty.NilVal, nil, true, true
			}
			seen[h] = true
		}
		var rows []cty.Value
		for _, rec := range recs[1:] {
			m := map[string]cty.Value{}
			for i, h := range hdr {
				m[h] = cty.StringVal(rec[i])
			}
			rows = append(rows, cty.ObjectVal(m))
		}
		if len(rows) == 0 {
			aty := map[string]cty.Type{}
			for _, h := range hdr {
				aty[norm.NFC.String(h)] = cty.String
			}
			return cty.ListValEmpty(cty.Object(aty)), nil, false, true
		}
		return cty.ListVal(rows), nil, false, true
	}
	return cty.NilVal, nil, false, false
}

// strictRFC3339: shaped like yyyy-mm-ddThh:mm:ss[.frac](Z|+hh:mm) with upper-case letters
func strictRFC3339(s string) bool {
	if len(s) < 20 || s[4] != '-' || s[7] != '-' || s[10] != 'T' || s[13] != ':' || s[16] != ':' {
		return true // malformed in a way every RFC 3339 parser rejects: time.Parse's verdict stands
	}
	return !strings.ContainsAny(s, "tz")
}

// refFormatDate: the documented verbs, by run of one letter; quoted literals with ” for a quote
func refFormatDate(f string, t time.Time) (string, bool) {
	var sb strings.Builder
	for i := 0; i < len(f); {
		c := f[i]
		if c == '\'' {
			j := i + 1
			var lit strings.Builder
			closed := false
			for j < len(f) {
				if f[j] == '\'' {
					if j+1 < len(f) && f[j+1] == '\'' {
						lit.WriteByte('\'')
						j += 2
						continue
					}
					closed = true
					j++
					break
				}
				lit.WriteByte(f[j])
				j++
			}
			if !closed {
				return "", true
			}
			if lit.Len() == 0 {
				sb.WriteByte('\'')
			} else {
				sb.WriteString(lit.String())
			}
			i = j
			continue
		}
		if (c >= 'a' && c <= 'z') || (c >= 'A' && c <= 'Z') {
			j := i
			for j < len(f) && f[j] == c {
				j++
			}
			n := j - i
			verb := fmt.Sprintf("%c%d", c, n)
			h12 := t.Hour() % 12
			if h12 == 0 {
				h12 = 12
			}
			switch verb {
			case "Y2":
				sb.WriteString(t.Format("06"))
			case "Y4":
				sb.WriteString(t.Format("2006"))
			case "M1":
				sb.WriteString(t.Format("1"))
			case "M2":
				sb.WriteString(t.Format("01"))
			case "M3":
				sb.WriteString(t.Format("Jan"))
			case "M4":
				sb.WriteString(t.Format("January"))
			case "D1":
				sb.WriteString(t.Format("2"))
			case "D2":
				sb.WriteString(t.Format("02"))
			case "E3":
				sb.WriteString(t.Format("Mon"))
			case "E4":
				sb.WriteString(t.Format("Monday"))
			case "h1":
				fmt.Fprintf(&sb, "%d", t.Hour())
			case "h2":
				sb.WriteString(t.Format("15"))
			case "H1":
				fmt.Fprintf(&sb, "%d", h12)
			case "H2":
				fmt.Fprintf(&sb, "%02d", h12)
			case "A2":
				sb.WriteString(t.Format("PM"))
			case "a2":
				sb.WriteString(t.Format("pm"))
			case "m1":
				fmt.Fprintf(&sb, "%d", t.Minute())
			case "m2":
				sb.WriteString(t.Format("04"))
			case "s1":
				fmt.Fprintf(&sb, "%d", t.Second())
			case "s2":
				sb.WriteString(t.Format("05"))
			case "Z1":
				sb.WriteString(t.Format("Z07:00"))
			case "Z3":
				if z := t.Format("-0700"); z == "+0000" {
					sb.WriteString("UTC")
				} else {
					sb.WriteString(z)
				}
			case "Z4":
				sb.WriteString(t.Format("-0700"))
			case "Z5":
				sb.WriteString(t.Format("-07:00"))
			default:
				return "", true
			}
			i = j
			continue
		}
		sb.WriteByte(c)
		i++
	}
	return sb.String(), false
}

// fmtDirected: one documented verb with one argument of the matching kind, and what Go's fmt prints for it
func fmtDirected(r *rng.R) ([]cty.Value, string) {
	flags := []string{"", "5", "-5", "05", "+", "10", "-8"}[r.Intn(7)]
	pre, post := []string{"", "x=", "é "}[r.Intn(3)], []string{"", "|", " %%"}[r.Intn(3)]
	switch r.Intn(12) {
	case 8, 9, 10, 11: // several verbs, explicit argument indexes going forwards and backwards, then implicit ones again
		for try := 0; try < 20; try++ {
			k := 2 + r.Intn(3)
			words := []string{"a", "bb", "c3", "dd4", "e"}
			args := make([]interface{}, k)
			vals := []cty.Value{cty.NilVal}
			for i := range args {
				args[i] = words[i]
				vals = append(vals, cty.StringVal(words[i]))
			}
			nv := 2 + r.Intn(4)
			var sb strings.Builder
			cur, ok := 0, true
			used := map[int]bool{}
			for j := 0; j < nv; j++ {
				if j > 0 {
					sb.WriteString([]string{" ", "-", ""}[r.Intn(3)])
				}
				if r.Chance(45) {
					n := 1 + r.Intn(k)
					fmt.Fprintf(&sb, "%%[%d]s", n)
					cur = n
				} else {
					sb.WriteString("%s")
					cur++
				}
				if cur > k {
					ok = false
				}
				used[cur] = true
			}
			if !ok || len(used) != k {
				continue
			}
			f := pre + sb.String() + post
			vals[0] = cty.StringVal(f)
			return vals, fmt.Sprintf(f, args...)
		}
		return []cty.Value{cty.StringVal("%[2]s %[1]s %s"), cty.StringVal("a"), cty.StringVal("b")}, "b a b"
	case 6: // precision and width of %s count grapheme clusters and never split one
		s := graphemeStrs[r.Intn(len(graphemeStrs))]
		cl := clustersOf(s)
		n := r.Intn(4)
		if n > len(cl) {
			n = len(cl)
		}
		return []cty.Value{cty.StringVal(pre + fmt.Sprintf("%%.%ds", n) + post), cty.StringVal(s)}, fmt.Sprintf(pre+"%s"+post, strings.Join(cl[:n], ""))
	case 7:
		s := graphemeStrs[r.Intn(len(graphemeStrs))]
		w := 1 + r.Intn(9)
		pad := ""
		if k := len(clustersOf(s)); k < w {
			pad = strings.Repeat(" ", w-k)
		}
		if r.Bool() {
			return []cty.Value{cty.StringVal(pre + fmt.Sprintf("%%%ds", w) + post), cty.StringVal(s)}, fmt.Sprintf(pre+"%s"+post, pad+s)
		}
		return []cty.Value{cty.StringVal(pre + fmt.Sprintf("%%-%ds", w) + post), cty.StringVal(s)}, fmt.Sprintf(pre+"%s"+post, s+pad)
	case 0:
		s := graphemeStrs[r.Intn(len(graphemeStrs))]
		if strings.ContainsAny(flags, "0+") {
			flags = ""
		}
		if clustersLenDiffers(s) {
			flags = "" // width counts grapheme clusters in cty, runes in fmt
		}
		v := "%" + flags + "s"
		return []cty.Value{cty.StringVal(pre + v + post), cty.StringVal(s)}, fmt.Sprintf(pre+v+post, s)
	case 1:
		n := []int64{0, 1, -1, 42, -273, 65535, 1 << 40, -1 << 62}[r.Intn(8)]
		v := "%" + flags + "d"
		if r.Chance(35) {
			// flags and width together with an explicit argument index
			v = "%" + flags + "[2]d"
			return []cty.Value{cty.StringVal(pre + v + post), cty.StringVal("pad"), cty.NumberIntVal(n)}, fmt.Sprintf(pre+v+post, "pad", n)
		}
		return []cty.Value{cty.StringVal(pre + v + post), cty.NumberIntVal(n)}, fmt.Sprintf(pre+v+post, n)
	case 2:
		b := r.Bool()
		return []cty.Value{cty.StringVal(pre + "%t" + post), cty.BoolVal(b)}, fmt.Sprintf(pre+"%t"+post, b)
	case 3:
		n := []int64{0, 1, 255, 4096, 1 << 33}[r.Intn(5)]
		vb := []string{"x", "X", "o", "b"}[r.Intn(4)]
		if flags == "+" {
			flags = ""
		}
		v := "%" + flags + vb
		if r.Chance(35) {
			v = "%" + flags + "[2]" + vb
			return []cty.Value{cty.StringVal(pre + v + post), cty.StringVal("pad"), cty.NumberIntVal(n)}, fmt.Sprintf(pre+v+post, "pad", n)
		}
		return []cty.Value{cty.StringVal(pre + v + post), cty.NumberIntVal(n)}, fmt.Sprintf(pre+v+post, n)
	case 4:
		f := []float64{0, 1.5, -2.25, 1234.5678, 1e10, 0.001, 100}[r.Intn(7)]
		v := "%" + []string{"f", ".2f", "10.3f", ".0f", "e", ".3e", "g"}[r.Intn(7)]
		if r.Chance(35) {
			v = v[:len(v)-1] + "[2]" + v[len(v)-1:]
			return []cty.Value{cty.StringVal(pre + v + post), cty.StringVal("pad"), cty.NumberFloatVal(f)}, fmt.Sprintf(pre+v+post, "pad", f)
		}
		return []cty.Value{cty.StringVal(pre + v + post), cty.NumberFloatVal(f)}, fmt.Sprintf(pre+v+post, f)
	default:
		s := []string{"a", "hello world", "quo\"te", "tab\there", "é", ""}[r.Intn(6)]
		return []cty.Value{cty.StringVal(pre + "%q" + post), cty.StringVal(s)}, fmt.Sprintf(pre+"%q"+post, s)
	}
}

func clustersLenDiffers(s string) bool { return len(clustersOf(s)) != utf8.RuneCountInString(s) }

func genC14(c *Ctx, r *rng.R, i int) {
	name := c14Names[i%len(c14Names)]
	fn := stdByName[name]
	args := safeGen(fn, r)
	fmtWant := ""
	if name == "Format" && r.Chance(70) {
		args, fmtWant = fmtDirected(r)
	}
	if name == "FormatDate" && r.Chance(12) {
		// a format longer than the scanner's first 4096-byte buffer, a run of one verb letter straddling the boundary
		pad := strings.Repeat("-", 4086+r.Intn(12))
		f := pad + []string{"YYYY-MM-DD", "hh:mm:ss", "DD MMM YYYY", "YYYYMMDDhhmmss", "EEEE"}[r.Intn(5)]
		args = []cty.Value{cty.StringVal(f), cty.StringVal("2020-02-29T15:04:05Z")}
	} else if name == "FormatDate" && r.Chance(40) {
		// clock verbs at the hours where 12-hour and 24-hour notation part ways
		f := []string{"H", "HH", "h", "hh", "H AA", "HH:mm aa", "hh:mm:ss", "h aa"}[r.Intn(8)]
		ts := []string{"2020-01-01T00:00:00Z", "2020-01-01T00:59:59+01:00", "2020-01-01T12:00:00Z", "2020-01-01T12:30:00-05:00", "2020-01-01T13:00:00Z", "2020-01-01T23:59:59Z", "2020-01-01T01:00:00Z", "2020-01-01T11:59:59Z"}[r.Intn(8)]
		args = []cty.Value{cty.StringVal(f), cty.StringVal(ts)}
	}
	for _, a := range args {
		if !a.IsWhollyKnown() || a.ContainsMarked() || hasNegZero(a) {
			c.Count("skipped_input")
			return
		}
	}
	desc := map[string]interface{}{"fn": name, "args": showArgs(args)}
	var v cty.Value
	var err error
	p, pm := recovered(func() { v, err = fn.F.Call(args) })
	c.Count("oracle_evals")
	c.Count("fn/" + name)
	if p || isPanicErr(err) {
		c.Fail("C14/"+name+"/panic", "panic: "+trunc(pm, 150), desc)
		return
	}
	anyNull := false
	for _, a := range args {
		if a.IsNull() {
			anyNull = true
		}
	}
	// 1. Go's standard library as the reference
	var raws []string
	if !anyNull {
		var want cty.Value
		var fails, ok bool
		pr, _ := recovered(func() { want, raws, fails, ok = goRef(name, args) })
		if ok && !pr {
			c.Count("go_reference_evals")
			switch {
			case fails && err == nil:
				c.Fail("C14/"+name+"/accepts-outside-domain", "the reference rejects these arguments, the function returns "+cq.Show(v), desc)
			case !fails && err != nil:
				c.Fail("C14/"+name+"/fails-inside-domain", "the reference answers "+cq.Show(want)+", the function fails: "+trunc(err.Error(), 150), desc)
			case !fails && err == nil:
				same := v.RawEquals(want)
				if !same && v.Type() == cty.Number && want.Type() == cty.Number {
					same = v.AsBigFloat().Cmp(want.AsBigFloat()) == 0
				}
				if !same {
					c.Fail("C14/"+name+"/differs-from-reference", "reference "+cq.Show(want)+", function "+cq.Show(v), desc)
				}
			}
		}
	}
	if fmtWant != "" {
		c.Count("go_reference_evals")
		if err != nil {
			c.Fail("C14/Format/fails-inside-domain", "fmt prints "+fmt.Sprintf("%q", fmtWant)+", the function fails: "+trunc(err.Error(), 150), desc)
		} else if !v.RawEquals(cty.StringVal(fmtWant)) {
			c.Fail("C14/Format/differs-from-reference", "fmt prints "+fmt.Sprintf("%q", fmtWant)+", the function "+cq.Show(v), desc)
		}
	}
	// 2. the Gallina reference
	if c14Model[name] && modelable(args) && !hugeCount(args) && (err != nil || (stringsOKSafe(v) && !hasHugeNumber(v))) {
		var argS, segs, tbl []string
		seen := map[string]bool{}
		for _, a := range args {
			argS = append(argS, cq.Val(a))
			if a.Type() == cty.String && !a.IsNull() && !seen[a.AsString()] {
				seen[a.AsString()] = true
				var cl []string
				for _, x := range clustersOf(a.AsString()) {
					cl = append(cl, cq.Str(x))
				}
				segs = append(segs, cq.Pair(cq.Str(a.AsString()), cq.List(cl)))
			}
		}
		nseen := map[string]bool{}
		for _, s := range raws {
			if n := norm.NFC.String(s); n != s && !nseen[s] {
				nseen[s] = true
				tbl = append(tbl, cq.Pair(cq.Str(s), cq.Str(n)))
			}
		}
		c.Add(name, fmt.Sprintf("K14_call %s %s %s %s %s", cq.List(tbl), cq.List(segs), cq.Str(name), cq.List(argS), resValE(v, err, false)), desc, true)
	} else {
		c.Count("no_gallina_reference")
	}
	if err != nil {
		c.Count("outcome/error")
		return
	}
	c.Count("outcome/value")
	c.wf(v, name)
	if !v.IsWhollyKnown() {
		c.Fail("C14/"+name+"/unknown-result", "wholly known arguments, result not wholly known: "+cq.Show(v), desc)
		return
	}
	// 3. inverse laws on the implementation
	switch name {
	case "FormatList":
		// row i of formatlist is format applied to the i-th member of every sequence argument and to the other
		// arguments as they are
		n := -1
		okRows := !args[0].IsNull()
		for _, a := range args[1:] {
			if a.IsNull() {
				okRows = false
				break
			}
			if t := a.Type(); t.IsListType() || t.IsTupleType() || t.IsSetType() {
				if n >= 0 && a.LengthInt() != n {
					okRows = false
				}
				n = a.LengthInt()
			}
		}
		if okRows && n >= 0 && v.LengthInt() == n {
			rows := v.AsValueSlice()
			for i := 0; i < n; i++ {
				row := []cty.Value{args[0]}
				for _, a := range args[1:] {
					if t := a.Type(); t.IsListType() || t.IsTupleType() || t.IsSetType() {
						row = append(row, a.AsValueSlice()[i])
					} else {
						row = append(row, a)
					}
				}
				c.Count("oracle_evals")
				if want, e := stdByName["Format"].F.Call(row); e != nil || !want.RawEquals(rows[i]) {
					c.Fail("C14/FormatList/row-differs-from-format", fmt.Sprintf("row %d is %s, format of that row gives %s (err=%v)", i, cq.Show(rows[i]), cq.Show(want), e), desc)
					break
				}
			}
		} else if okRows && n >= 0 {
			c.Fail("C14/FormatList/row-count", fmt.Sprintf("%d rows for sequences of length %d", v.LengthInt(), n), desc)
		}
	case "JSONEncode":
		if !utf8.ValidString(v.AsString()) {
			c.Fail("C14/JSONEncode/invalid-utf8", "the document is not valid UTF-8", desc)
		}
		if doc, perr := jv.Parse([]byte(v.AsString())); perr != nil {
			c.Fail("C14/JSONEncode/invalid-json", "the result does not parse as JSON: "+perr.Error(), desc)
		} else if stringsOKSafe(args[0]) && !hasHugeNumber(args[0]) && !hasInf(args[0]) {
			c.Add("JSONEncode", fmt.Sprintf("K14_json (K15_marshal %s %s %s)", cq.Val(args[0]), cq.Ty(args[0].Type()), cq.Ok(doc.Coq())), desc, true)
		}
		if back, e2 := stdByName["JSONDecode"].F.Call([]cty.Value{v}); e2 != nil {
			c.Fail("C14/JSONDecode/inverse", "decoding the encoder's output fails: "+e2.Error(), desc)
		} else {
			// the decoded value has the structural type of the document: compare after re-encoding
			if again, e3 := stdByName["JSONEncode"].F.Call([]cty.Value{back}); e3 != nil || !again.RawEquals(v) {
				c.Fail("C14/JSONDecode/inverse", "encode(decode(encode(v))) differs from encode(v): "+cq.Show(again), desc)
			}
		}
	case "JSONDecode":
		in := []byte(args[0].AsString())
		if ity, e2 := ctyjson.ImpliedType(in); e2 == nil {
			if want, e3 := ctyjson.Unmarshal(in, ity); e3 == nil && !want.RawEquals(v) {
				c.Fail("C14/JSONDecode/differs-from-reference", "json.Unmarshal with the implied type gives "+cq.Show(want), desc)
			}
		}
	case "Split":
		if sep := args[0].AsString(); sep != "" {
			if back, e2 := stdByName["Join"].F.Call([]cty.Value{args[0], v}); e2 != nil || !back.RawEquals(cty.StringVal(args[1].AsString())) {
				c.Fail("C14/Split/join-inverse", "joining the pieces does not give the string back: "+cq.Show(back), desc)
			}
		}
	}
}
