package main

import (
	"fmt"
	"go/ast"
	"go/parser"
	"go/token"
	"os"
	"path/filepath"
	"strconv"
	"strings"
)

// xlate regenerates coq/Gen/*.v from /repo's current source.
func xlate(out string) error {
	if out == "" {
		return fmt.Errorf("no output directory")
	}
	if err := os.MkdirAll(out, 0o755); err != nil {
		return err
	}
	consts, err := xlateConsts()
	if err != nil {
		return err
	}
	return os.WriteFile(filepath.Join(out, "Consts.v"), []byte(consts), 0o644)
}

const repoRoot = "/repo"

func parseFile(rel string) (*ast.File, *token.FileSet, error) {
	fset := token.NewFileSet()
	f, err := parser.ParseFile(fset, filepath.Join(repoRoot, rel), nil, 0)
	return f, fset, err
}

func findFunc(f *ast.File, name string) *ast.FuncDecl {
	for _, d := range f.Decls {
		if fd, ok := d.(*ast.FuncDecl); ok && fd.Name.Name == name {
			return fd
		}
	}
	return nil
}

// xlateConsts: literals the properties depend on, read at named syntactic sites.
func xlateConsts() (string, error) {
	var sb strings.Builder
	sb.WriteString("(* Consts.v — GENERATED on every run by `vh xlate` from /repo's source. Do not edit. *)\n")
	sb.WriteString("From Coq Require Import List NArith ZArith.\nImport ListNotations.\n\n")

	// 1. the delimiter runes of sequenceMustEndGraphemeCluster (cty/ctystrings/prefix.go)
	f, _, err := parseFile("cty/ctystrings/prefix.go")
	if err != nil {
		return "", err
	}
	fd := findFunc(f, "sequenceMustEndGraphemeCluster")
	if fd == nil {
		return "", fmt.Errorf("sequenceMustEndGraphemeCluster not found")
	}
	var runes []string
	ast.Inspect(fd, func(n ast.Node) bool {
		cc, ok := n.(*ast.CaseClause)
		if !ok {
			return true
		}
		// the clause whose body returns true
		retTrue := false
		for _, st := range cc.Body {
			if rs, ok := st.(*ast.ReturnStmt); ok && len(rs.Results) == 1 {
				if id, ok := rs.Results[0].(*ast.Ident); ok && id.Name == "true" {
					retTrue = true
				}
			}
		}
		if retTrue {
			for _, e := range cc.List {
				if bl, ok := e.(*ast.BasicLit); ok && bl.Kind == token.CHAR {
					r, _, _, err := strconv.UnquoteChar(bl.Value[1:len(bl.Value)-1], '\'')
					if err == nil {
						runes = append(runes, fmt.Sprintf("%d", r))
					}
				}
			}
		}
		return true
	})
	if len(runes) == 0 {
		return "", fmt.Errorf("no delimiter runes found in sequenceMustEndGraphemeCluster")
	}
	fmt.Fprintf(&sb, "(* cty/ctystrings/prefix.go sequenceMustEndGraphemeCluster: code points of the safe delimiters *)\nDefinition safe_delims : list N := [%s]%%N.\n\n", strings.Join(runes, "; "))
	return sb.String(), nil
}
