package main

import (
	"fmt"
	"go/ast"
	"go/parser"
	"go/token"
	"os"
	"path/filepath"
	"strconv"
	"strings"
)

// xlate regenerates coq/Gen/*.v from /repo's current source.
func xlate(out string) error {
	if out == "" {
		return fmt.Errorf("no output directory")
	}
	if err := os.MkdirAll(out, 0o755); err != nil {
		return err
	}
	consts, err := xlateConsts()
	if err != nil {
		return err
	}
	if err := os.WriteFile(filepath.Join(out, "Consts.v"), []byte(consts), 0o644); err != nil {
		return err
	}
	table, err := xlateSpecTable()
	if err != nil {
		return err
	}
	return os.WriteFile(filepath.Join(out, "SpecTable.v"), []byte(table), 0o644)
}

// ---------- the standard library's function specifications (cty/function/stdlib/*.go) ----------
// For every `var XFunc = function.New(&function.Spec{...})`: the parameter constraints and flags, the
// variadic parameter and the RefineResult callback (as refinement-builder calls), read from the syntax tree.
func tyExpr(e ast.Expr) (string, bool) {
	switch x := e.(type) {
	case *ast.SelectorExpr:
		if id, ok := x.X.(*ast.Ident); ok && id.Name == "cty" {
			switch x.Sel.Name {
			case "String":
				return "TStr", true
			case "Number":
				return "TNum", true
			case "Bool":
				return "TBool", true
			case "DynamicPseudoType":
				return "TDyn", true
			}
		}
	case *ast.Ident:
		if x.Name == "Bytes" {
			return "(TCap 100%N)", true
		}
	case *ast.CallExpr:
		if se, ok := x.Fun.(*ast.SelectorExpr); ok && len(x.Args) == 1 {
			if id, ok := se.X.(*ast.Ident); ok && id.Name == "cty" {
				inner, ok := tyExpr(x.Args[0])
				if !ok {
					return "", false
				}
				switch se.Sel.Name {
				case "List":
					return "(TList " + inner + ")", true
				case "Set":
					return "(TSet " + inner + ")", true
				case "Map":
					return "(TMap " + inner + ")", true
				}
			}
		}
	}
	return "", false
}

func boolField(cl *ast.CompositeLit, name string) string {
	for _, el := range cl.Elts {
		if kv, ok := el.(*ast.KeyValueExpr); ok {
			if id, ok := kv.Key.(*ast.Ident); ok && id.Name == name {
				if v, ok := kv.Value.(*ast.Ident); ok && v.Name == "true" {
					return "true"
				}
			}
		}
	}
	return "false"
}

func paramLit(e ast.Expr) (string, error) {
	if u, ok := e.(*ast.UnaryExpr); ok {
		e = u.X
	}
	cl, ok := e.(*ast.CompositeLit)
	if !ok {
		return "", fmt.Errorf("parameter is not a composite literal")
	}
	ty := ""
	for _, el := range cl.Elts {
		if kv, ok := el.(*ast.KeyValueExpr); ok {
			if id, ok := kv.Key.(*ast.Ident); ok && id.Name == "Type" {
				t, ok := tyExpr(kv.Value)
				if !ok {
					return "", fmt.Errorf("unsupported parameter type expression")
				}
				ty = t
			}
		}
	}
	if ty == "" {
		return "", fmt.Errorf("parameter without Type")
	}
	return fmt.Sprintf("{| p_ty := %s; p_null := %s; p_unk := %s; p_dyn := %s; p_marked := %s |}", ty,
		boolField(cl, "AllowNull"), boolField(cl, "AllowUnknown"), boolField(cl, "AllowDynamicType"), boolField(cl, "AllowMarked")), nil
}

// refineExpr: refineNonNull, or a literal func(b) { return b.NotNull().NumberRangeLowerBound(cty.NumberIntVal(k), incl) ... }
func refineExpr(e ast.Expr) (string, error) {
	if id, ok := e.(*ast.Ident); ok {
		if id.Name == "refineNonNull" {
			return "(Some [RcNotNull])", nil
		}
		return "", fmt.Errorf("unknown RefineResult function %s", id.Name)
	}
	fl, ok := e.(*ast.FuncLit)
	if !ok || len(fl.Body.List) != 1 {
		return "", fmt.Errorf("unsupported RefineResult expression")
	}
	rs, ok := fl.Body.List[0].(*ast.ReturnStmt)
	if !ok || len(rs.Results) != 1 {
		return "", fmt.Errorf("unsupported RefineResult body")
	}
	var calls []string
	cur := rs.Results[0]
	for {
		ce, ok := cur.(*ast.CallExpr)
		if !ok {
			break
		}
		se, ok := ce.Fun.(*ast.SelectorExpr)
		if !ok {
			return "", fmt.Errorf("unsupported RefineResult chain")
		}
		switch se.Sel.Name {
		case "NotNull":
			calls = append([]string{"RcNotNull"}, calls...)
		case "NumberRangeLowerBound", "NumberRangeUpperBound":
			if len(ce.Args) != 2 {
				return "", fmt.Errorf("bad bound call")
			}
			inner, ok := ce.Args[0].(*ast.CallExpr)
			if !ok || len(inner.Args) != 1 {
				return "", fmt.Errorf("bad bound value")
			}
			lit, ok := inner.Args[0].(*ast.BasicLit)
			if !ok {
				return "", fmt.Errorf("bad bound literal")
			}
			inc := "false"
			if id, ok := ce.Args[1].(*ast.Ident); ok && id.Name == "true" {
				inc = "true"
			}
			c := "RcNumLower"
			if se.Sel.Name == "NumberRangeUpperBound" {
				c = "RcNumUpper"
			}
			calls = append([]string{fmt.Sprintf("%s (v_int (%s)%%Z) %s", c, lit.Value, inc)}, calls...)
		default:
			return "", fmt.Errorf("unsupported refinement call %s", se.Sel.Name)
		}
		cur = se.X
	}
	return "(Some [" + strings.Join(calls, "; ") + "])", nil
}

func xlateSpecTable() (string, error) {
	files, err := filepath.Glob(filepath.Join(repoRoot, "cty/function/stdlib/*.go"))
	if err != nil {
		return "", err
	}
	var sb strings.Builder
	sb.WriteString("(* SpecTable.v — GENERATED on every run by `vh xlate` from cty/function/stdlib/*.go. Do not edit. *)\n")
	sb.WriteString("From Coq Require Import List NArith ZArith String.\nFrom Cty Require Import Base Ty BigFloat Value Ops Refine Func.\nImport ListNotations.\nOpen Scope Z_scope.\n\n")
	sb.WriteString("Record sentry := { se_name : str; se_params : list param; se_var : option param; se_refine : option (list rcall) }.\n\n")
	var entries []string
	for _, file := range files {
		if strings.HasSuffix(file, "_test.go") {
			continue
		}
		fset := token.NewFileSet()
		f, err := parser.ParseFile(fset, file, nil, 0)
		if err != nil {
			return "", err
		}
		for _, d := range f.Decls {
			gd, ok := d.(*ast.GenDecl)
			if !ok || gd.Tok != token.VAR {
				continue
			}
			for _, sp := range gd.Specs {
				vs, ok := sp.(*ast.ValueSpec)
				if !ok || len(vs.Names) != 1 || len(vs.Values) != 1 || !strings.HasSuffix(vs.Names[0].Name, "Func") {
					continue
				}
				ce, ok := vs.Values[0].(*ast.CallExpr)
				if !ok || len(ce.Args) != 1 {
					continue
				}
				if se, ok := ce.Fun.(*ast.SelectorExpr); !ok || se.Sel.Name != "New" {
					continue
				}
				u, ok := ce.Args[0].(*ast.UnaryExpr)
				if !ok {
					continue
				}
				cl, ok := u.X.(*ast.CompositeLit)
				if !ok {
					continue
				}
				name := strings.TrimSuffix(vs.Names[0].Name, "Func")
				var params []string
				varp, refine := "None", "None"
				for _, el := range cl.Elts {
					kv, ok := el.(*ast.KeyValueExpr)
					if !ok {
						continue
					}
					switch kv.Key.(*ast.Ident).Name {
					case "Params":
						pl, ok := kv.Value.(*ast.CompositeLit)
						if !ok {
							return "", fmt.Errorf("%s: Params is not a literal", name)
						}
						for _, pe := range pl.Elts {
							p, err := paramLit(pe)
							if err != nil {
								return "", fmt.Errorf("%s: %v", name, err)
							}
							params = append(params, p)
						}
					case "VarParam":
						p, err := paramLit(kv.Value)
						if err != nil {
							return "", fmt.Errorf("%s: %v", name, err)
						}
						varp = "(Some " + p + ")"
					case "RefineResult":
						rf, err := refineExpr(kv.Value)
						if err != nil {
							return "", fmt.Errorf("%s: %v", name, err)
						}
						refine = rf
					}
				}
				entries = append(entries, fmt.Sprintf("  {| se_name := b#\"%s\"; se_params := [%s]; se_var := %s; se_refine := %s |}", name, strings.Join(params, "; "), varp, refine))
			}
		}
	}
	sb.WriteString("Definition spec_table : list sentry := [\n" + strings.Join(entries, ";\n") + "\n].\n")
	return sb.String(), nil
}

const repoRoot = "/repo"

func parseFile(rel string) (*ast.File, *token.FileSet, error) {
	fset := token.NewFileSet()
	f, err := parser.ParseFile(fset, filepath.Join(repoRoot, rel), nil, 0)
	return f, fset, err
}

func findFunc(f *ast.File, name string) *ast.FuncDecl {
	for _, d := range f.Decls {
		if fd, ok := d.(*ast.FuncDecl); ok && fd.Name.Name == name {
			return fd
		}
	}
	return nil
}

// xlateConsts: literals the properties depend on, read at named syntactic sites.
func xlateConsts() (string, error) {
	var sb strings.Builder
	sb.WriteString("(* Consts.v — GENERATED on every run by `vh xlate` from /repo's source. Do not edit. *)\n")
	sb.WriteString("From Coq Require Import List NArith ZArith.\nImport ListNotations.\n\n")

	// 1. the delimiter runes of sequenceMustEndGraphemeCluster (cty/ctystrings/prefix.go)
	f, _, err := parseFile("cty/ctystrings/prefix.go")
	if err != nil {
		return "", err
	}
	fd := findFunc(f, "sequenceMustEndGraphemeCluster")
	if fd == nil {
		return "", fmt.Errorf("sequenceMustEndGraphemeCluster not found")
	}
	var runes []string
	ast.Inspect(fd, func(n ast.Node) bool {
		cc, ok := n.(*ast.CaseClause)
		if !ok {
			return true
		}
		// the clause whose body returns true
		retTrue := false
		for _, st := range cc.Body {
			if rs, ok := st.(*ast.ReturnStmt); ok && len(rs.Results) == 1 {
				if id, ok := rs.Results[0].(*ast.Ident); ok && id.Name == "true" {
					retTrue = true
				}
			}
		}
		if retTrue {
			for _, e := range cc.List {
				if bl, ok := e.(*ast.BasicLit); ok && bl.Kind == token.CHAR {
					r, _, _, err := strconv.UnquoteChar(bl.Value[1:len(bl.Value)-1], '\'')
					if err == nil {
						runes = append(runes, fmt.Sprintf("%d", r))
					}
				}
			}
		}
		return true
	})
	if len(runes) == 0 {
		return "", fmt.Errorf("no delimiter runes found in sequenceMustEndGraphemeCluster")
	}
	fmt.Fprintf(&sb, "(* cty/ctystrings/prefix.go sequenceMustEndGraphemeCluster: code points of the safe delimiters *)\nDefinition safe_delims : list N := [%s]%%N.\n\n", strings.Join(runes, "; "))
	return sb.String(), nil
}
