package main

func xlate(out string) error { return nil }
