package main

import (
	"fmt"
	"golang.org/x/text/unicode/norm"
	"math/big"

	"github.com/zclconf/go-cty/cty"
	"verifharness/internal/cq"
	"verifharness/internal/gt"
	"verifharness/internal/gv"
	"verifharness/internal/rng"
)

func init() {
	register(&Prop{ID: "C02", Imports: "Base Ty BigFloat Value Ops Refine KOps", CaseType: "kops", Check: "kops_check", Gen: genC02})
}

func ratOf(v cty.Value) *big.Rat {
	f := v.AsBigFloat()
	if f.IsInf() {
		return nil
	}
	r, _ := f.Rat(nil)
	return r
}

func isFiniteNum(v cty.Value) bool { return v.IsKnown() && !v.IsNull() && !v.AsBigFloat().IsInf() }

// within one unit in the last place at precision prec of the exact rational value
func withinUlp(got *big.Float, exact *big.Rat, prec uint) bool {
	if got.IsInf() {
		return false
	}
	g, _ := got.Rat(nil)
	diff := new(big.Rat).Sub(g, exact)
	diff.Abs(diff)
	if diff.Sign() == 0 {
		return true
	}
	mag := new(big.Rat).Abs(exact)
	if mag.Sign() == 0 {
		return false
	}
	// diff <= |exact| * 2^(1-prec)
	bound := new(big.Rat).Mul(mag, new(big.Rat).SetFrac(big.NewInt(1), new(big.Int).Lsh(big.NewInt(1), prec-1)))
	return diff.Cmp(bound) <= 0
}

func maxPrec(a, b cty.Value) uint {
	p, q := a.AsBigFloat().Prec(), b.AsBigFloat().Prec()
	if q > p {
		p = q
	}
	if p == 0 {
		p = 64
	}
	return p
}

func genC02(c *Ctx, r *rng.R, i int) {
	switch r.Intn(10) {
	case 0, 1, 2, 3:
		c02Numbers(c, r, i)
	case 4:
		c02Bools(c, r)
	case 5:
		c02BigFloat(c, r)
	default:
		c02Collections(c, r)
	}
}

func c02Numbers(c *Ctx, r *rng.R, i int) {
	var a, b cty.Value
	var ca, cb string
	if c.Tier == "thorough" && i < gv.PoolSize()*gv.PoolSize() {
		na, nb := gv.PoolAt(i/gv.PoolSize()), gv.PoolAt(i%gv.PoolSize())
		a, ca, b, cb = na.V, na.Class, nb.V, nb.Class
	} else {
		a, ca = gv.GenNum(r)
		b, cb = gv.GenNum(r)
		if r.Chance(15) {
			b, cb = a, ca
		}
		if r.Chance(22) {
			// neighbours: two numbers closer together than a float64 can tell, or beyond its range
			pairs := [][2]string{{"9007199254740992", "9007199254740993"}, {"9223372036854775806", "9223372036854775807"}, {"-9007199254740993", "-9007199254740992"},
				{"0.1234567890123456789012", "0.1234567890123456789013"}, {"1e400", "1e401"}, {"1e400", "1.0000000000000000000001e400"}, {"-1e400", "-1e401"},
				{"123456789012345678901234567890", "123456789012345678901234567891"}, {"18446744073709551615", "18446744073709551616"}}
			pr := pairs[r.Intn(len(pairs))]
			a, b = cty.MustParseNumberVal(pr[0]), cty.MustParseNumberVal(pr[1])
			ca, cb = "neighbour", "neighbour"
			switch r.Intn(4) {
			case 0:
				a, b = b, a
			case 1:
				if r.Bool() {
					b = cty.PositiveInfinity
				} else {
					b = cty.NegativeInfinity
				}
				cb = "inf"
			}
		} else if r.Chance(10) && isFiniteNum(a) {
			b, cb = a.Add(cty.NumberIntVal(int64(1-2*r.Intn(2)))), ca+"+-1"
		}
	}
	args := []cty.Value{a, b}
	cls := "num/" + ca + "," + cb
	for _, op := range []string{"OAdd", "OSub", "OMul", "ODiv", "OMod", "OLt", "OGt", "OLe", "OGe", "OEq", "ONe"} {
		if ca == "neighbour" && (op == "OMul" || op == "ODiv" || op == "OMod") {
			continue // (the neighbour pairs are about order and equality; products of 400-digit numbers only cost model time)
		}
		ret, p := c.addOp(cls, op, args, true)
		c.Count("oracle_evals")
		desc := map[string]interface{}{"op": op, "a": cq.Show(a), "b": cq.Show(b)}
		if p {
			// panics are documented only for NaN-producing combinations
			if isFiniteNum(a) && isFiniteNum(b) && !(op == "ODiv" && a.AsBigFloat().Sign() == 0 && b.AsBigFloat().Sign() == 0) &&
				!(op == "OMod" && false) {
				c.Fail("C02/panic-on-finite", fmt.Sprintf("%s panicked on finite operands", op), desc)
			}
			continue
		}
		if !ret.IsKnown() || ret.IsNull() {
			c.Fail("C02/known-result", fmt.Sprintf("%s on known numbers returned %s", op, cq.Show(ret)), desc)
			continue
		}
		if !isFiniteNum(a) || !isFiniteNum(b) {
			continue
		}
		ra, rb := ratOf(a), ratOf(b)
		prec := maxPrec(a, b)
		switch op {
		case "OAdd", "OSub", "OMul":
			exact := new(big.Rat)
			switch op {
			case "OAdd":
				exact.Add(ra, rb)
			case "OSub":
				exact.Sub(ra, rb)
			default:
				exact.Mul(ra, rb)
			}
			got := ret.AsBigFloat()
			if !withinUlp(got, exact, prec) {
				c.Fail("C02/arith-precision", fmt.Sprintf("%s = %s, exact %s: off by more than one ulp at %d bits", op, got.Text('g', 40), exact.FloatString(20), prec), desc)
			}
			if exact.IsInt() && exact.Num().BitLen() <= int(prec) {
				if g, _ := got.Rat(nil); g.Cmp(exact) != 0 {
					c.Fail("C02/integer-exact", fmt.Sprintf("%s on integers that fit: %s, exact %s", op, got.Text('f', -1), exact.Num()), desc)
				}
			}
		case "ODiv":
			got := ret.AsBigFloat()
			if rb.Sign() == 0 {
				if !got.IsInf() || got.Signbit() != (a.AsBigFloat().Signbit() != b.AsBigFloat().Signbit()) {
					c.Fail("C02/div-by-zero", fmt.Sprintf("x/0 = %s", got.Text('g', 20)), desc)
				}
			} else {
				exact := new(big.Rat).Quo(ra, rb)
				if !withinUlp(got, exact, prec) {
					c.Fail("C02/arith-precision", fmt.Sprintf("quotient %s, exact %s", got.Text('g', 40), exact.FloatString(20)), desc)
				}
			}
		case "OMod":
			if rb.Sign() != 0 && ra.IsInt() && rb.IsInt() {
				q := new(big.Int).Quo(ra.Num(), rb.Num())
				if q.BitLen() <= int(a.AsBigFloat().Prec()) && ra.Num().BitLen() <= int(a.AsBigFloat().Prec()) {
					want := new(big.Int).Rem(ra.Num(), rb.Num())
					if g, _ := ret.AsBigFloat().Rat(nil); !g.IsInt() || g.Num().Cmp(want) != 0 {
						c.Fail("C02/modulo-remainder", fmt.Sprintf("%s mod %s = %s, want %s", ra.Num(), rb.Num(), ret.AsBigFloat().Text('f', -1), want), desc)
					}
				}
			}
		case "OLt", "OGt", "OLe", "OGe", "OEq", "ONe":
			cmp := ra.Cmp(rb)
			want := map[string]bool{"OLt": cmp < 0, "OGt": cmp > 0, "OLe": cmp <= 0, "OGe": cmp >= 0}[op]
			if op == "OEq" || op == "ONe" {
				break // equality of numbers follows the shortest-decimal rule: C03
			}
			if op == "OLe" || op == "OGe" {
				// "or equal" is the library's equality (C03's shortest-decimal rule), joined to the exact strict order
				if eq, pe, _ := runOp("OEq", []cty.Value{a, b}); !pe && eq.IsKnown() && eq.True() {
					want = true
				}
			}
			if ret.Type() != cty.Bool || ret.True() != want {
				c.Fail("C02/comparison", fmt.Sprintf("%s(%s, %s) = %s", op, cq.Show(a), cq.Show(b), cq.Show(ret)), desc)
			}
		}
	}
	for _, op := range []string{"ONeg", "OAbs"} {
		ret, p := c.addOp("num1/"+ca, op, []cty.Value{a}, true)
		if !p && isFiniteNum(a) {
			want := new(big.Rat).Set(ratOf(a))
			if op == "ONeg" {
				want.Neg(want)
			} else {
				want.Abs(want)
			}
			if g, _ := ret.AsBigFloat().Rat(nil); g.Cmp(want) != 0 {
				c.Fail("C02/negate-abs", fmt.Sprintf("%s(%s) = %s", op, cq.Show(a), cq.Show(ret)), nil)
			}
		}
	}
}

func c02Bools(c *Ctx, r *rng.R) {
	for _, x := range []bool{false, true} {
		for _, y := range []bool{false, true} {
			a, b := cty.BoolVal(x), cty.BoolVal(y)
			ra, _ := c.addOp("bool", "OAnd", []cty.Value{a, b}, true)
			ro, _ := c.addOp("bool", "OOr", []cty.Value{a, b}, true)
			if ra.True() != (x && y) || ro.True() != (x || y) {
				c.Fail("C02/truth-table", fmt.Sprintf("and/or(%v,%v)", x, y), nil)
			}
		}
		rn, _ := c.addOp("bool", "ONot", []cty.Value{cty.BoolVal(x)}, true)
		if rn.True() == x {
			c.Fail("C02/truth-table", fmt.Sprintf("not(%v)", x), nil)
		}
	}
	// wrong operand types are rejected
	v, _ := gv.GenNum(r)
	_, p := c.addOp("bool/wrong-type", "OAnd", []cty.Value{cty.True, v}, true)
	if !p {
		c.Fail("C02/wrong-type-accepted", "And(bool, number) did not panic", nil)
	}
	_, p = c.addOp("num/wrong-type", "OAdd", []cty.Value{cty.StringVal("1"), v}, true)
	if !p {
		c.Fail("C02/wrong-type-accepted", "Add(string, number) did not panic", nil)
	}
}

func c02BigFloat(c *Ctx, r *rng.R) {
	v, cls := gv.GenNum(r)
	f := v.AsBigFloat()
	tf, tg := f.Text('f', -1), f.String()
	if len(tf) < 700 {
		c.Add("bigfloat/text/"+cls, fmt.Sprintf("K_bftext %s %s %s", cq.BF(f), cq.Str(tf), cq.Str(tg)), map[string]string{"f": tf, "g": tg}, true)
	}
	texts := []string{tf, "1e5", "0x10", "1_000", ".5", "5.", "-.5e-3", "1e", "abc", "", "+Inf", "-inf", "Inf", "1e400", "0.1e1", "00012", "1E+2", " 1", "1p4", "NaN"}
	s := texts[r.Intn(len(texts))]
	pv, err := cty.ParseNumberVal(s)
	obs := "None"
	if err == nil {
		obs = "(Some " + cq.BF(pv.AsBigFloat()) + ")"
	}
	if len(s) < 700 {
		c.Add("bigfloat/parse", fmt.Sprintf("K_bfparse %s %s", cq.Str(s), obs), map[string]string{"text": s}, true)
	}
	if err == nil && s == tf && !f.IsInf() && !hasInexactNumberText(v) { // (the shortest text of a low-precision number can denote another number: KF-C15-1, not an arithmetic matter)
		// C15 leg: parse(text_f(x)) is RawEquals to x
		c.Count("oracle_evals")
		if !pv.RawEquals(v) {
			c.Fail("C02/text-roundtrip", fmt.Sprintf("ParseNumberVal(Text(%s)) differs from the number", tf), nil)
		}
	}
}

var collTypes = []*gt.T{
	{K: gt.List, Elem: gt.P(gt.Str)}, {K: gt.List, Elem: gt.P(gt.Num)}, {K: gt.Map, Elem: gt.P(gt.Num)}, {K: gt.Map, Elem: gt.P(gt.Bool)},
	{K: gt.Set, Elem: gt.P(gt.Str)}, {K: gt.Set, Elem: gt.P(gt.Num)},
	{K: gt.Tuple, Elems: []*gt.T{gt.P(gt.Str), gt.P(gt.Num), gt.P(gt.Bool)}},
	{K: gt.Obj, Attrs: []gt.Attr{{Name: "a", T: gt.P(gt.Str)}, {Name: "b", T: gt.P(gt.Num)}}},
	{K: gt.List, Elem: &gt.T{K: gt.List, Elem: gt.P(gt.Num)}},
	{K: gt.Set, Elem: &gt.T{K: gt.Tuple, Elems: []*gt.T{gt.P(gt.Str), gt.P(gt.Num)}}},
	{K: gt.Map, Elem: &gt.T{K: gt.Obj, Attrs: []gt.Attr{{Name: "id", T: gt.P(gt.Num)}}}},
	{K: gt.Obj, Attrs: []gt.Attr{{Name: "a", T: gt.P(gt.Num)}, {Name: "r\u00e9sum\u00e9", T: gt.P(gt.Str)}, {Name: "\u00e9", T: gt.P(gt.Bool)}}},
	{K: gt.Set, Elem: &gt.T{K: gt.Set, Elem: gt.P(gt.Bool)}}, {K: gt.Set, Elem: &gt.T{K: gt.List, Elem: gt.P(gt.Str)}},
	{K: gt.Set, Elem: &gt.T{K: gt.Obj, Attrs: []gt.Attr{{Name: "a", T: gt.P(gt.Bool)}}}}, {K: gt.List, Elem: &gt.T{K: gt.Set, Elem: gt.P(gt.Num)}},
}

func c02Collections(c *Ctx, r *rng.R) {
	t := collTypes[r.Intn(len(collTypes))]
	if r.Chance(25) {
		t = gt.Gen(r, gt.Cfg{Depth: 2, DynPct: 0, OptPct: 0, CapPct: 5, MaxWidth: 3})
	}
	cfg := gv.KnownCfg
	if r.Chance(20) {
		cfg.NullPct = 15
	}
	v := gv.Gen(r, t, cfg, 2)
	if r.Chance(8) {
		// a set whose distinct members share a hash bucket (numbers are hashed through ten significant digits)
		n := cty.MustParseNumberVal
		groups := [][]cty.Value{{n("9223372036854775806"), n("9223372036854775807")}, {n("12345678901"), n("12345678902"), n("12345678903"), n("5")},
			{n("1.00000000001"), n("1.00000000002")}, {n("1e30"), cty.MustParseNumberVal("1000000000000000000000000000001")}}
		g := groups[r.Intn(len(groups))]
		switch r.Intn(3) {
		case 0:
			v = cty.SetVal(g)
			t = &gt.T{K: gt.Set, Elem: gt.P(gt.Num)}
		case 1:
			var ts []cty.Value
			for _, x := range g {
				ts = append(ts, cty.TupleVal([]cty.Value{x, cty.StringVal("t")}))
			}
			v = cty.SetVal(ts)
			t = &gt.T{K: gt.Set, Elem: &gt.T{K: gt.Tuple, Elems: []*gt.T{gt.P(gt.Num), gt.P(gt.Str)}}}
		default:
			var ls []cty.Value
			for _, x := range g {
				ls = append(ls, cty.ListVal([]cty.Value{x}))
			}
			v = cty.SetVal(ls)
			t = &gt.T{K: gt.Set, Elem: &gt.T{K: gt.List, Elem: gt.P(gt.Num)}}
		}
	}
	ty := v.Type()
	cls := "coll/" + []string{"dyn", "bool", "num", "str", "list", "set", "map", "tuple", "obj", "cap"}[t.K]
	desc := map[string]interface{}{"v": cq.Show(v)}
	c.Add(cls+"/wk", fmt.Sprintf("K_wk %s %s %s", cq.Val(v), cq.Bool(v.IsWhollyKnown()), cq.Bool(v.HasWhollyKnownType())), desc, true)
	if v.IsNull() {
		c.addOp(cls+"/null", "OLen", []cty.Value{v}, true)
		return
	}
	// the members the value was constructed from (through the iterator), as the reference
	type kv struct{ k, v cty.Value }
	var members []kv
	if v.CanIterateElements() {
		for it := v.ElementIterator(); it.Next(); {
			k, e := it.Element()
			members = append(members, kv{k, e})
		}
	}
	// Length
	if ty.IsCollectionType() || ty.IsTupleType() {
		ret, p := c.addOp(cls, "OLen", []cty.Value{v}, true)
		c.Count("oracle_evals")
		if p || !ret.RawEquals(cty.NumberIntVal(int64(len(members)))) {
			c.Fail("C02/length", fmt.Sprintf("Length(%s) = %s, %d members", cq.Show(v), cq.Show(ret), len(members)), desc)
		}
	} else {
		c.addOp(cls+"/wrong-type", "OLen", []cty.Value{v}, true)
	}
	// keys in and out of range
	var keys []cty.Value
	switch {
	case ty.IsListType() || ty.IsTupleType():
		n := int64(len(members))
		keys = []cty.Value{cty.NumberIntVal(0), cty.NumberIntVal(n - 1), cty.NumberIntVal(n), cty.NumberIntVal(n + 1), cty.NumberIntVal(-1),
			cty.NumberFloatVal(0.5), cty.NumberFloatVal(-0.5), cty.MustParseNumberVal("1"), cty.NumberFloatVal(1), cty.StringVal("0"), cty.MustParseNumberVal("1e30"), cty.PositiveInfinity}
	case ty.IsMapType():
		keys = []cty.Value{cty.StringVal("a"), cty.StringVal("b"), cty.StringVal("zz"), cty.StringVal("nope"), cty.StringVal(""), cty.NumberIntVal(0), cty.StringVal("é")}
	case ty.IsObjectType():
		// every attribute read back under the decomposed spelling of its name gives the member it was built from
		for name, want := range v.AsValueMap() {
			if dn := norm.NFD.String(name); dn != name {
				var ret cty.Value
				c.Count("oracle_evals")
				if p, _ := recovered(func() { ret = v.GetAttr(dn) }); p || !ret.RawEquals(want) {
					c.Fail("C02/getattr-denormalised-name", fmt.Sprintf("GetAttr(%q) (decomposed spelling of %q): panicked=%v, got %s, the member is %s", dn, name, p, cq.Show(ret), cq.Show(want)), desc)
				}
			}
		}
		for _, name := range []string{"a", "b", "id", "missing", "é"} {
			var ret cty.Value
			p, _ := recovered(func() { ret = v.GetAttr(name) })
			if !p {
				c.wf(ret, "GetAttr")
			}
			c.Add(cls+"/getattr", fmt.Sprintf("K_getattr %s %s %s", cq.Str(name), cq.Val(v), cq.ResVal(ret, p)), desc, true)
			c.Count("oracle_evals")
			if ty.HasAttribute(name) == p {
				c.Fail("C02/getattr", fmt.Sprintf("GetAttr(%q) panicked=%v but HasAttribute=%v", name, p, ty.HasAttribute(name)), desc)
			}
			if !p {
				for _, m := range members {
					if m.k.AsString() == name && !m.v.RawEquals(ret) {
						c.Fail("C02/getattr", fmt.Sprintf("GetAttr(%q) returned %s, constructed with %s", name, cq.Show(ret), cq.Show(m.v)), desc)
					}
				}
			}
		}
	case ty.IsSetType():
		for _, m := range members {
			keys = append(keys, m.v)
		}
		if len(members) > 0 {
			e := gv.Gen(r, t.Elem, gv.KnownCfg, 1)
			if e.Type().Equals(ty.ElementType()) {
				keys = append(keys, e)
			}
		}
		keys = append(keys, cty.StringVal("other"), cty.NumberIntVal(77))
	}
	for _, k := range keys {
		if ty.IsSetType() {
			ret, p := c.addOp(cls, "OHasElem", []cty.Value{v, k}, true)
			c.Count("oracle_evals")
			if !p {
				want := false
				for _, m := range members {
					if k.Type().Equals(m.v.Type()) && m.v.RawEquals(k) {
						want = true
					}
				}
				if want && !(ret.IsKnown() && ret.True()) {
					c.Fail("C02/has-element", fmt.Sprintf("HasElement(%s, %s) = %s but it is a member", cq.Show(v), cq.Show(k), cq.Show(ret)), desc)
				}
				if !ret.IsKnown() {
					c.Fail("C02/known-result", "HasElement on known values returned unknown", desc)
				}
			}
			continue
		}
		hi, ph := c.addOp(cls, "OHasIndex", []cty.Value{v, k}, true)
		ix, pi := c.addOp(cls, "OIndex", []cty.Value{v, k}, true)
		c.Count("oracle_evals")
		kdesc := map[string]interface{}{"v": cq.Show(v), "key": cq.Show(k)}
		if ph {
			c.Fail("C02/hasindex-panic", "HasIndex panicked on a known collection and key", kdesc)
			continue
		}
		if !hi.IsKnown() {
			c.Fail("C02/known-result", "HasIndex on known values returned unknown", kdesc)
			continue
		}
		// an index lookup succeeds exactly when the has-index query answers true
		// (maps answer a missing key with a null element: recorded separately)
		if hi.True() == pi && !ty.IsMapType() {
			c.Fail("C02/index-iff-hasindex", fmt.Sprintf("HasIndex=%s but Index panicked=%v", cq.Show(hi), pi), kdesc)
		}
		if ty.IsMapType() && hi.True() && pi {
			c.Fail("C02/index-iff-hasindex", "HasIndex true but Index panicked", kdesc)
		}
		if !pi && hi.True() {
			found := false
			for _, m := range members {
				if m.k.Type().Equals(k.Type()) && m.k.RawEquals(k) {
					found = true
					if !m.v.RawEquals(ix) {
						c.Fail("C02/index-member", fmt.Sprintf("Index returned %s, constructed with %s", cq.Show(ix), cq.Show(m.v)), kdesc)
					}
				}
			}
			if !found {
				c.Fail("C02/index-member", "HasIndex true for a key that names no member", kdesc)
			}
		}
	}
}
