// vh — the Go side of the verification harness.
//
//	vh cases  -prop C07 -seed S -n N -tier quick -out DIR   generate cases, run the implementation,
//	                                                        write Coq shard files + meta.json, evaluate the
//	                                                        property on the implementation (oracle / search)
//	vh replay -prop C07 -seed S -n N -tier quick -index I   re-run one case verbosely
//	vh xlate  -out DIR                                      translators: /repo source -> coq/Gen/*.v
package main

import (
	"crypto/sha256"
	"encoding/hex"
	"encoding/json"
	"flag"
	"fmt"
	"os"
	"path/filepath"
	"sort"
	"strings"

	"verifharness/internal/rng"
)

type Case struct {
	Coq   string      `json:"-"`
	Desc  interface{} `json:"desc"`
	Class string      `json:"class"`
	Index int         `json:"index"` // generator index (replay key)
	ID    int         `json:"id"`    // position in the shard files
}

type Failure struct {
	Sig    string      `json:"sig"`    // signature: names the defect class (matched against known_findings.json)
	Detail string      `json:"detail"` // what failed, human readable
	Index  int         `json:"index"`  // generator index for replay
	Desc   interface{} `json:"desc"`
}

type Prop struct {
	ID       string
	Imports  string // Coq modules (after `From Cty Require Import`)
	CaseType string
	Check    string // Coq function: case -> bool (model agrees with observation)
	PropFn   string // Coq function: case -> bool (property on the model), may be ""
	Gen      func(c *Ctx, r *rng.R, i int)
	PerCase  int // rough number of Coq cases per generator index (for sizing)
}

type Ctx struct {
	P        *Prop
	Seed     uint64
	Tier     string
	Verbose  bool
	cur      int
	cases    []Case
	classes  map[string]int
	distinct map[string]bool
	nontriv  map[string]bool
	failures []Failure
	Counters map[string]int
	samples  []interface{}
}

func (c *Ctx) Count(k string)         { c.Counters[k]++ }
func (c *Ctx) CountN(k string, n int) { c.Counters[k] += n }

// Add records one correspondence case. nontrivial: by the property's own rule.
func (c *Ctx) Add(class, coq string, desc interface{}, nontrivial bool) {
	h := sha256.Sum256([]byte(coq))
	key := hex.EncodeToString(h[:8])
	c.classes[class]++
	if !c.distinct[key] {
		c.distinct[key] = true
		if nontrivial {
			c.nontriv[key] = true
		}
	}
	c.cases = append(c.cases, Case{Coq: coq, Desc: desc, Class: class, Index: c.cur, ID: len(c.cases)})
	if c.Verbose {
		fmt.Printf("CASE class=%s\n  coq: %s\n  desc: %v\n", class, coq, desc)
	}
}

// Fail records a violation of the property observed on the implementation itself.
func (c *Ctx) Fail(sig, detail string, desc interface{}) {
	c.failures = append(c.failures, Failure{Sig: sig, Detail: detail, Index: c.cur, Desc: desc})
	if c.Verbose {
		fmt.Printf("ORACLE-FAIL sig=%s\n  %s\n  desc: %v\n", sig, detail, desc)
	}
}

var props = map[string]*Prop{}

func register(p *Prop) { props[p.ID] = p }

const shardSize = 400

func main() {
	if len(os.Args) < 2 {
		fmt.Fprintln(os.Stderr, "usage: vh cases|replay|xlate ...")
		os.Exit(2)
	}
	cmd := os.Args[1]
	if cmd == "worker17" {
		worker17()
		return
	}
	if cmd == "race20" {
		fs := flag.NewFlagSet(cmd, flag.ExitOnError)
		seed := fs.Uint64("seed", 1, "seed")
		n := fs.Int("n", 200, "iterations")
		fs.Parse(os.Args[2:])
		os.Exit(race20(*seed, *n))
	}
	fs := flag.NewFlagSet(cmd, flag.ExitOnError)
	propID := fs.String("prop", "", "property id")
	seed := fs.Uint64("seed", 1, "seed")
	n := fs.Int("n", 100, "number of generator indices")
	tier := fs.String("tier", "quick", "tier")
	out := fs.String("out", "", "output directory")
	index := fs.Int("index", -1, "generator index (replay)")
	fs.Parse(os.Args[2:])

	switch cmd {
	case "xlate":
		if err := xlate(*out); err != nil {
			fmt.Fprintln(os.Stderr, "xlate:", err)
			os.Exit(1)
		}
	case "cases", "replay":
		p, ok := props[*propID]
		if !ok {
			fmt.Fprintln(os.Stderr, "unknown property", *propID)
			os.Exit(2)
		}
		c := &Ctx{P: p, Seed: *seed, Tier: *tier, classes: map[string]int{}, distinct: map[string]bool{},
			nontriv: map[string]bool{}, Counters: map[string]int{}}
		root := rng.New(*seed)
		if cmd == "replay" {
			c.Verbose = true
			c.cur = *index
			p.Gen(c, root.Fork(uint64(*index)), *index)
			fmt.Printf("replay: %d cases, %d oracle failures\n", len(c.cases), len(c.failures))
			if len(c.failures) > 0 {
				os.Exit(1)
			}
			return
		}
		for i := 0; i < *n; i++ {
			c.cur = i
			p.Gen(c, root.Fork(uint64(i)), i)
		}
		if err := c.write(*out); err != nil {
			fmt.Fprintln(os.Stderr, "write:", err)
			os.Exit(1)
		}
	default:
		fmt.Fprintln(os.Stderr, "unknown command", cmd)
		os.Exit(2)
	}
}

func (c *Ctx) write(out string) error {
	if err := os.MkdirAll(out, 0o755); err != nil {
		return err
	}
	old, _ := filepath.Glob(filepath.Join(out, "shard_*.v"))
	for _, f := range old {
		os.Remove(f)
	}
	var shards []string
	for s := 0; s*shardSize < len(c.cases); s++ {
		lo, hi := s*shardSize, (s+1)*shardSize
		if hi > len(c.cases) {
			hi = len(c.cases)
		}
		var sb strings.Builder
		fmt.Fprintf(&sb, "From Cty Require Import %s.\nLocal Open Scope N_scope.\n", c.P.Imports)
		names := make([]string, 0, hi-lo)
		for _, k := range c.cases[lo:hi] {
			fmt.Fprintf(&sb, "Definition c%d : %s := %s.\n", k.ID, c.P.CaseType, k.Coq)
			names = append(names, fmt.Sprintf("(%d, c%d)", k.ID, k.ID))
		}
		fmt.Fprintf(&sb, "Definition cases : list (N * %s) := [%s].\n", c.P.CaseType, strings.Join(names, "; "))
		fmt.Fprintf(&sb, "Definition bad_corr := Eval vm_compute in failing %s cases.\nPrint bad_corr.\n", c.P.Check)
		if c.P.PropFn != "" {
			fmt.Fprintf(&sb, "Definition bad_prop := Eval vm_compute in failing %s cases.\nPrint bad_prop.\n", c.P.PropFn)
		}
		name := fmt.Sprintf("shard_%03d.v", s)
		if err := os.WriteFile(filepath.Join(out, name), []byte(sb.String()), 0o644); err != nil {
			return err
		}
		shards = append(shards, name)
	}
	// samples: first case of each class, up to 12
	seen := map[string]bool{}
	var samples []interface{}
	for _, k := range c.cases {
		if !seen[k.Class] && len(samples) < 12 {
			seen[k.Class] = true
			samples = append(samples, map[string]interface{}{"class": k.Class, "case": k.Desc, "gallina": trunc(k.Coq, 600)})
		}
	}
	classNames := make([]string, 0, len(c.classes))
	for k := range c.classes {
		classNames = append(classNames, k)
	}
	sort.Strings(classNames)
	meta := map[string]interface{}{
		"property":            c.P.ID,
		"seed":                c.Seed,
		"tier":                c.Tier,
		"cases":               len(c.cases),
		"distinct":            len(c.distinct),
		"distinct_nontrivial": len(c.nontriv),
		"classes":             c.classes,
		"counters":            c.Counters,
		"shards":              shards,
		"samples":             samples,
		"failures":            c.failures,
		"has_prop_fn":         c.P.PropFn != "",
	}
	b, _ := json.MarshalIndent(meta, "", " ")
	if err := os.WriteFile(filepath.Join(out, "meta.json"), b, 0o644); err != nil {
		return err
	}
	// the per-case index (id -> generator index, description), for replays
	f, err := os.Create(filepath.Join(out, "cases.jsonl"))
	if err != nil {
		return err
	}
	defer f.Close()
	enc := json.NewEncoder(f)
	for _, k := range c.cases {
		enc.Encode(k)
	}
	return nil
}

func trunc(s string, n int) string {
	if len(s) <= n {
		return s
	}
	return s[:n] + "…"
}
