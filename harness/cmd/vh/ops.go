package main

import (
	"fmt"
	"strconv"
	"strings"

	"github.com/zclconf/go-cty/cty"
	"verifharness/internal/cq"
)

// the operation methods, by the constructor names of Model/KOps.v
var binOps = map[string]func(a, b cty.Value) cty.Value{
	"OAdd": cty.Value.Add, "OSub": cty.Value.Subtract, "OMul": cty.Value.Multiply, "ODiv": cty.Value.Divide, "OMod": cty.Value.Modulo,
	"OLt": cty.Value.LessThan, "OGt": cty.Value.GreaterThan, "OLe": cty.Value.LessThanOrEqualTo, "OGe": cty.Value.GreaterThanOrEqualTo,
	"OEq": cty.Value.Equals, "ONe": cty.Value.NotEqual, "OAnd": cty.Value.And, "OOr": cty.Value.Or,
	"OIndex": cty.Value.Index, "OHasIndex": cty.Value.HasIndex, "OHasElem": cty.Value.HasElement,
}
var unOps = map[string]func(a cty.Value) cty.Value{
	"ONeg": cty.Value.Negate, "OAbs": cty.Value.Absolute, "ONot": cty.Value.Not, "OLen": cty.Value.Length,
}

// orderSensitive: operations that go through Value.Equals, whose object / map branches range
// over Go maps with data-dependent early exits
var orderSensitive = map[string]bool{"OEq": true, "ONe": true, "OLe": true, "OGe": true}

// stableOp runs op repeatedly; stable=false when the implementation's answer varies between calls
func stableOp(op string, args []cty.Value) (ret cty.Value, panicked bool, stable bool) {
	ret, panicked, _ = runOp(op, args)
	stable = true
	if !orderSensitive[op] {
		return
	}
	for k := 0; k < 24; k++ {
		r2, p2, _ := runOp(op, args)
		if p2 != panicked || (!p2 && !r2.RawEquals(ret)) {
			return ret, panicked, false
		}
	}
	return
}

func runOp(op string, args []cty.Value) (ret cty.Value, panicked bool, msg string) {
	panicked, msg = recovered(func() {
		if f, ok := binOps[op]; ok {
			ret = f(args[0], args[1])
		} else if f, ok := unOps[op]; ok {
			ret = f(args[0])
		} else {
			panic("runOp: unknown op " + op)
		}
	})
	return
}

// wfMonitor: every value returned by the implementation is checked for well-formedness (C06)
func (c *Ctx) wf(v cty.Value, where string) {
	c.Count("wf_checked")
	if err := cty.VerifWellFormed(v); err != nil {
		if c.P.ID == "C03" && strings.Contains(err.Error(), "set holds two equal members") && onlyKFC031(v) {
			c.Fail("C03/number-hash-text", fmt.Sprintf("%s returned a set holding two equal members: %v", where, err), cq.Show(v))
			return
		}
		if c.P.ID != "C06" && strings.Contains(err.Error(), "set holds two equal members") && onlyKFC031(v) {
			// KF-C03-1 (numbers equal by value hashed differently: 0 and -0, one number at two precisions) seen from
			// another property: the set was built by the library from generated members; recorded once, under C03
			c.Count("wf_kf_c03_1_seen")
			return
		}
		c.Fail("C06/ill-formed", fmt.Sprintf("%s returned an ill-formed value: %v", where, err), cq.Show(v))
	}
}

// onlyKFC031: every pair of equal members in every set inside v is a pair of numbers (or of structures differing
// only in such numbers) that are equal by value and hashed differently
func onlyKFC031(v cty.Value) bool {
	ok := true
	recovered(func() {
		cty.Walk(v, func(p cty.Path, x cty.Value) (bool, error) {
			u, _ := x.Unmark()
			if u.IsKnown() && !u.IsNull() && u.Type().IsSetType() {
				ms := u.AsValueSlice()
				for i := range ms {
					for j := i + 1; j < len(ms); j++ {
						if e := ms[i].Equals(ms[j]); e.IsKnown() && e.True() && !numbersDifferOnlyInHashText(ms[i], ms[j]) {
							ok = false
						}
					}
				}
			}
			return true, nil
		})
	})
	return ok
}

// wfFrom: as wf, but only when the input the value was computed from is well-formed itself
// (generated inputs may hold the equal-but-differently-hashed set members of KF-C03-1)
func (c *Ctx) wfFrom(in, out cty.Value, where string) {
	if cty.VerifWellFormed(in) != nil {
		c.Count("wf_skipped_ill_formed_input")
		return
	}
	c.wf(out, where)
}

// addOp runs op on args and records the correspondence case.
func (c *Ctx) addOp(class, op string, args []cty.Value, nontrivial bool) (cty.Value, bool) {
	ret, p, stable := stableOp(op, args)
	desc := map[string]interface{}{"op": op, "args": showAll(args)}
	if !stable {
		c.Count("skipped_unstable_equals")
		c.Fail(c.P.ID+"/equals-order-dependent", op+" gives different answers on repeated calls with the same operands (Go map iteration order decides between False and unknown)", desc)
		return ret, p
	}
	if !p {
		c.wf(ret, op)
		desc["result"] = cq.Show(ret)
	} else {
		desc["result"] = "panic"
	}
	c.Add(class, fmt.Sprintf("K_op %s %s %s", op, cq.ValList(args), cq.ResVal(ret, p)), desc, nontrivial)
	return ret, p
}

func showAll(vs []cty.Value) []string {
	out := make([]string, len(vs))
	for i, v := range vs {
		out[i] = cq.Show(v)
	}
	return out
}

// quoteOK: the string is inside the domain on which Hash.v's quote agrees with %q
func quoteOK(s string) bool {
	q := []byte{'"'}
	for i := 0; i < len(s); i++ {
		b := s[i]
		switch {
		case b == '"':
			q = append(q, '\\', '"')
		case b == '\\':
			q = append(q, '\\', '\\')
		case b == 7:
			q = append(q, '\\', 'a')
		case b == 8:
			q = append(q, '\\', 'b')
		case b == 12:
			q = append(q, '\\', 'f')
		case b == 10:
			q = append(q, '\\', 'n')
		case b == 13:
			q = append(q, '\\', 'r')
		case b == 9:
			q = append(q, '\\', 't')
		case b == 11:
			q = append(q, '\\', 'v')
		case b < 32 || b == 127:
			q = append(q, '\\', 'x', "0123456789abcdef"[b>>4], "0123456789abcdef"[b&15])
		default:
			q = append(q, b)
		}
	}
	q = append(q, '"')
	return string(q) == strconv.Quote(s)
}
