package main

import (
	"errors"
	"fmt"

	"github.com/zclconf/go-cty/cty"
	"github.com/zclconf/go-cty/cty/function"
	"verifharness/internal/cq"
	"verifharness/internal/gt"
	"verifharness/internal/gv"
	"verifharness/internal/rng"
)

func init() {
	register(&Prop{ID: "C10", Imports: "Base Ty BigFloat Value Ops Refine Func K10", CaseType: "k10", Check: "k10_check", PropFn: "k10_prop", Gen: genC10})
}

type paramD struct {
	t                     *gt.T
	ty                    cty.Type
	null, unk, dyn, marks bool
}

func (p paramD) coq() string {
	return fmt.Sprintf("{| p_ty := %s; p_null := %s; p_unk := %s; p_dyn := %s; p_marked := %s |}", cq.Ty(p.ty), cq.Bool(p.null), cq.Bool(p.unk), cq.Bool(p.dyn), cq.Bool(p.marks))
}
func (p paramD) param() function.Parameter {
	return function.Parameter{Name: "p", Type: p.ty, AllowNull: p.null, AllowUnknown: p.unk, AllowDynamicType: p.dyn, AllowMarked: p.marks}
}
func (p paramD) String() string {
	f := ""
	for _, x := range []struct {
		b bool
		s string
	}{{p.null, "N"}, {p.unk, "U"}, {p.dyn, "D"}, {p.marks, "M"}} {
		if x.b {
			f += x.s
		}
	}
	return p.t.String() + "/" + f
}

func errClass(err error) string {
	var ae function.ArgError
	var pe function.PanicError
	switch {
	case errors.As(err, &ae):
		return fmt.Sprintf("(Err (ArgError %s))", cq.Z(int64(ae.Index)))
	case errors.As(err, &pe):
		return "(Err PanicError)"
	}
	return cq.ErrOther
}

func resTy(t cty.Type, err error, p bool) string {
	switch {
	case p:
		return cq.PanicR
	case err != nil:
		return errClass(err)
	}
	return cq.Ok(cq.Ty(t))
}

func resValE(v cty.Value, err error, p bool) string {
	switch {
	case p:
		return cq.PanicR
	case err != nil:
		return errClass(err)
	}
	return cq.Ok(cq.Val(v))
}

var paramTypes = []*gt.T{gt.P(gt.Str), gt.P(gt.Num), gt.P(gt.Bool), gt.P(gt.Dyn), {K: gt.List, Elem: gt.P(gt.Dyn)}, {K: gt.List, Elem: gt.P(gt.Str)},
	{K: gt.Map, Elem: gt.P(gt.Num)}, {K: gt.Tuple, Elems: []*gt.T{gt.P(gt.Str), gt.P(gt.Dyn)}}, {K: gt.Obj, Attrs: []gt.Attr{{Name: "a", T: gt.P(gt.Num)}}},
	{K: gt.Set, Elem: gt.P(gt.Str)}}

func genParam(r *rng.R) paramD {
	t := paramTypes[r.Intn(len(paramTypes))]
	return paramD{t: t, ty: t.Build(), null: r.Chance(40), unk: r.Chance(40), dyn: r.Chance(40), marks: r.Chance(35)}
}

// an argument for a parameter: conforming (known / null / unknown / dynamic / deeply marked) or not conforming
func genArg(r *rng.R, p paramD) (cty.Value, string) {
	switch k := r.Intn(12); {
	case k == 0:
		other := paramTypes[r.Intn(len(paramTypes))]
		cfg := gv.KnownCfg
		return gv.Gen(r, other, cfg, 1), "other-type"
	case k == 1:
		return cty.NullVal(gt.Strip(gt.Resolve(r, p.t, gt.DefaultCfg)).Build()), "null"
	case k == 2:
		return cty.DynamicVal, "dynamic"
	case k == 3:
		return cty.NullVal(cty.DynamicPseudoType), "null-dynamic"
	case k == 4:
		ty := gt.Resolve(r, p.t, gt.DefaultCfg).Build()
		if r.Bool() {
			return gv.RefinedUnknown(r, ty), "unknown"
		}
		return cty.UnknownVal(ty), "unknown"
	case k <= 7:
		cfg := gv.DefaultCfg
		cfg.NoMarks = true
		v := gv.Gen(r, p.t, cfg, 2)
		return placeMarks(r, v, r.Bool()), "marked"
	default:
		cfg := gv.KnownCfg
		if r.Chance(30) {
			cfg = gv.DefaultCfg
			cfg.NoMarks = true
			cfg.MarkPct = 0
		}
		return gv.Gen(r, p.t, cfg, 2), "conforming"
	}
}

func genC10(c *Ctx, r *rng.R, i int) {
	np := r.Intn(4)
	params := make([]paramD, np)
	for k := range params {
		params[k] = genParam(r)
	}
	var vp *paramD
	if r.Chance(45) {
		p := genParam(r)
		vp = &p
	}
	// argument list: usually of admissible length
	n := np
	if vp != nil {
		n += r.Intn(3)
	}
	if r.Chance(8) {
		n += r.Intn(3) - 1
		if n < 0 {
			n = 0
		}
	}
	args := make([]cty.Value, n)
	kinds := make([]string, n)
	for k := range args {
		var p paramD
		switch {
		case k < np:
			p = params[k]
		case vp != nil:
			p = *vp
		default:
			p = genParam(r)
		}
		args[k], kinds[k] = genArg(r, p)
	}
	for _, a := range args {
		if !stringsOKSafe(a) {
			c.Count("skipped_quote_domain")
			return
		}
	}
	// callbacks from the menu
	retT := paramTypes[r.Intn(len(paramTypes))]
	retTy := retT.Build()
	tcbKind := []string{"const", "const", "const", "firstarg", "err", "panic"}[r.Intn(6)]
	icbKind := []string{"const", "const", "const", "firstarg", "unknown", "null", "err", "panic", "nonconforming", "typedunknown"}[r.Intn(10)]
	if retTy == cty.DynamicPseudoType && r.Chance(40) {
		icbKind = "typedunknown" // a typed (possibly refined) unknown under a dynamic return type
	}
	var constRet cty.Value
	switch icbKind {
	case "const":
		cfg := gv.KnownCfg
		if r.Chance(20) {
			cfg.NullPct = 100
		}
		constRet = gv.Gen(r, retT, cfg, 2)
	case "nonconforming":
		constRet = cty.TupleVal([]cty.Value{cty.StringVal("not"), cty.True, cty.NumberIntVal(1)})
	case "typedunknown":
		constRet = []cty.Value{cty.UnknownVal(cty.String), cty.UnknownVal(cty.List(cty.String)), cty.UnknownVal(cty.Number).Refine().NumberRangeLowerBound(cty.Zero, true).NewValue(),
			cty.UnknownVal(cty.Map(cty.Number))}[r.Intn(4)]
	}
	var refine []rcall
	hasRefine := r.Chance(35)
	if hasRefine {
		refine = []rcall{{kind: "notnull"}}
		if r.Chance(25) {
			refine = append(refine, rcall{kind: "lenlo", n: 1})
		}
	}
	type ev struct {
		kind string
		args []cty.Value
		ty   cty.Type
		res  string
	}
	var trace []ev
	spec := &function.Spec{}
	for _, p := range params {
		spec.Params = append(spec.Params, p.param())
	}
	if vp != nil {
		pp := vp.param()
		spec.VarParam = &pp
	}
	spec.Type = func(as []cty.Value) (t cty.Type, err error) {
		e := ev{kind: "type", args: append([]cty.Value(nil), as...)}
		defer func() {
			if rec := recover(); rec != nil {
				e.res = cq.PanicR
				trace = append(trace, e)
				panic(rec)
			}
			e.res = resTy(t, err, false)
			trace = append(trace, e)
		}()
		switch tcbKind {
		case "err":
			return cty.NilType, fmt.Errorf("type callback says no")
		case "panic":
			panic("type callback panics")
		case "firstarg":
			if len(as) > 0 {
				return as[0].Type(), nil
			}
			return cty.String, nil
		}
		return retTy, nil
	}
	spec.Impl = func(as []cty.Value, rt cty.Type) (v cty.Value, err error) {
		e := ev{kind: "impl", args: append([]cty.Value(nil), as...), ty: rt}
		defer func() {
			if rec := recover(); rec != nil {
				e.res = cq.PanicR
				trace = append(trace, e)
				panic(rec)
			}
			e.res = resValE(v, err, false)
			trace = append(trace, e)
		}()
		switch icbKind {
		case "err":
			return cty.NilVal, fmt.Errorf("implementation says no")
		case "panic":
			panic("implementation panics")
		case "unknown":
			return cty.UnknownVal(rt), nil
		case "null":
			return cty.NullVal(rt), nil
		case "firstarg":
			if len(as) > 0 {
				return as[0], nil
			}
			return cty.NullVal(rt), nil
		}
		return constRet, nil
	}
	if hasRefine {
		spec.RefineResult = func(b *cty.RefinementBuilder) *cty.RefinementBuilder {
			for _, k := range refine {
				b = k.apply(b)
			}
			return b
		}
	}
	f := function.New(spec)
	var ret cty.Value
	var err error
	p, pmsg := recovered(func() { ret, err = f.Call(args) })

	// function.Unpredictable(f) behaves as f with an implementation that answers "unknown of the checked type":
	// same contract checks, same type callback, same declared refinements
	{
		saved := append([]ev(nil), trace...)
		spec2 := *spec
		spec2.Impl = func(as []cty.Value, rt cty.Type) (cty.Value, error) { return cty.UnknownVal(rt), nil }
		ref := function.New(&spec2)
		wrapped := function.Unpredictable(f)
		var r1, r2 cty.Value
		var e1, e2 error
		p1, _ := recovered(func() { r1, e1 = wrapped.Call(args) })
		p2, _ := recovered(func() { r2, e2 = ref.Call(args) })
		c.Count("oracle_evals")
		if p1 != p2 || (e1 == nil) != (e2 == nil) || (!p1 && e1 == nil && !sameValue(r1, r2)) {
			c.Fail("C10/unpredictable-differs", fmt.Sprintf("Unpredictable(f): %s; f with an implementation answering unknown: %s", outcomeStr(r1, e1, p1), outcomeStr(r2, e2, p2)),
				map[string]interface{}{"args": showAll(args), "type_cb": tcbKind, "refine": hasRefine})
		}
		trace = saved
	}

	// Coq terms
	psC := make([]string, np)
	psS := make([]string, np)
	for k, pp := range params {
		psC[k] = pp.coq()
		psS[k] = pp.String()
	}
	vpC, vpS := "None", "-"
	if vp != nil {
		vpC, vpS = "(Some "+vp.coq()+")", vp.String()
	}
	tcbC := map[string]string{"const": "(TcbConst " + cq.Ty(retTy) + ")", "err": "TcbErr", "panic": "TcbPanic", "firstarg": "TcbFirstArgTy"}[tcbKind]
	icbC := map[string]string{"err": "IcbErr", "panic": "IcbPanic", "unknown": "IcbUnknownOfRet", "null": "IcbNullOfRet", "firstarg": "IcbFirstArg"}[icbKind]
	if icbKind == "const" || icbKind == "nonconforming" || icbKind == "typedunknown" {
		icbC = "(IcbConst " + cq.Val(constRet) + ")"
	}
	rfC := "None"
	if hasRefine {
		items := make([]string, len(refine))
		for k, x := range refine {
			items[k] = x.coq()
		}
		rfC = "(Some " + cq.List(items) + ")"
	}
	trC := make([]string, len(trace))
	for k, e := range trace {
		if e.kind == "type" {
			trC[k] = fmt.Sprintf("EvType %s %s", cq.ValList(e.args), e.res)
		} else {
			trC[k] = fmt.Sprintf("EvImpl %s %s %s", cq.ValList(e.args), cq.Ty(e.ty), e.res)
		}
	}
	desc := map[string]interface{}{"params": psS, "varparam": vpS, "type_cb": tcbKind, "impl_cb": icbKind, "refine": hasRefine, "args": showAll(args), "arg_kinds": kinds,
		"outcome": outcomeStr(ret, err, p)}
	cls := fmt.Sprintf("call/%dpos", np)
	if vp != nil {
		cls += "+var"
	}
	c.Add(cls, fmt.Sprintf("K10_call %s %s %s %s %s %s %s %s", cq.List(psC), vpC, tcbC, icbC, rfC, cq.ValList(args), resValE(ret, err, p), cq.List(trC)), desc, n > 0)

	// ---- the property, on the implementation
	c.Count("oracle_evals")
	if p {
		c.Fail("C10/go-panic-escapes", "Call panicked: "+pmsg, desc)
		return
	}
	if err == nil {
		c.wf(ret, "Call")
	}
	paramFor := func(k int) *paramD {
		if k < np {
			return &params[k]
		}
		return vp
	}
	var typeEv, implEv *ev
	for k := range trace {
		if trace[k].kind == "type" {
			typeEv = &trace[k]
		} else {
			implEv = &trace[k]
		}
	}
	if implEv != nil {
		if typeEv == nil || typeEv.res == cq.PanicR || typeEv.res[:3] != "(Ok" {
			c.Fail("C10/impl-without-type", "the implementation ran although the type callback did not accept", desc)
		} else if cq.ValList(typeEv.args) != cq.ValList(implEv.args) {
			c.Fail("C10/impl-args-differ", "the implementation received other arguments than the type callback accepted", desc)
		}
		for k, a := range implEv.args {
			pp := paramFor(k)
			if pp == nil {
				c.Fail("C10/contract", "more arguments than parameters reached the implementation", desc)
				continue
			}
			bad := ""
			switch {
			case a.Type() != cty.DynamicPseudoType && len(a.Type().TestConformance(pp.ty)) != 0:
				bad = "type does not conform"
			case a.IsNull() && !pp.null:
				bad = "null although nulls are not allowed"
			case !a.IsKnown() && !pp.unk:
				bad = "unknown although unknowns are not allowed"
			case a.Type() == cty.DynamicPseudoType && !pp.dyn:
				bad = "dynamically typed although not allowed"
			case a.ContainsMarked() && !pp.marks:
				bad = "marked although marks are not allowed"
			}
			if bad != "" {
				c.Fail("C10/contract", fmt.Sprintf("argument %d reached the implementation: %s", k, bad), desc)
			}
		}
	}
	if err != nil {
		var ae function.ArgError
		if errors.As(err, &ae) {
			k := ae.Index
			if k < 0 || k >= len(args) {
				c.Fail("C10/argerror-index", fmt.Sprintf("ArgError index %d out of range", k), desc)
			} else if pp := paramFor(k); pp != nil {
				a := args[k]
				offending := (a.IsNull() && !pp.null) || (a.Type() != cty.DynamicPseudoType && len(a.Type().TestConformance(pp.ty)) != 0)
				if !offending {
					c.Fail("C10/argerror-index", fmt.Sprintf("ArgError names argument %d, which satisfies its parameter", k), desc)
				}
			}
		}
		return
	}
	// success: conformance to the checked return type, marks of unhandled arguments
	if typeEv != nil && len(typeEv.res) > 3 && typeEv.res[:3] == "(Ok" {
		var rt cty.Type
		switch tcbKind {
		case "firstarg":
			if len(typeEv.args) > 0 {
				rt = typeEv.args[0].Type()
			} else {
				rt = cty.String
			}
		default:
			rt = retTy
		}
		if errs := ret.Type().TestConformance(rt); len(errs) != 0 {
			c.Fail("C10/nonconforming-result", fmt.Sprintf("Call returned %s, which does not conform to the checked return type %#v", cq.Show(ret), rt), desc)
		}
	}
	want := cty.ValueMarks{}
	for k, a := range args {
		if pp := paramFor(k); pp != nil && !pp.marks {
			for m := range deepMarks(a) {
				want[m] = struct{}{}
			}
		}
	}
	if !subset(want, deepMarks(ret)) {
		c.Fail("C10/marks-lost", "a mark of an argument the function does not handle itself is missing on the result "+cq.Show(ret), desc)
	}
	if implEv == nil && ret.IsKnown() {
		c.Fail("C10/known-without-impl", "a known result although the implementation did not run", desc)
	}
	if hasRefine && ret.Type() != cty.DynamicPseudoType {
		ur, _ := ret.Unmark()
		if !ur.IsKnown() && !ur.Range().DefinitelyNotNull() {
			c.Fail("C10/refinement-not-applied", "declared NotNull refinement missing on the result "+cq.Show(ret), desc)
		}
	}
	// ReturnTypeForValues on the same arguments
	var rt cty.Type
	var rerr error
	rp, _ := recovered(func() { rt, rerr = f.ReturnTypeForValues(args) })
	c.Add("rtfv", fmt.Sprintf("K10_rtfv %s %s %s %s %s", cq.List(psC), vpC, tcbC, cq.ValList(args), resTy(rt, rerr, rp)), desc, n > 0)
}
