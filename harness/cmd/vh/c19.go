package main

import (
	"fmt"
	"sort"
	"strings"

	"github.com/zclconf/go-cty/cty"
	"verifharness/internal/cq"
	"verifharness/internal/gt"
	"verifharness/internal/gv"
	"verifharness/internal/rng"
)

func init() {
	register(&Prop{ID: "C19", Imports: "Base Ty BigFloat Value Ops Refine Walk K19", CaseType: "k19", Check: "k19_check", Gen: genC19})
}

func coqPath(p cty.Path) string {
	items := make([]string, len(p))
	for i, s := range p {
		switch st := s.(type) {
		case cty.GetAttrStep:
			items[i] = "SAttr " + cq.Str(st.Name)
		case cty.IndexStep:
			items[i] = "SIndex " + cq.Val(st.Key)
		}
	}
	return cq.List(items)
}

func showPath(p cty.Path) string {
	var sb strings.Builder
	for _, s := range p {
		switch st := s.(type) {
		case cty.GetAttrStep:
			sb.WriteString("." + st.Name)
		case cty.IndexStep:
			sb.WriteString("[" + cq.Show(st.Key) + "]")
		}
	}
	if sb.Len() == 0 {
		return "(root)"
	}
	return sb.String()
}

type visit struct {
	p cty.Path
	v cty.Value
}

func walkAll(v cty.Value) []visit {
	var out []visit
	cty.Walk(v, func(p cty.Path, x cty.Value) (bool, error) {
		out = append(out, visit{p.Copy(), x})
		return true, nil
	})
	return out
}

// independent enumeration of the members (through iterators), parents first
func enumerate(v cty.Value) int {
	n := 1
	u, _ := v.Unmark()
	if u.IsNull() || !u.IsKnown() || !u.CanIterateElements() {
		return n
	}
	for it := u.ElementIterator(); it.Next(); {
		_, e := it.Element()
		n += enumerate(e)
	}
	return n
}

func pathThroughSet(root cty.Value, p cty.Path) bool {
	v := root
	for _, s := range p {
		u, _ := v.Unmark()
		if u.Type().IsSetType() {
			return true
		}
		nv, err := s.Apply(u)
		if err != nil {
			return false
		}
		v = nv
	}
	return false
}

// marks of the containers traversed along p (excluding the member itself)
func containerMarks(root cty.Value, p cty.Path) cty.ValueMarks {
	ms := cty.ValueMarks{}
	v := root
	for _, s := range p {
		for m := range v.Marks() {
			ms[m] = struct{}{}
		}
		u, _ := v.Unmark()
		nv, err := s.Apply(u)
		if err != nil {
			break
		}
		v = nv
	}
	return ms
}

func genC19(c *Ctx, r *rng.R, i int) {
	if r.Chance(25) {
		c19PathSet(c, r)
		return
	}
	if r.Chance(12) {
		c19Builders(c, r)
		return
	}
	t := gt.Gen(r, gt.Cfg{Depth: 3, DynPct: 4, OptPct: 0, CapPct: 2, MaxWidth: 3})
	if r.Chance(40) {
		t = collTypes[r.Intn(len(collTypes))]
	}
	cfg := gv.DefaultCfg
	cfg.MarkPct = 12
	v := gv.Gen(r, t, cfg, 3)
	if !stringsOKSafe(v) {
		c.Count("skipped_quote_domain")
		return
	}
	desc := map[string]interface{}{"v": cq.Show(v)}
	vs := walkAll(v)
	items := make([]string, len(vs))
	for k, x := range vs {
		items[k] = cq.Pair(coqPath(x.p), cq.Val(x.v))
	}
	c.Add("walk", fmt.Sprintf("K19_walk %s %s", cq.Val(v), cq.List(items)), desc, len(vs) > 1)
	c.Count("oracle_evals")
	if n := enumerate(v); n != len(vs) {
		c.Fail("C19/walk-count", fmt.Sprintf("Walk visited %d values, the value has %d members", len(vs), n), desc)
	}
	// parents before children, each path once
	seen := map[string]bool{}
	for _, x := range vs {
		key := coqPath(x.p)
		if seen[key] && !pathThroughSet(v, x.p) { // members of sets are addressed by their value: unknown duplicates share a path
			c.Fail("C19/walk-twice", "Walk reported the path "+showPath(x.p)+" twice", desc)
		}
		seen[key] = true
		if len(x.p) > 0 && !seen[coqPath(x.p[:len(x.p)-1])] {
			c.Fail("C19/walk-order", "Walk visited "+showPath(x.p)+" before its parent", desc)
		}
	}
	// every reported path applied to the root returns the visited member (with the container marks)
	for _, x := range vs {
		if pathThroughSet(v, x.p) {
			continue
		}
		var got cty.Value
		var err error
		p, _ := recovered(func() { got, err = x.p.Apply(v) })
		pd := map[string]interface{}{"v": cq.Show(v), "path": showPath(x.p)}
		if p || err != nil {
			c.Fail("C19/path-back", fmt.Sprintf("the path %s reported by Walk does not apply to the root (panic=%v err=%v)", showPath(x.p), p, err), pd)
			continue
		}
		want := x.v.WithMarks(containerMarks(v, x.p))
		if !got.RawEquals(want) {
			c.Fail("C19/path-back", fmt.Sprintf("Apply(%s) = %s, Walk visited %s", showPath(x.p), cq.Show(got), cq.Show(want)), pd)
		}
	}
	// a few applications for the correspondence: valid paths and mutated (invalid) ones
	for k := 0; k < 3 && len(vs) > 0; k++ {
		x := vs[r.Intn(len(vs))]
		p := x.p.Copy()
		kind := "valid"
		if r.Chance(50) {
			kind = "invalid"
			switch r.Intn(5) {
			case 0:
				p = p.GetAttr("nope")
			case 1:
				p = p.IndexInt(99)
			case 2:
				p = p.IndexString("nokey")
			case 3:
				p = p.Index(cty.UnknownVal(cty.Number))
			default:
				if len(p) > 0 {
					p[r.Intn(len(p))] = cty.IndexStep{Key: cty.NumberIntVal(int64(r.Intn(4)))}
				} else {
					p = p.Index(cty.True)
				}
			}
		}
		var got cty.Value
		var err error
		pn, _ := recovered(func() { got, err = p.Apply(v) })
		obs := cq.PanicR
		switch {
		case pn:
		case err != nil:
			obs = "(Err PathError)"
		default:
			obs = cq.Ok(cq.Val(got))
			c.wf(got, "Path.Apply")
		}
		pd := map[string]interface{}{"v": cq.Show(v), "path": showPath(p)}
		c.Add("apply/"+kind, fmt.Sprintf("K19_apply %s %s %s", coqPath(p), cq.Val(v), obs), pd, true)
		if pn {
			c.Fail("C19/apply-panic", "Path.Apply panicked on "+showPath(p), pd)
		}
	}
	// identity transformation
	var idv cty.Value
	var idp []string
	var err error
	pn, _ := recovered(func() {
		idv, err = cty.Transform(v, func(p cty.Path, x cty.Value) (cty.Value, error) {
			idp = append(idp, coqPath(p))
			return x, nil
		})
	})
	c.Add("transform-id", fmt.Sprintf("K19_transform_id %s %s", cq.Val(v), resValE(idv, err, pn)), desc, len(vs) > 1)
	if pn || err != nil {
		c.Fail("C19/transform-id", "identity Transform failed", desc)
	} else {
		c.wf(idv, "Transform")
		if !idv.RawEquals(v) {
			c.Fail("C19/transform-id", "identity Transform returned "+cq.Show(idv), desc)
		}
		want := make([]string, len(vs))
		for k, x := range vs {
			want[k] = coqPath(x.p)
		}
		sort.Strings(want)
		sort.Strings(idp)
		if strings.Join(want, "|") != strings.Join(idp, "|") {
			c.Fail("C19/transform-paths", "Transform and Walk visit different paths", desc)
		}
	}
	// replacing one member leaves the others undisturbed
	if len(vs) > 1 {
		tgt := vs[1+r.Intn(len(vs)-1)]
		if !pathThroughSet(v, tgt.p) {
			ut, _ := tgt.v.Unmark()
			repl := gv.Gen(r, gt.FromCty(ut.Type()), gv.KnownCfg, 1)
			if ut.Type() == cty.DynamicPseudoType || !repl.Type().Equals(ut.Type()) {
				repl = tgt.v
			}
			var nv cty.Value
			pn, _ := recovered(func() {
				nv, err = cty.Transform(v, func(p cty.Path, x cty.Value) (cty.Value, error) {
					if p.Equals(tgt.p) {
						return repl, nil
					}
					return x, nil
				})
			})
			rd := map[string]interface{}{"v": cq.Show(v), "path": showPath(tgt.p), "replacement": cq.Show(repl)}
			if stringsOKSafe(repl) {
				c.Add("replace", fmt.Sprintf("K19_replace %s %s %s %s", coqPath(tgt.p), cq.Val(repl), cq.Val(v), resValE(nv, err, pn)), rd, true)
			}
			if !pn && err == nil {
				for _, x := range vs {
					if x.p.HasPrefix(tgt.p) || tgt.p.HasPrefix(x.p) || pathThroughSet(v, x.p) {
						continue
					}
					got, e2 := x.p.Apply(nv)
					orig, _ := x.p.Apply(v)
					if e2 != nil || !got.RawEquals(orig) {
						c.Fail("C19/replace-disturbs", fmt.Sprintf("replacing %s changed the member at %s", showPath(tgt.p), showPath(x.p)), rd)
						break
					}
				}
				if got, e2 := tgt.p.Apply(nv); e2 != nil || !got.RawEquals(repl.WithMarks(containerMarks(v, tgt.p))) {
					c.Fail("C19/replace-missing", "the replacement is not found at "+showPath(tgt.p), rd)
				}
			}
		}
	}
	// replacing a member on the way down (Transformer.Enter) by a value of another shape: the descent follows what
	// Enter returned, the result holds exactly that value, the rest is undisturbed
	{
		var free []visit
		for _, x := range vs {
			ok := true
			for _, st := range x.p {
				if _, isAttr := st.(cty.GetAttrStep); !isAttr {
					ok = false
				}
			}
			if ok {
				free = append(free, x)
			}
		}
		tgt := free[r.Intn(len(free))]
		shapes := []cty.Value{
			cty.ObjectVal(map[string]cty.Value{"n1": cty.StringVal("new"), "n2": cty.ListVal([]cty.Value{cty.True, cty.False})}),
			cty.TupleVal([]cty.Value{cty.NumberIntVal(7), cty.MapVal(map[string]cty.Value{"k": cty.StringVal("v")})}),
			cty.MapVal(map[string]cty.Value{"a": cty.Zero, "b": cty.NumberIntVal(1)}),
			cty.StringVal("leaf"), cty.EmptyObjectVal, cty.NullVal(cty.DynamicPseudoType),
		}
		repl := shapes[r.Intn(len(shapes))]
		if ut, _ := tgt.v.Unmark(); ut.Type().IsObjectType() && r.Bool() && ut.IsKnown() && !ut.IsNull() {
			// the same object widened by one attribute
			m := ut.AsValueMap()
			if m == nil {
				m = map[string]cty.Value{}
			}
			m["zz_added"] = cty.StringVal("extra")
			repl = cty.ObjectVal(m)
		}
		var nv cty.Value
		var exited []cty.Path
		tr := &enterReplacer{at: tgt.p, with: repl, exited: &exited}
		pn, _ := recovered(func() { nv, err = cty.TransformWithTransformer(v, tr) })
		rd := map[string]interface{}{"v": cq.Show(v), "path": showPath(tgt.p), "replacement": cq.Show(repl)}
		c.Count("oracle_evals")
		if pn || err != nil {
			c.Fail("C19/enter-replace", fmt.Sprintf("TransformWithTransformer failed (panic=%v err=%v)", pn, err), rd)
		} else {
			got, e2 := tgt.p.Apply(nv)
			if e2 != nil || !got.RawEquals(repl.WithMarks(containerMarks(v, tgt.p))) {
				c.Fail("C19/enter-replace", "the value Enter returned is not what the result holds at "+showPath(tgt.p)+": "+cq.Show(got), rd)
			}
			for _, x := range vs {
				if x.p.HasPrefix(tgt.p) || tgt.p.HasPrefix(x.p) || pathThroughSet(v, x.p) {
					continue
				}
				g2, e3 := x.p.Apply(nv)
				orig, _ := x.p.Apply(v)
				if e3 != nil || !g2.RawEquals(orig) {
					c.Fail("C19/replace-disturbs", fmt.Sprintf("replacing %s on the way down changed the member at %s", showPath(tgt.p), showPath(x.p)), rd)
					break
				}
			}
			// below the replaced member the walk visits the members of the replacement
			var want []string
			for _, x := range walkAll(repl) {
				if len(x.p) > 0 {
					want = append(want, genKey(append(tgt.p.Copy(), x.p...)))
				}
			}
			var gotBelow []string
			for _, q := range exited {
				if q.HasPrefix(tgt.p) && len(q) > len(tgt.p) {
					gotBelow = append(gotBelow, genKey(q))
				}
			}
			sort.Strings(want)
			sort.Strings(gotBelow)
			if len(tgt.p) > 0 && strings.Join(want, "|") != strings.Join(gotBelow, "|") {
				c.Fail("C19/enter-replace", fmt.Sprintf("below the replaced member %d members were visited, the replacement has %d", len(gotBelow), len(want)), rd)
			}
		}
	}
	// marks by path: remove and re-apply
	uv, pvm := v.UnmarkDeepWithPaths()
	pmItems := make([]string, len(pvm))
	for k, e := range pvm {
		pmItems[k] = cq.Pair(coqPath(e.Path), cq.Marks(e.Marks))
	}
	c.Add("pathmarks", fmt.Sprintf("K19_pathmarks %s %s", cq.Val(v), cq.List(pmItems)), desc, len(pvm) > 0)
	back := uv.MarkWithPaths(pvm)
	c.Add("markpaths", fmt.Sprintf("K19_markpaths %s %s %s", cq.List(pmItems), cq.Val(uv), cq.Ok(cq.Val(back))), desc, len(pvm) > 0)
	if !back.RawEquals(v) && !setMemberMarks(v) {
		c.Fail("C19/marks-roundtrip", "MarkWithPaths(UnmarkDeepWithPaths(v)) = "+cq.Show(back), desc)
	}
	if uv.ContainsMarked() {
		c.Fail("C19/unmark-incomplete", "UnmarkDeepWithPaths left marks behind", desc)
	}
	// the list of paths and marks belongs to the caller: applying it leaves it as it was, so a second application
	// (several marked siblings, in the order UnmarkDeepWithPaths reports them and reversed) marks the same members
	{
		mv := placeMarks(r, placeMarks(r, uv, false), r.Bool())
		u2, pvm2 := mv.UnmarkDeepWithPaths()
		if r.Bool() {
			for i, j := 0, len(pvm2)-1; i < j; i, j = i+1, j-1 {
				pvm2[i], pvm2[j] = pvm2[j], pvm2[i]
			}
		}
		showPVM := func(l []cty.PathValueMarks) string {
			var out []string
			for _, e := range l {
				var ms []string
				for m := range e.Marks {
					ms = append(ms, fmt.Sprintf("%#v", m))
				}
				sort.Strings(ms)
				out = append(out, showPath(e.Path)+"="+strings.Join(ms, ","))
			}
			return strings.Join(out, ";")
		}
		before := showPVM(pvm2)
		var first, second cty.Value
		p1, _ := recovered(func() { first = u2.MarkWithPaths(pvm2) })
		mid := showPVM(pvm2)
		p2, _ := recovered(func() { second = u2.MarkWithPaths(pvm2) })
		c.Count("oracle_evals")
		md := map[string]interface{}{"v": cq.Show(mv), "paths": before}
		switch {
		case p1 || p2:
			c.Fail("C19/markwithpaths-reuse", "MarkWithPaths panicked", md)
		case mid != before:
			c.Fail("C19/markwithpaths-reuse", "MarkWithPaths changed the caller's list of paths and marks: "+mid, md)
		case !first.RawEquals(mv) && !setMemberMarks(mv) && !pathThroughSetAny(mv, pvm2):
			c.Fail("C19/marks-roundtrip", "MarkWithPaths(UnmarkDeepWithPaths(v)) = "+cq.Show(first), md)
		case !second.RawEquals(first):
			c.Fail("C19/markwithpaths-reuse", "the second application of the same list gives "+cq.Show(second)+", the first "+cq.Show(first), md)
		}
	}
	var uan cty.Value
	pn, _ = recovered(func() { uan = cty.UnknownAsNull(uv) })
	c.Add("unknown-as-null", fmt.Sprintf("K19_uan %s %s", cq.Val(uv), cq.ResVal(uan, pn)), desc, !uv.IsWhollyKnown())
	if !pn {
		c.wf(uan, "UnknownAsNull")
		if !uan.IsWhollyKnown() {
			c.Fail("C19/unknown-as-null", "UnknownAsNull left an unknown value", desc)
		}
	}
	// path equality / prefix
	if len(vs) > 1 {
		a, b := vs[r.Intn(len(vs))].p, vs[r.Intn(len(vs))].p
		c.Add("patheq", fmt.Sprintf("K19_patheq %s %s %s %s", coqPath(a), coqPath(b), cq.Bool(a.Equals(b)), cq.Bool(a.HasPrefix(b))), map[string]string{"a": showPath(a), "b": showPath(b)}, true)
	}
}

// marks cannot live on set members (SetVal hoists them), so the round trip is exact only without
// marked values below sets — which cannot exist in a well-formed value; kept for safety
func setMemberMarks(v cty.Value) bool { return false }

var psPool = []cty.Path{
	cty.GetAttrPath("a"), cty.GetAttrPath("b"), cty.GetAttrPath("a").GetAttr("b"), cty.GetAttrPath("a").IndexInt(0), cty.GetAttrPath("a").IndexInt(1),
	cty.IndexIntPath(0), cty.IndexStringPath("k"), cty.IndexStringPath("a"), cty.GetAttrPath("a").IndexString("k"), cty.Path{},
	cty.GetAttrPath("a").Index(cty.MustParseNumberVal("1")), cty.GetAttrPath("é").IndexInt(0).GetAttr("x"), cty.IndexIntPath(1).IndexInt(0),
	cty.IndexPath(cty.NumberFloatVal(0)), cty.GetAttrPath("#"), cty.IndexStringPath("#"),
}

func pathKey(p cty.Path) string {
	var sb strings.Builder
	for _, s := range p {
		switch st := s.(type) {
		case cty.GetAttrStep:
			sb.WriteString("." + st.Name + "\x00")
		case cty.IndexStep:
			if st.Key.Type() == cty.Number {
				sb.WriteString("[n" + st.Key.AsBigFloat().Text('f', -1) + "]\x00")
			} else {
				sb.WriteString("[s" + st.Key.AsString() + "]\x00")
			}
		}
	}
	return sb.String()
}

func c19PathSet(c *Ctx, r *rng.R) {
	var regs []cty.PathSet
	var model []map[string]bool
	var ops, obs, hist []string
	push := func(s cty.PathSet, m map[string]bool) { regs = append(regs, s); model = append(model, m) }
	push(cty.NewPathSet(), map[string]bool{})
	ops, obs = append(ops, "PsNew"), append(obs, "PoNone")
	steps := 4 + r.Intn(14)
	fail := func(sig, msg string) { c.Fail(sig, msg, map[string]interface{}{"history": strings.Join(hist, "; ")}) }
	for k := 0; k < steps; k++ {
		i, j := r.Intn(len(regs)), r.Intn(len(regs))
		p := psPool[r.Intn(len(psPool))]
		switch r.Intn(11) {
		case 0, 1, 2, 3:
			regs[i].Add(p)
			model[i][pathKey(p)] = true
			ops, obs = append(ops, fmt.Sprintf("PsAdd %d%%nat %s", i, coqPath(p))), append(obs, "PoNone")
			hist = append(hist, fmt.Sprintf("s%d.Add(%s)", i, showPath(p)))
		case 4:
			regs[i].Remove(p)
			delete(model[i], pathKey(p))
			ops, obs = append(ops, fmt.Sprintf("PsRemove %d%%nat %s", i, coqPath(p))), append(obs, "PoNone")
			hist = append(hist, fmt.Sprintf("s%d.Remove(%s)", i, showPath(p)))
		case 5, 6:
			h := regs[i].Has(p)
			ops, obs = append(ops, fmt.Sprintf("PsHas %d%%nat %s", i, coqPath(p))), append(obs, "PoBool "+cq.Bool(h))
			hist = append(hist, fmt.Sprintf("s%d.Has(%s)", i, showPath(p)))
			if h != model[i][pathKey(p)] {
				fail("C19/pathset-membership", fmt.Sprintf("Has(%s) = %v, mathematical set says %v", showPath(p), h, model[i][pathKey(p)]))
			}
		case 7:
			kind := r.Intn(4)
			name := []string{"PsUnion", "PsInter", "PsSub", "PsSym"}[kind]
			var s cty.PathSet
			m := map[string]bool{}
			switch kind {
			case 0:
				s = regs[i].Union(regs[j])
				for x := range model[i] {
					m[x] = true
				}
				for x := range model[j] {
					m[x] = true
				}
			case 1:
				s = regs[i].Intersection(regs[j])
				for x := range model[i] {
					if model[j][x] {
						m[x] = true
					}
				}
			case 2:
				s = regs[i].Subtract(regs[j])
				for x := range model[i] {
					if !model[j][x] {
						m[x] = true
					}
				}
			default:
				s = regs[i].SymmetricDifference(regs[j])
				for x := range model[i] {
					if !model[j][x] {
						m[x] = true
					}
				}
				for x := range model[j] {
					if !model[i][x] {
						m[x] = true
					}
				}
			}
			push(s, m)
			ops, obs = append(ops, fmt.Sprintf("%s %d%%nat %d%%nat", name, i, j)), append(obs, "PoNone")
			hist = append(hist, fmt.Sprintf("s%d = s%d.%s(s%d)", len(regs)-1, i, name[2:], j))
		case 8:
			eq := regs[i].Equal(regs[j])
			ops, obs = append(ops, fmt.Sprintf("PsEqual %d%%nat %d%%nat", i, j)), append(obs, "PoBool "+cq.Bool(eq))
			hist = append(hist, fmt.Sprintf("s%d.Equal(s%d)", i, j))
			want := len(model[i]) == len(model[j])
			for x := range model[i] {
				if !model[j][x] {
					want = false
				}
			}
			if eq != want {
				fail("C19/pathset-equal", fmt.Sprintf("Equal = %v, mathematical sets say %v", eq, want))
			}
		case 9:
			l := regs[i].List()
			items := make([]string, len(l))
			for x, p := range l {
				items[x] = coqPath(p)
			}
			ops, obs = append(ops, fmt.Sprintf("PsList %d%%nat", i)), append(obs, "PoList "+cq.List(items))
			hist = append(hist, fmt.Sprintf("s%d.List()", i))
			if len(l) != len(model[i]) {
				fail("C19/pathset-list", fmt.Sprintf("List() has %d paths, mathematical set %d", len(l), len(model[i])))
			}
			for _, p := range l {
				if !model[i][pathKey(p)] {
					fail("C19/pathset-list", "List() holds a path that was not added: "+showPath(p))
				}
			}
		default:
			push(cty.NewPathSet(), map[string]bool{})
			ops, obs = append(ops, "PsNew"), append(obs, "PoNone")
			hist = append(hist, fmt.Sprintf("s%d = new", len(regs)-1))
		}
	}
	c.Count("oracle_evals")
	c.Add("pathset", fmt.Sprintf("K19_pathset %s %s", cq.List(ops), cq.List(obs)), map[string]interface{}{"history": hist}, true)
}

// paths built step by step from shared parents: a path, once built, never changes
func c19Builders(c *Ctx, r *rng.R) {
	ext := func(p cty.Path) cty.Path {
		switch r.Intn(3) {
		case 0:
			return p.GetAttr([]string{"a", "b", "c"}[r.Intn(3)])
		case 1:
			return p.IndexInt(r.Intn(3))
		default:
			return p.IndexString([]string{"k", "x"}[r.Intn(2)])
		}
	}
	parent := cty.Path{}
	for k, n := 0, r.Intn(6); k < n; k++ {
		parent = ext(parent)
	}
	type snap struct {
		p    cty.Path
		term string
		show string
	}
	var all []snap
	all = append(all, snap{parent, coqPath(parent), showPath(parent)})
	for k, n := 0, 2+r.Intn(3); k < n; k++ {
		from := all[r.Intn(len(all))].p
		ch := ext(from)
		all = append(all, snap{ch, coqPath(ch), showPath(ch)})
	}
	c.Count("oracle_evals")
	var hist []string
	for _, s := range all {
		hist = append(hist, s.show)
	}
	for _, s := range all {
		now := coqPath(s.p)
		if now != s.term {
			c.Fail("C19/path-mutated", fmt.Sprintf("the path %s changed to %s after sibling paths were derived from the same parent", s.show, showPath(s.p)), map[string]interface{}{"built": hist})
		}
	}
	ps := cty.NewPathSet()
	for _, s := range all {
		ps.Add(s.p)
	}
	distinct := map[string]bool{}
	for _, s := range all {
		distinct[s.term] = true
	}
	if len(ps.List()) != len(distinct) {
		c.Fail("C19/pathset-list", fmt.Sprintf("%d distinct paths were added, the set lists %d", len(distinct), len(ps.List())), map[string]interface{}{"built": hist})
	}
	a, b := all[r.Intn(len(all))], all[r.Intn(len(all))]
	c.Add("patheq/built", fmt.Sprintf("K19_patheq %s %s %s %s", a.term, b.term, cq.Bool(a.p.Equals(b.p)), cq.Bool(a.p.HasPrefix(b.p))), map[string]string{"a": a.show, "b": b.show}, true)
}

// enterReplacer replaces the member at one path when the walk enters it and records what is visited
type enterReplacer struct {
	at     cty.Path
	with   cty.Value
	exited *[]cty.Path
}

func (t *enterReplacer) Enter(p cty.Path, v cty.Value) (cty.Value, error) {
	if p.Equals(t.at) {
		return t.with, nil
	}
	return v, nil
}
func (t *enterReplacer) Exit(p cty.Path, v cty.Value) (cty.Value, error) {
	*t.exited = append(*t.exited, p.Copy())
	return v, nil
}

func genKey(p cty.Path) string { return fmt.Sprintf("%#v", p) + "/" }

func pathThroughSetAny(root cty.Value, pvm []cty.PathValueMarks) bool {
	for _, e := range pvm {
		if pathThroughSet(root, e.Path) {
			return true
		}
	}
	return false
}
