package main

import (
	"fmt"
	"math/big"
	"os"
	"reflect"
	"sort"
	"strings"
	"sync"

	"github.com/zclconf/go-cty/cty"
	"github.com/zclconf/go-cty/cty/convert"
	ctyjson "github.com/zclconf/go-cty/cty/json"
	"github.com/zclconf/go-cty/cty/msgpack"
	"github.com/zclconf/go-cty/cty/set"
	"verifharness/internal/cq"
	"verifharness/internal/gt"
	"verifharness/internal/gv"
	"verifharness/internal/rng"
)

func init() {
	register(&Prop{ID: "C20", Imports: "Base Heap", CaseType: "k20", Check: "k20_check", PropFn: "k20_prop", Gen: genC20})
}

// ---------- integer sets with a chosen hash: the generic set algorithm itself ----------
type modRules struct{ m int }

func (r modRules) Hash(v int) int           { return ((v % r.m) + r.m) % r.m }
func (r modRules) Equivalent(a, b int) bool { return a == b }
func (r modRules) SameRules(o set.Rules[int]) bool {
	x, ok := o.(modRules)
	return ok && x.m == r.m
}

func setView(s set.Set[int]) string {
	var bs []string
	for _, b := range set.VerifBuckets(s) {
		var ms []string
		for _, m := range b.Members {
			ms = append(ms, cq.Z(int64(m)))
		}
		bs = append(bs, cq.Pair(cq.Z(int64(b.Hash)), cq.List(ms)))
	}
	return cq.List(bs)
}

func c20SetHistory(c *Ctx, r *rng.R) {
	m := 1 + r.Intn(3)
	sets := []set.Set[int]{set.NewSet[int](modRules{m})}
	var ops, desc []string
	n := 4 + r.Intn(14)
	for k := 0; k < n; k++ {
		i := r.Intn(len(sets))
		before := make([]string, len(sets))
		for j := range sets {
			before[j] = setView(sets[j])
		}
		op := r.Intn(10)
		v := r.Intn(9)
		target := i
		switch {
		case op < 6:
			sets[i].Add(v)
			ops = append(ops, fmt.Sprintf("KAdd %d %s", i, cq.Z(int64(v))))
			desc = append(desc, fmt.Sprintf("s%d.Add(%d)", i, v))
		case op < 8:
			sets[i].Remove(v)
			ops = append(ops, fmt.Sprintf("KRemove %d %s", i, cq.Z(int64(v))))
			desc = append(desc, fmt.Sprintf("s%d.Remove(%d)", i, v))
		default:
			if len(sets) < 4 {
				sets = append(sets, sets[i].Copy())
				ops = append(ops, fmt.Sprintf("KCopy %d", i))
				desc = append(desc, fmt.Sprintf("s%d := s%d.Copy()", len(sets)-1, i))
				target = -1
			} else {
				sets[i].Add(v)
				ops = append(ops, fmt.Sprintf("KAdd %d %s", i, cq.Z(int64(v))))
				desc = append(desc, fmt.Sprintf("s%d.Add(%d)", i, v))
			}
		}
		c.Count("oracle_evals")
		for j := range before {
			if j != target && setView(sets[j]) != before[j] {
				c.Fail("C20/set-copy-not-isolated", fmt.Sprintf("%s changed set s%d: %s -> %s", desc[len(desc)-1], j, before[j], setView(sets[j])),
					map[string]interface{}{"history": strings.Join(desc, "; "), "hash": fmt.Sprintf("v mod %d", m)})
				k = n
				break
			}
		}
	}
	var views []string
	for j := range sets {
		views = append(views, setView(sets[j]))
	}
	c.Add("set-history", fmt.Sprintf("K20_history %s true %s %s", cq.Z(int64(m)), cq.List(ops), cq.List(views)),
		map[string]interface{}{"history": strings.Join(desc, "; "), "hash": fmt.Sprintf("v mod %d", m)}, true)
}

// ---------- fingerprints of live values ----------
// fingerprint: a deterministic deep dump: the value without marks, then the marks by path, sorted
// (GoString prints mark sets in Go map order)
func fingerprint(v cty.Value) string {
	var s string
	if p, _ := recovered(func() {
		u, pms := v.UnmarkDeepWithPaths()
		var ms []string
		for _, pm := range pms {
			var names []string
			for m := range pm.Marks {
				names = append(names, fmt.Sprintf("%#v", m))
			}
			sort.Strings(names)
			ms = append(ms, fmt.Sprintf("%#v=%s", pm.Path, strings.Join(names, ",")))
		}
		sort.Strings(ms)
		s = fmt.Sprintf("%#v|%#v|%s", u, v.Type(), strings.Join(ms, ";"))
	}); p {
		return "PANIC"
	}
	return s
}

type live struct {
	name string
	v    cty.Value
	fp   string
}

func checkLive(c *Ctx, lives []live, step string, history []string) bool {
	for _, l := range lives {
		if fp := fingerprint(l.v); fp != l.fp {
			c.Fail("C20/value-changed", fmt.Sprintf("after %s the value %s reports %s; before: %s", step, l.name, trunc(fp, 300), trunc(l.fp, 300)),
				map[string]interface{}{"history": strings.Join(history, "; ")})
			return false
		}
	}
	return true
}

// one history over values: operations, accessors followed by mutation of what they returned,
// constructors followed by mutation of what they were given, value-set helpers
func c20ValueHistory(c *Ctx, r *rng.R) {
	cfg := gv.DefaultCfg
	cfg.UnkPct, cfg.NullPct, cfg.MarkPct = 12, 6, 8
	var lives []live
	var history []string
	add := func(name string, v cty.Value) {
		lives = append(lives, live{name, v, fingerprint(v)})
	}
	for k := 0; k < 3; k++ {
		add(fmt.Sprintf("v%d", k), gv.Gen(r, gt.Gen(r, gt.Cfg{Depth: 2, MaxWidth: 3}), cfg, 3))
	}
	// paths and path sets are values too: deriving from one must not disturb another
	type livePath struct {
		name string
		p    cty.Path
		fp   string
	}
	var paths []livePath
	pset := cty.NewPathSet()
	var psetFP string
	pfp := func(p cty.Path) string { return fmt.Sprintf("%#v", p) }
	psfp := func() string {
		var l []string
		for _, p := range pset.List() {
			l = append(l, pfp(p))
		}
		sort.Strings(l)
		return strings.Join(l, ";")
	}
	addPath := func(name string, p cty.Path) { paths = append(paths, livePath{name, p, pfp(p)}) }
	checkPaths := func(step string) bool {
		for _, lp := range paths {
			if got := pfp(lp.p); got != lp.fp {
				c.Fail("C20/path-changed", fmt.Sprintf("after %s the path %s reads %s; before: %s", step, lp.name, got, lp.fp), map[string]interface{}{"history": strings.Join(history, "; ")})
				return false
			}
		}
		if got := psfp(); got != psetFP {
			c.Fail("C20/path-changed", fmt.Sprintf("after %s the path set holds %s; before: %s", step, got, psetFP), map[string]interface{}{"history": strings.Join(history, "; ")})
			return false
		}
		return true
	}
	{
		base := cty.GetAttrPath("a")
		for k, m := 0, r.Intn(7); k < m; k++ {
			if r.Bool() {
				base = base.GetAttr(fmt.Sprintf("b%d", k))
			} else {
				base = base.IndexInt(k)
			}
		}
		addPath("base", base)
		// siblings: several children of the same parent by each deriving method; each one stays what it was when the
		// next is made (a parent with spare capacity must not lend it to its children)
		for k := 0; k < 2; k++ {
			addPath(fmt.Sprintf("base/attr%d", k), base.GetAttr(fmt.Sprintf("s%d", k)))
			addPath(fmt.Sprintf("base/int%d", k), base.IndexInt(k))
			addPath(fmt.Sprintf("base/str%d", k), base.IndexString(fmt.Sprintf("k%d", k)))
			addPath(fmt.Sprintf("base/idx%d", k), base.Index(cty.NumberIntVal(int64(10+k))))
		}
		psetFP = psfp()
	}
	n := 6 + r.Intn(10)
	for k := 0; k < n; k++ {
		l := lives[r.Intn(len(lives))]
		v := l.v
		step := ""
		recovered(func() {
			u, _ := v.UnmarkDeep()
			switch r.Intn(19) {
			case 16, 17: // children of one parent path, by every deriving method
				parent := paths[r.Intn(len(paths))]
				var child cty.Path
				switch r.Intn(4) {
				case 0:
					child = parent.p.GetAttr(fmt.Sprintf("c%d", k))
				case 1:
					child = parent.p.IndexInt(k)
				case 2:
					child = parent.p.IndexString(fmt.Sprintf("k%d", k))
				default:
					child = parent.p.Index(cty.NumberIntVal(int64(k)))
				}
				addPath(fmt.Sprintf("%s/child%d", parent.name, k), child)
				step = "child of path " + parent.name
			case 18: // path sets: add a live path, copy-free union / subtract results then mutated
				lp := paths[r.Intn(len(paths))]
				pset.Add(lp.p)
				psetFP = psfp()
				u1 := pset.Union(cty.NewPathSet())
				u1.Add(cty.GetAttrPath("only-in-result"))
				u2 := cty.NewPathSet().Union(pset)
				u2.Remove(lp.p)
				step = "path set Add(" + lp.name + "), unions with the empty set mutated"
			case 0:
				if u.IsKnown() && !u.IsNull() && (u.Type().IsListType() || u.Type().IsTupleType() || u.Type().IsSetType()) {
					sl := u.AsValueSlice()
					for i := range sl {
						sl[i] = cty.StringVal("mutated")
					}
					step = l.name + ".AsValueSlice() overwritten"
				}
			case 1:
				if u.IsKnown() && !u.IsNull() && (u.Type().IsMapType() || u.Type().IsObjectType()) {
					mp := u.AsValueMap()
					for kk := range mp {
						mp[kk] = cty.StringVal("mutated")
					}
					if mp != nil {
						mp["added"] = cty.True
					}
					step = l.name + ".AsValueMap() overwritten"
				}
			case 2:
				if u.IsKnown() && !u.IsNull() && u.Type() == cty.Number {
					f := u.AsBigFloat()
					f.SetInt64(424242).SetPrec(7)
					step = l.name + ".AsBigFloat() mutated"
				}
			case 3:
				if mk := v.Marks(); mk != nil {
					mk["injected"] = struct{}{}
					for kk := range mk {
						delete(mk, kk)
						break
					}
					step = l.name + ".Marks() mutated"
				}
			case 4:
				if u.IsKnown() && !u.IsNull() && u.Type().IsSetType() {
					vs := u.AsValueSet()
					vs.Add(gv.Gen(r, gt.FromCtyOrNil(u.Type().ElementType()), gv.KnownCfg, 2))
					for _, x := range vs.Values() {
						vs.Remove(x)
						break
					}
					step = l.name + ".AsValueSet() Add/Remove"
					if r.Bool() {
						add(fmt.Sprintf("fromset%d", k), cty.SetValFromValueSet(vs))
						vs.Add(gv.Gen(r, gt.FromCtyOrNil(u.Type().ElementType()), gv.KnownCfg, 2))
						for _, x := range vs.Values() {
							vs.Remove(x)
						}
						step += "; SetValFromValueSet then the helper set emptied"
					}
				}
			case 5: // constructor given a slice that is then overwritten
				elems := []cty.Value{v, v}
				nv := cty.TupleVal(elems)
				add(fmt.Sprintf("tuple%d", k), nv)
				elems[0] = cty.StringVal("mutated")
				elems[1] = cty.NilVal
				step = "TupleVal(slice) then the slice overwritten"
			case 6:
				if u.IsWhollyKnown() && !v.ContainsMarked() {
					elems := []cty.Value{v, v}
					add(fmt.Sprintf("list%d", k), cty.ListVal(elems))
					add(fmt.Sprintf("set%d", k), cty.SetVal(elems))
					elems[0], elems[1] = cty.StringVal("mutated"), cty.True
					step = "ListVal / SetVal(slice) then the slice overwritten"
				}
			case 7:
				mp := map[string]cty.Value{"a": v, "b": v}
				add(fmt.Sprintf("obj%d", k), cty.ObjectVal(mp))
				add(fmt.Sprintf("map%d", k), cty.MapVal(map[string]cty.Value{"a": v}))
				mp["a"] = cty.StringVal("mutated")
				delete(mp, "b")
				mp["c"] = cty.True
				step = "ObjectVal(map) then the map mutated"
			case 8:
				mk := cty.NewValueMarks("m1", "m2")
				add(fmt.Sprintf("marked%d", k), v.WithMarks(mk))
				mk["m3"] = struct{}{}
				delete(mk, "m1")
				step = "WithMarks(marks) then the mark set mutated"
			case 9: // paths handed out by Walk
				var paths []cty.Path
				cty.Walk(v, func(p cty.Path, x cty.Value) (bool, error) {
					paths = append(paths, p)
					return true, nil
				})
				for _, p := range paths {
					for i := range p {
						p[i] = cty.GetAttrStep{Name: "mutated"}
					}
				}
				step = "paths from Walk(" + l.name + ") overwritten"
			case 10: // refine again (builders work on copies)
				if !u.IsKnown() && u.Type() != cty.DynamicPseudoType {
					nv := v.RefineNotNull()
					add(fmt.Sprintf("refined%d", k), nv)
					if u.Type().IsCollectionType() {
						add(fmt.Sprintf("refinedlen%d", k), v.Refine().CollectionLengthUpperBound(1<<20).NewValue())
					}
					if u.Type() == cty.String {
						add(fmt.Sprintf("refinedpre%d", k), v.Refine().StringPrefixFull(u.Range().StringPrefix()+"x").NewValue())
					}
					if u.Type() == cty.Number {
						add(fmt.Sprintf("refinednum%d", k), v.Refine().NumberRangeUpperBound(cty.NumberIntVal(1<<40), true).NewValue())
					}
					step = l.name + " refined further"
				}
			case 11:
				other := lives[r.Intn(len(lives))].v
				nv := v.Equals(other)
				add(fmt.Sprintf("eq%d", k), nv)
				step = l.name + ".Equals(other)"
			case 12:
				if u.IsKnown() && !u.IsNull() && u.Type().IsCollectionType() {
					add(fmt.Sprintf("len%d", k), v.Length())
					step = l.name + ".Length()"
				}
			case 13:
				nv, _ := cty.Transform(v, func(p cty.Path, x cty.Value) (cty.Value, error) {
					if x.Type() == cty.Bool && x.IsKnown() && !x.IsNull() {
						y, mk := x.Unmark()
						return y.Not().WithMarks(mk), nil
					}
					return x, nil
				})
				add(fmt.Sprintf("tr%d", k), nv)
				step = "Transform(" + l.name + ")"
			case 14:
				if u.IsKnown() && !u.IsNull() && u.Type() == cty.Number {
					other := cty.NumberIntVal(int64(r.Intn(9) + 1))
					add(fmt.Sprintf("sum%d", k), v.Add(other))
					add(fmt.Sprintf("prod%d", k), v.Multiply(other))
					step = l.name + " arithmetic"
				}
			default:
				nv, mk := v.UnmarkDeepWithPaths()
				add(fmt.Sprintf("unmarked%d", k), nv)
				for i := range mk {
					for kk := range mk[i].Marks {
						delete(mk[i].Marks, kk)
					}
					for j := range mk[i].Path {
						mk[i].Path[j] = cty.GetAttrStep{Name: "mutated"}
					}
				}
				add(fmt.Sprintf("remarked%d", k), nv.MarkWithPaths(nil))
				step = l.name + ".UnmarkDeepWithPaths() results mutated"
			}
		})
		if step == "" {
			continue
		}
		history = append(history, step)
		c.Count("oracle_evals")
		if !checkLive(c, lives, step, history) || !checkPaths(step) {
			return
		}
	}
	c.Count("value_histories")
}

// purity: the same call repeated gives the same answer
func c20Purity(c *Ctx, r *rng.R) {
	fn := &stdFns[r.Intn(len(stdFns))]
	args := safeGen(fn, r)
	if r.Bool() {
		args, _ = perturbArgs(r, args)
	}
	var first string
	for k := 0; k < 4; k++ {
		var v cty.Value
		var err error
		p, _ := recovered(func() { v, err = fn.F.Call(args) })
		got := "panic"
		if !p {
			if err != nil {
				got = "error"
			} else {
				got = fingerprintNoBuckets(v)
			}
		}
		if k == 0 {
			first = got
		} else if got != first {
			c.Fail("C20/impure/"+fn.Name, "the same call gives different results: "+trunc(first, 200)+" vs "+trunc(got, 200), map[string]interface{}{"fn": fn.Name, "args": showArgs(args)})
			return
		}
	}
	c.Count("oracle_evals")
}

func fingerprintNoBuckets(v cty.Value) string { return fingerprint(v) }

// c20Types: types are immutable values too. A type with optional attributes below tuples, objects and collections is
// put through everything that reads it (stripping, conformance, conversion, both codecs, JSON of the type); it prints,
// compares and marshals afterwards as it did before, and so does a type built from it earlier.
func c20Types(c *Ctx, r *rng.R) {
	inner := gt.Gen(r, gt.Cfg{Depth: 2, DynPct: 5, OptPct: 60, CapPct: 0, MaxWidth: 3})
	obj := &gt.T{K: gt.Obj, Attrs: []gt.Attr{{Name: "a", T: gt.P(gt.Str)}, {Name: "b", T: inner}}, Opt: []string{"a"}}
	var t *gt.T
	switch r.Intn(4) {
	case 0:
		t = &gt.T{K: gt.Tuple, Elems: []*gt.T{obj, gt.P(gt.Num)}}
	case 1:
		t = &gt.T{K: gt.Tuple, Elems: []*gt.T{{K: gt.List, Elem: obj}, {K: gt.Tuple, Elems: []*gt.T{obj}}}}
	case 2:
		t = &gt.T{K: gt.Obj, Attrs: []gt.Attr{{Name: "t", T: &gt.T{K: gt.Tuple, Elems: []*gt.T{obj}}}}}
	default:
		t = &gt.T{K: gt.Map, Elem: &gt.T{K: gt.Tuple, Elems: []*gt.T{gt.P(gt.Bool), obj}}}
	}
	ty := t.Build()
	derived := cty.List(ty)
	twin := t.Build() // built separately from the same description
	show := func(x cty.Type) string {
		js, _ := x.MarshalJSON()
		return fmt.Sprintf("%#v|%s", x, js)
	}
	before, beforeD := show(ty), show(derived)
	desc := map[string]interface{}{"type": t.String()}
	step := func(name string, f func()) bool {
		recovered(f)
		c.Count("oracle_evals")
		if after := show(ty); after != before || show(derived) != beforeD || !ty.Equals(twin) || !twin.Equals(ty) {
			c.Fail("C20/type-changed", fmt.Sprintf("after %s the type prints %s; before: %s (equal to its twin: %v)", name, trunc(after, 300), trunc(before, 300), ty.Equals(twin)), desc)
			return false
		}
		return true
	}
	stripped := ty.WithoutOptionalAttributesDeep()
	val := gv.Gen(r, gt.Strip(t), gv.KnownCfg, 2)
	_ = stripped
	steps := []struct {
		name string
		f    func()
	}{
		{"WithoutOptionalAttributesDeep", func() { ty.WithoutOptionalAttributesDeep() }},
		{"WithoutOptionalAttributesDeep of a type built from it", func() { derived.WithoutOptionalAttributesDeep() }},
		{"TestConformance", func() { stripped.TestConformance(ty); ty.TestConformance(stripped) }},
		{"convert.Convert with it as the target", func() { convert.Convert(val, ty) }},
		{"convert.Convert of an unknown with it as the target", func() { convert.Convert(cty.UnknownVal(stripped), ty) }},
		{"json Marshal / Unmarshal with it as the constraint", func() {
			if b, err := ctyjson.Marshal(val, ty); err == nil {
				ctyjson.Unmarshal(b, ty)
			}
		}},
		{"msgpack Marshal / Unmarshal with it as the constraint", func() {
			if b, err := msgpack.Marshal(val, ty); err == nil {
				msgpack.Unmarshal(b, ty)
			}
		}},
		{"Equals / HasDynamicTypes / FriendlyName", func() { ty.Equals(stripped); ty.HasDynamicTypes(); ty.FriendlyName() }},
	}
	for _, k := range r.Perm(len(steps)) {
		if !step(steps[k].name, steps[k].f) {
			return
		}
	}
}

func genC20(c *Ctx, r *rng.R, i int) {
	if i%7 == 3 {
		c20Types(c, r)
		return
	}
	switch {
	case i%3 == 0:
		c20SetHistory(c, r)
	case i%3 == 1:
		c20ValueHistory(c, r)
	default:
		c20Purity(c, r)
	}
}

// ---------- concurrency: the same read-only workloads from many goroutines, under the race detector ----------
// `vh race20 -seed S -n N`: builds shared values, computes each workload's results sequentially, then runs
// them from 2..16 goroutines and compares. Run from a binary built with -race; a detected race makes the
// runtime print a report and exit with status 66.
func race20(seed uint64, n int) int {
	root := rng.New(seed)
	bad := 0
	for it := 0; it < n; it++ {
		r := root.Fork(uint64(it))
		cfg := gv.DefaultCfg
		cfg.UnkPct, cfg.NullPct, cfg.MarkPct = 12, 6, 8
		var shared []cty.Value
		for k := 0; k < 4; k++ {
			shared = append(shared, gv.Gen(r, gt.Gen(r, gt.Cfg{Depth: 2, MaxWidth: 3}), cfg, 3))
		}
		sharedTy := shared[0].Type()
		work := func(w *rng.R) string {
			var sb strings.Builder
			for k := 0; k < 12; k++ {
				a, b := shared[w.Intn(len(shared))], shared[w.Intn(len(shared))]
				recovered(func() {
					switch w.Intn(12) {
					case 0:
						sb.WriteString(fingerprintNoBuckets(a.Equals(b)))
					case 1:
						sb.WriteString(fmt.Sprintf("%v", a.RawEquals(b)))
					case 2:
						sb.WriteString(fmt.Sprintf("%d", a.Hash()))
					case 3:
						u, _ := a.UnmarkDeep()
						if u.IsKnown() && !u.IsNull() && u.CanIterateElements() {
							for it := u.ElementIterator(); it.Next(); {
								kx, vx := it.Element()
								sb.WriteString(fingerprintNoBuckets(kx) + fingerprintNoBuckets(vx))
							}
						}
					case 4:
						sb.WriteString(fingerprintNoBuckets(a.RefineNotNull()))
					case 5:
						u, _ := a.UnmarkDeep()
						if !u.IsKnown() && u.Type().IsCollectionType() {
							sb.WriteString(fingerprintNoBuckets(u.Refine().CollectionLengthUpperBound(7).NewValue()))
						}
					case 6:
						sb.WriteString(fmt.Sprintf("%#v", a.Type().Equals(sharedTy)))
						sb.WriteString(a.Type().FriendlyName())
					case 7:
						cty.Walk(a, func(p cty.Path, x cty.Value) (bool, error) {
							sb.WriteString(fmt.Sprintf("%d", len(p)))
							return true, nil
						})
					case 8:
						u, _ := a.UnmarkDeep()
						if u.IsKnown() && !u.IsNull() && u.Type().IsSetType() {
							vs := u.AsValueSet()
							vs.Add(cty.UnknownVal(u.Type().ElementType()))
							sb.WriteString(fmt.Sprintf("%d", vs.Length()))
						}
					case 9:
						u, _ := a.UnmarkDeep()
						if u.IsKnown() && !u.IsNull() && u.Type() == cty.Number {
							f := u.AsBigFloat()
							f.Add(f, big.NewFloat(1))
							sb.WriteString(fingerprintNoBuckets(u.Add(cty.NumberIntVal(1))))
						}
					case 10:
						sb.WriteString(fingerprintNoBuckets(cty.TupleVal([]cty.Value{a, b})))
					default:
						sb.WriteString(fmt.Sprintf("%v", a.Range().DefinitelyNotNull() == b.Range().DefinitelyNotNull()))
					}
				})
			}
			return sb.String()
		}
		g := 2 + r.Intn(15)
		want := make([]string, g)
		for k := 0; k < g; k++ {
			want[k] = work(r.Fork(uint64(1000 + k)))
		}
		got := make([]string, g)
		var wg sync.WaitGroup
		for k := 0; k < g; k++ {
			wg.Add(1)
			go func(k int) {
				defer wg.Done()
				got[k] = work(r.Fork(uint64(1000 + k)))
			}(k)
		}
		wg.Wait()
		if !reflect.DeepEqual(want, got) {
			bad++
			fmt.Fprintf(os.Stdout, "DIFF iteration=%d goroutines=%d: concurrent results differ from the sequential ones\n", it, g)
		}
	}
	fmt.Fprintf(os.Stdout, "race20: %d iterations, %d with differing results\n", n, bad)
	if bad > 0 {
		return 1
	}
	return 0
}
