package main

import (
	"fmt"
	"math/big"
	"strings"

	"github.com/zclconf/go-cty/cty"
	"verifharness/internal/cq"
	"verifharness/internal/gt"
	"verifharness/internal/gv"
	"verifharness/internal/rng"
)

func init() {
	register(&Prop{ID: "C03", Imports: "Base Ty BigFloat Value Ops Refine KOps SetOps K03", CaseType: "k03", Check: "k03_check", Gen: genC03})
}

// reRepresent returns a value equal to v whose numbers are held at another precision.
func reRepresent(r *rng.R, v cty.Value) cty.Value {
	out, err := cty.Transform(v, func(p cty.Path, x cty.Value) (cty.Value, error) {
		if x.Type() == cty.Number && x.IsKnown() && !x.IsNull() && !x.IsMarked() {
			f := x.AsBigFloat()
			if f.IsInf() {
				return cty.NumberVal(new(big.Float).SetPrec(64).SetInf(f.Signbit())), nil
			}
			switch r.Intn(3) {
			case 0:
				if s := f.Text('f', -1); len(s) < 400 {
					return cty.MustParseNumberVal(s), nil
				}
			case 1:
				return cty.NumberVal(new(big.Float).SetPrec(f.Prec() + 64).Set(f)), nil
			default:
				if f.IsInt() {
					if i, acc := f.Int64(); acc == big.Exact {
						return cty.NumberIntVal(i), nil
					}
				}
				g, _ := f.Float64()
				if new(big.Float).SetFloat64(g).Cmp(f) == 0 {
					return cty.NumberFloatVal(g), nil
				}
			}
		}
		return x, nil
	})
	if err != nil {
		return v
	}
	return out
}

// renameKey renames one key of some known, non-empty map inside v (elements untouched).
func renameKey(r *rng.R, v cty.Value) cty.Value {
	done := false
	out, err := cty.Transform(v, func(p cty.Path, x cty.Value) (cty.Value, error) {
		u, ms := x.Unmark()
		if !done && u.Type().IsMapType() && u.IsKnown() && !u.IsNull() && u.LengthInt() > 0 && r.Chance(60) {
			m := u.AsValueMap()
			ks := gv.SortedKeys(m)
			old := ks[r.Intn(len(ks))]
			for _, k := range ks { // prefer a key whose element is null
				if m[k].IsNull() && r.Chance(70) {
					old = k
				}
			}
			for _, nk := range []string{"renamed", "a", "b", "zz", "q"} {
				if _, exists := m[nk]; !exists {
					m[nk] = m[old]
					delete(m, old)
					done = true
					return cty.MapVal(m).WithMarks(ms), nil
				}
			}
		}
		return x, nil
	})
	if err != nil || !done {
		return v
	}
	return out
}

// perturb changes one known primitive leaf of v (or renames a map key).
func perturb(r *rng.R, v cty.Value) cty.Value {
	if r.Chance(30) {
		if w := renameKey(r, v); !w.RawEquals(v) {
			return w
		}
	}
	n := 0
	cty.Walk(v, func(p cty.Path, x cty.Value) (bool, error) {
		if x.IsKnown() && !x.IsNull() && x.Type().IsPrimitiveType() {
			n++
		}
		return true, nil
	})
	if n == 0 {
		return v
	}
	target, k := r.Intn(n), 0
	out, err := cty.Transform(v, func(p cty.Path, x cty.Value) (cty.Value, error) {
		if x.IsKnown() && !x.IsNull() && x.Type().IsPrimitiveType() {
			k++
			if k-1 == target {
				u, ms := x.Unmark()
				switch u.Type() {
				case cty.Bool:
					return u.Not().WithMarks(ms), nil
				case cty.Number:
					if u.AsBigFloat().IsInf() {
						return cty.NumberIntVal(0).WithMarks(ms), nil
					}
					d := []cty.Value{cty.NumberIntVal(1), cty.MustParseNumberVal("0.00000000001"), cty.NumberFloatVal(0.5)}[r.Intn(3)]
					return u.Add(d).WithMarks(ms), nil
				case cty.String:
					return cty.StringVal(u.AsString() + []string{"x", " ", "é"}[r.Intn(3)]).WithMarks(ms), nil
				}
			}
		}
		return x, nil
	})
	if err != nil {
		return v
	}
	return out
}

func safeEquals(a, b cty.Value) (ret cty.Value, p bool) {
	p, _ = recovered(func() { ret = a.Equals(b) })
	return
}

func safeRaw(a, b cty.Value) (ret bool, p bool) {
	p, _ = recovered(func() { ret = a.RawEquals(b) })
	return
}

func resBool(b, p bool) string {
	if p {
		return cq.PanicR
	}
	return cq.Ok(cq.Bool(b))
}

func stringsOK(v cty.Value) bool {
	ok := true
	cty.Walk(v, func(p cty.Path, x cty.Value) (bool, error) {
		u, _ := x.Unmark()
		if u.IsKnown() && !u.IsNull() {
			if u.Type() == cty.String && !quoteOK(u.AsString()) {
				ok = false
			}
			if u.Type().IsMapType() {
				for k := range u.AsValueMap() {
					if !quoteOK(k) {
						ok = false
					}
				}
			}
		}
		return true, nil
	})
	return ok
}

func genC03(c *Ctx, r *rng.R, i int) {
	switch r.Intn(10) {
	case 0, 1, 2, 3:
		c03Pairs(c, r)
	case 4, 5:
		c03Constructor(c, r)
	case 6:
		c03Corpus(c, r, i)
	default:
		c03History(c, r)
	}
}

func k03k(s string) string { return "K03_k (" + s + ")" }

func c03Pairs(c *Ctx, r *rng.R) {
	t := gt.Gen(r, gt.Cfg{Depth: 2, DynPct: 6, OptPct: 0, CapPct: 4, MaxWidth: 3})
	if r.Chance(35) {
		t = gt.P(gt.Num)
	}
	cfg := gv.DefaultCfg
	if r.Chance(50) {
		cfg = gv.KnownCfg
	}
	if r.Chance(12) {
		t = &gt.T{K: gt.Map, Elem: gt.P([]gt.Kind{gt.Str, gt.Num, gt.Bool}[r.Intn(3)])}
		cfg = gv.KnownCfg
		cfg.NullPct = 35
	}
	a := gv.Gen(r, t, cfg, 2)
	var b cty.Value
	rel := ""
	if t.K == gt.Map && r.Chance(60) {
		b, rel = renameKey(r, a), "key-renamed"
	} else {
		switch r.Intn(5) {
		case 0:
			b, rel = a, "same"
		case 1:
			b, rel = reRepresent(r, a), "re-represented"
		case 2:
			b, rel = perturb(r, a), "perturbed"
		case 3:
			b, rel = perturb(r, reRepresent(r, a)), "re-represented+perturbed"
		default:
			b, rel = gv.Gen(r, t, cfg, 2), "independent"
		}
	}
	if r.Chance(10) {
		// two sets of structured members, one wholly known, the other with an unknown inside one member: whatever
		// Equals answers, it answers the same in both directions
		et := []*gt.T{{K: gt.Tuple, Elems: []*gt.T{gt.P(gt.Num), gt.P(gt.Str)}}, {K: gt.List, Elem: gt.P(gt.Num)},
			{K: gt.Obj, Attrs: []gt.Attr{{Name: "a", T: gt.P(gt.Num)}, {Name: "b", T: gt.P(gt.Bool)}}}, {K: gt.Set, Elem: gt.P(gt.Str)}}[r.Intn(4)]
		st := &gt.T{K: gt.Set, Elem: et}
		a = gv.Gen(r, st, gv.KnownCfg, 2)
		b, rel = a, "member-partly-unknown"
		if a.IsKnown() && !a.IsNull() && a.LengthInt() > 0 {
			ms := a.AsValueSlice()
			k := r.Intn(len(ms))
			for try := 0; try < 6; try++ {
				if w := gv.Weaken(r, ms[k], 60, false); !w.RawEquals(ms[k]) && w.IsKnown() {
					ms[k] = w
					break
				}
			}
			if r.Chance(30) {
				ms = append(ms, gv.Gen(r, et, gv.KnownCfg, 1))
			}
			b = cty.SetVal(ms)
		}
	}
	if r.Chance(6) {
		// structures of different shape with a dynamic value inside one of them: whatever Equals answers, it answers
		// the same in both directions (an attribute more, an element more, another key)
		st, n := cty.StringVal, cty.NumberIntVal
		shapes := [][2]cty.Value{
			{cty.ObjectVal(map[string]cty.Value{"a": cty.DynamicVal}), cty.ObjectVal(map[string]cty.Value{"a": st("x"), "b": n(1)})},
			{cty.ObjectVal(map[string]cty.Value{"a": cty.DynamicVal, "b": n(1)}), cty.ObjectVal(map[string]cty.Value{"a": st("x"), "c": n(1)})},
			{cty.TupleVal([]cty.Value{cty.DynamicVal}), cty.TupleVal([]cty.Value{st("x"), n(1)})},
			{cty.TupleVal([]cty.Value{cty.ObjectVal(map[string]cty.Value{"a": cty.DynamicVal})}), cty.TupleVal([]cty.Value{cty.ObjectVal(map[string]cty.Value{"a": n(1), "b": n(2)})})},
			{cty.ObjectVal(map[string]cty.Value{"a": cty.DynamicVal}), cty.ObjectVal(map[string]cty.Value{"a": st("x")})},
		}
		sh := shapes[r.Intn(len(shapes))]
		a, b, rel = sh[0], sh[1], "shape-with-dynamic"
		if r.Bool() {
			a, b = b, a
		}
	}
	if !stringsOK(a) || !stringsOK(b) {
		c.Count("skipped_quote_domain")
		return
	}
	cc := reRepresent(r, b)
	desc := map[string]interface{}{"a": cq.Show(a), "b": cq.Show(b), "rel": rel}
	cls := "pair/" + rel

	rab, pab := safeRaw(a, b)
	rba, pba := safeRaw(b, a)
	c.Add(cls, k03k(fmt.Sprintf("K_raw %s %s %s", cq.Val(a), cq.Val(b), resBool(rab, pab))), desc, true)
	c.Add(cls, k03k(fmt.Sprintf("K_raw %s %s %s", cq.Val(b), cq.Val(a), resBool(rba, pba))), desc, true)
	eab, peab, st1 := stableOp("OEq", []cty.Value{a, b})
	eba, peba, st2 := stableOp("OEq", []cty.Value{b, a})
	if !st1 || !st2 {
		c.Count("skipped_unstable_equals")
		c.Fail("C03/equals-order-dependent", "Equals gives different answers on repeated calls with the same operands (Go map iteration order decides between False and unknown)", desc)
		return
	}
	c.Add(cls, k03k(fmt.Sprintf("K_op OEq %s %s", cq.ValList([]cty.Value{a, b}), cq.ResVal(eab, peab))), desc, true)
	c.Add(cls, k03k(fmt.Sprintf("K_op OEq %s %s", cq.ValList([]cty.Value{b, a}), cq.ResVal(eba, peba))), desc, true)
	c.Count("oracle_evals")
	if pab || pba || peab || peba {
		c.Fail("C03/equality-panic", fmt.Sprintf("RawEquals/Equals panicked (%v %v %v %v)", pab, pba, peab, peba), desc)
		return
	}
	c.wf(eab, "Equals")
	if raa, _ := safeRaw(a, a); !raa {
		c.Fail("C03/raw-reflexive", "RawEquals(a, a) = false", desc)
	}
	if rab != rba {
		c.Fail("C03/raw-symmetric", fmt.Sprintf("RawEquals(a,b)=%v RawEquals(b,a)=%v", rab, rba), desc)
	}
	if rbc, _ := safeRaw(b, cc); rab && rbc {
		if rac, _ := safeRaw(a, cc); !rac {
			c.Fail("C03/raw-transitive", "a~b, b~c but not a~c; c="+cq.Show(cc), desc)
		}
	}
	if !eab.RawEquals(eba) {
		c.Fail("C03/equals-symmetric", fmt.Sprintf("Equals(a,b)=%s Equals(b,a)=%s", cq.Show(eab), cq.Show(eba)), desc)
	}
	ua, _ := a.UnmarkDeep()
	ub, _ := b.UnmarkDeep()
	ueab, _ := eab.Unmark()
	if ua.IsNull() && ub.IsNull() && !(ueab.IsKnown() && ueab.True()) {
		c.Fail("C03/nulls-equal", "two nulls are not equal: "+cq.Show(eab), desc)
	}
	if ua.IsWhollyKnown() && ub.IsWhollyKnown() && ua.Type().Equals(ub.Type()) {
		ue := ua.Equals(ub)
		rr := ua.RawEquals(ub)
		if !ue.IsKnown() || ue.True() != rr {
			sig := "C03/equals-vs-raw"
			c.Fail(sig, fmt.Sprintf("wholly known, same type: Equals=%s RawEquals=%v", cq.Show(ue), rr), desc)
		}
		if ue.IsKnown() && ue.True() {
			ha, pa := safeHash(ua)
			hb, pb := safeHash(ub)
			if !pa && !pb && ha != hb {
				sig := "C03/hash-coherence"
				if numbersDifferOnlyInHashText(ua, ub) {
					sig = "C03/number-hash-text"
				}
				c.Fail(sig, fmt.Sprintf("equal values with different hashes %d / %d", ha, hb), desc)
			}
		}
	}
	for _, v := range []cty.Value{ua, ub} {
		h, p := safeHash(v)
		obs := cq.PanicR
		if !p {
			obs = cq.Ok(cq.Z(int64(h)))
		}
		c.Add("hash", k03k(fmt.Sprintf("K_hash %s %s", cq.Val(v), obs)), map[string]string{"v": cq.Show(v)}, true)
	}
	// numbers: trichotomy with less-than / greater-than
	if ua.Type() == cty.Number && ub.Type() == cty.Number && ua.IsKnown() && ub.IsKnown() && !ua.IsNull() && !ub.IsNull() {
		lt, gtv, eq := ua.LessThan(ub), ua.GreaterThan(ub), ua.Equals(ub)
		c.addOpK03(cls, "OLt", []cty.Value{ua, ub})
		c.addOpK03(cls, "OGt", []cty.Value{ua, ub})
		n := 0
		for _, x := range []cty.Value{lt, gtv, eq} {
			if x.True() {
				n++
			}
		}
		if n != 1 {
			sig := "C03/trichotomy"
			if ua.AsBigFloat().Prec() != ub.AsBigFloat().Prec() && !ua.AsBigFloat().IsInt() {
				sig = "C03/trichotomy-mixed-precision-fraction"
			}
			c.Fail(sig, fmt.Sprintf("lt=%v gt=%v eq=%v for %s, %s", lt.True(), gtv.True(), eq.True(), cq.Show(ua), cq.Show(ub)), desc)
		}
	}
}

func (c *Ctx) addOpK03(class, op string, args []cty.Value) {
	ret, p, _ := runOp(op, args)
	c.Add(class, k03k(fmt.Sprintf("K_op %s %s %s", op, cq.ValList(args), cq.ResVal(ret, p))), map[string]interface{}{"op": op, "args": showAll(args)}, true)
}

func safeHash(v cty.Value) (h int, p bool) {
	p, _ = recovered(func() { h = v.Hash() })
	return
}

// the two values are equal and differ (somewhere) only by numbers whose %.10g texts differ
func numbersDifferOnlyInHashText(a, b cty.Value) bool {
	found := false
	var na, nb []cty.Value
	cty.Walk(a, func(p cty.Path, x cty.Value) (bool, error) {
		if x.Type() == cty.Number && x.IsKnown() && !x.IsNull() {
			na = append(na, x)
		}
		return true, nil
	})
	cty.Walk(b, func(p cty.Path, x cty.Value) (bool, error) {
		if x.Type() == cty.Number && x.IsKnown() && !x.IsNull() {
			nb = append(nb, x)
		}
		return true, nil
	})
	if len(na) != len(nb) {
		return false
	}
	for i := range na {
		if na[i].AsBigFloat().String() != nb[i].AsBigFloat().String() {
			found = true
		}
	}
	return found
}

var elemTypes = []*gt.T{gt.P(gt.Str), gt.P(gt.Num), gt.P(gt.Bool),
	{K: gt.Tuple, Elems: []*gt.T{gt.P(gt.Str), gt.P(gt.Num)}}, {K: gt.List, Elem: gt.P(gt.Num)},
	{K: gt.Obj, Attrs: []gt.Attr{{Name: "a", T: gt.P(gt.Str)}}}, {K: gt.Set, Elem: gt.P(gt.Str)}, {K: gt.Map, Elem: gt.P(gt.Bool)}}

// a small pool of members of one element type (with equal-but-differently-represented and unknown members)
func memberPool(r *rng.R, et *gt.T, withUnknown bool) []cty.Value {
	cfg := gv.KnownCfg
	cfg.NullPct = 6
	if withUnknown {
		cfg.UnkPct = 15
		cfg.RefinePct = 60
	}
	ety := gt.Strip(et).Build()
	var pool []cty.Value
	// members that share hash bytes (numbers equal to 10 significant digits) so that buckets hold several members
	if r.Chance(55) {
		for _, fl := range []float64{1.00000000001, 1.00000000002, 1.00000000003, 1.00000000004} {
			n := cty.NumberFloatVal(fl)
			switch {
			case ety == cty.Number:
				pool = append(pool, n)
			case ety.IsListType() && ety.ElementType() == cty.Number:
				pool = append(pool, cty.ListVal([]cty.Value{n}))
			case ety.IsTupleType() && len(ety.TupleElementTypes()) == 2:
				pool = append(pool, cty.TupleVal([]cty.Value{cty.StringVal("k"), n}))
			}
		}
	}
	for len(pool) < 6 {
		v := gv.Gen(r, et, cfg, 1)
		if !v.Type().Equals(ety) || !stringsOK(v) {
			continue
		}
		pool = append(pool, v)
		if r.Chance(40) {
			pool = append(pool, reRepresent(r, v))
		}
		if len(pool) > 14 {
			break
		}
	}
	return pool
}

func valuesCoq(vs []cty.Value) string {
	items := make([]string, len(vs))
	for i, v := range vs {
		items[i] = cq.Payload(v)
	}
	return cq.List(items)
}

func c03Constructor(c *Ctx, r *rng.R) {
	et := elemTypes[r.Intn(len(elemTypes))]
	withUnk := r.Chance(25)
	pool := memberPool(r, et, withUnk)
	n := 1 + r.Intn(5)
	vs := make([]cty.Value, n)
	for i := range vs {
		vs[i] = pool[r.Intn(len(pool))]
		if r.Chance(8) {
			vs[i] = vs[i].Mark(1 + r.Intn(2))
		}
	}
	var s cty.Value
	p, _ := recovered(func() { s = cty.SetVal(vs) })
	desc := map[string]interface{}{"members": showAll(vs)}
	c.Add("setval", k03k(fmt.Sprintf("K_setval %s %s", cq.ValList(vs), cq.ResVal(s, p))), desc, true)
	if p {
		c.Fail("C03/setval-panic", "SetVal panicked on homogeneous members", desc)
		return
	}
	c.wf(s, "SetVal")
	us, _ := s.Unmark()
	members := us.AsValueSlice()
	c.Add("setval/values", k03k(fmt.Sprintf("K_values %s %s", cq.Val(us), cq.ValList(members))), desc, true)
	c.Count("oracle_evals")
	// never two equal members; every input is a member
	for i := range members {
		for j := i + 1; j < len(members); j++ {
			if e := members[i].Equals(members[j]); e.IsKnown() && e.True() {
				sig := "C03/set-duplicate"
				if numbersDifferOnlyInHashText(members[i], members[j]) {
					sig = "C03/number-hash-text" // KF-C03-1: equal by shortest text, hashed through ten significant digits
				}
				c.Fail(sig, fmt.Sprintf("set holds two equal members %s and %s", cq.Show(members[i]), cq.Show(members[j])), desc)
			}
		}
	}
	if !withUnk {
		for _, v := range vs {
			uv, _ := v.UnmarkDeep()
			found := false
			for _, m := range members {
				if e := m.Equals(uv); e.IsKnown() && e.True() {
					found = true
				}
			}
			if !found {
				c.Fail("C03/set-lost-member", "constructor input is not a member: "+cq.Show(uv), desc)
			}
		}
		// distinct count
		var distinct []cty.Value
		for _, v := range vs {
			uv, _ := v.UnmarkDeep()
			dup := false
			for _, d := range distinct {
				if e := d.Equals(uv); e.IsKnown() && e.True() {
					dup = true
				}
			}
			if !dup {
				distinct = append(distinct, uv)
			}
		}
		if len(distinct) != len(members) {
			sig := "C03/set-distinct-count"
			if anyEqualWithDifferentHash(distinct, vs) {
				sig = "C03/number-hash-text"
			}
			c.Fail(sig, fmt.Sprintf("%d distinct inputs, %d members", len(distinct), len(members)), desc)
		}
		// permutation invariance of contents and iteration order
		perm := r.Perm(n)
		ws := make([]cty.Value, n)
		for i, j := range perm {
			ws[i] = vs[j]
		}
		s2 := cty.SetVal(ws)
		us2, _ := s2.Unmark()
		m2 := us2.AsValueSlice()
		c.Add("setval/perm", k03k(fmt.Sprintf("K_setval %s %s", cq.ValList(ws), cq.ResVal(s2, false))), desc, true)
		if len(m2) == len(members) {
			for i := range members {
				if !members[i].RawEquals(m2[i]) {
					sig := "C03/order-depends-on-insertion"
					if sameHashBytesDistinct(members[i], m2[i]) {
						sig = "C03/order-insertion-among-equal-hash-bytes"
					}
					c.Fail(sig, fmt.Sprintf("iteration order differs between permutations at %d: %s vs %s", i, cq.Show(members[i]), cq.Show(m2[i])), desc)
					break
				}
			}
		} else if len(distinct) == len(members) {
			c.Fail("C03/set-perm-contents", "permuted constructor input gives a different number of members", desc)
		}
	}
}

func anyEqualWithDifferentHash(distinct, vs []cty.Value) bool {
	for _, a := range vs {
		for _, b := range vs {
			ua, _ := a.UnmarkDeep()
			ub, _ := b.UnmarkDeep()
			if e := ua.Equals(ub); e.IsKnown() && e.True() {
				ha, pa := safeHash(ua)
				hb, pb := safeHash(ub)
				if !pa && !pb && ha != hb && numbersDifferOnlyInHashText(ua, ub) {
					return true
				}
			}
		}
	}
	return false
}

// both values have the same %.10g-based hash text although they are not RawEquals
func sameHashBytesDistinct(a, b cty.Value) bool {
	ha, pa := safeHash(a)
	hb, pb := safeHash(b)
	return !pa && !pb && ha == hb && !a.RawEquals(b)
}

// ---- histories ----
type reg struct {
	s cty.ValueSet
}

func c03History(c *Ctx, r *rng.R) {
	et := elemTypes[r.Intn(len(elemTypes))]
	ety := gt.Strip(et).Build()
	withUnk := r.Chance(20)
	pool := memberPool(r, et, withUnk)
	other := cty.StringVal("wrong-type")
	if ety == cty.String {
		other = cty.NumberIntVal(1)
	}
	var regs []cty.ValueSet
	var model [][]cty.Value // oracle: members modulo Equals
	var ops, obs []string
	var hdesc []string
	copied := false
	steps := 3 + r.Intn(14)
	if c.Tier == "thorough" {
		steps = 3 + r.Intn(28)
	}
	has := func(m []cty.Value, v cty.Value) bool {
		for _, x := range m {
			if e := x.Equals(v); e.IsKnown() && e.True() {
				return true
			}
		}
		return false
	}
	push := func(s cty.ValueSet, m []cty.Value) {
		regs = append(regs, s)
		model = append(model, m)
	}
	ops = append(ops, "SNew")
	obs = append(obs, "ObsNone")
	push(cty.NewValueSet(ety), nil)
	hdesc = append(hdesc, "new")
	kfc031 := anyEqualWithDifferentHash(pool, pool)
	fail := func(sig, msg string) {
		if kfc031 && (sig == "C03/set-contents" || sig == "C03/set-membership") {
			// the pool holds two members that are equal (same shortest text) and hashed apart: the set keeps both, the
			// mathematical set one; that is KF-C03-1, whatever operation shows it
			sig = "C03/number-hash-text"
		}
		c.Fail(sig, msg, map[string]interface{}{"elem": et.String(), "history": strings.Join(hdesc, "; ")})
	}
	// scripted scenario (bucket sharing between copies): several members with equal hash bytes, a copy, then a removal
	var script []int
	var cluster []cty.Value
	for _, v := range pool {
		for _, w := range pool {
			if !v.RawEquals(w) && sameHashBytesDistinct(v, w) && len(cluster) < 3 {
				dup := false
				for _, x := range cluster {
					if x.RawEquals(v) {
						dup = true
					}
				}
				if !dup {
					cluster = append(cluster, v)
				}
			}
		}
	}
	if len(cluster) >= 2 && r.Chance(60) {
		script = []int{0, 0, 0, 7, 4, 9, 9}
	} else if r.Chance(35) {
		// results of the algebra with an empty operand are sets of their own: fill r0, make an empty r1 = r0 - r0,
		// combine r0 with r1 (either way round), change the result, read r0 and the result again
		script = []int{0, 0, 100, 101, 102, 103, 109, 110, 109}
		cluster = []cty.Value{pool[r.Intn(len(pool))], pool[r.Intn(len(pool))]}
		if steps < len(script) {
			steps = len(script)
		}
	}
	forceKind := -1
	for k := 0; k < steps; k++ {
		i := r.Intn(len(regs))
		j := r.Intn(len(regs))
		v := pool[r.Intn(len(pool))]
		forced := -1
		forceKind = -1
		if k < len(script) && script[k] >= 100 {
			switch script[k] {
			case 100:
				forced, i, j, forceKind = 8, 0, 0, 2
			case 101:
				forced, forceKind = 8, r.Intn(4)
				i, j = 0, len(regs)-1
				if r.Bool() && forceKind != 2 {
					i, j = j, i
				}
			case 102:
				forced, i = 0, len(regs)-1
			case 103:
				forced, i, v = 4, len(regs)-1, cluster[0]
			case 109:
				forced, i = 9, []int{0, len(regs) - 1}[k%2]
			case 110:
				forced, i = 10, 0
			}
		} else if k < len(script) {
			forced = script[k]
			if forced == 0 {
				i, v = 0, cluster[k%len(cluster)]
			}
			if forced == 7 {
				i = 0
			}
			if forced == 4 {
				i, v = r.Intn(len(regs)), cluster[0]
			}
			if forced == 9 {
				i = k % len(regs)
			}
		}
		if r.Chance(4) {
			v = other
		}
		if r.Chance(3) {
			v = v.Mark(1)
		}
		op := r.Intn(12)
		if forced >= 0 {
			op = forced
		}
		switch op {
		case 0, 1, 2, 3: // Add
			if copied {
				// bucket arrays may be shared between copies (C20): do not append into spare capacity
				hz := false
				if h, p := safeHash(v); !p {
					for _, b := range cty.VerifValueSetBuckets(regs[i]) {
						if b.Hash == h && b.Cap > b.Len {
							hz = true
						}
					}
				}
				if hz {
					c.Count("skipped_shared_bucket_hazard")
					continue
				}
			}
			p, _ := recovered(func() { regs[i].Add(v) })
			ops = append(ops, fmt.Sprintf("SAdd %d%%nat %s", i, cq.Val(v)))
			hdesc = append(hdesc, fmt.Sprintf("r%d.Add(%s)", i, cq.Show(v)))
			if p {
				obs = append(obs, "ObsPanic")
			} else {
				obs = append(obs, "ObsNone")
				if !has(model[i], v) {
					model[i] = append(append([]cty.Value{}, model[i]...), v)
				}
			}
		case 4: // Remove
			p, _ := recovered(func() { regs[i].Remove(v) })
			ops = append(ops, fmt.Sprintf("SRemove %d%%nat %s", i, cq.Val(v)))
			hdesc = append(hdesc, fmt.Sprintf("r%d.Remove(%s)", i, cq.Show(v)))
			if p {
				obs = append(obs, "ObsPanic")
			} else {
				obs = append(obs, "ObsNone")
				var nm []cty.Value
				for _, x := range model[i] {
					if e := x.Equals(v); !(e.IsKnown() && e.True()) {
						nm = append(nm, x)
					}
				}
				model[i] = nm
			}
		case 5, 6: // Has
			var h bool
			p, _ := recovered(func() { h = regs[i].Has(v) })
			ops = append(ops, fmt.Sprintf("SHas %d%%nat %s", i, cq.Val(v)))
			hdesc = append(hdesc, fmt.Sprintf("r%d.Has(%s)", i, cq.Show(v)))
			if p {
				obs = append(obs, "ObsPanic")
			} else {
				obs = append(obs, "ObsBool "+cq.Bool(h))
				if !withUnk && h != has(model[i], v) {
					fail("C03/set-membership", fmt.Sprintf("Has = %v, mathematical set says %v", h, has(model[i], v)))
				}
			}
		case 7: // Copy
			push(regs[i].Copy(), model[i])
			copied = true
			ops = append(ops, fmt.Sprintf("SCopy %d%%nat", i))
			obs = append(obs, "ObsNone")
			hdesc = append(hdesc, fmt.Sprintf("r%d = r%d.Copy()", len(regs)-1, i))
		case 8: // algebra
			kind := r.Intn(4)
			if forceKind >= 0 {
				kind = forceKind
			}
			var s cty.ValueSet
			var m []cty.Value
			name := []string{"SUnion", "SInter", "SSub", "SSym"}[kind]
			switch kind {
			case 0:
				s = regs[i].Union(regs[j])
				m = append([]cty.Value{}, model[i]...)
				for _, x := range model[j] {
					if !has(m, x) {
						m = append(m, x)
					}
				}
			case 1:
				s = regs[i].Intersection(regs[j])
				for _, x := range model[i] {
					if has(model[j], x) {
						m = append(m, x)
					}
				}
			case 2:
				s = regs[i].Subtract(regs[j])
				for _, x := range model[i] {
					if !has(model[j], x) {
						m = append(m, x)
					}
				}
			default:
				s = regs[i].SymmetricDifference(regs[j])
				for _, x := range model[i] {
					if !has(model[j], x) {
						m = append(m, x)
					}
				}
				for _, x := range model[j] {
					if !has(model[i], x) {
						m = append(m, x)
					}
				}
			}
			push(s, m)
			ops = append(ops, fmt.Sprintf("%s %d%%nat %d%%nat", name, i, j))
			obs = append(obs, "ObsNone")
			hdesc = append(hdesc, fmt.Sprintf("r%d = r%d.%s(r%d)", len(regs)-1, i, name[1:], j))
		case 9: // Values
			vals := regs[i].Values()
			ops = append(ops, fmt.Sprintf("SValues %d%%nat", i))
			obs = append(obs, "ObsVals "+valuesCoq(vals))
			hdesc = append(hdesc, fmt.Sprintf("r%d.Values()", i))
			if !withUnk {
				if len(vals) != len(model[i]) {
					fail("C03/set-contents", fmt.Sprintf("Values() has %d members, mathematical set %d", len(vals), len(model[i])))
				}
				for _, x := range vals {
					if !has(model[i], x) {
						fail("C03/set-contents", "Values() holds a non-member "+cq.Show(x))
					}
				}
			}
		case 10: // Length
			ops = append(ops, fmt.Sprintf("SLen %d%%nat", i))
			obs = append(obs, "ObsLen "+cq.Z(int64(regs[i].Length())))
			hdesc = append(hdesc, fmt.Sprintf("r%d.Length()", i))
			if !withUnk && regs[i].Length() != len(model[i]) {
				fail("C03/set-contents", fmt.Sprintf("Length() = %d, mathematical set %d", regs[i].Length(), len(model[i])))
			}
		default: // SetValFromValueSet
			sv := cty.SetValFromValueSet(regs[i])
			c.wf(sv, "SetValFromValueSet")
			ops = append(ops, fmt.Sprintf("SToVal %d%%nat", i))
			obs = append(obs, "ObsVals "+valuesCoq(sv.AsValueSlice()))
			hdesc = append(hdesc, fmt.Sprintf("SetValFromValueSet(r%d)", i))
		}
	}
	c.Count("oracle_evals")
	finals := make([]string, len(regs))
	for i, s := range regs {
		var bs []string
		for _, b := range cty.VerifValueSetBuckets(s) {
			ms := make([]string, len(b.Members))
			for k, m := range b.Members {
				ms[k] = cq.Payload(m)
			}
			bs = append(bs, cq.Pair(cq.Z(int64(b.Hash)), cq.List(ms)))
		}
		finals[i] = cq.List(bs)
	}
	cls := "history/" + et.String()
	if withUnk {
		cls += "+unknown"
	}
	c.Add(cls, fmt.Sprintf("K03_hist %s %s %s %s", cq.Ty(ety), cq.List(ops), cq.List(obs), cq.List(finals)),
		map[string]interface{}{"elem": et.String(), "history": hdesc}, true)
}

// corpus: the witnesses of the recorded findings, re-run on every check
func c03Corpus(c *Ctx, r *rng.R, i int) {
	a := cty.NumberFloatVal(0.12345678905)
	b := cty.MustParseNumberVal("0.12345678905")
	desc := map[string]interface{}{"a": cq.Show(a), "b": cq.Show(b)}
	c.Count("oracle_evals")
	if a.RawEquals(b) && a.Hash() != b.Hash() {
		c.Fail("C03/number-hash-text", "0.12345678905 as float64 and parsed at 512 bits: RawEquals true, hashes differ", desc)
	}
	c.Add("corpus/number-hash", k03k(fmt.Sprintf("K_hash %s %s", cq.Val(a), cq.Ok(cq.Z(int64(a.Hash()))))), desc, true)
	c.Add("corpus/number-hash", k03k(fmt.Sprintf("K_hash %s %s", cq.Val(b), cq.Ok(cq.Z(int64(b.Hash()))))), desc, true)
	s := cty.SetVal([]cty.Value{a, b})
	c.Add("corpus/number-hash", k03k(fmt.Sprintf("K_setval %s %s", cq.ValList([]cty.Value{a, b}), cq.ResVal(s, false))), desc, true)
	// same value at two precisions: neither less, greater nor equal
	x := cty.NumberFloatVal(0.1)
	y := cty.NumberVal(new(big.Float).SetPrec(512).SetFloat64(0.1))
	if !x.LessThan(y).True() && !x.GreaterThan(y).True() && !x.Equals(y).True() {
		c.Fail("C03/trichotomy-mixed-precision-fraction", "0.1 (float64) held at 53 and at 512 bits: not less, not greater, not equal", map[string]string{"x": cq.Show(x), "y": cq.Show(y)})
	}
	c.addOpK03("corpus/trichotomy", "OEq", []cty.Value{x, y})
	c.addOpK03("corpus/trichotomy", "OLt", []cty.Value{x, y})
	z := cty.MustParseNumberVal("0.1")
	if x.Equals(z).True() && (x.LessThan(z).True() || x.GreaterThan(z).True()) {
		c.Fail("C03/trichotomy-mixed-precision-fraction", "0.1 as float64 and parsed: equal and also ordered", map[string]string{"x": cq.Show(x), "z": cq.Show(z)})
	}
	c.addOpK03("corpus/trichotomy", "OEq", []cty.Value{x, z})
	c.addOpK03("corpus/trichotomy", "OGt", []cty.Value{x, z})
}
