package main

import (
	"fmt"
	"strings"

	"github.com/apparentlymart/go-textseg/v15/textseg"
	"github.com/zclconf/go-cty/cty"
	"github.com/zclconf/go-cty/cty/ctystrings"
	"golang.org/x/text/unicode/norm"
	"verifharness/internal/cq"
	"verifharness/internal/gv"
	"verifharness/internal/rng"
)

func init() {
	register(&Prop{ID: "C05", Imports: "Base Ty BigFloat Value Ops Refine SafePrefix K05", CaseType: "k05", Check: "k05_check", Gen: genC05})
}

type rcall struct {
	kind string // notnull null lower upper lenlo lenhi prefix
	v    cty.Value
	inc  bool
	n    int
	s    string
}

func (c rcall) coq() string {
	switch c.kind {
	case "notnull":
		return "RcNotNull"
	case "null":
		return "RcNull"
	case "lower":
		return fmt.Sprintf("(RcNumLower %s %s)", cq.Val(c.v), cq.Bool(c.inc))
	case "upper":
		return fmt.Sprintf("(RcNumUpper %s %s)", cq.Val(c.v), cq.Bool(c.inc))
	case "lenlo":
		return fmt.Sprintf("(RcLenLower %s)", cq.Z(int64(c.n)))
	case "lenhi":
		return fmt.Sprintf("(RcLenUpper %s)", cq.Z(int64(c.n)))
	case "prefix":
		return fmt.Sprintf("(RcPrefixFull %s)", cq.Str(c.s))
	}
	panic("rcall")
}

func (c rcall) String() string {
	switch c.kind {
	case "lower", "upper":
		return fmt.Sprintf("%s(%s,%v)", c.kind, cq.Show(c.v), c.inc)
	case "lenlo", "lenhi":
		return fmt.Sprintf("%s(%d)", c.kind, c.n)
	case "prefix":
		return fmt.Sprintf("prefix(%q)", c.s)
	}
	return c.kind
}

func (c rcall) apply(b *cty.RefinementBuilder) *cty.RefinementBuilder {
	switch c.kind {
	case "notnull":
		return b.NotNull()
	case "null":
		return b.Null()
	case "lower":
		return b.NumberRangeLowerBound(c.v, c.inc)
	case "upper":
		return b.NumberRangeUpperBound(c.v, c.inc)
	case "lenlo":
		return b.CollectionLengthLowerBound(c.n)
	case "lenhi":
		return b.CollectionLengthUpperBound(c.n)
	case "prefix":
		return b.StringPrefixFull(c.s)
	}
	panic("rcall")
}

var boundPool = []cty.Value{cty.NumberIntVal(0), cty.NumberIntVal(1), cty.NumberIntVal(2), cty.NumberIntVal(3), cty.NumberIntVal(5), cty.NumberIntVal(-2),
	cty.NumberFloatVal(2.5), cty.MustParseNumberVal("5"), cty.MustParseNumberVal("1.5"), cty.Zero, cty.PositiveInfinity, cty.NegativeInfinity,
	cty.NumberFloatVal(5), cty.UnknownVal(cty.Number), cty.NumberIntVal(4)}

var prefixPool = []string{"", "a", "ab", "abc", "abd", "b", "hello", "hel", "é", "日本", "日", "x y"}

// target: a hidden concrete value the stated constraints are (mostly) true of, so that sequences are
// mostly valid and keep returning to the same bounds (ties: same value with different inclusiveness,
// equal values at different precision); 15% of the calls are unconstrained (malformed stream)
type target struct {
	num cty.Value
	str string
	n   int
}

var numTargets = []cty.Value{cty.NumberIntVal(5), cty.MustParseNumberVal("5"), cty.NumberFloatVal(2.5), cty.NumberIntVal(2), cty.Zero, cty.NumberIntVal(-2)}
var strTargets = []string{"abcd", "hello", "日本語", "ab", ""}

func genCall(r *rng.R, ty cty.Type, t target) rcall {
	k := r.Intn(10)
	wild := r.Chance(15)
	switch {
	case k == 0 && wild:
		return rcall{kind: "null"}
	case k <= 1:
		return rcall{kind: "notnull"}
	case ty == cty.Number || (k == 9 && r.Chance(10)):
		kind := []string{"lower", "upper"}[r.Intn(2)]
		if wild {
			return rcall{kind: kind, v: boundPool[r.Intn(len(boundPool))], inc: r.Bool()}
		}
		// a bound true of the target: at the target itself (inclusive), or strictly beyond it
		same := []cty.Value{t.num, cty.NumberVal(t.num.AsBigFloat()), cty.MustParseNumberVal(t.num.AsBigFloat().Text('f', -1))}
		if r.Chance(45) {
			return rcall{kind: kind, v: same[r.Intn(len(same))], inc: true}
		}
		d := cty.NumberIntVal(int64(1 + r.Intn(2)))
		v := t.num.Subtract(d)
		if kind == "upper" {
			v = t.num.Add(d)
		}
		if r.Chance(10) {
			v = []cty.Value{cty.NegativeInfinity, cty.PositiveInfinity}[map[string]int{"lower": 0, "upper": 1}[kind]]
		}
		if r.Chance(8) {
			v = cty.UnknownVal(cty.Number)
		}
		return rcall{kind: kind, v: v, inc: r.Bool()}
	case ty == cty.String:
		if wild {
			return rcall{kind: "prefix", s: prefixPool[r.Intn(len(prefixPool))]}
		}
		cut := r.Intn(len(t.str) + 1)
		for cut > 0 && cut < len(t.str) && t.str[cut]&0xC0 == 0x80 {
			cut--
		}
		return rcall{kind: "prefix", s: t.str[:cut]}
	case ty.IsCollectionType():
		if wild {
			return rcall{kind: []string{"lenlo", "lenhi"}[r.Intn(2)], n: r.Intn(5)}
		}
		if r.Bool() {
			return rcall{kind: "lenlo", n: r.Intn(t.n + 1)}
		}
		return rcall{kind: "lenhi", n: t.n + r.Intn(3)}
	default:
		if wild {
			return rcall{kind: "lenlo", n: 1}
		}
		return rcall{kind: "notnull"}
	}
}

var baseTypes = []cty.Type{cty.Number, cty.Number, cty.String, cty.Bool, cty.List(cty.String), cty.Set(cty.Number), cty.Map(cty.Bool),
	cty.DynamicPseudoType, cty.EmptyObject, cty.Tuple([]cty.Type{cty.String})}

func candidates(ty cty.Type) []cty.Value {
	var cs []cty.Value
	switch {
	case ty == cty.Number:
		for _, f := range []float64{-3, -2, -1, 0, 0.5, 1, 1.5, 2, 2.5, 3, 4, 5, 5.5, 6, 100} {
			cs = append(cs, cty.NumberFloatVal(f))
		}
		cs = append(cs, cty.NumberIntVal(5), cty.PositiveInfinity, cty.NegativeInfinity, cty.Zero)
	case ty == cty.String:
		for _, s := range []string{"", "a", "ab", "abc", "abcd", "abd", "b", "hello", "help", "é", "日本語", "x y z"} {
			cs = append(cs, cty.StringVal(s))
		}
	case ty == cty.Bool:
		cs = append(cs, cty.True, cty.False)
	case ty.IsListType():
		for n := 0; n <= 5; n++ {
			if n == 0 {
				cs = append(cs, cty.ListValEmpty(ty.ElementType()))
				continue
			}
			vs := make([]cty.Value, n)
			for i := range vs {
				vs[i] = cty.StringVal(fmt.Sprint(i))
			}
			cs = append(cs, cty.ListVal(vs))
		}
	case ty.IsSetType():
		for n := 0; n <= 5; n++ {
			if n == 0 {
				cs = append(cs, cty.SetValEmpty(ty.ElementType()))
				continue
			}
			vs := make([]cty.Value, n)
			for i := range vs {
				vs[i] = cty.NumberIntVal(int64(i))
			}
			cs = append(cs, cty.SetVal(vs))
		}
	case ty.IsMapType():
		for n := 0; n <= 4; n++ {
			if n == 0 {
				cs = append(cs, cty.MapValEmpty(ty.ElementType()))
				continue
			}
			m := map[string]cty.Value{}
			for i := 0; i < n; i++ {
				m[fmt.Sprint("k", i)] = cty.True
			}
			cs = append(cs, cty.MapVal(m))
		}
	case ty.IsObjectType():
		cs = append(cs, cty.EmptyObjectVal)
	case ty.IsTupleType():
		cs = append(cs, cty.TupleVal([]cty.Value{cty.StringVal("x")}))
	}
	if ty != cty.DynamicPseudoType {
		cs = append(cs, cty.NullVal(ty))
	}
	return cs
}

// sat: does the concrete value c satisfy the stated constraint (independent interval / prefix model)?
func (k rcall) sat(c cty.Value) bool {
	switch k.kind {
	case "notnull":
		return !c.IsNull()
	case "null":
		return c.IsNull()
	}
	if c.IsNull() {
		return true // bounds, prefixes and lengths do not speak about null
	}
	switch k.kind {
	case "lower":
		if !k.v.IsKnown() {
			return true
		}
		cmp := c.AsBigFloat().Cmp(k.v.AsBigFloat())
		return cmp > 0 || (k.inc && cmp == 0)
	case "upper":
		if !k.v.IsKnown() {
			return true
		}
		cmp := c.AsBigFloat().Cmp(k.v.AsBigFloat())
		return cmp < 0 || (k.inc && cmp == 0)
	case "lenlo":
		return c.LengthInt() >= k.n
	case "lenhi":
		return c.LengthInt() <= k.n
	case "prefix":
		return strings.HasPrefix(c.AsString(), norm.NFC.String(k.s))
	}
	return true
}

func applicable(k rcall, ty cty.Type) bool {
	switch k.kind {
	case "lower", "upper":
		return ty == cty.Number
	case "lenlo", "lenhi":
		return ty.IsCollectionType()
	case "prefix":
		return ty == cty.String
	}
	return true
}

func safeIncludes(rng cty.ValueRange, c cty.Value) (ret cty.Value, p bool) {
	p, _ = recovered(func() { ret = rng.Includes(c) })
	return
}

func genC05(c *Ctx, r *rng.R, i int) {
	if i < 8 {
		c05Corpus(c, i)
		return
	}
	if r.Chance(22) {
		c05SafePrefix(c, r)
		return
	}
	ty := baseTypes[r.Intn(len(baseTypes))]
	// base value: unrefined unknown, refined unknown, known, null; sometimes marked
	var base cty.Value
	baseKind := ""
	switch r.Intn(6) {
	case 0, 1, 2:
		base, baseKind = cty.UnknownVal(ty), "unknown"
	case 3:
		base, baseKind = gv.RefinedUnknown(r, ty), "refined"
	case 4:
		cs := candidates(ty)
		if len(cs) == 0 {
			base, baseKind = cty.DynamicVal, "unknown"
		} else {
			base, baseKind = cs[r.Intn(len(cs))], "known"
		}
	default:
		base, baseKind = cty.NullVal(ty), "null"
	}
	if r.Chance(8) {
		base = base.Mark(1 + r.Intn(2))
	}
	n := r.Intn(7)
	calls := make([]rcall, n)
	tg := target{num: numTargets[r.Intn(len(numTargets))], str: strTargets[r.Intn(len(strTargets))], n: r.Intn(4)}
	for k := range calls {
		calls[k] = genCall(r, ty, tg)
		if k > 0 && r.Chance(22) {
			// the same bound again with the other inclusiveness, or the same length bound from the other side:
			// the tie-breaks of "is the existing bound already tighter"
			prev := calls[r.Intn(k)]
			switch prev.kind {
			case "lower", "upper":
				calls[k] = prev
				calls[k].inc = !prev.inc
				if r.Chance(25) {
					calls[k].kind = map[string]string{"lower": "upper", "upper": "lower"}[prev.kind]
				}
			case "lenlo", "lenhi":
				calls[k] = prev
				if r.Bool() {
					calls[k].kind = map[string]string{"lenlo": "lenhi", "lenhi": "lenlo"}[prev.kind]
				}
			}
		}
	}
	var result cty.Value
	baseBefore, baseCoq := fingerprint(base), cq.Val(base)
	panicked, pmsg := recovered(func() {
		b := base.Refine()
		for _, k := range calls {
			b = k.apply(b)
		}
		result = b.NewValue()
	})
	// the builder works on a copy: the value it was started from says afterwards what it said before
	if after := fingerprint(base); after != baseBefore || cq.Val(base) != baseCoq {
		c.Fail("C05/builder-changes-base", "refining changed the value the builder was started from: "+trunc(baseBefore, 200)+" -> "+trunc(after, 200), map[string]interface{}{"base": baseBefore})
	}
	coqCalls := make([]string, n)
	shown := make([]string, n)
	for k := range calls {
		coqCalls[k] = calls[k].coq()
		shown[k] = calls[k].String()
	}
	desc := map[string]interface{}{"base": cq.Show(base), "calls": shown}
	if !panicked {
		desc["result"] = cq.Show(result)
		c.wf(result, "NewValue")
	} else {
		desc["result"] = "panic: " + pmsg
	}
	cls := "run/" + baseKind + "/" + strings.SplitN(ty.FriendlyName(), " ", 2)[0]
	c.Add(cls, fmt.Sprintf("K05_run %s %s %s", cq.Val(base), cq.List(coqCalls), cq.ResVal(result, panicked)), desc, n > 0)

	// ---- the property on the implementation (independent model over a candidate pool)
	c.Count("oracle_evals")
	ubase, _ := base.Unmark()
	cands := candidates(ty)
	satAll := func(cv cty.Value) bool {
		// admitted by the original value ...
		if ubase.IsKnown() {
			if !(ubase.Type().Equals(cv.Type()) && ubase.RawEquals(cv)) && !(ubase.IsNull() && cv.IsNull()) {
				if e := ubase.Equals(cv); !(e.IsKnown() && e.True()) {
					return false
				}
			}
		} else if inc, p := safeIncludes(ubase.Range(), cv); !p && inc.IsKnown() && inc.False() {
			return false
		}
		// ... and by every stated constraint
		for _, k := range calls {
			if !k.sat(cv) {
				return false
			}
		}
		return true
	}
	typeOK := true
	for _, k := range calls {
		if !applicable(k, ty) {
			typeOK = false
		}
	}
	if ty == cty.DynamicPseudoType {
		if !ubase.IsKnown() && (panicked || !result.RawEquals(base)) {
			c.Fail("C05/dynamic-not-ignored", "refining the dynamic value changed it or panicked", desc)
		}
		return
	}
	if !typeOK {
		if !panicked {
			c.Fail("C05/inapplicable-accepted", "a refinement that does not apply to the type was accepted", desc)
		}
		return
	}
	anySat, anyNonNull := false, false
	for _, cv := range cands {
		if satAll(cv) {
			anySat = true
		}
		if !cv.IsNull() {
			ok := true
			if !ubase.IsKnown() {
				if inc, p := safeIncludes(ubase.Range(), cv); !p && inc.IsKnown() && inc.False() {
					ok = false
				}
			}
			for _, k := range calls {
				if k.kind != "null" && k.kind != "notnull" && !k.sat(cv) {
					ok = false
				}
			}
			if ok {
				anyNonNull = true
			}
		}
	}
	if panicked {
		if anySat && anyNonNull && !ubase.IsKnown() {
			sig := "C05/spurious-reject"
			c.Fail(sig, "builder rejected constraints that some concrete value satisfies: "+pmsg, desc)
		}
		return
	}
	if !result.Type().Equals(base.Type()) {
		c.Fail("C05/type-changed", "refinement changed the type", desc)
	}
	if !result.HasSameMarks(base) {
		c.Fail("C04/refine-marks", "refinement changed the marks", desc)
	}
	ures, _ := result.Unmark()
	emptyNumeric := ty == cty.Number && numericEmpty(ubase, calls)
	if emptyNumeric && !anySat {
		sig := "C05/empty-range-accepted"
		if farInfinityOnly(calls) {
			sig = "C05/exclusive-bound-at-far-infinity"
		}
		c.Fail(sig, "contradictory numeric bounds were accepted (the stated constraints admit no number)", desc)
		return
	}
	for _, cv := range cands {
		want := satAll(cv)
		cdesc := map[string]interface{}{"base": cq.Show(base), "calls": shown, "result": cq.Show(result), "candidate": cq.Show(cv)}
		if ures.IsKnown() && ures.IsWhollyKnown() {
			e := ures.Equals(cv)
			got := e.IsKnown() && e.True()
			if got != want {
				sig := "C05/known-result-not-exact"
				if want && !got && ty == cty.String {
					sig = "C05/prefix-longer-than-known-value"
				}
				c.Fail(sig, fmt.Sprintf("result became known (%s) but candidate %s satisfies the constraints: %v", cq.Show(ures), cq.Show(cv), want), cdesc)
			}
			continue
		}
		inc, p := safeIncludes(ures.Range(), cv)
		var robs string
		if p {
			robs = cq.PanicR
		} else {
			robs = cq.Ok(cq.Val(inc))
		}
		c.Add("includes", fmt.Sprintf("K05_includes %s %s %s", cq.Val(ures), cq.Val(cv), robs), cdesc, true)
		if p {
			c.Fail("C05/includes-panic", "Includes panicked", cdesc)
			continue
		}
		excluded := inc.IsKnown() && inc.False()
		if want && excluded {
			sig := "C05/widen-or-exclude"
			if ty == cty.Number && isInfinite(cv) {
				sig = "C05/infinity-excluded-by-default-bound"
			}
			c.Fail(sig, fmt.Sprintf("candidate %s satisfies every constraint but the reported range excludes it", cq.Show(cv)), cdesc)
		}
		if !want && !excluded {
			sig := "C05/not-faithful"
			if ty == cty.Number && isInfinite(cv) {
				sig = "C05/infinite-bound-ignored"
			}
			c.Fail(sig, fmt.Sprintf("candidate %s violates a stated constraint but the reported range still admits it", cq.Show(cv)), cdesc)
		}
	}
	// range accessors
	if ty == cty.Number || ty == cty.String || ty.IsCollectionType() {
		rg := ures.Range()
		switch {
		case ty == cty.Number:
			lo, loInc := rg.NumberLowerBound()
			hi, hiInc := rg.NumberUpperBound()
			c.Add("bounds", fmt.Sprintf("K05_bounds %s (Ok (%s, %s)) (Ok (%s, %s))", cq.Val(ures), cq.Val(lo), cq.Bool(loInc), cq.Val(hi), cq.Bool(hiInc)), desc, true)
		case ty == cty.String:
			c.Add("prefix", fmt.Sprintf("K05_prefix %s (Ok %s)", cq.Val(ures), cq.Str(rg.StringPrefix())), desc, true)
		default:
			c.Add("len", fmt.Sprintf("K05_len %s (Ok %s) (Ok %s)", cq.Val(ures), cq.Z(int64(rg.LengthLowerBound())), cq.Z(int64(rg.LengthUpperBound()))), desc, true)
		}
	}
}

// the emptiness comes from "x > +Inf" or "x < -Inf" alone
func farInfinityOnly(calls []rcall) bool {
	for _, k := range calls {
		if (k.kind == "lower" || k.kind == "upper") && k.v.IsKnown() && !k.v.IsNull() && !k.inc && k.v.AsBigFloat().IsInf() {
			if (k.kind == "lower") != k.v.AsBigFloat().Signbit() {
				return true
			}
		}
	}
	return false
}

func isInfinite(v cty.Value) bool {
	return v.IsKnown() && !v.IsNull() && v.Type() == cty.Number && v.AsBigFloat().IsInf()
}

// numericEmpty: do the stated bounds (with the original value's bounds) admit no extended real?
func numericEmpty(base cty.Value, calls []rcall) bool {
	var lo, hi *cty.Value
	loInc, hiInc := true, true
	consider := func(v cty.Value, inc bool, lower bool) {
		if !v.IsKnown() || v.IsNull() {
			return
		}
		if lower {
			if lo == nil || v.GreaterThan(*lo).True() || (v.Equals(*lo).True() && !inc) {
				vv := v
				lo, loInc = &vv, inc && (lo == nil || !v.Equals(*lo).True() || loInc)
			}
		} else {
			if hi == nil || v.LessThan(*hi).True() || (v.Equals(*hi).True() && !inc) {
				vv := v
				hi, hiInc = &vv, inc && (hi == nil || !v.Equals(*hi).True() || hiInc)
			}
		}
	}
	if !base.IsKnown() {
		if r, ok := cty.VerifRefinement(base); ok && r.Kind == "number" {
			if r.HasMin {
				consider(r.Min, r.MinInc, true)
			}
			if r.HasMax {
				consider(r.Max, r.MaxInc, false)
			}
		}
	}
	for _, k := range calls {
		if k.kind == "lower" {
			consider(k.v, k.inc, true)
		}
		if k.kind == "upper" {
			consider(k.v, k.inc, false)
		}
	}
	if lo == nil || hi == nil {
		// a single exclusive bound at the matching infinity is empty too
		if lo != nil && !loInc && lo.AsBigFloat().IsInf() && !lo.AsBigFloat().Signbit() {
			return true
		}
		if hi != nil && !hiInc && hi.AsBigFloat().IsInf() && hi.AsBigFloat().Signbit() {
			return true
		}
		return false
	}
	cmp := lo.AsBigFloat().Cmp(hi.AsBigFloat())
	return cmp > 0 || (cmp == 0 && !(loInc && hiInc))
}

// ---- SafeKnownPrefix ----
var prefixAlphabet = []string{"a", "b", "z", " ", "-", ":", "/", ".", "=", "<", ">", "\u0338", "\u20d2", "e", "́", "̈", "é", "é", "ᄀ", "ᅡ", "ᆨ", "가", "👍", "\U0001F3FD",
	"‍", "👩", "\U0001F1E9", "\U0001F1EA", "\r", "\n", "日", "A", "̊", "Å", "1", "_", "(", "\"", "̧", "c"}

func c05SafePrefix(c *Ctx, r *rng.R) {
	n := r.Intn(7)
	var sb strings.Builder
	for k := 0; k < n; k++ {
		sb.WriteString(prefixAlphabet[r.Intn(len(prefixAlphabet))])
	}
	p := sb.String()
	got := ctystrings.SafeKnownPrefix(p)
	np := norm.NFC.String(p)
	// oracle tables: exactly the points the control flow can visit
	normT := []string{cq.Pair(cq.Str(p), cq.Str(np))}
	lbT := []string{cq.Pair(cq.Str(np), cq.Z(int64(norm.NFC.LastBoundary([]byte(np)))))}
	var clT []string
	remain := []byte(np)
	for len(remain) > 0 {
		adv, _, _ := textseg.ScanGraphemeClusters(remain, false)
		clT = append(clT, cq.Pair(cq.Str(string(remain)), cq.Nat(adv)))
		if adv == 0 {
			break
		}
		remain = remain[adv:]
	}
	desc := map[string]interface{}{"prefix": p, "safe": got}
	c.Add("safeprefix", fmt.Sprintf("K05_safe %s %s %s %s %s", cq.List(normT), cq.List(lbT), cq.List(clT), cq.Str(p), cq.Str(got)), desc, n > 0)
	c.Count("oracle_evals")
	// the property: a byte prefix of the normalised form of every extension (tested on continuations;
	// this also tests the two library laws the theorem assumes)
	for k := 0; k < 40; k++ {
		var cont strings.Builder
		m := 1 + r.Intn(3)
		for j := 0; j < m; j++ {
			cont.WriteString(prefixAlphabet[r.Intn(len(prefixAlphabet))])
		}
		if k < len(prefixAlphabet) {
			cont.Reset()
			cont.WriteString(prefixAlphabet[k])
		}
		full := norm.NFC.String(p + cont.String())
		if !strings.HasPrefix(full, got) {
			c.Fail("C05/safe-prefix-not-prefix", fmt.Sprintf("SafeKnownPrefix(%q)=%q is not a prefix of Normalize(%q)=%q", p, got, p+cont.String(), full), desc)
			break
		}
	}
	c.Count("law_points")
	// library law 1 (boundary law): text before LastBoundary is stable under continuation
	if lb := norm.NFC.LastBoundary([]byte(np)); lb >= 0 {
		for _, cont := range prefixAlphabet {
			if !strings.HasPrefix(norm.NFC.String(p+cont), np[:lb]) {
				c.Fail("C05/boundary-law-violated", fmt.Sprintf("x/text boundary law fails for %q + %q", p, cont), desc)
			}
		}
	}
}

func c05Corpus(c *Ctx, i int) {
	switch i {
	case 0: // exclusive bounds (5,5): empty range accepted
		var res cty.Value
		p, _ := recovered(func() {
			res = cty.UnknownVal(cty.Number).Refine().NumberRangeLowerBound(cty.NumberIntVal(5), false).NumberRangeUpperBound(cty.NumberIntVal(5), false).NewValue()
		})
		calls := []rcall{{kind: "lower", v: cty.NumberIntVal(5), inc: false}, {kind: "upper", v: cty.NumberIntVal(5), inc: false}}
		c.Add("corpus", fmt.Sprintf("K05_run %s %s %s", cq.Val(cty.UnknownVal(cty.Number)), cq.List([]string{calls[0].coq(), calls[1].coq()}), cq.ResVal(res, p)), "exclusive (5,5)", true)
		if !p {
			c.Fail("C05/empty-range-accepted", "x > 5 and x < 5 accepted: the refined value admits no number", "UnknownVal(Number).Refine().NumberRangeLowerBound(5,false).NumberRangeUpperBound(5,false)")
		}
	case 1: // prefix longer than the known value is accepted
		var res cty.Value
		p, _ := recovered(func() { res = cty.StringVal("ab").Refine().StringPrefixFull("abc").NewValue() })
		c.Add("corpus", fmt.Sprintf("K05_run %s %s %s", cq.Val(cty.StringVal("ab")), cq.List([]string{rcall{kind: "prefix", s: "abc"}.coq()}), cq.ResVal(res, p)), "prefix abc on ab", true)
		if !p {
			c.Fail("C05/prefix-longer-than-known-value", "StringVal(\"ab\").Refine().StringPrefixFull(\"abc\") is accepted although \"ab\" does not start with \"abc\"", nil)
		}
	case 2: // default bounds exclusive at infinity
		v := cty.UnknownVal(cty.Number).RefineNotNull()
		inc, p := safeIncludes(v.Range(), cty.NegativeInfinity)
		c.Add("corpus", fmt.Sprintf("K05_includes %s %s %s", cq.Val(v), cq.Val(cty.NegativeInfinity), cq.ResVal(inc, p)), "includes -inf", true)
		if !p && inc.IsKnown() && inc.False() {
			c.Fail("C05/infinity-excluded-by-default-bound", "UnknownVal(Number).RefineNotNull().Range().Includes(-Inf) = False: the unset lower bound is reported exclusive", nil)
		}
	case 3: // exclusive bound at the -Inf singleton is silently ignored
		var res cty.Value
		p, _ := recovered(func() {
			res = cty.UnknownVal(cty.Number).Refine().NotNull().NumberRangeLowerBound(cty.NegativeInfinity, false).NewValue()
		})
		c.Add("corpus", fmt.Sprintf("K05_run %s %s %s", cq.Val(cty.UnknownVal(cty.Number)), cq.List([]string{"RcNotNull", rcall{kind: "lower", v: cty.NegativeInfinity, inc: false}.coq()}), cq.ResVal(res, p)), "x > -inf", true)
	case 6, 7: // an exclusive bound at the infinity on its own side: reported as given, and that infinity is excluded
		v := cty.UnknownVal(cty.Number).Refine().NotNull().NumberRangeLowerBound(cty.NegativeInfinity, false).NewValue()
		cand := cty.NegativeInfinity
		if i == 7 {
			v = cty.UnknownVal(cty.Number).Refine().NumberRangeUpperBound(cty.PositiveInfinity, false).NewValue()
			cand = cty.PositiveInfinity
		}
		rg := v.Range()
		lo, loInc := rg.NumberLowerBound()
		hi, hiInc := rg.NumberUpperBound()
		c.Add("corpus", fmt.Sprintf("K05_bounds %s (Ok (%s, %s)) (Ok (%s, %s))", cq.Val(v), cq.Val(lo), cq.Bool(loInc), cq.Val(hi), cq.Bool(hiInc)), "exclusive bound at its own infinity", true)
		inc, p := safeIncludes(rg, cand)
		c.Add("corpus", fmt.Sprintf("K05_includes %s %s %s", cq.Val(v), cq.Val(cand), cq.ResVal(inc, p)), "includes the excluded infinity", true)
		c.Count("oracle_evals")
		if p || !(inc.IsKnown() && inc.False()) {
			c.Fail("C05/excluded-infinity-admitted", "an exclusive bound at "+cq.Show(cand)+" does not exclude it: Includes answers "+cq.Show(inc), nil)
		}
		eq, pe, _ := runOp("OEq", []cty.Value{v, cand})
		if pe || !(eq.IsKnown() && eq.False()) {
			c.Fail("C05/excluded-infinity-admitted", "an exclusive bound at "+cq.Show(cand)+" does not exclude it: Equals answers "+cq.Show(eq), nil)
		}
	case 4:
		var res cty.Value
		p, _ := recovered(func() {
			res = cty.UnknownVal(cty.Number).Refine().NumberRangeLowerBound(cty.PositiveInfinity, false).NewValue()
		})
		c.Add("corpus", fmt.Sprintf("K05_run %s %s %s", cq.Val(cty.UnknownVal(cty.Number)), cq.List([]string{rcall{kind: "lower", v: cty.PositiveInfinity, inc: false}.coq()}), cq.ResVal(res, p)), "x > +inf", true)
		if !p {
			c.Fail("C05/exclusive-bound-at-far-infinity", "x > +Inf accepted: the refined value admits no number", nil)
		}
	default:
		v := cty.UnknownVal(cty.String).Refine().StringPrefix("key=").NewValue()
		c.Add("corpus", fmt.Sprintf("K05_prefix %s (Ok %s)", cq.Val(v), cq.Str(v.Range().StringPrefix())), "safe prefix key=", true)
	}
}
