package main

import (
	"fmt"

	"github.com/zclconf/go-cty/cty"
	"github.com/zclconf/go-cty/cty/function/stdlib"
	"verifharness/internal/cq"
	"verifharness/internal/rng"
)

func init() {
	register(&Prop{ID: "C13", Imports: "Base Ty BigFloat Value Ops Refine Walk Convert StdRef", CaseType: "k13", Check: "k13_check", Gen: genC13})
}

// negative zero: equal to zero but hashed apart inside sets (KF-C03-1), outside this property's inputs
func hasNegZero(v cty.Value) bool {
	found := false
	recovered(func() {
		cty.Walk(v, func(p cty.Path, x cty.Value) (bool, error) {
			if x.Type() == cty.Number && x.IsKnown() && !x.IsNull() {
				if f := x.AsBigFloat(); f.Sign() == 0 && f.Signbit() {
					found = true
				}
			}
			return true, nil
		})
	})
	return found
}

var c13Names = []string{"Length", "Element", "HasIndex", "Index", "Lookup", "Contains", "Keys", "Values", "Merge", "Concat", "Flatten", "Slice", "Chunklist", "Distinct",
	"Compact", "ReverseList", "Sort", "Zipmap", "Range", "Coalesce", "CoalesceList", "SetHasElement", "SetUnion", "SetIntersection", "SetSubtract", "SetSymmetricDifference", "SetProduct"}

func genC13(c *Ctx, r *rng.R, i int) {
	name := c13Names[i%len(c13Names)]
	fn := stdByName[name]
	args := safeGen(fn, r)
	for _, a := range args {
		if !a.IsWhollyKnown() || a.ContainsMarked() || cty.VerifWellFormed(a) != nil || hasNegZero(a) {
			c.Count("skipped_input")
			return
		}
	}
	desc := map[string]interface{}{"fn": name, "args": showArgs(args)}
	var v cty.Value
	var err error
	p, pm := recovered(func() { v, err = fn.F.Call(args) })
	c.Count("oracle_evals")
	c.Count("fn/" + name)
	if p || isPanicErr(err) {
		c.Fail("C13/"+name+"/panic", "panic: "+trunc(pm, 150), desc)
		return
	}
	if modelable(args) && !hugeCount(args) && (err != nil || (stringsOKSafe(v) && !hasHugeNumber(v))) {
		var argS []string
		for _, a := range args {
			argS = append(argS, cq.Val(a))
		}
		c.Add(name, fmt.Sprintf("K13_call %s %s %s", cq.Str(name), cq.List(argS), resValE(v, err, false)), desc, true)
	} else {
		c.Count("outside_model")
	}
	if err != nil {
		c.Count("outcome/error")
		return
	}
	c.Count("outcome/value")
	c.wf(v, name)
	if !v.IsWhollyKnown() {
		c.Fail("C13/"+name+"/unknown-result", "wholly known arguments, result not wholly known: "+cq.Show(v), desc)
		return
	}
	// algebraic cross-checks on the implementation itself
	call := func(f string, as ...cty.Value) (cty.Value, bool) {
		var x cty.Value
		var e error
		if p, _ := recovered(func() { x, e = stdByName[f].F.Call(as) }); p || e != nil {
			return cty.NilVal, false
		}
		return x, true
	}
	switch name {
	case "ReverseList":
		if back, ok := call("ReverseList", v); ok && !args[0].Type().IsSetType() && !back.RawEquals(args[0]) {
			c.Fail("C13/ReverseList/involution", "reversing twice gives "+cq.Show(back), desc)
		}
	case "Distinct":
		if again, ok := call("Distinct", v); ok && !again.RawEquals(v) {
			c.Fail("C13/Distinct/idempotent", "distinct of the result differs: "+cq.Show(again), desc)
		}
	case "Keys", "Values":
		if v.LengthInt() != args[0].LengthInt() {
			c.Fail("C13/"+name+"/count", "result length differs from the number of elements", desc)
		}
	case "Sort":
		vs := v.AsValueSlice()
		for k := 1; k < len(vs); k++ {
			if vs[k-1].AsString() > vs[k].AsString() {
				c.Fail("C13/Sort/order", "result is not ascending", desc)
			}
		}
	case "SetUnion", "SetIntersection":
		if len(args) == 2 {
			if sw, ok := call(name, args[1], args[0]); ok && !sw.RawEquals(v) {
				c.Fail("C13/"+name+"/commutative", "swapping the operands changes the result: "+cq.Show(sw), desc)
			}
		}
	case "Concat":
		n := 0
		for _, a := range args {
			n += a.LengthInt()
		}
		if v.LengthInt() != n {
			c.Fail("C13/Concat/length", "result length is not the sum of the lengths", desc)
		}
	}
	_ = stdlib.LengthFunc
}
