package main

import (
	"reflect"

	"github.com/zclconf/go-cty/cty"
	"verifharness/internal/cq"
	"verifharness/internal/gt"
	"verifharness/internal/gv"
)

// capsule values: a fixed pool of pointers per capsule type of gt.Caps
func init() {
	id := 0
	for ci, ct := range gt.Caps {
		var vs []cty.Value
		for k := 0; k < 3; k++ {
			p := reflect.New(ct.EncapsulatedType())
			cq.RegisterCapsulePtr(p.Interface(), id)
			vs = append(vs, cty.CapsuleVal(ct, p.Interface()))
			id++
		}
		gv.RegisterCaps(ci, vs)
	}
}
