package main

import (
	"fmt"
	"math/big"
	"strings"

	"github.com/zclconf/go-cty/cty"
	"github.com/zclconf/go-cty/cty/ctystrings"
	"github.com/zclconf/go-cty/cty/msgpack"
	"golang.org/x/text/unicode/norm"
	"verifharness/internal/cq"
	"verifharness/internal/gt"
	"verifharness/internal/gv"
	"verifharness/internal/jv"
	"verifharness/internal/mp"
	"verifharness/internal/rng"
)

func init() {
	register(&Prop{ID: "C16", Imports: "Base Ty BigFloat Value Ops Refine Json Msgpack", CaseType: "k16", Check: "k16_check", Gen: genC16})
}

// truncation table for prefixes longer than 256 bytes (what the encoder does to them)
func truncTable(v cty.Value) string {
	var items []string
	cty.Walk(v, func(p cty.Path, x cty.Value) (bool, error) {
		u, _ := x.Unmark()
		if !u.IsKnown() && u.Type() == cty.String {
			if pre := u.Range().StringPrefix(); len(pre) > 256 {
				items = append(items, cq.Pair(cq.Str(pre), cq.Str(ctystrings.SafeKnownPrefix(pre[:255]))))
			}
		}
		return true, nil
	})
	return cq.List(items)
}

func longPrefixUnknown(r *rng.R) cty.Value {
	base := []string{"abcdefghij", "日本語テキスト", "éé", "x-y_z "}[r.Intn(4)]
	s := strings.Repeat(base, 300/len(base)+1)
	cut := 250 + r.Intn(30)
	for cut < len(s) && s[cut]&0xC0 == 0x80 {
		cut++
	}
	return cty.UnknownVal(cty.String).Refine().StringPrefixFull(s[:cut]).NewValue()
}

func genC16(c *Ctx, r *rng.R, i int) {
	t := gt.Gen(r, gt.Cfg{Depth: 3, DynPct: 0, OptPct: 0, CapPct: 0, MaxWidth: 3})
	if r.Chance(22) {
		// members whose own type is not decided: DynamicVal and untyped nulls inside tuples and objects
		t = gt.Gen(r, gt.Cfg{Depth: 3, DynPct: 18, OptPct: 0, CapPct: 0, MaxWidth: 3})
	}
	if r.Chance(30) {
		t = gt.P([]gt.Kind{gt.Num, gt.Str, gt.Num}[r.Intn(3)])
	}
	cfg := gv.DefaultCfg
	cfg.NoMarks = true
	cfg.MarkPct = 0
	cfg.UnkPct = 18
	v := gv.Gen(r, t, cfg, 3)
	kind := "value"
	switch r.Intn(14) {
	case 0:
		v = placeMarks(r, v, r.Bool())
		kind = "marked"
	case 1:
		if v.Type() == cty.String {
			v = longPrefixUnknown(r)
			kind = "long-prefix"
		}
	}
	if r.Chance(3) { // collections longer than any preallocation hint
		n := 1025 + r.Intn(80)
		vs := make([]cty.Value, n)
		for k := range vs {
			vs[k] = cty.NumberIntVal(int64(k % 7))
		}
		switch r.Intn(7) {
		case 0, 1, 2:
			v = cty.ListVal(vs)
		case 3, 4, 5:
			v = cty.TupleVal([]cty.Value{cty.ListVal(vs), cty.StringVal("after")})
		default:
			m := map[string]cty.Value{}
			for k := range vs {
				m[fmt.Sprintf("k%04d", k)] = vs[k]
			}
			v = cty.ObjectVal(map[string]cty.Value{"m": cty.MapVal(m), "z": cty.True})
		}
		kind = "long-collection"
	}
	if !stringsOKSafe(v) || hasHugeNumber(v) {
		c.Count("skipped_domain")
		return
	}
	con := gt.FromCtyOrNil(v.Type())
	if con == nil {
		return
	}
	if r.Chance(50) {
		con = gt.Generalize(r, con)
	}
	conTy := con.Build()
	if len(v.Type().TestConformance(conTy)) != 0 {
		return
	}
	var buf []byte
	var err error
	p, pmsg := recovered(func() { buf, err = msgpack.Marshal(v, conTy) })
	desc := map[string]interface{}{"v": cq.Show(v), "constraint": con.String(), "kind": kind}
	obs := cq.PanicR
	var tree *mp.V
	modelled := true
	switch {
	case p:
	case err != nil:
		obs = cq.ErrOther
	default:
		var perr error
		tree, perr = mp.ParseAll(buf)
		if perr != nil {
			c.Fail("C16/invalid-msgpack", "Marshal produced bytes that do not parse as one MessagePack item: "+perr.Error(), desc)
			return
		}
		s, ok := tree.Coq()
		modelled = ok
		obs = cq.Ok(s)
		desc["bytes"] = fmt.Sprintf("%x", buf)
	}
	c.Count("oracle_evals")
	if modelled {
		c.Add("marshal/"+kind, fmt.Sprintf("K16_marshal %s %s %s %s", truncTable(v), cq.Val(v), cq.Ty(conTy), obs), desc, true)
	} else {
		c.Count("outside_item_model")
	}
	if p {
		c.Fail("C16/marshal-panic", "Marshal panicked: "+pmsg, desc)
		return
	}
	if v.ContainsMarked() {
		if err == nil {
			c.Fail("C16/marked-accepted", "a marked value was serialized", desc)
		}
		return
	}
	if err != nil {
		c.Fail("C16/marshal-error", "Marshal failed on an unmarked capsule-free value: "+err.Error(), desc)
		return
	}
	var back cty.Value
	p, pmsg = recovered(func() { back, err = msgpack.Unmarshal(buf, conTy) })
	if modelled {
		s, _ := tree.Coq()
		c.Add("unmarshal/roundtrip", fmt.Sprintf("K16_unmarshal %s %s %s %s %s", normTableMP(tree), tree.JTable(), s, cq.Ty(conTy), resValE(back, err, p)), desc, true)
	}
	if p || err != nil {
		sig := "C16/roundtrip"
		if emptyUnderDynMP(v, conTy) {
			sig = "C16/type-lost-under-nested-dynamic"
		}
		c.Fail(sig, fmt.Sprintf("Unmarshal of Marshal's output failed (panic=%v %.100s err=%v)", p, pmsg, err), desc)
		return
	}
	c.wf(back, "msgpack.Unmarshal")
	if !back.Type().Equals(v.Type()) {
		sig := "C16/roundtrip-type"
		if emptyUnderDynMP(v, conTy) {
			sig = "C16/type-lost-under-nested-dynamic"
		}
		c.Fail(sig, fmt.Sprintf("round trip changed the type: %#v", back.Type()), desc)
		return
	}
	// equal in every known part, unknown parts admit everything the originals admitted:
	// the decoded value must be a sound stand-in for every concretisation of the original;
	// tested as: back admits v's known skeleton (Admits with unknown-vs-unknown compared by range inclusion)
	if why := admitsWider(back, v); why != "" {
		c.Fail("C16/roundtrip", "decoded value does not admit the original: "+why+"; decoded "+cq.Show(back), desc)
	}
	// numbers: whole numbers and exact float64 values come back numerically identical
	cty.Walk(v, func(pth cty.Path, x cty.Value) (bool, error) {
		if x.Type() == cty.Number && x.IsKnown() && !x.IsNull() {
			f := x.AsBigFloat()
			_, acc := f.Float64()
			if f.IsInt() || acc == big.Exact || f.IsInf() {
				y, e2 := pth.Apply(back)
				if e2 == nil && y.IsKnown() && !y.IsNull() && y.Type() == cty.Number && y.AsBigFloat().Cmp(f) != 0 {
					c.Fail("C16/number-not-identical", fmt.Sprintf("%s came back as %s", f.Text('g', 40), y.AsBigFloat().Text('g', 40)), desc)
				}
			}
		}
		return true, nil
	})
}

// admitsWider: a (decoded) admits everything c (original) admits: known parts equal, for unknown
// parts a's range includes c's range
func admitsWider(a, c cty.Value) string {
	if !c.IsKnown() {
		if a.IsKnown() {
			// a refinement may collapse to a known value on both sides identically
			if a.RawEquals(c) {
				return ""
			}
			return "an unknown part came back known"
		}
		if c.Type() == cty.DynamicPseudoType || a.Type() == cty.DynamicPseudoType {
			if a.Type() != cty.DynamicPseudoType {
				return "dynamic unknown came back typed"
			}
			return ""
		}
		ra, rc := a.Range(), c.Range()
		if ra.DefinitelyNotNull() && !rc.DefinitelyNotNull() {
			return "nullness narrowed"
		}
		switch {
		case c.Type() == cty.Number:
			alo, ainc := ra.NumberLowerBound()
			clo, cinc := rc.NumberLowerBound()
			if cmp := alo.AsBigFloat().Cmp(clo.AsBigFloat()); cmp > 0 || (cmp == 0 && !ainc && cinc) {
				return "lower bound narrowed"
			}
			ahi, ainc2 := ra.NumberUpperBound()
			chi, cinc2 := rc.NumberUpperBound()
			if cmp := ahi.AsBigFloat().Cmp(chi.AsBigFloat()); cmp < 0 || (cmp == 0 && !ainc2 && cinc2) {
				return "upper bound narrowed"
			}
		case c.Type() == cty.String:
			if !strings.HasPrefix(rc.StringPrefix(), ra.StringPrefix()) {
				return "prefix narrowed or invented"
			}
		case c.Type().IsCollectionType():
			if ra.LengthLowerBound() > rc.LengthLowerBound() || ra.LengthUpperBound() < rc.LengthUpperBound() {
				return "length bounds narrowed"
			}
		}
		return ""
	}
	if !a.IsKnown() {
		return "a known part came back unknown"
	}
	if a.IsNull() || c.IsNull() {
		if a.IsNull() && c.IsNull() {
			return ""
		}
		return "null vs non-null"
	}
	ty := c.Type()
	switch {
	case ty == cty.Number:
		// numeric identity (Value.Equals compares a shortest-digits text of each side, which
		// differs between precisions for the same number: that is C01's finding, not this one's)
		if a.AsBigFloat().Cmp(c.AsBigFloat()) != 0 {
			return "numbers differ"
		}
	case ty.IsPrimitiveType() || ty.IsCapsuleType():
		if !a.RawEquals(c) {
			return "known parts differ"
		}
	case ty.IsSetType():
		as, cs := a.AsValueSlice(), c.AsValueSlice()
		if len(as) != len(cs) {
			return "set sizes differ"
		}
		for i := range cs {
			if why := admitsWider(as[i], cs[i]); why != "" {
				return why
			}
		}
	default:
		if a.LengthInt() != c.LengthInt() {
			return "lengths differ"
		}
		ai, ci := a.ElementIterator(), c.ElementIterator()
		for ai.Next() && ci.Next() {
			ak, av := ai.Element()
			ck, cv := ci.Element()
			if !ak.RawEquals(ck) {
				return "keys differ"
			}
			if why := admitsWider(av, cv); why != "" {
				return why
			}
		}
	}
	return ""
}

func emptyUnderDynMP(v cty.Value, t cty.Type) bool {
	if !v.IsKnown() {
		return t != cty.DynamicPseudoType && t.HasDynamicTypes()
	}
	return emptyUnderDyn(v, t) || nestedUnknownUnderDyn(v, t)
}

// an unknown (or null / empty) part below a constraint position that still has placeholders
func nestedUnknownUnderDyn(v cty.Value, t cty.Type) bool {
	if !v.IsKnown() || v.IsNull() {
		return t != cty.DynamicPseudoType && t.HasDynamicTypes()
	}
	ty := v.Type()
	switch {
	case t == cty.DynamicPseudoType:
		return false
	case ty.IsCollectionType() && t.IsCollectionType():
		for it := v.ElementIterator(); it.Next(); {
			_, ev := it.Element()
			if nestedUnknownUnderDyn(ev, t.ElementType()) {
				return true
			}
		}
	case ty.IsTupleType() && t.IsTupleType():
		i := 0
		for it := v.ElementIterator(); it.Next(); i++ {
			_, ev := it.Element()
			if nestedUnknownUnderDyn(ev, t.TupleElementType(i)) {
				return true
			}
		}
	case ty.IsObjectType() && t.IsObjectType():
		for it := v.ElementIterator(); it.Next(); {
			k, ev := it.Element()
			if nestedUnknownUnderDyn(ev, t.AttributeType(k.AsString())) {
				return true
			}
		}
	}
	return false
}

// normalisation table (NFC) for every string in the item tree, including those inside embedded type descriptions
func normTableMP(t *mp.V) string {
	var items []string
	seen := map[string]bool{}
	add := func(x string) {
		if n := norm.NFC.String(x); n != x && !seen[x] {
			seen[x] = true
			items = append(items, cq.Pair(cq.Str(x), cq.Str(n)))
		}
	}
	t.Strings(func(x string) {
		add(x)
		if j, err := jv.Parse([]byte(x)); err == nil {
			for _, n := range j.Nodes() {
				for _, k := range n.Keys {
					add(k)
				}
				if n.K == jv.Str {
					add(n.S)
				}
			}
		}
	})
	return cq.List(items)
}
