// Package jv is the harness's JSON token tree (ordered object members, duplicates allowed,
// number text preserved) — the level at which Model/Ty.v and Model/Json.v start.
package jv

import (
	"bytes"
	"encoding/json"
	"fmt"
	"io"
	"strings"

	"verifharness/internal/cq"
)

type Kind int

const (
	Null Kind = iota
	Bool
	Num
	Str
	Arr
	Obj
)

type V struct {
	K    Kind
	B    bool
	S    string // Num text or Str content
	L    []*V
	Keys []string // Obj keys, parallel to L
}

func S(s string) *V    { return &V{K: Str, S: s} }
func A(l ...*V) *V     { return &V{K: Arr, L: l} }
func NullV() *V        { return &V{K: Null} }
func NumV(s string) *V { return &V{K: Num, S: s} }
func BoolV(b bool) *V  { return &V{K: Bool, B: b} }
func O() *V            { return &V{K: Obj} }
func (v *V) Put(k string, x *V) *V {
	v.Keys = append(v.Keys, k)
	v.L = append(v.L, x)
	return v
}

// Parse reads exactly one JSON value into a tree.
func Parse(b []byte) (*V, error) {
	dec := json.NewDecoder(bytes.NewReader(b))
	dec.UseNumber()
	v, err := parseVal(dec)
	if err != nil {
		return nil, err
	}
	if _, err := dec.Token(); err != io.EOF {
		return nil, fmt.Errorf("trailing data")
	}
	return v, nil
}

func parseVal(dec *json.Decoder) (*V, error) {
	tok, err := dec.Token()
	if err != nil {
		return nil, err
	}
	return parseTok(dec, tok)
}

func parseTok(dec *json.Decoder, tok json.Token) (*V, error) {
	switch t := tok.(type) {
	case nil:
		return NullV(), nil
	case bool:
		return BoolV(t), nil
	case json.Number:
		return NumV(string(t)), nil
	case string:
		return S(t), nil
	case json.Delim:
		switch t {
		case '[':
			v := A()
			v.L = []*V{}
			for dec.More() {
				x, err := parseVal(dec)
				if err != nil {
					return nil, err
				}
				v.L = append(v.L, x)
			}
			if _, err := dec.Token(); err != nil {
				return nil, err
			}
			return v, nil
		case '{':
			v := O()
			for dec.More() {
				kt, err := dec.Token()
				if err != nil {
					return nil, err
				}
				k, ok := kt.(string)
				if !ok {
					return nil, fmt.Errorf("bad key")
				}
				x, err := parseVal(dec)
				if err != nil {
					return nil, err
				}
				v.Put(k, x)
			}
			if _, err := dec.Token(); err != nil {
				return nil, err
			}
			return v, nil
		}
	}
	return nil, fmt.Errorf("unexpected token %v", tok)
}

// Bytes serialises the tree (keys in the given order, duplicates kept).
func (v *V) Bytes() []byte {
	var sb bytes.Buffer
	v.write(&sb)
	return sb.Bytes()
}

func (v *V) write(sb *bytes.Buffer) {
	switch v.K {
	case Null:
		sb.WriteString("null")
	case Bool:
		if v.B {
			sb.WriteString("true")
		} else {
			sb.WriteString("false")
		}
	case Num:
		sb.WriteString(v.S)
	case Str:
		b, _ := json.Marshal(v.S)
		sb.Write(b)
	case Arr:
		sb.WriteByte('[')
		for i, x := range v.L {
			if i > 0 {
				sb.WriteByte(',')
			}
			x.write(sb)
		}
		sb.WriteByte(']')
	case Obj:
		sb.WriteByte('{')
		for i, x := range v.L {
			if i > 0 {
				sb.WriteByte(',')
			}
			b, _ := json.Marshal(v.Keys[i])
			sb.Write(b)
			sb.WriteByte(':')
			x.write(sb)
		}
		sb.WriteByte('}')
	}
}

// Coq prints the tree as a term of Model/Ty.v's [jv].
func (v *V) Coq() string {
	switch v.K {
	case Null:
		return "JNull"
	case Bool:
		return "(JBool " + cq.Bool(v.B) + ")"
	case Num:
		return "(JNum " + cq.Str(v.S) + ")"
	case Str:
		return "(JStr " + cq.Str(v.S) + ")"
	case Arr:
		items := make([]string, len(v.L))
		for i, x := range v.L {
			items[i] = x.Coq()
		}
		return "(JArr " + cq.List(items) + ")"
	case Obj:
		items := make([]string, len(v.L))
		for i, x := range v.L {
			items[i] = cq.Pair(cq.Str(v.Keys[i]), x.Coq())
		}
		return "(JObj " + cq.List(items) + ")"
	}
	panic("jv.Coq")
}

func (v *V) String() string { return strings.TrimSpace(string(v.Bytes())) }

func (v *V) Clone() *V {
	c := *v
	c.Keys = append([]string(nil), v.Keys...)
	if v.L != nil {
		c.L = make([]*V, len(v.L))
		for i, x := range v.L {
			c.L[i] = x.Clone()
		}
	}
	return &c
}

// Nodes lists every node (pre-order).
func (v *V) Nodes() []*V {
	out := []*V{v}
	for _, x := range v.L {
		out = append(out, x.Nodes()...)
	}
	return out
}
