package gv

import (
	"math"
	"strings"

	"github.com/zclconf/go-cty/cty"
	"verifharness/internal/rng"
)

// UnknownFor returns an unknown value that admits the (unmarked) concrete value c: unrefined, or
// refined with facts that are true of c (nullness, numeric bounds inclusive at c or exclusive
// beyond it, a byte prefix of the string, length bounds containing the length).
func UnknownFor(r *rng.R, c cty.Value) (ret cty.Value) {
	ty := c.Type()
	defer func() {
		// bounds that collide after rounding (huge numbers) are rejected by the builder: fall back
		if e := recover(); e != nil {
			ret = cty.UnknownVal(ty)
			return
		}
		// a bound computed next to a huge number can round onto it and, when exclusive, exclude it
		if c.IsKnown() && !ret.IsKnown() {
			func() {
				defer func() {
					if recover() != nil {
						ret = cty.UnknownVal(ty)
					}
				}()
				if Admits(ret, c) != "" {
					ret = cty.UnknownVal(ty)
				}
			}()
		}
	}()
	if ty == cty.DynamicPseudoType || r.Chance(30) {
		return cty.UnknownVal(ty)
	}
	if !c.IsKnown() {
		return c
	}
	b := cty.UnknownVal(ty).Refine()
	if c.IsNull() {
		if ty.HasDynamicTypes() {
			return cty.UnknownVal(ty)
		}
		return cty.UnknownVal(ty) // "null" refinement collapses to a known null: not a weakening
	}
	if r.Chance(60) {
		b = b.NotNull()
	}
	switch {
	case ty == cty.Number:
		f := c.AsBigFloat()
		if f.IsInf() {
			break
		}
		lo, hi := c, c
		loInc, hiInc := true, true
		// tight bounds (inclusive at the value itself) are the interesting boundary: keep them frequent
		if r.Chance(40) {
			lo, loInc = c.Subtract(cty.NumberIntVal(int64(1+r.Intn(3)))), r.Bool()
		}
		if r.Chance(40) {
			hi, hiInc = c.Add(cty.NumberIntVal(int64(1+r.Intn(3)))), r.Bool()
		}
		switch r.Intn(4) {
		case 0:
			b = b.NumberRangeLowerBound(lo, loInc)
		case 1:
			b = b.NumberRangeUpperBound(hi, hiInc)
		default:
			if lo.RawEquals(hi) {
				hi = c.Add(cty.NumberIntVal(1)) // avoid collapsing to the known value
				hiInc = r.Bool()
			}
			b = b.NumberRangeLowerBound(lo, loInc).NumberRangeUpperBound(hi, hiInc)
		}
	case ty == cty.String:
		s := c.AsString()
		cut := r.Intn(len(s) + 1)
		for cut > 0 && cut < len(s) && s[cut]&0xC0 == 0x80 {
			cut--
		}
		if r.Chance(70) {
			b = b.StringPrefixFull(s[:cut])
		}
	case ty.IsCollectionType():
		if !c.IsWhollyKnown() && ty.IsSetType() {
			break
		}
		n := c.LengthInt()
		lo := n - r.Intn(2)
		if lo < 0 {
			lo = 0
		}
		hi := n + 1 + r.Intn(2)
		switch r.Intn(3) {
		case 0:
			b = b.CollectionLengthLowerBound(lo)
		case 1:
			b = b.CollectionLengthUpperBound(hi)
		default:
			b = b.CollectionLengthLowerBound(lo).CollectionLengthUpperBound(hi)
		}
	}
	return b.NewValue()
}

// Weaken replaces sub-values of v (each position with probability pct percent) by unknown values
// admitting them.  allowTop: the whole value may be replaced (also by cty.DynamicVal).
func Weaken(r *rng.R, v cty.Value, pct int, allowTop bool) cty.Value {
	out, err := cty.Transform(v, func(p cty.Path, x cty.Value) (cty.Value, error) {
		if len(p) == 0 && !allowTop {
			return x, nil
		}
		if !r.Chance(pct) {
			return x, nil
		}
		u, ms := x.Unmark()
		if len(p) == 0 && r.Chance(15) {
			return cty.DynamicVal.WithMarks(ms), nil
		}
		free := typeFreeAlong(v.Type(), p) // below a list, set or map every member must keep its exact type
		if ty := u.Type(); free && !ty.IsPrimitiveType() && !ty.IsCapsuleType() && ty != cty.DynamicPseudoType && r.Chance(25) {
			// an unknown whose type constraint is itself only partly known: placeholders inside the type
			g := GeneraliseType(r, ty, 45)
			if u.IsKnown() && !u.IsNull() && r.Bool() {
				return cty.UnknownVal(g).RefineNotNull().WithMarks(ms), nil
			}
			return cty.UnknownVal(g).WithMarks(ms), nil
		}
		return UnknownFor(r, u).WithMarks(ms), nil
	})
	if err != nil {
		return v
	}
	return out
}

// Admits: the approximation order of C01 / C12 / C16 evaluated through the public API.
// a is the (possibly unknown) stand-in, c the concrete value.  Returns "" or the reason it fails.
func Admits(a, c cty.Value) string {
	if !a.HasSameMarks(c) {
		return "marks differ"
	}
	a, _ = a.Unmark()
	c, _ = c.Unmark()
	if errs := c.Type().TestConformance(a.Type()); len(errs) != 0 {
		return "type of the concrete value does not conform to the abstract value's type constraint: " + errs[0].Error()
	}
	if !a.IsKnown() {
		if a.Type() == cty.DynamicPseudoType {
			return ""
		}
		rg := a.Range()
		if !c.IsKnown() {
			return "" // both unknown: nothing to exclude with
		}
		if c.IsNull() {
			if rg.DefinitelyNotNull() {
				return "abstract value excludes null"
			}
			return ""
		}
		ty := a.Type()
		switch {
		case ty == cty.Number:
			lo, loInc := rg.NumberLowerBound()
			hi, hiInc := rg.NumberUpperBound()
			f := c.AsBigFloat()
			if lo.IsKnown() {
				cmp := f.Cmp(lo.AsBigFloat())
				if cmp < 0 || (cmp == 0 && !loInc) {
					return "below the lower bound " + lo.AsBigFloat().Text('g', 30)
				}
			}
			if hi.IsKnown() {
				cmp := f.Cmp(hi.AsBigFloat())
				if cmp > 0 || (cmp == 0 && !hiInc) {
					return "above the upper bound " + hi.AsBigFloat().Text('g', 30)
				}
			}
		case ty == cty.String:
			if !strings.HasPrefix(c.AsString(), rg.StringPrefix()) {
				return "does not start with the prefix"
			}
		case ty.IsCollectionType():
			lenV := c.Length()
			if lenV.IsKnown() {
				n, _ := lenV.AsBigFloat().Int64()
				if int(n) < rg.LengthLowerBound() || (rg.LengthUpperBound() != math.MaxInt && int(n) > rg.LengthUpperBound()) {
					return "length outside the length bounds"
				}
			}
		}
		return ""
	}
	// a known
	if !c.IsKnown() {
		return "abstract part is known where the concrete part is unknown"
	}
	if a.IsNull() || c.IsNull() {
		if a.IsNull() && c.IsNull() {
			return ""
		}
		return "null vs non-null"
	}
	ty := a.Type()
	switch {
	case ty.IsPrimitiveType():
		if !c.Type().Equals(ty) || !a.RawEquals(c) {
			return "known parts differ"
		}
	case ty.IsListType() || ty.IsTupleType():
		if a.LengthInt() != c.LengthInt() {
			return "lengths differ"
		}
		ai, ci := a.ElementIterator(), c.ElementIterator()
		for ai.Next() && ci.Next() {
			_, av := ai.Element()
			_, cv := ci.Element()
			if why := Admits(av, cv); why != "" {
				return why
			}
		}
	case ty.IsMapType() || ty.IsObjectType():
		am, cm := a.AsValueMap(), c.AsValueMap()
		if len(am) != len(cm) {
			return "key sets differ"
		}
		for k, av := range am {
			cv, ok := cm[k]
			if !ok {
				return "key sets differ"
			}
			if why := Admits(av, cv); why != "" {
				return why
			}
		}
	case ty.IsSetType():
		as, cs := a.AsValueSlice(), c.AsValueSlice()
		for _, cv := range cs {
			found := false
			for _, av := range as {
				if Admits(av, cv) == "" {
					found = true
				}
			}
			if !found {
				return "a concrete set member is admitted by no abstract member"
			}
		}
		for _, av := range as {
			found := false
			for _, cv := range cs {
				if Admits(av, cv) == "" {
					found = true
				}
			}
			if !found {
				return "an abstract set member admits no concrete member"
			}
		}
	case ty.IsCapsuleType():
		if !a.RawEquals(c) {
			return "capsules differ"
		}
	}
	return ""
}

// GeneraliseType replaces components below the top of ty (each with probability pct percent) by the
// dynamic placeholder; every value of type ty conforms to the result.
func GeneraliseType(r *rng.R, ty cty.Type, pct int) cty.Type {
	var rec func(t cty.Type, top bool) cty.Type
	rec = func(t cty.Type, top bool) cty.Type {
		if !top && r.Chance(pct) {
			return cty.DynamicPseudoType
		}
		switch {
		case t.IsListType():
			return cty.List(rec(t.ElementType(), false))
		case t.IsSetType():
			return cty.Set(rec(t.ElementType(), false))
		case t.IsMapType():
			return cty.Map(rec(t.ElementType(), false))
		case t.IsTupleType():
			ets := t.TupleElementTypes()
			out := make([]cty.Type, len(ets))
			for i, e := range ets {
				out[i] = rec(e, false)
			}
			return cty.Tuple(out)
		case t.IsObjectType():
			out := map[string]cty.Type{}
			for k, a := range t.AttributeTypes() {
				out[k] = rec(a, false)
			}
			return cty.Object(out)
		}
		return t
	}
	return rec(ty, true)
}

// typeFreeAlong: the member at path p (from a value of type root) sits below objects and tuples only, so its
// type can be changed without touching the type of a sibling
func typeFreeAlong(root cty.Type, p cty.Path) bool {
	t := root
	for _, st := range p {
		switch s := st.(type) {
		case cty.GetAttrStep:
			if !t.IsObjectType() || !t.HasAttribute(s.Name) {
				return false
			}
			t = t.AttributeType(s.Name)
		case cty.IndexStep:
			if !t.IsTupleType() || !s.Key.IsKnown() || s.Key.Type() != cty.Number {
				return false
			}
			i, _ := s.Key.AsBigFloat().Int64()
			if i < 0 || int(i) >= t.Length() {
				return false
			}
			t = t.TupleElementType(int(i))
		default:
			return false
		}
	}
	return true
}
