// Package gv generates cty values: a number pool, a string pool, values of a given type with
// null / unknown (refined) / marked members at every depth.
package gv

import (
	"math"
	"math/big"
	"sort"

	"github.com/zclconf/go-cty/cty"
	"verifharness/internal/cq"
	"verifharness/internal/gt"
	"verifharness/internal/rng"
)

type capA struct{ X int }

var CapVals []cty.Value

func init() {
	// capsule values over gt.Caps[0] (native type declared in package gt is unexported; use reflection-free pool)
}

// ---------- numbers ----------

func parse(s string) *big.Float {
	f, _, err := big.ParseFloat(s, 10, 512, big.ToNearestEven)
	if err != nil {
		panic(err)
	}
	return f
}

// NumPool: class name -> constructor.  Classes cover the precision / magnitude classes go-cty meets.
type Num struct {
	Class string
	V     cty.Value
}

var pool []Num

func add(class string, v cty.Value) { pool = append(pool, Num{class, v}) }

func init() {
	add("singleton", cty.Zero)
	add("singleton", cty.PositiveInfinity)
	add("singleton", cty.NegativeInfinity)
	add("inf-fresh", cty.NumberVal(new(big.Float).SetInf(false)))
	add("inf-fresh", cty.NumberVal(new(big.Float).SetPrec(64).SetInf(true)))
	for _, i := range []int64{0, 1, -1, 2, 3, 5, 7, 10, -10, 100, 127, 128, -128, -129, 255, 256, 32767, 32768, -32768, -32769, 65535, 65536,
		2147483647, 2147483648, -2147483648, -2147483649, 4294967295, 4294967296, 9007199254740991, 9007199254740992, 9007199254740993,
		math.MaxInt64, math.MinInt64, math.MaxInt64 - 1} {
		add("int64", cty.NumberIntVal(i))
	}
	add("uint64", cty.NumberUIntVal(math.MaxUint64))
	add("uint64", cty.NumberUIntVal(1<<63))
	for _, f := range []float64{0.5, 0.1, 1.5, -1.5, 0.25, 1.0 / 3.0, 2.5, -0.5, 1e-30, 1e30, 1e300, -1e-300, 123456.789, 0.12345678905, 3.0000000001,
		math.MaxFloat64, math.SmallestNonzeroFloat64, float64(math.MaxFloat32), 1 << 60, 1e39, 200.75, math.Copysign(0, -1)} {
		add("float64", cty.NumberFloatVal(f))
	}
	for _, s := range []string{"0", "1", "-1", "0.1", "0.5", "1.5", "0.12345678905", "0.123456789049", "1e30", "1e-30", "123456789012345678901234567890",
		"18446744073709551615", "18446744073709551616", "9223372036854775808", "-9223372036854775809", "1267650600228229401496703205376", "1267650600228229401496703205377",
		"3.14159265358979323846264338327950288419716939937510", "0.3333333333333333333333333333333333333333", "1e100", "-2.5", "1208925819614629174706176",
		"340282346638528859811704183484516925440", "1e39", "1.0000000000000000000000000000000000001", "99999999999.5", "12345678901.5", "0.000001", "1e-7", "123456789.125"} {
		add("parsed512", cty.NumberVal(parse(s)))
	}
	// odd precisions
	add("prec24", cty.NumberVal(new(big.Float).SetPrec(24).SetFloat64(0.1)))
	add("prec100", cty.NumberVal(new(big.Float).SetPrec(100).SetInt64(12345)))
	add("prec100", cty.NumberVal(new(big.Float).SetPrec(100).Quo(big.NewFloat(1), big.NewFloat(3))))
}

func PoolSize() int    { return len(pool) }
func PoolAt(i int) Num { return pool[i%len(pool)] }

// GenNum picks from the pool or builds a random (mantissa, exponent, precision) number.
func GenNum(r *rng.R) (cty.Value, string) {
	switch {
	case r.Chance(70):
		n := pool[r.Intn(len(pool))]
		return n.V, n.Class
	case r.Chance(50):
		return cty.NumberIntVal(int64(r.Intn(41) - 20)), "small-int"
	default:
		prec := []uint{24, 53, 64, 100, 512}[r.Intn(5)]
		mant := new(big.Int).SetUint64(r.U64())
		if r.Chance(30) {
			mant.Lsh(mant, uint(r.Intn(200)))
			mant.Add(mant, big.NewInt(int64(r.Intn(1000))))
		}
		f := new(big.Float).SetPrec(prec).SetInt(mant)
		f.SetMantExp(f, r.Intn(300)-200)
		if r.Bool() {
			f.Neg(f)
		}
		return cty.NumberVal(f), "random"
	}
}

// small numbers (for indices, bounds)
func GenSmallNum(r *rng.R) cty.Value {
	switch r.Intn(6) {
	case 0:
		return cty.NumberFloatVal(float64(r.Intn(9)) + 0.5)
	case 1:
		return cty.NumberVal(parse([]string{"1", "2", "3.5", "0", "-1", "4"}[r.Intn(6)]))
	default:
		return cty.NumberIntVal(int64(r.Intn(12) - 2))
	}
}

// ---------- strings ----------

// StrPool: NFC-stable strings whose %q quoting is the simple one modelled in Hash.v
// (checked at generation time), plus a few that normalise (decomposed accents).
var StrPool = []string{"", "a", "b", "ab", "abc", "abd", "hello", "hello world", "A", "é", "ß", "日本", "日本語", "x y", "a\"b", "a\\b", "tab\there", "line\nbreak",
	"0", "1", "10", "true", "false", "null", "-1.5", "key=value", "👍", "z", "zz", "aa", "b c", "ID", "naïve", "Å"}

var StrDenorm = []string{"é", "Å", "naïve"}

// NonNFC: strings that normalisation changes, of every kind: a combining mark after its base, a code point with a
// singleton decomposition (no mark involved), conjoining Hangul jamo, marks in non-canonical order, a compatibility ideograph
var NonNFC = []string{"e\u0301", "A\u030a", "\u212b", "\u2126", "\u1112\u1161\u11ab", "\u1f71", "\uf900", "a\u0307\u0323", "x\u212bz", "\u1100\u1161"}

func GenStr(r *rng.R) string { return StrPool[r.Intn(len(StrPool))] }

// ---------- values ----------

type Cfg struct {
	NullPct, UnkPct, MarkPct, RefinePct int
	MaxLen                              int
	NoMarks                             bool
}

var DefaultCfg = Cfg{NullPct: 8, UnkPct: 10, MarkPct: 6, RefinePct: 60, MaxLen: 3}
var KnownCfg = Cfg{NullPct: 0, UnkPct: 0, MarkPct: 0, RefinePct: 0, MaxLen: 3}

var capPool = map[int][]cty.Value{}

func capVal(r *rng.R, id int) cty.Value {
	return capPool[id][r.Intn(len(capPool[id]))]
}

// RegisterCaps must be called once with capsule values for each gt.Caps id.
func RegisterCaps(id int, vs []cty.Value) { capPool[id] = vs }

// RefinedUnknown builds an unknown of type t with a random valid refinement.
func RefinedUnknown(r *rng.R, t cty.Type) cty.Value {
	if t == cty.DynamicPseudoType {
		return cty.DynamicVal
	}
	b := cty.UnknownVal(t).Refine()
	if r.Chance(60) {
		b = b.NotNull()
	}
	switch {
	case t == cty.Number:
		lo, hi := GenSmallNum(r), GenSmallNum(r)
		if lo.GreaterThan(hi).True() {
			lo, hi = hi, lo
		}
		if lo.Equals(hi).True() {
			hi = hi.Add(cty.NumberIntVal(int64(1 + r.Intn(3))))
		}
		switch r.Intn(4) {
		case 0:
			b = b.NumberRangeLowerBound(lo, r.Bool())
		case 1:
			b = b.NumberRangeUpperBound(hi, r.Bool())
		case 2:
			b = b.NumberRangeLowerBound(lo, r.Bool()).NumberRangeUpperBound(hi, r.Bool())
		}
	case t == cty.String:
		if r.Chance(70) {
			b = b.StringPrefixFull(GenStr(r))
		}
	case t.IsCollectionType():
		lo := r.Intn(3)
		switch r.Intn(4) {
		case 0:
			b = b.CollectionLengthLowerBound(lo)
		case 1:
			b = b.CollectionLengthUpperBound(lo + 1 + r.Intn(3))
		case 2:
			b = b.CollectionLengthLowerBound(lo).CollectionLengthUpperBound(lo + 1 + r.Intn(3))
		case 3:
			// the ends: an upper bound of zero, both bounds equal (the value may become known), nothing at all
			switch r.Intn(4) {
			case 0:
				b = b.CollectionLengthUpperBound(0)
			case 1:
				b = b.CollectionLengthLowerBound(lo).CollectionLengthUpperBound(lo)
			case 2:
				b = b.CollectionLengthUpperBound(lo)
			}
		}
	}
	return b.NewValue()
}

// Gen generates a value whose type conforms to t (placeholders are resolved or filled with
// DynamicVal / typed nulls).
func Gen(r *rng.R, t *gt.T, c Cfg, depth int) cty.Value {
	v := gen(r, t, c, depth)
	if !c.NoMarks && r.Chance(c.MarkPct) {
		v = v.Mark(1 + r.Intn(3))
		if r.Chance(30) {
			v = v.Mark(1 + r.Intn(3))
		}
	}
	return v
}

func gen(r *rng.R, t *gt.T, c Cfg, depth int) cty.Value {
	if t.K == gt.Dyn {
		switch {
		case r.Chance(c.UnkPct * 2):
			return cty.DynamicVal
		case r.Chance(c.NullPct):
			return cty.NullVal(cty.DynamicPseudoType)
		}
		return gen(r, gt.Resolve(r, t, gt.DefaultCfg), c, depth)
	}
	ty := gt.Strip(t).Build()
	if r.Chance(c.NullPct) {
		return cty.NullVal(ty)
	}
	if r.Chance(c.UnkPct) {
		if r.Chance(c.RefinePct) && !ty.HasDynamicTypes() {
			return RefinedUnknown(r, ty)
		}
		return cty.UnknownVal(ty)
	}
	n := r.Intn(c.MaxLen + 1)
	if depth <= 0 && n > 1 {
		n = 1
	}
	switch t.K {
	case gt.Bool:
		return cty.BoolVal(r.Bool())
	case gt.Num:
		v, _ := GenNum(r)
		if r.Chance(50) {
			v = GenSmallNum(r)
		}
		return v
	case gt.Str:
		return cty.StringVal(GenStr(r))
	case gt.Cap:
		return capVal(r, t.CapID)
	case gt.List, gt.Set:
		// all members must share one concrete type: resolve the element type once
		et := t.Elem
		if gt.HasDyn(et) && !(et.K == gt.Dyn && r.Chance(20)) {
			et = gt.Resolve(r, et, gt.DefaultCfg)
		}
		if n == 0 {
			if t.K == gt.List {
				return cty.ListValEmpty(gt.Strip(et).Build())
			}
			return cty.SetValEmpty(gt.Strip(et).Build())
		}
		vs := make([]cty.Value, n)
		for i := range vs {
			vs[i] = Gen(r, et, c, depth-1)
			if et.K == gt.Dyn {
				vs[i] = cty.DynamicVal
				if r.Bool() {
					vs[i] = cty.NullVal(cty.DynamicPseudoType)
				}
			}
		}
		if t.K == gt.List {
			return cty.ListVal(vs)
		}
		if r.Chance(30) && n > 1 { // duplicates
			vs[n-1] = vs[0]
		}
		return cty.SetVal(vs)
	case gt.Map:
		et := t.Elem
		if gt.HasDyn(et) && !(et.K == gt.Dyn && r.Chance(20)) {
			et = gt.Resolve(r, et, gt.DefaultCfg)
		}
		if n == 0 {
			return cty.MapValEmpty(gt.Strip(et).Build())
		}
		m := map[string]cty.Value{}
		for i := 0; i < n; i++ {
			v := Gen(r, et, c, depth-1)
			if et.K == gt.Dyn {
				v = cty.DynamicVal
			}
			if r.Chance(12) && et.K != gt.Dyn {
				v = cty.NullVal(v.Type())
			}
			m[[]string{"a", "b", "c", "k1", "é", "zz"}[r.Intn(6)]] = v
		}
		return cty.MapVal(m)
	case gt.Tuple:
		vs := make([]cty.Value, len(t.Elems))
		for i, e := range t.Elems {
			vs[i] = Gen(r, e, c, depth-1)
		}
		return cty.TupleVal(vs)
	case gt.Obj:
		m := map[string]cty.Value{}
		for _, a := range t.Attrs {
			m[a.Name] = Gen(r, a.T, c, depth-1)
		}
		return cty.ObjectVal(m)
	}
	panic("gv.gen")
}

// SortedKeys of a value map.
func SortedKeys(m map[string]cty.Value) []string {
	ks := make([]string, 0, len(m))
	for k := range m {
		ks = append(ks, k)
	}
	sort.Strings(ks)
	return ks
}

var _ = cq.Str
