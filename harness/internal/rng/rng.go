// Package rng is the single source of randomness of the harness: every choice derives
// from one splitmix64 state, so a (seed, index) pair replays a case exactly.
package rng

type R struct{ s uint64 }

func New(seed uint64) *R { return &R{s: seed*0x9E3779B97F4A7C15 + 0x1234567} }

func (r *R) U64() uint64 {
	r.s += 0x9E3779B97F4A7C15
	z := r.s
	z = (z ^ (z >> 30)) * 0xBF58476D1CE4E5B9
	z = (z ^ (z >> 27)) * 0x94D049BB133111EB
	return z ^ (z >> 31)
}

// Fork derives an independent generator (used per case so that cases are replayable by index).
func (r *R) Fork(i uint64) *R { return New(r.s ^ (i+1)*0xD1342543DE82EF95) }

func (r *R) Intn(n int) int {
	if n <= 0 {
		return 0
	}
	return int(r.U64() % uint64(n))
}
func (r *R) Bool() bool        { return r.U64()&1 == 1 }
func (r *R) Chance(p int) bool { return r.Intn(100) < p } // p percent
func (r *R) Range(lo, hi int) int {
	if hi <= lo {
		return lo
	}
	return lo + r.Intn(hi-lo+1)
}
func Pick[T any](r *R, xs []T) T { return xs[r.Intn(len(xs))] }
func (r *R) Perm(n int) []int {
	p := make([]int, n)
	for i := range p {
		p[i] = i
	}
	for i := n - 1; i > 0; i-- {
		j := r.Intn(i + 1)
		p[i], p[j] = p[j], p[i]
	}
	return p
}
