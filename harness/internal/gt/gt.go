// Package gt holds the harness's own structural representation of cty types: the generator
// builds these trees, the real cty.Type is constructed from them, and the implementation-side
// oracle evaluates the properties on the tree (an independent model of the type algebra).
package gt

import (
	"fmt"
	"reflect"
	"sort"
	"strings"

	"github.com/zclconf/go-cty/cty"
	"verifharness/internal/rng"
)

type Kind int

const (
	Dyn Kind = iota
	Bool
	Num
	Str
	List
	Set
	Map
	Tuple
	Obj
	Cap
)

type T struct {
	K     Kind
	Elem  *T     // List/Set/Map
	Elems []*T   // Tuple
	Attrs []Attr // Obj, sorted by name
	Opt   []string
	CapID int
}
type Attr struct {
	Name string
	T    *T
}

type capA struct{ X int }
type capB struct{ Y string }

// the third is a twin of the first: same name, same native type, separately created (capsule types are
// identified by identity, not by structure)
var Caps = []cty.Type{cty.Capsule("capA", reflect.TypeOf(capA{})), cty.Capsule("capB", reflect.TypeOf(capB{})), cty.Capsule("capA", reflect.TypeOf(capA{}))}

// Names is an alphabet of NFC-stable attribute names (ASCII and precomposed/multi-byte).
var Names = []string{"a", "b", "c", "id", "name", "é", "ß", "日本", "x_1", "Z", "bell\a", "del\x7f", "q\"uote", "nl\n", "\x01"}

func P(k Kind) *T { return &T{K: k} }

// Build constructs the real cty.Type.
func (t *T) Build() cty.Type {
	switch t.K {
	case Dyn:
		return cty.DynamicPseudoType
	case Bool:
		return cty.Bool
	case Num:
		return cty.Number
	case Str:
		return cty.String
	case List:
		return cty.List(t.Elem.Build())
	case Set:
		return cty.Set(t.Elem.Build())
	case Map:
		return cty.Map(t.Elem.Build())
	case Tuple:
		ets := make([]cty.Type, len(t.Elems))
		for i, e := range t.Elems {
			ets[i] = e.Build()
		}
		return cty.Tuple(ets)
	case Obj:
		atys := make(map[string]cty.Type, len(t.Attrs))
		for _, a := range t.Attrs {
			atys[a.Name] = a.T.Build()
		}
		if len(t.Opt) > 0 {
			return cty.ObjectWithOptionalAttrs(atys, append([]string(nil), t.Opt...))
		}
		return cty.Object(atys)
	case Cap:
		return Caps[t.CapID]
	}
	panic("gt.Build")
}

func (t *T) String() string {
	switch t.K {
	case Dyn:
		return "dyn"
	case Bool:
		return "bool"
	case Num:
		return "num"
	case Str:
		return "str"
	case List:
		return "list(" + t.Elem.String() + ")"
	case Set:
		return "set(" + t.Elem.String() + ")"
	case Map:
		return "map(" + t.Elem.String() + ")"
	case Tuple:
		ss := make([]string, len(t.Elems))
		for i, e := range t.Elems {
			ss[i] = e.String()
		}
		return "tuple[" + strings.Join(ss, ",") + "]"
	case Obj:
		ss := make([]string, len(t.Attrs))
		for i, a := range t.Attrs {
			o := ""
			for _, x := range t.Opt {
				if x == a.Name {
					o = "?"
				}
			}
			ss[i] = a.Name + o + ":" + a.T.String()
		}
		return "obj{" + strings.Join(ss, ",") + "}"
	case Cap:
		return fmt.Sprintf("cap%d", t.CapID)
	}
	return "?"
}

func (t *T) Clone() *T {
	c := *t
	if t.Elem != nil {
		c.Elem = t.Elem.Clone()
	}
	if t.Elems != nil {
		c.Elems = make([]*T, len(t.Elems))
		for i, e := range t.Elems {
			c.Elems[i] = e.Clone()
		}
	}
	if t.Attrs != nil {
		c.Attrs = make([]Attr, len(t.Attrs))
		for i, a := range t.Attrs {
			c.Attrs[i] = Attr{a.Name, a.T.Clone()}
		}
	}
	c.Opt = append([]string(nil), t.Opt...)
	return &c
}

// ---- the independent structural model ----

// Same: structural identity (the specification of Type.Equals).
func Same(a, b *T) bool {
	if a.K != b.K {
		return false
	}
	switch a.K {
	case List, Set, Map:
		return Same(a.Elem, b.Elem)
	case Tuple:
		if len(a.Elems) != len(b.Elems) {
			return false
		}
		for i := range a.Elems {
			if !Same(a.Elems[i], b.Elems[i]) {
				return false
			}
		}
		return true
	case Obj:
		if len(a.Attrs) != len(b.Attrs) || len(a.Opt) != len(b.Opt) {
			return false
		}
		for i := range a.Attrs {
			if a.Attrs[i].Name != b.Attrs[i].Name || !Same(a.Attrs[i].T, b.Attrs[i].T) {
				return false
			}
		}
		for i := range a.Opt {
			if a.Opt[i] != b.Opt[i] {
				return false
			}
		}
		return true
	case Cap:
		return a.CapID == b.CapID
	}
	return true
}

// Conf: the specification of conformance — equal disregarding optional marks after
// replacing each placeholder of the constraint by the corresponding part of the type.
func Conf(t, c *T) bool {
	if c.K == Dyn {
		return true
	}
	if t.K != c.K {
		return false
	}
	switch t.K {
	case List, Set, Map:
		return Conf(t.Elem, c.Elem)
	case Tuple:
		if len(t.Elems) != len(c.Elems) {
			return false
		}
		for i := range t.Elems {
			if !Conf(t.Elems[i], c.Elems[i]) {
				return false
			}
		}
		return true
	case Obj:
		if len(t.Attrs) != len(c.Attrs) {
			return false
		}
		for i := range t.Attrs {
			if t.Attrs[i].Name != c.Attrs[i].Name || !Conf(t.Attrs[i].T, c.Attrs[i].T) {
				return false
			}
		}
		return true
	case Cap:
		return t.CapID == c.CapID
	}
	return true
}

func HasDyn(t *T) bool {
	switch t.K {
	case Dyn:
		return true
	case List, Set, Map:
		return HasDyn(t.Elem)
	case Tuple:
		for _, e := range t.Elems {
			if HasDyn(e) {
				return true
			}
		}
	case Obj:
		for _, a := range t.Attrs {
			if HasDyn(a.T) {
				return true
			}
		}
	}
	return false
}

func HasCap(t *T) bool {
	switch t.K {
	case Cap:
		return true
	case List, Set, Map:
		return HasCap(t.Elem)
	case Tuple:
		for _, e := range t.Elems {
			if HasCap(e) {
				return true
			}
		}
	case Obj:
		for _, a := range t.Attrs {
			if HasCap(a.T) {
				return true
			}
		}
	}
	return false
}

func HasOpt(t *T) bool {
	switch t.K {
	case List, Set, Map:
		return HasOpt(t.Elem)
	case Tuple:
		for _, e := range t.Elems {
			if HasOpt(e) {
				return true
			}
		}
	case Obj:
		if len(t.Opt) > 0 {
			return true
		}
		for _, a := range t.Attrs {
			if HasOpt(a.T) {
				return true
			}
		}
	}
	return false
}

// Strip: the specification of WithoutOptionalAttributesDeep.
func Strip(t *T) *T {
	c := t.Clone()
	var walk func(*T)
	walk = func(x *T) {
		x.Opt = nil
		if x.Elem != nil {
			walk(x.Elem)
		}
		for _, e := range x.Elems {
			walk(e)
		}
		for _, a := range x.Attrs {
			walk(a.T)
		}
	}
	walk(c)
	return c
}

// FromCty reads a real type back into a tree (through the public API only).
func FromCty(t cty.Type) *T {
	switch {
	case t == cty.DynamicPseudoType:
		return P(Dyn)
	case t == cty.Bool:
		return P(Bool)
	case t == cty.Number:
		return P(Num)
	case t == cty.String:
		return P(Str)
	case t.IsListType():
		return &T{K: List, Elem: FromCty(t.ElementType())}
	case t.IsSetType():
		return &T{K: Set, Elem: FromCty(t.ElementType())}
	case t.IsMapType():
		return &T{K: Map, Elem: FromCty(t.ElementType())}
	case t.IsTupleType():
		r := &T{K: Tuple}
		for _, e := range t.TupleElementTypes() {
			r.Elems = append(r.Elems, FromCty(e))
		}
		return r
	case t.IsObjectType():
		r := &T{K: Obj}
		atys := t.AttributeTypes()
		names := make([]string, 0, len(atys))
		for k := range atys {
			names = append(names, k)
		}
		sort.Strings(names)
		for _, k := range names {
			r.Attrs = append(r.Attrs, Attr{k, FromCty(atys[k])})
		}
		for k := range t.OptionalAttributes() {
			r.Opt = append(r.Opt, k)
		}
		sort.Strings(r.Opt)
		return r
	case t.IsCapsuleType():
		for i, c := range Caps {
			if c == t {
				return &T{K: Cap, CapID: i}
			}
		}
	}
	panic("gt.FromCty: unsupported type")
}

// ---- generation ----

type Cfg struct {
	Depth    int
	DynPct   int // chance of a placeholder at a leaf
	OptPct   int // chance that an object has optional attributes
	CapPct   int
	MaxWidth int
}

var DefaultCfg = Cfg{Depth: 3, DynPct: 12, OptPct: 30, CapPct: 3, MaxWidth: 3}

func Gen(r *rng.R, c Cfg) *T { return gen(r, c, c.Depth) }

func gen(r *rng.R, c Cfg, depth int) *T {
	leaf := func() *T {
		if r.Chance(c.DynPct) {
			return P(Dyn)
		}
		if r.Chance(c.CapPct) {
			return &T{K: Cap, CapID: r.Intn(len(Caps))}
		}
		return P([]Kind{Bool, Num, Str}[r.Intn(3)])
	}
	if depth <= 0 || r.Chance(30) {
		return leaf()
	}
	switch r.Intn(5) {
	case 0:
		return &T{K: List, Elem: gen(r, c, depth-1)}
	case 1:
		return &T{K: Set, Elem: gen(r, c, depth-1)}
	case 2:
		return &T{K: Map, Elem: gen(r, c, depth-1)}
	case 3:
		n := r.Intn(c.MaxWidth + 1)
		t := &T{K: Tuple, Elems: []*T{}}
		for i := 0; i < n; i++ {
			t.Elems = append(t.Elems, gen(r, c, depth-1))
		}
		return t
	default:
		n := r.Intn(c.MaxWidth + 1)
		perm := r.Perm(len(Names))
		names := make([]string, 0, n)
		for i := 0; i < n; i++ {
			names = append(names, Names[perm[i]])
		}
		sort.Strings(names)
		t := &T{K: Obj, Attrs: []Attr{}}
		for _, k := range names {
			t.Attrs = append(t.Attrs, Attr{k, gen(r, c, depth-1)})
			if r.Chance(c.OptPct) && r.Bool() {
				t.Opt = append(t.Opt, k)
			}
		}
		return t
	}
}

// Positions returns pointers to every node of the tree (pre-order).
func Positions(t *T) []*T {
	out := []*T{t}
	if t.Elem != nil {
		out = append(out, Positions(t.Elem)...)
	}
	for _, e := range t.Elems {
		out = append(out, Positions(e)...)
	}
	for _, a := range t.Attrs {
		out = append(out, Positions(a.T)...)
	}
	return out
}

// Mutate returns a copy of t changed at exactly one position (kind change, element change,
// attribute added / dropped / renamed, optional flag toggled, tuple reordered or resized,
// placeholder inserted or resolved, capsule identity changed).
func Mutate(r *rng.R, t *T, c Cfg) *T {
	m := t.Clone()
	ps := Positions(m)
	p := ps[r.Intn(len(ps))]
	switch p.K {
	case List, Set, Map:
		if r.Bool() {
			p.K = []Kind{List, Set, Map}[r.Intn(3)]
		} else {
			*p = T{K: Tuple, Elems: []*T{p.Elem}}
		}
	case Tuple:
		switch r.Intn(4) {
		case 0:
			p.Elems = append(p.Elems, gen(r, c, 1))
		case 1:
			if len(p.Elems) > 0 {
				p.Elems = p.Elems[:len(p.Elems)-1]
			} else {
				p.Elems = append(p.Elems, P(Str))
			}
		case 2:
			if len(p.Elems) >= 2 {
				p.Elems[0], p.Elems[len(p.Elems)-1] = p.Elems[len(p.Elems)-1], p.Elems[0]
			} else {
				*p = T{K: List, Elem: P(Dyn)}
			}
		default:
			if len(p.Elems) > 0 {
				*p = T{K: List, Elem: p.Elems[0]}
			} else {
				*p = T{K: Obj, Attrs: []Attr{}}
			}
		}
	case Obj:
		switch r.Intn(6) {
		case 5: // move an optional flag to another attribute: the same number of optional attributes, other names
			var non []string
			for _, a := range p.Attrs {
				isOpt := false
				for _, o := range p.Opt {
					if o == a.Name {
						isOpt = true
					}
				}
				if !isOpt {
					non = append(non, a.Name)
				}
			}
			if len(p.Opt) > 0 && len(non) > 0 {
				no := append([]string{}, p.Opt...)
				no[r.Intn(len(no))] = non[r.Intn(len(non))]
				sort.Strings(no)
				p.Opt = no
			} else if len(p.Attrs) >= 2 {
				p.Opt = []string{p.Attrs[r.Intn(len(p.Attrs))].Name}
			} else {
				p.Attrs = []Attr{{"a", P(Str)}, {"b", P(Str)}}
				p.Opt = []string{"b"}
			}
		case 0: // toggle an optional flag
			if len(p.Attrs) > 0 {
				k := p.Attrs[r.Intn(len(p.Attrs))].Name
				found := false
				var no []string
				for _, o := range p.Opt {
					if o == k {
						found = true
					} else {
						no = append(no, o)
					}
				}
				if !found {
					no = append(no, k)
					sort.Strings(no)
				}
				p.Opt = no
			} else {
				p.Attrs = []Attr{{"a", P(Str)}}
			}
		case 1: // drop an attribute
			if len(p.Attrs) > 0 {
				i := r.Intn(len(p.Attrs))
				k := p.Attrs[i].Name
				p.Attrs = append(append([]Attr{}, p.Attrs[:i]...), p.Attrs[i+1:]...)
				var no []string
				for _, o := range p.Opt {
					if o != k {
						no = append(no, o)
					}
				}
				p.Opt = no
			} else {
				p.Attrs = []Attr{{"b", P(Num)}}
			}
		case 2: // add an attribute
			for _, k := range Names {
				have := false
				for _, a := range p.Attrs {
					if a.Name == k {
						have = true
					}
				}
				if !have {
					p.Attrs = append(p.Attrs, Attr{k, gen(r, c, 1)})
					sort.Slice(p.Attrs, func(i, j int) bool { return p.Attrs[i].Name < p.Attrs[j].Name })
					if r.Bool() { // the added attribute is optional
						p.Opt = append(p.Opt, k)
						sort.Strings(p.Opt)
					}
					break
				}
			}
		case 3: // to map
			if len(p.Attrs) > 0 {
				*p = T{K: Map, Elem: p.Attrs[0].T}
			} else {
				*p = T{K: Tuple, Elems: []*T{}}
			}
		default: // rename
			if len(p.Attrs) > 0 {
				i := r.Intn(len(p.Attrs))
				old := p.Attrs[i].Name
				for _, k := range Names {
					have := false
					for _, a := range p.Attrs {
						if a.Name == k {
							have = true
						}
					}
					if !have {
						p.Attrs[i].Name = k
						for j, o := range p.Opt {
							if o == old {
								p.Opt[j] = k
							}
						}
						sort.Strings(p.Opt)
						sort.Slice(p.Attrs, func(i, j int) bool { return p.Attrs[i].Name < p.Attrs[j].Name })
						break
					}
				}
			} else {
				p.Attrs = []Attr{{"c", P(Bool)}}
			}
		}
	case Cap:
		if r.Bool() {
			p.CapID = (p.CapID + 1) % len(Caps)
		} else {
			*p = *P(Dyn)
		}
	case Dyn:
		*p = *gen(r, c, 1)
		if p.K == Dyn {
			*p = *P(Str)
		}
	default:
		if r.Chance(40) {
			*p = *P(Dyn)
		} else {
			alts := []Kind{Bool, Num, Str}
			k := alts[r.Intn(3)]
			if k == p.K {
				k = alts[(int(k-Bool)+1)%3]
			}
			*p = *P(k)
		}
	}
	return m
}

// MoveOpt returns a copy of t in which one object type (with at least two attributes) has the same number
// of optional attributes under other names, or nil when t has no such object type.
func MoveOpt(r *rng.R, t *T) *T {
	m := t.Clone()
	var objs []*T
	for _, p := range Positions(m) {
		if p.K == Obj && len(p.Attrs) >= 2 {
			objs = append(objs, p)
		}
	}
	if len(objs) == 0 {
		return nil
	}
	p := objs[r.Intn(len(objs))]
	isOpt := map[string]bool{}
	for _, o := range p.Opt {
		isOpt[o] = true
	}
	var non []string
	for _, a := range p.Attrs {
		if !isOpt[a.Name] {
			non = append(non, a.Name)
		}
	}
	switch {
	case len(p.Opt) > 0 && len(non) > 0:
		no := append([]string{}, p.Opt...)
		no[r.Intn(len(no))] = non[r.Intn(len(non))]
		sort.Strings(no)
		p.Opt = no
	case len(p.Opt) == 0:
		// none optional yet: make one optional here (the partner type gets another one)
		p.Opt = []string{p.Attrs[r.Intn(len(p.Attrs))].Name}
	default:
		return nil // every attribute optional: nothing to move
	}
	return m
}

// Resolve replaces every placeholder by a concrete generated type (a type conforming to t).
func Resolve(r *rng.R, t *T, c Cfg) *T {
	m := t.Clone()
	for _, p := range Positions(m) {
		if p.K == Dyn {
			n := gen(r, Cfg{Depth: 1, DynPct: 0, OptPct: 0, CapPct: 0, MaxWidth: 2}, 1)
			*p = *n
		}
	}
	return Strip(m)
}

// Generalize replaces random sub-types by placeholders (a constraint t conforms to).
func Generalize(r *rng.R, t *T) *T {
	m := t.Clone()
	ps := Positions(m)
	n := 1 + r.Intn(2)
	for i := 0; i < n; i++ {
		p := ps[r.Intn(len(ps))]
		*p = *P(Dyn)
	}
	return m
}

// FromCtyOrNil is FromCty but returns nil instead of panicking on unsupported types.
func FromCtyOrNil(t cty.Type) (ret *T) {
	defer func() {
		if recover() != nil {
			ret = nil
		}
	}()
	return FromCty(t)
}
