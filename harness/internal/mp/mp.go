// Package mp is the harness's MessagePack item tree: a small parser / serialiser of the wire
// format (the level at which Model/Msgpack.v starts), independent of the library go-cty uses.
package mp

import (
	"encoding/binary"
	"fmt"
	"math"
	"math/big"

	"verifharness/internal/cq"
	"verifharness/internal/jv"
)

type Kind int

const (
	Nil Kind = iota
	Bool
	Int
	Uint
	F32
	F64
	Str
	Bin
	Arr
	Map
	Ext
)

type V struct {
	K    Kind
	B    bool
	I    int64
	U    uint64
	F    float64
	S    string // Str / Bin / Ext body
	L    []*V   // Arr items, Map k,v,k,v...
	Code int8   // Ext type code
}

func Parse(b []byte) (*V, []byte, error) {
	if len(b) == 0 {
		return nil, nil, fmt.Errorf("eof")
	}
	c := b[0]
	rest := b[1:]
	need := func(n int) ([]byte, error) {
		if len(rest) < n {
			return nil, fmt.Errorf("truncated")
		}
		x := rest[:n]
		rest = rest[n:]
		return x, nil
	}
	seq := func(n int, k Kind) (*V, []byte, error) {
		v := &V{K: k, L: []*V{}}
		cur := rest
		for i := 0; i < n; i++ {
			x, r, err := Parse(cur)
			if err != nil {
				return nil, nil, err
			}
			v.L = append(v.L, x)
			cur = r
		}
		return v, cur, nil
	}
	switch {
	case c <= 0x7f:
		return &V{K: Int, I: int64(c)}, rest, nil
	case c >= 0xe0:
		return &V{K: Int, I: int64(int8(c))}, rest, nil
	case c >= 0xa0 && c <= 0xbf:
		x, err := need(int(c & 0x1f))
		if err != nil {
			return nil, nil, err
		}
		return &V{K: Str, S: string(x)}, rest, nil
	case c >= 0x90 && c <= 0x9f:
		return seq(int(c&0x0f), Arr)
	case c >= 0x80 && c <= 0x8f:
		return seq(2*int(c&0x0f), Map)
	}
	switch c {
	case 0xc0:
		return &V{K: Nil}, rest, nil
	case 0xc2:
		return &V{K: Bool, B: false}, rest, nil
	case 0xc3:
		return &V{K: Bool, B: true}, rest, nil
	case 0xcc, 0xcd, 0xce, 0xcf:
		n := 1 << (c - 0xcc)
		x, err := need(n)
		if err != nil {
			return nil, nil, err
		}
		var u uint64
		for _, by := range x {
			u = u<<8 | uint64(by)
		}
		return &V{K: Uint, U: u}, rest, nil
	case 0xd0, 0xd1, 0xd2, 0xd3:
		n := 1 << (c - 0xd0)
		x, err := need(n)
		if err != nil {
			return nil, nil, err
		}
		var u uint64
		for _, by := range x {
			u = u<<8 | uint64(by)
		}
		shift := uint(64 - 8*n)
		return &V{K: Int, I: int64(u<<shift) >> shift}, rest, nil
	case 0xca:
		x, err := need(4)
		if err != nil {
			return nil, nil, err
		}
		return &V{K: F32, F: float64(math.Float32frombits(binary.BigEndian.Uint32(x)))}, rest, nil
	case 0xcb:
		x, err := need(8)
		if err != nil {
			return nil, nil, err
		}
		return &V{K: F64, F: math.Float64frombits(binary.BigEndian.Uint64(x))}, rest, nil
	case 0xd9, 0xda, 0xdb, 0xc4, 0xc5, 0xc6:
		var ln int
		var k Kind = Str
		idx := int(c - 0xd9)
		if c <= 0xc6 {
			k = Bin
			idx = int(c - 0xc4)
		}
		x, err := need(1 << idx)
		if err != nil {
			return nil, nil, err
		}
		for _, by := range x {
			ln = ln<<8 | int(by)
		}
		body, err := need(ln)
		if err != nil {
			return nil, nil, err
		}
		return &V{K: k, S: string(body)}, rest, nil
	case 0xdc, 0xdd, 0xde, 0xdf:
		w := 2
		if c == 0xdd || c == 0xdf {
			w = 4
		}
		x, err := need(w)
		if err != nil {
			return nil, nil, err
		}
		n := 0
		for _, by := range x {
			n = n<<8 | int(by)
		}
		if n > len(rest) {
			return nil, nil, fmt.Errorf("declared length exceeds input")
		}
		if c >= 0xde {
			return seq(2*n, Map)
		}
		return seq(n, Arr)
	case 0xd4, 0xd5, 0xd6, 0xd7, 0xd8, 0xc7, 0xc8, 0xc9:
		var ln int
		if c >= 0xd4 {
			ln = 1 << (c - 0xd4)
		} else {
			x, err := need(1 << (c - 0xc7))
			if err != nil {
				return nil, nil, err
			}
			for _, by := range x {
				ln = ln<<8 | int(by)
			}
		}
		tc, err := need(1)
		if err != nil {
			return nil, nil, err
		}
		body, err := need(ln)
		if err != nil {
			return nil, nil, err
		}
		return &V{K: Ext, Code: int8(tc[0]), S: string(body)}, rest, nil
	}
	return nil, nil, fmt.Errorf("unsupported code %#x", c)
}

func ParseAll(b []byte) (*V, error) {
	v, rest, err := Parse(b)
	if err != nil {
		return nil, err
	}
	if len(rest) != 0 {
		return nil, fmt.Errorf("trailing bytes")
	}
	return v, nil
}

func (v *V) Bytes() []byte {
	var out []byte
	hdr := func(fix byte, fixMax int, c16, c32 byte, n int) {
		switch {
		case n <= fixMax:
			out = append(out, fix|byte(n))
		case n < 1<<16:
			out = append(out, c16, byte(n>>8), byte(n))
		default:
			out = append(out, c32, byte(n>>24), byte(n>>16), byte(n>>8), byte(n))
		}
	}
	switch v.K {
	case Nil:
		out = append(out, 0xc0)
	case Bool:
		if v.B {
			out = append(out, 0xc3)
		} else {
			out = append(out, 0xc2)
		}
	case Int:
		switch {
		case v.I >= 0 && v.I <= 127:
			out = append(out, byte(v.I))
		case v.I < 0 && v.I >= -32:
			out = append(out, byte(v.I))
		default:
			out = append(out, 0xd3)
			var b8 [8]byte
			binary.BigEndian.PutUint64(b8[:], uint64(v.I))
			out = append(out, b8[:]...)
		}
	case Uint:
		out = append(out, 0xcf)
		var b8 [8]byte
		binary.BigEndian.PutUint64(b8[:], v.U)
		out = append(out, b8[:]...)
	case F32:
		out = append(out, 0xca)
		var b4 [4]byte
		binary.BigEndian.PutUint32(b4[:], math.Float32bits(float32(v.F)))
		out = append(out, b4[:]...)
	case F64:
		out = append(out, 0xcb)
		var b8 [8]byte
		binary.BigEndian.PutUint64(b8[:], math.Float64bits(v.F))
		out = append(out, b8[:]...)
	case Str:
		n := len(v.S)
		switch {
		case n <= 31:
			out = append(out, 0xa0|byte(n))
		case n < 256:
			out = append(out, 0xd9, byte(n))
		default:
			out = append(out, 0xda, byte(n>>8), byte(n))
		}
		out = append(out, v.S...)
	case Bin:
		n := len(v.S)
		if n < 256 {
			out = append(out, 0xc4, byte(n))
		} else {
			out = append(out, 0xc5, byte(n>>8), byte(n))
		}
		out = append(out, v.S...)
	case Arr:
		hdr(0x90, 15, 0xdc, 0xdd, len(v.L))
		for _, x := range v.L {
			out = append(out, x.Bytes()...)
		}
	case Map:
		hdr(0x80, 15, 0xde, 0xdf, len(v.L)/2)
		for _, x := range v.L {
			out = append(out, x.Bytes()...)
		}
	case Ext:
		n := len(v.S)
		switch n {
		case 1:
			out = append(out, 0xd4)
		case 2:
			out = append(out, 0xd5)
		case 4:
			out = append(out, 0xd6)
		case 8:
			out = append(out, 0xd7)
		case 16:
			out = append(out, 0xd8)
		default:
			if n < 256 {
				out = append(out, 0xc7, byte(n))
			} else {
				out = append(out, 0xc8, byte(n>>8), byte(n))
			}
		}
		out = append(out, byte(v.Code))
		out = append(out, v.S...)
	}
	return out
}

// Coq prints the tree as a term of Model/Msgpack.v's [mp]; ok=false when the tree uses items the
// model does not represent (such cases go to the implementation-side oracle only).
func (v *V) Coq() (string, bool) {
	switch v.K {
	case Nil:
		return "MNil", true
	case Bool:
		return "(MBool " + cq.Bool(v.B) + ")", true
	case Int:
		return "(MInt " + cq.Z(v.I) + ")", true
	case Uint:
		return "(MInt " + cq.BigZ(new(big.Int).SetUint64(v.U)) + ")", true
	case F32, F64:
		if math.IsNaN(v.F) {
			return "MNaN", true
		}
		return "(MF64 " + cq.BF(new(big.Float).SetFloat64(v.F)) + ")", true
	case Str:
		return "(MStr " + cq.Str(v.S) + ")", true
	case Bin:
		t, err := jv.Parse([]byte(v.S))
		if err != nil {
			return "(MBin " + cq.Str(v.S) + " None)", true
		}
		return "(MBin " + cq.Str(v.S) + " (Some " + t.Coq() + "))", true
	case Arr:
		items := make([]string, len(v.L))
		for i, x := range v.L {
			s, ok := x.Coq()
			if !ok {
				return "", false
			}
			items[i] = s
		}
		return "(MArr " + cq.List(items) + ")", true
	case Map:
		var items []string
		for i := 0; i+1 < len(v.L); i += 2 {
			a, ok1 := v.L[i].Coq()
			b, ok2 := v.L[i+1].Coq()
			if !ok1 || !ok2 {
				return "", false
			}
			items = append(items, cq.Pair(a, b))
		}
		return "(MMap " + cq.List(items) + ")", true
	case Ext:
		if len(v.S) <= 1 {
			return "(MUnk 0 [])", true
		}
		if v.Code != 0x0c || len(v.S) > 1024 {
			return "MExt", true
		}
		n, rest, ok := mapHeader([]byte(v.S))
		if !ok {
			c := v.S[0]
			if c == 0xc0 || (c >= 0xd4 && c <= 0xd8) || (c >= 0xc7 && c <= 0xc9) {
				return "", false // nil or ext-prefixed refinement body: library corner not modelled
			}
			return "MExt", true // not a map: a decoding error at every target type
		}
		var items []string
		for i := 0; i < 2*n && i < 2048; i++ {
			x, r, err := Parse(rest)
			if err != nil {
				items = append(items, "MBad")
				break
			}
			sx, ok := x.Coq()
			if !ok {
				return "", false
			}
			items = append(items, sx)
			rest = r
		}
		if n == 0 {
			// a body that is a map without entries (not an empty body): the decoder still goes through the refinement
			// builder, which answers with the trivial refinement of the type; one placeholder item keeps the two apart
			return "(MUnk 0 [MNil])", true
		}
		return "(MUnk " + cq.Z(int64(n)) + " " + cq.List(items) + ")", true
	}
	return "", false
}

// mapHeader reads a map header (fixmap / map16 / map32) and returns the entry count and the rest.
func mapHeader(b []byte) (int, []byte, bool) {
	if len(b) == 0 {
		return 0, nil, false
	}
	c := b[0]
	switch {
	case c >= 0x80 && c <= 0x8f:
		return int(c & 0x0f), b[1:], true
	case c == 0xde && len(b) >= 3:
		return int(binary.BigEndian.Uint16(b[1:3])), b[3:], true
	case c == 0xdf && len(b) >= 5:
		return int(binary.BigEndian.Uint32(b[1:5])), b[5:], true
	}
	return 0, nil, false
}

// JTable lists, for every str item in the type position of a two-element array, its content
// parsed as JSON (the decoder's DecodeBytes takes str items as well as bin items there).
func (v *V) JTable() string {
	var items []string
	seen := map[string]bool{}
	var walk func(x *V)
	walk = func(x *V) {
		if x.K == Arr && len(x.L) == 2 && x.L[0].K == Str && !seen[x.L[0].S] {
			if t, err := jv.Parse([]byte(x.L[0].S)); err == nil {
				seen[x.L[0].S] = true
				items = append(items, cq.Pair(cq.Str(x.L[0].S), t.Coq()))
			}
		}
		for _, y := range x.L {
			walk(y)
		}
	}
	walk(v)
	return cq.List(items)
}

// Strings lists every str / bin content in the tree (for normalisation tables).
func (v *V) Strings(f func(string)) {
	if v.K == Str || v.K == Bin {
		f(v.S)
	}
	if v.K == Ext && len(v.S) > 1 && v.Code == 0x0c {
		if _, rest, ok := mapHeader([]byte(v.S)); ok {
			for len(rest) > 0 {
				x, r, err := Parse(rest)
				if err != nil {
					break
				}
				x.Strings(f)
				rest = r
			}
		}
	}
	for _, y := range v.L {
		y.Strings(f)
	}
}
