// Package cq prints Go-side data as Gallina terms of the model's types
// (case files open N_scope, so byte and N literals are bare numerals).
package cq

import (
	"fmt"
	"math/big"
	"sort"
	"strings"

	"github.com/zclconf/go-cty/cty"
)

func Bool(b bool) string {
	if b {
		return "true"
	}
	return "false"
}

// Str prints a Go string as a byte list.
func Str(s string) string {
	if len(s) == 0 {
		return "[]"
	}
	var sb strings.Builder
	sb.WriteByte('[')
	for i := 0; i < len(s); i++ {
		if i > 0 {
			sb.WriteByte(';')
		}
		fmt.Fprintf(&sb, "%d", s[i])
	}
	sb.WriteByte(']')
	return sb.String()
}

func List(items []string) string {
	if len(items) == 0 {
		return "[]"
	}
	return "[" + strings.Join(items, "; ") + "]"
}

func Pair(a, b string) string { return "(" + a + ", " + b + ")" }

func StrList(ss []string) string {
	items := make([]string, len(ss))
	for i, s := range ss {
		items[i] = Str(s)
	}
	return List(items)
}

func N(n uint64) string { return fmt.Sprintf("%d", n) }
func Nat(n int) string  { return fmt.Sprintf("%d%%nat", n) }
func Z(z int64) string  { return fmt.Sprintf("(%d)%%Z", z) }
func BigZ(z *big.Int) string {
	return "(" + z.String() + ")%Z"
}
func BigN(z *big.Int) string { return z.String() }

func OptionS(present bool, s string) string {
	if !present {
		return "None"
	}
	return "(Some " + s + ")"
}

// Capsule identities: the harness uses a fixed pool of capsule types.
var capIDs = map[cty.Type]int{}

func RegisterCapsule(t cty.Type, id int) { capIDs[t] = id }

// Ty prints a cty.Type as a term of Model/Ty.v's [ty] (attributes key-sorted).
func Ty(t cty.Type) string {
	switch {
	case t == cty.NilType:
		panic("cq.Ty: NilType")
	case t == cty.DynamicPseudoType:
		return "TDyn"
	case t == cty.Bool:
		return "TBool"
	case t == cty.Number:
		return "TNum"
	case t == cty.String:
		return "TStr"
	case t.IsListType():
		return "(TList " + Ty(t.ElementType()) + ")"
	case t.IsSetType():
		return "(TSet " + Ty(t.ElementType()) + ")"
	case t.IsMapType():
		return "(TMap " + Ty(t.ElementType()) + ")"
	case t.IsTupleType():
		ets := t.TupleElementTypes()
		items := make([]string, len(ets))
		for i, et := range ets {
			items[i] = Ty(et)
		}
		return "(TTuple " + List(items) + ")"
	case t.IsObjectType():
		atys := t.AttributeTypes()
		names := make([]string, 0, len(atys))
		for k := range atys {
			names = append(names, k)
		}
		sort.Strings(names)
		items := make([]string, len(names))
		for i, k := range names {
			items[i] = Pair(Str(k), Ty(atys[k]))
		}
		var opts []string
		for k := range t.OptionalAttributes() {
			opts = append(opts, k)
		}
		sort.Strings(opts)
		return "(TObj " + List(items) + " " + StrList(opts) + ")"
	case t.IsCapsuleType():
		id, ok := capIDs[t]
		if !ok {
			panic("cq.Ty: unregistered capsule type")
		}
		return fmt.Sprintf("(TCap %d)", id)
	}
	panic("cq.Ty: unknown type kind")
}

// Res helpers
func Ok(s string) string { return "(Ok " + s + ")" }

const ErrOther = "(Err OtherError)"
const PanicR = "Panic"
