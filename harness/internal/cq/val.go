package cq

import (
	"fmt"
	"math/big"
	"sort"
	"strings"

	"github.com/zclconf/go-cty/cty"
)

// BF prints a *big.Float as a term of Model/BigFloat.v's [bf] (exact sign, mantissa, exponent, precision).
func BF(f *big.Float) string {
	prec := int64(f.Prec())
	if f.IsInf() {
		return fmt.Sprintf("(BInf %s %s)", Bool(f.Signbit()), Z(prec))
	}
	if f.Sign() == 0 {
		return fmt.Sprintf("(BFin %s 0 %s %s)", Bool(f.Signbit()), Z(0), Z(prec))
	}
	mant := new(big.Float).SetPrec(f.Prec())
	exp := f.MantExp(mant) // f = mant * 2^exp, 0.5 <= |mant| < 1
	mant.SetMantExp(mant, int(f.Prec()))
	i, acc := mant.Int(nil)
	if acc != big.Exact {
		panic("cq.BF: inexact mantissa")
	}
	i.Abs(i)
	e := int64(exp) - prec
	tz := i.TrailingZeroBits()
	i.Rsh(i, tz)
	e += int64(tz)
	return fmt.Sprintf("(BFin %s %s %s %s)", Bool(f.Signbit()), i.String(), Z(e), Z(prec))
}

var numIDs = []string{"IdFresh", "IdZero", "IdPInf", "IdNInf"}

// MarkID maps the harness's mark values (ints) to the model's mark numbers.
func MarkID(m interface{}) uint64 {
	switch x := m.(type) {
	case int:
		return uint64(x)
	case string:
		var h uint64 = 1000
		for i := 0; i < len(x); i++ {
			h = h*31 + uint64(x[i])
		}
		return h
	}
	panic(fmt.Sprintf("cq.MarkID: unsupported mark %#v", m))
}

func Marks(ms cty.ValueMarks) string {
	ids := make([]uint64, 0, len(ms))
	for m := range ms {
		ids = append(ids, MarkID(m))
	}
	sort.Slice(ids, func(i, j int) bool { return ids[i] < ids[j] })
	items := make([]string, len(ids))
	for i, id := range ids {
		items[i] = N(id)
	}
	return List(items)
}

// capsule pointers: identity -> small number
var capPtrs = map[interface{}]int{}

func RegisterCapsulePtr(p interface{}, id int) { capPtrs[p] = id }

func tri(i int) string { return []string{"TU", "TT", "TF"}[i] }

func numv(v cty.Value) string {
	return Pair(BF(v.AsBigFloat()), numIDs[cty.VerifNumID(v)])
}

func Refinement(v cty.Value) string {
	r, ok := cty.VerifRefinement(v)
	if !ok {
		panic("cq.Refinement: known value")
	}
	switch r.Kind {
	case "nil":
		return "RNone"
	case "nullable":
		return "(RNullable " + tri(r.IsNull) + ")"
	case "string":
		return "(RStr " + tri(r.IsNull) + " " + Str(r.Prefix) + ")"
	case "number":
		lo, hi := "None", "None"
		if r.HasMin {
			lo = "(Some " + numv(r.Min) + ")"
		}
		if r.HasMax {
			hi = "(Some " + numv(r.Max) + ")"
		}
		return fmt.Sprintf("(RNum %s %s %s %s %s)", tri(r.IsNull), lo, hi, Bool(r.MinInc), Bool(r.MaxInc))
	case "collection":
		return fmt.Sprintf("(RColl %s %s %s)", tri(r.IsNull), Z(int64(r.MinLen)), Z(int64(r.MaxLen)))
	}
	panic("cq.Refinement: unexpected kind " + r.Kind)
}

// Payload prints the payload of a value as a term of Model/Value.v's [payload].
func Payload(v cty.Value) string {
	if v.IsMarked() {
		u, ms := v.Unmark()
		return "(PMarked " + Marks(ms) + " " + Payload(u) + ")"
	}
	if !v.IsKnown() {
		return "(PUnk " + Refinement(v) + ")"
	}
	if v.IsNull() {
		return "PNull"
	}
	ty := v.Type()
	switch {
	case ty == cty.Bool:
		return "(PBool " + Bool(v.True()) + ")"
	case ty == cty.Number:
		return "(PNum " + BF(v.AsBigFloat()) + " " + numIDs[cty.VerifNumID(v)] + ")"
	case ty == cty.String:
		return "(PStr " + Str(v.AsString()) + ")"
	case ty.IsListType() || ty.IsTupleType():
		var items []string
		for it := v.ElementIterator(); it.Next(); {
			_, ev := it.Element()
			items = append(items, Payload(ev))
		}
		return "(PSeq " + List(items) + ")"
	case ty.IsMapType() || ty.IsObjectType():
		var items []string
		for it := v.ElementIterator(); it.Next(); {
			kv, ev := it.Element()
			items = append(items, Pair(Str(kv.AsString()), Payload(ev)))
		}
		return "(PMap " + List(items) + ")"
	case ty.IsSetType():
		var bs []string
		for _, b := range cty.VerifSetBuckets(v) {
			ms := make([]string, len(b.Members))
			for i, m := range b.Members {
				ms[i] = Payload(m)
			}
			bs = append(bs, Pair(Z(int64(b.Hash)), List(ms)))
		}
		return "(PSet " + List(bs) + ")"
	case ty.IsCapsuleType():
		id, ok := capPtrs[v.EncapsulatedValue()]
		if !ok {
			panic("cq.Payload: unregistered capsule pointer")
		}
		return fmt.Sprintf("(PCap %d)", id)
	}
	panic(fmt.Sprintf("cq.Payload: unsupported %#v", v))
}

// Val prints a value as a term of [value].
func Val(v cty.Value) string { return "(V " + Ty(v.Type()) + " " + Payload(v) + ")" }

func ValList(vs []cty.Value) string {
	items := make([]string, len(vs))
	for i, v := range vs {
		items[i] = Val(v)
	}
	return List(items)
}

// ResVal prints the outcome of an API call returning a value: ok / panic.
func ResVal(v cty.Value, panicked bool) string {
	if panicked {
		return PanicR
	}
	return Ok(Val(v))
}

// Show is a compact human-readable rendering for evidence samples and replays.
func Show(v cty.Value) string {
	s := fmt.Sprintf("%#v", v)
	s = strings.ReplaceAll(s, "cty.", "")
	if len(s) > 400 {
		s = s[:400] + "…"
	}
	return s
}
