module verifharness

go 1.18

require (
	github.com/zclconf/go-cty v0.0.0
	golang.org/x/text v0.11.0
)

require github.com/apparentlymart/go-textseg/v15 v15.0.0

replace github.com/zclconf/go-cty => /repo
