module verifharness

go 1.18

require (
	github.com/zclconf/go-cty v0.0.0
	golang.org/x/text v0.11.0
)

require github.com/apparentlymart/go-textseg/v15 v15.0.0

require (
	github.com/vmihailenco/msgpack/v5 v5.3.5 // indirect
	github.com/vmihailenco/tagparser/v2 v2.0.0 // indirect
)

replace github.com/zclconf/go-cty => /repo
