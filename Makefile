# /verif build: `make setup` builds everything the checks need from files on disk (offline).
export GOFLAGS=-mod=mod
export GOPROXY=off
export GOSUMDB=off
export GOTOOLCHAIN=local

.PHONY: setup harness coq clean
setup: harness coq

harness:
	mkdir -p bin work
	cp /repo/go.sum harness/go.sum
	cd harness && go build -tags verif -o ../bin/vh ./cmd/vh

coq: harness
	mkdir -p coq/Gen work/gen
	./bin/vh xlate -out coq/Gen
	cd coq && ./mkproject.sh && timeout 3000 $(MAKE) -j8

clean:
	-cd coq && [ -f Makefile ] && $(MAKE) clean
	rm -rf bin work coq/Makefile coq/Makefile.conf coq/_CoqProject coq/.Makefile.d
