"""Per-property configuration of ./check."""

TB_COMMON = [
    "Coq 8.16.1 kernel, coqc, vm_compute (no native_compute)",
    "Go harness (generators, printing of observed outcomes as Gallina terms, implementation-side oracle)",
    "the hand-written Gallina model is tied to /repo by differential evaluation on generated inputs (correspondence), not by proof",
]

TB_VALUE = TB_COMMON + [
    "math/big.Float is modelled bit-exactly (Model/BigFloat.v, go1.23.5) and validated by the correspondence, not verified",
    "verif hooks in /repo (cty/verif_hooks.go, cty/set/verif_hooks.go): read-only views of refinements, number identity, set buckets",
    "string quoting (%q) is modelled for ASCII + printable UTF-8 only; strings outside that domain are not generated",
]

PROPS = {
    "C02": {
        "n_quick": 220, "n_thorough": 12000,
        "check_fn": "kops_check",
        "rule": "number pairs from a pool (singletons, int64/uint64 limits, float64-derived, 512-bit parsed, odd precisions, fresh infinities; "
                "thorough: full pool cross product) x 11 binary + 2 unary ops; booleans exhaustively; collections of 11 fixed + generated types x keys in and "
                "out of range (n-1, n, n+1, -1, fractions, wrong type); big.Float text/parse family.  Non-trivial = every case (operands are never both trivial "
                "duplicates: distinctness counted on the Gallina term)",
        "trusted_base": TB_VALUE,
        "assumptions": ["capsule operations are outside the model (identity only)"],
        "partial": ["correct rounding w.r.t. exact rationals is proved only in the no-rounding case (C02_add_exact_partial); the general half-ulp bound is "
                    "checked on every generated case against math/big.Rat by the implementation-side oracle, not yet a theorem"],
    },
    "C07": {
        "n_quick": 400, "n_thorough": 4000,
        "check_fn": "k07_check",
        "rule": "types generated to depth 3 (4 thorough) over all kinds with placeholders, optional attributes, capsules; "
                "pairs = identical / single-position mutant / independent; JSON type documents = real encoder output plus "
                "token-level mutants.  A case is non-trivial unless it compares two identical primitive types; distinct = "
                "distinct Gallina case term",
        "trusted_base": TB_COMMON + ["encoding/json byte<->token mapping (harness parses implementation output into token trees)"],
        "assumptions": ["attribute names in generated types are NFC-stable (normalisation tables are shipped for the JSON decoder cases)",
                        "capsule types are modelled by identity only"],
    },
}
