"""Per-property configuration of ./check."""

TB_COMMON = [
    "Coq 8.16.1 kernel, coqc, vm_compute (no native_compute)",
    "Go harness (generators, printing of observed outcomes as Gallina terms, implementation-side oracle)",
    "the hand-written Gallina model is tied to /repo by differential evaluation on generated inputs (correspondence), not by proof",
]

PROPS = {
    "C07": {
        "n_quick": 400, "n_thorough": 4000,
        "check_fn": "k07_check",
        "rule": "types generated to depth 3 (4 thorough) over all kinds with placeholders, optional attributes, capsules; "
                "pairs = identical / single-position mutant / independent; JSON type documents = real encoder output plus "
                "token-level mutants.  A case is non-trivial unless it compares two identical primitive types; distinct = "
                "distinct Gallina case term",
        "trusted_base": TB_COMMON + ["encoding/json byte<->token mapping (harness parses implementation output into token trees)"],
        "assumptions": ["attribute names in generated types are NFC-stable (normalisation tables are shipped for the JSON decoder cases)",
                        "capsule types are modelled by identity only"],
    },
}
