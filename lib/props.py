"""Per-property configuration of ./check."""

TB_COMMON = [
    "Coq 8.16.1 kernel, coqc, vm_compute (no native_compute)",
    "Go harness (generators, printing of observed outcomes as Gallina terms, implementation-side oracle)",
    "the hand-written Gallina model is tied to /repo by differential evaluation on generated inputs (correspondence), not by proof",
]

TB_VALUE = TB_COMMON + [
    "math/big.Float is modelled bit-exactly (Model/BigFloat.v, go1.23.5) and validated by the correspondence, not verified",
    "verif hooks in /repo (cty/verif_hooks.go, cty/set/verif_hooks.go): read-only views of refinements, number identity, set buckets",
    "string quoting (%q) is modelled for ASCII + printable UTF-8 only; strings outside that domain are not generated",
]

PROPS = {
    "C11": {
        "n_quick": 4500, "n_thorough": 40000,
        "check_fn": "k11_check",
        "rule": "every exported standard-library function (80, table regenerated from the source) and conversion functions for 10 representative target types, round-robin; arguments from a "
                "per-function generator of mostly admissible wholly known argument lists (75%) or generated from the parameter constraints alone with dynamic constraints instantiated "
                "arbitrarily (25%); 6% with wrong arity; then the same list with nulls, unknowns, dynamic values, top-level and nested marks and nested unknowns injected at random positions; "
                "ReturnType, ReturnTypeForValues and Call on each; non-trivial = every call",
        "trusted_base": TB_VALUE + ["Gen/SpecTable.v is produced by the harness's go/ast translator from cty/function/stdlib/*.go on every run (parameter constraints, flags, variadic parameter, "
                                    "RefineResult as builder calls); the translator is trusted to read the literals correctly (an unsupported expression aborts the run)",
                                    "the Type and Impl callbacks of the functions are not modelled here: the model is the call protocol with the callbacks' observed answers plugged in"],
        "assumptions": ["capsule-typed arguments (bytes functions) have no model case"],
        "partial": ["theorems hold for every specification in the generated table and every callback behaviour (no escaping panic, implementation contract); that no implementation panics "
                    "internally and that predicted types are sound is decided per generated call by the implementation-side oracle and, for the protocol's own answers (argument errors, dynamic "
                    "and unknown short-circuits with marks and result refinements), by correspondence with the model"],
    },
    "C12": {
        "n_quick": 4500, "n_thorough": 40000,
        "check_fn": "k11_check",
        "rule": "every standard-library function round-robin x generated wholly known argument lists on which the call succeeds x three weakenings each (arguments and nested members replaced "
                "by typed unknowns, unrefined or with refinements checked to admit the replaced part); the weakened call must succeed and its result admit the original result; wholly known "
                "arguments must give a wholly known result; non-trivial = every weakened call",
        "trusted_base": TB_VALUE + ["Gen/SpecTable.v as for C11", "the admits relation of the oracle (harness/internal/gv) mirrors Model/Admits.v"],
        "assumptions": ["replacements keep the argument's type (typed unknowns); DynamicVal as an argument is C11's case"],
        "partial": ["theorems: the protocol's short-circuit answer is the unknown of the predicted type with marks and result refinement, and such an unknown admits every conforming unmarked value; "
                    "the hand-written unknown handling inside individual functions is decided by the oracle only",
                    "KF-C12-1: setproduct's length lower bound of 1 for possibly-empty arguments (pinned by the existing test suite)"],
    },
    "C13": {
        "n_quick": 2700, "n_thorough": 40000,
        "check_fn": "k13_check",
        "rule": "27 functions (length, element, hasindex, index, lookup, contains, keys, values, merge, concat, flatten, slice, chunklist, distinct, compact, reverse, sort, zipmap, range, "
                "coalesce, coalescelist, set membership / union / intersection / subtraction / symmetric difference, setproduct) round-robin x wholly known argument lists from the per-function "
                "generators (empty and non-empty collections, duplicates, nulls where allowed, list/tuple and map/object forms, negative / fractional / huge / out-of-range indices, sizes and steps, "
                "infinities); every call compared with the Gallina reference (value and type; errors by class); non-trivial = every call",
        "trusted_base": TB_VALUE + ["the reference (Model/StdRef.v) is a specification written from the functions' documentation; where it uses type unification and conversion it calls the "
                                    "model of cty/convert (C08/C09), and the null-argument rule reads the parameter declarations from the generated specification table"],
        "assumptions": ["negative zero is not generated (it is equal to zero but hashed apart inside sets: KF-C03-1)", "numbers with binary exponent beyond +-600 are not generated"],
        "partial": ["theorems are laws of the reference (reverse involution, chunk partition / bounds, slice length / whole / adjacency, index wrap-around, product count / widths, sort "
                    "ascending and permutation); that the implementation equals the reference is decided per generated call by the correspondence, not proved"],
        "corr_cases_are_inputs": True,
    },
    "C14": {
        "n_quick": 4500, "n_thorough": 60000,
        "check_fn": "k14_check",
        "rule": "45 functions round-robin x wholly known argument lists from the per-function generators: numbers of every magnitude / precision class incl. infinities, strings over an "
                "alphabet with multi-code-point grapheme clusters (combining sequences, emoji with modifiers and ZWJ, regional indicators), cut sets and separators that fall inside clusters, "
                "format strings from the verb grammar with flags / width / precision / argument indices plus one directed verb-and-argument pair against fmt, RFC 3339 stamps (valid and "
                "invalid), durations, date format strings with every verb and quoting form, JSON documents and JSON-representable values, CSV documents; non-trivial = every call",
        "trusted_base": TB_VALUE + ["Go's strings, fmt, math, math/big (Rat), time, encoding/csv packages are the implementation-side reference for the functions documented as agreeing with them",
                                    "grapheme cluster segmentation is the textseg library on both sides; the Gallina reference receives the segmentation with each case",
                                    "NFC normalisation of results is supplied as a per-case table built from the Go reference's raw results"],
        "assumptions": ["negative zero is not generated", "numbers with binary exponent beyond +-600 are not generated"],
        "partial": ["the Gallina reference and its theorems cover arithmetic, comparison, min/max, int/ceil/floor/signum, parseint, chomp, indent, trimprefix/suffix, replace, split, join, "
                    "strlen, reverse, substr and jsonencode (28 functions); case mapping, trimspace/trim, title, log, pow, format, formatlist, regex, csvdecode, formatdate, timeadd and "
                    "jsondecode are decided against Go's standard library and inverse laws by the oracle only",
                    "format is compared with fmt on single directed verbs; the full verb grammar and formatlist are exercised for totality and type soundness (C11) only"],
        "corr_cases_are_inputs": True,
    },
    "C15": {
        "n_quick": 420, "n_thorough": 9000,
        "check_fn": "k15_check",
        "rule": "generated wholly known values of generated types (depth 3, nulls at any depth, empty collections, numbers of every pool class, non-ASCII strings; 1/6 marked or weakened "
                "for the rejection clause) x a constraint they conform to with dynamic placeholders at arbitrary positions; documents from a JSON grammar (depth 3; duplicate keys equal or "
                "conflicting, nested nulls, 15 number spellings, strings / keys that normalise); non-trivial = every marshal case and every structured document",
        "trusted_base": TB_VALUE + ["encoding/json is the byte<->token mapping on both sides (harness parses the produced bytes into token trees, serialises generated trees to bytes)"],
        "assumptions": ["numbers with binary exponent beyond +-600 are not generated (decimal expansion cost in the model)", "capsule values are not generated (their encoding is delegated to encoding/json)"],
        "refuted": ["C15_integer_text_refuted (KF-C15-1)"],
        "partial": ["round trip is a theorem for strings, booleans, nulls and for the dynamic wrapper (reduction to the static case); for numbers and structured values the round-trip property is "
                    "evaluated on the model for every generated value (k15_prop by vm_compute) and on the implementation by the oracle",
                    "KF-C15-2: with placeholders nested below the top of the constraint, nulls and empty collections lose their type (known finding)"],
    },
    "C16": {
        "n_quick": 700, "n_thorough": 12000,
        "check_fn": "k16_check",
        "rule": "generated unmarked capsule-free values of generated types (depth 3; nulls and unknowns refined in every way (nullness, number bounds incl. infinite and exclusive ones, "
                "string prefixes incl. ones longer than 256 bytes, collection length bounds) at every depth; numbers of every pool class: int64/uint64 limits, whole numbers beyond them, exact "
                "float64, other decimals, precisions 24/53/64/100/512) x a constraint they conform to with dynamic placeholders at arbitrary positions; 1/14 marked at some depth for the "
                "rejection clause; non-trivial = every case",
        "trusted_base": TB_VALUE + ["the byte<->item mapping of MessagePack is the harness's own parser (harness/internal/mp), independent of vmihailenco/msgpack: the model works on item trees",
                                    "SafeKnownPrefix on prefixes longer than 256 bytes is supplied to the model as a per-case table (it is C05's subject)"],
        "assumptions": ["numbers with binary exponent beyond +-600 are not generated (decimal expansion cost in the model)"],
        "partial": ["theorems cover marked-value rejection, the integer and infinity encodings, dynamic unknowns and the panic-freedom of the refinement replay; the round trip of string-encoded "
                    "numbers, of refinements and of structured values is evaluated per generated case on both sides (correspondence + oracle), not proved for all inputs",
                    "KF-C16-1: with placeholders nested below the top of the constraint, nulls, empty collections and unknown values lose their type (known finding, same format gap as KF-C15-2)"],
    },
    "C17": {
        "n_quick": 1300, "n_thorough": 20000,
        "check_fn": "k17_check", "prop_fn": "k17_prop",
        "rule": "169 directed hostile inputs (array32/map32/str32/bin32/ext32/array16/map16 headers claiming up to 2^31 elements at the top, nested, inside a dynamic wrapper and inside a refinement body, "
                "against 9 target types and both ImpliedType functions; 6 MB of nesting for all five decoders) run in an isolated worker process under ulimit -v; then valid MessagePack / JSON "
                "encodings of generated values (unknowns refined in every way for MessagePack), grammar documents and type descriptions, with 1..4 byte mutations (flip, set, insert, delete, "
                "truncate, length-field edits, splices, duplications), JSON token mutations, item-tree mutations (items of another kind, nil / bin / non-string keys, duplicate and dropped "
                "entries, dynamic wrappers with assorted type descriptors incl. optional attributes, refinement bodies with contradictory / out-of-range / wrongly typed / unknown-key entries, "
                "wrong counts, oversize and foreign extensions), raw random bytes x target types equal to, mutated from, generalised from or unrelated to the original type; every decode runs "
                "first in the isolated worker (crash, allocation volume), then in process (panic, well-formedness hook, conformance); non-trivial = every case",
        "trusted_base": TB_VALUE + ["MessagePack framing: the harness's own parser (harness/internal/mp) turns bytes into item trees; inputs that are not an item (truncated, reserved code) "
                                    "have no model case and are decided by the oracle alone",
                                    "encoding/json is the byte<->token mapping for JSON; documents that are not valid JSON have no model case",
                                    "vmihailenco/msgpack's typed readers (what item kinds DecodeBool/DecodeInt64/DecodeString/DecodeBytes/Decode*Len accept) are modelled from its v5.3.5 source and "
                                    "validated by the correspondence on item-level mutations",
                                    "allocation volume is runtime.MemStats.TotalAlloc around the call in the worker; crash = worker process death under ulimit -v 6 GiB"],
        "assumptions": ["target types carry no optional-attribute annotations and no capsule types (value types)", "number texts with more than 4 exponent digits or 400 characters have no model case (cost)"],
        "partial": ["theorems: MessagePack ImpliedType never panics (all item trees, any fuel); the refinement replay never panics (all entry streams, all types); foreign / broken items are refused. "
                    "Conformance of every decoded value's type and panic-freedom of the value decoders are evaluated on the model for every generated input (k17_prop by vm_compute) and on the "
                    "implementation by the oracle; they are not yet theorems for all inputs",
                    "stack depth, allocation volume and process death are runtime behaviour the Gallina model cannot exhibit: decided by the isolated worker only"],
        "prop_cases_are_inputs": True,
    },
    "C18": {
        "n_quick": 260, "n_thorough": 6000,
        "check_fn": "k18_check",
        "rule": "boundary numbers (2^k-2 .. 2^k+1 for k in 7,8,15,16,31,32,63,64 with both signs, fractions, float32/float64 limits and subnormals, 1e39, 1e400, infinities, signed zero) "
                "and pool / random numbers x 14 Go numeric targets (int8..int64, int, uint8..uint64, uint, float32, float64, big.Int, big.Float); decoded values re-encoded; a struct family "
                "(tagged struct with uint16, []string, map[string]int8, nested struct, pointer to struct, embedded cty.Value, map[string][]*int; nil slices / maps / pointers) round-tripped "
                "through ImpliedType / ToCtyValue / FromCtyValue; non-trivial = every case",
        "trusted_base": TB_COMMON + ["math/big.Float modelled bit-exactly (Model/BigFloat.v), including Float64/Int64/Uint64 accuracy flags, validated by the correspondence",
                                     "reflection-based struct/slice/map/pointer handling of gocty is exercised by the implementation-side oracle only (not modelled)"],
        "assumptions": ["NaN is excluded (big.Float cannot hold it)"],
        "partial": ["the Gallina model and theorems cover the numeric decoding/encoding (all 14 numeric targets); slices, maps, structs, pointers and embedded dynamic values are decided by the round-trip oracle on a fixed Go type family"],
    },
    "C19": {
        "n_quick": 260, "n_thorough": 8000,
        "check_fn": "k19_check",
        "rule": "generated values (nested to depth 3, null / refined unknown / marked members at every depth, sets, capsules): full Walk listing, every reported path applied back, "
                "valid and mutated (invalid: missing attribute, out-of-range / wrong-kind / unknown keys) paths, identity Transform, replacement of one member, path-indexed mark "
                "removal and re-application, UnknownAsNull, path equality / prefix; PathSet histories of 4-17 operations over a 16-path pool with equal numbers at different "
                "precisions; non-trivial = values with at least one nested member / histories",
        "trusted_base": TB_VALUE + ["PathSet.List order follows Go's crc64 buckets and is compared as a set; the model's path hash is another function of the same path skeleton"],
        "assumptions": ["callbacks passed to Transform in the cases are identity / single replacement"],
        "partial": ["theorems: path-set laws (coherence for all paths; mathematical-set behaviour for known keys), path composition, walk root/leaf behaviour, attribute steps; 'each member exactly once', "
                    "'path applied to the root returns the visited member', transform identity/replacement and the mark round trip are oracle-checked on every generated value and compared with the model, not yet theorems"],
    },
    "C08": {
        "n_quick": 900, "n_thorough": 14000,
        "check_fn": "k08_check", "prop_fn": "k08_prop",
        "rule": "generated values (depth 3; known, null, unknown refined in every way, marked, at every depth) of generated types x target types derived from the value's type by 1..3 "
                "kind changes (list/set/tuple, map/object), element conversions (to string, between primitives), dropped / added / optional attributes and inserted placeholders, or "
                "unrelated, or the same; one third as (known value, weakened unknown) pairs for the admits clause; for every type pair both lookups and two applications of each returned "
                "conversion to fresh values of the source type; every Convert repeated 4 times for stability under Go map order; non-trivial = every case",
        "trusted_base": TB_VALUE + ["MismatchMessage (error text) and capsule conversion operations are not modelled (errors are compared by class; capsule types are not generated)"],
        "assumptions": ["numbers with binary exponent beyond +-600 are not generated (decimal expansion cost in the model)"],
        "refuted": [],
        "partial": ["theorems cover the identity clause, the uniform wrapper (marks, dynamic target, null and unknown inputs never reach the type-directed conversion) and the primitive tables; "
                    "conformance, idempotence, identity and safe-never-fails are evaluated on the model for every generated case (k08_prop by vm_compute) and on the implementation by the oracle, "
                    "not proved for all inputs",
                    "KF-C08-1: number -> string uses the shortest text at the number's own precision, so the round trip of a number held below 512 bits is not equal (same root as KF-C15-1)",
                    "KF-C08-2: for a target with placeholders, a value's empty collections / absent optional attributes keep the placeholder while the unknown's result type resolves it"],
        "prop_cases_are_inputs": True,
    },
    "C09": {
        "n_quick": 700, "n_thorough": 12000,
        "check_fn": "k08_check", "prop_fn": "k08_prop",
        "rule": "lists of 1..4 types: a generated base type (depth 2, placeholders 8%), copies of it, types derived from it by kind changes / element conversions / attribute changes / "
                "placeholders, and unrelated types; safe and unsafe unification, each repeated 4 times for stability; every returned conversion applied to two generated values (known, null, "
                "unknown, marked) of its input type; non-trivial = every list of at least two types and every application",
        "trusted_base": TB_VALUE,
        "assumptions": ["numbers with binary exponent beyond +-600 are not generated"],
        "partial": ["theorems cover the empty list, the all-dynamic fallback (every conversion yields DynamicVal) and single primitives; that each returned conversion yields the unified type, "
                    "absent-iff-equal, safe-never-fails and unsafe-at-least-safe are evaluated per generated case on the model and by the oracle, not proved for all type lists"],
        "prop_cases_are_inputs": True,
    },
    "C10": {
        "n_quick": 1200, "n_thorough": 30000,
        "check_fn": "k10_check",
        "rule": "specifications with 0-3 positional parameters and an optional variadic one over 10 type constraints and independent allow-null / allow-unknown / allow-dynamic / "
                "allow-marked flags; type-check callback in {constant type, type of first argument, error, panic}; implementation in {constant, first argument, unknown, null, "
                "non-conforming value, error, panic}; optional result refinement; argument lists of admissible (8%: inadmissible) length mixing conforming, non-conforming, null, "
                "dynamic-null, unknown (refined), dynamic and deeply marked values; the spied callback trace and the result are compared with the model; non-trivial = at least one argument",
        "trusted_base": TB_VALUE + ["Go's defer/recover order in Function.Call is modelled (apply_refine after the recovered body), not verified"],
        "assumptions": ["callbacks are deterministic functions of their arguments"],
    },
    "C01": {
        "n_quick": 330, "n_thorough": 9000,
        "check_fn": "k01_check",
        "rule": "for each of 20 operation methods: a wholly known operand tuple (numbers of all classes, booleans, collections / structures of 11 fixed + generated types, keys, "
                "set elements, nulls) and a weakening of it (each sub-value at any depth replaced with probability 35% by an unknown that admits it: unrefined, not-null, numeric "
                "bounds inclusive at the value or exclusive beyond it, byte prefixes, length bounds, or the dynamic value at operand level); both runs are compared with the model and "
                "the abstract result must admit the concrete one; the harness's admits relation is itself compared with the model's on every operand and result; non-trivial = the "
                "weakening changed at least one operand",
        "trusted_base": TB_VALUE,
        "assumptions": ["concrete operands are wholly known (weakenings of already-unknown operands are covered by transitivity of admits only informally)",
                        "capsule operands are outside the model"],
        "refuted": ["C01_Add_rounding_refuted (KF-C01-1)", "C01_Equals_text_vs_value_refuted (KF-C01-2)"],
        "partial": ["soundness is a theorem for LessThan, GreaterThan, Not, And, Or over all weakenings of their operands (plus the total-preorder theory of big.Float comparison they rest on); "
                    "for Equals/NotEqual, arithmetic, <=, >=, Index, HasIndex, HasElement, Length the boolean property k01_prop is evaluated on the model for every generated pair (vm_compute) "
                    "and on the implementation by the oracle, not yet proved for all inputs"],
    },
    "C04": {
        "n_quick": 800, "n_thorough": 10000,
        "check_fn": "k04_check",
        "rule": "paired marked / stripped runs: all 20 operation methods on number, bool and collection operand tuples with 1-3 distinct marks placed on the top-level value and on nested "
                "members (combined with refined unknowns and nulls); SetVal of marked members; convert.Convert of marked values to generalised / mutated / string / dynamic targets; 12 stdlib "
                "functions with marked and unknown arguments; all 90 registered stdlib functions on hinted, perturbed arguments with marks on and inside them (and a marked container above an "
                "unknown for the functions that take marked arguments themselves); IsWhollyKnown/IsKnown/IsNull with and without marks; histories of mark operations, member reads, conversions "
                "and transforms over a pool of values (every earlier value keeps its fingerprint, no result carries a mark its operands lacked); non-trivial = at least one mark present",
        "trusted_base": TB_VALUE,
        "assumptions": ["conversions and function calls are checked by the paired-run oracle on the implementation; their Gallina models belong to C08/C10"],
        "partial": ["theorems cover every operation method (generic wrapper theorems + instances), Equals' deep collection and SetVal hoisting; Convert and Function.Call mark handling is oracle-checked here and proved where their models live (C10)"],
    },
    "C06": {
        "n_quick": 70, "n_thorough": 2500,
        "check_fn": "k06_check", "prop_cases_are_inputs": True,
        "rule": "for every generated pair of values (all kinds, nulls, refined unknowns, marks at every depth): results of Mark/WithMarks/WithSameMarks/Unmark/UnmarkDeep/MarkWithPaths, "
                "all five collection/structure constructors, Transform, UnknownAsNull, operation methods, ElementIterator, Refine, convert.Convert to mutated/generalised/optional-attribute "
                "targets (also from null and unknown dynamic inputs), JSON and MessagePack round trips, nine stdlib functions; each returned value is judged by the hook, by a public-API walk "
                "and by the Gallina wf_value; non-trivial = structured, marked or unknown values",
        "trusted_base": TB_VALUE + ["the hook cty.VerifWellFormed itself (its verdict is compared with the model's wf_value on every value)"],
        "assumptions": ["values whose strings fall outside the modelled %q domain are monitored by the hook and the public walk only"],
        "partial": ["preservation theorems cover primitive constructors, tuple/list typing and the logical/comparison operations for all operands; the other API families are covered by the monitor on every run (the value model's wf is evaluated on each result), not yet by theorems"],
    },
    "C05": {
        "n_quick": 420, "n_thorough": 8000,
        "check_fn": "k05_check",
        "gen_obligations": 1,
        "rule": "builder call sequences of 0-5 calls (not-null, null, lower/upper numeric bounds inclusive or exclusive incl. the shared infinities and unknown bounds, "
                "length bounds, full prefixes) on unrefined/refined unknown, known, null and marked values of 10 types; Includes of every result range against a candidate "
                "pool per type; range accessors; SafeKnownPrefix on 0-6 symbol prefixes over an alphabet of combining marks, Hangul jamo, emoji modifiers, ZWJ, regional "
                "indicators, CR/LF and ASCII delimiters with the library answers shipped as tables; non-trivial = at least one call / non-empty prefix",
        "trusted_base": TB_VALUE + ["x/text NFC (Normalize, LastBoundary) and go-textseg cluster scanning are oracles: their answers are shipped with each case; the two laws the prefix theorem assumes are tested on every run",
                                    "translator: vh xlate reads the delimiter runes of sequenceMustEndGraphemeCluster from /repo with go/ast into coq/Gen/Consts.v"],
        "assumptions": ["strings in builder cases are NFC-stable (normalisation is the identity on them)"],
        "refuted": ["C05_far_infinity_refuted (KF-C05-5)"],
        "partial": ["faithfulness of numeric bounds (tighter-of-two with inclusive/exclusive ties) is checked by the interval oracle and the correspondence on every generated sequence; theorems cover nullness, length bounds, known values, the dynamic value and the prefix",
                    "C05_safe_prefix_partial is relative to two laws of the Unicode libraries (tested, not proved)"],
    },
    "C03": {
        "n_quick": 200, "n_thorough": 6000,
        "check_fn": "k03_check",
        "rule": "pairs/triples of generated values of every kind (a, a / re-represented at another precision / perturbed at one leaf / independent), with nulls, "
                "refined unknowns and marks; set constructor inputs with duplicates, re-represented members and permutations; ValueSet histories of 3-17 (thorough 3-31) "
                "steps over Add/Remove/Has/Copy/Union/Intersection/Subtract/SymmetricDifference/Values/Length/SetValFromValueSet with final bucket states; "
                "non-trivial = every case (distinct Gallina terms counted)",
        "trusted_base": TB_VALUE,
        "assumptions": ["capsule values compare by pointer identity (no CapsuleOps)",
                        "history steps that would append into a bucket array shared between ValueSet copies are skipped here (that aliasing defect is C20's subject) and counted"],
        "refuted": ["C03_number_hash_refuted (KF-C03-1)", "C03_trichotomy_refuted (KF-C03-2)"],
        "partial": ["RawEquals as an equivalence and Equals symmetry are theorems for numbers/strings/bools/nulls; for nested structures they are checked by the oracle on every generated pair/triple, not yet theorems",
                    "the set-refinement theorems are generic in (hash, equivalence) and instantiated for string members; other member types rely on the hash-coherence hypothesis, which is refuted for numbers (KF-C03-1)"],
    },
    "C02": {
        "n_quick": 480, "n_thorough": 12000,
        "check_fn": "kops_check",
        "rule": "number pairs from a pool (singletons, int64/uint64 limits, float64-derived, 512-bit parsed, odd precisions, fresh infinities; "
                "thorough: full pool cross product) x 11 binary + 2 unary ops; booleans exhaustively; collections of 11 fixed + generated types x keys in and "
                "out of range (n-1, n, n+1, -1, fractions, wrong type); big.Float text/parse family.  Non-trivial = every case (operands are never both trivial "
                "duplicates: distinctness counted on the Gallina term)",
        "trusted_base": TB_VALUE,
        "assumptions": ["capsule operations are outside the model (identity only)"],
        "partial": ["correct rounding w.r.t. exact rationals is proved only in the no-rounding case (C02_add_exact_partial); the general half-ulp bound is "
                    "checked on every generated case against math/big.Rat by the implementation-side oracle, not yet a theorem"],
    },
    "C07": {
        "n_quick": 400, "n_thorough": 4000,
        "check_fn": "k07_check",
        "rule": "types generated to depth 3 (4 thorough) over all kinds with placeholders, optional attributes, capsules; "
                "pairs = identical / single-position mutant / independent; JSON type documents = real encoder output plus "
                "token-level mutants.  A case is non-trivial unless it compares two identical primitive types; distinct = "
                "distinct Gallina case term",
        "trusted_base": TB_COMMON + ["encoding/json byte<->token mapping (harness parses implementation output into token trees)"],
        "assumptions": ["attribute names in generated types are NFC-stable (normalisation tables are shipped for the JSON decoder cases)",
                        "capsule types are modelled by identity only"],
    },
    "C20": {
        "n_quick": 900, "n_thorough": 20000,
        "check_fn": "k20_check", "prop_fn": "k20_prop",
        "rule": "histories of three kinds, round-robin: (1) 4..17 Add / Remove / Copy operations over up to 4 generic sets of integers hashed modulo 1..3 (so buckets collide and grow), every "
                "set's buckets read through the hook after each step and the final state compared with the heap model; (2) 6..15 steps over generated values (known, null, refined unknown, "
                "marked): operations, accessors followed by mutation of what they returned (AsValueSlice, AsValueMap, AsBigFloat, Marks, AsValueSet, Walk paths, UnmarkDeepWithPaths), "
                "constructors followed by mutation of what they were given (slices, maps, mark sets, value sets), further refinement of refined unknowns, with a deterministic deep "
                "fingerprint of every live value re-read after each step; (3) the same standard-function call repeated 4 times; then the schedules: 2..16 goroutines running read-only "
                "workloads over shared values under the race detector, results compared with the sequential run; non-trivial = every history",
        "trusted_base": TB_COMMON + ["Go slice semantics (append writes in place while capacity lasts, otherwise reallocates) is modelled in Model/Heap.v; the growth factor is not observable in "
                                     "the compared views", "the Go race detector (go build -race) decides data races on the schedules the Go scheduler produced in this run",
                                     "NumberVal's documented ownership transfer of the big.Float it is given is outside the property (documented contract)"],
        "assumptions": ["members of the generic sets are integers with equality as equivalence (the algorithm is generic in the member type)"],
        "refuted": ["C20_shallow_copy_refuted (the code before fix commit 276a659)"],
        "partial": ["the theorems cover the mutable helper sets (the only shared mutable structure values hand out) over all histories; immutability of values under accessor / constructor "
                    "aliasing and purity are decided by fingerprints over generated histories; freedom from data races is decided by the race detector on the schedules actually run: a "
                    "Gallina model cannot exhibit the Go memory model"],
        "prop_cases_are_inputs": True,
        "race": {"n_quick": 150, "n_thorough": 3000},
    },
}
