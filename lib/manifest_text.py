HOOK_COMMITS = ["bf4faed", "d2e499a"]

_PENDING = "check not built yet in this round (model and theorems in progress, DESIGN.md section 13); the property itself is within reach of the technique"
NOT_APPLICABLE = [{"property_id": "C%02d" % i, "reason": _PENDING} for i in range(1, 21)]

_NOTE = ("Trusted: Coq 8.16.1 kernel + vm_compute; the Go harness (generators, printers, oracle); the hand-written model is tied to the code by "
         "differential evaluation on generated inputs, not by proof; ")

TEXT = {
    "C11": {
        "level": "The standard library's 80 function specifications are translated from the source on every run into a Gallina table (parameter constraints, flags, variadic parameter, result refinement) and put under the call-protocol model of C10. Theorems, for every table entry, callback behaviour and argument list: no Go panic escapes Call; the implementation runs only after the type callback accepted, on arguments meeting the declared constraints. Every function is called on generated argument lists with nulls, unknowns, dynamic values and marks injected; escaping panics, errors that report internal panics, ill-formed results and results not conforming to either type prediction are violations; the protocol's own answers are compared with the model.",
        "note": _NOTE + "callback bodies are not modelled (partial); nine fix: commits.",
        "technique": "Coq proof over the call-protocol model instantiated at a source-translated specification table + correspondence by vm_compute + implementation-side totality / type-prediction oracle",
    },
    "C12": {
        "level": "Same table and protocol model as C11. Theorems: the protocol's short-circuit answer for arguments the implementation cannot take is the unknown of the predicted type with the arguments' marks and the function's result refinement, and an unrefined unknown admits every conforming unmarked value. Every function is called on succeeding wholly known arguments and on three typed weakenings of them; a failing weakened call, a result that does not admit the original result (type, nullness, bounds, prefix, lengths, known parts) or an unknown result for wholly known arguments is a violation.",
        "note": _NOTE + "function-internal unknown handling is decided by the oracle only (partial); one known finding (setproduct), two fix: commits.",
        "technique": "Coq proof over the call-protocol model instantiated at a source-translated specification table + correspondence by vm_compute + implementation-side weakening / admits oracle",
    },
    "C13": {
        "level": "An independent reference semantics of 27 collection, set and sequence functions is written in Gallina over plain member lists and association lists, with the documented result types (Model/StdRef.v). Theorems about the reference, for all inputs: reverse is an involution on lists; chunks partition the list, are non-empty and bounded by the size; slices have length j-i, the full range is the list and adjacent slices concatenate; element's index wraps around; setproduct yields the product of the sizes, one member per operand; sort yields an ascending permutation. Every generated call of the implementation on wholly known arguments is compared with the reference (value, type, error class), and algebraic cross-checks run on the implementation itself.",
        "note": _NOTE + "equality of implementation and reference is by correspondence on generated calls (partial).",
        "technique": "Coq proof of the laws of a Gallina reference semantics + correspondence of every generated call by vm_compute + implementation-side algebraic cross-checks",
    },
    "C14": {
        "level": "A Gallina reference covers the numeric functions on the bit-exact big-float model (arithmetic, comparison, min/max, int, ceil, floor, signum, parseint) and the byte- and cluster-level string functions (chomp, indent, trimprefix/suffix, replace, split, join, strlen, reverse, substr), plus jsonencode through the JSON model of C15. Theorems, for all inputs: floor is the greatest integer not above and ceil the least integer not below any finite number of any magnitude and precision; they coincide exactly on whole numbers; trimprefix/suffix remove exactly the affix; cluster reverse is an involution and substr selects whole clusters; chomp removes all and only trailing newlines; join inverts split. Every generated call is compared with the Gallina reference where there is one and with Go's standard library (strings, fmt, math, big.Rat, time, encoding/csv, encoding/json via the C15 model) otherwise.",
        "note": _NOTE + "17 functions are decided against Go's standard library only (partial); two fix: commits (signum, substr).",
        "technique": "Coq proof of the laws of a Gallina reference semantics + correspondence by vm_compute + implementation-side reference oracles built on Go's standard library",
    },
    "C15": {
        "level": "cty/json Marshal, Unmarshal and ImpliedType are modelled at the JSON token-tree level. Theorems: unknown, marked and infinite values are rejected; strings, booleans and nulls round-trip; at a dynamic position the encoder writes exactly the documented wrapper and the decoder reduces it to decoding against the recovered type. The integer-text loss is refuted by a kernel-computed witness (known finding). Every generated value x constraint and every grammar document is encoded/decoded by the implementation, compared token tree by token tree with the model, and the round-trip / mirror / implied-type clauses are evaluated on both sides.",
        "note": _NOTE + "encoding/json's lexer is the byte-level mapping on both sides; two known findings (integer text, nested placeholders).",
        "technique": "Coq proof over a token-level Gallina model of the JSON codec + model-side round-trip evaluation and correspondence by vm_compute",
    },
    "C16": {
        "level": "cty/msgpack Marshal and Unmarshal are modelled at the MessagePack item-tree level, including number encoding selection (int64 / float64 / decimal text), the unknown-value extension with its refinement map (replayed through the modelled refinement builder of C05) and the dynamic wrapper. Theorems: marked values (top-level or members) are rejected, the integer encoding is chosen only for that very integer and decodes to it, infinities round-trip, unknowns of unknown type carry nothing, the refinement replay never panics. Every generated value x constraint is encoded and decoded by the implementation, compared item tree by item tree and value by value with the model, and the round-trip relation (same type, known parts numerically equal, decoded ranges at least as wide) is evaluated by the oracle.",
        "note": _NOTE + "byte-level MessagePack framing is parsed by the harness; one known finding (nested placeholders); one fix: commit (exact number text).",
        "technique": "Coq proof over an item-tree Gallina model of the MessagePack codec + correspondence by vm_compute + implementation-side never-narrower oracle",
    },
    "C17": {
        "level": "The five decoders (JSON value, JSON type, JSON ImpliedType, MessagePack ImpliedType, MessagePack value) are modelled on token / item trees, including what the msgpack library's typed readers accept and the stream-wise reading of refinement bodies. Theorems: MessagePack ImpliedType and the refinement replay never panic, for every input; foreign and broken items are refused. Hostile and mutated inputs are decoded by the implementation in an isolated worker process (crash, allocation volume) and in process (panic, well-formedness, conformance to the requested type); every input that still parses is decoded by the model too, compared outcome by outcome, and the safety predicate is evaluated on the model.",
        "note": _NOTE + "memory, stack and process death are decided by the worker process only (partial); six fix: commits.",
        "technique": "Coq proof over token/item-tree Gallina models of the decoders + model-side safety evaluation and correspondence by vm_compute + isolated-worker crash/allocation oracle",
    },
    "C18": {
        "level": "Number decoding into every Go numeric type (per-width range checks, unsigned wholeness, float64 and float32 narrowing with subnormals and overflow, big.Int/big.Float) and re-encoding are modelled in Gallina on the bit-exact big.Float model. Theorems: an exact integer conversion yields that very number (all numbers), signed decoding succeeds only for whole in-range numbers and stores that number, every Go integer of every width round-trips. All boundary numbers x 14 targets are compared with the implementation; a reflect-based Go type family is round-tripped by the oracle.",
        "note": _NOTE + "structs / slices / maps / pointers: oracle only (partial).",
        "technique": "Coq proof over a Gallina model of gocty's numeric conversions + bit-exact correspondence by vm_compute + reflect-family round-trip oracle",
    },
    "C19": {
        "level": "Walk, Transform, path steps, path-indexed marks, UnknownAsNull and PathSet are modelled in Gallina (PathSet as the generic bucket algorithm proved in C03). Theorems: path hash coherence for all paths, path sets over known keys are mathematical sets (membership, no duplicates, exactly the added paths), path composition, walk reports the root first and stops at null/unknown. Every generated value's full walk listing, path applications (valid and invalid), transforms, mark round trips and path-set histories are compared with the implementation and checked against independent enumerations.",
        "note": _NOTE + "enumeration / path-back / transform laws are oracle + correspondence, not yet theorems (partial).",
        "technique": "Coq proof (path-set refinement via the generic set algorithm, path algebra) + model/implementation correspondence of walk listings, path application and transforms by vm_compute",
    },
    "C08": {
        "level": "cty/convert is modelled in Gallina as it is coded: conversion lookup by type pair with the safe/unsafe flag, the wrapper for marks / dynamic target / unknown / null, dynamicReplace, prepareUnknownResult, every collection and structural conversion with its run-time element unification, Convert with its identity shortcut (conversions are Gallina closures as they are Go closures). Theorems: identity on a value of the requested type, every handed-out conversion is the uniform wrapper, dynamic target returns the value, null and unknown inputs get a null / prepared unknown of the replaced target type without consulting the type-directed conversion, marks travel around, primitive safe implies unsafe. Every generated (value, target) pair and every lookup is run on the implementation and the model and compared value by value; conformance, idempotence, identity, round trip, admits-for-unknowns and safe-never-fails are evaluated on both sides.",
        "note": _NOTE + "two known findings (number text, placeholder kept by empty/absent members); two fix: commits.",
        "technique": "Coq proof over a closure-level Gallina model of cty/convert + model-side property evaluation and correspondence by vm_compute + implementation-side oracle",
    },
    "C09": {
        "level": "Unification (unify and its seven helpers, sortTypes exactly as coded, compareTypes) is part of the same Gallina model as conversion (they are mutually recursive). Theorems: empty list, the all-dynamic fallback returns one conversion per input each yielding a value of the unified type, single primitives. Every generated type list is unified safely and unsafely by implementation and model (result type and which conversions are nil compared), every returned conversion is applied to generated values of its input type on both sides, and the clauses (unified type, absent iff equal, safe never fails, safe uses only safe conversions, unsafe at least safe, equal types) are evaluated by the oracle.",
        "note": _NOTE + "the general theorem (every returned conversion yields the unified type) is not proved: evaluated per case.",
        "technique": "Coq proof over a closure-level Gallina model of cty/convert unification + correspondence by vm_compute + implementation-side oracle applying the returned conversions",
    },
    "C10": {
        "level": "Function.Call / returnTypeForValues are modelled with callbacks as arbitrary Gallina functions (succeed, fail, panic) and an explicit callback trace. Theorems for ALL specifications and ALL argument lists: the implementation runs only after the type callback accepted the same arguments and only with arguments meeting the declared contract (conformance, null, unknown, dynamic, marks at any depth); the only possible traces; an argument error names an offending argument; otherwise the call short-circuits to the marked unknown of the checked type; no Go panic escapes Call. Generated specs with spy callbacks are run on the implementation and traces compared with the model.",
        "note": _NOTE + "Go defer/recover ordering is modelled as coded (after two fix: commits).",
        "technique": "Coq proof over a Gallina model of the call protocol (universally quantified callbacks, trace invariants) + spy-trace correspondence by vm_compute",
    },
    "C01": {
        "level": "The approximation order 'admits' is a Gallina function. Theorems for all operands and all weakenings: big.Float comparison is the order of exact values (total preorder, trichotomy, mixed transitivity); LessThan, GreaterThan, Not, And, Or on weakened operands always succeed and their result admits the concrete result. Range arithmetic across precisions and the text-vs-value gap of Equals are refuted by kernel-computed witnesses replayed on every run (known findings). For all 20 operations every generated (concrete, weakened) pair is run on model and implementation, compared bit-for-bit, and the soundness property is evaluated on both sides.",
        "note": _NOTE + "soundness theorems cover comparison and logic; the remaining operations are decided per generated pair by the model-side property (vm_compute) and the oracle (partial).",
        "technique": "Coq proof (order theory of big.Float.Cmp + soundness of comparison/logic for all weakenings) + refutation witnesses + model-side property evaluation and correspondence by vm_compute",
    },
    "C04": {
        "level": "Every operation method of the model is the generic mark wrapper around its unmarked core; theorems (all operands): the result is the stripped run's result carrying exactly the union of the operands' marks, success/failure is unchanged by marking, non-interference of the unmarked result, Equals collects nested marks, SetVal hoists member marks. Paired marked/stripped runs of all operations, SetVal, Convert and 12 stdlib functions are evaluated on the implementation on every run and the marked runs are compared with the model.",
        "note": _NOTE + "Convert and Function.Call mark propagation: oracle here, theorems in C10 (function framework).",
        "technique": "Coq proof (generic mark-wrapper theorems instantiated at every operation) + paired-run oracle + model/implementation correspondence by vm_compute",
    },
    "C06": {
        "level": "Well-formedness is a Gallina predicate (payload kind vs type recursively, tuple/object shape, NFC strings, one marker layer, mark-free duplicate-free correctly-bucketed set members, refinement kind vs type, no optional-attribute annotations). Theorems: primitive constructors and every result of Not/And/Or/LessThan/GreaterThan are well-formed for all operands; tuple/list constructors never invent types. On every run each value returned by ~40 API entry points is judged by the hook, a public-API walk and the model predicate, and the three verdicts must agree.",
        "note": _NOTE + "for most API families the guarantee is the monitor (hook + public walk + model predicate on every returned value), not a theorem (partial).",
        "technique": "Coq well-formedness predicate + preservation lemmas + three-way monitor (hook, public API, vm_compute) on every returned value",
    },
    "C05": {
        "level": "The refinement builder, Value.Range, Includes and SafeKnownPrefix are modelled in Gallina; for all call sequences: the original value and marks are never changed, the dynamic value ignores refinement, a known value is returned unchanged or rejected, nullness contradictions and crossing length bounds are rejected and the tighter length bound is kept; the safe prefix is proved a byte prefix of the normalised form of every extension relative to two laws of x/text that are tested on every run; the delimiter table is regenerated from the source and its ASCII obligation re-proved. Every generated sequence is compared with the implementation (result value, range accessors, Includes) and checked against an independent interval/prefix model.",
        "note": _NOTE + "Unicode normalisation and segmentation are oracles (answers shipped with cases); numeric-bound faithfulness is oracle-checked, not a theorem (partial).",
        "technique": "Coq proof over a Gallina model of the refinement builder + translator for the delimiter table + model/implementation correspondence by vm_compute",
    },
    "C03": {
        "level": "Number equality is proved an equivalence for all numbers; Equals/RawEquals agreement on primitives and null equality are theorems; the hash-bucket set algorithm is proved to refine the mathematical set modulo any equivalence that is coherent with its hash (membership, no two equal members, exactly the inputs, insertion-order independence; all Add histories), and the model's set operations on strings are proved to be that algorithm. Hash coherence and trichotomy are refuted for numbers by kernel-computed witnesses that every run replays on the implementation (known findings). Values, hashes, iteration orders and whole ValueSet histories are compared with the implementation state by state.",
        "note": _NOTE + "structural RawEquals/Equals laws on nested values are oracle-checked, not yet theorems (partial).",
        "technique": "Coq proof (generic set-refinement + number-equality equivalence) + refutation witnesses + model/implementation correspondence by vm_compute",
    },
    "C07": {
        "level": "Type.Equals/TestConformance/HasDynamicTypes/WithoutOptionalAttributesDeep/type JSON codec are modelled in Gallina as implemented; the algebraic laws are theorems for all types (unbounded depth/width), closed under the global context; the model is compared with the implementation on generated types and JSON documents on every run.",
        "note": _NOTE + "capsule types by identity only; attribute-name normalisation as a shipped table.",
        "technique": "Coq proof over a Gallina model of cty.Type + model/implementation correspondence by vm_compute",
    },
    "C02": {
        "level": "The operation methods and math/big.Float (bit-exact) are modelled in Gallina; truth tables, index<->has-index equivalence, constructor/accessor laws, division by zero and no-rounding exactness are theorems for all operands; every generated operation result is compared bit-for-bit (mantissa, exponent, precision) with the model, and checked against math/big.Rat on the implementation side.",
        "note": _NOTE + "math/big.Float modelled, not verified; the general half-ulp rounding bound is an oracle check, not yet a theorem (labelled partial).",
        "technique": "Coq proof over a Gallina model of cty.Value operations + bit-exact model/implementation correspondence by vm_compute",
    },
    "C20": {
        "level": "The mutable helper sets (cty/set Add / Remove / Copy / Has) are modelled over Go slice semantics: buckets are slices into a heap of arrays and append writes in place while capacity lasts. Theorems over all histories of operations on any number of sets: in every reachable state no two buckets share an array, and therefore an Add or Remove on one set never changes what another set reports and a Copy changes no existing set; the same statement is refuted by a kernel-computed history for the shallow Copy the code had before the repair. Set histories are run on the real generic set and compared with the model bucket by bucket; value histories with accessor and constructor aliasing are checked by deterministic deep fingerprints of every live value after each step; repeated calls are compared for purity; shared values are used from 2..16 goroutines under the Go race detector and compared with sequential use.",
        "note": _NOTE + "data-race freedom is decided by the race detector on the schedules run, not by proof (partial); one fix: commit (set.Copy).",
        "technique": "Coq proof of an isolation invariant over all histories of a heap/slice model of cty/set + correspondence by vm_compute + fingerprint histories + Go race detector runs",
    },
}
