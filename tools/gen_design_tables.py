#!/usr/bin/env python3
# gen_design_tables.py: regenerate DESIGN_TABLES.md (fix commits, known findings, seeded changes, theorem counts)
import json, os, glob, subprocess, re
ROOT = "/verif"
out = ["# Tables generated from /verif and /repo (tools/gen_design_tables.py)\n"]
kf = json.load(open(ROOT + "/known_findings.json"))["findings"]
out.append("## A. Open known findings (printed as KNOWN-FINDING, never a violation)\n")
out.append("| id | property | signature | what | why not repaired |\n|---|---|---|---|---|")
for f in kf:
    if f["status"] == "open":
        out.append("| %s | %s | `%s` | %s | %s |" % (f["id"], f["property"], f["signature"], f["what"].replace("|", "/")[:400], f.get("why_not_fixed", "").replace("|", "/")))
out.append("\n## B. Genuine defects repaired by `fix:` commits in /repo (recorded as `fixed:` entries)\n")
out.append("| id | property | what failed (commit hashes inside) |\n|---|---|---|")
for f in kf:
    if f["status"] == "fixed":
        out.append("| %s | %s | %s |" % (f["id"], f["property"], f["fixed"].replace("|", "/")))
log = subprocess.check_output(["git", "-C", "/repo", "log", "--format=%h %s"]).decode().splitlines()
fixes = [l for l in log if " fix:" in l]
out.append("\n%d `fix:` commits in /repo, newest first:\n" % len(fixes))
for l in fixes:
    out.append("* `%s`" % l)
out.append("\n## C. Seeded changes (sub-agent mutations) and the checks that catch them\n")
out.append("| seed | status | how the check reacts |\n|---|---|---|")
for d in sorted(glob.glob(ROOT + "/seeded/*/meta.json")):
    m = json.load(open(d))
    name = os.path.basename(os.path.dirname(d))
    out.append("| %s | %s | %s |" % (name, m.get("status", m.get("result", "caught")), (m.get("note") or m.get("check_note") or "").replace("|", "/")))
out.append("\n## D. Property theorems (files contain only `Theorem … Proof. exact lemma. Qed.` + `Print Assumptions`)\n")
out.append("| property | theorems | names |\n|---|---|---|")
for p in sorted(glob.glob(ROOT + "/coq/Properties/C*.v")):
    names = re.findall(r"^Theorem (\w+)", open(p).read(), re.M)
    out.append("| %s | %d | %s |" % (os.path.basename(p)[:-2], len(names), ", ".join(names)))
open(ROOT + "/DESIGN_TABLES.md", "w").write("\n".join(out) + "\n")
print("DESIGN_TABLES.md written:", len(out), "lines")
