#!/usr/bin/env python3
# show_bad.py Cxx tier: print the coq text + desc of correspondence-mismatching cases of the last run
import sys, json, re, os, subprocess
prop, tier = sys.argv[1], (sys.argv[2] if len(sys.argv) > 2 else "quick")
d = f"/verif/work/{prop}-{tier}"
log = open(f"/verif/work/{prop}-{tier}.log").read()
m = re.search(r"bad_corr=\[([0-9, ]*)\] bad_prop=\[([0-9, ]*)\]", log)
bad = [int(x) for x in m.group(1).split(",") if x.strip()] + [int(x) for x in m.group(2).split(",") if x.strip()]
print("bad:", bad)
meta = json.load(open(d + "/meta.json"))
cases = {}
for l in open(d + "/cases.jsonl"):
    c = json.loads(l); cases[c["id"]] = c
for b in bad[:int(sys.argv[3]) if len(sys.argv) > 3 else 3]:
    c = cases[b]
    print("== id", b, "index", c["index"], c["class"], json.dumps(c["desc"])[:600])
    out = subprocess.run(["/verif/bin/vh", "replay", "-prop", prop, "-seed", str(meta["seed"]), "-tier", tier, "-index", str(c["index"])], capture_output=True, text=True).stdout
    for l in out.splitlines():
        if "coq:" in l: print(l[:1200])
