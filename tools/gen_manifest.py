#!/usr/bin/env python3
"""Regenerate MANIFEST.json from lib/props.py + the texts below (keeps it valid at all times)."""
import json, sys, os
ROOT = os.path.dirname(os.path.dirname(os.path.abspath(__file__)))
sys.path.insert(0, os.path.join(ROOT, "lib"))
from props import PROPS
from manifest_text import TEXT, NOT_APPLICABLE, HOOK_COMMITS

checks = []
for pid in sorted(PROPS):
    t = TEXT[pid]
    checks.append({
        "property_id": pid,
        "quick_cmd": "./check %s --tier quick" % pid,
        "thorough_cmd": "./check %s --tier thorough" % pid,
        "evidence_file": "evidence/%s.json" % pid,
        "replay_cmd_template": "./check %s --replay {path}" % pid,
        "engine": "coq-model",
        "level_claimed": {"category": "proof", "text": t["level"], "design_ref": "DESIGN.md section 7/%s" % pid},
        "level_note": t["note"],
        "technique": t["technique"],
    })
claimed = sorted(PROPS)
m = {
    "version": 1,
    "setup_cmd": "make -C /verif setup",
    "hooks": {
        "guard": "verif",
        "enable": "go build -tags verif (the harness module /verif/harness replaces github.com/zclconf/go-cty by /repo)",
        "baseline_off_cmd": "cd /repo && go test -mod=mod -vet=off -count=1 ./...",
        "source_commits": HOOK_COMMITS,
        "add_only": True,
    },
    "engines": [
        {"name": "coq-model", "path": "coq", "serves_properties": claimed,
         "kind_free_text": "Gallina model + theorems (Coq 8.16.1); correspondence cases evaluated inside Coq with vm_compute"},
        {"name": "vh", "path": "harness", "serves_properties": claimed,
         "kind_free_text": "Go harness: generators, implementation runs printed as Gallina terms, translators, implementation-side oracle (search / replay)"},
    ],
    "checks": checks,
    "not_applicable": [x for x in NOT_APPLICABLE if x["property_id"] not in PROPS],
    "notes": "See DESIGN.md. Every claimed property is decided by theorems over a Gallina model (coq/Properties/Cxx.v) plus a model/implementation correspondence run on every check.",
}
json.dump(m, open(os.path.join(ROOT, "MANIFEST.json"), "w"), indent=1)
print("MANIFEST.json:", len(checks), "checks,", len(m["not_applicable"]), "not yet claimed")
