#!/bin/sh
# keep_seed.sh <seed dir> <property> <caught|missed> "<note>": store a verified seeded change under /verif/seeded/
D="$1"; P="$2"; R="$3"; NOTE="$4"
N=$(basename "$D")
mkdir -p /verif/seeded/$N
cp "$D/patch.diff" "$D/demo_test.go" "$D/demo_pkg.txt" /verif/seeded/$N/
python3 - "$D" "$P" "$R" "$NOTE" <<'PY'
import json,sys,os
d,p,r,note=sys.argv[1:5]
m=json.load(open(os.path.join(d,'meta.json')))
m.update({"property":p,"verified":"tools/verify_seed.sh: patch applies, suite passes with it, demo fails with it and passes without it",
          "check_result":r,"check_note":note,"ran":"tools/try_seed.sh (git -C /repo apply; ./check %s; git -C /repo checkout -- .)"%p})
json.dump(m,open('/verif/seeded/%s/meta.json'%os.path.basename(d),'w'),indent=1)
PY
