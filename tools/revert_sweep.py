#!/usr/bin/env python3
# revert_sweep.py: for every repaired defect, put the defect back (reverse-apply its fix commit to /repo's
# working tree), run the property's check, expect a VIOLATION, and restore /repo. Ground-truth regressions.
import json, re, subprocess, sys
kf = json.load(open("/verif/known_findings.json"))["findings"]
pairs = []
for f in kf:
    if f["status"] != "fixed":
        continue
    for h in re.findall(r"\b[0-9a-f]{7}\b", f["fixed"]):
        pairs.append((h, f["property"]))
only = set(sys.argv[1:])
seen = set()
for h, p in pairs:
    if (h, p) in seen or (only and p not in only and h not in only):
        continue
    seen.add((h, p))
    d = subprocess.run(["git", "-C", "/repo", "show", h, "--", "."], capture_output=True, text=True).stdout
    open("/tmp/rev.diff", "w").write(d)
    a = subprocess.run(["git", "-C", "/repo", "apply", "-R", "/tmp/rev.diff"], capture_output=True, text=True)
    if a.returncode != 0:
        print("%s %s: reverse patch does not apply (later commits touch the same lines)" % (h, p)); continue
    b = subprocess.run(["go", "build", "./..."], cwd="/repo", capture_output=True, text=True,
                       env=dict(__import__("os").environ, GOFLAGS="-mod=mod", GOPROXY="off", GOSUMDB="off", GOTOOLCHAIN="local"))
    if b.returncode != 0:
        print("%s %s: does not build when reverted alone" % (h, p))
    else:
        r = subprocess.run(["/verif/check", p], capture_output=True, text=True, cwd="/verif")
        last = [l for l in r.stdout.splitlines() if l.startswith(("OK", "FAIL"))]
        viol = [l for l in r.stdout.splitlines() if l.startswith("VIOLATION")]
        print("%s %s: rc=%d %s | %s" % (h, p, r.returncode, (last[-1][:110] if last else "?"), (viol[0][:90] if viol else "no violation line")))
    subprocess.run(["git", "-C", "/repo", "checkout", "--", "."])
    sys.stdout.flush()
