#!/bin/sh
# try_seed.sh <seed dir> <property> [tier]: apply the seeded change to /repo, run the check, undo it.
D="$1"; P="$2"; T="${3:-quick}"
cd /repo && git apply "$D/patch.diff" || { echo "apply failed"; exit 2; }
# the evidence file is rewritten by every run: keep the one from the unchanged tree
cp /verif/evidence/$P.json "$D/evidence_before.json" 2>/dev/null
cd /verif && ./check "$P" --tier "$T" > "$D/check_$P.log" 2>&1; RC=$?
cd /repo && git checkout -- . 
[ -f "$D/evidence_before.json" ] && mv "$D/evidence_before.json" /verif/evidence/$P.json
echo "check $P on $(basename $D): rc=$RC"; grep -E "^(VIOLATION|KNOWN|OK|FAIL)" "$D/check_$P.log"
exit $RC
