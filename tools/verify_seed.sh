#!/bin/sh
# verify_seed.sh <dir with patch.diff and demo_test.go + demo_pkg.txt>
# Confirms in a scratch worktree: patch applies, repo builds, unedited suite passes,
# the demonstration fails with the patch and passes without it.
set -u
D="$1"
export GOFLAGS=-mod=mod GOPROXY=off GOSUMDB=off GOTOOLCHAIN=local
WT=$(mktemp -d /tmp/seedverify.XXXXXX)
rmdir "$WT"
git -C /repo worktree add --detach "$WT" HEAD >/dev/null 2>&1 || { echo "worktree failed"; exit 2; }
cleanup() { git -C /repo worktree remove --force "$WT" >/dev/null 2>&1; rm -rf "$WT"; }
trap cleanup EXIT
PKG=$(cat "$D/demo_pkg.txt" 2>/dev/null || echo cty)
DEMO=$(ls "$D"/*_test.go | head -1)
cp "$DEMO" "$WT/$PKG/zz_seed_demo_test.go"
NAME=$(grep -o 'func Test[A-Za-z0-9_]*' "$DEMO" | head -1 | sed 's/func //')
( cd "$WT" && go test -vet=off -count=1 -run "^$NAME\$" "./$PKG/" ) > "$D/verify_clean.log" 2>&1
RC_CLEAN=$?
( cd "$WT" && git apply "$D/patch.diff" ) || { echo "RESULT patch-does-not-apply"; exit 1; }
rm -f "$WT/$PKG/zz_seed_demo_test.go"
( cd "$WT" && go build ./... && go test -vet=off -count=1 ./... ) > "$D/verify_suite.log" 2>&1
RC_SUITE=$?
cp "$DEMO" "$WT/$PKG/zz_seed_demo_test.go"
( cd "$WT" && go test -vet=off -count=1 -run "^$NAME\$" "./$PKG/" ) > "$D/verify_mutant.log" 2>&1
RC_MUT=$?
echo "RESULT demo_on_clean=$RC_CLEAN suite_with_patch=$RC_SUITE demo_with_patch=$RC_MUT"
if [ $RC_CLEAN -eq 0 ] && [ $RC_SUITE -eq 0 ] && [ $RC_MUT -ne 0 ]; then echo "SEED-OK"; exit 0; else echo "SEED-BAD"; exit 1; fi
