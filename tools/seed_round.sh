#!/bin/sh
# seed_round.sh <suffix> [ids...]: verify every /tmp/seeds/Cxx-<suffix>-i and try it against the property's check
SUF="$1"; shift
for d in /tmp/seeds/C*-${SUF}-*; do
  n=$(basename $d); p=$(echo $n | cut -d- -f1)
  if [ $# -gt 0 ]; then case " $* " in *" $p "*|*" $n "*) ;; *) continue;; esac; fi
  v=$(/verif/tools/verify_seed.sh $d 2>&1 | tail -1)
  if [ "$v" != "SEED-OK" ]; then echo "$n: $v (skipped)"; continue; fi
  r=$(/verif/tools/try_seed.sh $d $p 2>&1 | grep -E "^(OK|FAIL)" | tail -1 | cut -c1-150)
  echo "$n: $r"
done
