#!/bin/sh
# sweep_fail.sh Cxx N seed...: run the generator for the given seeds (no Coq), print distinct oracle failure signatures with one example each
P="$1"; N="$2"; shift 2
(cd /verif/harness && cp /repo/go.sum . && GOFLAGS=-mod=mod GOPROXY=off GOSUMDB=off GOTOOLCHAIN=local go build -tags verif -o /verif/bin/vh ./cmd/vh) || exit 2
for s in "$@"; do /verif/bin/vh cases -prop "$P" -seed "$s" -n "$N" -out "/verif/work/$P-sw$s" > /tmp/sweep.log 2>&1 || { echo "seed $s: harness failed"; tail -5 /tmp/sweep.log | cut -c1-200; }; done
python3 - "$P" "$@" <<'PY'
import json,collections,re,sys,os,shutil
P=sys.argv[1]; seen={}; cnt=collections.Counter()
for s in sys.argv[2:]:
    d=f'/verif/work/{P}-sw{s}'
    if not os.path.exists(d+'/meta.json'): continue
    m=json.load(open(d+'/meta.json'))
    for f in (m['failures'] or []):
        cnt[f['sig']]+=1
        seen.setdefault(f['sig'], f)
    shutil.rmtree(d)
for k,f in sorted(seen.items()):
    d=f['detail']
    mm=re.search(r'panic in function implementation: ([^\n]*)', d)
    desc=f['desc']
    print(cnt[k], k, '|', (mm.group(1) if mm else d[:260]), '|', json.dumps(desc)[:420])
print('total signatures', len(seen))
PY
