#!/bin/sh
# coqchk.sh: re-check every compiled file of the development with the independent checker and list the axioms
cd /verif/coq && timeout 7200 coqchk -silent -o -Q . Cty $(find Model Gen Proofs Properties -name '*.vo' | sed 's|/|.|g; s|\.vo$||; s|^|Cty.|') 2>&1 | tail -40
