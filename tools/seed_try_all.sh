#!/bin/sh
# seed_try_all.sh [rounds...]: try every seed of the given rounds (default a b c d) against its property's quick check,
# without re-verifying the seed itself (tools/seed_round.sh does that); invalidated seeds are skipped
ROUNDS="${*:-a b c d}"
for suf in $ROUNDS; do
  for d in /tmp/seeds/C*-${suf}-*; do
    n=$(basename $d); p=$(echo $n | cut -d- -f1)
    case "$n" in C03-a-1|C17-a-2|C20-a-1|C01-c-2) echo "$n: invalidated (skipped)"; continue;; esac
    r=$(/verif/tools/try_seed.sh $d $p 2>&1 | grep -E "^(OK|FAIL)" | tail -1 | cut -c1-150)
    [ -z "$r" ] && r="patch does not apply or check did not finish"
    echo "$n: $r"
  done
done
