(* C18 — Go-value bridging is exact or refuses: no silent loss (numeric core).
   Statements only; proofs are `exact <lemma>` into Proofs/GoctyProofs.v. *)
From Cty Require Import Base BigFloat Gocty CmpProofs GoctyProofs.
Open Scope Z_scope.

(* whenever math/big reports an exact integer conversion, that integer IS the number
   (all numbers: any mantissa size, exponent, precision, sign) *)
Theorem C18_exact_int_is_the_number : forall x i, bf_int x = (Some i, Exact) -> bf_numeq x (bf_of_int i) = true.
Proof. exact bf_int_exact_value. Qed.

(* decoding into a signed integer type succeeds only for whole numbers in range, and stores that number *)
Theorem C18_int_sound : forall x w i, from_cty_number x (NTInt w) = Ok (GInt i) ->
  int_min w <= i <= int_max w /\ fst (bf_int64 x) = i /\ snd (bf_int64 x) = Exact.
Proof. exact from_int_sound. Qed.
Theorem C18_int_stores_that_number : forall x i a, bf_int64 x = (i, a) -> a = Exact -> bf_numeq x (bf_of_int i) = true.
Proof. exact from_int_exact_value. Qed.

(* every Go integer of every width round-trips through its cty number *)
Theorem C18_int_roundtrip : forall w z, 1 <= w <= 64 -> int_min w <= z <= int_max w ->
  from_cty_number (to_cty_number (GInt z)) (NTInt w) = Ok (GInt z).
Proof. exact int_roundtrip. Qed.

(* fractions are refused by unsigned targets (fix: commit a72efdf), finite numbers beyond the float32
   range are refused by float32 (fix: commit 9420afa): kernel-computed instances *)
Example C18_uint_refuses_fraction : from_cty_number (BFin false 3 (-1) 53) (NTUint 64) = Err OtherError.
Proof. vm_compute. reflexivity. Qed.
Example C18_f32_refuses_1e39 :
  match bf_parse [49; 101; 51; 57]%N 512 with POk x => from_cty_number x NTF32 | PErr => Ok (GInt 0) end = Err OtherError.
Proof. vm_compute. reflexivity. Qed.
Example C18_f32_accepts_max : from_cty_number (BFin false 16777215 104 53) NTF32 = Ok (GFloat (BFin false 16777215 104 53)).
Proof. vm_compute. reflexivity. Qed.

Print Assumptions C18_exact_int_is_the_number.
Print Assumptions C18_int_sound.
Print Assumptions C18_int_stores_that_number.
Print Assumptions C18_int_roundtrip.
