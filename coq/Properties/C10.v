(* C10 — The function-call protocol enforces every declared parameter contract.
   For ALL specifications (any parameters and flags, any Gallina functions as type-check and
   implementation callbacks, which may succeed, fail or panic) and ALL argument lists.
   Statements only; proofs are `exact <lemma>` into Proofs/FuncProofs.v. *)
From Cty Require Import Base Ty BigFloat Value Hash Ops Refine Func FuncProofs.
Open Scope Z_scope.

(* the implementation callback runs only after the type-check callback accepted the SAME arguments,
   and only with arguments that meet the declared contract: conforming types, no null / unknown /
   dynamically-typed value / marks at any depth unless the parameter allows them *)
Theorem C10_impl_after_type_and_contract : forall sp args r tr, call sp args = (r, tr) ->
  forall a t ri, In (EvImpl a t ri) tr ->
  tr = [EvType a (Ok t); EvImpl a t ri] /\ all_meet sp 0 a = true.
Proof. exact call_contract. Qed.

(* the only possible traces: nothing ran; only the type callback; type callback accepted then implementation,
   both on the arguments stripped of the marks the function does not handle itself *)
Theorem C10_trace_shape : forall sp args r tr, call sp args = (r, tr) ->
  tr = [] \/ (exists rt, tr = [EvType (strip_args sp 0 args) rt]) \/
  (exists t ri, tr = [EvType (strip_args sp 0 args) (Ok t); EvImpl (strip_args sp 0 args) t ri]).
Proof. exact call_trace_shape. Qed.

(* otherwise: an argument error names an argument that violates its parameter ... *)
Theorem C10_arg_error_names_offender : forall sp args i0 e, check_args sp i0 args = PcErr e ->
  exists k v p, e = ArgError (Z.of_nat (i0 + k)) /\ nth_error args k = Some v /\ param_at sp (i0 + k)%nat = Some p /\
    ((is_null v && negb (p_null p)) = true \/ (is_dyn (vty v) = false /\ conforms (vty v) (p_ty p) = false)).
Proof. exact check_args_err. Qed.

(* ... or the call short-circuits to the unknown value of the checked return type carrying every
   mark of the arguments the function does not handle itself (refined as declared) *)
Theorem C10_short_circuit : forall sp args v tr, call sp args = (Ok v, tr) ->
  (forall a t ri, ~ In (EvImpl a t ri) tr) ->
  exists expected reg,
    Ok v = apply_refine sp reg (Ok (with_marks (v_unknown expected) (collect_marks sp 0 args))).
Proof. exact call_short_circuit. Qed.

(* callback panics, non-conforming results and panicking result refinements come back as errors:
   no Go panic escapes Call *)
Theorem C10_panics_contained : forall sp args, fst (call sp args) <> Panic.
Proof. exact call_no_panic. Qed.

(* deep unmarking really removes every mark (what the callbacks are promised) *)
Theorem C10_strip_removes_all_marks : forall v, contains_marked (fst (unmark_deep v)) = false.
Proof. exact strip_not_marked. Qed.

(* non-vacuity: a spec with a marked, conforming argument reaches the implementation unmarked *)
Definition ex_spec : spec :=
  {| s_params := [{| p_ty := TStr; p_null := false; p_unk := false; p_dyn := false; p_marked := false |}];
     s_var := None; s_type := fun _ => Ok TStr; s_impl := fun a _ => match a with v :: _ => Ok v | [] => Panic end; s_refine := None |}.
Example C10_ex : call ex_spec [V TStr (PMarked [7%N] (PStr [97%N]))] =
  (Ok (V TStr (PMarked [7%N] (PStr [97%N]))),
   [EvType [V TStr (PStr [97%N])] (Ok TStr); EvImpl [V TStr (PStr [97%N])] TStr (Ok (V TStr (PStr [97%N])))]).
Proof. vm_compute. reflexivity. Qed.

Print Assumptions C10_impl_after_type_and_contract.
Print Assumptions C10_trace_shape.
Print Assumptions C10_arg_error_names_offender.
Print Assumptions C10_short_circuit.
Print Assumptions C10_panics_contained.
Print Assumptions C10_strip_removes_all_marks.
