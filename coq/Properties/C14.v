(* C14 — number, string, encoding and date functions match reference semantics.  The Gallina
   reference is Model/StdRef14.v; these are laws of that reference (proofs: Proofs/StdRef14Proofs.v). *)
From Coq Require Import Lia.
From Cty Require Import Base Ty BigFloat Value Hash Ops Refine Walk Convert StdRef StdRef14 StdRef14Proofs.
Open Scope Z_scope.

(* floor(x) is the greatest integer not above x, for every finite x of any magnitude and precision *)
Theorem C14_floor_exact : forall n sig e p f, floor_z (BFin n sig e p) = Some f ->
  bf_leb (bf_of_int f) (BFin n sig e p) = true /\ bf_ltb (BFin n sig e p) (bf_of_int (f + 1)) = true.
Proof. exact floor_spec. Qed.
Print Assumptions C14_floor_exact.

(* ceil(x) is the least integer not below x *)
Theorem C14_ceil_exact : forall n sig e p c, ceil_z (BFin n sig e p) = Some c ->
  bf_ltb (bf_of_int (c - 1)) (BFin n sig e p) = true /\ bf_leb (BFin n sig e p) (bf_of_int c) = true.
Proof. exact ceil_spec. Qed.
Print Assumptions C14_ceil_exact.

Theorem C14_floor_ceil_gap : forall x f c, floor_z x = Some f -> ceil_z x = Some c ->
  (trunc_exact x = true -> f = c) /\ (trunc_exact x = false -> c = f + 1).
Proof. exact floor_ceil_gap. Qed.
Print Assumptions C14_floor_ceil_gap.

(* trim of a prefix / suffix removes exactly that occurrence *)
Theorem C14_trimprefix : forall p r, ref_trimprefix_s (p ++ r) p = r.
Proof. exact trimprefix_removes. Qed.
Print Assumptions C14_trimprefix.
Theorem C14_trimprefix_absent : forall s p, starts_with p s = false -> ref_trimprefix_s s p = s.
Proof. exact trimprefix_else. Qed.
Print Assumptions C14_trimprefix_absent.
Theorem C14_trimsuffix : forall p r, ref_trimsuffix_s (r ++ p) p = r.
Proof. exact trimsuffix_removes. Qed.
Print Assumptions C14_trimsuffix.

(* grapheme-cluster functions never split a cluster: they rearrange or select whole clusters *)
Theorem C14_reverse_involution : forall cl, ref_reverse_s (rev cl) = concat cl.
Proof. exact reverse_clusters_involution. Qed.
Print Assumptions C14_reverse_involution.
Theorem C14_substr_whole : forall cl, ref_substr cl 0 (-1) = concat cl.
Proof. exact substr_whole. Qed.
Print Assumptions C14_substr_whole.
Theorem C14_substr_zero : forall cl off, ref_substr cl off 0 = [].
Proof. exact substr_zero. Qed.
Print Assumptions C14_substr_zero.

(* chomp removes trailing newlines and carriage returns, all of them and nothing else *)
Theorem C14_chomp_complete : forall r, match chomp_rev r with c :: _ => ((c =? 10) || (c =? 13))%N = false | [] => True end.
Proof. exact chomp_no_trailing_newline. Qed.
Print Assumptions C14_chomp_complete.
Theorem C14_chomp_only_newlines : forall r, exists t, r = t ++ chomp_rev r /\ forallb (fun c => ((c =? 10) || (c =? 13))%N) t = true.
Proof. exact chomp_removes_only_newlines. Qed.
Print Assumptions C14_chomp_only_newlines.

(* split then join with the same non-empty separator gives the string back *)
Theorem C14_join_split : forall sep, sep <> [] -> forall fuel s cur, (length s < fuel)%nat ->
  join_s sep (split_at fuel sep s cur) = rev cur ++ s.
Proof. exact join_split. Qed.
Print Assumptions C14_join_split.
