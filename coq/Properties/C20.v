(* C20 — values and the mutable helper sets are isolated from one another over all histories.
   Only statements here; proofs in Proofs/HeapProofs.v. *)
From Coq Require Import List ZArith.
From Cty Require Import Heap HeapProofs.
Open Scope Z_scope.

(* in every reachable state no two buckets -- of one set or of different sets -- share an array *)
Theorem C20_buckets_never_shared : forall hash ops, Inv (run hash true ops).
Proof. exact inv_run. Qed.
Print Assumptions C20_buckets_never_shared.

(* over every history of Add / Remove / Copy on any number of sets: the next Add or Remove on one set
   leaves what every other set reports unchanged, and a Copy changes no existing set *)
Theorem C20_history_isolation : forall hash ops o j sj,
  nth_error (st_sets (run hash true ops)) j = Some sj ->
  (match o with OpAdd i _ | OpRemove i _ => i <> j | OpCopy _ => True end) ->
  nth_error (st_sets (step hash true (run hash true ops) o)) j = Some sj /\
  view (st_heap (step hash true (run hash true ops) o)) sj = view (st_heap (run hash true ops)) sj.
Proof. exact history_isolation. Qed.
Print Assumptions C20_history_isolation.

(* the same statement for one step from any state satisfying the invariant *)
Theorem C20_step_isolation : forall hash st o, Inv st -> forall j sj, nth_error (st_sets st) j = Some sj ->
  (match o with OpAdd i _ | OpRemove i _ => i <> j | OpCopy _ => True end) ->
  nth_error (st_sets (step hash true st o)) j = Some sj /\
  view (st_heap (step hash true st o)) sj = view (st_heap st) sj.
Proof. exact isolation. Qed.
Print Assumptions C20_step_isolation.

(* with Copy sharing the bucket arrays (the code before commit 276a659) the statement is false:
   a kernel-computed history in which an Add on the copy overwrites a member of the original *)
Theorem C20_shallow_copy_refuted :
  views (run (fun v => v mod 3) false w_ops) = [[(0, [0; 3; 6; 12])]; [(0, [0; 3; 6; 12])]] /\
  isolated_run (fun v => v mod 3) false {| st_heap := []; st_sets := [[]] |} w_ops = false /\
  isolated_run (fun v => v mod 3) true {| st_heap := []; st_sets := [[]] |} w_ops = true.
Proof. exact shallow_copy_refuted. Qed.
Print Assumptions C20_shallow_copy_refuted.
