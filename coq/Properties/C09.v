(* C09 — unification.  Only statements here; proofs in Proofs/ConvertProofs.v. *)
From Cty Require Import Base Ty BigFloat Value Hash Ops Refine Walk Convert ConvertProofs.
Open Scope Z_scope.

Theorem C09_empty : forall unsafe, unify [] unsafe = Ok None.
Proof. exact unify_empty. Qed.
Print Assumptions C09_empty.

(* unification to dynamic: one conversion per input, each yielding DynamicVal, a value of the unified type *)
Theorem C09_all_dynamic_sound : forall tys t cs, unify_all_dynamic tys = Some (t, cs) ->
  t = TDyn /\ length cs = length tys /\
  forall c, In c cs -> exists f, c = Some f /\ forall v, f v = Ok v_dyn.
Proof. exact unify_all_dynamic_sound. Qed.
Print Assumptions C09_all_dynamic_sound.

Theorem C09_single_primitive : forall t unsafe, is_prim t = true ->
  exists f, c_unify (cfns_at (S f)) [t] unsafe = Ok (Some (t, [None])).
Proof. exact unify_single_prim. Qed.
Print Assumptions C09_single_primitive.
