(* C09 — unification.  Only statements here; proofs in Proofs/ConvertProofs.v. *)
From Cty Require Import Base Ty BigFloat Value Hash Ops Refine Walk Convert ConvertProofs UnifyProofs.
Open Scope Z_scope.

Theorem C09_empty : forall unsafe, unify [] unsafe = Ok None.
Proof. exact unify_empty. Qed.
Print Assumptions C09_empty.

(* unification to dynamic: one conversion per input, each yielding DynamicVal, a value of the unified type *)
Theorem C09_all_dynamic_sound : forall tys t cs, unify_all_dynamic tys = Some (t, cs) ->
  t = TDyn /\ length cs = length tys /\
  forall c, In c cs -> exists f, c = Some f /\ forall v, f v = Ok v_dyn.
Proof. exact unify_all_dynamic_sound. Qed.
Print Assumptions C09_all_dynamic_sound.

Theorem C09_single_primitive : forall t unsafe, is_prim t = true ->
  exists f, c_unify (cfns_at (S f)) [t] unsafe = Ok (Some (t, [None])).
Proof. exact unify_single_prim. Qed.
Print Assumptions C09_single_primitive.

(* the general case (types of different kinds, primitives): whenever it settles on a result, that result is one of the
   given types (the one at index w of the preference order), there is one entry per input, and each entry is either
   "nothing to convert" - the input is the chosen one or already of the result type - or exactly the conversion the
   lookup returned from that input type to the result type.  For every list of types, both modes, whatever the lookup does. *)
Theorem C09_general_case_sound : forall r tys unsafe want cs,
  unify_generic r tys unsafe = Ok (Some (want, cs)) ->
  exists w, want = nth w tys TDyn /\ length cs = length tys /\
            forall k t, nth_error tys k = Some t -> exists c, nth_error cs k = Some c /\ conv_entry_ok r unsafe w want k t c.
Proof. exact unify_generic_sound. Qed.
Print Assumptions C09_general_case_sound.
Definition c09_general_witness : bool := Eval vm_compute in
  match unify [TStr; TNum; TBool] false with
  | Ok (Some (t, cs)) => ty_eqb t TStr && Nat.eqb (length cs) 3
  | _ => false
  end.
Example C09_general_case_nonvacuous : c09_general_witness = true.
Proof. reflexivity. Qed.
