(* C15 — JSON encoding round-trips values and agrees with plain JSON.
   Statements only; proofs are `exact <lemma>` into Proofs/JsonProofs.v (type codec: C07). *)
From Cty Require Import Base Ty BigFloat Value Hash Ops Refine Json TyProofs JsonProofs JsonRoundTrip.
Open Scope Z_scope.

(* values JSON cannot represent are rejected with an error rather than mis-encoded *)
Theorem C15_rejects_marked : forall v t, is_marked v = true -> json_marshal v t = Err OtherError.
Proof. exact marshal_rejects_marked. Qed.
Theorem C15_rejects_unknown : forall v t, is_marked v = false -> is_known v = false -> json_marshal v t = Err OtherError.
Proof. exact marshal_rejects_unknown. Qed.
Theorem C15_rejects_infinity : forall n p i, json_marshal (V TNum (PNum (BInf n p) i)) TNum = Err OtherError.
Proof. exact marshal_rejects_infinity. Qed.

(* primitives: strings (every normalised string), booleans, nulls of any non-placeholder type round-trip *)
Theorem C15_string_roundtrip : forall norm s, norm s = s ->
  exists j, json_marshal (v_str s) TStr = Ok j /\ json_unmarshal norm j TStr = Ok (v_str s).
Proof. exact string_roundtrip. Qed.
Theorem C15_bool_roundtrip : forall norm b,
  exists j, json_marshal (v_bool b) TBool = Ok j /\ json_unmarshal norm j TBool = Ok (v_bool b).
Proof. exact bool_roundtrip. Qed.
Theorem C15_null_roundtrip : forall norm t, is_dyn t = false ->
  exists j, json_marshal (v_null t) t = Ok j /\ json_unmarshal norm j t = Ok (v_null t).
Proof. exact null_roundtrip. Qed.

(* dynamic placeholder at the top of the constraint: the encoder writes exactly the documented wrapper
   {"value": <encoding against the value's own type>, "type": <the type>} and the decoder, given such a
   wrapper, decodes the value against the recovered type — so the dynamic round trip reduces to the
   static one (together with C07_json_roundtrip for the type) *)
Theorem C15_dynamic_wrapper : forall v j tj, is_marked v = false -> is_known v = true -> is_dyn (vty v) = false ->
  type_to_json (vty v) = Ok tj ->
  json_marshal_at (psize (vp v) + ty_size TDyn + ty_size (vty v)) v (vty v) = Ok j ->
  json_marshal v TDyn = Ok (JObj [(s_value, j); (s_type, tj)]).
Proof. exact dynamic_wrapper. Qed.
Theorem C15_dynamic_unwrap : forall norm j tj t, type_of_json norm tj = Ok t ->
  json_unmarshal norm (JObj [(s_value, j); (s_type, tj)]) TDyn =
  match json_unmarshal_at norm (S (jv_size j + jv_size tj)) j (strip_opt t) with Err _ => Err OtherError | r => r end.
Proof. exact dynamic_unwrap. Qed.

(* refuted as coded (known finding KF-C15-1): 1e23 as a float64 is written as "100000000000000000000000",
   which denotes another integer *)
Theorem C15_integer_text_refuted :
  (match json_marshal (v_num w_1e23) TNum with Ok j => json_unmarshal (fun s => s) j TNum | _ => Err OtherError end) = w_json_back /\
  match w_json_back with Ok v' => raw_equals v' (v_num w_1e23) | _ => Ok true end = Ok false.
Proof. exact integer_text_refuted. Qed.

Example C15_ex : json_marshal (V (TList TStr) (PSeq [PStr [97%N]; PNull])) (TList TDyn) =
  Ok (JArr [JObj [(s_value, JStr [97%N]); (s_type, JStr s_string)]; JObj [(s_value, JNull); (s_type, JStr s_string)]]).
Proof. vm_compute. reflexivity. Qed.

Print Assumptions C15_rejects_marked.
Print Assumptions C15_rejects_unknown.
Print Assumptions C15_rejects_infinity.
Print Assumptions C15_string_roundtrip.
Print Assumptions C15_bool_roundtrip.
Print Assumptions C15_null_roundtrip.
Print Assumptions C15_dynamic_wrapper.
Print Assumptions C15_dynamic_unwrap.
Print Assumptions C15_integer_text_refuted.

(* ---- structural round trip, every depth ---- *)
(* every known, unmarked value built from booleans, strings, nulls, lists, tuples, maps and objects ([RT]: the
   payload is a value of the type; strings and names are fixed by the normaliser, keys sorted as cty keeps
   them) is encoded, and the encoding decodes to exactly that value, through the public entry points with the
   fuel they compute themselves *)
Theorem C15_structural_roundtrip : forall norm t p, RT norm false t p ->
  exists j, json_marshal (V t p) t = Ok j /\ json_unmarshal norm j t = Ok (V t p).
Proof. exact json_roundtrip. Qed.
Print Assumptions C15_structural_roundtrip.
(* the same for any fuel above the nesting depth, with the size relation that makes the entry points' fuel enough *)
Theorem C15_structural_roundtrip_any_fuel : forall norm n t p, RT norm false t p -> (pdepth p <= n)%nat ->
  forall f f', (n < f)%nat -> (n < f')%nat ->
  exists j, json_marshal_at f (V t p) t = Ok j /\ json_unmarshal_at norm f' j t = Ok (V t p) /\ (pdepth p <= jv_size j)%nat.
Proof. intros norm. exact (roundtrip_at norm false eq_refl). Qed.
Print Assumptions C15_structural_roundtrip_any_fuel.
(* the premise is met by nested values *)
Example C15_RT_nonvacuous :
  RT (fun s => s) false (TObj [([97%N], TList (TTuple [TStr; TBool])); ([98%N], TMap TStr)] [])
     (PMap [([97%N], PSeq [PSeq [PStr [120%N]; PBool true]; PNull]); ([98%N], PMap [([107%N], PStr []); ([108%N], PNull)])]).
Proof.
  apply RT_obj; [reflexivity|intros; reflexivity|].
  repeat constructor; cbn; auto; try (intros; reflexivity).
Qed.

From Cty Require Import RawRefl RawEq.

(* the round trip in the property's own terms: the decoded value is RawEquals to the original, at every depth *)
Theorem C15_structural_roundtrip_raw_equal : forall norm t p, RT norm false t p -> wf_ty t = true ->
  exists j r, json_marshal (V t p) t = Ok j /\ json_unmarshal norm j t = Ok r /\ raw_equals r (V t p) = Ok true.
Proof. exact json_roundtrip_raw_equal. Qed.
Print Assumptions C15_structural_roundtrip_raw_equal.
