(* C04 — Marks never change results, are never lost where promised, never invented.
   Statements only; proofs are `exact <lemma>` into Proofs/MarksProofs.v.
   Every operation method of the model is [unary_marks f] or [binary_marks f] for its unmarked core f
   (Model/Ops.v, Model/Refine.v), so the generic theorems below apply to each of them. *)
From Cty Require Import Base Ty BigFloat Value Hash Ops Refine MarksProofs.
Open Scope Z_scope.

(* the result is the stripped run's result carrying exactly the union of the operands' marks *)
Theorem C04_unary_ops : forall f v res, unary_marks f v = Ok res ->
  exists r, f (unmark_force v) = Ok r /\ res = with_marks r (marks_of v).
Proof. exact unary_marks_spec. Qed.
Theorem C04_binary_ops : forall f a b res, binary_marks f a b = Ok res ->
  exists r, f (unmark_force a) (unmark_force b) = Ok r /\ res = with_marks r (marks_union (marks_of a) (marks_of b)).
Proof. exact binary_marks_spec. Qed.

(* success / failure is the same with the marks stripped *)
Theorem C04_outcome_unchanged : forall f a b,
  match binary_marks f a b, f (unmark_force a) (unmark_force b) with
  | Ok _, Ok _ | Panic, Panic | Err _, Err _ | OutOfFuel, OutOfFuel => True
  | _, _ => False
  end.
Proof. exact binary_marks_outcome. Qed.

(* non-interference: the unmarked result equals the unmarked result of the stripped run *)
Theorem C04_noninterference : forall f a b res, binary_marks f a b = Ok res ->
  exists r, f (unmark_force a) (unmark_force b) = Ok r /\ unmark_force res = unmark_force r.
Proof. exact binary_marks_noninterference. Qed.

(* the instances: each binary / unary operation method is such a wrapper *)
Theorem C04_instances :
  add_v = binary_marks (arith_at 4 OpAdd) /\ sub_v = binary_marks (arith_at 4 OpSub) /\ mul_v = binary_marks (arith_at 4 OpMul) /\
  divide_v = binary_marks divide_u /\ modulo_v = binary_marks modulo_u /\ lt_v = binary_marks lt_u /\ gt_v = binary_marks gt_u /\
  and_v = binary_marks and_u /\ or_v = binary_marks or_u /\ index_v = binary_marks index_u /\ has_index_v = binary_marks has_index_u /\
  not_v = unary_marks not_u /\ negate_v = unary_marks negate_u /\
  absolute_v = unary_marks absolute_u /\ length_v = unary_marks length_value.
Proof. repeat split; reflexivity. Qed.

(* Equals collects nested marks from both operands onto the result *)
Theorem C04_equals_deep : forall r order a b, contains_marked a || contains_marked b = true ->
  equals_step r order a b =
  (do res <- r.(e_equals) (fst (unmark_deep a)) (fst (unmark_deep b));
   Ok (with_marks res (marks_union (snd (unmark_deep a)) (snd (unmark_deep b))))).
Proof. exact equals_deep_marks. Qed.

(* marks on members given to the set constructor move to the set *)
Theorem C04_setval_hoists : forall vs s, set_val vs = Ok s ->
  exists et bs, unmark_force s = V (TSet et) (PSet bs) /\
  s = with_marks (V (TSet et) (PSet bs)) (fold_left (fun acc um => marks_union acc (snd um)) (map unmark_deep vs) []).
Proof. exact set_val_hoists. Qed.

Example C04_ex : add_v (V TNum (PMarked [1%N] (PNum (bf_of_int 2) IdFresh))) (V TNum (PMarked [2%N] (PNum (bf_of_int 3) IdFresh)))
               = Ok (V TNum (PMarked [1%N; 2%N] (PNum (BFin false 5 0 64) IdFresh))).
Proof. vm_compute. reflexivity. Qed.

Print Assumptions C04_unary_ops.
Print Assumptions C04_binary_ops.
Print Assumptions C04_outcome_unchanged.
Print Assumptions C04_noninterference.
Print Assumptions C04_instances.
Print Assumptions C04_equals_deep.
Print Assumptions C04_setval_hoists.
