(* C06 — Every value the library returns is well-formed for its type.
   [wf_value] (Model/Wf.v) is the Gallina counterpart of the hook cty.VerifWellFormed; the
   correspondence compares the two verdicts on every value any check obtains from the library.
   Statements only; proofs are `exact <lemma>` into Proofs/WfProofs.v. *)
From Cty Require Import Base Ty BigFloat Value Hash Ops Refine Wf Json Msgpack Walk WfProofs JsonRoundTrip WfRT.
Open Scope Z_scope.

(* primitive constructors *)
Theorem C06_bool : forall norm b, wf_value norm (v_bool b) = true.
Proof. exact wf_bool. Qed.
Theorem C06_number : forall norm n, wf_value norm (v_num n) = true.
Proof. exact wf_num. Qed.
Theorem C06_string : forall norm s, norm s = s -> wf_value norm (v_str s) = true.
Proof. exact wf_str. Qed.
Theorem C06_null : forall norm t, wf_ty t = true -> has_opt t = false -> wf_value norm (v_null t) = true.
Proof. exact wf_null. Qed.
Theorem C06_dynamic : forall norm, wf_value norm v_dyn = true.
Proof. exact wf_dyn. Qed.

(* every result of the logical and comparison operations is well-formed, for ALL operands
   (known, unknown, refined, null, dynamically typed) *)
Theorem C06_not : forall norm v r, not_u v = Ok r -> wf_value norm r = true.
Proof. exact wf_not_u. Qed.
Theorem C06_and : forall norm a b r, and_u a b = Ok r -> wf_value norm r = true.
Proof. exact wf_and_u. Qed.
Theorem C06_or : forall norm a b r, or_u a b = Ok r -> wf_value norm r = true.
Proof. exact wf_or_u. Qed.
Theorem C06_less_than : forall norm a b r, lt_u a b = Ok r -> wf_value norm r = true.
Proof. exact wf_lt_u. Qed.
Theorem C06_greater_than : forall norm a b r, gt_u a b = Ok r -> wf_value norm r = true.
Proof. exact wf_gt_u. Qed.

(* constructors never invent types: a tuple's type is the tuple of its members' types and it holds
   exactly as many payloads; a list's element type is a member type or the placeholder *)
Theorem C06_tuple_type : forall vs, vty (tuple_val vs) = TTuple (map vty vs).
Proof. exact tuple_val_ty. Qed.
Theorem C06_tuple_length : forall vs, match vp (tuple_val vs) with PSeq l => length l = length vs | _ => False end.
Proof. exact tuple_val_len. Qed.
Theorem C06_list_elem_type : forall acc ts et, unify_elem_ty acc ts = Some et -> et = acc \/ In et ts.
Proof. exact unify_elem_ty_mem. Qed.

(* non-vacuity: an ill-formed value is recognised (two marker layers; string member in a number list) *)
Example C06_ex_bad_marks : wf_value (fun s => s) (V TStr (PMarked [1%N] (PMarked [2%N] (PStr [97%N])))) = false.
Proof. vm_compute. reflexivity. Qed.
Example C06_ex_bad_member : wf_value (fun s => s) (V (TList TNum) (PSeq [PStr [97%N]])) = false.
Proof. vm_compute. reflexivity. Qed.
Example C06_ex_good : wf_value (fun s => s) (V (TObj [([97%N], TList TStr)] []) (PMap [([97%N], PSeq [PStr [98%N]; PUnk (RStr TF [99%N])])])) = true.
Proof. vm_compute. reflexivity. Qed.

Print Assumptions C06_bool.
Print Assumptions C06_number.
Print Assumptions C06_string.
Print Assumptions C06_null.
Print Assumptions C06_dynamic.
Print Assumptions C06_not.
Print Assumptions C06_and.
Print Assumptions C06_or.
Print Assumptions C06_less_than.
Print Assumptions C06_greater_than.
Print Assumptions C06_tuple_type.
Print Assumptions C06_tuple_length.
Print Assumptions C06_list_elem_type.

(* ---- values nested to any depth ---- *)
(* every value of the structural fragment [RT] (booleans, strings, nulls, unrefined unknowns, lists, tuples, maps
   and objects, nested arbitrarily) whose type is well-formed and free of optional-attribute annotations is
   well-formed: members have exactly the declared types, tuple lengths and attribute sets match, keys are sorted
   and normalised *)
Theorem C06_structural_wf : forall norm unk t p, RT norm unk t p -> wf_ty t = true -> has_opt t = false ->
  wf_value norm (V t p) = true.
Proof. exact RT_wf_value. Qed.
Print Assumptions C06_structural_wf.
(* hence what a traversal and the two decoders return for such a value is well-formed *)
Theorem C06_identity_transform_wf : forall norm unk t p, RT norm unk t p -> wf_ty t = true -> has_opt t = false ->
  exists r, transform norm (fun _ x => Ok x) (V t p) = Ok r /\ wf_value norm r = true.
Proof. exact identity_transform_wf. Qed.
Print Assumptions C06_identity_transform_wf.
Theorem C06_json_decoded_wf : forall norm t p, RT norm false t p -> wf_ty t = true -> has_opt t = false ->
  exists j r, json_marshal (V t p) t = Ok j /\ json_unmarshal norm j t = Ok r /\ wf_value norm r = true.
Proof. exact json_decoded_wf. Qed.
Print Assumptions C06_json_decoded_wf.
Theorem C06_msgpack_decoded_wf : forall norm unk trunc jp t p, RT norm unk t p -> wf_ty t = true -> has_opt t = false ->
  exists m r, mp_marshal trunc (V t p) t = Ok m /\ mp_unmarshal norm jp m t = Ok r /\ wf_value norm r = true.
Proof. exact mp_decoded_wf. Qed.
Print Assumptions C06_msgpack_decoded_wf.
Example C06_structural_nonvacuous :
  let t := TObj [([97%N], TList (TTuple [TStr; TBool])); ([98%N], TMap TStr)] [] in
  let p := PMap [([97%N], PSeq [PSeq [PStr [120%N]; PBool true]; PNull]); ([98%N], PMap [([107%N], PStr []); ([108%N], PNull)])] in
  RT (fun s => s) false t p /\ wf_ty t = true /\ has_opt t = false.
Proof.
  cbv zeta. split; [|split; reflexivity].
  apply RT_obj; [reflexivity|intros; reflexivity|].
  repeat constructor; cbn; auto; try (intros; reflexivity).
Qed.

From Cty Require Import WalkMembers.
(* "any value returned by a ... traversal": every member Walk reports of such a value is well-formed, at every depth *)
Theorem C06_walk_members_wf : forall norm unk t p l, RT norm unk t p -> wf_ty t = true -> has_opt t = false ->
  walk (V t p) = Ok l -> forall q x, In (q, x) l -> wf_value norm x = true.
Proof. exact walk_members_wf. Qed.
Print Assumptions C06_walk_members_wf.
