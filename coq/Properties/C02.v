(* C02 — Core operations compute the documented result on known values.
   Statements only; proofs are `exact <lemma>` into Proofs/OpsProofs.v. *)
From Cty Require Import Base Ty BigFloat Value Hash Ops Refine OpsProofs.
Open Scope Z_scope.

(* boolean operations agree with their truth tables *)
Theorem C02_not : forall b, not_v (v_bool b) = Ok (v_bool (negb b)).
Proof. exact not_truth. Qed.
Theorem C02_and : forall a b, and_v (v_bool a) (v_bool b) = Ok (v_bool (a && b)).
Proof. exact and_truth. Qed.
Theorem C02_or : forall a b, or_v (v_bool a) (v_bool b) = Ok (v_bool (a || b)).
Proof. exact or_truth. Qed.

(* operands of the wrong type are rejected rather than yielding a value *)
Theorem C02_and_wrong_type : forall pa t p, is_dyn t = false -> ty_equals t TBool = false ->
  and_u (V TBool pa) (V t p) = Panic.
Proof. exact and_wrong_type. Qed.
Theorem C02_add_wrong_type : forall pa t p, is_dyn t = false -> ty_equals t TNum = false ->
  arith_at 4 OpAdd (V TNum pa) (V t p) = Panic.
Proof. exact add_wrong_type. Qed.

(* an index lookup succeeds exactly when the has-index query answers true
   (known list / tuple, known number key of any magnitude, precision, sign) *)
Theorem C02_index_iff_hasindex_list : forall e l n id,
  let v := V (TList e) (PSeq l) in let key := V TNum (PNum n id) in
  (exists r, index_u v key = Ok r) <-> has_index_u v key = Ok v_true.
Proof. exact index_iff_hasindex_list. Qed.
Theorem C02_index_iff_hasindex_tuple : forall es l n id, length l = length es ->
  let v := V (TTuple es) (PSeq l) in let key := V TNum (PNum n id) in
  (exists r, index_u v key = Ok r) <-> has_index_u v key = Ok v_true.
Proof. exact index_iff_hasindex_tuple. Qed.

(* index / length return exactly the members the list was constructed from *)
Theorem C02_list_length : forall vs v, list_val vs = Ok v -> length_int v = Ok (Z.of_nat (length vs)).
Proof. exact list_val_length. Qed.
Theorem C02_list_index : forall vs v i, list_val vs = Ok v -> (i < length vs)%nat -> Z.of_nat i <= int64_max ->
  exists et, vty v = TList et /\ index_u v (v_int (Z.of_nat i)) = Ok (V et (vp (nth i vs v_dyn))).
Proof. exact list_val_index. Qed.

(* division by zero gives the documented signed infinity; 0/0 is the documented panic *)
Theorem C02_div_zero : forall nx sx ex px ny ey py, sx <> 0%N ->
  bf_quo (BFin nx sx ex px) (BFin ny 0 ey py) = Some (BInf (xorb nx ny) (Z.max px py)).
Proof. exact quo_by_zero. Qed.
Theorem C02_zero_div_zero : forall nx ex px ny ey py, bf_quo (BFin nx 0 ex px) (BFin ny 0 ey py) = None.
Proof. exact quo_zero_zero. Qed.

(* results that fit the precision are exact: no rounding happens (same-sign addition;
   the sum of the aligned significands is the exact sum) *)
Theorem C02_add_exact_partial : forall n s1 e1 p1 s2 e2 p2,
  s1 <> 0%N -> s2 <> 0%N ->
  let '(a, b, e) := align s1 e1 s2 e2 in
  let p := Z.max p1 p2 in
  bitlen (a + b) <= p ->
  min_exp <= e + bitlen (a + b) <= max_exp ->
  bf_add (BFin n s1 e1 p1) (BFin n s2 e2 p2) = Some (BFin n (a + b) e p).
Proof. exact add_same_sign_fits. Qed.

(* non-vacuity *)
Example C02_ex_index : index_u (V (TList TStr) (PSeq [PStr [97]%N; PStr [98]%N])) (v_int 1) = Ok (V TStr (PStr [98]%N)).
Proof. vm_compute. reflexivity. Qed.
Example C02_ex_add : add_v (v_int 3) (v_int 4) = Ok (v_num (BFin false 7 0 64)).
Proof. vm_compute. reflexivity. Qed.

Print Assumptions C02_not.
Print Assumptions C02_and.
Print Assumptions C02_or.
Print Assumptions C02_and_wrong_type.
Print Assumptions C02_add_wrong_type.
Print Assumptions C02_index_iff_hasindex_list.
Print Assumptions C02_index_iff_hasindex_tuple.
Print Assumptions C02_list_length.
Print Assumptions C02_list_index.
Print Assumptions C02_div_zero.
Print Assumptions C02_zero_div_zero.
Print Assumptions C02_add_exact_partial.
