(* C19 — Walk, transform and paths address exactly the members of a value.
   Statements only; proofs are `exact <lemma>` into Proofs/WalkProofs.v. *)
From Coq Require Import Sorted.
From Cty Require Import Base Ty BigFloat Value Hash Ops Refine SetAlg SetAlgProofs Walk WalkProofs JsonRoundTrip WalkIdentity WalkResolve.
Open Scope Z_scope.

(* path sets: the hash is coherent with path equivalence for ALL paths (any keys) ... *)
Theorem C19_path_hash_coherent : forall a b, path_equiv a b = true -> path_hash a = path_hash b.
Proof. exact path_hash_coherent. Qed.
(* ... so membership queries answer abstract membership in every invariant state *)
Theorem C19_pathset_has : forall s p, Inv path path_hash path_equiv s -> ps_has s p = gmem path path_equiv s p.
Proof. exact ps_has_spec. Qed.

(* for paths whose index keys are known numbers or strings the equivalence is an equivalence relation
   (numbers: equal by integer value / shortest text, as Equals decides), hence path sets are
   mathematical sets of paths: exactly the added paths, never two equivalent ones, order-independent *)
Theorem C19_kpath_equiv : (forall a, kp_eqv a a = true) /\ (forall a b, kp_eqv a b = kp_eqv b a) /\
  (forall a b c, kp_eqv a b = true -> kp_eqv b c = true -> kp_eqv a c = true).
Proof. exact (conj kp_eqv_refl (conj kp_eqv_sym kp_eqv_trans)). Qed.
Theorem C19_pathset_is_set : forall xs y,
  gmem _ kp_eqv (fold_left (g_add _ kp_hash kp_eqv) xs []) y = existsb (kp_eqv y) xs.
Proof. exact kpathset_is_set. Qed.
Theorem C19_pathset_no_duplicates : forall xs,
  ForallOrdPairs (fun x y => kp_eqv x y = false) (gmembers _ (fold_left (g_add _ kp_hash kp_eqv) xs [])).
Proof. exact kpathset_no_duplicates. Qed.
Theorem C19_model_equiv_on_known_keys : forall a b, path_equiv (path_of_k a) (path_of_k b) = list_eqb kstep_eqv a b.
Proof. exact path_equiv_k. Qed.

(* paths compose: applying p ++ q is applying p then q *)
Theorem C19_apply_compose : forall norm p q v, path_apply norm (p ++ q) v =
  match path_apply norm p v with Ok v' => path_apply norm q v' | r => r end.
Proof. exact path_apply_app. Qed.

(* Walk reports the root first, and reports null / unknown values without descending *)
Theorem C19_walk_root_first : forall v l, walk v = Ok l -> exists rest, l = ([], v) :: rest.
Proof. exact walk_root. Qed.
Theorem C19_walk_stops_at_null_unknown : forall v, is_null v || negb (is_known v) = true -> walk v = Ok [([], v)].
Proof. exact walk_leaf. Qed.

(* an attribute step that names an existing attribute succeeds *)
Theorem C19_attr_step_succeeds : forall norm name attrs o m p, lookup name attrs = Some p -> norm name = name ->
  (exists x, lookup name m = Some x) -> exists r, attr_step_apply norm name (V (TObj attrs o) (PMap m)) = Ok r.
Proof. exact attr_step_known. Qed.

Example C19_ex_walk : walk (V (TList TStr) (PSeq [PStr [97%N]; PMarked [1%N] (PStr [98%N])])) =
  Ok [([], V (TList TStr) (PSeq [PStr [97%N]; PMarked [1%N] (PStr [98%N])]));
      ([SIndex (v_int 0)], V TStr (PStr [97%N])); ([SIndex (v_int 1)], V TStr (PMarked [1%N] (PStr [98%N])))].
Proof. vm_compute. reflexivity. Qed.

Print Assumptions C19_path_hash_coherent.
Print Assumptions C19_pathset_has.
Print Assumptions C19_kpath_equiv.
Print Assumptions C19_pathset_is_set.
Print Assumptions C19_pathset_no_duplicates.
Print Assumptions C19_model_equiv_on_known_keys.
Print Assumptions C19_apply_compose.
Print Assumptions C19_walk_root_first.
Print Assumptions C19_walk_stops_at_null_unknown.
Print Assumptions C19_attr_step_succeeds.

(* ---- the identity transformation returns the value it was given, at every depth ---- *)
(* for every value of the structural fragment [RT] (booleans, strings, nulls, unrefined unknowns, lists, tuples,
   maps and objects, nested arbitrarily): taking the value apart member by member and rebuilding it with the
   collection constructors gives back exactly that value, through the public entry point with its own fuel *)
Theorem C19_identity_transform : forall norm unk t p, RT norm unk t p ->
  transform norm (fun _ x => Ok x) (V t p) = Ok (V t p).
Proof. exact transform_identity. Qed.
Print Assumptions C19_identity_transform.
Theorem C19_identity_transform_any_fuel : forall norm unk n t p, RT norm unk t p -> (pdepth p <= n)%nat ->
  forall f q, (n < f)%nat -> transform_at norm (fun _ x => Ok x) (fun _ x => Ok x) f q (V t p) = Ok (V t p).
Proof. exact transform_identity_at. Qed.
Print Assumptions C19_identity_transform_any_fuel.

(* ---- every path Walk reports, applied to the root, returns the member reported with it, at every depth ---- *)
(* for every value of the structural fragment [RT] whose size fits a 64-bit index: Walk succeeds (with its own
   fuel), and each (path, member) pair it reports satisfies Path.Apply(root) = member, whatever the nesting *)
Theorem C19_walk_paths_resolve : forall norm unk t p, RT norm unk t p -> Z.of_nat (psize p) <= int64_max ->
  exists l, walk (V t p) = Ok l /\ forall q x, In (q, x) l -> path_apply norm q (V t p) = Ok x.
Proof. exact walk_resolves. Qed.
Print Assumptions C19_walk_paths_resolve.
(* the same at any starting path and any sufficient fuel: reported paths extend the starting path *)
Theorem C19_walk_paths_resolve_any_fuel : forall norm unk n t p, RT norm unk t p -> (pdepth p <= n)%nat ->
  Z.of_nat (psize p) <= int64_max -> forall f pre, (n < f)%nat ->
  exists l, walk_at f pre (V t p) = Ok l /\
    Forall (fun qx => exists q', fst qx = pre ++ q' /\ path_apply norm q' (V t p) = Ok (snd qx)) l.
Proof. exact walk_resolves_at. Qed.
Print Assumptions C19_walk_paths_resolve_any_fuel.
(* the premises are satisfiable by a nested value, and the walk of that value has nine entries *)
Example C19_resolve_nonvacuous :
  let t := TObj [([97%N], TList (TTuple [TStr; TBool])); ([98%N], TMap TStr)] [] in
  let p := PMap [([97%N], PSeq [PSeq [PStr [120%N]; PBool true]; PNull]); ([98%N], PMap [([107%N], PStr []); ([108%N], PNull)])] in
  RT (fun s => s) false t p /\ Z.of_nat (psize p) <= int64_max /\
  match walk (V t p) with Ok l => length l = 9%nat | _ => False end.
Proof.
  cbv zeta. split; [|split; [vm_compute; discriminate|vm_compute; reflexivity]].
  apply RT_obj; [reflexivity|intros; reflexivity|].
  repeat constructor; cbn; auto; try (intros; reflexivity).
Qed.

From Cty Require Import RawRefl RawEq.

(* "an identity transformation returns an equal value": in the property's own terms (RawEquals), at every depth *)
Theorem C19_identity_transform_raw_equal : forall norm unk t p, RT norm unk t p -> wf_ty t = true ->
  exists r, transform norm (fun _ x => Ok x) (V t p) = Ok r /\ raw_equals r (V t p) = Ok true.
Proof. exact identity_transform_raw_equal. Qed.
Print Assumptions C19_identity_transform_raw_equal.

From Cty Require Import WalkCount WalkNoDup.
(* ---- "visits the value and each nested member exactly once", at every depth ---- *)
(* on the structural fragment Walk reports one entry per node of the value (the value itself and every nested
   member, nulls and unknowns included: [psize] counts exactly those here) and no path twice *)
Theorem C19_walk_exactly_once : forall norm unk t p l, RT norm unk t p -> walk (V t p) = Ok l ->
  length l = psize p /\ NoDup (map fst l).
Proof. exact walk_exactly_once. Qed.
Print Assumptions C19_walk_exactly_once.
(* every reported path extends the path of the value walked (children are reported under their parent's path), for
   any starting path and any fuel *)
Theorem C19_walk_paths_extend : forall norm unk n t p, RT norm unk t p -> (pdepth p <= n)%nat ->
  forall f pre l, walk_at f pre (V t p) = Ok l ->
  NoDup (map fst l) /\ Forall (fun qx => exists q', fst qx = pre ++ q') l.
Proof. exact walk_nodup_at. Qed.
Print Assumptions C19_walk_paths_extend.
