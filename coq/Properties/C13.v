(* C13 — collection, set and sequence functions match reference semantics.  The reference is
   Model/StdRef.v; the statements below are laws of that reference, proofs in Proofs/StdRefProofs.v. *)
From Coq Require Import Lia Sorting.Permutation.
From Cty Require Import Base Ty BigFloat Value Hash Ops Refine Walk Convert StdRef StdRefProofs.
Open Scope Z_scope.

(* reverse: an involution on lists *)
Theorem C13_reverse_involution : forall e l,
  (do r <- ref_reverse (V (TList e) (PSeq l)); ref_reverse r) = Ok (V (TList e) (PSeq l)).
Proof. exact reverse_involution. Qed.
Print Assumptions C13_reverse_involution.

(* chunklist: the chunks partition the list, none is empty, none longer than the size *)
Theorem C13_chunks_partition : forall n, (0 < n)%nat -> forall fuel (l : list value), (length l <= fuel)%nat -> concat (chunks fuel n l) = l.
Proof. exact chunks_concat. Qed.
Print Assumptions C13_chunks_partition.
Theorem C13_chunks_bounded : forall n fuel (l : list value), Forall (fun c => (length c <= n)%nat) (chunks fuel n l).
Proof. exact chunks_bounded. Qed.
Print Assumptions C13_chunks_bounded.
Theorem C13_chunks_nonempty : forall n, (0 < n)%nat -> forall fuel (l : list value), Forall (fun c => c <> []) (chunks fuel n l).
Proof. exact chunks_nonempty. Qed.
Print Assumptions C13_chunks_nonempty.

(* slice: length j - i; the whole range is the list; adjacent slices concatenate *)
Theorem C13_slice_length : forall (l : list value) i j, (i <= j)%nat -> (j <= length l)%nat -> length (firstn (j - i) (skipn i l)) = (j - i)%nat.
Proof. intros l. exact (slice_length l). Qed.
Print Assumptions C13_slice_length.
Theorem C13_slice_whole : forall l : list value, firstn (length l - 0) (skipn 0 l) = l.
Proof. exact slice_whole. Qed.
Print Assumptions C13_slice_whole.
Theorem C13_slice_adjacent : forall (l : list value) i j k, (i <= j)%nat -> (j <= k)%nat ->
  firstn (j - i) (skipn i l) ++ firstn (k - j) (skipn j l) = firstn (k - i) (skipn i l).
Proof. intros l. exact (slice_adjacent l). Qed.
Print Assumptions C13_slice_adjacent.

(* element: the index wraps around the length *)
Theorem C13_element_wraps : forall k n, 0 < n -> 0 <= k mod n < n /\ (k + n) mod n = k mod n /\ (k - n) mod n = k mod n.
Proof. exact wrap_index. Qed.
Print Assumptions C13_element_wraps.

(* setproduct: as many combinations as the product of the sizes, each with one member per operand *)
Theorem C13_product_count : forall parts, length (product parts) = fold_right (fun p n => (length p * n)%nat) 1%nat parts.
Proof. exact product_length. Qed.
Print Assumptions C13_product_count.
Theorem C13_product_widths : forall parts, Forall (fun t => length t = length parts) (product parts).
Proof. exact product_widths. Qed.
Print Assumptions C13_product_widths.

(* sort: ascending, and a rearrangement of the input *)
Theorem C13_sort_ascending : forall l, ascending (fold_left (fun acc s => insert_sorted s acc) l []) = true.
Proof. exact sort_strings_sorted. Qed.
Print Assumptions C13_sort_ascending.
Theorem C13_sort_permutation : forall l, Permutation l (fold_left (fun acc s => insert_sorted s acc) l []).
Proof. exact sort_strings_perm. Qed.
Print Assumptions C13_sort_permutation.
