(* C07 — Type equality, conformance and type serialization obey their algebra.
   Only statements here; every proof is `exact <lemma>` into Proofs/TyProofs.v. *)
From Coq Require Import String.
From Cty Require Import Base Ty BaseProofs TyProofs.

(* Type.Equals (as implemented, object case iterating the receiver's attribute map) is an
   equivalence relation on well-formed types ... *)
Theorem C07_equals_refl : forall t, wf_ty t = true -> ty_equals t t = true.
Proof. exact ty_equals_refl. Qed.
Theorem C07_equals_sym : forall t u, wf_ty t = true -> wf_ty u = true -> ty_equals t u = ty_equals u t.
Proof. exact ty_equals_sym. Qed.
Theorem C07_equals_trans : forall t u v, wf_ty t = true -> wf_ty u = true -> wf_ty v = true ->
  ty_equals t u = true -> ty_equals u v = true -> ty_equals t v = true.
Proof. exact ty_equals_trans. Qed.

(* ... that distinguishes every structurally different type: kind, element type, attribute
   names and types, optional-attribute sets, tuple order and length, capsule identity. *)
Theorem C07_equals_iff_eq : forall t u, wf_ty t = true -> wf_ty u = true -> (ty_equals t u = true <-> t = u).
Proof. exact ty_equals_iff_eq. Qed.

(* TestConformance reports no error exactly when the type equals the constraint after dropping
   optional marks and replacing each placeholder of the constraint by the matching part. *)
Theorem C07_conform_iff : forall c t, wf_ty t = true -> wf_ty c = true -> (conformance t c = [] <-> Conf t c).
Proof. exact conformance_iff. Qed.
Theorem C07_conform_errors : forall t c, wf_ty t = true -> wf_ty c = true -> ~ Conf t c -> conformance t c <> [].
Proof. exact conformance_nonempty. Qed.

Theorem C07_hasdyn_iff : forall t, has_dyn t = true <-> Occurs t.
Proof. exact has_dyn_iff. Qed.

(* capsule-free types survive JSON serialization unchanged *)
Theorem C07_json_roundtrip : forall norm t,
  wf_ty t = true -> has_cap t = false -> keys_normal norm t ->
  exists j, type_to_json t = Ok j /\ type_of_json norm j = Ok t.
Proof. exact type_json_roundtrip. Qed.

Theorem C07_strip_idem : forall t, strip_opt (strip_opt t) = strip_opt t.
Proof. exact strip_idem. Qed.
Theorem C07_strip_only_opt : forall t, SameButOpt t (strip_opt t) /\ has_opt (strip_opt t) = false.
Proof. exact strip_only_opt. Qed.

(* non-vacuity: a nested well-formed type with optional attributes and a placeholder *)
Definition ex_ty := TObj [(b#"a", TList TDyn); (b#"b", TTuple [TStr; TMap TNum])] [b#"b"].
Example C07_ex_wf : wf_ty ex_ty = true /\ has_cap ex_ty = false /\ keys_normal (fun s => s) ex_ty.
Proof. repeat split; simpl; auto. Qed.
Example C07_ex_roundtrip : (do j <- type_to_json ex_ty; type_of_json (fun s => s) j) = Ok ex_ty.
Proof. vm_compute. reflexivity. Qed.

Print Assumptions C07_equals_refl.
Print Assumptions C07_equals_sym.
Print Assumptions C07_equals_trans.
Print Assumptions C07_equals_iff_eq.
Print Assumptions C07_conform_iff.
Print Assumptions C07_conform_errors.
Print Assumptions C07_hasdyn_iff.
Print Assumptions C07_json_roundtrip.
Print Assumptions C07_strip_idem.
Print Assumptions C07_strip_only_opt.
