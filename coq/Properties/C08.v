(* C08 — type conversion.  Only statements here; proofs in Proofs/ConvertProofs.v. *)
From Cty Require Import Base Ty BigFloat Value Hash Ops Refine Walk Convert ConvertProofs.
Open Scope Z_scope.

(* identity on a value already of the requested type (annotations of the request disregarded) *)
Theorem C08_identity : forall v t, ty_equals (vty v) (strip_opt t) = true -> convert v t = Ok v.
Proof. exact convert_identity. Qed.
Print Assumptions C08_identity.

(* every conversion the lookup hands out is wrapped: marks, dynamic target, unknown, null are handled uniformly *)
Theorem C08_lookup_wraps : forall r i o unsafe f, get_step r i o unsafe = Ok (Some f) -> exists c, f = wrap r o c.
Proof. exact get_step_wrapped. Qed.
Print Assumptions C08_lookup_wraps.

Theorem C08_dynamic_target : forall r c v, is_marked v = false -> wrap r TDyn c v = Ok v.
Proof. exact wrap_dynamic_target. Qed.
Print Assumptions C08_dynamic_target.

(* null input: a null of the target type (placeholders replaced, annotations removed) *)
Theorem C08_null_input : forall r o c v, is_marked v = false -> is_dyn o = false -> is_known v = true -> is_null v = true ->
  wrap r o c v = do t <- dynamic_replace r (Some (vty v)) (strip_opt o); Ok (v_null t).
Proof. exact wrap_null. Qed.
Print Assumptions C08_null_input.

(* unknown input: what prepareUnknownResult builds for the target type from the input's range *)
Theorem C08_unknown_input : forall r o c v, is_marked v = false -> is_dyn o = false -> is_known v = false ->
  wrap r o c v = rmap (fun x => with_marks x [])
    (do rg <- range_of v; do t <- dynamic_replace r (Some (vty v)) (strip_opt o); prepare_unknown_result rg t).
Proof. exact wrap_unknown. Qed.
Print Assumptions C08_unknown_input.

(* marks are removed before and re-applied after, for every kind of input *)
Theorem C08_marks_around : forall r o c t ms p, wrap r o c (V t (PMarked ms p)) =
  rmap (fun x => with_marks x ms)
    (let u := V t p in
     if is_dyn o then Ok u
     else if negb (is_known u) then do rg <- range_of u; do t' <- dynamic_replace r (Some (vty u)) (strip_opt o); prepare_unknown_result rg t'
     else if is_null u then do t' <- dynamic_replace r (Some (vty u)) (strip_opt o); Ok (v_null t')
     else c u).
Proof. exact wrap_marks. Qed.
Print Assumptions C08_marks_around.

(* primitives: everything offered as safe is offered as unsafe *)
Theorem C08_prim_safe_then_unsafe : forall i o, is_prim i = true -> is_prim o = true ->
  forall r, (exists f, get_known r i o false = Ok (Some f)) -> exists g, get_known r i o true = Ok (Some g).
Proof. exact prim_safe_then_unsafe. Qed.
Print Assumptions C08_prim_safe_then_unsafe.
