(* C01 — Operations on unknown values are sound approximations, never spontaneous.
   [admits_b a c] (Model/Admits.v) is the approximation order; [num_weakens a x i] / [bool_weakens a b]
   say that the operand a is the known number x / boolean b itself, the dynamic value, or an unknown
   value whose refinement (nullness, bounds inclusive or exclusive) admits it.
   Statements only; proofs are `exact <lemma>` into Proofs/SoundProofs.v and Proofs/CmpProofs.v. *)
From Cty Require Import Base Ty BigFloat Value Hash Ops Refine Admits CmpProofs SoundProofs.
Open Scope Z_scope.

(* big.Float comparison (as modelled) is the order of the exact values, a total preorder on all
   numbers of all precisions including the infinities: this is what the range reasoning relies on *)
Theorem C01_cmp_exact : forall m x y, is_fin x = true -> is_fin y = true -> m <= fin_exp x -> m <= fin_exp y ->
  bf_cmp x y = Z.compare (zv m x) (zv m y).
Proof. exact bf_cmp_fin. Qed.
Theorem C01_cmp_trichotomy : forall x y,
  (bf_ltb x y = true /\ bf_ltb y x = false /\ bf_numeq x y = false) \/
  (bf_ltb x y = false /\ bf_ltb y x = true /\ bf_numeq x y = false) \/
  (bf_ltb x y = false /\ bf_ltb y x = false /\ bf_numeq x y = true).
Proof. exact bf_cmp_trichotomy. Qed.
Theorem C01_le_lt_trans : forall x y z, bf_leb x y = true -> bf_ltb y z = true -> bf_ltb x z = true.
Proof. exact bf_le_lt_trans. Qed.
Theorem C01_lt_le_trans : forall x y z, bf_ltb x y = true -> bf_leb y z = true -> bf_ltb x z = true.
Proof. exact bf_lt_le_trans. Qed.

(* LessThan / GreaterThan: for EVERY weakening of the two operands the operation still succeeds and
   its result admits the concrete result (which is the boolean shown) *)
Theorem C01_LessThan_sound : forall a1 a2 x1 i1 x2 i2,
  num_weakens a1 x1 i1 -> num_weakens a2 x2 i2 ->
  exists ra, lt_u a1 a2 = Ok ra /\ admits_b ra (v_bool (bf_ltb x1 x2)) = true.
Proof. exact lt_sound. Qed.
Theorem C01_LessThan_concrete : forall x1 i1 x2 i2, lt_u (V TNum (PNum x1 i1)) (V TNum (PNum x2 i2)) = Ok (v_bool (bf_ltb x1 x2)).
Proof. exact lt_concrete. Qed.
Theorem C01_GreaterThan_sound : forall a1 a2 x1 i1 x2 i2,
  num_weakens a1 x1 i1 -> num_weakens a2 x2 i2 ->
  exists ra, gt_u a1 a2 = Ok ra /\ admits_b ra (v_bool (bf_ltb x2 x1)) = true.
Proof. exact gt_sound. Qed.
Theorem C01_GreaterThan_concrete : forall x1 i1 x2 i2, gt_u (V TNum (PNum x1 i1)) (V TNum (PNum x2 i2)) = Ok (v_bool (bf_ltb x2 x1)).
Proof. exact gt_concrete. Qed.

(* Not / And / Or *)
Theorem C01_Not_sound : forall a b, bool_weakens a b -> exists ra, not_u a = Ok ra /\ admits_b ra (v_bool (negb b)) = true.
Proof. exact not_sound. Qed.
Theorem C01_And_sound : forall a1 a2 b1 b2, bool_weakens a1 b1 -> bool_weakens a2 b2 ->
  exists ra, and_u a1 a2 = Ok ra /\ admits_b ra (v_bool (b1 && b2)) = true.
Proof. exact and_sound. Qed.
Theorem C01_Or_sound : forall a1 a2 b1 b2, bool_weakens a1 b1 -> bool_weakens a2 b2 ->
  exists ra, or_u a1 a2 = Ok ra /\ admits_b ra (v_bool (b1 || b2)) = true.
Proof. exact or_sound. Qed.

(* refuted as coded (known findings; witnesses replayed on the implementation by every run) *)
Theorem C01_Add_rounding_refuted :
  admits_b w_a1 w_c1 = true /\ admits_b w_c2 w_c2 = true /\
  add_v w_c1 w_c2 = w_rc /\ add_v w_a1 w_c2 = w_ra /\
  match w_ra, w_rc with Ok ra, Ok rc => admits_b ra rc | _, _ => true end = false.
Proof. exact add_rounding_refuted. Qed.
Theorem C01_Equals_text_vs_value_refuted :
  admits_b w_a01 w_f01 = true /\ equals_v w_f01 w_p01 = Ok v_true /\ equals_v w_a01 w_p01 = Ok v_false.
Proof. exact equals_text_vs_value_refuted. Qed.

(* non-vacuity: an operand pair meeting the hypotheses with a non-trivial answer *)
Example C01_ex : num_weakens (V TNum (PUnk (RNum TF None (Some (bf_of_int 3, IdFresh)) false true))) (bf_of_int 2) IdFresh /\
                 lt_u (V TNum (PUnk (RNum TF None (Some (bf_of_int 3, IdFresh)) false true))) (v_int 5) = Ok v_true.
Proof. split; [apply nw_unk; vm_compute; reflexivity|vm_compute; reflexivity]. Qed.

Print Assumptions C01_cmp_exact.
Print Assumptions C01_cmp_trichotomy.
Print Assumptions C01_le_lt_trans.
Print Assumptions C01_lt_le_trans.
Print Assumptions C01_LessThan_sound.
Print Assumptions C01_LessThan_concrete.
Print Assumptions C01_GreaterThan_sound.
Print Assumptions C01_GreaterThan_concrete.
Print Assumptions C01_Not_sound.
Print Assumptions C01_And_sound.
Print Assumptions C01_Or_sound.
Print Assumptions C01_Add_rounding_refuted.
Print Assumptions C01_Equals_text_vs_value_refuted.
