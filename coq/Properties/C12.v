(* C12 — standard functions treat unknown arguments soundly.  Only statements here. *)
From Coq Require Import String.
From Cty Require Import Base Ty BigFloat Value Hash Ops Refine Func Admits K11 StdlibProofs.
From Cty.Gen Require Import SpecTable.
Open Scope Z_scope.

(* the framework's answer for arguments the implementation cannot take (unknown where not accepted,
   dynamically typed): the unknown of the predicted type with the arguments' marks, result refinement applied *)
Theorem C12_short_circuit : forall e tr ir args v evs, call (mk_std e tr ir) args = (Ok v, evs) ->
  (forall a t ri, ~ In (EvImpl a t ri) evs) ->
  exists expected reg,
    Ok v = apply_refine (mk_std e tr ir) reg (Ok (with_marks (v_unknown expected) (collect_marks (mk_std e tr ir) 0 args))).
Proof. exact stdlib_short_circuit. Qed.
Print Assumptions C12_short_circuit.

(* an unrefined unknown of the predicted type admits every unmarked result whose type conforms to it *)
Theorem C12_unknown_admits : forall t c, is_marked c = false -> conforms (vty c) t = true -> admits_b (v_unknown t) c = true.
Proof. exact unknown_admits. Qed.
Print Assumptions C12_unknown_admits.
