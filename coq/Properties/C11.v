(* C11 — standard functions are total and their predicted types sound.  Only statements here. *)
From Coq Require Import String.
From Cty Require Import Base Ty BigFloat Value Hash Ops Refine Func K11 StdlibProofs.
From Cty.Gen Require Import SpecTable.
Open Scope Z_scope.

(* for every standard-library specification as it stands in the source (table regenerated on every
   run), every behaviour of its two callbacks and every argument list: no Go panic escapes Call *)
Theorem C11_no_go_panic : forall e tr ir args, fst (call (mk_std e tr ir) args) <> Panic.
Proof. exact stdlib_call_no_go_panic. Qed.
Print Assumptions C11_no_go_panic.

(* the implementation runs only after the type callback accepted the arguments, and only on arguments
   meeting the declared parameter constraints (type, nullness, unknownness, dynamic type, marks) *)
Theorem C11_impl_contract : forall e tr ir args r evs, call (mk_std e tr ir) args = (r, evs) ->
  forall a t ri, In (EvImpl a t ri) evs ->
  evs = [EvType a (Ok t); EvImpl a t ri] /\ all_meet (mk_std e tr ir) 0 a = true.
Proof. exact stdlib_impl_contract. Qed.
Print Assumptions C11_impl_contract.

Theorem C11_table_nonempty : (0 < length spec_table)%nat.
Proof. exact spec_table_nonempty. Qed.
Print Assumptions C11_table_nonempty.
