(* C16 — MessagePack round trip.  Only statements here; proofs live in Proofs/MsgpackProofs.v. *)
From Cty Require Import Base Ty BigFloat Value Ops Refine Json Gocty Msgpack MsgpackProofs.
Open Scope Z_scope.

(* marked values are rejected with an error *)
Theorem C16_marked_rejected : forall trunc v t, is_marked v = true -> mp_marshal trunc v t = Err OtherError.
Proof. exact mp_marshal_marked. Qed.
Print Assumptions C16_marked_rejected.

Theorem C16_marked_member_rejected : forall trunc f ev e l,
  (exists x, In x l /\ is_marked (V ev x) = true) ->
  forall ms, (fix go (l : list payload) : res (list mp) :=
     match l with [] => Ok [] | x :: l' => do m <- mp_marshal_at trunc (S f) (V ev x) e; do r <- go l'; Ok (m :: r) end) l <> Ok ms.
Proof. exact go_list_marked. Qed.
Print Assumptions C16_marked_member_rejected.

(* whole numbers within int64: the integer encoding denotes the number itself and decodes to it *)
Theorem C16_number_int_roundtrip : forall x i, mp_of_number x = MInt i ->
  number_of_mp (mp_of_number x) = Ok (v_int i) /\ bf_numeq x (bf_of_int i) = true.
Proof. exact number_int_roundtrip. Qed.
Print Assumptions C16_number_int_roundtrip.

Theorem C16_number_inf_roundtrip : forall n p, number_of_mp (mp_of_number (BInf n p)) = Ok (v_num (BInf n 53)).
Proof. exact number_inf_roundtrip. Qed.
Print Assumptions C16_number_inf_roundtrip.

(* unknown values of unknown type: nothing is invented *)
Theorem C16_unknown_dyn : forall norm n items, unknown_of_mp norm n items TDyn = Ok (v_unknown TDyn).
Proof. exact unknown_dyn_ignores_refs. Qed.
Print Assumptions C16_unknown_dyn.

Theorem C16_unknown_no_refs : forall norm t, unknown_of_mp norm 0 [] t = Ok (v_unknown t).
Proof. exact unknown_empty_refs. Qed.
Print Assumptions C16_unknown_no_refs.

(* replaying decoded refinements never panics (also C17) *)
Theorem C16_unknown_replay_no_panic : forall norm n items t, unknown_of_mp norm n items t <> Panic.
Proof. exact unknown_of_mp_no_panic. Qed.
Print Assumptions C16_unknown_replay_no_panic.
