(* C16 — MessagePack round trip.  Only statements here; proofs live in Proofs/MsgpackProofs.v. *)
From Cty Require Import Base Ty BigFloat Value Ops Refine Json Gocty Msgpack MsgpackProofs JsonRoundTrip MpRoundTrip.
Open Scope Z_scope.

(* marked values are rejected with an error *)
Theorem C16_marked_rejected : forall trunc v t, is_marked v = true -> mp_marshal trunc v t = Err OtherError.
Proof. exact mp_marshal_marked. Qed.
Print Assumptions C16_marked_rejected.

Theorem C16_marked_member_rejected : forall trunc f ev e l,
  (exists x, In x l /\ is_marked (V ev x) = true) ->
  forall ms, (fix go (l : list payload) : res (list mp) :=
     match l with [] => Ok [] | x :: l' => do m <- mp_marshal_at trunc (S f) (V ev x) e; do r <- go l'; Ok (m :: r) end) l <> Ok ms.
Proof. exact go_list_marked. Qed.
Print Assumptions C16_marked_member_rejected.

(* whole numbers within int64: the integer encoding denotes the number itself and decodes to it *)
Theorem C16_number_int_roundtrip : forall x i, mp_of_number x = MInt i ->
  number_of_mp (mp_of_number x) = Ok (v_int i) /\ bf_numeq x (bf_of_int i) = true.
Proof. exact number_int_roundtrip. Qed.
Print Assumptions C16_number_int_roundtrip.

Theorem C16_number_inf_roundtrip : forall n p, number_of_mp (mp_of_number (BInf n p)) = Ok (v_num (BInf n 53)).
Proof. exact number_inf_roundtrip. Qed.
Print Assumptions C16_number_inf_roundtrip.

(* unknown values of unknown type: nothing is invented *)
Theorem C16_unknown_dyn : forall norm n items, unknown_of_mp norm n items TDyn = Ok (v_unknown TDyn).
Proof. exact unknown_dyn_ignores_refs. Qed.
Print Assumptions C16_unknown_dyn.

Theorem C16_unknown_no_refs : forall norm t, unknown_of_mp norm 0 [] t = Ok (v_unknown t).
Proof. exact unknown_empty_refs. Qed.
Print Assumptions C16_unknown_no_refs.

(* replaying decoded refinements never panics (also C17) *)
Theorem C16_unknown_replay_no_panic : forall norm n items t, unknown_of_mp norm n items t <> Panic.
Proof. exact unknown_of_mp_no_panic. Qed.
Print Assumptions C16_unknown_replay_no_panic.

(* ---- structural round trip, every depth: the fragment of C15_structural_roundtrip, and with [unk = true] also
   unrefined unknown values of any non-dynamic type at any depth ---- *)
Theorem C16_structural_roundtrip : forall norm unk trunc jp t p, RT norm unk t p ->
  exists m, mp_marshal trunc (V t p) t = Ok m /\ mp_unmarshal norm jp m t = Ok (V t p).
Proof. exact mp_roundtrip. Qed.
Print Assumptions C16_structural_roundtrip.
Theorem C16_structural_roundtrip_any_fuel : forall norm unk trunc jp n t p, RT norm unk t p -> (pdepth p <= n)%nat ->
  forall f f', (n < f)%nat -> (n < f')%nat ->
  exists m, mp_marshal_at trunc f (V t p) t = Ok m /\ mp_unmarshal_at norm jp f' m t = Ok (V t p) /\ (pdepth p <= mp_size m)%nat.
Proof. exact mp_roundtrip_at. Qed.
Print Assumptions C16_structural_roundtrip_any_fuel.
Example C16_RT_nonvacuous :
  RT (fun s => s) true (TTuple [TList TStr; TObj [([97%N], TNum)] []])
     (PSeq [PSeq [PStr [120%N]; PUnk RNone; PNull]; PMap [([97%N], PUnk RNone)]]).
Proof.
  apply RT_tuple. constructor; [|constructor; [|constructor]].
  - apply RT_list; [reflexivity|]. repeat constructor.
  - apply RT_obj; [reflexivity|intros; reflexivity|]. repeat constructor.
Qed.

From Cty Require Import RawRefl RawEq.

(* the round trip in the property's own terms: the decoded value is RawEquals to the original, at every depth *)
Theorem C16_structural_roundtrip_raw_equal : forall norm unk trunc jp t p, RT norm unk t p -> wf_ty t = true ->
  exists m r, mp_marshal trunc (V t p) t = Ok m /\ mp_unmarshal norm jp m t = Ok r /\ raw_equals r (V t p) = Ok true.
Proof. exact mp_roundtrip_raw_equal. Qed.
Print Assumptions C16_structural_roundtrip_raw_equal.
