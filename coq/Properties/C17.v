(* C17 — decoders are safe on arbitrary input.  Only statements here; proofs in Proofs/MsgpackProofs.v. *)
From Cty Require Import Base Ty BigFloat Value Ops Refine Json Msgpack MsgpackProofs.
Open Scope Z_scope.

(* MessagePack ImpliedType: for every buffer that splits into items, an error or a type -- never a panic *)
Theorem C17_mp_implied_no_panic : forall norm ms, mp_implied_type norm ms <> Panic.
Proof. exact mp_implied_type_no_panic. Qed.
Print Assumptions C17_mp_implied_no_panic.

Theorem C17_mp_implied_any_fuel : forall norm f m, mp_implied_at norm f m <> Panic.
Proof. exact mp_implied_no_panic. Qed.
Print Assumptions C17_mp_implied_any_fuel.

(* the refinement replay: every panic of the refinement builder (contradictory or out-of-range
   refinements in a hostile extension body) is a decoding error, for every entry stream and type *)
Theorem C17_refinement_replay_no_panic : forall norm n items t, unknown_of_mp norm n items t <> Panic.
Proof. exact unknown_of_mp_no_panic. Qed.
Print Assumptions C17_refinement_replay_no_panic.

(* foreign extension items and broken items are refused at every target type *)
Theorem C17_foreign_ext_refused : forall norm jp f t, mp_unmarshal_at norm jp (S f) MExt t = Err OtherError.
Proof. exact mp_foreign_ext_refused. Qed.
Print Assumptions C17_foreign_ext_refused.

Theorem C17_bad_item_refused : forall norm jp f t, mp_unmarshal_at norm jp (S f) MBad t = Err OtherError.
Proof. exact mp_bad_item_refused. Qed.
Print Assumptions C17_bad_item_refused.
