(* C17 — decoders are safe on arbitrary input.  Only statements here; proofs in Proofs/MsgpackProofs.v and Proofs/DecodeProofs.v. *)
From Cty Require Import Base Ty BigFloat Value Ops Refine Json Msgpack TyProofs MsgpackProofs DecodeProofs.
Open Scope Z_scope.

(* MessagePack ImpliedType: for every buffer that splits into items, an error or a type -- never a panic *)
Theorem C17_mp_implied_no_panic : forall norm ms, mp_implied_type norm ms <> Panic.
Proof. exact mp_implied_type_no_panic. Qed.
Print Assumptions C17_mp_implied_no_panic.

Theorem C17_mp_implied_any_fuel : forall norm f m, mp_implied_at norm f m <> Panic.
Proof. exact mp_implied_no_panic. Qed.
Print Assumptions C17_mp_implied_any_fuel.

(* the refinement replay: every panic of the refinement builder (contradictory or out-of-range
   refinements in a hostile extension body) is a decoding error, for every entry stream and type *)
Theorem C17_refinement_replay_no_panic : forall norm n items t, unknown_of_mp norm n items t <> Panic.
Proof. exact unknown_of_mp_no_panic. Qed.
Print Assumptions C17_refinement_replay_no_panic.

(* foreign extension items and broken items are refused at every target type *)
Theorem C17_foreign_ext_refused : forall norm jp f t, mp_unmarshal_at norm jp (S f) MExt t = Err OtherError.
Proof. exact mp_foreign_ext_refused. Qed.
Print Assumptions C17_foreign_ext_refused.

Theorem C17_bad_item_refused : forall norm jp f t, mp_unmarshal_at norm jp (S f) MBad t = Err OtherError.
Proof. exact mp_bad_item_refused. Qed.
Print Assumptions C17_bad_item_refused.

(* ---- token level, every input, every target type, every fuel ---- *)
(* the JSON type decoder and the JSON implied-type function: an error or a type, never a panic *)
Theorem C17_json_type_decoder_no_panic : forall norm j, type_of_json norm j <> Panic.
Proof. exact type_of_json_no_panic. Qed.
Print Assumptions C17_json_type_decoder_no_panic.
Theorem C17_json_implied_no_panic : forall norm j, json_implied_type norm j <> Panic.
Proof. exact json_implied_no_panic. Qed.
Print Assumptions C17_json_implied_no_panic.

(* the two value decoders never panic, PROVIDED the set constructor does not panic on a non-empty member
   list whose unmarked members have consistent types (…_partial: that premise needs the whole of Equals on
   decoded members; it is decided per input by the correspondence and by the worker process).  Lists, maps,
   tuples, objects, the dynamic wrapper, numbers, strings and refined unknowns are covered outright. *)
Theorem C17_json_decoder_no_panic_partial : forall norm,
  (forall vs, vs <> [] -> can_coll (map (fun v => fst (unmark_deep v)) vs) = true -> set_val vs <> Panic) ->
  forall f j t, json_unmarshal_at norm f j t <> Panic.
Proof. exact json_unmarshal_no_panic. Qed.
Print Assumptions C17_json_decoder_no_panic_partial.
Theorem C17_mp_decoder_no_panic_partial : forall norm,
  (forall vs, vs <> [] -> can_coll (map (fun v => fst (unmark_deep v)) vs) = true -> set_val vs <> Panic) ->
  forall jp f m t, mp_unmarshal_at norm jp f m t <> Panic.
Proof. exact mp_unmarshal_no_panic. Qed.
Print Assumptions C17_mp_decoder_no_panic_partial.

(* whatever a value decoder returns has a type conforming to the requested constraint ([Conf]: equal up to
   optional-attribute annotations and with each placeholder of the constraint filled in; TyProofs.conformance_iff
   ties it to TestConformance).  Target types as cty builds them: sorted, NFC-normal attribute names. *)
Theorem C17_json_decoded_conforms : forall norm f j t v,
  wf_ty t = true -> keys_normal norm t -> json_unmarshal_at norm f j t = Ok v -> Conf (vty v) t.
Proof. exact json_unmarshal_conforms. Qed.
Print Assumptions C17_json_decoded_conforms.
Theorem C17_mp_decoded_conforms : forall norm jp f m t v,
  wf_ty t = true -> keys_normal norm t -> mp_unmarshal_at norm jp f m t = Ok v -> Conf (vty v) t.
Proof. exact mp_unmarshal_conforms. Qed.
Print Assumptions C17_mp_decoded_conforms.
(* a decoded unknown has exactly the requested type, whatever refinements the extension body carries *)
Theorem C17_unknown_type_exact : forall norm n items t v, unknown_of_mp norm n items t = Ok v -> vty v = t.
Proof. exact unknown_of_mp_ty. Qed.
Print Assumptions C17_unknown_type_exact.

(* the premises are met by ordinary inputs: an object decoded against an object type with a placeholder *)
Example C17_conforms_nonvacuous :
  let t := TObj [([97%N], TDyn); ([98%N], TList TNum)] [] in
  let j := JObj [([98%N], JArr [JNum [49%N]; JNull]); ([97%N], JObj [(s_value, JBool true); (s_type, JStr s_bool)])] in
  wf_ty t = true /\ keys_normal (fun s => s) t /\
  exists v, json_unmarshal (fun s => s) j t = Ok v /\ vty v = TObj [([97%N], TBool); ([98%N], TList TNum)] [].
Proof. cbn [wf_ty keys_normal]. repeat split; auto; try (intros k _; reflexivity). eexists. split; vm_compute; reflexivity. Qed.
Example C17_mp_conforms_nonvacuous :
  let t := TTuple [TDyn; TSet TStr] in
  let m := MArr [MUnk 0 []; MArr [MStr [97%N]; MStr [98%N]]] in
  exists v, mp_unmarshal (fun s => s) (fun _ => None) m t = Ok v /\ vty v = TTuple [TDyn; TSet TStr].
Proof. eexists. split; vm_compute; reflexivity. Qed.
