(* C03 — Equality is a coherent equivalence that agrees with hashing and sets.
   Statements only; proofs are `exact <lemma>`. *)
From Coq Require Import Sorted.
From Cty Require Import Base Ty BigFloat Value Hash Ops Refine SetAlg SetAlgProofs EqProofs.
From Cty Require Import Json JsonRoundTrip RawRefl RawEq EqualsRefl.
Open Scope Z_scope.

(* number equality (integer value, or shortest decimal text) is an equivalence on all numbers *)
Theorem C03_number_equal_refl : forall a, raw_number_equal a a = true.
Proof. exact raw_number_equal_refl. Qed.
Theorem C03_number_equal_sym : forall a b, raw_number_equal a b = raw_number_equal b a.
Proof. exact raw_number_equal_sym. Qed.
Theorem C03_number_equal_trans : forall a b c, raw_number_equal a b = true -> raw_number_equal b c = true -> raw_number_equal a c = true.
Proof. exact raw_number_equal_trans. Qed.

(* Equals agrees with RawEquals on known primitives, is symmetric there, and any two nulls are equal *)
Theorem C03_equals_raw_numbers : forall x i y j,
  equals_v (V TNum (PNum x i)) (V TNum (PNum y j)) = Ok (v_bool (raw_number_equal x y)) /\
  raw_equals (V TNum (PNum x i)) (V TNum (PNum y j)) = Ok (raw_number_equal x y).
Proof. intros; split; [exact (equals_numbers x i y j)|exact (raw_equals_numbers x i y j)]. Qed.
Theorem C03_equals_raw_strings : forall x y,
  equals_v (V TStr (PStr x)) (V TStr (PStr y)) = Ok (v_bool (str_eqb x y)) /\
  raw_equals (V TStr (PStr x)) (V TStr (PStr y)) = Ok (str_eqb x y).
Proof. intros; split; [exact (equals_strings x y)|exact (raw_equals_strings x y)]. Qed.
Theorem C03_equals_raw_bools : forall x y,
  equals_v (V TBool (PBool x)) (V TBool (PBool y)) = Ok (v_bool (Bool.eqb x y)) /\
  raw_equals (V TBool (PBool x)) (V TBool (PBool y)) = Ok (Bool.eqb x y).
Proof. intros; split; [exact (equals_bools x y)|exact (raw_equals_bools x y)]. Qed.
Theorem C03_equals_sym_numbers : forall x i y j,
  equals_v (V TNum (PNum x i)) (V TNum (PNum y j)) = equals_v (V TNum (PNum y j)) (V TNum (PNum x i)).
Proof. exact equals_numbers_sym. Qed.
Theorem C03_nulls_equal : forall t u, equals_v (V t PNull) (V u PNull) = Ok v_true.
Proof. exact equals_nulls. Qed.

(* The set algorithm of cty/set refines the mathematical set modulo the equivalence, for every
   element type whose equivalence is an equivalence relation coherent with its hash
   ("any two values that are equal have the same hash"): all histories of Add, unbounded. *)
Theorem C03_set_has_is_membership : forall (A : Type) (h : A -> Z) (eqv : A -> A -> bool),
  (forall a b, eqv a b = true -> h a = h b) ->
  forall bs x, Inv A h eqv bs -> g_has A h eqv bs x = gmem A eqv bs x.
Proof. intros A h eqv C. exact (g_has_spec A h eqv C). Qed.

Theorem C03_set_never_two_equal : forall (A : Type) (h : A -> Z) (eqv : A -> A -> bool),
  (forall a, eqv a a = true) -> (forall a b, eqv a b = eqv b a) ->
  (forall a b c, eqv a b = true -> eqv b c = true -> eqv a c = true) ->
  (forall a b, eqv a b = true -> h a = h b) ->
  forall xs, ForallOrdPairs (fun x y => eqv x y = false) (gmembers A (fold_left (g_add A h eqv) xs [])).
Proof.
  intros A h eqv R S T C xs. apply (inv_no_two_equal A h eqv). exact (adds_inv A h eqv R S C xs).
Qed.

Theorem C03_set_holds_exactly_the_inputs : forall (A : Type) (h : A -> Z) (eqv : A -> A -> bool),
  (forall a, eqv a a = true) -> (forall a b, eqv a b = eqv b a) ->
  (forall a b c, eqv a b = true -> eqv b c = true -> eqv a c = true) ->
  (forall a b, eqv a b = true -> h a = h b) ->
  forall xs y, gmem A eqv (fold_left (g_add A h eqv) xs []) y = existsb (eqv y) xs.
Proof. intros A h eqv R S T C. exact (adds_mem A h eqv R S T C). Qed.

Theorem C03_set_insertion_order_irrelevant : forall (A : Type) (h : A -> Z) (eqv : A -> A -> bool),
  (forall a, eqv a a = true) -> (forall a b, eqv a b = eqv b a) ->
  (forall a b c, eqv a b = true -> eqv b c = true -> eqv a c = true) ->
  (forall a b, eqv a b = true -> h a = h b) ->
  forall xs ys y, (forall a, In a xs <-> In a ys) ->
  gmem A eqv (fold_left (g_add A h eqv) xs []) y = gmem A eqv (fold_left (g_add A h eqv) ys []) y.
Proof. intros A h eqv R S T C. exact (adds_perm_mem A h eqv R S T C). Qed.

(* instance: the model's own set_add / set_has on string members are that algorithm, and the
   string hash is coherent with string equality *)
Theorem C03_model_string_sets : forall bs s, all_pstr bs = true ->
  set_has TStr bs (PStr s) = Ok (g_has payload hp eqp bs (PStr s)) /\
  set_add TStr bs (PStr s) = Ok (g_add payload hp eqp bs (PStr s)).
Proof. intros bs s H. split; [exact (set_has_strings bs s H)|exact (set_add_strings bs s H)]. Qed.
Theorem C03_string_hash_coherent : forall a b, str_eqb a b = true -> str_hash a = str_hash b.
Proof. exact str_hash_coherent. Qed.

(* refuted as coded (witnesses replayed on the implementation by every run; known findings) *)
Theorem C03_number_hash_refuted :
  raw_number_equal w_f64 w_p512 = true /\
  hash_value (V TNum (PNum w_f64 IdFresh)) <> hash_value (V TNum (PNum w_p512 IdFresh)).
Proof. exact num_hash_refuted. Qed.
Theorem C03_trichotomy_refuted :
  lt_v (v_num w_tenth53) (v_num w_tenth512) = Ok v_false /\
  gt_v (v_num w_tenth53) (v_num w_tenth512) = Ok v_false /\
  equals_v (v_num w_tenth53) (v_num w_tenth512) = Ok v_false.
Proof. exact trichotomy_refuted. Qed.

Print Assumptions C03_number_equal_refl.
Print Assumptions C03_number_equal_sym.
Print Assumptions C03_number_equal_trans.
Print Assumptions C03_equals_raw_numbers.
Print Assumptions C03_equals_raw_strings.
Print Assumptions C03_equals_raw_bools.
Print Assumptions C03_equals_sym_numbers.
Print Assumptions C03_nulls_equal.
Print Assumptions C03_set_has_is_membership.
Print Assumptions C03_set_never_two_equal.
Print Assumptions C03_set_holds_exactly_the_inputs.
Print Assumptions C03_set_insertion_order_irrelevant.
Print Assumptions C03_model_string_sets.
Print Assumptions C03_string_hash_coherent.
Print Assumptions C03_number_hash_refuted.
Print Assumptions C03_trichotomy_refuted.

(* ---- raw equality at every depth ---- *)
(* on the structural fragment [RT] (booleans, strings, nulls, unrefined unknowns, lists, tuples, maps and objects,
   nested arbitrarily; the type well-formed): RawEquals, through its public entry point with its own fuel, answers
   true exactly when the two values are the same value *)
Theorem C03_raw_equals_iff : forall norm unk t p q, RT norm unk t p -> RT norm unk t q -> wf_ty t = true ->
  (raw_equals (V t p) (V t q) = Ok true <-> p = q).
Proof. exact raw_equals_iff. Qed.
Print Assumptions C03_raw_equals_iff.
(* hence it is reflexive, symmetric and transitive there, and equal values have the same hash *)
Theorem C03_raw_equals_refl : forall norm unk t p, RT norm unk t p -> wf_ty t = true -> raw_equals (V t p) (V t p) = Ok true.
Proof. exact raw_equals_refl. Qed.
Print Assumptions C03_raw_equals_refl.
Theorem C03_raw_equals_sym : forall norm unk t p q, RT norm unk t p -> RT norm unk t q -> wf_ty t = true ->
  raw_equals (V t p) (V t q) = Ok true -> raw_equals (V t q) (V t p) = Ok true.
Proof. exact raw_equals_sym. Qed.
Print Assumptions C03_raw_equals_sym.
Theorem C03_raw_equals_trans : forall norm unk t p q r, RT norm unk t p -> RT norm unk t q -> RT norm unk t r -> wf_ty t = true ->
  raw_equals (V t p) (V t q) = Ok true -> raw_equals (V t q) (V t r) = Ok true -> raw_equals (V t p) (V t r) = Ok true.
Proof. exact raw_equals_trans. Qed.
Print Assumptions C03_raw_equals_trans.
Theorem C03_raw_equal_same_hash : forall norm unk t p q, RT norm unk t p -> RT norm unk t q -> wf_ty t = true ->
  raw_equals (V t p) (V t q) = Ok true -> hash_value (V t p) = hash_value (V t q).
Proof. exact raw_equal_same_hash. Qed.
Print Assumptions C03_raw_equal_same_hash.
(* the same for any fuel: whenever the fuelled comparison answers true the values are identical, and with fuel
   above the nesting depth it answers true on identical values *)
Theorem C03_raw_true_eq_any_fuel : forall norm unk n t p q, RT norm unk t p -> RT norm unk t q -> wf_ty t = true ->
  (pdepth p <= n)%nat -> forall f, h_raw (hfns_at f) (V t p) (V t q) = Ok true -> p = q.
Proof. exact raw_true_eq_at. Qed.
Print Assumptions C03_raw_true_eq_any_fuel.
(* non-vacuity: two nested values of one type that differ in one leaf at depth three are told apart, and each
   equals itself *)
Example C03_raw_nonvacuous :
  let t := TObj [([97%N], TList (TTuple [TStr; TBool])); ([98%N], TMap TStr)] [] in
  let p := PMap [([97%N], PSeq [PSeq [PStr [120%N]; PBool true]; PNull]); ([98%N], PMap [([107%N], PStr []); ([108%N], PNull)])] in
  let q := PMap [([97%N], PSeq [PSeq [PStr [120%N]; PBool false]; PNull]); ([98%N], PMap [([107%N], PStr []); ([108%N], PNull)])] in
  RT (fun s => s) false t p /\ RT (fun s => s) false t q /\ wf_ty t = true /\
  raw_equals (V t p) (V t p) = Ok true /\ raw_equals (V t p) (V t q) = Ok false.
Proof.
  cbv zeta. split; [|split; [|split; [reflexivity|split; vm_compute; reflexivity]]].
  - apply RT_obj; [reflexivity|intros; reflexivity|]. repeat constructor; cbn; auto; try (intros; reflexivity).
  - apply RT_obj; [reflexivity|intros; reflexivity|]. repeat constructor; cbn; auto; try (intros; reflexivity).
Qed.

(* ---- the equality operation at every depth ---- *)
(* a wholly known value of the structural fragment (nulls nested anywhere included) compared with itself answers
   True, through the public entry point with its own fuel, and the answer is the same for every visiting order of
   map keys and attribute names (Go map iteration) that yields existing keys: on identical operands Equals agrees
   with RawEquals *)
Theorem C03_equals_refl : forall norm t p, RT norm false t p -> wf_ty t = true -> equals_v (V t p) (V t p) = Ok v_true.
Proof. exact equals_v_refl. Qed.
Print Assumptions C03_equals_refl.
Theorem C03_equals_refl_any_order : forall norm order t p, (forall l k, In k (order l) -> In k l) ->
  RT norm false t p -> wf_ty t = true -> equals_ord order (V t p) (V t p) = Ok v_true.
Proof. exact equals_ord_refl. Qed.
Print Assumptions C03_equals_refl_any_order.

From Cty Require Import EqualsDec.
(* ---- "agrees with raw equality on wholly known values of the same type", at every depth ---- *)
(* two wholly known values of one type in the structural fragment (nulls nested anywhere): whatever the equality
   operation answers, through its public entry point, is True or False, never unknown; True exactly when the values
   are identical, which is exactly when RawEquals answers true *)
Theorem C03_equals_decides : forall norm t p q r, RT norm false t p -> RT norm false t q -> wf_ty t = true ->
  equals_v (V t p) (V t q) = Ok r -> (r = v_true /\ p = q) \/ (r = v_false /\ p <> q).
Proof. exact equals_v_decides. Qed.
Print Assumptions C03_equals_decides.
Theorem C03_equals_agrees_with_raw : forall norm t p q r, RT norm false t p -> RT norm false t q -> wf_ty t = true ->
  equals_v (V t p) (V t q) = Ok r ->
  (r = v_true <-> raw_equals (V t p) (V t q) = Ok true) /\ (r = v_true \/ r = v_false).
Proof. exact equals_v_agrees_raw. Qed.
Print Assumptions C03_equals_agrees_with_raw.
(* the operation is symmetric there: swapping the operands cannot turn True into False or the reverse *)
Theorem C03_equals_symmetric : forall norm t p q r r', RT norm false t p -> RT norm false t q -> wf_ty t = true ->
  equals_v (V t p) (V t q) = Ok r -> equals_v (V t q) (V t p) = Ok r' -> r = r'.
Proof.
  intros norm t p q r r' R1 R2 W E1 E2.
  destruct (equals_v_decides norm t p q r R1 R2 W E1) as [[-> P]|[-> P]];
  destruct (equals_v_decides norm t q p r' R2 R1 W E2) as [[-> P']|[-> P']]; try reflexivity; exfalso; auto.
Qed.
Print Assumptions C03_equals_symmetric.
(* non-vacuity: the operation does return on nested values, with both answers *)
Example C03_equals_nonvacuous :
  let t := TObj [([97%N], TList (TTuple [TStr; TBool])); ([98%N], TMap TStr)] [] in
  let p := PMap [([97%N], PSeq [PSeq [PStr [120%N]; PBool true]; PNull]); ([98%N], PMap [([107%N], PStr []); ([108%N], PNull)])] in
  let q := PMap [([97%N], PSeq [PSeq [PStr [120%N]; PBool false]; PNull]); ([98%N], PMap [([107%N], PStr []); ([108%N], PNull)])] in
  equals_v (V t p) (V t p) = Ok v_true /\ equals_v (V t p) (V t q) = Ok v_false.
Proof. cbv zeta. split; vm_compute; reflexivity. Qed.
