(* C05 — Refinements only narrow, are faithful, and prefixes are continuation-safe.
   Statements only; proofs are `exact <lemma>` into Proofs/RefineProofs.v. *)
From Cty Require Import Base Ty BigFloat Value Hash Ops Refine SafePrefix RefineProofs.
From Cty Require Import Consts.
Open Scope Z_scope.

(* every builder call sequence (any length) works on the original value and its marks unchanged *)
Theorem C05_orig_kept : forall norm cs b b', rb_steps norm b cs = Ok b' -> b_orig b' = b_orig b /\ b_marks b' = b_marks b.
Proof. exact rb_steps_orig. Qed.

(* the type-unknown dynamic value ignores refinement: every call sequence returns it unchanged *)
Theorem C05_dynamic_ignored : forall norm cs, rb_run norm v_dyn cs = Ok v_dyn.
Proof. exact dynamic_ignored. Qed.
Theorem C05_dynamic_ignored_marked : forall norm cs m ms,
  rb_run norm (V TDyn (PMarked (m :: ms) (PUnk RNone))) cs = Ok (with_marks v_dyn (m :: ms)).
Proof. exact dynamic_ignored_marked. Qed.

(* refining a known value never changes it: any accepted call sequence returns exactly that value *)
Theorem C05_known_unchanged : forall norm v cs v', is_marked v = false -> is_known v = true ->
  rb_run norm v cs = Ok v' -> v' = v.
Proof. exact known_unchanged. Qed.

(* contradictions about nullness are rejected *)
Theorem C05_notnull_on_null_rejected : forall norm t cs, is_dyn t = false -> rb_run norm (v_null t) (RcNotNull :: cs) = Panic.
Proof. exact notnull_on_null_rejected. Qed.
Theorem C05_null_after_notnull_rejected : forall b, refineable b = Ok true -> rfn_null (wip_of b) = TF -> rb_null b = Panic.
Proof. exact null_after_notnull. Qed.
Theorem C05_notnull_after_null_rejected : forall b, refineable b = Ok true -> rfn_null (wip_of b) = TT -> rb_not_null b = Panic.
Proof. exact notnull_after_null. Qed.

(* length bounds: exactly the tighter of the stated bounds is kept; crossing bounds are rejected *)
Theorem C05_len_lower_tighter : forall b n lo hi mn b',
  is_known (b_orig b) = false -> is_dynval (b_orig b) = false -> b_wip b = Some (RColl n lo hi) -> lo <= hi ->
  rb_len_lower b mn = Ok b' -> b_wip b' = Some (RColl n (Z.max lo mn) hi) /\ Z.max lo mn <= hi.
Proof. exact len_lower_tighter. Qed.
Theorem C05_len_upper_tighter : forall b n lo hi mx b',
  is_known (b_orig b) = false -> is_dynval (b_orig b) = false -> b_wip b = Some (RColl n lo hi) -> lo <= hi ->
  rb_len_upper b mx = Ok b' -> b_wip b' = Some (RColl n lo (Z.min hi mx)) /\ lo <= Z.min hi mx.
Proof. exact len_upper_tighter. Qed.
Theorem C05_len_crossing_rejected : forall b n lo hi mn,
  is_known (b_orig b) = false -> is_dynval (b_orig b) = false -> b_wip b = Some (RColl n lo hi) -> lo <= hi ->
  hi < mn -> rb_len_lower b mn = Panic.
Proof. exact len_lower_crossing_rejected. Qed.

(* the safe prefix is a byte prefix of the normalised form of EVERY string that extends the
   given prefix — relative to two laws of x/text's NFC (tested on every run, not proved) *)
Theorem C05_safe_prefix_partial : forall (o : oracles) (delims : list N),
  (forall p s, let q := o.(o_norm) p in let lb := o.(o_last_boundary) q in
     0 <= lb -> is_prefix (firstn (Z.to_nat lb) q) (o.(o_norm) (p ++ s)) = true) ->
  (forall p, let q := o.(o_norm) p in o.(o_last_boundary) q = -1 -> safe_known_prefix o delims p = []) ->
  (forall q, -1 <= o.(o_last_boundary) q) ->
  forall p s, is_prefix (safe_known_prefix o delims p) (o.(o_norm) (p ++ s)) = true.
Proof. exact safe_prefix_is_prefix. Qed.

(* obligation on the generated table: every safe delimiter of the source is an ASCII rune *)
Theorem C05_delims_ascii : forallb (fun d => (d <? 128)%N) safe_delims = true.
Proof. exact safe_delims_ascii. Qed.

(* still accepted as coded (known finding KF-C05-5) *)
Theorem C05_far_infinity_refuted : exists v, rb_run (fun s => s) (v_unknown TNum) [RcNumLower v_pinf false] = Ok v.
Proof. exact far_infinity_accepted. Qed.

(* non-vacuity: a refinable builder state *)
Example C05_ex_len : exists b', rb_len_lower (refine (v_unknown (TList TStr))) 2 = Ok b' /\ b_wip b' = Some (RColl TU 2 max_int).
Proof. eexists. split; vm_compute; reflexivity. Qed.

Print Assumptions C05_orig_kept.
Print Assumptions C05_dynamic_ignored.
Print Assumptions C05_dynamic_ignored_marked.
Print Assumptions C05_known_unchanged.
Print Assumptions C05_notnull_on_null_rejected.
Print Assumptions C05_null_after_notnull_rejected.
Print Assumptions C05_notnull_after_null_rejected.
Print Assumptions C05_len_lower_tighter.
Print Assumptions C05_len_upper_tighter.
Print Assumptions C05_len_crossing_rejected.
Print Assumptions C05_safe_prefix_partial.
Print Assumptions C05_delims_ascii.
Print Assumptions C05_far_infinity_refuted.
