#!/bin/sh
# regenerate _CoqProject and Makefile from the directory contents
cd "$(dirname "$0")"
{ echo "-Q . Cty"; echo "-arg -w -arg -notation-overridden,-deprecated-hint-without-locality,-deprecated-instance-without-locality";
  ls Model/*.v Gen/*.v Proofs/*.v Properties/*.v 2>/dev/null; } > _CoqProject.new
if ! cmp -s _CoqProject.new _CoqProject; then mv _CoqProject.new _CoqProject; coq_makefile -f _CoqProject -o Makefile >/dev/null; else rm _CoqProject.new; fi
[ -f Makefile ] || coq_makefile -f _CoqProject -o Makefile >/dev/null
