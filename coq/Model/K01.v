(* K01.v — correspondence cases for C01 and the property as a boolean function on the model. *)
From Cty Require Import Base Ty BigFloat Value Hash Ops Refine KOps Admits.
Open Scope Z_scope.

Inductive k01 :=
| K01_pair (o : opk) (cargs aargs : list value) (cobs aobs : res value)
| K01_admits (a c : value) (obs : bool).          (* the harness's own admits relation agrees with the model's *)

Definition k01_check (k : k01) : bool :=
  match k with
  | K01_pair o cargs aargs cobs aobs =>
      res_eqb value_eqb (run_op o cargs) cobs && res_eqb value_eqb (run_op o aargs) aobs
  | K01_admits a c obs => Bool.eqb (admits_b a c) obs
  end.

Definition never_null_op (o : opk) : bool :=
  match o with OIndex => false | _ => true end.

(* the property on the model: if the concrete run succeeds, the abstract run succeeds and its
   result admits the concrete result; wholly known operands give wholly known (non-null) results *)
Definition k01_prop (k : k01) : bool :=
  match k with
  | K01_pair o cargs aargs _ _ =>
      (if forallb (fun '(a, c) => admits_b a c) (combine aargs cargs) then
         match run_op o cargs with
         | Ok rc => match run_op o aargs with Ok ra => admits_b ra rc | _ => false end
         | _ => true
         end
       else true) &&
      (if forallb is_wholly_known cargs then
         match run_op o cargs with
         | Ok rc => is_wholly_known rc && (negb (never_null_op o) || negb (is_null rc))
         | _ => true
         end
       else true)
  | K01_admits _ _ _ => true
  end.
