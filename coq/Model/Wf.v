(* Wf.v — well-formedness of a value for its type (C06): the Gallina counterpart of the
   verif hook cty.VerifWellFormed. *)
From Cty Require Import Base Ty BigFloat Value Hash Ops Refine.
Open Scope Z_scope.

Definition wf_refinement (t : ty) (r : refinement) : bool :=
  match r with
  | RNone => true
  | RNullable n => (match t with TBool | TObj _ _ | TTuple _ | TCap _ => true | _ => false end) && negb (tri_eqb n TT)
  | RStr n _ => (match t with TStr => true | _ => false end) && negb (tri_eqb n TT)
  | RNum n _ _ _ _ => (match t with TNum => true | _ => false end) && negb (tri_eqb n TT)
  | RColl n lo hi => is_coll t && negb (tri_eqb n TT) && (0 <=? lo) && (lo <=? hi)
  end.

Definition sorted_marks (ms : list mark) : bool :=
  (fix go (l : list mark) : bool :=
     match l with
     | a :: ((b :: _) as l') => (a <? b)%N && go l'
     | _ => true
     end) ms.

(* [norm] : strings, keys and attribute names must be fixed points of normalisation *)
Fixpoint wf_p (norm : str -> str) (t : ty) (p : payload) (marker_ok : bool) {struct p} : bool :=
  match p with
  | PMarked ms p' =>
      marker_ok && (match ms with [] => false | _ => true end) && sorted_marks ms &&
      match p' with
      | PMarked _ _ => false
      | PUnk r => wf_refinement t r && (negb (is_dyn t) || match r with RNone => true | _ => false end)
      | PNull => true
      | PBool _ => match t with TBool => true | _ => false end
      | PNum _ _ => match t with TNum => true | _ => false end
      | PStr s => (match t with TStr => true | _ => false end) && str_eqb (norm s) s
      | PCap _ => is_cap t
      | _ => wf_p norm t p' false
      end
  | PUnk r => wf_refinement t r && (negb (is_dyn t) || match r with RNone => true | _ => false end)
  | PNull => true
  | PBool _ => match t with TBool => true | _ => false end
  | PNum _ _ => match t with TNum => true | _ => false end
  | PStr s => (match t with TStr => true | _ => false end) && str_eqb (norm s) s
  | PCap _ => is_cap t
  | PSeq l =>
      match t with
      | TList e => forallb (fun x => wf_p norm e x true) l
      | TTuple es =>
          Nat.eqb (length l) (length es) &&
          (fix go (l : list payload) (ts : list ty) {struct l} : bool :=
             match l, ts with
             | x :: l', te :: ts' => wf_p norm te x true && go l' ts'
             | _, _ => true
             end) l es
      | _ => false
      end
  | PMap m =>
      match t with
      | TMap e =>
          sorted_keys (keys m) &&
          (fix go (l : list (str * payload)) : bool :=
             match l with [] => true | kv :: l' => str_eqb (norm (fst kv)) (fst kv) && wf_p norm e (snd kv) true && go l' end) m
      | TObj attrs _ =>
          list_eqb str_eqb (keys m) (keys attrs) &&
          (fix go (l : list (str * payload)) : bool :=
             match l with
             | [] => true
             | kv :: l' => str_eqb (norm (fst kv)) (fst kv) &&
                           match lookup (fst kv) attrs with Some ta => wf_p norm ta (snd kv) true | None => false end && go l'
             end) m
      | _ => false
      end
  | PSet bs =>
      match t with
      | TSet e =>
          (fix gob (l : list (Z * list payload)) : bool :=
             match l with
             | [] => true
             | b :: l' =>
                 (match snd b with [] => false | _ => true end) &&
                 (fix go (ms : list payload) : bool :=
                    match ms with
                    | [] => true
                    | x :: ms' => wf_p norm e x false && (match deep_marks x with [] => true | _ => false end) && go ms'
                    end) (snd b) && gob l'
             end) bs
      | _ => false
      end
  end.

(* the set-specific global conditions: ascending bucket ids, members in the bucket of their hash,
   no two equivalent members *)
Definition wf_set_buckets (e : ty) (bs : buckets) : bool :=
  (fix asc (l : list (Z * list payload)) : bool :=
     match l with a :: ((b :: _) as l') => (fst a <? fst b) && asc l' | _ => true end) bs &&
  forallb (fun b => forallb (fun x => res_eqb Z.eqb (hash_value (V e x)) (Ok (fst b))) (snd b)) bs &&
  (fix nodup (l : list payload) : bool :=
     match l with
     | [] => true
     | x :: l' => forallb (fun y => match equals_v (V e x) (V e y) with
                                   | Ok r => negb (known_and_true r)
                                   | _ => false
                                   end) l' && nodup l'
     end) (set_members bs).

(* every set nested anywhere satisfies the bucket conditions *)
Fixpoint wf_sets (t : ty) (p : payload) {struct p} : bool :=
  match p with
  | PMarked _ p' => match p' with PMarked _ _ => false | PSeq _ | PMap _ | PSet _ => wf_sets t p' | _ => true end
  | PSeq l =>
      match t with
      | TList e => forallb (wf_sets e) l
      | TTuple es => (fix go (l : list payload) (ts : list ty) {struct l} : bool :=
                        match l, ts with x :: l', te :: ts' => wf_sets te x && go l' ts' | _, _ => true end) l es
      | _ => true
      end
  | PMap m =>
      match t with
      | TMap e => (fix go (l : list (str * payload)) : bool := match l with [] => true | kv :: l' => wf_sets e (snd kv) && go l' end) m
      | TObj attrs _ => (fix go (l : list (str * payload)) : bool :=
                           match l with
                           | [] => true
                           | kv :: l' => match lookup (fst kv) attrs with Some ta => wf_sets ta (snd kv) | None => true end && go l'
                           end) m
      | _ => true
      end
  | PSet bs =>
      match t with
      | TSet e => wf_set_buckets e bs &&
                  (fix gob (l : list (Z * list payload)) : bool :=
                     match l with
                     | [] => true
                     | b :: l' => (fix go (ms : list payload) : bool :=
                                     match ms with [] => true | x :: ms' => wf_sets e x && go ms' end) (snd b) && gob l'
                     end) bs
      | _ => true
      end
  | _ => true
  end.

Definition wf_value (norm : str -> str) (v : value) : bool :=
  wf_ty (vty v) && negb (has_opt (vty v)) && wf_p norm (vty v) (vp v) true && wf_sets (vty v) (vp v).

(* correspondence case for C06: a value the implementation returned, the hook's verdict, and the
   verdict of the public-API validity walk *)
Inductive k06 := K06_wf (tbl : list (str * str)) (v : value) (hook_ok : bool).
Definition k06_check (k : k06) : bool :=
  match k with
  | K06_wf tbl v hook_ok =>
      Bool.eqb (wf_value (fun s => match lookup s tbl with Some r => r | None => s end) v) hook_ok
  end.
(* the property on the model: what the implementation returned is well-formed *)
Definition k06_prop (k : k06) : bool :=
  match k with K06_wf tbl v _ => wf_value (fun s => match lookup s tbl with Some r => r | None => s end) v end.
