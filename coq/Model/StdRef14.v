(* StdRef14.v — reference semantics of number, string and encoding functions of the standard
   library on wholly known arguments (C14).  Numbers: exact arithmetic on the big-float model.
   Strings: byte strings; positions counted in grapheme clusters use a segmentation supplied with
   each case (the segmenter itself is the textseg library on both sides). *)
From Coq Require Import String.
From Cty Require Import Base Ty BigFloat Value Hash Ops Refine Walk Convert Func Json K15 StdRef.
From Cty.Gen Require Import SpecTable.
Open Scope Z_scope.

Definition numx (v : value) : option bf := match vp v with PNum x _ => Some x | _ => None end.
Definition strx (v : value) : option str := match vp v with PStr s => Some s | _ => None end.
Definition nan_is_error (r : res value) : res value := match r with Panic => Err OtherError | x => x end.
Definition is_inf (x : bf) : bool := match x with BInf _ _ => true | _ => false end.

(* ---------- numbers ---------- *)
(* truncation toward zero, floor and ceiling of a finite number, as integers *)
Definition trunc_z (x : bf) : option Z := fst (bf_int x).
Definition trunc_exact (x : bf) : bool := acc_eqb (snd (bf_int x)) Exact.     (* x is a whole number *)
Definition floor_z (x : bf) : option Z :=
  match trunc_z x with
  | Some t => Some (if trunc_exact x then t else if bf_neg_sign x then t - 1 else t)
  | None => None
  end.
Definition ceil_z (x : bf) : option Z :=
  match trunc_z x with
  | Some t => Some (if trunc_exact x then t else if bf_neg_sign x then t else t + 1)
  | None => None
  end.

Definition ref_round (f : bf -> option Z) (v : value) : res value :=
  match numx v with
  | Some x => if is_inf x then Ok v else match f x with Some i => Ok (v_num (bf_set_int (bf_prec x) i)) | None => Err OtherError end
  | None => Err OtherError
  end.
Definition ref_int (v : value) : res value :=
  match numx v with
  | Some x => if bf_is_int x then Ok v else if is_inf x then Err OtherError
              else match trunc_z x with Some i => Ok (v_num (bf_set_int 0 i)) | None => Err OtherError end
  | None => Err OtherError
  end.
Definition ref_signum (v : value) : res value :=
  match numx v with Some x => Ok (v_int (bf_sign x)) | None => Err OtherError end.

Fixpoint pick_by (better : value -> value -> res bool) (cur : value) (l : list value) : res value :=
  match l with [] => Ok cur | x :: l' => do b <- better x cur; pick_by better (if b then x else cur) l' end.
Definition ref_min (args : list value) : res value :=
  match args with [] => Err OtherError | _ => pick_by (fun x c => do r <- lt_v x c; Ok (kt r)) (V TNum (PNum (BInf false 0) IdPInf)) args end.
Definition ref_max (args : list value) : res value :=
  match args with [] => Err OtherError | _ => pick_by (fun x c => do r <- gt_v x c; Ok (kt r)) (V TNum (PNum (BInf true 0) IdNInf)) args end.

(* parseint: optional sign, then digits of the base: 0-9, then letters (case-insensitive up to base
   36; a-z = 10..35 and A-Z = 36..61 above) *)
Definition digit_val (base : Z) (c : N) : option Z :=
  let c := Z.of_N c in
  let d := if (48 <=? c) && (c <=? 57) then Some (c - 48)
           else if (97 <=? c) && (c <=? 122) then Some (c - 97 + 10)
           else if (65 <=? c) && (c <=? 90) then Some (if base <=? 36 then c - 65 + 10 else c - 65 + 36)
           else None in
  match d with Some x => if x <? base then Some x else None | None => None end.
Fixpoint parse_digits (base : Z) (s : str) (acc : Z) : option Z :=
  match s with
  | [] => Some acc
  | c :: s' => match digit_val base c with Some d => parse_digits base s' (acc * base + d) | None => None end
  end.
Definition ref_parseint (sv bv : value) : res value :=
  match strx sv, whole bv with
  | Some s, Some base =>
      if (base <? 2) || (62 <? base) then Err OtherError else
      let '(neg, ds) := match s with 45%N :: r => (true, r) | 43%N :: r => (false, r) | _ => (false, s) end in
      match ds with
      | [] => Err OtherError
      | _ => match parse_digits base ds 0 with
             | Some n => Ok (v_num (bf_set_int 0 (if neg then - n else n)))
             | None => Err OtherError
             end
      end
  | _, _ => Err OtherError
  end.

(* ---------- byte strings ---------- *)
Fixpoint starts_with (p s : str) : bool :=
  match p, s with [], _ => true | a :: p', b :: s' => (a =? b)%N && starts_with p' s' | _, [] => false end.
Definition drop (n : nat) (s : str) : str := skipn n s.

(* UTF-8 sequence length from the first byte (strings are valid UTF-8) *)
Definition rune_len (b : N) : nat :=
  if (b <? 128)%N then 1 else if (b <? 224)%N then 2 else if (b <? 240)%N then 3 else 4.

(* split on non-overlapping occurrences of a non-empty separator, left to right *)
Fixpoint split_at (fuel : nat) (sep s cur : str) : list str :=
  match fuel with
  | O => [rev cur ++ s]
  | S f =>
    match s with
    | [] => [rev cur]
    | c :: s' => if starts_with sep s then rev cur :: split_at f sep (drop (length sep) s) []
                 else split_at f sep s' (c :: cur)
    end
  end.
Fixpoint runes (fuel : nat) (s : str) : list str :=
  match fuel with
  | O => []
  | S f => match s with [] => [] | c :: _ => firstn (rune_len c) s :: runes f (drop (rune_len c) s) end
  end.
Definition ref_split_s (sep s : str) : list str :=
  match sep with
  | [] => runes (length s) s
  | _ => split_at (S (length s)) sep s []
  end.
Fixpoint join_s (sep : str) (l : list str) : str :=
  match l with [] => [] | [x] => x | x :: l' => x ++ sep ++ join_s sep l' end.

Definition ref_replace_s (s old new : str) : str :=
  match old with
  | [] => new ++ flat_map (fun r => r ++ new) (runes (length s) s)        (* between all runes, and at both ends *)
  | _ => join_s new (split_at (S (length s)) old s [])
  end.

(* chomp: remove every trailing \r\n, \r and \n *)
Fixpoint chomp_rev (r : str) : str :=
  match r with
  | c :: r' => if ((c =? 10) || (c =? 13))%N then chomp_rev r' else r
  | [] => []
  end.
Definition ref_chomp_s (s : str) : str := rev (chomp_rev (rev s)).

Definition ref_indent_s (n : nat) (s : str) : str :=
  flat_map (fun c => if (c =? 10)%N then 10%N :: repeat 32%N n else [c]) s.

Definition ref_trimprefix_s (s p : str) : str := if starts_with p s then drop (length p) s else s.
Definition ref_trimsuffix_s (s p : str) : str := if starts_with (rev p) (rev s) then rev (drop (length p) (rev s)) else s.

(* ---------- grapheme clusters (segmentation supplied) ---------- *)
Definition ref_strlen (cl : list str) : Z := Z.of_nat (length cl).
Definition ref_reverse_s (cl : list str) : str := concat (rev cl).
(* substr: a negative offset counts from the end (and stops at the start); a negative length means
   up to the end *)
Definition ref_substr (cl : list str) (off len : Z) : str :=
  let n := Z.of_nat (length cl) in
  let off' := if off <? 0 then Z.max 0 (off + n) else off in
  let rest := skipn (Z.to_nat off') cl in
  concat (if len <? 0 then rest else firstn (Z.to_nat len) rest).

(* ---------- dispatch ---------- *)
Definition sres (s : str) (norm : str -> str) : res value := Ok (v_str (norm s)).

Definition ref14_fn (norm : str -> str) (segs : list (str * list str)) (name : str) (args : list value) : option (res value) :=
  let clusters (s : str) := match lookup s segs with Some l => l | None => [s] end in
  let un (f : value -> res value) := match args with [a] => Some (f a) | _ => Some (Err OtherError) end in
  let bin (f : value -> value -> res value) := match args with [a; b] => Some (f a b) | _ => Some (Err OtherError) end in
  let s1 (f : str -> res value) := match args with [a] => match strx a with Some s => Some (f s) | None => Some (Err OtherError) end | _ => Some (Err OtherError) end in
  if str_eqb name b#"Absolute" then un absolute_v else
  if str_eqb name b#"Negate" then un negate_v else
  if str_eqb name b#"Add" then bin (fun a b => nan_is_error (add_v a b)) else
  if str_eqb name b#"Subtract" then bin (fun a b => nan_is_error (sub_v a b)) else
  if str_eqb name b#"Multiply" then bin (fun a b => nan_is_error (mul_v a b)) else
  if str_eqb name b#"Divide" then bin (fun a b => nan_is_error (divide_v a b)) else
  if str_eqb name b#"Modulo" then bin (fun a b => nan_is_error (modulo_v a b)) else
  if str_eqb name b#"LessThan" then bin lt_v else
  if str_eqb name b#"GreaterThan" then bin gt_v else
  if str_eqb name b#"LessThanOrEqualTo" then bin lte_v else
  if str_eqb name b#"GreaterThanOrEqualTo" then bin gte_v else
  if str_eqb name b#"Min" then Some (ref_min args) else
  if str_eqb name b#"Max" then Some (ref_max args) else
  if str_eqb name b#"Int" then un ref_int else
  if str_eqb name b#"Ceil" then un (ref_round ceil_z) else
  if str_eqb name b#"Floor" then un (ref_round floor_z) else
  if str_eqb name b#"Signum" then un ref_signum else
  if str_eqb name b#"ParseInt" then bin ref_parseint else
  if str_eqb name b#"Chomp" then s1 (fun s => sres (ref_chomp_s s) norm) else
  if str_eqb name b#"Strlen" then s1 (fun s => Ok (v_int (ref_strlen (clusters s)))) else
  if str_eqb name b#"Reverse" then s1 (fun s => sres (ref_reverse_s (clusters s)) norm) else
  if str_eqb name b#"Indent" then
    match args with
    | [n; s] => match whole n, strx s with
                | Some k, Some t => Some (if k <? 0 then Err OtherError else sres (ref_indent_s (Z.to_nat k) t) norm)
                | _, _ => Some (Err OtherError) end
    | _ => Some (Err OtherError) end else
  if str_eqb name b#"TrimPrefix" then
    match args with [s; p] => match strx s, strx p with Some a, Some b => Some (sres (ref_trimprefix_s a b) norm) | _, _ => Some (Err OtherError) end | _ => Some (Err OtherError) end else
  if str_eqb name b#"TrimSuffix" then
    match args with [s; p] => match strx s, strx p with Some a, Some b => Some (sres (ref_trimsuffix_s a b) norm) | _, _ => Some (Err OtherError) end | _ => Some (Err OtherError) end else
  if str_eqb name b#"Replace" then
    match args with
    | [s; o; n] => match strx s, strx o, strx n with Some a, Some b, Some c => Some (sres (ref_replace_s a b c) norm) | _, _, _ => Some (Err OtherError) end
    | _ => Some (Err OtherError) end else
  if str_eqb name b#"Split" then
    match args with
    | [sep; s] => match strx sep, strx s with
                  | Some a, Some b => Some (Ok (mk_list TStr (map (fun x => v_str (norm x)) (ref_split_s a b))))
                  | _, _ => Some (Err OtherError) end
    | _ => Some (Err OtherError) end else
  if str_eqb name b#"Join" then
    match args with
    | sep :: lists =>
        match strx sep, lists with
        | Some a, _ :: _ =>
            Some (do parts <- map_res members lists;
                  let items := concat parts in
                  if existsb is_null items then Err OtherError
                  else sres (join_s a (flat_map (fun v => match strx v with Some s => [s] | None => [] end) items)) norm)
        | _, _ => Some (Err OtherError)
        end
    | _ => Some (Err OtherError) end else
  if str_eqb name b#"Substr" then
    match args with
    | [s; o; l] => match strx s, whole o, whole l with
                   | Some a, Some off, Some len => Some (sres (ref_substr (clusters a) off len) norm)
                   | _, _, _ => Some (Err OtherError) end
    | _ => Some (Err OtherError) end else
  None.

Definition ref14_call (norm : str -> str) (segs : list (str * list str)) (name : str) (args : list value) : option (res value) :=
  if null_refused name args then Some (Err OtherError) else ref14_fn norm segs name args.

(* numbers are compared by value (the stored precision is not part of the documented result) *)
Definition same14 (a b : value) : bool :=
  match vty a, vp a, vp b with
  | TNum, PNum x _, PNum y _ => ty_eqb (vty b) TNum && bf_numeq x y
  | _, _, _ => same_result a b
  end.

Inductive k14 :=
| K14_call (tbl : list (str * str)) (segs : list (str * list str)) (name : str) (args : list value) (obs : res value)
| K14_json (c : k15).

Definition k14_check (k : k14) : bool :=
  match k with
  | K14_call tbl segs name args obs =>
      match ref14_call (ntbl tbl) segs name args with
      | None => false
      | Some r => res_eqb_anyerr same14 r obs
      end
  | K14_json c => k15_check c
  end.
