(* K10.v — correspondence cases for C10: specifications with callbacks from a finite menu, spied
   by the harness; the observed trace of callback invocations is compared with the model's. *)
From Cty Require Import Base Ty BigFloat Value Hash Ops Refine Func.
Open Scope Z_scope.

Inductive tcb := TcbConst (t : ty) | TcbErr | TcbPanic | TcbFirstArgTy.
Inductive icb := IcbConst (v : value) | IcbErr | IcbPanic | IcbUnknownOfRet | IcbFirstArg | IcbNullOfRet.

Definition run_tcb (c : tcb) (args : list value) : res ty :=
  match c with
  | TcbConst t => Ok t
  | TcbErr => Err OtherError
  | TcbPanic => Panic
  | TcbFirstArgTy => match args with v :: _ => Ok (vty v) | [] => Ok TStr end
  end.
Definition run_icb (c : icb) (args : list value) (rt : ty) : res value :=
  match c with
  | IcbConst v => Ok v
  | IcbErr => Err OtherError
  | IcbPanic => Panic
  | IcbUnknownOfRet => Ok (v_unknown rt)
  | IcbFirstArg => match args with v :: _ => Ok v | [] => Ok (v_null rt) end
  | IcbNullOfRet => Ok (v_null rt)
  end.

Definition mk_spec (ps : list param) (vp : option param) (t : tcb) (i : icb) (rf : option (list rcall)) : spec :=
  {| s_params := ps; s_var := vp; s_type := run_tcb t; s_impl := run_icb i; s_refine := rf |}.

Definition vlist_eqb := list_eqb value_eqb.
Definition event_eqb (a b : event) : bool :=
  match a, b with
  | EvType a1 r1, EvType a2 r2 => vlist_eqb a1 a2 && res_eqb ty_eqb r1 r2
  | EvImpl a1 t1 r1, EvImpl a2 t2 r2 => vlist_eqb a1 a2 && ty_eqb t1 t2 && res_eqb value_eqb r1 r2
  | _, _ => false
  end.

Inductive k10 :=
| K10_call (ps : list param) (vp : option param) (t : tcb) (i : icb) (rf : option (list rcall))
           (args : list value) (obs : res value) (trace : list event)
| K10_rtfv (ps : list param) (vp : option param) (t : tcb) (args : list value) (obs : res ty).

Definition k10_check (k : k10) : bool :=
  match k with
  | K10_call ps vp t i rf args obs trace =>
      let '(r, tr) := call (mk_spec ps vp t i rf) args in
      res_eqb value_eqb r obs && list_eqb event_eqb tr trace
  | K10_rtfv ps vp t args obs =>
      res_eqb ty_eqb (return_type_for_values (mk_spec ps vp t IcbErr None) args) obs
  end.

(* the property on the model (trace invariants), evaluated per case *)
Definition k10_prop (k : k10) : bool :=
  match k with
  | K10_call ps vp t i rf args _ _ =>
      let sp := mk_spec ps vp t i rf in
      let '(r, tr) := call sp args in
      match tr with
      | [] => true
      | [EvType _ _] => true
      | [EvType a1 (Ok t1); EvImpl a2 t2 _] => vlist_eqb a1 a2 && ty_eqb t1 t2 && all_meet sp 0 a2
      | _ => false
      end &&
      match r with
      | Panic | OutOfFuel => false
      | _ => true
      end
  | K10_rtfv _ _ _ _ _ => true
  end.
