(* K17.v — correspondence cases for C17 (decoder safety): the JSON decoders (cases of K15), the
   MessagePack decoder (cases of Msgpack.k16) and the MessagePack implied-type function, on mutated
   and hostile documents; plus the safety predicate itself evaluated on the model. *)
From Cty Require Import Base Ty BigFloat Value Hash Ops Refine Wf Json K15 Msgpack.
Open Scope Z_scope.

Inductive k17 :=
| K17_j (c : k15)
| K17_m (c : k16)
| K17_mpimplied (tbl : list (str * str)) (ms : list mp) (obs : res ty).

Definition k17_check (k : k17) : bool :=
  match k with
  | K17_j c => k15_check c
  | K17_m c => k16_check c
  | K17_mpimplied tbl ms obs => res_eqb_anyerr ty_eqb (mp_implied_type (tbl_fn tbl) ms) obs
  end.

(* error, or a well-formed value whose type conforms to the requested one *)
Definition safe_val (norm : str -> str) (r : res value) (t : ty) : bool :=
  match r with
  | Ok v => wf_value norm v && conforms (vty v) t
  | Err _ => true
  | _ => false
  end.
Definition safe_ty (r : res ty) : bool :=
  match r with Ok t => wf_ty t | Err _ => true | _ => false end.

Definition k17_prop (k : k17) : bool :=
  match k with
  | K17_j (K15_unmarshal tbl j t _) => safe_val (ntbl tbl) (json_unmarshal (ntbl tbl) j t) t
  | K17_j (K15_implied tbl j _) => safe_ty (json_implied_type (ntbl tbl) j)
  | K17_j (K15_oftype tbl j _) => safe_ty (type_of_json (ntbl tbl) j)
  | K17_m (K16_unmarshal tbl jt m t _) => safe_val (tbl_fn tbl) (mp_unmarshal (tbl_fn tbl) (fun s => lookup s jt) m t) t
  | K17_mpimplied tbl ms _ => safe_ty (mp_implied_type (tbl_fn tbl) ms)
  | _ => true
  end.
