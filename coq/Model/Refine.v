(* Refine.v — the refinement builder (cty/unknown_refinement.go), the arithmetic operations
   with their range arithmetic (cty/value_ops.go, cty/value_range.go), and the remaining
   operation methods (Index, HasIndex, GetAttr, HasElement).  Executable definitions only. *)
From Cty Require Export Ops.
Open Scope Z_scope.

(* ------------------------------------------------------------------ *)
(* builder                                                             *)
(* ------------------------------------------------------------------ *)
Record builder := { b_orig : value; b_marks : list mark; b_wip : option refinement }.
(* b_wip = None models a nil wip (DynamicVal, or a type that cannot be refined) *)

(* Value.Refine *)
Definition refine (v0 : value) : builder :=
  let '(v, ms) := unmark v0 in
  match vp v with
  | PUnk r =>
      match r with
      | RNone =>
          let t := vty v in
          let wip :=
            match t with
            | TDyn => None
            | TStr => Some (RStr TU [])
            | TNum => Some (RNum TU None None false false)
            | TList _ | TSet _ | TMap _ => Some (RColl TU 0 max_int)
            | TBool | TObj _ _ | TTuple _ | TCap _ => Some (RNullable TU)
            end in
          {| b_orig := (if is_dyn t then v_dyn else v); b_marks := ms; b_wip := wip |}
      | _ => {| b_orig := v; b_marks := ms; b_wip := Some r |}
      end
  | _ =>
      let t := vty v in
      let wip :=
        match t with
        | TStr => Some (RStr TU [])
        | TNum => Some (RNum TU None None false false)
        | TList _ | TSet _ | TMap _ => Some (RColl TU 0 max_int)
        | TBool | TObj _ _ | TTuple _ | TCap _ => Some (RNullable TU)
        | TDyn => match vp v with PNull => Some (RNullable TT) | _ => None end
        end in
      {| b_orig := v; b_marks := ms; b_wip := wip |}
  end.

(* refineable(): false for DynamicVal (calls are ignored); panic when wip is nil otherwise *)
Definition refineable (b : builder) : res bool :=
  if is_dynval (b_orig b) then Ok false
  else match b_wip b with None => Panic | Some _ => Ok true end.

Definition with_wip (b : builder) (r : refinement) : builder :=
  {| b_orig := b_orig b; b_marks := b_marks b; b_wip := Some r |}.
Definition wip_of (b : builder) : refinement := match b_wip b with Some r => r | None => RNone end.

Definition rb_not_null (b : builder) : res builder :=
  do ok <- refineable b;
  if negb ok then Ok b else
  if is_known (b_orig b) && is_null (b_orig b) then Panic else
  match rfn_null (wip_of b) with
  | TT => Panic
  | _ => Ok (with_wip b (rfn_set_null (wip_of b) TF))
  end.

Definition rb_null (b : builder) : res builder :=
  do ok <- refineable b;
  if negb ok then Ok b else
  if is_known (b_orig b) && negb (is_null (b_orig b)) then Panic else
  match rfn_null (wip_of b) with
  | TF => Panic
  | _ => Ok (with_wip b (rfn_set_null (wip_of b) TT))
  end.

Definition kt (v : value) : bool := is_known v && known_and_true v.   (* IsKnown && True *)
Definition kf (v : value) : bool := is_known v && known_and_false v.

(* assertConsistentBounds *)
Definition consistent_bounds (r : refinement) : res unit :=
  match r with
  | RNum _ (Some lo) (Some hi) loInc hiInc =>
      do ok <- (if loInc && hiInc then lte_v (v_of_numv lo) (v_of_numv hi)
                else lt_v (v_of_numv lo) (v_of_numv hi));
      if kf ok then Panic else Ok tt
  | _ => Ok tt
  end.

Definition rb_num_lower (b : builder) (mn : value) (inclusive : bool) : res builder :=
  do ok <- refineable b;
  if negb ok then Ok b else
  match wip_of b with
  | RNum n lo hi loInc hiInc =>
      if negb (is_known mn) then Ok b else
      if is_null mn then Panic else
      do chk <- (if inclusive then gt_v mn (b_orig b) else gte_v mn (b_orig b));
      if kt chk then Panic else
      do keep <- match lo with
                 | Some cur =>
                     do ok2 <- (if inclusive && negb loInc then gt_v mn (v_of_numv cur) else gte_v mn (v_of_numv cur));
                     Ok (kf ok2)
                 | None => Ok false
                 end;
      if keep then Ok b else
      match pnum (unmark_force mn) with
      | None => Panic
      | Some x =>
          let r' := match snd x with
                    | IdNInf => if inclusive then RNum n lo hi loInc hiInc   (* inclusive bound at the shared -Inf: no bound *)
                                else RNum n (Some x) hi inclusive hiInc
                    | _ => RNum n (Some x) hi inclusive hiInc
                    end in
          do _ <- consistent_bounds r'; Ok (with_wip b r')
      end
  | _ => Panic
  end.

Definition rb_num_upper (b : builder) (mx : value) (inclusive : bool) : res builder :=
  do ok <- refineable b;
  if negb ok then Ok b else
  match wip_of b with
  | RNum n lo hi loInc hiInc =>
      if negb (is_known mx) then Ok b else
      if is_null mx then Panic else
      do chk <- (if inclusive then lt_v mx (b_orig b) else lte_v mx (b_orig b));
      if kt chk then Panic else
      do keep <- match hi with
                 | Some cur =>
                     do ok2 <- (if inclusive && negb hiInc then lt_v mx (v_of_numv cur) else lte_v mx (v_of_numv cur));
                     Ok (kf ok2)
                 | None => Ok false
                 end;
      if keep then Ok b else
      match pnum (unmark_force mx) with
      | None => Panic
      | Some x =>
          let r' := match snd x with
                    | IdPInf => if inclusive then RNum n lo hi loInc hiInc
                                else RNum n lo (Some x) loInc inclusive
                    | _ => RNum n lo (Some x) loInc inclusive
                    end in
          do _ <- consistent_bounds r'; Ok (with_wip b r')
      end
  | _ => Panic
  end.

Definition rb_num_inclusive (b : builder) (mn mx : value) : res builder :=
  do b1 <- rb_num_lower b mn true; rb_num_upper b1 mx true.

Definition rb_len_lower (b : builder) (mn : Z) : res builder :=
  do ok <- refineable b;
  if negb ok then Ok b else
  match wip_of b with
  | RColl n lo hi =>
      do _ <- (if is_known (b_orig b) then
                 do real <- length_v (b_orig b); do g <- gt_v (v_int mn) real; if kt g then Panic else Ok tt
               else Ok tt);
      if mn <? lo then Ok b else
      if hi <? mn then Panic else Ok (with_wip b (RColl n mn hi))
  | _ => Panic
  end.

Definition rb_len_upper (b : builder) (mx : Z) : res builder :=
  do ok <- refineable b;
  if negb ok then Ok b else
  match wip_of b with
  | RColl n lo hi =>
      do _ <- (if is_known (b_orig b) then
                 do real <- length_v (b_orig b); do l <- lt_v (v_int mx) real; if kt l then Panic else Ok tt
               else Ok tt);
      if hi <? mx then Ok b else
      if mx <? lo then Panic else Ok (with_wip b (RColl n lo mx))
  | _ => Panic
  end.

Definition rb_len (b : builder) (n : Z) : res builder := do b1 <- rb_len_lower b n; rb_len_upper b1 n.

Definition take_n {A} (n : nat) (l : list A) := firstn n l.

(* StringPrefixFull; [norm] is NormalizeString *)
Definition rb_prefix_full (norm : str -> str) (b : builder) (prefix0 : str) : res builder :=
  do ok <- refineable b;
  if negb ok then Ok b else
  match wip_of b with
  | RStr n cur =>
      let prefix := norm prefix0 in
      do _ <- (if is_known (b_orig b) && negb (is_null (b_orig b)) then
                 match vp (b_orig b) with
                 | PStr have => if is_prefix prefix have then Ok tt else Panic
                 | _ => Panic
                 end
               else Ok tt);
      let k := Nat.min (length cur) (length prefix) in
      if negb (str_eqb (firstn k cur) (firstn k prefix)) then Panic else
      if Nat.ltb (length cur) (length prefix) then Ok (with_wip b (RStr n prefix)) else Ok b
  | _ => Panic
  end.

(* NewValue *)
Definition rb_new_value (b : builder) : res value :=
  let fin (v : value) := with_marks v (b_marks b) in
  if is_known (b_orig b) || is_dynval (b_orig b) then Ok (fin (b_orig b)) else
  let t := vty (b_orig b) in
  let plain := Ok (fin (V t (PUnk (wip_of b)))) in
  match rfn_null (wip_of b) with
  | TT => Ok (fin (v_null t))
  | TF =>
      match wip_of b with
      | RNum _ (Some lo) (Some hi) true true =>
          do eq <- equals_v (v_of_numv lo) (v_of_numv hi);
          if kt eq then Ok (fin (v_of_numv lo)) else plain
      | RColl _ lo hi =>
          if lo =? hi then
            if lo =? 0 then
              match t with
              | TList e => Ok (fin (V t (PSeq [])))
              | TSet e => Ok (fin (V t (PSet [])))
              | TMap e => Ok (fin (V t (PMap [])))
              | _ => plain
              end
            else match t with
                 | TList e =>
                     (* ListVal of lo unknown elements, up to maxKnownLengthPlaceholders (fix: commit 82551d2) *)
                     if lo <=? 1024 then Ok (fin (V (TList e) (PSeq (repeat (PUnk RNone) (Z.to_nat lo))))) else plain
                 | TSet e =>
                     if lo =? 1 then do s <- set_val [v_unknown e]; Ok (fin s) else plain
                 | _ => plain
                 end
          else plain
      | _ => plain
      end
  | TU => plain
  end.

(* the calls of a refinement session, as data *)
Inductive rcall :=
| RcNotNull | RcNull
| RcNumLower (v : value) (inc : bool) | RcNumUpper (v : value) (inc : bool)
| RcLenLower (n : Z) | RcLenUpper (n : Z)
| RcPrefixFull (s : str).

Definition rb_step (norm : str -> str) (b : builder) (c : rcall) : res builder :=
  match c with
  | RcNotNull => rb_not_null b
  | RcNull => rb_null b
  | RcNumLower v inc => rb_num_lower b v inc
  | RcNumUpper v inc => rb_num_upper b v inc
  | RcLenLower n => rb_len_lower b n
  | RcLenUpper n => rb_len_upper b n
  | RcPrefixFull s => rb_prefix_full norm b s
  end.

Fixpoint rb_steps (norm : str -> str) (b : builder) (cs : list rcall) : res builder :=
  match cs with
  | [] => Ok b
  | c :: cs' => do b' <- rb_step norm b c; rb_steps norm b' cs'
  end.

(* v.Refine().<calls>.NewValue() *)
Definition rb_run (norm : str -> str) (v : value) (cs : list rcall) : res value :=
  do b <- rb_steps norm (refine v) cs; rb_new_value b.

Definition refine_not_null (v : value) : res value := rb_run (fun s => s) v [RcNotNull].

(* ------------------------------------------------------------------ *)
(* arithmetic                                                          *)
(* ------------------------------------------------------------------ *)
Inductive arith := OpAdd | OpSub | OpMul.
Definition is_num_ty (t : ty) : bool := match t with TNum => true | _ => false end.

Definition bf_of (v : value) : option bf := match pnum v with Some x => Some (fst x) | None => None end.
Definition lift_bf (r : option bf) : res value := match r with Some x => Ok (v_num x) | None => Panic end.

(* Multiply on known numbers (precision selection as coded) *)
Definition mul_known (x y : bf) : res value :=
  let resPrec := Z.max (bf_prec x) (bf_prec y) in
  match bf_mul_prec x y 512 with
  | None => Panic
  | Some ret =>
      let minPrec := bf_min_prec ret in
      let p := Z.max resPrec minPrec in
      Ok (v_num (bf_set_prec0 ret p))
  end.

(* mostNumberValue *)
Definition most_number (op : value -> value -> res value) (v1 : value) (vs : list value) : res value :=
  (fix go (r : value) (l : list value) : res value :=
     match l with
     | [] => Ok r
     | v :: l' => do more <- op v r;
                  if negb (is_known more) then Ok (v_unknown TNum)
                  else if known_and_true more then go v l' else go r l'
     end) v1 vs.

(* op on range corners with Go's recover(): a panic becomes UnknownVal(Number) *)
Definition wrap_op (op : value -> value -> res value) (a b : value) : res value :=
  match op a b with
  | Panic => Ok (v_unknown TNum)
  | r => r
  end.

(* numericRangeArithmetic: the refiner applied to the builder of the short-circuit value *)
Definition range_arith (op : value -> value -> res value) (ra rb : vrange) (b : builder) : res builder :=
  do amin <- num_lower ra; do amax <- num_upper ra;
  do bmin <- num_lower rb; do bmax <- num_upper rb;
  do v1 <- wrap_op op (fst amin) (fst bmin);
  do v2 <- wrap_op op (fst amin) (fst bmax);
  do v3 <- wrap_op op (fst amax) (fst bmin);
  do v4 <- wrap_op op (fst amax) (fst bmax);
  do newMin <- most_number lt_v v1 [v2; v3; v4];
  do newMax <- most_number gt_v v1 [v2; v3; v4];
  do isInfLo <- equals_v newMin v_ninf;
  do b1 <- (if kf isInfLo then rb_num_lower b newMin true else Ok b);
  do isInfHi <- equals_v newMax v_pinf;
  if kf isInfHi then rb_num_upper b1 newMax true else Ok b1.

(* Add / Subtract / Multiply on unmarked operands; [self] is the same operation with less fuel *)
Definition arith_step (self : arith -> value -> value -> res value) (o : arith) (a b : value) : res value :=
  do sc <- type_check TNum [a; b] false false;
  match sc with
  | SC_none =>
      match bf_of a, bf_of b with
      | Some x, Some y =>
          match o with
          | OpAdd => lift_bf (bf_add x y)
          | OpSub => lift_bf (bf_sub x y)        (* val.Add(other.Negate()) *)
          | OpMul => mul_known x y
          end
      | _, _ => Panic
      end
  | _ =>
      let is_zero_id (v : value) := match vp v with PNum _ IdZero => is_num_ty (vty v) | _ => false end in
      if (match o with OpMul => is_zero_id a || is_zero_id b | _ => false end) then Ok v_zero else
      do ra <- range_of a; do rb <- range_of b;
      let bld := refine (v_unknown TNum) in
      do b1 <- range_arith (binary_marks (self o)) ra rb bld;
      do r1 <- rb_new_value b1;
      refine_not_null r1
  end.

Fixpoint arith_at (fuel : nat) (o : arith) (a b : value) : res value :=
  match fuel with
  | O => OutOfFuel
  | S n => arith_step (arith_at n) o a b
  end.
(* nesting depth of range arithmetic is at most 2 (bounds are known numbers or the unrefined
   unknown number whose own bounds are the infinities) *)
Definition add_v := binary_marks (arith_at 4 OpAdd).
Definition sub_v := binary_marks (arith_at 4 OpSub).
Definition mul_v := binary_marks (arith_at 4 OpMul).

Definition unk_num_not_null : value := V TNum (PUnk (RNum TF None None false false)).

Definition negate_u (v : value) : res value :=
  do sc <- type_check TNum [v] false false;
  match sc with
  | SC_none => match bf_of v with Some x => Ok (v_num (bf_neg x)) | None => Panic end
  | _ => Ok unk_num_not_null
  end.
Definition negate_v := unary_marks negate_u.

Definition divide_u (a b : value) : res value :=
  do sc <- type_check TNum [a; b] false false;
  match sc with
  | SC_none => match bf_of a, bf_of b with Some x, Some y => lift_bf (bf_quo x y) | _, _ => Panic end
  | _ => Ok unk_num_not_null
  end.
Definition divide_v := binary_marks divide_u.

Definition absolute_u (v : value) : res value :=
  do sc <- type_check TNum [v] false false;
  match sc with
  | SC_none => match bf_of v with Some x => Ok (v_num (bf_abs x)) | None => Panic end
  | _ => Ok (V TNum (PUnk (RNum TF (Some (bf_zero53, IdZero)) None true false)))
  end.
Definition absolute_v := unary_marks absolute_u.

Definition is_inf_id (v : value) : bool :=
  match vty v, vp v with TNum, PNum _ IdPInf | TNum, PNum _ IdNInf => true | _, _ => false end.

Definition is_inf_num (v : value) : bool := match bf_of v with Some (BInf _ _) => true | _ => false end.

Definition modulo_u (a b : value) : res value :=
  do sc <- type_check TNum [a; b] false false;
  match sc with
  | SC_none =>
      if is_inf_num a || is_inf_num b then mul_v a b else      (* fix: commit f90d1a7 (was: the two singletons only) *)
      match bf_of a, bf_of b with
      | Some x, Some y =>
          if raw_number_equal y bf_zero53 then Ok a else
          match bf_quo x y with
          | None => Panic
          | Some rat =>
              match fst (bf_int rat) with
              | None => Panic                       (* SetInt(nil) *)
              | Some q =>
                  let work := bf_set_int (bf_prec x) q in
                  let p := bf_prec work in
                  match bf_mul_prec y work p with
                  | None => Panic
                  | Some prod =>
                      match bf_sub (with_prec x p) (with_prec prod p) with   (* Sub into work: result precision p *)
                      | None => Panic
                      | Some r => Ok (v_num (with_prec r p))
                      end
                  end
              end
          end
      | _, _ => Panic
      end
  | _ => Ok unk_num_not_null
  end.
Definition modulo_v := binary_marks modulo_u.

(* ------------------------------------------------------------------ *)
(* GetAttr / Index / HasIndex / HasElement                             *)
(* ------------------------------------------------------------------ *)
Definition get_attr_u (norm : str -> str) (name0 : str) (v : value) : res value :=
  if is_dyn (vty v) then Ok v_dyn else
  match vty v with
  | TObj attrs _ =>
      let name := norm name0 in
      match lookup name attrs with
      | None => Panic
      | Some ta =>
          match vp v with
          | PUnk _ => Ok (v_unknown ta)
          | PMap m => match lookup name m with Some p => Ok (V ta p) | None => Panic end
          | _ => Panic      (* null: nil map read yields nil -> the Go code returns a null attribute *)
          end
      end
  | _ => Panic
  end.

(* reading an attribute of a null object: val.v.(map[string]interface{}) on nil panics *)
Definition get_attr_v (norm : str -> str) (name : str) := unary_marks (get_attr_u norm name).

(* the Int64 conversion of the key with the "exact and non-negative" test *)
Definition index_of_key (key : value) : res (option Z) :=
  match vp key with
  | PNum n _ => let '(i, a) := bf_int64 n in
                Ok (if acc_eqb a Exact && (0 <=? i) then Some i else None)
  | _ => Panic     (* null key: nil pointer *)
  end.

Definition index_u (v key : value) : res value :=
  if is_dyn (vty v) then Ok v_dyn else
  match vty v with
  | TList e =>
      if is_dyn (vty key) then Ok (v_unknown e) else
      if negb (is_num_ty (vty key)) then Panic else
      if p_is_unk (vp key) then Ok (v_unknown e) else
      if p_is_unk (vp v) then Ok (v_unknown e) else
      do oi <- index_of_key key;
      match oi with
      | None => Panic
      | Some i => match vp v with
                  | PSeq l => match nth_error l (Z.to_nat i) with Some p => Ok (V e p) | None => Panic end
                  | _ => Panic
                  end
      end
  | TMap e =>
      if is_dyn (vty key) then Ok (v_unknown e) else
      if negb (match vty key with TStr => true | _ => false end) then Panic else
      if p_is_unk (vp key) then Ok (v_unknown e) else
      if p_is_unk (vp v) then Ok (v_unknown e) else
      match vp key, vp v with
      | PStr k, PMap m => match lookup k m with
                          | Some p => Ok (V e p)
                          | None => Ok (V e PNull)       (* missing key: nil interface = null *)
                          end
      | PStr k, PNull => Panic
      | _, _ => Panic
      end
  | TTuple es =>
      if is_dyn (vty key) then Ok v_dyn else
      if negb (is_num_ty (vty key)) then Panic else
      if p_is_unk (vp key) then Ok v_dyn else
      do oi <- index_of_key key;
      match oi with
      | None => Panic
      | Some i =>
          match nth_error es (Z.to_nat i) with
          | None => Panic
          | Some te =>
              match vp v with
              | PUnk _ => Ok (v_unknown te)
              | PSeq l => match nth_error l (Z.to_nat i) with Some p => Ok (V te p) | None => Panic end
              | _ => Panic
              end
          end
      end
  | _ => Panic
  end.
Definition index_v := binary_marks index_u.

Definition has_index_u (v key : value) : res value :=
  if is_dyn (vty v) then Ok unk_not_null else
  match vty v with
  | TList e =>
      if is_dyn (vty key) then Ok unk_not_null else
      if negb (is_num_ty (vty key)) then Ok v_false else
      if p_is_unk (vp key) then Ok unk_not_null else
      if p_is_unk (vp v) then Ok unk_not_null else
      do oi <- index_of_key key;
      match oi with
      | None => Ok v_false
      | Some i => match vp v with
                  | PSeq l => Ok (v_bool (i <? Z.of_nat (length l)))
                  | _ => Panic
                  end
      end
  | TMap e =>
      if is_dyn (vty key) then Ok unk_not_null else
      if negb (match vty key with TStr => true | _ => false end) then Ok v_false else
      if p_is_unk (vp key) then Ok unk_not_null else
      if p_is_unk (vp v) then Ok unk_not_null else
      match vp key, vp v with
      | PStr k, PMap m => Ok (v_bool (match lookup k m with Some _ => true | None => false end))
      | _, _ => Panic
      end
  | TTuple es =>
      if is_dyn (vty key) then Ok unk_not_null else
      if negb (is_num_ty (vty key)) then Ok v_false else
      if p_is_unk (vp key) then Ok unk_not_null else
      do oi <- index_of_key key;
      match oi with
      | None => Ok v_false
      | Some i => Ok (v_bool (i <? Z.of_nat (length es)))
      end
  | _ => Panic
  end.
Definition has_index_v := binary_marks has_index_u.

Definition has_element_u (v elem : value) : res value :=
  if is_null v then Panic else
  if negb (is_known v) then Ok unk_not_null else
  let early_false :=
    match vty v with
    | TSet e => negb (has_dyn (vty elem)) && negb (has_dyn e) && negb (ty_equals (vty elem) e)   (* fix: commit 06b2970 (was: is_dyn) *)
    | _ => false
    end in
  if early_false then Ok v_false else
  match vty v with
  | TSet e =>
      if negb (is_wholly_known elem) then Ok unk_not_null else          (* fix: commit 74cd71d (was: the element itself unknown) *)
      let no_match := if is_wholly_known v then v_false else unk_not_null in
      if negb (ty_equals e (vty elem)) then Ok v_false else
      match vp v with
      | PSet bs => do h <- set_has e bs (vp elem); if h then Ok v_true else Ok no_match
      | _ => Panic
      end
  | _ => Panic
  end.
(* marks: the set's own marks and ALL marks of the candidate element, nested ones included
   (fix: commit d57e001) *)
Definition has_element_v (v elem : value) : res value :=
  if is_marked v || contains_marked elem then
    let '(uv, mv) := unmark v in let '(ue, me) := unmark_deep elem in
    do r <- has_element_u uv ue; Ok (with_marks r (marks_union mv me))
  else has_element_u v elem.
