(* KOps.v — correspondence cases for the operation methods (shared by C01–C04, C06). *)
From Cty Require Import Base Ty BigFloat Value Hash Ops Refine.
Open Scope Z_scope.

Inductive opk :=
| OAdd | OSub | OMul | ODiv | OMod | ONeg | OAbs
| OLt | OGt | OLe | OGe | OEq | ONe | ONot | OAnd | OOr
| OIndex | OHasIndex | OHasElem | OLen.

Definition run_op (o : opk) (args : list value) : res value :=
  match o, args with
  | OAdd, [a; b] => add_v a b
  | OSub, [a; b] => sub_v a b
  | OMul, [a; b] => mul_v a b
  | ODiv, [a; b] => divide_v a b
  | OMod, [a; b] => modulo_v a b
  | ONeg, [a] => negate_v a
  | OAbs, [a] => absolute_v a
  | OLt, [a; b] => lt_v a b
  | OGt, [a; b] => gt_v a b
  | OLe, [a; b] => lte_v a b
  | OGe, [a; b] => gte_v a b
  | OEq, [a; b] => equals_v a b
  | ONe, [a; b] => not_equal_v a b
  | ONot, [a] => not_v a
  | OAnd, [a; b] => and_v a b
  | OOr, [a; b] => or_v a b
  | OIndex, [a; b] => index_v a b
  | OHasIndex, [a; b] => has_index_v a b
  | OHasElem, [a; b] => has_element_v a b
  | OLen, [a] => length_v a
  | _, _ => Panic
  end.

Inductive kops :=
| K_op (o : opk) (args : list value) (obs : res value)
| K_getattr (name : str) (v : value) (obs : res value)
| K_raw (a b : value) (obs : res bool)
| K_hash (v : value) (obs : res Z)
| K_setval (vs : list value) (obs : res value)
| K_listval (vs : list value) (obs : res value)
| K_values (v : value) (obs : list value)          (* iteration order of a set value *)
| K_range (v : value) (nn : bool)                   (* DefinitelyNotNull of Value.Range() *)
| K_bftext (x : bf) (f g : str)                     (* Text('f',-1) and String() *)
| K_bfparse (s : str) (obs : option bf)             (* ParseNumberVal *)
| K_wk (v : value) (wk hwkt : bool).                (* IsWhollyKnown, HasWhollyKnownType *)

Definition vlist_eqb := list_eqb value_eqb.

Definition kops_check (k : kops) : bool :=
  match k with
  | K_op o args obs => res_eqb value_eqb (run_op o args) obs
  | K_getattr name v obs => res_eqb value_eqb (get_attr_v (fun s => s) name v) obs
  | K_raw a b obs => res_eqb Bool.eqb (raw_equals a b) obs
  | K_hash v obs => res_eqb Z.eqb (hash_value v) obs
  | K_setval vs obs => res_eqb value_eqb (set_val vs) obs
  | K_listval vs obs => res_eqb value_eqb (list_val vs) obs
  | K_values v obs =>
      match vty v, vp v with
      | TSet e, PSet bs => res_eqb vlist_eqb (rmap (map (V e)) (set_values e bs)) (Ok obs)
      | _, _ => false
      end
  | K_range v nn => res_eqb Bool.eqb (rmap definitely_not_null_r (range_of v)) (Ok nn)
  | K_bftext x f g => str_eqb (text_f_shortest x) f && str_eqb (text_g10 x) g
  | K_bfparse s obs =>
      match bf_parse s 512, obs with
      | POk x, Some y => bf_eqb x y
      | PErr, None => true
      | _, _ => false
      end
  | K_wk v wk hwkt => Bool.eqb (is_wholly_known v) wk && Bool.eqb (has_wholly_known_type (vty v) (vp v)) hwkt
  end.
