(* BigFloat.v — math/big.Float as go-cty uses it (go1.23.5): executable reference model.
   Modelled, not verified: validated bit-for-bit against math/big by the correspondence check.
   A value is sign * sig * 2^e at precision prec; [None] results model the ErrNaN panics. *)
From Coq Require Import ZArith NArith List Bool.
Import ListNotations.
Open Scope Z_scope.


(* ---------- helpers on N / digits ---------- *)
Fixpoint divmod10_pos (p : positive) : N * N :=
  match p with
  | xH => (0, 1)%N
  | xO p' => let '(q, r) := divmod10_pos p' in
             let r2 := (2 * r)%N in
             if (r2 <? 10)%N then ((2 * q)%N, r2) else ((2 * q + 1)%N, (r2 - 10)%N)
  | xI p' => let '(q, r) := divmod10_pos p' in
             let r2 := (2 * r + 1)%N in
             if (r2 <? 10)%N then ((2 * q)%N, r2) else ((2 * q + 1)%N, (r2 - 10)%N)
  end.
Definition divmod10 (n : N) : N * N :=
  match n with N0 => (0, 0)%N | Npos p => divmod10_pos p end.
Fixpoint digits_fuel (fuel : nat) (n : N) (acc : list N) : list N :=
  match fuel with
  | O => acc
  | S f => match n with
           | N0 => acc
           | _ => let '(q, r) := divmod10 n in digits_fuel f q (r :: acc)
           end
  end.
Definition digits (n : N) : list N := digits_fuel (S (N.to_nat (N.size n))) n [].

Definition bitlen (n : N) : Z := Z.of_N (N.size n).

(* ---------- big.Float model ---------- *)
Inductive acc := Below | Exact | Above.

Inductive bf :=
| BInf (neg : bool) (prec : Z)
| BFin (neg : bool) (sig : N) (e : Z) (prec : Z).   (* value = (-1)^neg * sig * 2^e ; sig = 0 is zero *)

Definition bf_prec (x : bf) : Z := match x with BInf _ p => p | BFin _ _ _ p => p end.

(* round sig*2^e (with an extra sticky flag meaning "plus something in (0,1) ulp of sig") to prec bits, nearest even *)
Definition round_sig (sig : N) (sticky : bool) (e : Z) (prec : Z) : N * Z * acc :=
  let bl := bitlen sig in
  if (bl <=? prec) then (sig, e, if sticky then Below else Exact)
  else
    let r := bl - prec in
    let q := N.shiftr sig (Z.to_N r) in
    let rem := N.land sig (N.ones (Z.to_N r)) in
    let half := N.shiftl 1 (Z.to_N (r - 1)) in
    let up :=
      if (half <? rem)%N then true
      else if (rem =? half)%N then (if sticky then true else N.odd q)
      else false in
    let inexact := orb sticky (negb (rem =? 0)%N) in
    if up then (N.succ q, e + r, Above)
    else (q, e + r, if inexact then Below else Exact).

Definition mk (neg : bool) (sig : N) (sticky : bool) (e : Z) (prec : Z) : bf :=
  let '(s, e', _) := round_sig sig sticky e prec in
  let x := e' + bitlen s in       (* big.Float exponent is an int32 *)
  if 2147483647 <? x then BInf neg prec
  else if x <? -2147483648 then BFin neg 0 0 prec
  else BFin neg s e' prec.

(* canonical observable: odd significand *)
Fixpoint strip_pos (p : positive) (k : Z) : positive * Z :=
  match p with xO p' => strip_pos p' (k + 1) | _ => (p, k) end.
Definition canon (sig : N) (e : Z) : N * Z :=
  match sig with N0 => (0%N, 0) | Npos p => let '(p', k) := strip_pos p 0 in (Npos p', e + k) end.

Definition is_zero (x : bf) := match x with BFin _ 0%N _ _ => true | _ => false end.

(* exact add of two finite magnitudes with signs *)
Definition align (s1 : N) (e1 : Z) (s2 : N) (e2 : Z) : N * N * Z :=
  if e1 <=? e2 then (s1, N.shiftl s2 (Z.to_N (e2 - e1)), e1)
  else (N.shiftl s1 (Z.to_N (e1 - e2)), s2, e2).


Definition bf_add (x y : bf) : option bf :=
  let p := Z.max (bf_prec x) (bf_prec y) in
  match x, y with
  | BFin nx sx ex _, BFin ny sy ey _ =>
      match sx, sy with
      | 0%N, 0%N => Some (BFin (andb nx ny) 0 0 p)
      | _, 0%N => Some (mk nx sx false ex p)
      | 0%N, _ => Some (mk ny sy false ey p)
      | _, _ =>
        let '(a, b, e) := align sx ex sy ey in
        if Bool.eqb nx ny then Some (mk nx (a + b)%N false e p)
        else if (b <? a)%N then Some (mk nx (a - b)%N false e p)
        else if (a <? b)%N then Some (mk (negb nx) (b - a)%N false e p)
        else Some (BFin false 0 0 p)
      end
  | BInf nx _, BInf ny _ => if Bool.eqb nx ny then Some (BInf nx p) else None
  | BInf nx _, _ => Some (BInf nx p)
  | _, BInf ny _ => Some (BInf ny p)
  end.

Definition bf_neg (x : bf) : bf :=
  match x with BInf n p => BInf (negb n) p | BFin n s e p => BFin (negb n) s e p end.

Definition bf_mul_prec (x y : bf) (p : Z) : option bf :=
  match x, y with
  | BFin nx sx ex _, BFin ny sy ey _ =>
      match (sx * sy)%N with
      | 0%N => Some (BFin (xorb nx ny) 0 0 p)
      | s => Some (mk (xorb nx ny) s false (ex + ey) p)
      end
  | BInf nx _, BFin ny sy _ _ => if (sy =? 0)%N then None else Some (BInf (xorb nx ny) p)
  | BFin nx sx _ _, BInf ny _ => if (sx =? 0)%N then None else Some (BInf (xorb nx ny) p)
  | BInf nx _, BInf ny _ => Some (BInf (xorb nx ny) p)
  end.

Definition bf_quo (x y : bf) : option bf :=
  let p := Z.max (bf_prec x) (bf_prec y) in
  match x, y with
  | BFin nx sx ex _, BFin ny sy ey _ =>
      match sx, sy with
      | 0%N, 0%N => None
      | 0%N, _ => Some (BFin (xorb nx ny) 0 0 p)
      | _, 0%N => Some (BInf (xorb nx ny) p)
      | _, _ =>
        (* want quotient with at least p+2 bits *)
        let k := Z.max 0 (p + 2 + bitlen sy - bitlen sx) in
        let num := N.shiftl sx (Z.to_N k) in
        let '(q, r) := N.div_eucl num sy in
        Some (mk (xorb nx ny) q (negb (r =? 0)%N) (ex - ey - k) p)
      end
  | BInf nx _, BInf ny _ => None
  | BInf nx _, BFin ny _ _ _ => Some (BInf (xorb nx ny) p)
  | BFin nx _ _ _, BInf ny _ => Some (BFin (xorb nx ny) 0 0 p)
  end.

(* ---------- decimal conversion ---------- *)
Record dec := { dm : list N; dexp : Z }.     (* value = 0.d1d2... * 10^dexp *)

Fixpoint rtrim0 (l : list N) : list N :=   (* remove trailing zeros *)
  match l with
  | [] => []
  | d :: t => match rtrim0 t with
              | [] => if (d =? 0)%N then [] else [d]
              | t' => d :: t'
              end
  end.

Definition dec_trim (d : dec) : dec :=
  let m := rtrim0 (dm d) in
  match m with [] => {| dm := []; dexp := 0 |} | _ => {| dm := m; dexp := dexp d |} end.

Definition pow5 (k : Z) : N := N.pow 5 (Z.to_N k).

Definition dec_init (sig : N) (e : Z) : dec :=
  match sig with
  | 0%N => {| dm := []; dexp := 0 |}
  | _ =>
    if 0 <=? e then
      let ds := digits (N.shiftl sig (Z.to_N e)) in
      dec_trim {| dm := ds; dexp := Z.of_nat (length ds) |}
    else
      let ds := digits (sig * pow5 (- e))%N in
      dec_trim {| dm := ds; dexp := Z.of_nat (length ds) + e |}
  end.

Definition dec_at (d : dec) (i : nat) : N := nth i (dm d) 0%N.

(* should round up when shortened to n digits; n < length *)
Definition should_round_up (d : dec) (n : nat) : bool :=
  let dn := dec_at d n in
  if andb (dn =? 5)%N (Nat.eqb (S n) (length (dm d))) then
    match n with O => false | S n' => N.odd (dec_at d n') end
  else (5 <=? dn)%N.

Definition dec_round_down (d : dec) (n : nat) : dec :=
  if Nat.leb (length (dm d)) n then d else dec_trim {| dm := firstn n (dm d); dexp := dexp d |}.

(* increment a digit list (big endian) of given length; returns (carry_out, digits) *)
Fixpoint inc_digits (l : list N) : bool * list N :=
  match l with
  | [] => (true, [])
  | d :: t => let '(c, t') := inc_digits t in
              if c then (if (d =? 9)%N then (true, 0%N :: t') else (false, (d + 1)%N :: t'))
              else (false, d :: t')
  end.

Definition dec_round_up (d : dec) (n : nat) : dec :=
  if Nat.leb (length (dm d)) n then d else
  let '(c, ds) := inc_digits (firstn n (dm d)) in
  if c then {| dm := [1%N]; dexp := dexp d + 1 |}
  else dec_trim {| dm := ds; dexp := dexp d |}.

Definition dec_round (d : dec) (n : Z) : dec :=
  if (n <? 0) then d else
  let n' := Z.to_nat n in
  if Nat.leb (length (dm d)) n' then d
  else if should_round_up d n' then dec_round_up d n' else dec_round_down d n'.

(* roundShortest: sig has at most prec bits; pad to exactly prec+1 bits (lsb = half ulp) *)
Fixpoint shortest_loop (fuel : nat) (i : nat) (d lower upper : dec) (inclusive : bool) : dec :=
  match fuel with
  | O => d
  | S f =>
    if Nat.leb (length (dm d)) i then d else
    let m := dec_at d i in
    let l := dec_at lower i in
    let u := dec_at upper i in
    let okdown := orb (negb (l =? m)%N) (andb inclusive (Nat.eqb (S i) (length (dm lower)))) in
    let okup := andb (negb (m =? u)%N)
                     (orb inclusive (orb (m + 1 <? u)%N (Nat.ltb (S i) (length (dm upper))))) in
    if andb okdown okup then dec_round d (Z.of_nat (S i))
    else if okdown then dec_round_down d (S i)
    else if okup then dec_round_up d (S i)
    else shortest_loop f (S i) d lower upper inclusive
  end.

Definition round_shortest (sig : N) (e : Z) (prec : Z) : dec :=
  let d := dec_init sig e in
  match sig with
  | 0%N => d
  | _ =>
    let bl := bitlen sig in
    let s := prec + 1 - bl in      (* shift left by s (s >= 1 since bl <= prec) *)
    let mant := if 0 <=? s then N.shiftl sig (Z.to_N s) else N.shiftr sig (Z.to_N (- s)) in
    let ex := e - s in
    let lower := dec_init (mant - 1)%N ex in
    let upper := dec_init (mant + 1)%N ex in
    let inclusive := negb (N.testbit mant 1) in
    (* Go aligns lower/upper digits with d by index; decimal exps may differ: Go's at(i) indexes mantissa digits directly.
       It relies on lower/upper having the same exp as d or handles via digits; we mimic Go literally. *)
    shortest_loop (S (length (dm d))) 0 d lower upper inclusive
  end.

(* formatting *)
Definition digit_char (d : N) : N := (48 + d)%N.
Fixpoint repeat0 (n : nat) : list N := match n with O => [] | S k => 48%N :: repeat0 k end.

(* fmtF: %f with prec digits after the point *)
Definition fmt_f (d : dec) (prec : Z) : list N :=
  let m := dm d in
  let ip :=
    if 0 <? dexp d then
      let n := Z.to_nat (dexp d) in
      map digit_char (firstn n m) ++ repeat0 (n - length m)
    else [48%N] in
  if 0 <? prec then
    let fracdigit (i : Z) : N :=   (* digit at position dexp + i, i from 0 *)
      let idx := dexp d + i in
      if idx <? 0 then 48%N else digit_char (nth (Z.to_nat idx) m 0%N) in
    ip ++ [46%N] ++ map (fun i => fracdigit (Z.of_nat i)) (seq 0 (Z.to_nat prec))
  else ip.

Fixpoint nat_digits (fuel : nat) (n : N) (acc : list N) : list N :=
  match fuel with O => acc | S f =>
    let '(q, r) := divmod10 n in
    match q with 0%N => digit_char r :: acc | _ => nat_digits f q (digit_char r :: acc) end end.

(* fmtE with prec digits after the point *)
Definition fmt_e (d : dec) (prec : Z) : list N :=
  let m := dm d in
  let ch1 := match m with [] => 48%N | a :: _ => digit_char a end in
  let frac :=
    if 0 <? prec then
      let have := tl m in
      let n := Z.to_nat prec in
      [46%N] ++ map digit_char (firstn n have) ++ repeat0 (n - length have)
    else [] in
  let ex := match m with [] => 0 | _ => dexp d - 1 end in
  let sgn := if ex <? 0 then 45%N else 43%N in
  let ea := Z.to_N (Z.abs ex) in
  let eds := nat_digits 40 ea [] in
  let eds := match eds with [_] => 48%N :: eds | _ => eds end in
  [ch1] ++ frac ++ [101%N; sgn] ++ eds.

Definition text_f_shortest (x : bf) : list N :=
  match x with
  | BInf n _ => if n then [45;73;110;102]%N else [43;73;110;102]%N
  | BFin n sig e prec =>
    let d := round_shortest sig e prec in
    let p := Z.max (Z.of_nat (length (dm d)) - dexp d) 0 in
    (if n then [45%N] else []) ++ fmt_f d p
  end.

(* Text('f', k) with k = MinPrec - MantExp (at least 0): the exact decimal expansion *)
Definition text_f_exact (x : bf) : list N :=
  match x with
  | BInf n _ => if n then [45;73;110;102]%N else [43;73;110;102]%N
  | BFin n sig e prec =>
    let d := dec_init sig e in
    let p := Z.max (Z.of_nat (length (dm d)) - dexp d) 0 in
    (if n then [45%N] else []) ++ fmt_f d p
  end.

Definition text_g10 (x : bf) : list N :=
  match x with
  | BInf n _ => if n then [45;73;110;102]%N else [43;73;110;102]%N
  | BFin n sig e _ =>
    let d := dec_round (dec_init sig e) 10 in
    let prec := 10 in
    let len := Z.of_nat (length (dm d)) in
    let eprec := if andb (len <? prec) (dexp d <=? len) then len else prec in
    let ex := dexp d - 1 in
    (if n then [45%N] else []) ++
    (if orb (ex <? -4) (eprec <=? ex) then
       let prec' := if len <? prec then len else prec in
       fmt_e d (prec' - 1)
     else
       let prec' := if dexp d <? prec then len else prec in
       fmt_f d (Z.max (prec' - dexp d) 0))
  end.

(* ---------- ParseFloat(s, 10, prec, ToNearestEven) numeric core ---------- *)
Definition pow5tab_max : Z := 27.

Fixpoint pow5_loop (fuel : nat) (n : N) (z f : bf) (zp fp : Z) : bf :=
  match fuel with
  | O => z
  | S k =>
    match n with
    | 0%N => z
    | _ =>
      let z' := if N.odd n then match bf_mul_prec z f zp with Some r => r | None => z end else z in
      let f' := match bf_mul_prec f f fp with Some r => r | None => f end in
      pow5_loop k (N.div2 n) z' f' zp fp
    end
  end.

Definition bf_pow5 (n : Z) (zp : Z) : bf :=
  if n <=? pow5tab_max then BFin false (pow5 n) 0 zp
  else
    let z := BFin false (pow5 pow5tab_max) 0 zp in
    let f := BFin false 5 0 (zp + 64) in
    pow5_loop 70 (Z.to_N (n - pow5tab_max)) z f zp (zp + 64).

(* mant: integer of all mantissa digits; fcount <= 0: minus number of fractional digits; exp with base ebase (10 or 2; 0 if none) *)
Definition with_prec (x : bf) (p : Z) : bf :=
  match x with BInf n _ => BInf n p | BFin n s e _ => BFin n s e p end.
Definition bf_quo_prec (x y : bf) (p : Z) : option bf :=
  match bf_quo (with_prec x p) (with_prec y 0) with
  | Some r => Some (with_prec r p)
  | None => None
  end.

Definition bf_parse_core (neg : bool) (mant : N) (fcount : Z) (exp : Z) (ebase : Z) (prec : Z) : bf :=
  match mant with
  | 0%N => BFin neg 0 0 prec
  | _ =>
    let exp5 := (if fcount <? 0 then fcount else 0) + (if ebase =? 10 then exp else 0) in
    let exp2 := (if fcount <? 0 then fcount else 0) + (if orb (ebase =? 10) (ebase =? 2) then exp else 0) in
    if exp5 =? 0 then mk neg mant false exp2 prec
    else
      let z0 := BFin neg mant exp2 prec in      (* NOT rounded yet, as in Go >= 1.2x *)
      let p := bf_pow5 (Z.abs exp5) (prec + 64) in
      if exp5 <? 0 then match bf_quo_prec z0 p prec with Some r => r | None => z0 end
      else match bf_mul_prec z0 p prec with Some r => r | None => z0 end
  end.

(* ================= extension: remaining big.Float API used by go-cty ================= *)

Definition max_exp : Z := 2147483647.
Definition min_exp : Z := -2147483648.

(* exponent-range aware constructor (big.Float exponent is int32 for 0.5 <= m < 1) *)
Definition mk_range (neg : bool) (sig : N) (sticky : bool) (e : Z) (prec : Z) : bf :=
  match sig with
  | 0%N => BFin neg 0 0 prec
  | _ =>
    let '(s, e', _) := round_sig sig sticky e prec in
    let x := e' + bitlen s in
    if max_exp <? x then BInf neg prec
    else if x <? min_exp then BFin neg 0 0 prec
    else BFin neg s e' prec
  end.

Definition acc_signed (neg : bool) (a : acc) : acc :=
  if neg then match a with Below => Above | Above => Below | Exact => Exact end else a.

(* magnitude comparison of finite values *)
Definition mag_cmp (s1 : N) (e1 : Z) (s2 : N) (e2 : Z) : comparison :=
  let '(a, b, _) := align s1 e1 s2 e2 in N.compare a b.

Definition bf_cmp (x y : bf) : comparison :=
  match x, y with
  | BInf nx _, BInf ny _ => if Bool.eqb nx ny then Eq else if nx then Lt else Gt
  | BInf nx _, _ => if nx then Lt else Gt
  | _, BInf ny _ => if ny then Gt else Lt
  | BFin nx sx ex _, BFin ny sy ey _ =>
      match sx, sy with
      | 0%N, 0%N => Eq
      | 0%N, _ => if ny then Gt else Lt
      | _, 0%N => if nx then Lt else Gt
      | _, _ =>
        if Bool.eqb nx ny then
          (if nx then CompOpp (mag_cmp sx ex sy ey) else mag_cmp sx ex sy ey)
        else if nx then Lt else Gt
      end
  end.

Definition bf_sign (x : bf) : Z :=
  match x with
  | BInf n _ => if n then -1 else 1
  | BFin _ 0%N _ _ => 0
  | BFin n _ _ _ => if n then -1 else 1
  end.

Definition bf_is_inf (x : bf) := match x with BInf _ _ => true | _ => false end.

(* integer test on the value (canonical odd significand) *)
Definition bf_is_int (x : bf) : bool :=
  match x with
  | BInf _ _ => false
  | BFin _ sig e _ => let '(_, e') := canon sig e in match sig with 0%N => true | _ => 0 <=? e' end
  end.

(* Int(nil): truncation toward zero; None for infinities *)
Definition bf_int (x : bf) : option Z * acc :=
  match x with
  | BInf n _ => (None, if n then Above else Below)
  | BFin n sig e _ =>
      match sig with
      | 0%N => (Some 0, Exact)
      | _ =>
        if 0 <=? e then (Some ((if n then -1 else 1) * Z.of_N (N.shiftl sig (Z.to_N e))), Exact)
        else
          let t := N.shiftr sig (Z.to_N (- e)) in
          let exact := (N.shiftl t (Z.to_N (- e)) =? sig)%N in
          (Some ((if n then -1 else 1) * Z.of_N t), if exact then Exact else if n then Above else Below)
      end
  end.

Definition int64_min : Z := -9223372036854775808.
Definition int64_max : Z := 9223372036854775807.
Definition uint64_max : Z := 18446744073709551615.

Definition bf_int64 (x : bf) : Z * acc :=
  match bf_int x with
  | (None, _) => match x with BInf true _ => (int64_min, Above) | _ => (int64_max, Below) end
  | (Some t, a) =>
      if t <? int64_min then (int64_min, Above)
      else if int64_max <? t then (int64_max, Below)
      else (t, a)
  end.



Definition bf_min_prec (x : bf) : Z :=
  match x with
  | BInf _ _ => 0
  | BFin _ sig e _ => let '(s, _) := canon sig e in bitlen s
  end.

(* bug-compatible with go1.23..1.26: Float.Uint64 tests `x.MinPrec() <= 64` instead of `<= x.exp`,
   so a truncated non-integer whose mantissa needs at most 64 bits is reported Exact *)
Definition bf_uint64 (x : bf) : Z * acc :=
  match x with
  | BInf true _ => (0, Above)
  | BInf false _ => (uint64_max, Below)
  | BFin _ 0%N _ _ => (0, Exact)
  | BFin true _ _ _ => (0, Above)
  | BFin false sig e _ =>
      let xexp := e + bitlen sig in              (* big.Float exponent, 0.5 <= m < 1 *)
      if xexp <=? 0 then (0, Below)
      else if xexp <=? 64 then
        let t := match bf_int x with (Some t, _) => t | _ => 0 end in
        (t, if bf_min_prec x <=? 64 then Exact else Below)
      else (uint64_max, Below)
  end.

Definition bf_set_prec (x : bf) (p : Z) : bf :=   (* SetPrec for p > 0 *)
  match x with
  | BInf n _ => BInf n p
  | BFin n sig e _ => mk_range n sig false e p
  end.

(* Float64(): result as an exact dyadic (or Inf / signed zero) plus accuracy *)
Definition f64_of (x : bf) : bf * acc :=
  match x with
  | BInf n _ => (BInf n 53, Exact)
  | BFin n 0%N _ _ => (BFin n 0 0 53, Exact)
  | BFin n sig e _ =>
      let ex := e + bitlen sig - 1 in          (* exponent of 1.xxx form *)
      let emin := -1022 in let emax := 1023 in
      let p := if ex <? emin then 53 + (ex - emin) else 53 in
      if (p <? 0) then (BFin n 0 0 53, if n then Above else Below)
      else if (p =? 0) then
        (* value in [0.5, 1) of the smallest denormal *)
        let '(s, _) := canon sig e in
        if (s =? 1)%N then (BFin n 0 0 53, if n then Above else Below)
        else (BFin n 1 (-1074) 53, if n then Below else Above)
      else
        let '(s, e', a) := round_sig sig false e p in
        let ex' := e' + bitlen s - 1 in
        if emax <? ex' then (BInf n 53, if n then Below else Above)
        else (BFin n s e' 53, acc_signed n a)
  end.

(* ---------- string scanner for ParseFloat(s, 10, prec, ToNearestEven) ---------- *)
Definition is_digit (c : N) : bool := ((48 <=? c) && (c <=? 57))%N.

(* scan mantissa: returns (value, total digit count, position of point or -1, rest) *)
Fixpoint scan_mant (s : list N) (acc : N) (count : Z) (dp : Z) (frac_ok : bool) : N * Z * Z * list N :=
  match s with
  | [] => (acc, count, dp, [])
  | c :: s' =>
      if andb (c =? 46)%N frac_ok then scan_mant s' acc count count false
      else if is_digit c then scan_mant s' (acc * 10 + (c - 48))%N (count + 1) dp frac_ok
      else (acc, count, dp, s)
  end.

Fixpoint scan_digits (s : list N) (acc : Z) (n : nat) : Z * nat * list N :=
  match s with
  | c :: s' => if is_digit c then scan_digits s' (acc * 10 + Z.of_N (c - 48)%N) (S n) else (acc, n, s)
  | [] => (acc, n, [])
  end.

Inductive parse_res := PErr | POk (x : bf).

Definition bytes_eqb (a b : list N) : bool :=
  (fix go (a b : list N) := match a, b with [], [] => true | x :: a', y :: b' => (x =? y)%N && go a' b' | _, _ => false end) a b.

Definition bf_parse (s : list N) (prec : Z) : parse_res :=
  let inf1 := [73;110;102]%N in let inf2 := [105;110;102]%N in
  if bytes_eqb s inf1 || bytes_eqb s inf2 then POk (BInf false prec)
  else match s with
  | c :: rest =>
      if andb (orb (c =? 43)%N (c =? 45)%N) (andb (Nat.eqb (length rest) 3) (orb (bytes_eqb rest inf1) (bytes_eqb rest inf2)))
      then POk (BInf (c =? 45)%N prec)
      else
        let '(neg, body) := if (c =? 45)%N then (true, rest) else if (c =? 43)%N then (false, rest) else (false, s) in
        let '(mant, count, dp, r1) := scan_mant body 0%N 0 (-1) true in
        if count =? 0 then PErr else
        let fcount := if 0 <=? dp then dp - count else 0 in
        (* exponent *)
        let exp_part :=
          match r1 with
          | ec :: r2 =>
              if orb (orb (ec =? 101)%N (ec =? 69)%N) (orb (ec =? 112)%N (ec =? 80)%N) then
                let ebase := if orb (ec =? 101)%N (ec =? 69)%N then 10 else 2 in
                let '(eneg, r3) := match r2 with
                                   | sc :: r3' => if (sc =? 45)%N then (true, r3') else if (sc =? 43)%N then (false, r3') else (false, r2)
                                   | [] => (false, r2) end in
                let '(ev, n, r4) := scan_digits r3 0 O in
                match n with
                | O => None
                | _ => if 9223372036854775807 <? ev then None (* ParseInt overflow (approx.) *)
                       else Some ((if eneg then - ev else ev), ebase, r4)
                end
              else Some (0, 10, r1)
          | [] => Some (0, 10, [])
          end in
        match exp_part with
        | None => PErr
        | Some (ev, ebase, rest') =>
            match rest' with
            | _ :: _ => PErr
            | [] =>
              match mant with
              | 0%N => POk (BFin neg 0 0 prec)
              | _ =>
                (* exponent overflow check on exp2 = bitlen + fcount(+exp) *)
                let exp2 := bitlen mant + (if fcount <? 0 then fcount else 0) + ev in
                if orb (exp2 <? min_exp) (max_exp <? exp2) then PErr
                else POk (bf_parse_core neg mant fcount ev ebase prec)
              end
            end
        end
  | [] => PErr
  end.

(* ================= wrappers and constructors used by the cty model ================= *)

Definition bf_sub (x y : bf) : option bf := bf_add x (bf_neg y).

Definition bf_abs (x : bf) : bf :=
  match x with BInf _ p => BInf false p | BFin _ s e p => BFin false s e p end.

(* SetInt64 / SetUint64 on a fresh Float: precision 64, exact *)
Definition bf_of_int (z : Z) : bf := BFin (z <? 0) (Z.to_N (Z.abs z)) 0 64.
(* SetFloat64: precision 53, the float64 given as an exact dyadic *)
Definition bf_of_f64 (neg : bool) (sig : N) (e : Z) : bf := BFin neg sig e 53.

(* z.SetInt(i) where z currently has precision p *)
Definition bf_set_int (p : Z) (i : Z) : bf :=
  let a := Z.to_N (Z.abs i) in
  let p' := if p =? 0 then Z.max (bitlen a) 64 else p in
  match a with
  | 0%N => BFin false 0 0 p'
  | _ => mk_range (i <? 0) a false 0 p'
  end.

(* SetPrec including the prec = 0 case *)
Definition bf_set_prec0 (x : bf) (p : Z) : bf :=
  if p =? 0 then match x with BInf n _ => BInf n 0 | BFin n _ _ _ => BFin n 0 0 0 end
  else bf_set_prec x p.

(* Mul into a destination of precision 0 (= max of the operands' precisions) *)
Definition bf_mul (x y : bf) : option bf := bf_mul_prec x y (Z.max (bf_prec x) (bf_prec y)).

(* observables *)
Definition bf_neg_sign (x : bf) : bool := match x with BInf n _ => n | BFin n _ _ _ => n end.

(* exact structural comparison up to the representation of the significand:
   sign, odd significand, exponent, precision; signed zeros distinguished *)
Definition bf_eqb (x y : bf) : bool :=
  match x, y with
  | BInf n1 p1, BInf n2 p2 => Bool.eqb n1 n2 && (p1 =? p2)
  | BFin n1 s1 e1 p1, BFin n2 s2 e2 p2 =>
      let '(c1, k1) := canon s1 e1 in let '(c2, k2) := canon s2 e2 in
      Bool.eqb n1 n2 && (c1 =? c2)%N && (k1 =? k2) && (p1 =? p2)
  | _, _ => false
  end.

(* numeric equality (Cmp = 0) *)
Definition bf_numeq (x y : bf) : bool := match bf_cmp x y with Eq => true | _ => false end.
Definition bf_ltb (x y : bf) : bool := match bf_cmp x y with Lt => true | _ => false end.
Definition bf_leb (x y : bf) : bool := match bf_cmp x y with Gt => false | _ => true end.

Definition acc_eqb (a b : acc) : bool :=
  match a, b with Below, Below | Exact, Exact | Above, Above => true | _, _ => false end.

Definition bf_zero53 : bf := BFin false 0 0 53.   (* cty.Zero = big.NewFloat(0): precision 53 *)
Definition bf_pinf0 : bf := BInf false 0.
Definition bf_ninf0 : bf := BInf true 0.
