(* Func.v — the function-call protocol (cty/function/function.go): returnTypeForValues,
   ReturnType, ReturnTypeForValues, Call, with a trace of the callback invocations.
   Callbacks are arbitrary Gallina functions with outcomes Ok / Err / Panic. *)
From Cty Require Import Base Ty BigFloat Value Hash Ops Refine.
Open Scope Z_scope.

Record param := { p_ty : ty; p_null : bool; p_unk : bool; p_dyn : bool; p_marked : bool }.

Record spec := {
  s_params : list param;
  s_var : option param;
  s_type : list value -> res ty;             (* Spec.Type   (Panic = the callback panics) *)
  s_impl : list value -> ty -> res value;    (* Spec.Impl *)
  s_refine : option (list rcall)             (* Spec.RefineResult as builder calls *)
}.

Inductive event :=
| EvType (args : list value) (r : res ty)
| EvImpl (args : list value) (t : ty) (r : res value).

(* the parameter that governs argument number i *)
Definition param_at (sp : spec) (i : nat) : option param :=
  match nth_error (s_params sp) i with
  | Some p => Some p
  | None => s_var sp
  end.

(* the argument as the callbacks see it: deeply unmarked unless the parameter allows marks *)
Definition strip_arg (p : param) (v : value) : value :=
  if p_marked p then v else fst (unmark_deep v).
Definition arg_marks (p : param) (v : value) : list mark :=
  if p_marked p then [] else snd (unmark_deep v).

Fixpoint strip_args (sp : spec) (i : nat) (args : list value) : list value :=
  match args with
  | [] => []
  | v :: args' => (match param_at sp i with Some p => strip_arg p v | None => v end) :: strip_args sp (S i) args'
  end.
Fixpoint collect_marks (sp : spec) (i : nat) (args : list value) : list mark :=
  match args with
  | [] => []
  | v :: args' => marks_union (match param_at sp i with Some p => arg_marks p v | None => [] end) (collect_marks sp (S i) args')
  end.

(* outcome of the per-argument checks of returnTypeForValues *)
Inductive precheck := PcErr (e : errclass) | PcDyn | PcOk.

Fixpoint check_args (sp : spec) (i : nat) (args : list value) : precheck :=
  match args with
  | [] => PcOk
  | v :: args' =>
      match param_at sp i with
      | None => PcOk
      | Some p =>
          if is_null v && negb (p_null p) then PcErr (ArgError (Z.of_nat i))
          else if is_dyn (vty v) then (if negb (p_dyn p) then PcDyn else check_args sp (S i) args')
          else if negb (conforms (vty v) (p_ty p)) then PcErr (ArgError (Z.of_nat i))
          else check_args sp (S i) args'
      end
  end.

Definition arity_ok (sp : spec) (n : nat) : bool :=
  match s_var sp with
  | None => Nat.eqb n (length (s_params sp))
  | Some _ => Nat.leb (length (s_params sp)) n
  end.

(* returnTypeForValues: (type, dynamically-typed-arguments flag) + trace *)
Definition rtfv (sp : spec) (args : list value) : res (ty * bool) * list event :=
  if negb (arity_ok sp (length args)) then (Err OtherError, []) else
  match check_args sp 0 args with
  | PcErr e => (Err e, [])
  | PcDyn => (Ok (TDyn, true), [])
  | PcOk =>
      let sargs := strip_args sp 0 args in
      let r := s_type sp sargs in
      (match r with
       | Ok t => Ok (t, false)
       | Err e => Err e
       | Panic => Err PanicError          (* recovered *)
       | OutOfFuel => OutOfFuel
       end, [EvType sargs r])
  end.

Definition return_type_for_values (sp : spec) (args : list value) : res ty := rmap fst (fst (rtfv sp args)).
Definition return_type (sp : spec) (tys : list ty) : res ty := return_type_for_values sp (map v_unknown tys).

(* does some argument force the unknown short-circuit? *)
Fixpoint any_unknown (sp : spec) (i : nat) (args : list value) : bool :=
  match args with
  | [] => false
  | v :: args' => (match param_at sp i with Some p => negb (is_known v) && negb (p_unk p) | None => false end) || any_unknown sp (S i) args'
  end.

(* the deferred application of RefineResult (a panic there is reported as PanicError: fix: commit 2a72235) *)
Definition apply_refine (sp : spec) (registered : bool) (r : res value) : res value :=
  match r, s_refine sp with
  | Ok v, Some cs =>
      if registered && (is_known v || negb (is_dyn (vty v))) then
        match rb_run (fun s => s) v cs with
        | Panic => Err PanicError
        | r' => r'
        end
      else r
  | _, _ => r
  end.

Definition call (sp : spec) (args : list value) : res value * list event :=
  let '(rt, tr) := rtfv sp args in
  match rt with
  | Ok (expected, dyn) =>
      let registered := negb dyn in
      let marks := collect_marks sp 0 args in
      if dyn || any_unknown sp 0 args then
        (apply_refine sp registered (Ok (with_marks (v_unknown expected) marks)), tr)
      else
        let sargs := strip_args sp 0 args in
        let r := s_impl sp sargs expected in
        let out :=
          match r with
          | Ok rv =>
              let rv' := with_marks rv marks in
              if conforms (vty rv') expected then Ok rv' else Err PanicError
          | Err e => Err e
          | Panic => Err PanicError
          | OutOfFuel => OutOfFuel
          end in
        (apply_refine sp registered out, tr ++ [EvImpl sargs expected r])
  | Err e => (Err e, tr)
  | Panic => (Panic, tr)
  | OutOfFuel => (OutOfFuel, tr)
  end.

(* ---------- the declared contract of one argument ---------- *)
Definition meets_contract (p : param) (v : value) : bool :=
  (is_dyn (vty v) || conforms (vty v) (p_ty p)) &&    (* a dynamically-typed value, where allowed, is exempt *)
  (p_null p || negb (is_null v)) &&
  (p_unk p || is_known v) &&
  (p_dyn p || negb (is_dyn (vty v))) &&
  (p_marked p || negb (contains_marked v)).

Fixpoint all_meet (sp : spec) (i : nat) (args : list value) : bool :=
  match args with
  | [] => true
  | v :: args' => (match param_at sp i with Some p => meets_contract p v | None => false end) && all_meet sp (S i) args'
  end.
