(* SetOps.v — cty.ValueSet as a register machine over the set model of Ops.v
   (cty/set_helper.go, cty/set/ops.go): histories of NewValueSet / Add / Remove / Has / Copy /
   Length / Values / Union / Intersection / Subtract / SymmetricDifference / SetValFromValueSet. *)
From Cty Require Import Base Ty BigFloat Value Hash Ops Refine.
Open Scope Z_scope.

Definition add_all (e : ty) (l : list payload) (bs : buckets) : res buckets :=
  fold_left (fun acc p => do b <- acc; set_add e b p) l (Ok bs).

Definition filter_res (f : payload -> res bool) (l : list payload) : res (list payload) :=
  fold_right (fun p acc => do t <- acc; do b <- f p; Ok (if b then p :: t else t)) (Ok []) l.

Definition set_union (e : ty) (s1 s2 : buckets) : res buckets :=
  do l1 <- set_values e s1; do l2 <- set_values e s2;
  do r <- add_all e l1 []; add_all e l2 r.
Definition set_inter (e : ty) (s1 s2 : buckets) : res buckets :=
  do l1 <- set_values e s1;
  do keep <- filter_res (fun p => set_has e s2 p) l1; add_all e keep [].
Definition set_subtract (e : ty) (s1 s2 : buckets) : res buckets :=
  do l1 <- set_values e s1;
  do keep <- filter_res (fun p => do h <- set_has e s2 p; Ok (negb h)) l1; add_all e keep [].
Definition set_symdiff (e : ty) (s1 s2 : buckets) : res buckets :=
  do l1 <- set_values e s1; do l2 <- set_values e s2;
  do k1 <- filter_res (fun p => do h <- set_has e s2 p; Ok (negb h)) l1;
  do k2 <- filter_res (fun p => do h <- set_has e s1 p; Ok (negb h)) l2;
  do r <- add_all e k1 []; add_all e k2 r.

Inductive setop :=
| SNew                              (* push an empty set *)
| SAdd (i : nat) (v : value) | SRemove (i : nat) (v : value) | SHas (i : nat) (v : value)
| SCopy (i : nat)                   (* push a copy of register i *)
| SUnion (i j : nat) | SInter (i j : nat) | SSub (i j : nat) | SSym (i j : nat)   (* push the result *)
| SValues (i : nat) | SLen (i : nat)
| SToVal (i : nat)                  (* SetValFromValueSet, then the value's members in iteration order *)
| SFromList (vs : list value).      (* push SetVal(vs).AsValueSet() — marks not involved *)

Inductive setobs := ObsNone | ObsBool (b : bool) | ObsLen (n : Z) | ObsVals (l : list payload) | ObsPanic.

(* requireElementType: marked values and values of another type panic *)
Definition elem_ok (e : ty) (v : value) : bool := negb (is_marked v) && ty_equals (vty v) e.

Definition reg (st : list buckets) (i : nat) : buckets := nth i st [].

Definition set_step (e : ty) (st : list buckets) (o : setop) : res (list buckets * setobs) :=
  let upd (i : nat) (b : buckets) := firstn i st ++ b :: skipn (S i) st in
  match o with
  | SNew => Ok (st ++ [[]], ObsNone)
  | SAdd i v => if elem_ok e v then do b <- set_add e (reg st i) (vp v); Ok (upd i b, ObsNone) else Panic
  | SRemove i v => if elem_ok e v then do b <- set_remove e (reg st i) (vp v); Ok (upd i b, ObsNone) else Panic
  | SHas i v => if elem_ok e v then do h <- set_has e (reg st i) (vp v); Ok (st, ObsBool h) else Panic
  | SCopy i => Ok (st ++ [reg st i], ObsNone)
  | SUnion i j => do b <- set_union e (reg st i) (reg st j); Ok (st ++ [b], ObsNone)
  | SInter i j => do b <- set_inter e (reg st i) (reg st j); Ok (st ++ [b], ObsNone)
  | SSub i j => do b <- set_subtract e (reg st i) (reg st j); Ok (st ++ [b], ObsNone)
  | SSym i j => do b <- set_symdiff e (reg st i) (reg st j); Ok (st ++ [b], ObsNone)
  | SValues i => do l <- set_values e (reg st i); Ok (st, ObsVals l)
  | SLen i => Ok (st, ObsLen (set_store_len (reg st i)))
  | SToVal i => do l <- set_values e (reg st i); Ok (st, ObsVals l)
  | SFromList vs =>
      match vs with
      | [] => Ok (st ++ [[]], ObsNone)
      | _ => do b <- set_from_list e (map vp vs); Ok (st ++ [b], ObsNone)
      end
  end.

(* a panicking step leaves the state unchanged and is observed as ObsPanic *)
Fixpoint set_run (e : ty) (st : list buckets) (ops : list setop) : res (list buckets * list setobs) :=
  match ops with
  | [] => Ok (st, [])
  | o :: ops' =>
      match set_step e st o with
      | Ok (st', ob) => do r <- set_run e st' ops'; Ok (fst r, ob :: snd r)
      | Panic => do r <- set_run e st ops'; Ok (fst r, ObsPanic :: snd r)
      | Err x => Err x
      | OutOfFuel => OutOfFuel
      end
  end.

Definition plist_eqb := list_eqb payload_eqb.
Definition setobs_eqb (a b : setobs) : bool :=
  match a, b with
  | ObsNone, ObsNone | ObsPanic, ObsPanic => true
  | ObsBool x, ObsBool y => Bool.eqb x y
  | ObsLen x, ObsLen y => x =? y
  | ObsVals x, ObsVals y => plist_eqb x y
  | _, _ => false
  end.
Definition buckets_eqb (a b : buckets) : bool := payload_eqb (PSet a) (PSet b).

