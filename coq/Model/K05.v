(* K05.v — correspondence cases for C05. *)
From Cty Require Import Base Ty BigFloat Value Hash Ops Refine SafePrefix.
From Cty Require Import Consts.
Open Scope Z_scope.

Inductive k05 :=
| K05_run (v : value) (cs : list rcall) (obs : res value)             (* v.Refine()...NewValue() *)
| K05_includes (v : value) (c : value) (obs : res value)              (* v.Range().Includes(c) *)
| K05_bounds (v : value) (lo hi : res (value * bool))                 (* NumberLowerBound / UpperBound of v.Range() *)
| K05_len (v : value) (lo hi : res Z)
| K05_prefix (v : value) (obs : res str)
| K05_safe (norm : list (str * str)) (lb : list (str * Z)) (cl : list (str * nat)) (p : str) (obs : str).

Definition vb_eqb (a b : value * bool) : bool := value_eqb (fst a) (fst b) && Bool.eqb (snd a) (snd b).

Definition k05_check (k : k05) : bool :=
  match k with
  | K05_run v cs obs => res_eqb value_eqb (rb_run (fun s => s) v cs) obs
  | K05_includes v c obs => res_eqb value_eqb (do r <- range_of v; includes_v r c) obs
  | K05_bounds v lo hi =>
      res_eqb vb_eqb (do r <- range_of v; num_lower r) lo && res_eqb vb_eqb (do r <- range_of v; num_upper r) hi
  | K05_len v lo hi =>
      res_eqb Z.eqb (do r <- range_of v; len_lower r) lo && res_eqb Z.eqb (do r <- range_of v; len_upper r) hi
  | K05_prefix v obs => res_eqb str_eqb (do r <- range_of v; str_prefix r) obs
  | K05_safe nt lb cl p obs =>
      str_eqb (safe_known_prefix {| o_norm := tbl_str nt; o_last_boundary := tbl_Z lb (-1); o_scan_cluster := tbl_nat cl |}
                                 safe_delims p) obs
  end.
