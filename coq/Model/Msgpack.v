(* Msgpack.v — cty/msgpack Marshal / Unmarshal at the item-tree level (the byte-level codec is
   vmihailenco/msgpack's).  Unknown values travel as an extension item carrying a refinement map. *)
From Cty Require Import Base Ty BigFloat Value Hash Ops Refine Json.
Open Scope Z_scope.

Inductive mp :=
| MNil | MBool (b : bool) | MInt (z : Z) | MF64 (x : bf) | MStr (s : str)
| MBin (s : str) (tj : option jv)      (* bin item; [tj] = its content parsed as JSON when it is valid JSON (supplied by the harness) *)
| MArr (l : list mp) | MMap (l : list (mp * mp))
| MUnk (n : Z) (items : list mp)       (* ext item read as an unknown value: entry count of its refinement map and the items that follow
                                          the map header, flat (key, value, key, value ...); n = 0, items = [] is the plain marker *)
| MExt                                 (* ext item longer than one byte with a type code other than 0x0c *)
| MBad                                 (* bytes that are not an item (only at the end of a refinement body) *)
| MNaN.                                (* a float item holding a NaN *)

Fixpoint mp_eqb (a b : mp) {struct a} : bool :=
  match a, b with
  | MNil, MNil => true
  | MBool x, MBool y => Bool.eqb x y
  | MInt x, MInt y => x =? y
  | MF64 x, MF64 y => bf_eqb x y
  | MStr x, MStr y => str_eqb x y
  | MBin x (Some tx), MBin y (Some ty) => jv_eqb tx ty       (* type descriptions are compared as JSON, not as bytes *)
  | MBin x None, MBin y None => str_eqb x y
  | MArr l1, MArr l2 =>
      (fix go (l1 l2 : list mp) : bool :=
         match l1, l2 with [], [] => true | x :: l1', y :: l2' => mp_eqb x y && go l1' l2' | _, _ => false end) l1 l2
  | MMap l1, MMap l2 =>
      (fix go (l1 l2 : list (mp * mp)) : bool :=
         match l1, l2 with
         | [], [] => true
         | x :: l1', y :: l2' => mp_eqb (fst x) (fst y) && mp_eqb (snd x) (snd y) && go l1' l2'
         | _, _ => false
         end) l1 l2
  | MUnk n1 l1, MUnk n2 l2 =>
      (n1 =? n2) &&
      (fix go (l1 l2 : list mp) : bool :=
         match l1, l2 with [], [] => true | x :: l1', y :: l2' => mp_eqb x y && go l1' l2' | _, _ => false end) l1 l2
  | MExt, MExt => true
  | MBad, MBad => true
  | MNaN, MNaN => true
  | _, _ => false
  end.

(* ---------- what the msgpack library's typed readers accept (vmihailenco/msgpack v5) ---------- *)
Definition wrap64 (z : Z) : Z := if 9223372036854775807 <? z then z - 18446744073709551616 else z.
Definition dec_bool (m : mp) : option bool := match m with MNil => Some false | MBool b => Some b | _ => None end.
Definition dec_int64 (m : mp) : option Z := match m with MNil => Some 0 | MInt z => Some (wrap64 z) | _ => None end.
Definition dec_string (m : mp) : option str :=
  match m with MNil => Some [] | MStr s => Some s | MBin s _ => Some s | _ => None end.

(* utf8.ValidString *)
Definition u8cont (b : N) : bool := ((128 <=? b) && (b <=? 191))%N.
Fixpoint utf8_valid_at (fuel : nat) (s : list N) : bool :=
  match fuel with
  | O => match s with [] => true | _ => false end
  | S f =>
    match s with
    | [] => true
    | b0 :: r =>
      if (b0 <? 128)%N then utf8_valid_at f r
      else if ((194 <=? b0) && (b0 <=? 223))%N then
        match r with b1 :: r' => u8cont b1 && utf8_valid_at f r' | _ => false end
      else if ((224 <=? b0) && (b0 <=? 239))%N then
        match r with
        | b1 :: b2 :: r' =>
            let lo := if (b0 =? 224)%N then 160%N else 128%N in
            let hi := if (b0 =? 237)%N then 159%N else 191%N in
            ((lo <=? b1) && (b1 <=? hi))%N && u8cont b2 && utf8_valid_at f r'
        | _ => false
        end
      else if ((240 <=? b0) && (b0 <=? 244))%N then
        match r with
        | b1 :: b2 :: b3 :: r' =>
            let lo := if (b0 =? 240)%N then 144%N else 128%N in
            let hi := if (b0 =? 244)%N then 143%N else 191%N in
            ((lo <=? b1) && (b1 <=? hi))%N && u8cont b2 && u8cont b3 && utf8_valid_at f r'
        | _ => false
        end
      else false
    end
  end.
Definition utf8_valid (s : str) : bool := utf8_valid_at (length s) s.

(* ---------- numbers ---------- *)
Definition mp_of_number (x : bf) : mp :=
  match x with
  | BInf n _ => MF64 (BInf n 53)
  | _ =>
      let '(iv, a) := bf_int64 x in
      if acc_eqb a Exact then MInt iv
      else let '(f, a2) := f64_of x in
           if acc_eqb a2 Exact && negb (bf_is_int x) then MF64 f
           else MStr (if 512 <=? bf_prec x then text_f_shortest x else text_f_exact x)
  end.

Definition number_of_mp (m : mp) : res value :=
  match m with
  | MInt z => Ok (v_int z)
  | MF64 x => Ok (v_num (match x with BInf n _ => BInf n 53 | BFin n s e _ => BFin n s e 53 end))
  | MStr s | MBin s _ => match bf_parse s 512 with POk x => Ok (v_num x) | PErr => Err OtherError end
  | _ => Err OtherError
  end.

(* ---------- unknown values ---------- *)
Definition k_null := 1. Definition k_prefix := 2. Definition k_nmin := 3. Definition k_nmax := 4.
Definition k_lmin := 5. Definition k_lmax := 6.

(* marshalUnknownValue: from the range accessors.  [trunc] stands for the truncation of prefixes
   longer than 256 bytes (prefix[:255] through SafeKnownPrefix), supplied by the harness *)
Definition mp_of_unknown (trunc : str -> str) (v : value) : res mp :=
  do rg <- range_of v;
  if is_dyn (rty rg) then Ok (MUnk 0 []) else
  let e_null := if definitely_not_null_r rg then [MInt k_null; MBool false] else [] in
  do rest <-
    match rty rg with
    | TNum =>
        do lo <- num_lower rg; do hi <- num_upper rg;
        let enc (b : value * bool) := MArr [match pnum (fst b) with Some x => mp_of_number (fst x) | None => MNil end; MBool (snd b)] in
        let is_id (v : value) (id : numid) := match vp v with PNum _ i => numid_eqb i id | _ => false end in
        Ok ((if is_known (fst lo) && negb (is_id (fst lo) IdNInf) then [MInt k_nmin; enc lo] else []) ++
            (if is_known (fst hi) && negb (is_id (fst hi) IdPInf) then [MInt k_nmax; enc hi] else []))
    | TStr =>
        do p <- str_prefix rg;
        match p with
        | [] => Ok []
        | _ => Ok [MInt k_prefix; MStr (if Nat.ltb 256 (length p) then trunc p else p)]
        end
    | TList _ | TSet _ | TMap _ =>
        do lo <- len_lower rg; do hi <- len_upper rg;
        Ok ((if lo =? 0 then [] else [MInt k_lmin; MInt lo]) ++ (if hi =? max_int then [] else [MInt k_lmax; MInt hi]))
    | _ => Ok []
    end;
  let items := e_null ++ rest in
  Ok (MUnk (Z.of_nat (Nat.div2 (length items))) items).

(* unmarshalUnknownValue: replay the refinement entries through the builder; builder panics are
   decoding errors (fix: commit 385f5b2).  The refinement map is read as a stream: a key the decoder
   does not know is ignored WITHOUT consuming its value, so that value is read as the next key. *)
Definition bound_of_mp (m : mp) : res (value * bool) :=
  match m with
  | MArr [nb; ib] =>
      match nb with
      | MNil | MUnk _ _ | MExt | MBad => Err OtherError
      | _ => match number_of_mp nb with
             | Ok bound => match ib with
                           | MBool inc => Ok (bound, inc)
                           | _ => Err OtherError      (* nil, unknown or non-bool *)
                           end
             | _ => Err OtherError
             end
      end
  | _ => Err OtherError
  end.

Fixpoint replay_refs (norm : str -> str) (t : ty) (n : nat) (items : list mp) (b : builder) : res builder :=
  match n with
  | O => Ok b
  | S n' =>
    match items with
    | [] => Err OtherError                         (* end of the extension body *)
    | kitem :: rest =>
      match dec_int64 kitem with
      | None => Err OtherError
      | Some k =>
        if k =? k_null then
          match rest with
          | v :: rest' => match dec_bool v with
                          | Some true => do b' <- rb_null b; replay_refs norm t n' rest' b'
                          | Some false => do b' <- rb_not_null b; replay_refs norm t n' rest' b'
                          | None => Err OtherError
                          end
          | [] => Err OtherError
          end
        else if k =? k_prefix then
          match t, rest with
          | TStr, v :: rest' => match dec_string v with
                                | Some s => if utf8_valid s then do b' <- rb_prefix_full norm b s; replay_refs norm t n' rest' b'
                                            else Err OtherError
                                | None => Err OtherError
                                end
          | _, _ => Err OtherError
          end
        else if (k =? k_lmin) || (k =? k_lmax) then
          if negb (is_coll t) then Err OtherError else
          match rest with
          | v :: rest' => match dec_int64 v with
                          | Some z => do b' <- (if k =? k_lmin then rb_len_lower b z else rb_len_upper b z); replay_refs norm t n' rest' b'
                          | None => Err OtherError
                          end
          | [] => Err OtherError
          end
        else if (k =? k_nmin) || (k =? k_nmax) then
          match t, rest with
          | TNum, v :: rest' =>
              match bound_of_mp v with
              | Ok (bound, inc) => do b' <- (if k =? k_nmin then rb_num_lower b bound inc else rb_num_upper b bound inc);
                                   replay_refs norm t n' rest' b'
              | _ => Err OtherError
              end
          | _, _ => Err OtherError
          end
        else replay_refs norm t n' rest b          (* unknown key: ignored, its value is NOT skipped *)
      end
    end
  end.

Definition unknown_of_mp (norm : str -> str) (n : Z) (items : list mp) (t : ty) : res value :=
  match items, n with
  | [], 0 => Ok (v_unknown t)
  | _, _ =>
    if is_dyn t then Ok (v_unknown t) else
    match replay_refs norm t (Z.to_nat n) items (refine (v_unknown t)) with
    | Ok b => match rb_new_value b with Panic => Err OtherError | r => r end
    | Panic => Err OtherError
    | r => match r with Err e => Err e | _ => OutOfFuel end
    end
  end.

(* ---------- Marshal ---------- *)
(* one level of the encoder; [rec] encodes the members (the encoder with one unit of fuel less) *)
Definition mp_marshal_step (trunc : str -> str) (rec : value -> ty -> res mp) (v : value) (t : ty) : res mp :=
    if is_marked v then Err OtherError else
    if is_dyn t && negb (is_dyn (vty v)) then
      match type_to_json (vty v) with
      | Ok tj => match rec v (vty v) with
                 | Ok m => Ok (MArr [MBin [] (Some tj); m])
                 | r => r
                 end
      | _ => Err OtherError
      end
    else if negb (is_known v) then mp_of_unknown trunc v
    else if is_null v then Ok MNil else
    match t, vp v with
    | TStr, PStr s => Ok (MStr s)
    | TNum, PNum x _ => Ok (mp_of_number x)
    | TBool, PBool b => Ok (MBool b)
    | TList e, PSeq l =>
        let ev := match vty v with TList ev => ev | _ => e end in
        do ms <- (fix go (l : list payload) : res (list mp) :=
                    match l with [] => Ok [] | x :: l' => do m <- rec (V ev x) e; do r <- go l'; Ok (m :: r) end) l;
        Ok (MArr ms)
    | TSet e, PSet bs =>
        let ev := match vty v with TSet ev => ev | _ => e end in
        do l <- set_values ev bs;
        do ms <- (fix go (l : list payload) : res (list mp) :=
                    match l with [] => Ok [] | x :: l' => do m <- rec (V ev x) e; do r <- go l'; Ok (m :: r) end) l;
        Ok (MArr ms)
    | TMap e, PMap m =>
        let ev := match vty v with TMap ev => ev | _ => e end in
        do kvs <- (fix go (l : list (str * payload)) : res (list (mp * mp)) :=
                     match l with [] => Ok [] | kv :: l' => do x <- rec (V ev (snd kv)) e; do r <- go l'; Ok ((MStr (fst kv), x) :: r) end) m;
        Ok (MMap kvs)
    | TTuple es, PSeq l =>
        let evs := match vty v with TTuple evs => evs | _ => [] end in
        do ms <- (fix go (ts tvs : list ty) (l : list payload) : res (list mp) :=
                    match ts, tvs, l with
                    | te :: ts', tv :: tvs', x :: l' => do m <- rec (V tv x) te; do r <- go ts' tvs' l'; Ok (m :: r)
                    | _, _, [] => Ok []
                    | _, _, _ => Panic
                    end) es evs l;
        Ok (MArr ms)
    | TObj attrs _, PMap m =>
        let avs := match vty v with TObj avs _ => avs | _ => [] end in
        do kvs <- (fix go (l : list (str * ty)) : res (list (mp * mp)) :=
                     match l with
                     | [] => Ok []
                     | kt :: l' =>
                         match lookup (fst kt) avs, lookup (fst kt) m with
                         | Some tv, Some x => do y <- rec (V tv x) (snd kt); do r <- go l'; Ok ((MStr (fst kt), y) :: r)
                         | _, _ => Panic
                         end
                     end) attrs;
        Ok (MMap kvs)
    | TCap _, _ => Err OtherError
    | _, _ => Panic
    end.
Fixpoint mp_marshal_at (trunc : str -> str) (fuel : nat) : value -> ty -> res mp :=
  match fuel with
  | O => fun _ _ => OutOfFuel
  | S f => mp_marshal_step trunc (mp_marshal_at trunc f)
  end.
Definition mp_marshal (trunc : str -> str) (v : value) (t : ty) : res mp :=
  mp_marshal_at trunc (S (psize (vp v)) + ty_size t + ty_size (vty v)) v t.

(* ---------- Unmarshal ---------- *)
Fixpoint mp_size (m : mp) : nat :=
  match m with
  | MArr l => S (fold_right (fun x n => mp_size x + n)%nat 0%nat l)
  | MMap l => S ((fix go (l : list (mp * mp)) : nat := match l with [] => 0 | kv :: l' => mp_size (fst kv) + mp_size (snd kv) + go l' end)%nat l)
  | MUnk _ l => S (fold_right (fun x n => mp_size x + n)%nat 0%nat l)
  | _ => 1%nat
  end.

(* one level of the decoder; [rec] decodes the members (the decoder with one unit of fuel less) *)
Definition mp_unmarshal_step (norm : str -> str) (jp : str -> option jv) (rec : mp -> ty -> res value) (m : mp) (t : ty) : res value :=
    match m with
    | MUnk n items => unknown_of_mp norm n items t
    | MExt | MBad => Err OtherError
    | _ =>
      match t with
      | TDyn =>
          match m with
          | MNil => Ok (v_null TDyn)
          | MArr [tyitem; body] =>
              let otj := match tyitem with MBin _ o => o | MStr s => jp s | _ => None end in   (* DecodeBytes takes str and bin; nil gives no bytes *)
              match otj with
              | None => Err OtherError
              | Some tj =>
                match type_of_json norm tj with
                | Ok t' => rec body (strip_opt t')   (* fix: commit bdce01e *)
                | Err _ => Err OtherError
                | r => match r with Panic => Panic | _ => OutOfFuel end
                end
              end
          | _ => Err OtherError
          end
      | _ =>
        match m with
        | MNil => Ok (v_null t)
        | _ =>
          match t with
          | TBool => match m with MBool b => Ok (v_bool b) | _ => Err OtherError end
          | TNum => number_of_mp m
          | TStr => match m with MStr s | MBin s _ => Ok (v_str (norm s)) | _ => Err OtherError end
          | TList e =>
              match m with
              | MArr l =>
                  do vs <- (fix go (l : list mp) : res (list value) :=
                              match l with [] => Ok [] | x :: l' => do v <- rec x e; do r <- go l'; Ok (v :: r) end) l;
                  match vs with [] => Ok (V (TList e) (PSeq [])) | _ => if can_coll vs then list_val vs else Err OtherError end
              | _ => Err OtherError
              end
          | TSet e =>
              match m with
              | MArr l =>
                  do vs <- (fix go (l : list mp) : res (list value) :=
                              match l with [] => Ok [] | x :: l' => do v <- rec x e; do r <- go l'; Ok (v :: r) end) l;
                  match vs with [] => Ok (V (TSet e) (PSet [])) | _ => if can_coll (map (fun v => fst (unmark_deep v)) vs) then set_val vs else Err OtherError end
              | _ => Err OtherError
              end
          | TMap e =>
              match m with
              | MMap l =>
                  do kvs <- (fix go (l : list (mp * mp)) : res (list (str * value)) :=
                               match l with
                               | [] => Ok []
                               | kv :: l' => match dec_string (fst kv) with
                                             | Some k => do v <- rec (snd kv) e; do r <- go l'; Ok ((k, v) :: r)
                                             | None => Err OtherError
                                             end
                               end) l;
                  match kvs with [] => Ok (V (TMap e) (PMap [])) | _ => if can_coll (map snd kvs) then map_val norm kvs else Err OtherError end
              | _ => Err OtherError
              end
          | TTuple es =>
              match m with
              | MArr l =>
                  if negb (Nat.eqb (length l) (length es)) then Err OtherError else
                  do vs <- (fix go (ts : list ty) (l : list mp) : res (list value) :=
                              match l, ts with
                              | x :: l', te :: ts' => do v <- rec x te; do r <- go ts' l'; Ok (v :: r)
                              | _, _ => Ok []
                              end) es l;
                  Ok (tuple_val vs)
              | _ => Err OtherError
              end
          | TObj attrs _ =>
              match m with
              | MMap l =>
                  if negb (Nat.eqb (length l) (length attrs)) then Err OtherError else
                  do kvs <- (fix go (l : list (mp * mp)) : res (list (str * value)) :=
                               match l with
                               | [] => Ok []
                               | kv :: l' =>
                                   match dec_string (fst kv) with
                                   | Some k => match lookup k attrs with
                                               | None => Err OtherError
                                               | Some ta => do v <- rec (snd kv) ta; do r <- go l'; Ok ((k, v) :: r)
                                               end
                                   | None => Err OtherError
                                   end
                               end) l;
                  let given := fold_left (fun acc kv => kv_insert (fst kv) (snd kv) acc) kvs [] in
                  if negb (Nat.eqb (length given) (length attrs)) then Err OtherError   (* repeated attribute: fix commit ed6fde9 *)
                  else Ok (object_val norm given)
              | _ => Err OtherError
              end
          | _ => Err OtherError
          end
        end
      end
    end.
Fixpoint mp_unmarshal_at (norm : str -> str) (jp : str -> option jv) (fuel : nat) : mp -> ty -> res value :=
  match fuel with
  | O => fun _ _ => OutOfFuel
  | S f => mp_unmarshal_step norm jp (mp_unmarshal_at norm jp f)
  end.
Definition mp_unmarshal (norm : str -> str) (jp : str -> option jv) (m : mp) (t : ty) : res value :=
  mp_unmarshal_at norm jp (S (mp_size m)) m t.

(* ---------- ImpliedType ---------- *)
Fixpoint mp_implied_at (norm : str -> str) (fuel : nat) (m : mp) : res ty :=
  match fuel with
  | O => OutOfFuel
  | S f =>
    match m with
    | MNil | MUnk _ _ | MExt => Ok TDyn
    | MBool _ => Ok TBool
    | MInt _ | MF64 _ | MNaN => Ok TNum
    | MStr _ => Ok TStr
    | MBin _ _ | MBad => Err OtherError
    | MArr l =>
        do ts <- (fix go (l : list mp) : res (list ty) :=
                    match l with [] => Ok [] | x :: l' => do t <- mp_implied_at norm f x; do r <- go l'; Ok (t :: r) end) l;
        Ok (TTuple ts)
    | MMap l =>
        do kts <- (fix go (l : list (mp * mp)) : res (list (str * ty)) :=
                     match l with
                     | [] => Ok []
                     | kv :: l' => match dec_string (fst kv) with
                                   | Some k => do t <- mp_implied_at norm f (snd kv); do r <- go l'; Ok ((k, t) :: r)
                                   | None => Err OtherError
                                   end
                     end) l;
        Ok (TObj (fold_left (fun acc kt => kv_insert (norm (fst kt)) (snd kt) acc) kts []) [])      (* fix: commit 2db367e (keys normalised as read: the last one in the input wins) *)
    end
  end.
(* the buffer holds exactly one item, else "extra bytes" *)
Definition mp_implied_type (norm : str -> str) (ms : list mp) : res ty :=
  match ms with
  | [m] => mp_implied_at norm (S (mp_size m)) m
  | m :: _ => match mp_implied_at norm (S (mp_size m)) m with Ok _ => Err OtherError | r => r end
  | [] => Err OtherError
  end.

(* ---------- correspondence cases ---------- *)
Inductive k16 :=
| K16_marshal (tr : list (str * str)) (v : value) (t : ty) (obs : res mp)
| K16_unmarshal (tbl : list (str * str)) (jt : list (str * jv)) (m : mp) (t : ty) (obs : res value).
Definition tbl_fn (tbl : list (str * str)) (s : str) : str := match lookup s tbl with Some r => r | None => s end.
Definition k16_check (k : k16) : bool :=
  match k with
  | K16_marshal tr v t obs => res_eqb_anyerr mp_eqb (mp_marshal (tbl_fn tr) v t) obs
  | K16_unmarshal tbl jt m t obs => res_eqb_anyerr value_eqb (mp_unmarshal (tbl_fn tbl) (fun s => lookup s jt) m t) obs
  end.
