(* Msgpack.v — cty/msgpack Marshal / Unmarshal at the item-tree level (the byte-level codec is
   vmihailenco/msgpack's).  Unknown values travel as an extension item carrying a refinement map. *)
From Cty Require Import Base Ty BigFloat Value Hash Ops Refine Json.
Open Scope Z_scope.

Inductive mp :=
| MNil | MBool (b : bool) | MInt (z : Z) | MF64 (x : bf) | MStr (s : str)
| MType (j : jv)                       (* bin item holding a JSON type description *)
| MArr (l : list mp) | MMap (l : list (mp * mp))
| MUnk (refs : list (Z * mp)).         (* ext item; [] = the plain unknown marker *)

Fixpoint mp_eqb (a b : mp) {struct a} : bool :=
  match a, b with
  | MNil, MNil => true
  | MBool x, MBool y => Bool.eqb x y
  | MInt x, MInt y => x =? y
  | MF64 x, MF64 y => bf_eqb x y
  | MStr x, MStr y => str_eqb x y
  | MType x, MType y => jv_eqb x y
  | MArr l1, MArr l2 =>
      (fix go (l1 l2 : list mp) : bool :=
         match l1, l2 with [], [] => true | x :: l1', y :: l2' => mp_eqb x y && go l1' l2' | _, _ => false end) l1 l2
  | MMap l1, MMap l2 =>
      (fix go (l1 l2 : list (mp * mp)) : bool :=
         match l1, l2 with
         | [], [] => true
         | x :: l1', y :: l2' => mp_eqb (fst x) (fst y) && mp_eqb (snd x) (snd y) && go l1' l2'
         | _, _ => false
         end) l1 l2
  | MUnk l1, MUnk l2 =>
      (fix go (l1 l2 : list (Z * mp)) : bool :=
         match l1, l2 with
         | [], [] => true
         | x :: l1', y :: l2' => (fst x =? fst y) && mp_eqb (snd x) (snd y) && go l1' l2'
         | _, _ => false
         end) l1 l2
  | _, _ => false
  end.

(* ---------- numbers ---------- *)
Definition mp_of_number (x : bf) : mp :=
  match x with
  | BInf n _ => MF64 (BInf n 53)
  | _ =>
      let '(iv, a) := bf_int64 x in
      if acc_eqb a Exact then MInt iv
      else let '(f, a2) := f64_of x in
           if acc_eqb a2 Exact && negb (bf_is_int x) then MF64 f
           else MStr (if 512 <=? bf_prec x then text_f_shortest x else text_f_exact x)
  end.

Definition number_of_mp (m : mp) : res value :=
  match m with
  | MInt z => Ok (v_int z)
  | MF64 x => Ok (v_num (match x with BInf n _ => BInf n 53 | BFin n s e _ => BFin n s e 53 end))
  | MStr s => match bf_parse s 512 with POk x => Ok (v_num x) | PErr => Err OtherError end
  | _ => Err OtherError
  end.

(* ---------- unknown values ---------- *)
Definition k_null := 1. Definition k_prefix := 2. Definition k_nmin := 3. Definition k_nmax := 4.
Definition k_lmin := 5. Definition k_lmax := 6.

(* marshalUnknownValue: from the range accessors.  [trunc] stands for the truncation of prefixes
   longer than 256 bytes (prefix[:255] through SafeKnownPrefix), supplied by the harness *)
Definition mp_of_unknown (trunc : str -> str) (v : value) : res mp :=
  do rg <- range_of v;
  if is_dyn (rty rg) then Ok (MUnk []) else
  let e_null := if definitely_not_null_r rg then [(k_null, MBool false)] else [] in
  do rest <-
    match rty rg with
    | TNum =>
        do lo <- num_lower rg; do hi <- num_upper rg;
        let enc (b : value * bool) := MArr [match pnum (fst b) with Some x => mp_of_number (fst x) | None => MNil end; MBool (snd b)] in
        let is_id (v : value) (id : numid) := match vp v with PNum _ i => numid_eqb i id | _ => false end in
        Ok ((if is_known (fst lo) && negb (is_id (fst lo) IdNInf) then [(k_nmin, enc lo)] else []) ++
            (if is_known (fst hi) && negb (is_id (fst hi) IdPInf) then [(k_nmax, enc hi)] else []))
    | TStr =>
        do p <- str_prefix rg;
        match p with
        | [] => Ok []
        | _ => Ok [(k_prefix, MStr (if Nat.ltb 256 (length p) then trunc p else p))]
        end
    | TList _ | TSet _ | TMap _ =>
        do lo <- len_lower rg; do hi <- len_upper rg;
        Ok ((if lo =? 0 then [] else [(k_lmin, MInt lo)]) ++ (if hi =? max_int then [] else [(k_lmax, MInt hi)]))
    | _ => Ok []
    end;
  Ok (MUnk (e_null ++ rest)).

(* unmarshalUnknownValue: replay the refinement entries through the builder; builder panics are
   decoding errors (fix: commit 385f5b2) *)
Definition unknown_of_mp (norm : str -> str) (refs : list (Z * mp)) (t : ty) : res value :=
  match refs with
  | [] => Ok (v_unknown t)
  | _ =>
    if is_dyn t then Ok (v_unknown t) else
    let step (b : res builder) (e : Z * mp) : res builder :=
      do b0 <- b;
      let k := fst e in
      if k =? k_null then
        match snd e with MBool true => rb_null b0 | MBool false => rb_not_null b0 | _ => Err OtherError end
      else if k =? k_prefix then
        match t, snd e with
        | TStr, MStr s => rb_prefix_full norm b0 s
        | _, _ => Err OtherError
        end
      else if (k =? k_lmin) || (k =? k_lmax) then
        if negb (is_coll t) then Err OtherError else
        match snd e with
        | MInt n => if k =? k_lmin then rb_len_lower b0 n else rb_len_upper b0 n
        | _ => Err OtherError
        end
      else if (k =? k_nmin) || (k =? k_nmax) then
        match t, snd e with
        | TNum, MArr [nb; MBool inc] =>
            match nb with
            | MNil => Err OtherError
            | _ => match number_of_mp nb with
                   | Ok bound => if k =? k_nmin then rb_num_lower b0 bound inc else rb_num_upper b0 bound inc
                   | _ => Err OtherError
                   end
            end
        | _, _ => Err OtherError
        end
      else Ok b0 in     (* unknown keys are skipped *)
    match fold_left step refs (Ok (refine (v_unknown t))) with
    | Ok b => match rb_new_value b with Panic => Err OtherError | r => r end
    | Panic => Err OtherError
    | r => match r with Err e => Err e | _ => OutOfFuel end
    end
  end.

(* ---------- Marshal ---------- *)
Fixpoint mp_marshal_at (trunc : str -> str) (fuel : nat) (v : value) (t : ty) : res mp :=
  match fuel with
  | O => OutOfFuel
  | S f =>
    if is_marked v then Err OtherError else
    if is_dyn t && negb (is_dyn (vty v)) then
      match type_to_json (vty v) with
      | Ok tj => match mp_marshal_at trunc f v (vty v) with
                 | Ok m => Ok (MArr [MType tj; m])
                 | r => r
                 end
      | _ => Err OtherError
      end
    else if negb (is_known v) then mp_of_unknown trunc v
    else if is_null v then Ok MNil else
    match t, vp v with
    | TStr, PStr s => Ok (MStr s)
    | TNum, PNum x _ => Ok (mp_of_number x)
    | TBool, PBool b => Ok (MBool b)
    | TList e, PSeq l =>
        let ev := match vty v with TList ev => ev | _ => e end in
        do ms <- (fix go (l : list payload) : res (list mp) :=
                    match l with [] => Ok [] | x :: l' => do m <- mp_marshal_at trunc f (V ev x) e; do r <- go l'; Ok (m :: r) end) l;
        Ok (MArr ms)
    | TSet e, PSet bs =>
        let ev := match vty v with TSet ev => ev | _ => e end in
        do l <- set_values ev bs;
        do ms <- (fix go (l : list payload) : res (list mp) :=
                    match l with [] => Ok [] | x :: l' => do m <- mp_marshal_at trunc f (V ev x) e; do r <- go l'; Ok (m :: r) end) l;
        Ok (MArr ms)
    | TMap e, PMap m =>
        let ev := match vty v with TMap ev => ev | _ => e end in
        do kvs <- (fix go (l : list (str * payload)) : res (list (mp * mp)) :=
                     match l with [] => Ok [] | kv :: l' => do x <- mp_marshal_at trunc f (V ev (snd kv)) e; do r <- go l'; Ok ((MStr (fst kv), x) :: r) end) m;
        Ok (MMap kvs)
    | TTuple es, PSeq l =>
        let evs := match vty v with TTuple evs => evs | _ => [] end in
        do ms <- (fix go (ts tvs : list ty) (l : list payload) : res (list mp) :=
                    match ts, tvs, l with
                    | te :: ts', tv :: tvs', x :: l' => do m <- mp_marshal_at trunc f (V tv x) te; do r <- go ts' tvs' l'; Ok (m :: r)
                    | _, _, [] => Ok []
                    | _, _, _ => Panic
                    end) es evs l;
        Ok (MArr ms)
    | TObj attrs _, PMap m =>
        let avs := match vty v with TObj avs _ => avs | _ => [] end in
        do kvs <- (fix go (l : list (str * ty)) : res (list (mp * mp)) :=
                     match l with
                     | [] => Ok []
                     | kt :: l' =>
                         match lookup (fst kt) avs, lookup (fst kt) m with
                         | Some tv, Some x => do y <- mp_marshal_at trunc f (V tv x) (snd kt); do r <- go l'; Ok ((MStr (fst kt), y) :: r)
                         | _, _ => Panic
                         end
                     end) attrs;
        Ok (MMap kvs)
    | TCap _, _ => Err OtherError
    | _, _ => Panic
    end
  end.
Definition mp_marshal (trunc : str -> str) (v : value) (t : ty) : res mp :=
  mp_marshal_at trunc (S (psize (vp v)) + ty_size t + ty_size (vty v)) v t.

(* ---------- Unmarshal ---------- *)
Fixpoint mp_size (m : mp) : nat :=
  match m with
  | MArr l => S (fold_right (fun x n => mp_size x + n)%nat 0%nat l)
  | MMap l => S ((fix go (l : list (mp * mp)) : nat := match l with [] => 0 | kv :: l' => mp_size (fst kv) + mp_size (snd kv) + go l' end)%nat l)
  | MUnk l => S ((fix go (l : list (Z * mp)) : nat := match l with [] => 0 | kv :: l' => mp_size (snd kv) + go l' end)%nat l)
  | _ => 1%nat
  end.

Fixpoint mp_unmarshal_at (norm : str -> str) (fuel : nat) (m : mp) (t : ty) : res value :=
  match fuel with
  | O => OutOfFuel
  | S f =>
    match m with
    | MUnk refs => unknown_of_mp norm refs t
    | _ =>
      match t with
      | TDyn =>
          match m with
          | MNil => Ok (v_null TDyn)
          | MArr [MType tj; body] =>
              match type_of_json norm tj with
              | Ok t' => mp_unmarshal_at norm f body t'
              | Err _ => Err OtherError
              | r => match r with Panic => Panic | _ => OutOfFuel end
              end
          | _ => Err OtherError
          end
      | _ =>
        match m with
        | MNil => Ok (v_null t)
        | _ =>
          match t with
          | TBool => match m with MBool b => Ok (v_bool b) | _ => Err OtherError end
          | TNum => number_of_mp m
          | TStr => match m with MStr s => Ok (v_str (norm s)) | _ => Err OtherError end
          | TList e =>
              match m with
              | MArr l =>
                  do vs <- (fix go (l : list mp) : res (list value) :=
                              match l with [] => Ok [] | x :: l' => do v <- mp_unmarshal_at norm f x e; do r <- go l'; Ok (v :: r) end) l;
                  match vs with [] => Ok (V (TList e) (PSeq [])) | _ => if can_coll vs then list_val vs else Err OtherError end
              | _ => Err OtherError
              end
          | TSet e =>
              match m with
              | MArr l =>
                  do vs <- (fix go (l : list mp) : res (list value) :=
                              match l with [] => Ok [] | x :: l' => do v <- mp_unmarshal_at norm f x e; do r <- go l'; Ok (v :: r) end) l;
                  match vs with [] => Ok (V (TSet e) (PSet [])) | _ => if can_coll (map (fun v => fst (unmark_deep v)) vs) then set_val vs else Err OtherError end
              | _ => Err OtherError
              end
          | TMap e =>
              match m with
              | MMap l =>
                  do kvs <- (fix go (l : list (mp * mp)) : res (list (str * value)) :=
                               match l with
                               | [] => Ok []
                               | kv :: l' => match fst kv with
                                             | MStr k => do v <- mp_unmarshal_at norm f (snd kv) e; do r <- go l'; Ok ((k, v) :: r)
                                             | _ => Err OtherError
                                             end
                               end) l;
                  match kvs with [] => Ok (V (TMap e) (PMap [])) | _ => if can_coll (map snd kvs) then map_val norm kvs else Err OtherError end
              | _ => Err OtherError
              end
          | TTuple es =>
              match m with
              | MArr l =>
                  if negb (Nat.eqb (length l) (length es)) then Err OtherError else
                  do vs <- (fix go (ts : list ty) (l : list mp) : res (list value) :=
                              match l, ts with
                              | x :: l', te :: ts' => do v <- mp_unmarshal_at norm f x te; do r <- go ts' l'; Ok (v :: r)
                              | _, _ => Ok []
                              end) es l;
                  Ok (tuple_val vs)
              | _ => Err OtherError
              end
          | TObj attrs _ =>
              match m with
              | MMap l =>
                  if negb (Nat.eqb (length l) (length attrs)) then Err OtherError else
                  do kvs <- (fix go (l : list (mp * mp)) : res (list (str * value)) :=
                               match l with
                               | [] => Ok []
                               | kv :: l' =>
                                   match fst kv with
                                   | MStr k => match lookup k attrs with
                                               | None => Err OtherError
                                               | Some ta => do v <- mp_unmarshal_at norm f (snd kv) ta; do r <- go l'; Ok ((k, v) :: r)
                                               end
                                   | _ => Err OtherError
                                   end
                               end) l;
                  let given := fold_left (fun acc kv => kv_insert (fst kv) (snd kv) acc) kvs [] in
                  if negb (Nat.eqb (length given) (length attrs)) then Err OtherError   (* repeated attribute: fix commit ed6fde9 *)
                  else Ok (object_val norm given)
              | _ => Err OtherError
              end
          | _ => Err OtherError
          end
        end
      end
    end
  end.
Definition mp_unmarshal (norm : str -> str) (m : mp) (t : ty) : res value := mp_unmarshal_at norm (S (mp_size m)) m t.

(* ---------- correspondence cases ---------- *)
Inductive k16 :=
| K16_marshal (tr : list (str * str)) (v : value) (t : ty) (obs : res mp)
| K16_unmarshal (tbl : list (str * str)) (m : mp) (t : ty) (obs : res value).
Definition tbl_fn (tbl : list (str * str)) (s : str) : str := match lookup s tbl with Some r => r | None => s end.
Definition k16_check (k : k16) : bool :=
  match k with
  | K16_marshal tr v t obs => res_eqb_anyerr mp_eqb (mp_marshal (tbl_fn tr) v t) obs
  | K16_unmarshal tbl m t obs => res_eqb_anyerr value_eqb (mp_unmarshal (tbl_fn tbl) m t) obs
  end.
