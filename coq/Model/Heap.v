(* Heap.v — the mutable helper sets (cty/set: Set.Add / Remove / Copy / Has / Values) over Go slice
   semantics: buckets are slices (array, length, capacity) into a heap of arrays, append writes in
   place while capacity lasts.  Several sets live side by side, as copies of one another (C20).
   Members are abstracted to integers with a caller-chosen hash; equivalence is equality. *)
From Coq Require Export List ZArith Bool.
From Coq Require Import Lia.
Export ListNotations.
Open Scope Z_scope.

Record slice := { s_arr : nat; s_len : nat; s_cap : nat }.
Definition heap := list (list Z).                  (* array id -> cells (as many as its capacity) *)
Definition gset := list (Z * slice).               (* hash -> bucket *)
Record state := { st_heap : heap; st_sets : list gset }.

Definition cells (h : heap) (a : nat) : list Z := nth a h [].
Definition elems (h : heap) (s : slice) : list Z := firstn (s_len s) (cells h (s_arr s)).

Fixpoint set_nth {A} (n : nat) (x : A) (l : list A) : list A :=
  match l, n with
  | [], _ => []
  | _ :: t, O => x :: t
  | y :: t, S n' => y :: set_nth n' x t
  end.

(* append(bucket, v) *)
Definition append1 (h : heap) (s : slice) (v : Z) : heap * slice :=
  if Nat.ltb (s_len s) (s_cap s) then
    (set_nth (s_arr s) (set_nth (s_len s) v (cells h (s_arr s))) h,
     {| s_arr := s_arr s; s_len := S (s_len s); s_cap := s_cap s |})
  else
    let ncap := match s_cap s with O => 1%nat | c => (2 * c)%nat end in
    (h ++ [elems h s ++ v :: repeat 0 (ncap - S (s_len s))],
     {| s_arr := length h; s_len := S (s_len s); s_cap := ncap |}).

(* a fresh slice holding the given elements exactly (make + append) *)
Definition fresh (h : heap) (l : list Z) : heap * slice :=
  (h ++ [l], {| s_arr := length h; s_len := length l; s_cap := length l |}).

Fixpoint bucket_of (hv : Z) (s : gset) : option slice :=
  match s with [] => None | (k, b) :: s' => if k =? hv then Some b else bucket_of hv s' end.
Fixpoint put_bucket (hv : Z) (b : slice) (s : gset) : gset :=
  match s with
  | [] => [(hv, b)]
  | (k, b0) :: s' => if k =? hv then (k, b) :: s' else (k, b0) :: put_bucket hv b s'
  end.
Fixpoint del_bucket (hv : Z) (s : gset) : gset :=
  match s with [] => [] | (k, b) :: s' => if k =? hv then s' else (k, b) :: del_bucket hv s' end.

Definition mem (v : Z) (l : list Z) : bool := existsb (Z.eqb v) l.
Fixpoint remove_first (v : Z) (l : list Z) : list Z :=
  match l with [] => [] | x :: t => if x =? v then t else x :: remove_first v t end.

Section Ops.
Variable hash : Z -> Z.
Variable deep_copy : bool.         (* true: Copy gives every bucket its own array (the repaired code) *)

Definition set_add (h : heap) (s : gset) (v : Z) : heap * gset :=
  let hv := hash v in
  match bucket_of hv s with
  | None =>      (* make([]T, 0, 1), then append *)
      let '(h1, b0) := (h ++ [[0]], {| s_arr := length h; s_len := 0; s_cap := 1 |}) in
      let '(h2, b1) := append1 h1 b0 v in (h2, put_bucket hv b1 s)
  | Some b =>
      if mem v (elems h b) then (h, s)
      else let '(h1, b1) := append1 h b v in (h1, put_bucket hv b1 s)
  end.

Definition set_remove (h : heap) (s : gset) (v : Z) : heap * gset :=
  let hv := hash v in
  match bucket_of hv s with
  | None => (h, s)
  | Some b =>
      if mem v (elems h b) then
        match remove_first v (elems h b) with
        | [] => (h, del_bucket hv s)
        | l => let '(h1, b1) := fresh h l in (h1, put_bucket hv b1 s)
        end
      else (h, s)
  end.

Definition set_copy (h : heap) (s : gset) : heap * gset :=
  if deep_copy then
    fold_left (fun acc kb => let '(h0, out) := acc in
                             let '(h1, b1) := fresh h0 (elems h0 (snd kb)) in (h1, out ++ [(fst kb, b1)])) s (h, [])
  else (h, s).

Inductive op := OpAdd (i : nat) (v : Z) | OpRemove (i : nat) (v : Z) | OpCopy (i : nat).

Definition step (st : state) (o : op) : state :=
  match o with
  | OpAdd i v =>
      match nth_error (st_sets st) i with
      | Some s => let '(h, s') := set_add (st_heap st) s v in {| st_heap := h; st_sets := set_nth i s' (st_sets st) |}
      | None => st
      end
  | OpRemove i v =>
      match nth_error (st_sets st) i with
      | Some s => let '(h, s') := set_remove (st_heap st) s v in {| st_heap := h; st_sets := set_nth i s' (st_sets st) |}
      | None => st
      end
  | OpCopy i =>
      match nth_error (st_sets st) i with
      | Some s => let '(h, s') := set_copy (st_heap st) s in {| st_heap := h; st_sets := st_sets st ++ [s'] |}
      | None => st
      end
  end.

Definition run (ops : list op) : state := fold_left step ops {| st_heap := []; st_sets := [[]] |}.
End Ops.

(* what a set reports: its buckets with their members, by ascending hash *)
Fixpoint insert_by_hash (kb : Z * list Z) (l : list (Z * list Z)) : list (Z * list Z) :=
  match l with
  | [] => [kb]
  | x :: t => if fst kb <? fst x then kb :: l else x :: insert_by_hash kb t
  end.
Definition view (h : heap) (s : gset) : list (Z * list Z) :=
  fold_left (fun acc kb => insert_by_hash (fst kb, elems h (snd kb)) acc) s [].
Definition views (st : state) : list (list (Z * list Z)) := map (view (st_heap st)) (st_sets st).

(* ---------- correspondence cases ---------- *)
Inductive kop := KAdd (i : nat) (v : Z) | KRemove (i : nat) (v : Z) | KCopy (i : nat).
Definition op_of (k : kop) : op := match k with KAdd i v => OpAdd i v | KRemove i v => OpRemove i v | KCopy i => OpCopy i end.

(* a history on sets of integers hashed modulo [m], and the bucket views of all sets observed after it *)
Inductive k20 := K20_history (m : Z) (deep : bool) (ops : list kop) (obs : list (list (Z * list Z))).

Definition zlist_eqb (a b : list Z) : bool :=
  (fix go a b := match a, b with [], [] => true | x :: a', y :: b' => (x =? y) && go a' b' | _, _ => false end) a b.
Definition view_eqb (a b : list (Z * list Z)) : bool :=
  (fix go a b := match a, b with
                 | [], [] => true
                 | x :: a', y :: b' => (fst x =? fst y) && zlist_eqb (snd x) (snd y) && go a' b'
                 | _, _ => false end) a b.
Definition views_eqb (a b : list (list (Z * list Z))) : bool :=
  (fix go a b := match a, b with [], [] => true | x :: a', y :: b' => view_eqb x y && go a' b' | _, _ => false end) a b.

Definition k20_check (k : k20) : bool :=
  match k with
  | K20_history m deep ops obs => views_eqb (views (run (fun v => v mod m) deep (map op_of ops))) obs
  end.

(* the property on the model: an operation on one set leaves the view of every other set as it was *)
Fixpoint isolated_run (hash : Z -> Z) (deep : bool) (st : state) (ops : list op) : bool :=
  match ops with
  | [] => true
  | o :: rest =>
      let st' := step hash deep st o in
      let target := match o with OpAdd i _ | OpRemove i _ => Some i | OpCopy _ => None end in
      let before := views st in let after := views st' in
      (fix same (i : nat) (b a : list (list (Z * list Z))) : bool :=
         match b, a with
         | x :: b', y :: a' => ((match target with Some t => Nat.eqb t i | None => false end) || view_eqb x y) && same (S i) b' a'
         | [], _ => true
         | _, [] => false
         end) 0%nat before after
      && isolated_run hash deep st' rest
  end.
Definition k20_prop (k : k20) : bool :=
  match k with
  | K20_history m deep ops _ => isolated_run (fun v => v mod m) deep {| st_heap := []; st_sets := [[]] |} (map op_of ops)
  end.
