(* K04.v — correspondence cases for C04: operations on marked operands (KOps) and deep unmarking. *)
From Cty Require Import Base Ty BigFloat Value Hash Ops Refine KOps.
Open Scope Z_scope.

Inductive k04 :=
| K04_k (k : kops)
| K04_unmarkdeep (v : value) (u : value) (ms : list mark)
| K04_marksof (v : value) (ms : list mark) (contains : bool).

Definition k04_check (k : k04) : bool :=
  match k with
  | K04_k k' => kops_check k'
  | K04_unmarkdeep v u ms => let '(u', ms') := unmark_deep v in value_eqb u' u && list_eqb N.eqb ms' ms
  | K04_marksof v ms c => list_eqb N.eqb (marks_of v) ms && Bool.eqb (contains_marked v) c
  end.
