(* K15.v — correspondence cases for C15 (and the JSON half of C17). *)
From Cty Require Import Base Ty BigFloat Value Hash Ops Refine Json.
Open Scope Z_scope.

Definition ntbl (tbl : list (str * str)) (s : str) : str := match lookup s tbl with Some r => r | None => s end.

Inductive k15 :=
| K15_marshal (v : value) (t : ty) (obs : res jv)
| K15_unmarshal (tbl : list (str * str)) (j : jv) (t : ty) (obs : res value)
| K15_implied (tbl : list (str * str)) (j : jv) (obs : res ty)
| K15_oftype (tbl : list (str * str)) (j : jv) (obs : res ty).        (* Type.UnmarshalJSON *)

Definition k15_check (k : k15) : bool :=
  match k with
  | K15_marshal v t obs => res_eqb_anyerr jv_eqb (json_marshal v t) obs
  | K15_unmarshal tbl j t obs => res_eqb_anyerr value_eqb (json_unmarshal (ntbl tbl) j t) obs
  | K15_implied tbl j obs => res_eqb_anyerr ty_eqb (json_implied_type (ntbl tbl) j) obs
  | K15_oftype tbl j obs => res_eqb_anyerr ty_eqb (type_of_json (ntbl tbl) j) obs
  end.

(* the round-trip property on the model *)
Definition k15_prop (k : k15) : bool :=
  match k with
  | K15_marshal v t _ =>
      match json_marshal v t with
      | Ok j => match json_unmarshal (fun s => s) j t with
                | Ok v' => ty_eqb (vty v') (vty v) && match raw_equals v' v with Ok b => b | _ => false end
                | _ => false
                end
      | _ => true
      end
  | _ => true
  end.
