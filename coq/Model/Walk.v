(* Walk.v — cty.Walk, cty.Transform, paths, path-indexed marks and path sets
   (cty/walk.go, cty/path.go, cty/marks.go, cty/path_set.go, cty/unknown_as_null.go). *)
From Cty Require Import Base Ty BigFloat Value Hash Ops Refine SetAlg.
Open Scope Z_scope.

Inductive step := SIndex (key : value) | SAttr (name : str).
Definition path := list step.

(* ---------- applying paths ---------- *)
Definition is_nilval (v : value) : bool := false.   (* cty.NilVal is not a model value *)

Definition index_step_apply (key v : value) : res value :=
  if is_null v then Err PathError else
  let ok := match vty key with
            | TNum => is_list (vty v) || is_tuple (vty v)
            | TStr => is_map (vty v)
            | _ => false
            end in
  if negb ok then Err PathError else
  do h <- has_index_v v key;
  let has := unmark_force h in
  if negb (is_known has) then
    match vty v with
    | TList e | TMap e | TSet e => Ok (v_unknown e)
    | TTuple _ => Ok v_dyn              (* fix: commit in /repo — formerly ElementType() panicked on tuples *)
    | _ => Panic
    end
  else if negb (known_and_true has) then Err PathError
  else index_v v key.

Definition attr_step_apply (norm : str -> str) (name : str) (v : value) : res value :=
  if is_null v then Err PathError else
  match vty v with
  | TObj attrs _ =>
      (* HasAttribute does not normalise the name; GetAttr does *)
      match lookup name attrs with
      | None => Err PathError
      | Some _ => get_attr_v norm name v
      end
  | _ => Err PathError
  end.

Definition step_apply (norm : str -> str) (s : step) (v : value) : res value :=
  match s with
  | SIndex k => index_step_apply k v
  | SAttr n => attr_step_apply norm n v
  end.

Fixpoint path_apply (norm : str -> str) (p : path) (v : value) : res value :=
  match p with
  | [] => Ok v
  | s :: p' => match step_apply norm s v with
               | Ok v' => path_apply norm p' v'
               | Err _ => Err PathError
               | Panic => Panic
               | OutOfFuel => OutOfFuel
               end
  end.

(* Path.Equals (RawEquals on index keys) and HasPrefix *)
Definition step_equals (a b : step) : bool :=
  match a, b with
  | SAttr x, SAttr y => str_eqb x y
  | SIndex x, SIndex y => match raw_equals x y with Ok r => r | _ => false end
  | _, _ => false
  end.
Definition path_equals (a b : path) : bool := list_eqb step_equals a b.
Definition path_has_prefix (p pre : path) : bool :=
  Nat.leb (length pre) (length p) && path_equals (firstn (length pre) p) pre.

(* ---------- the members of a value, in ElementIterator order, with their path steps ---------- *)
Definition members_of (v : value) : res (list (step * value)) :=
  match vty v, vp v with
  | TList e, PSeq l =>
      Ok (map (fun '(i, p) => (SIndex (v_int (Z.of_nat i)), V e p)) (combine (seq 0 (length l)) l))
  | TTuple es, PSeq l =>
      Ok (map (fun '(i, (te, p)) => (SIndex (v_int (Z.of_nat i)), V te p)) (combine (seq 0 (length l)) (combine es l)))
  | TMap e, PMap m => Ok (map (fun kv => (SIndex (v_str (fst kv)), V e (snd kv))) m)
  | TObj attrs _, PMap m =>
      Ok (map (fun kv => (SAttr (fst kv), V (match lookup (fst kv) attrs with Some ta => ta | None => TDyn end) (snd kv))) m)
  | TSet e, PSet bs => do l <- set_values e bs; Ok (map (fun p => (SIndex (V e p), V e p)) l)
  | _, _ => Ok []
  end.

(* Walk with a callback that always descends: the visited (path, value) pairs in visiting order.
   Null and unknown values are not descended into; marked members are passed through as they are. *)
Fixpoint walk_at (fuel : nat) (p : path) (v : value) : res (list (path * value)) :=
  match fuel with
  | O => OutOfFuel
  | S f =>
      if is_null v || negb (is_known v) then Ok [(p, v)] else
      do ms <- members_of (unmark_force v);
      do rest <- (fix go (l : list (step * value)) : res (list (path * value)) :=
                    match l with
                    | [] => Ok []
                    | sm :: l' => do a <- walk_at f (p ++ [fst sm]) (snd sm); do b <- go l'; Ok (a ++ b)
                    end) ms;
      Ok ((p, v) :: rest)
  end.
Definition walk (v : value) : res (list (path * value)) := walk_at (S (psize (vp v))) [] v.

(* ---------- Transform ---------- *)
Section Transform.
  Variable norm : str -> str.
  Variable enter exit : path -> value -> res value.

  Fixpoint transform_at (fuel : nat) (p : path) (v0 : value) : res value :=
    match fuel with
    | O => OutOfFuel
    | S f =>
        do v <- enter p v0;
        let '(raw, marks) := unmark v in
        do nv <-
          (if is_null v || negb (is_known v) then Ok v else
           match vty v with
           | TList _ | TSet _ | TTuple _ | TMap _ | TObj _ _ =>
               do ms <- members_of raw;
               match ms with
               | [] => Ok v
               | _ =>
                   do news <- (fix go (l : list (step * value)) : res (list (step * value)) :=
                                 match l with
                                 | [] => Ok []
                                 | sm :: l' => do a <- transform_at f (p ++ [fst sm]) (snd sm); do b <- go l'; Ok ((fst sm, a) :: b)
                                 end) ms;
                   do built <-
                     match vty v with
                     | TList _ => list_val (map snd news)
                     | TSet _ => set_val (map snd news)
                     | TTuple _ => Ok (tuple_val (map snd news))
                     | TMap _ => map_val norm (map (fun sv => (match fst sv with SIndex k => match vp k with PStr s => s | _ => [] end | SAttr n => n end, snd sv)) news)
                     | _ => Ok (object_val norm (map (fun sv => (match fst sv with SAttr n => n | _ => [] end, snd sv)) news))
                     end;
                   Ok (with_marks built marks)
               end
           | _ => Ok v
           end);
        exit p nv
    end.
End Transform.

Definition transform (norm : str -> str) (cb : path -> value -> res value) (v : value) : res value :=
  transform_at norm (fun _ x => Ok x) cb (S (psize (vp v))) [] v.

(* UnmarkDeepWithPaths: the paths of the marked members with their marks (in walk order) *)
Definition path_marks (v : value) : res (list (path * list mark)) :=
  do w <- walk v;
  Ok (flat_map (fun pv => match marks_of (snd pv) with [] => [] | ms => [(fst pv, ms)] end) w).

(* MarkWithPaths: the first entry whose path Equals the visited path applies *)
Definition mark_with_paths (norm : str -> str) (pvm : list (path * list mark)) (v : value) : res value :=
  transform norm (fun p x => match find (fun e => path_equals p (fst e)) pvm with
                             | Some e => Ok (with_marks x (snd e))
                             | None => Ok x
                             end) v.

(* UnknownAsNull *)
Fixpoint unknown_as_null_at (norm : str -> str) (fuel : nat) (v : value) : res value :=
  match fuel with
  | O => OutOfFuel
  | S f =>
      if is_null v then Ok v else
      if negb (is_known v) then Ok (v_null (vty v)) else
      match vty v with
      | TList _ | TSet _ | TTuple _ | TMap _ | TObj _ _ =>
          match vp v with
          | PMarked _ _ => Panic          (* LengthInt asserts the value is unmarked *)
          | _ =>
            do ms <- members_of v;
            match ms with
            | [] => Ok v
            | _ =>
                do news <- (fix go (l : list (step * value)) : res (list (step * value)) :=
                              match l with
                              | [] => Ok []
                              | sm :: l' => do a <- unknown_as_null_at norm f (snd sm); do b <- go l'; Ok ((fst sm, a) :: b)
                              end) ms;
                match vty v with
                | TList _ => list_val (map snd news)
                | TSet _ => set_val (map snd news)
                | TTuple _ => Ok (tuple_val (map snd news))
                | TMap _ => map_val norm (map (fun sv => (match fst sv with SIndex k => match vp k with PStr s => s | _ => [] end | SAttr n => n end, snd sv)) news)
                | _ => Ok (object_val norm (map (fun sv => (match fst sv with SAttr n => n | _ => [] end, snd sv)) news))
                end
            end
          end
      | _ => Ok v
      end
  end.
Definition unknown_as_null (norm : str -> str) (v : value) : res value := unknown_as_null_at norm (S (psize (vp v))) v.

(* ---------- path sets: the generic bucket algorithm over paths ---------- *)
(* the hash depends only on the skeleton of the path (attribute names and '#' for index steps) *)
Definition step_skel (s : step) : str := match s with SAttr n => n | SIndex _ => [35]%N end.
Definition path_skel (p : path) : str := flat_map step_skel p.
Definition path_hash (p : path) : Z := Z.of_N (crc32 (path_skel p)).   (* any function of the skeleton; Go uses crc64 *)

(* pathSetRules.Equivalent: Equals known true on index keys *)
Definition step_equiv (a b : step) : bool :=
  match a, b with
  | SAttr x, SAttr y => str_eqb x y
  | SIndex x, SIndex y => match equals_v x y with Ok r => known_and_true r | _ => false end
  | _, _ => false
  end.
Definition path_equiv (a b : path) : bool := list_eqb step_equiv a b.

Definition pathset := gbuckets path.
Definition ps_add (s : pathset) (p : path) : pathset := g_add path path_hash path_equiv s p.
Definition ps_remove (s : pathset) (p : path) : pathset := g_remove path path_hash path_equiv s p.
Definition ps_has (s : pathset) (p : path) : bool := g_has path path_hash path_equiv s p.
Definition ps_list (s : pathset) : list path := gmembers path s.
Definition ps_union (a b : pathset) : pathset := fold_left ps_add (ps_list b) (fold_left ps_add (ps_list a) []).
Definition ps_inter (a b : pathset) : pathset := fold_left ps_add (filter (ps_has b) (ps_list a)) [].
Definition ps_subtract (a b : pathset) : pathset := fold_left ps_add (filter (fun p => negb (ps_has b p)) (ps_list a)) [].
Definition ps_symdiff (a b : pathset) : pathset :=
  fold_left ps_add (filter (fun p => negb (ps_has a p)) (ps_list b)) (fold_left ps_add (filter (fun p => negb (ps_has b p)) (ps_list a)) []).
Definition ps_equal (a b : pathset) : bool :=
  Nat.eqb (length (ps_list a)) (length (ps_list b)) && forallb (ps_has b) (ps_list a).
