(* K07.v — correspondence cases for C07: the observed behaviour of the implementation
   (written by the harness) is compared with the model's answer on the same input. *)
From Cty Require Import Base Ty.

Definition norm_tbl (tbl : list (str * str)) (s : str) : str :=
  match lookup s tbl with Some r => r | None => s end.

Inductive k07 :=
| K07_equals (t u : ty) (obs : bool)
| K07_conf (t c : ty) (obs : N * N * N * N)
| K07_hasdyn (t : ty) (obs : bool)
| K07_strip (t : ty) (obs : ty)
| K07_tojson (t : ty) (obs : res jv)
| K07_ofjson (tbl : list (str * str)) (j : jv) (obs : res ty).

Definition n4_eqb (a b : N * N * N * N) : bool :=
  let '(a1, a2, a3, a4) := a in let '(b1, b2, b3, b4) := b in
  (a1 =? b1)%N && (a2 =? b2)%N && (a3 =? b3)%N && (a4 =? b4)%N.

Definition k07_check (k : k07) : bool :=
  match k with
  | K07_equals t u obs => Bool.eqb (ty_equals t u) obs
  | K07_conf t c obs => n4_eqb (cerr_count (conformance t c)) obs
  | K07_hasdyn t obs => Bool.eqb (has_dyn t) obs
  | K07_strip t obs => ty_eqb (strip_opt t) obs
  | K07_tojson t obs => res_eqb_anyerr jv_eqb (type_to_json t) obs
  | K07_ofjson tbl j obs => res_eqb_anyerr ty_eqb (type_of_json (norm_tbl tbl) j) obs
  end.

(* the property itself, evaluated on the model at a case's inputs (model-side search) *)
Definition k07_prop (k : k07) : bool :=
  match k with
  | K07_equals t u _ =>
      Bool.eqb (ty_equals t u) (ty_eqb t u) && Bool.eqb (ty_equals t u) (ty_equals u t) && ty_equals t t
  | K07_conf t c _ => true
  | K07_hasdyn t _ => true
  | K07_strip t _ => ty_eqb (strip_opt (strip_opt t)) (strip_opt t) && negb (has_opt (strip_opt t))
  | K07_tojson t _ =>
      has_cap t || match type_to_json t with
                   | Ok j => res_eqb ty_eqb (type_of_json (fun s => s) j) (Ok t)
                   | _ => false
                   end
  | K07_ofjson _ _ _ => true
  end.
