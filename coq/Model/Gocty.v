(* Gocty.v — decoding numbers into Go numeric types and back (cty/gocty/out.go fromCtyNumber*,
   cty/gocty/in.go toCtyNumber): per-width range checks, float narrowing, big numbers. *)
From Cty Require Import Base BigFloat.
Open Scope Z_scope.

Inductive ntarget := NTInt (w : Z) | NTUint (w : Z) | NTF32 | NTF64 | NTBigInt | NTBigFloat | NTOther.

(* what ends up stored in the Go target *)
Inductive gnum := GInt (z : Z) | GFloat (x : bf) | GBigInt (z : Z) | GBigFloat (x : bf).

Definition int_min (w : Z) : Z := - 2 ^ (w - 1).
Definition int_max (w : Z) : Z := 2 ^ (w - 1) - 1.
Definition uint_max (w : Z) : Z := 2 ^ w - 1.

(* float64 -> float32 narrowing as Go's conversion performs it (round to nearest even, subnormals, overflow to Inf);
   the result is held as an exact dyadic of precision 53 (what reflect.Value.Float() gives back) *)
Definition f32_of (x : bf) : bf :=
  match x with
  | BInf n _ => BInf n 53
  | BFin n 0%N _ _ => BFin n 0 0 53
  | BFin n sig e _ =>
      let ex := e + bitlen sig - 1 in
      let emin := -126 in let emax := 127 in
      let p := if ex <? emin then 24 + (ex - emin) else 24 in
      if p <? 0 then BFin n 0 0 53
      else if p =? 0 then
        let '(s, _) := canon sig e in
        if (s =? 1)%N then BFin n 0 0 53 else BFin n 1 (-149) 53
      else
        let '(s, e', _) := round_sig sig false e p in
        let ex' := e' + bitlen s - 1 in
        if emax <? ex' then BInf n 53 else BFin n s e' 53
  end.

Definition from_cty_number (x : bf) (t : ntarget) : res gnum :=
  match t with
  | NTInt w =>
      let '(iv, a) := bf_int64 x in
      if acc_eqb a Exact && (int_min w <=? iv) && (iv <=? int_max w) then Ok (GInt iv) else Err OtherError
  | NTUint w =>
      let '(iv, a) := bf_uint64 x in
      if acc_eqb a Exact && bf_is_int x && (iv <=? uint_max w) then Ok (GInt iv) else Err OtherError
  | NTF64 =>
      let '(f, a) := f64_of x in
      if negb (acc_eqb a Exact) && bf_is_inf f then Err OtherError else Ok (GFloat f)
  | NTF32 =>
      let '(f, a) := f64_of x in
      if negb (acc_eqb a Exact) && bf_is_inf f then Err OtherError
      else if negb (bf_is_inf f) && bf_is_inf (f32_of f) then Err OtherError   (* fix: commit 9420afa *)
      else Ok (GFloat (f32_of f))
  | NTBigFloat => Ok (GBigFloat x)
  | NTBigInt =>
      match bf_int x with
      | (Some i, Exact) => Ok (GBigInt i)
      | _ => Err OtherError
      end
  | NTOther => Err OtherError
  end.

(* toCtyNumber *)
Definition to_cty_number (g : gnum) : bf :=
  match g with
  | GInt z => bf_of_int z                      (* NumberIntVal / NumberUIntVal: precision 64, exact *)
  | GFloat x => match x with BInf n _ => BInf n 53 | BFin n s e _ => BFin n s e 53 end   (* NumberFloatVal *)
  | GBigInt z => bf_set_int 0 z               (* (&big.Float{}).SetInt *)
  | GBigFloat x => x
  end.

Definition gnum_eqb (a b : gnum) : bool :=
  match a, b with
  | GInt x, GInt y => x =? y
  | GFloat x, GFloat y => bf_eqb x y
  | GBigInt x, GBigInt y => x =? y
  | GBigFloat x, GBigFloat y => bf_eqb x y
  | _, _ => false
  end.

(* correspondence cases for C18 *)
Inductive k18 :=
| K18_from (x : bf) (t : ntarget) (obs : res gnum)
| K18_to (g : gnum) (obs : bf).
Definition k18_check (k : k18) : bool :=
  match k with
  | K18_from x t obs => res_eqb gnum_eqb (from_cty_number x t) obs
  | K18_to g obs => bf_eqb (to_cty_number g) obs
  end.
(* the property on the model: whatever decodes re-encodes to a number equal to the original value *)
Definition k18_prop (k : k18) : bool :=
  match k with
  | K18_from x t _ =>
      match from_cty_number x t with
      | Ok (GInt z) => bf_numeq (bf_of_int z) x
      | Ok (GBigInt z) => bf_numeq (bf_set_int 0 z) x
      | Ok (GBigFloat y) => bf_eqb x y
      | _ => true
      end
  | K18_to g _ => true
  end.
