(* K08.v — correspondence cases for C08 (conversion) and C09 (unification), and the properties
   evaluated on the model at each case's inputs. *)
From Cty Require Import Base Ty BigFloat Value Hash Ops Refine Walk Wf Convert.
Open Scope Z_scope.

Inductive k08 :=
| K08_convert (v : value) (t : ty) (obs : res value)
| K08_exists (i o : ty) (unsafe : bool) (obs : bool)
| K08_apply (i o : ty) (unsafe : bool) (v : value) (obs : res value)
| K09_unify (tys : list ty) (unsafe : bool) (obs : option (ty * list bool))     (* result type, which conversions are non-nil *)
| K09_apply (tys : list ty) (unsafe : bool) (k : nat) (v : value) (obs : res value).

Definition exists_of (r : res (option conv)) : res bool := rmap (fun o => match o with Some _ => true | None => false end) r.
Definition shape_of (r : res (option (ty * list (option conv)))) : res (option (ty * list bool)) :=
  rmap (fun o => match o with
                 | Some (t, cs) => Some (t, map (fun c => match c with Some _ => true | None => false end) cs)
                 | None => None
                 end) r.
Definition shape_eqb (a b : option (ty * list bool)) : bool :=
  match a, b with
  | None, None => true
  | Some (t1, l1), Some (t2, l2) => ty_eqb t1 t2 && list_eqb Bool.eqb l1 l2
  | _, _ => false
  end.

(* "the same result": unknown parts are compared by what they say, not by how it is stored
   (an unknown that went through the builder with nothing to add carries an empty refinement) *)
Definition canon_rfn (r : refinement) : refinement :=
  match r with
  | RNullable TU => RNone
  | RStr TU [] => RNone
  | RNum TU None None _ _ => RNone
  | RColl TU 0 9223372036854775807 => RNone
  | _ => r
  end.
Fixpoint canon_p (p : payload) : payload :=
  match p with
  | PUnk r => PUnk (canon_rfn r)
  | PSeq l => PSeq (map canon_p l)
  | PMap m => PMap (map (fun kv => (fst kv, canon_p (snd kv))) m)
  | PSet bs => PSet (map (fun b => (fst b, map canon_p (snd b))) bs)
  | PMarked ms q => PMarked ms (canon_p q)
  | _ => p
  end.
Definition same_value (a b : value) : bool := ty_eqb (vty a) (vty b) && payload_eqb (canon_p (vp a)) (canon_p (vp b)).

Definition apply_get (i o : ty) (unsafe : bool) (v : value) : res value :=
  do c <- get_conversion i o unsafe;
  match c with Some f => f v | None => Panic end.
Definition apply_unify (tys : list ty) (unsafe : bool) (k : nat) (v : value) : res value :=
  do u <- unify tys unsafe;
  match u with
  | Some (_, cs) => match nth k cs None with Some f => f v | None => Ok v end
  | None => Panic
  end.

Definition k08_check (k : k08) : bool :=
  match k with
  | K08_convert v t obs => res_eqb_anyerr value_eqb (convert v t) obs
  | K08_exists i o unsafe obs => res_eqb Bool.eqb (exists_of (get_conversion i o unsafe)) (Ok obs)
  | K08_apply i o unsafe v obs => res_eqb_anyerr value_eqb (apply_get i o unsafe v) obs
  | K09_unify tys unsafe obs => res_eqb shape_eqb (shape_of (unify tys unsafe)) (Ok obs)
  | K09_apply tys unsafe n v obs => res_eqb_anyerr value_eqb (apply_unify tys unsafe n v) obs
  end.

(* the property on the model: conformance, no optional annotations, identity, idempotence; safe => unsafe;
   unification results are what the conversions produce *)
Definition k08_prop (k : k08) : bool :=
  match k with
  | K08_convert v t _ =>
      match convert v t with
      | Ok r => conforms (vty r) t && negb (has_opt (vty r)) &&
                res_eqb same_value (convert r t) (Ok r) &&
                (negb (ty_eqb (vty v) (strip_opt t)) || value_eqb r v)
      | Err _ => true
      | _ => false
      end
  | K08_exists i o unsafe _ =>
      match get_conversion i o false, get_conversion i o true with
      | Ok (Some _), Ok None => false
      | Ok _, Ok _ => true
      | _, _ => false
      end
  | K08_apply i o unsafe v _ =>
      match apply_get i o unsafe v with
      | Ok r => conforms (vty r) o
      | Err _ => unsafe || has_dyn o || negb (ty_eqb (vty v) i)      (* a safe conversion to a placeholder-free type never fails *)
      | _ => false
      end
  | K09_unify tys unsafe _ =>
      match unify tys unsafe with
      | Ok (Some (t, cs)) => Nat.eqb (length cs) (length tys)
      | Ok None => true
      | _ => false
      end
  | K09_apply tys unsafe n v _ =>
      match unify tys unsafe with
      | Ok (Some (t, cs)) =>
          match nth n cs None with
          | Some f => match f v with
                      | Ok r => conforms (vty r) t
                      | Err _ => unsafe || existsb has_dyn tys || negb (ty_eqb (vty v) (nth n tys TDyn))
                      | _ => false
                      end
          | None => true
          end
      | Ok None => true
      | _ => false
      end
  end.
