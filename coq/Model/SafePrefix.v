(* SafePrefix.v — ctystrings.SafeKnownPrefix (cty/ctystrings/prefix.go): control flow over three
   foreign functions (NFC normalisation, norm.NFC.LastBoundary, textseg.ScanGraphemeClusters),
   which are parameters here; the delimiter list comes from the source (Gen/Consts.v). *)
From Cty Require Import Base.
Open Scope Z_scope.

Record oracles := {
  o_norm : str -> str;              (* norm.NFC.String *)
  o_last_boundary : str -> Z;       (* norm.NFC.LastBoundary, -1 if none *)
  o_scan_cluster : str -> nat       (* bytes of the first grapheme cluster, 0 at end *)
}.

(* number of UTF-8 encoded runes = number of non-continuation bytes *)
Definition rune_count (s : str) : nat := length (filter (fun b => negb ((128 <=? b) && (b <? 192))%N) s).

(* sequenceMustEndGraphemeCluster: exactly one rune and it is one of the listed (ASCII) delimiters *)
Definition must_end_cluster (delims : list N) (s : str) : bool :=
  Nat.eqb (rune_count s) 1 &&
  match s with [b] => existsb (N.eqb b) delims | _ => false end.

(* the scanning loop: returns (prevBoundary, thisBoundary) *)
Fixpoint scan_loop (o : oracles) (fuel : nat) (remain : str) (prev this : nat) : nat * nat :=
  match fuel with
  | O => (prev, this)
  | S f =>
      match remain with
      | [] => (prev, this)
      | _ => let adv := o.(o_scan_cluster) remain in
             match adv with
             | O => (this, this)
             | _ => scan_loop o f (skipn adv remain) this (this + adv)
             end
      end
  end.

Definition safe_known_prefix (o : oracles) (delims : list N) (prefix0 : str) : str :=
  let p := o.(o_norm) prefix0 in
  let lb := o.(o_last_boundary) p in
  if negb (lb =? -1) && negb (lb =? Z.of_nat (length p)) then firstn (Z.to_nat lb) p
  else
    let '(prev, this) := scan_loop o (S (length p)) p 0%nat 0%nat in
    let suspect := firstn (this - prev) (skipn prev p) in
    let prev' := if must_end_cluster delims suspect then this else prev in
    firstn prev' p.

(* oracle tables shipped with a case: finite maps, identity / default off the table *)
Definition tbl_str (t : list (str * str)) (s : str) : str := match lookup s t with Some r => r | None => s end.
Definition tbl_Z (t : list (str * Z)) (d : Z) (s : str) : Z := match lookup s t with Some r => r | None => d end.
Definition tbl_nat (t : list (str * nat)) (s : str) : nat := match lookup s t with Some r => r | None => length s end.
