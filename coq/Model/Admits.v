(* Admits.v — the approximation order of C01 / C12 / C16: [admits_b a c] = "the (possibly unknown)
   value a is a sound stand-in for the value c": a's type constraint is one c's type conforms to,
   a does not exclude c by nullness, numeric bounds, string prefix or length bounds, and equals c
   wherever it is known.  Executable (boolean); marks must coincide level by level. *)
From Cty Require Import Base Ty BigFloat Value Hash Ops Refine.
Open Scope Z_scope.

Definition bf_of_numv (x : numv) : bf := fst x.

(* does the refinement r (of an unknown of type t) admit the unmarked payload c of type tc ? *)
Definition rfn_admits (r : refinement) (tc : ty) (c : payload) : bool :=
  match c with
  | PNull => match rfn_null r with TF => false | _ => true end
  | PUnk rc =>
      (* an unknown concrete part: admitted when a's refinement is no stronger; kept simple and
         conservative: only the unrefined / nullness-only cases are accepted *)
      match r with
      | RNone => true
      | RNullable n => match n with TU => true | TF => (match rfn_null rc with TF => true | _ => false end) | TT => false end
      | _ => refinement_eqb r rc
      end
  | _ =>
    match rfn_null r with
    | TT => false
    | _ =>
      match r with
      | RNone | RNullable _ => true
      | RStr _ pre => match c with PStr s => is_prefix pre s | _ => false end
      | RNum _ lo hi loInc hiInc =>
          match c with
          | PNum x _ =>
              (match lo with
               | None => true
               | Some b => if loInc then bf_leb (bf_of_numv b) x else bf_ltb (bf_of_numv b) x
               end) &&
              (match hi with
               | None => true
               | Some b => if hiInc then bf_leb x (bf_of_numv b) else bf_ltb x (bf_of_numv b)
               end)
          | _ => false
          end
      | RColl _ lo hi =>
          match length_int (V tc c) with
          | Ok n => (lo <=? n) && (n <=? hi)
          | _ => false
          end
      end
    end
  end.

(* every concrete member is admitted by some abstract member and every abstract member admits some concrete one *)
Definition rel_total (f : payload -> payload -> bool) (la lc : list payload) : bool :=
  forallb (fun c => existsb (fun a => f a c) la) lc && forallb (fun a => existsb (fun c => f a c) lc) la.

Fixpoint admits_p (fuel : nat) (ta : ty) (a : payload) (tc : ty) (c : payload) {struct fuel} : bool :=
  match fuel with
  | O => false
  | S f =>
    match a, c with
    | PMarked ma a', PMarked mc c' => list_eqb N.eqb ma mc && admits_p f ta a' tc c'
    | PMarked _ _, _ | _, PMarked _ _ => false
    | PUnk r, _ => conforms tc ta && rfn_admits r tc c
    | PNull, PNull => conforms tc ta
    | PBool x, PBool y => Bool.eqb x y
    | PNum x _, PNum y _ => raw_number_equal x y
    | PStr x, PStr y => str_eqb x y
    | PCap x, PCap y => N.eqb x y
    | PSeq la, PSeq lc =>
        match ta, tc with
        | TList ea, TList ec =>
            Nat.eqb (length la) (length lc) && forallb (fun '(x, y) => admits_p f ea x ec y) (combine la lc)
        | TTuple tas, TTuple tcs =>
            Nat.eqb (length la) (length lc) && Nat.eqb (length tas) (length tcs) &&
            forallb (fun '((t1, x), (t2, y)) => admits_p f t1 x t2 y) (combine (combine tas la) (combine tcs lc))
        | _, _ => false
        end
    | PMap ma, PMap mc =>
        list_eqb str_eqb (keys ma) (keys mc) &&
        match ta, tc with
        | TMap ea, TMap ec => forallb (fun '(x, y) => admits_p f ea (snd x) ec (snd y)) (combine ma mc)
        | TObj aa _, TObj ac _ =>
            forallb (fun '(x, y) => match lookup (fst x) aa, lookup (fst y) ac with
                                    | Some t1, Some t2 => admits_p f t1 (snd x) t2 (snd y)
                                    | _, _ => false
                                    end) (combine ma mc)
        | _, _ => false
        end
    | PSet sa, PSet sc =>
        match ta, tc with
        | TSet ea, TSet ec => rel_total (fun x y => admits_p f ea x ec y) (set_members sa) (set_members sc)
        | _, _ => false
        end
    | _, _ => false
    end
  end.

Definition admits_b (a c : value) : bool :=
  admits_p (psize (vp a) + psize (vp c) + 2) (vty a) (vp a) (vty c) (vp c).

(* "wholly known and not null": the converse clause of C01 for arithmetic, comparison, logic,
   length and membership results *)
Definition known_not_null (v : value) : bool :=
  is_wholly_known v && negb (is_null v).
