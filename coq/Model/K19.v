(* K19.v — correspondence cases for C19. *)
From Cty Require Import Base Ty BigFloat Value Hash Ops Refine SetAlg Walk.
Open Scope Z_scope.

Definition step_eqb (a b : step) : bool :=
  match a, b with
  | SAttr x, SAttr y => str_eqb x y
  | SIndex x, SIndex y => value_eqb x y
  | _, _ => false
  end.
Definition path_eqb := list_eqb step_eqb.
Definition pv_eqb (a b : path * value) : bool := path_eqb (fst a) (fst b) && value_eqb (snd a) (snd b).
Definition pm_eqb (a b : path * list mark) : bool := path_eqb (fst a) (fst b) && list_eqb N.eqb (snd a) (snd b).

Definition same_set {A} (eqb : A -> A -> bool) (l1 l2 : list A) : bool :=
  Nat.eqb (length l1) (length l2) && forallb (fun x => existsb (eqb x) l2) l1 && forallb (fun y => existsb (eqb y) l1) l2.

Inductive psop :=
| PsAdd (i : nat) (p : path) | PsRemove (i : nat) (p : path) | PsHas (i : nat) (p : path)
| PsNew | PsUnion (i j : nat) | PsInter (i j : nat) | PsSub (i j : nat) | PsSym (i j : nat)
| PsEqual (i j : nat) | PsList (i : nat).
Inductive psobs := PoNone | PoBool (b : bool) | PoList (l : list path).

Definition ps_step (st : list pathset) (o : psop) : list pathset * psobs :=
  let reg i := nth i st [] in
  let upd i s := firstn i st ++ s :: skipn (S i) st in
  match o with
  | PsAdd i p => (upd i (ps_add (reg i) p), PoNone)
  | PsRemove i p => (upd i (ps_remove (reg i) p), PoNone)
  | PsHas i p => (st, PoBool (ps_has (reg i) p))
  | PsNew => (st ++ [[]], PoNone)
  | PsUnion i j => (st ++ [ps_union (reg i) (reg j)], PoNone)
  | PsInter i j => (st ++ [ps_inter (reg i) (reg j)], PoNone)
  | PsSub i j => (st ++ [ps_subtract (reg i) (reg j)], PoNone)
  | PsSym i j => (st ++ [ps_symdiff (reg i) (reg j)], PoNone)
  | PsEqual i j => (st, PoBool (ps_equal (reg i) (reg j)))
  | PsList i => (st, PoList (ps_list (reg i)))
  end.
Fixpoint ps_run (st : list pathset) (ops : list psop) : list psobs :=
  match ops with
  | [] => []
  | o :: ops' => let '(st', ob) := ps_step st o in ob :: ps_run st' ops'
  end.
Definition psobs_eqb (a b : psobs) : bool :=
  match a, b with
  | PoNone, PoNone => true
  | PoBool x, PoBool y => Bool.eqb x y
  | PoList x, PoList y => same_set path_eqb x y      (* List() order follows Go's crc64 buckets: compared as a set *)
  | _, _ => false
  end.

Inductive k19 :=
| K19_walk (v : value) (obs : list (path * value))
| K19_apply (p : path) (v : value) (obs : res value)
| K19_transform_id (v : value) (obs : res value)
| K19_replace (p : path) (nv v : value) (obs : res value)
| K19_pathmarks (v : value) (obs : list (path * list mark))
| K19_markpaths (pvm : list (path * list mark)) (v : value) (obs : res value)
| K19_uan (v : value) (obs : res value)
| K19_patheq (a b : path) (eq pre : bool)
| K19_pathset (ops : list psop) (obs : list psobs).

Definition k19_check (k : k19) : bool :=
  let norm := fun s : str => s in
  match k with
  | K19_walk v obs => res_eqb (list_eqb pv_eqb) (walk v) (Ok obs)
  | K19_apply p v obs => res_eqb value_eqb (path_apply norm p v) obs
  | K19_transform_id v obs => res_eqb value_eqb (transform norm (fun _ x => Ok x) v) obs
  | K19_replace p nv v obs =>
      res_eqb value_eqb (transform norm (fun q x => if path_equals q p then Ok nv else Ok x) v) obs
  | K19_pathmarks v obs => match path_marks v with Ok l => same_set pm_eqb l obs | _ => false end
  | K19_markpaths pvm v obs => res_eqb value_eqb (mark_with_paths norm pvm v) obs
  | K19_uan v obs => res_eqb value_eqb (unknown_as_null norm v) obs
  | K19_patheq a b eq pre => Bool.eqb (path_equals a b) eq && Bool.eqb (path_has_prefix a b) pre
  | K19_pathset ops obs => list_eqb psobs_eqb (ps_run [] ops) obs
  end.
