(* K11.v — the standard library's specifications (Gen/SpecTable.v, regenerated from the source on
   every run) under the call protocol of Func.v; correspondence cases for C11 / C12. *)
From Coq Require Import String.
From Cty Require Import Base Ty BigFloat Value Hash Ops Refine Func.
From Cty.Gen Require Import SpecTable.
Open Scope Z_scope.

Definition find_entry (name : str) : option sentry := find (fun e => str_eqb (se_name e) name) spec_table.

(* the specification with its two callbacks replaced by what they were observed to return *)
Definition mk_std (e : sentry) (tr : res ty) (ir : res value) : spec :=
  {| s_params := se_params e; s_var := se_var e; s_type := fun _ => tr; s_impl := fun _ _ => ir; s_refine := se_refine e |}.

Definition impl_invoked (tr : list event) : bool := existsb (fun ev => match ev with EvImpl _ _ _ => true | _ => false end) tr.

Inductive k11 :=
(* ReturnTypeForValues: [tr] is what the Type callback answers if it is asked *)
| K11_type (name : str) (args : list value) (tr : res ty) (obs : res ty)
(* Call, on arguments for which the protocol answers without the implementation (unknown / dynamic
   short-circuit, argument errors); cases where the implementation runs compare nothing *)
| K11_call (name : str) (args : list value) (tr : res ty) (obs : res value).

Definition k11_check (k : k11) : bool :=
  match k with
  | K11_type name args tr obs =>
      match find_entry name with
      | None => false
      | Some e => res_eqb ty_eqb (return_type_for_values (mk_std e tr Panic) args) obs
      end
  | K11_call name args tr obs =>
      match find_entry name with
      | None => false
      | Some e => let '(r, evs) := call (mk_std e tr Panic) args in
                  if impl_invoked evs then true else res_eqb value_eqb r obs
      end
  end.
