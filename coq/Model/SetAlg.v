(* SetAlg.v — the hash-bucket set algorithm of cty/set (Add / Has / Remove over buckets kept in
   ascending hash order), generic in the element type, hash and equivalence.  Ops.v's set_add /
   set_has / set_remove are this algorithm with result-typed hash and equivalence. *)
From Coq Require Import List ZArith Bool.
Import ListNotations.
Open Scope Z_scope.

Section SetAlg.
  Variable A : Type.
  Variable h : A -> Z.
  Variable eqv : A -> A -> bool.

  Definition gbuckets := list (Z * list A).
  Definition gmembers (bs : gbuckets) : list A := flat_map snd bs.

  Definition gbucket_of (k : Z) (bs : gbuckets) : list A :=
    match find (fun b => fst b =? k) bs with Some b => snd b | None => [] end.

  Definition g_has (bs : gbuckets) (x : A) : bool := existsb (eqv x) (gbucket_of (h x) bs).

  Fixpoint gbucket_insert (k : Z) (x : A) (bs : gbuckets) : gbuckets :=
    match bs with
    | [] => [(k, [x])]
    | b :: bs' => if k <? fst b then (k, [x]) :: bs
                  else if k =? fst b then (k, snd b ++ [x]) :: bs'
                  else b :: gbucket_insert k x bs'
    end.

  Definition g_add (bs : gbuckets) (x : A) : gbuckets :=
    if g_has bs x then bs else gbucket_insert (h x) x bs.

  Fixpoint gremove_first (x : A) (l : list A) : list A :=
    match l with
    | [] => []
    | m :: l' => if eqv x m then l' else m :: gremove_first x l'
    end.

  Fixpoint g_remove (bs : gbuckets) (x : A) : gbuckets :=
    match bs with
    | [] => []
    | b :: bs' =>
        if fst b =? h x then
          match gremove_first x (snd b) with
          | [] => bs'
          | nb => (fst b, nb) :: bs'
          end
        else b :: g_remove bs' x
    end.

  Inductive gop := GAdd (x : A) | GRemove (x : A).
  Definition g_step (bs : gbuckets) (o : gop) : gbuckets :=
    match o with GAdd x => g_add bs x | GRemove x => g_remove bs x end.
End SetAlg.
