(* StdRef.v — reference semantics of the collection, set and sequence functions of the standard
   library on wholly known, unmarked arguments, written over plain lists of members and association
   lists (C13).  This is a specification, not a transcription of the code: it says what the
   documentation of each function says, with the documented result type. *)
From Coq Require Import String.
From Cty Require Import Base Ty BigFloat Value Hash Ops Refine Walk Convert Func.
From Cty.Gen Require Import SpecTable.
Open Scope Z_scope.

(* ---------- views ---------- *)
Definition members (v : value) : res (list value) := do ms <- members_of v; Ok (map snd ms).
Definition entries (v : value) : list (str * value) :=
  match vp v with PMap m => map_members (vty v) m | _ => [] end.

Definition mk_list (et : ty) (vs : list value) : value := V (TList et) (PSeq (map vp vs)).
Definition mk_tuple (vs : list value) : value := tuple_val vs.
Definition mk_map (et : ty) (kvs : list (str * value)) : value :=
  V (TMap et) (PMap (fold_left (fun acc kv => kv_insert (fst kv) (vp (snd kv)) acc) kvs [])).
Definition mk_object (kvs : list (str * value)) : value := object_val (fun s => s) kvs.
Definition mk_set (et : ty) (vs : list value) : res value :=
  match vs with [] => Ok (V (TSet et) (PSet [])) | _ => do bs <- set_from_list et (map vp vs); Ok (V (TSet et) (PSet bs)) end.

Definition is_seq (t : ty) : bool := match t with TList _ | TTuple _ => true | _ => false end.
Definition is_seq_or_set (t : ty) : bool := match t with TList _ | TTuple _ | TSet _ => true | _ => false end.

(* a whole number that fits a Go int *)
Definition whole (v : value) : option Z :=
  match vp v with
  | PNum x _ => match bf_int64 x with (i, Exact) => Some i | _ => None end
  | _ => None
  end.
Definition str_of (v : value) : option str := match vp v with PStr s => Some s | _ => None end.

Definition veq (a b : value) : res bool := do e <- equals_v a b; Ok (kt e).

Fixpoint mem_by (x : value) (l : list value) : res bool :=
  match l with [] => Ok false | y :: l' => do e <- veq x y; if e then Ok true else mem_by x l' end.

Definition bad : res value := Err OtherError.

(* ---------- the functions ---------- *)
Definition ref_length (v : value) : res value :=
  match vty v with
  | TList _ | TSet _ | TMap _ | TTuple _ => if is_null v then bad else do ms <- members v; Ok (v_int (Z.of_nat (length ms)))
  | _ => bad
  end.

Definition ref_element (l i : value) : res value :=
  if negb (is_seq (vty l)) then bad else
  match whole i with
  | None => bad
  | Some k =>
      do ms <- members l;
      match ms with
      | [] => bad
      | _ => let n := Z.of_nat (length ms) in Ok (nth (Z.to_nat (k mod n)) ms v_dyn)      (* the index wraps around *)
      end
  end.

Definition ref_hasindex (c k : value) : res value :=
  match vty c with
  | TList _ | TTuple _ =>
      do ms <- members c;
      Ok (v_bool (match vty k, whole k with TNum, Some i => (0 <=? i) && (i <? Z.of_nat (length ms)) | _, _ => false end))
  | TMap _ => Ok (v_bool (match str_of k with Some s => match lookup s (entries c) with Some _ => true | None => false end | None => false end))
  | _ => bad
  end.

Definition ref_index (c k : value) : res value :=
  match vty c with
  | TList _ | TTuple _ =>
      match vty k, whole k with
      | TNum, Some i => do ms <- members c;
                        if (0 <=? i) && (i <? Z.of_nat (length ms)) then Ok (nth (Z.to_nat i) ms v_dyn) else bad
      | _, _ => bad
      end
  | TMap _ => match vty k, str_of k with
              | TStr, Some s => match lookup s (entries c) with Some x => Ok x | None => bad end
              | _, _ => bad
              end
  | _ => bad
  end.

Definition ref_lookup (m k d : value) : res value :=
  match str_of k with
  | None => bad
  | Some s =>
    match vty m with
    | TMap et =>
        (* the default must be usable as an element of the map, whether or not it is needed *)
        match convert d et with
        | Ok d' => match lookup s (entries m) with Some x => Ok x | None => Ok d' end
        | Err _ => bad
        | r => r
        end
    | TObj attrs _ => match lookup s (entries m) with Some x => Ok x | None => Ok d end
    | _ => bad
    end
  end.

Definition ref_contains (c x : value) : res value :=
  if negb (is_seq_or_set (vty c)) || is_null c then bad else
  do ms <- members c; do b <- mem_by x ms; Ok (v_bool b).

Definition ref_keys (m : value) : res value :=
  match vty m with
  | TMap _ => Ok (mk_list TStr (map (fun kv => v_str (fst kv)) (entries m)))
  | TObj attrs _ => Ok (mk_tuple (map (fun kt => v_str (fst kt)) attrs))
  | _ => bad
  end.

Definition ref_values (m : value) : res value :=
  match vty m with
  | TMap et => Ok (mk_list et (map snd (entries m)))
  | TObj _ _ => Ok (mk_tuple (map snd (entries m)))
  | _ => bad
  end.

(* merge: later arguments win; maps of one type give a map of that type, anything else an object *)
Definition ref_merge (args : list value) : res value :=
  if negb (forallb (fun a => match vty a with TMap _ | TObj _ _ => true | _ => false end) args) then bad else
  let live := filter (fun a => negb (is_null a)) args in
  let all := flat_map entries live in
  let merged := fold_left (fun acc kv => kv_insert (fst kv) (snd kv) acc) all [] in
  match args with
  | [] => Ok (mk_object [])
  | a0 :: rest =>
      if forallb (fun a => ty_eqb (vty a) (vty a0)) rest && negb (existsb (fun a => is_null a && is_objt (vty a)) args) then
        match vty a0 with
        | TMap et => Ok (mk_map et merged)
        | _ => Ok (mk_object merged)
        end
      else Ok (mk_object merged)
  end.

(* concat: lists of (unifiable) element types give a list, anything with a tuple gives a tuple *)
Definition ref_concat (args : list value) : res value :=
  match args with
  | [] => bad
  | _ =>
    if negb (forallb (fun a => is_seq (vty a)) args) then bad else
    do parts <- map_res members args;
    let tuple_result := Ok (mk_tuple (concat parts)) in
    if forallb (fun a => is_listt (vty a)) args then
      do u <- unify (map vty args) true;
      match u with
      | Some (TList et, _) =>
          do conv <- map_res (fun a => match convert a (TList et) with Ok x => Ok x | Err _ => bad | r => r end) args;
          do ps <- map_res members conv;
          Ok (mk_list et (concat ps))
      | _ => tuple_result
      end
    else tuple_result
  end.

(* flatten: the leaves of nested lists, sets and tuples, in order; anything else (nulls too) is a leaf *)
Fixpoint ref_flatten_at (fuel : nat) (v : value) : res (list value) :=
  match fuel with
  | O => OutOfFuel
  | S f =>
      do ms <- members v;
      do parts <- map_res (fun m => if negb (is_null m) && is_seq_or_set (vty m) then ref_flatten_at f m else Ok [m]) ms;
      Ok (concat parts)
  end.
Definition ref_flatten (v : value) : res value :=
  if negb (is_seq_or_set (vty v)) then bad else
  do l <- ref_flatten_at (S (psize (vp v))) v; Ok (mk_tuple l).

Definition ref_slice (l a b : value) : res value :=
  if negb (is_seq (vty l)) then bad else
  match whole a, whole b with
  | Some i, Some j =>
      do ms <- members l;
      let n := Z.of_nat (length ms) in
      if (0 <=? i) && (i <=? j) && (j <=? n) then
        let part := firstn (Z.to_nat (j - i)) (skipn (Z.to_nat i) ms) in
        match vty l with
        | TList et => Ok (mk_list et part)
        | _ => Ok (mk_tuple part)
        end
      else bad
  | _, _ => bad
  end.

Fixpoint chunks (fuel : nat) (n : nat) (l : list value) : list (list value) :=
  match fuel with
  | O => []
  | S f => match l with [] => [] | _ => firstn n l :: chunks f n (skipn n l) end
  end.
Definition ref_chunklist (l s : value) : res value :=
  match vty l, whole s with
  | TList et, Some n =>
      if n <? 0 then bad else
      do ms <- members l;
      match ms with
      | [] => Ok (mk_list (TList et) [])
      | _ => let cs := if n =? 0 then [ms] else chunks (length ms) (Z.to_nat n) ms in
             Ok (mk_list (TList et) (map (mk_list et) cs))
      end
  | _, _ => bad
  end.

Fixpoint distinct_acc (l acc : list value) : res (list value) :=
  match l with
  | [] => Ok (rev acc)
  | x :: l' => do b <- mem_by x acc; distinct_acc l' (if b then acc else x :: acc)
  end.
Definition ref_distinct (l : value) : res value :=
  match vty l with
  | TList et => do ms <- members l; do d <- distinct_acc ms []; Ok (mk_list et d)
  | _ => bad
  end.

Definition ref_compact (l : value) : res value :=
  match vty l with
  | TList TStr => do ms <- members l;
                  Ok (mk_list TStr (filter (fun m => negb (is_null m) && match str_of m with Some [] => false | _ => true end) ms))
  | _ => bad
  end.

Definition ref_reverse (l : value) : res value :=
  do ms <- members l;
  match vty l with
  | TList et | TSet et => Ok (mk_list et (rev ms))
  | TTuple _ => Ok (mk_tuple (rev ms))
  | _ => bad
  end.

(* sort: byte-wise lexicographic order; a null element is an error *)
Fixpoint insert_sorted (s : str) (l : list str) : list str :=
  match l with [] => [s] | x :: l' => if str_ltb x s || str_eqb x s then x :: insert_sorted s l' else s :: l end.
Definition ref_sort (l : value) : res value :=
  match vty l with
  | TList TStr =>
      do ms <- members l;
      if existsb is_null ms then bad else
      Ok (mk_list TStr (map v_str (fold_left (fun acc s => insert_sorted s acc) (flat_map (fun m => match str_of m with Some s => [s] | None => [] end) ms) [])))
  | _ => bad
  end.

Definition ref_zipmap (ks vs : value) : res value :=
  match vty ks with
  | TList TStr =>
      do kms <- members ks;
      if existsb is_null kms then bad else
      if negb (is_seq (vty vs)) then bad else
      do vms <- members vs;
      if negb (Nat.eqb (length kms) (length vms)) then bad else
      let kvs := combine (flat_map (fun m => match str_of m with Some s => [s] | None => [] end) kms) vms in
      match vty vs with
      | TList et => Ok (mk_map et kvs)
      | _ => Ok (mk_object kvs)
      end
  | _ => bad
  end.

(* range: start, start+step, ... strictly before end; at most 1024 elements *)
Fixpoint range_steps (fuel : nat) (cur e step : value) (down : bool) (acc : list value) : res (list value) :=
  match fuel with
  | O => Err OtherError                              (* more than 1024 values *)
  | S f =>
      do stop <- (if down then lte_v cur e else gte_v cur e);
      if kt stop then Ok (rev acc) else
      match add_v cur step with
      | Ok nxt => range_steps f nxt e step down (cur :: acc)
      | _ => Err OtherError                          (* stepping between opposing infinities *)
      end
  end.
Definition ref_range (args : list value) : res value :=
  if negb (forallb (fun a => match vty a with TNum => negb (is_null a) | _ => false end) args) then bad else
  let zero := v_int 0 in
  do t <- match args with
          | [e] => do neg <- lt_v e zero; Ok (zero, e, v_int (if kt neg then -1 else 1))
          | [s; e] => do neg <- lt_v e s; Ok (s, e, v_int (if kt neg then -1 else 1))
          | [s; e; st] => Ok (s, e, st)
          | _ => Err OtherError
          end;
  let '(s, e, st) := t in
  do z <- veq st zero; if z then bad else
  do dn <- lt_v st zero;
  let down := kt dn in
  do wrong <- (if down then gt_v e s else lt_v e s);
  if kt wrong then bad else
  do l <- range_steps 1025 s e st down [];
  Ok (mk_list TNum l).

Definition ref_coalesce (args : list value) : res value :=
  do u <- unify (map vty args) true;
  match u with
  | Some (t, _) => match filter (fun a => negb (is_null a)) args with
                   | a :: _ => match convert a t with Ok x => Ok x | Err _ => bad | r => r end
                   | [] => bad
                   end
  | None => bad
  end.

Definition ref_coalescelist (args : list value) : res value :=
  match args with
  | [] => bad
  | _ =>
    if negb (forallb (fun a => is_seq (vty a)) args) then bad else
    (fix go (l : list value) : res value :=
       match l with
       | [] => bad
       | a :: l' => if is_null a then go l' else
                    do ms <- members a; match ms with [] => go l' | _ => Ok a end
       end) args
  end.

(* ---------- sets ---------- *)
Definition ref_sethas (s x : value) : res value :=
  match vty s with TSet _ => do ms <- members s; do b <- mem_by x ms; Ok (v_bool b) | _ => bad end.

(* the element type the operands are brought to, and the operands' members converted to it *)
Definition set_operands (args : list value) : res (ty * list (list value)) :=
  if negb (forallb (fun a => is_sett (vty a) && negb (is_null a)) args) then Err OtherError else
  let etys := flat_map (fun a => match members a with Ok [] => if is_dyn (elem_ty (vty a)) then [] else [elem_ty (vty a)] | _ => [elem_ty (vty a)] end) args in
  do et <- match etys with
           | [] => Ok TDyn
           | _ => do u <- unify etys true; match u with Some (t, _) => Ok t | None => Err OtherError end
           end;
  do conv <- map_res (fun a => match convert a (TSet et) with Ok x => members x | Err _ => Err OtherError | Panic => Panic | OutOfFuel => OutOfFuel end) args;
  Ok (et, conv).

Fixpoint filter_res (f : value -> res bool) (l : list value) : res (list value) :=
  match l with [] => Ok [] | x :: l' => do b <- f x; do r <- filter_res f l'; Ok (if b then x :: r else r) end.

Definition ref_setop (op : nat) (args : list value) : res value :=
  do o <- set_operands args;
  let '(et, parts) := o in
  match parts with
  | [] => bad
  | p0 :: rest =>
      do r <- fold_left (fun acc p =>
                do a <- acc;
                match op with
                | 0%nat => do extra <- filter_res (fun x => do b <- mem_by x a; Ok (negb b)) p; Ok (a ++ extra)                 (* union *)
                | 1%nat => filter_res (fun x => mem_by x p) a                                                              (* intersection *)
                | 2%nat => filter_res (fun x => do b <- mem_by x p; Ok (negb b)) a                                         (* subtraction *)
                | _ => do l <- filter_res (fun x => do b <- mem_by x p; Ok (negb b)) a;
                       do r' <- filter_res (fun x => do b <- mem_by x a; Ok (negb b)) p; Ok (l ++ r')                        (* symmetric difference *)
                end) rest (Ok p0);
      mk_set et r
  end.

(* setproduct: all combinations, first argument varying slowest; a list when every argument is a
   list or tuple, else a set *)
Fixpoint product (parts : list (list value)) : list (list value) :=
  match parts with
  | [] => [[]]
  | p :: rest => flat_map (fun x => map (fun t => x :: t) (product rest)) p
  end.
Definition ref_setproduct (args : list value) : res value :=
  if Nat.ltb (length args) 2 then bad else
  if negb (forallb (fun a => is_seq_or_set (vty a) && negb (is_null a)) args) then bad else
  do etys <- map_res (fun a => match vty a with
                               | TList e | TSet e => Ok e
                               | TTuple [] => Ok TDyn
                               | TTuple es => do u <- unify es true; match u with Some (t, _) => Ok t | None => Err OtherError end
                               | _ => Err OtherError
                               end) args;
  do raw <- map_res members args;
  let tt := TTuple etys in
  (* with an empty operand there are no combinations, and nothing to convert *)
  if existsb (fun p => match p with [] => true | _ => false end) raw then
    (if forallb (fun a => is_seq (vty a)) args then Ok (mk_list tt []) else mk_set tt [])
  else
  do parts <- map_res (fun at_ => do ms <- members (fst at_);
                                  map_res (fun m => if ty_eqb (vty m) (snd at_) then Ok m
                                                    else match convert m (snd at_) with Ok x => Ok x | Err _ => Err OtherError | r => r end) ms)
                      (combine args etys);
  let tuples := map mk_tuple (product parts) in
  if forallb (fun a => is_seq (vty a)) args then Ok (mk_list tt tuples) else mk_set tt tuples.

(* ---------- dispatch ---------- *)
(* a null argument is refused unless the function's parameter is declared to accept nulls
   (the declarations are read from the source: Gen/SpecTable.v) *)
Definition null_refused (name : str) (args : list value) : bool :=
  match find (fun e => str_eqb (se_name e) name) spec_table with
  | None => false
  | Some e =>
      existsb (fun iv => is_null (snd iv) &&
                         negb (match nth_error (se_params e) (fst iv) with
                               | Some p => p_null p
                               | None => match se_var e with Some p => p_null p | None => true end
                               end))
              (combine (seq 0 (length args)) args)
  end.

Definition ref_fn (name : str) (args : list value) : option (res value) :=
  if str_eqb name b#"Length" then match args with [a] => Some (ref_length a) | _ => Some bad end else
  if str_eqb name b#"Element" then match args with [a; b] => Some (ref_element a b) | _ => Some bad end else
  if str_eqb name b#"HasIndex" then match args with [a; b] => Some (ref_hasindex a b) | _ => Some bad end else
  if str_eqb name b#"Index" then match args with [a; b] => Some (ref_index a b) | _ => Some bad end else
  if str_eqb name b#"Lookup" then match args with [a; b; c] => Some (ref_lookup a b c) | _ => Some bad end else
  if str_eqb name b#"Contains" then match args with [a; b] => Some (ref_contains a b) | _ => Some bad end else
  if str_eqb name b#"Keys" then match args with [a] => Some (ref_keys a) | _ => Some bad end else
  if str_eqb name b#"Values" then match args with [a] => Some (ref_values a) | _ => Some bad end else
  if str_eqb name b#"Merge" then Some (ref_merge args) else
  if str_eqb name b#"Concat" then Some (ref_concat args) else
  if str_eqb name b#"Flatten" then match args with [a] => Some (ref_flatten a) | _ => Some bad end else
  if str_eqb name b#"Slice" then match args with [a; b; c] => Some (ref_slice a b c) | _ => Some bad end else
  if str_eqb name b#"Chunklist" then match args with [a; b] => Some (ref_chunklist a b) | _ => Some bad end else
  if str_eqb name b#"Distinct" then match args with [a] => Some (ref_distinct a) | _ => Some bad end else
  if str_eqb name b#"Compact" then match args with [a] => Some (ref_compact a) | _ => Some bad end else
  if str_eqb name b#"ReverseList" then match args with [a] => Some (ref_reverse a) | _ => Some bad end else
  if str_eqb name b#"Sort" then match args with [a] => Some (ref_sort a) | _ => Some bad end else
  if str_eqb name b#"Zipmap" then match args with [a; b] => Some (ref_zipmap a b) | _ => Some bad end else
  if str_eqb name b#"Range" then Some (ref_range args) else
  if str_eqb name b#"Coalesce" then Some (ref_coalesce args) else
  if str_eqb name b#"CoalesceList" then Some (ref_coalescelist args) else
  if str_eqb name b#"SetHasElement" then match args with [a; b] => Some (ref_sethas a b) | _ => Some bad end else
  if str_eqb name b#"SetUnion" then Some (ref_setop 0 args) else
  if str_eqb name b#"SetIntersection" then Some (ref_setop 1 args) else
  if str_eqb name b#"SetSubtract" then match args with [a; b] => Some (ref_setop 2 args) | _ => Some bad end else
  if str_eqb name b#"SetSymmetricDifference" then Some (ref_setop 3 args) else
  if str_eqb name b#"SetProduct" then Some (ref_setproduct args) else
  None.

Definition ref_call (name : str) (args : list value) : option (res value) :=
  if null_refused name args then Some bad else ref_fn name args.

(* ---------- correspondence cases (C13) ---------- *)
Inductive k13 := K13_call (name : str) (args : list value) (obs : res value).

(* sets are compared as sets of members (the bucket layout depends on insertion history) *)
Definition same_result (a b : value) : bool :=
  value_eqb a b ||
  (ty_eqb (vty a) (vty b) &&
   match raw_equals a b with Ok r => r | _ => false end).

Definition k13_check (k : k13) : bool :=
  match k with
  | K13_call name args obs =>
      match ref_call name args with
      | None => false
      | Some r => res_eqb_anyerr same_result r obs
      end
  end.
