(* Convert.v — cty/convert: conversion lookup (getConversion / getConversionKnown), the wrapper for
   marks, dynamic targets, unknown and null values, every structural conversion, Convert, and
   unification (unify and its helpers, sortTypes, compareTypes).  Paths are dropped: errors are
   compared by class only.  Conversions are Gallina closures, as they are Go closures.
   Go map iteration is modelled in sorted key order (the harness checks that the implementation's
   answer does not depend on the order before comparing). *)
From Cty Require Import Base Ty BigFloat Value Hash Ops Refine Walk.
Open Scope Z_scope.

Definition conv := value -> res value.

Record cfns := {
  c_get : ty -> ty -> bool -> res (option conv);                       (* getConversion; Ok None = nil *)
  c_unify : list ty -> bool -> res (option (ty * list (option conv))); (* unify; Ok None = NilType *)
  c_convert : value -> ty -> res value                                 (* Convert *)
}.
Definition cfns0 : cfns :=
  {| c_get := fun _ _ _ => OutOfFuel; c_unify := fun _ _ => OutOfFuel; c_convert := fun _ _ => OutOfFuel |}.

Definition can_coll_tys (ts : list ty) : bool := match unify_elem_ty TDyn ts with Some _ => true | None => false end.
Definition is_strt (t : ty) : bool := match t with TStr => true | _ => false end.
Definition is_prim (t : ty) : bool := match t with TBool | TNum | TStr => true | _ => false end.
Definition is_listt (t : ty) : bool := match t with TList _ => true | _ => false end.
Definition is_sett (t : ty) : bool := match t with TSet _ => true | _ => false end.
Definition is_mapt (t : ty) : bool := match t with TMap _ => true | _ => false end.
Definition is_objt (t : ty) : bool := match t with TObj _ _ => true | _ => false end.
Definition is_tupt (t : ty) : bool := match t with TTuple _ => true | _ => false end.
Definition is_capt (t : ty) : bool := match t with TCap _ => true | _ => false end.
Definition elem_ty (t : ty) : ty := match t with TList e | TSet e | TMap e => e | _ => TDyn end.
Definition attrs_of (t : ty) : list (str * ty) := match t with TObj a _ => a | _ => [] end.
Definition opts_of (t : ty) : list str := match t with TObj _ o => o | _ => [] end.
Definition etys_of (t : ty) : list ty := match t with TTuple l => l | _ => [] end.
Definition str_in (s : str) (l : list str) : bool := existsb (str_eqb s) l.

(* a null result member loses optional-attribute annotations, keeping its marks *)
Definition null_strip (v : value) : value :=
  if is_null v then with_marks (v_null (strip_opt (vty v))) (marks_of v) else v.

Definition length_known (v : value) : res bool :=
  do l <- length_core v;
  match l with LenKnown _ => Ok true | LenRange lo hi => Ok (lo =? hi) end.

Definition member_values (v : value) : res (list value) := do ms <- members_of v; Ok (map snd ms).
Definition member_kvs (v : value) : res (list (str * value)) :=
  match vty v, vp v with
  | (TMap _ | TObj _ _), PMap m => Ok (map_members (vty v) m)
  | _, _ => Ok []
  end.

Fixpoint map_res {A B} (f : A -> res B) (l : list A) : res (list B) :=
  match l with [] => Ok [] | x :: l' => do y <- f x; do r <- map_res f l'; Ok (y :: r) end.
Definition apply_opt (c : option conv) (v : value) : res value := match c with Some f => f v | None => Ok v end.

(* ---------- primitive conversions ---------- *)
Definition s_true : str := [116;114;117;101]%N.
Definition s_false : str := [102;97;108;115;101]%N.
Definition prim_safe (i o : ty) : option conv :=
  match i, o with
  | TNum, TStr => Some (fun v => match pnum v with Some x => Ok (v_str (text_f_shortest (fst x))) | None => Panic end)
  | TBool, TStr => Some (fun v => match pbool v with Some b => Ok (v_str (if b then s_true else s_false)) | None => Panic end)
  | _, _ => None
  end.
Definition prim_unsafe (i o : ty) : option conv :=
  match i, o with
  | TStr, TNum => Some (fun v => match vp v with
                                 | PStr s => match bf_parse s 512 with POk x => Ok (v_num x) | PErr => Err OtherError end
                                 | _ => Panic end)
  | TStr, TBool => Some (fun v => match vp v with
                                  | PStr s => if str_eqb s s_true || str_eqb s [49%N] then Ok v_true
                                              else if str_eqb s s_false || str_eqb s [48%N] then Ok v_false
                                              else Err OtherError
                                  | _ => Panic end)
  | _, _ => None
  end.

(* ---------- prepareUnknownResult ---------- *)
Definition prepare_unknown_result (rg : vrange) (target : ty) : res value :=
  let src := rty rg in
  do ret <- (if definitely_not_null_r rg then refine_not_null (v_unknown target) else Ok (v_unknown target));
  let idn (s : str) := s in
  if is_objt src && is_mapt target then
    let n := Z.of_nat (length (attrs_of src)) in rb_run idn ret [RcLenLower n; RcLenUpper n]
  else if is_tupt src && is_listt target then
    let n := Z.of_nat (length (etys_of src)) in rb_run idn ret [RcLenLower n; RcLenUpper n]
  else if is_tupt src && is_sett target then
    let n := Z.of_nat (length (etys_of src)) in
    if n <=? 1 then rb_run idn ret [RcLenLower n; RcLenUpper n]
    else rb_run idn ret [RcLenLower 1; RcLenUpper n]
  else if is_coll src && is_coll target then
    do lo <- len_lower rg; do hi <- len_upper rg;
    let lows := if is_sett target then (if 0 <? lo then [RcLenLower 1] else []) else [RcLenLower lo] in
    rb_run idn ret (lows ++ [RcLenUpper hi])
  else Ok ret.

(* ---------- dynamicReplace ---------- *)
Definition unify_ty (r : cfns) (ts : list ty) (unsafe : bool) : res (option ty) :=
  do u <- c_unify r ts unsafe; Ok (match u with Some (t, _) => Some t | None => None end).

(* [i = None] stands for NilType (a failed unification feeding the next level) *)
Fixpoint dynamic_replace (r : cfns) (i : option ty) (o : ty) {struct o} : res ty :=
  match i with
  | None | Some TDyn => Ok o
  | Some it =>
    match o with
    | TDyn => Ok it
    | TBool | TNum | TStr | TCap _ => Ok o
    | TMap oe =>
        match it with
        | TMap ie => do e <- dynamic_replace r (Some ie) oe; Ok (TMap e)
        | TObj attrs _ => do u <- unify_ty r (map snd attrs) true; do e <- dynamic_replace r u oe; Ok (TMap e)
        | _ => Ok o
        end
    | TObj oattrs _ =>
        match it with
        | TMap ie =>
            do l <- (fix go (l : list (str * ty)) : res (list (str * ty)) :=
                       match l with [] => Ok [] | kt :: l' => do t <- dynamic_replace r (Some ie) (snd kt); do x <- go l'; Ok ((fst kt, t) :: x) end) oattrs;
            Ok (TObj l [])
        | TObj iattrs _ =>
            do l <- (fix go (l : list (str * ty)) : res (list (str * ty)) :=
                       match l with
                       | [] => Ok []
                       | kt :: l' =>
                           do t <- match lookup (fst kt) iattrs with
                                   | None => Ok (snd kt)
                                   | Some ia => dynamic_replace r (Some ia) (snd kt)
                                   end;
                           do x <- go l'; Ok ((fst kt, t) :: x)
                       end) oattrs;
            Ok (TObj l [])
        | _ => Ok o          (* fix: commit 00e8d26 (was the empty object type) *)
        end
    | TSet oe =>
        match it with
        | TSet ie | TList ie => do e <- dynamic_replace r (Some ie) oe; Ok (TSet e)
        | TTuple es => do u <- unify_ty r es true; do e <- dynamic_replace r u oe; Ok (TSet e)
        | _ => Ok o
        end
    | TList oe =>
        match it with
        | TSet ie | TList ie => do e <- dynamic_replace r (Some ie) oe; Ok (TList e)
        | TTuple es => do u <- unify_ty r es true; do e <- dynamic_replace r u oe; Ok (TList e)
        | _ => Ok o
        end
    | TTuple oes =>
        match it with
        | TTuple ies =>
            if negb (Nat.eqb (length ies) (length oes)) then Ok o else     (* fix: commit 2ed3a1c *)
            do l <- (fix go (os is : list ty) : res (list ty) :=
                       match os, is with
                       | [], _ => Ok []
                       | ot :: os', it' :: is' => do t <- dynamic_replace r (Some it') ot; do x <- go os' is'; Ok (t :: x)
                       | _ :: _, [] => Panic            (* TupleElementType out of range *)
                       end) oes ies;
            Ok (TTuple l)
        | _ => Ok o          (* fix: commit 2ed3a1c *)
        end
    end
  end.

(* ---------- the wrapper of getConversion ---------- *)
Definition wrap (r : cfns) (outT : ty) (c : conv) : conv := fun v =>
  let '(u, ms) := unmark v in
  let res :=
    if is_dyn outT then Ok u
    else if negb (is_known u) then
      do rg <- range_of u; do t <- dynamic_replace r (Some (vty u)) (strip_opt outT); prepare_unknown_result rg t
    else if is_null u then
      do t <- dynamic_replace r (Some (vty u)) (strip_opt outT); Ok (v_null t)
    else c u in
  rmap (fun x => with_marks x ms) res.

(* ---------- run-time element unification ---------- *)
Definition unify_elems (r : cfns) (vs : list value) (unsafe : bool) : res (list value) :=
  do u <- unify_ty r (map vty vs) unsafe;
  match u with
  | None => Err OtherError
  | Some ut =>
      map_res (fun v => if ty_equals (vty v) ut then Ok v else
                        do c <- c_get r (vty v) ut unsafe;
                        match c with Some f => f v | None => Panic end) vs     (* a nil conversion is called *)
  end.
Definition unify_kvs (r : cfns) (kvs : list (str * value)) (unsafe : bool) : res (list (str * value)) :=
  do vs <- unify_elems r (map snd kvs) unsafe; Ok (combine (map fst kvs) vs).

Definition idn (s : str) : str := s.

(* ---------- collection conversions ---------- *)
Definition conv_coll_to_list (r : cfns) (ety : ty) (c : option conv) : conv := fun val =>
  do k <- length_known val;
  if negb k then do et <- dynamic_replace r (Some (elem_ty (vty val))) (strip_opt ety); Ok (v_unknown (TList et)) else
  do ms <- member_values val;
  do elems <- map_res (fun m => do x <- apply_opt c m; Ok (null_strip x)) ms;
  match elems with
  | [] => Ok (V (TList (if is_dyn ety then elem_ty (vty val) else strip_opt ety)) (PSeq []))
  | _ => if can_coll_tys (map vty elems) then list_val elems else Err OtherError
  end.

Definition conv_coll_to_set (ety : ty) (c : option conv) : conv := fun val =>
  do ms <- member_values val;
  do elems <- map_res (fun m => do x <- apply_opt c m; Ok (null_strip x)) ms;
  match elems with
  | [] => Ok (V (TSet (if is_dyn ety then elem_ty (vty val) else strip_opt ety)) (PSet []))
  | _ => if can_coll_tys (map vty elems) then set_val elems else Err OtherError
  end.

Definition conv_coll_to_map (r : cfns) (ety : ty) (c : option conv) : conv := fun val =>
  do kvs <- member_kvs val;
  do elems <- map_res (fun kv => do x <- apply_opt c (snd kv); Ok (fst kv, x)) kvs;
  match elems with
  | [] => Ok (V (TMap (if is_dyn ety then elem_ty (vty val) else strip_opt ety)) (PMap []))
  | _ =>
      do elems' <- (if is_coll ety || is_objt ety then unify_kvs r elems false else Ok elems);
      if can_coll_tys (map (fun kv => vty (snd kv)) elems') then map_val idn elems' else Err OtherError
  end.

(* the element type chosen for a tuple/object going to a collection of dynamic: None = no conversion *)
Definition pick_ety (r : cfns) (tys : list ty) (ety : ty) (unsafe tuple_rule : bool) : res (option ty) :=
  if is_dyn ety then
    do u <- unify_ty r tys unsafe;
    match u with
    | None => Ok None
    | Some TDyn => if tuple_rule && negb (forallb is_dyn tys) then Ok None else Ok (Some TDyn)
    | Some t => Ok (Some t)
    end
  else Ok (Some ety).

Fixpoint elem_convs (r : cfns) (tys : list ty) (ety : ty) (unsafe : bool) : res (option (list (option conv))) :=
  match tys with
  | [] => Ok (Some [])
  | t :: tys' =>
      if ty_equals t ety then
        do rest <- elem_convs r tys' ety unsafe; Ok (match rest with Some l => Some (None :: l) | None => None end)
      else
        do c <- c_get r t ety unsafe;
        match c with
        | None => Ok None
        | Some f => do rest <- elem_convs r tys' ety unsafe; Ok (match rest with Some l => Some (Some f :: l) | None => None end)
        end
  end.

Fixpoint zip_apply (cs : list (option conv)) (vs : list value) : res (list value) :=
  match cs, vs with
  | c :: cs', v :: vs' => do x <- apply_opt c v; do rest <- zip_apply cs' vs'; Ok (x :: rest)
  | _, [] => Ok []
  | [], _ :: _ => Panic
  end.

Definition conv_tuple_to_set (r : cfns) (tupT : ty) (setEty : ty) (unsafe : bool) : res (option conv) :=
  let tys := etys_of tupT in
  match tys with
  | [] => Ok (Some (fun _ => Ok (V (TSet (strip_opt setEty)) (PSet []))))
  | _ =>
    do e <- pick_ety r tys setEty unsafe true;
    match e with
    | None => Ok None
    | Some ety =>
      do cs <- elem_convs r tys ety unsafe;
      match cs with
      | None => Ok None
      | Some convs => Ok (Some (fun val =>
          do ms <- member_values val;
          do xs <- zip_apply convs ms;
          let elems := map null_strip xs in
          if can_coll_tys (map vty elems) then set_val elems else Err OtherError))
      end
    end
  end.

Definition conv_tuple_to_list (r : cfns) (tupT : ty) (listEty : ty) (unsafe : bool) : res (option conv) :=
  let tys := etys_of tupT in
  match tys with
  | [] => Ok (Some (fun _ => Ok (V (TList (strip_opt listEty)) (PSeq []))))
  | _ =>
    do e <- pick_ety r tys listEty unsafe true;
    match e with
    | None => Ok None
    | Some ety =>
      do cs <- elem_convs r tys ety unsafe;
      match cs with
      | None => Ok None
      | Some convs => Ok (Some (fun val =>
          do ms <- member_values val;
          do xs <- zip_apply convs ms;
          do elems <- unify_elems r xs unsafe;
          if can_coll_tys (map vty elems) then list_val elems else Err OtherError))
      end
    end
  end.

Fixpoint attr_convs (r : cfns) (attrs : list (str * ty)) (ety : ty) (unsafe : bool) : res (option (list (str * option conv))) :=
  match attrs with
  | [] => Ok (Some [])
  | kt :: attrs' =>
      if ty_equals (snd kt) ety then
        do rest <- attr_convs r attrs' ety unsafe; Ok (match rest with Some l => Some ((fst kt, None) :: l) | None => None end)
      else
        do c <- c_get r (snd kt) ety unsafe;
        match c with
        | None => Ok None
        | Some f => do rest <- attr_convs r attrs' ety unsafe; Ok (match rest with Some l => Some ((fst kt, Some f) :: l) | None => None end)
        end
  end.

Definition conv_object_to_map (r : cfns) (objT : ty) (mapEty : ty) (unsafe : bool) : res (option conv) :=
  let attrs := attrs_of objT in
  match attrs with
  | [] => Ok (Some (fun _ => Ok (V (TMap (strip_opt mapEty)) (PMap []))))
  | _ =>
    do e <- pick_ety r (map snd attrs) mapEty unsafe false;
    match e with
    | None => Ok None
    | Some ety =>
      do cs <- attr_convs r attrs ety unsafe;
      match cs with
      | None => Ok None
      | Some convs => Ok (Some (fun val =>
          do kvs <- member_kvs val;
          do elems <- map_res (fun kv => do x <- apply_opt (match lookup (fst kv) convs with Some c => c | None => None end) (snd kv); Ok (fst kv, x)) kvs;
          do elems' <- (if is_coll ety || is_objt ety then unify_kvs r elems unsafe else Ok elems);
          if can_coll_tys (map (fun kv => vty (snd kv)) elems') then map_val idn elems' else Err OtherError))
      end
    end
  end.

(* per attribute: Some (Some f) conversion, Some None = same type (no entry), None' = optional without conversion *)
Inductive aconv := AcSame | AcConv (f : conv) | AcNone.
Fixpoint map_obj_convs (r : cfns) (attrs : list (str * ty)) (opts : list str) (mapEty : ty) (unsafe : bool) : res (option (list (str * aconv))) :=
  match attrs with
  | [] => Ok (Some [])
  | kt :: attrs' =>
      if ty_equals (snd kt) mapEty then
        do rest <- map_obj_convs r attrs' opts mapEty unsafe; Ok (match rest with Some l => Some ((fst kt, AcSame) :: l) | None => None end)
      else
        do c <- c_get r mapEty (snd kt) unsafe;
        match c with
        | Some f => do rest <- map_obj_convs r attrs' opts mapEty unsafe; Ok (match rest with Some l => Some ((fst kt, AcConv f) :: l) | None => None end)
        | None =>
            if str_in (fst kt) opts && unsafe then
              do rest <- map_obj_convs r attrs' opts mapEty unsafe; Ok (match rest with Some l => Some ((fst kt, AcNone) :: l) | None => None end)
            else Ok None
        end
  end.

Definition conv_map_to_object (r : cfns) (mapT objT : ty) (unsafe : bool) : res (option conv) :=
  let attrs := attrs_of objT in
  let opts := opts_of objT in
  do cs <- map_obj_convs r attrs opts (elem_ty mapT) unsafe;
  match cs with
  | None => Ok None
  | Some convs => Ok (Some (fun val =>
      do kvs <- member_kvs val;
      do elems <- (fix go (l : list (str * value)) : res (list (str * value)) :=
                     match l with
                     | [] => Ok []
                     | kv :: l' =>
                         match lookup (fst kv) attrs with
                         | None => go l'
                         | Some _ =>
                             do x <- match lookup (fst kv) convs with
                                     | Some (AcConv f) => f (snd kv)
                                     | Some AcNone => Err OtherError
                                     | _ => Ok (snd kv)
                                     end;
                             do rest <- go l'; Ok ((fst kv, null_strip x) :: rest)
                         end
                     end) kvs;
      do full <- (fix go (l : list (str * ty)) : res (list (str * value)) :=
                    match l with
                    | [] => Ok []
                    | kt :: l' =>
                        do x <- match lookup (fst kt) elems with
                                | Some v => Ok v
                                | None => if str_in (fst kt) opts then Ok (v_null (strip_opt (snd kt))) else Err OtherError
                                end;
                        do rest <- go l'; Ok ((fst kt, x) :: rest)
                    end) attrs;
      Ok (object_val idn full)))
  end.

(* ---------- object -> object, tuple -> tuple ---------- *)
Fixpoint obj_convs (r : cfns) (oattrs : list (str * ty)) (iattrs : list (str * ty)) (oopts : list str) (unsafe : bool)
  : res (option (list (str * option conv))) :=
  match oattrs with
  | [] => Ok (Some [])
  | kt :: rest =>
      match lookup (fst kt) iattrs with
      | None => if str_in (fst kt) oopts then obj_convs r rest iattrs oopts unsafe else Ok None
      | Some ia =>
          if ty_equals ia (snd kt) then
            do x <- obj_convs r rest iattrs oopts unsafe; Ok (match x with Some l => Some ((fst kt, None) :: l) | None => None end)
          else
            do c <- c_get r ia (snd kt) unsafe;
            match c with
            | None => Ok None
            | Some f => do x <- obj_convs r rest iattrs oopts unsafe; Ok (match x with Some l => Some ((fst kt, Some f) :: l) | None => None end)
            end
      end
  end.

Definition conv_object_to_object (r : cfns) (i o : ty) (unsafe : bool) : res (option conv) :=
  let oattrs := attrs_of o in let oopts := opts_of o in
  do cs <- obj_convs r oattrs (attrs_of i) oopts unsafe;
  match cs with
  | None => Ok None
  | Some convs => Ok (Some (fun val =>
      do kvs <- member_kvs val;
      do got <- (fix go (l : list (str * value)) : res (list (str * value)) :=
                   match l with
                   | [] => Ok []
                   | kv :: l' =>
                       match lookup (fst kv) convs with
                       | None => go l'
                       | Some c => do x <- apply_opt c (snd kv); do rest <- go l'; Ok ((fst kv, null_strip x) :: rest)
                       end
                   end) kvs;
      let extra := flat_map (fun kt => if str_in (fst kt) oopts then
                                         match lookup (fst kt) got with Some _ => [] | None => [(fst kt, v_null (strip_opt (snd kt)))] end
                                       else []) oattrs in
      Ok (object_val idn (got ++ extra))))
  end.

Definition conv_tuple_to_tuple (r : cfns) (i o : ty) (unsafe : bool) : res (option conv) :=
  let ies := etys_of i in let oes := etys_of o in
  if negb (Nat.eqb (length ies) (length oes)) then Ok None else
  do cs <- (fix go (is os : list ty) : res (option (list (option conv))) :=
              match is, os with
              | it :: is', ot :: os' =>
                  if ty_equals it ot then do x <- go is' os'; Ok (match x with Some l => Some (None :: l) | None => None end)
                  else do c <- c_get r it ot unsafe;
                       match c with
                       | None => Ok None
                       | Some f => do x <- go is' os'; Ok (match x with Some l => Some (Some f :: l) | None => None end)
                       end
              | _, _ => Ok (Some [])
              end) ies oes;
  match cs with
  | None => Ok None
  | Some convs => Ok (Some (fun val => do ms <- member_values val; do xs <- zip_apply convs ms; Ok (tuple_val xs)))
  end.

(* ---------- getConversionKnown / getConversion ---------- *)
Definition get_known (r : cfns) (i o : ty) (unsafe : bool) : res (option conv) :=
  if is_dyn o then Ok (Some (fun v => Ok v))
  else if unsafe && is_dyn i then Ok (Some (fun v => match c_convert r v o with Err _ => Err OtherError | x => x end))
  else if is_prim i && is_prim o then
    match prim_safe i o with
    | Some c => Ok (Some c)
    | None => if unsafe then Ok (prim_unsafe i o) else Ok None
    end
  else if is_objt o && is_objt i then conv_object_to_object r i o unsafe
  else if is_tupt o && is_tupt i then conv_tuple_to_tuple r i o unsafe
  else if is_listt o && (is_listt i || is_sett i) then
    if ty_equals (elem_ty i) (elem_ty o) then Ok (Some (conv_coll_to_list r (elem_ty o) None))
    else do c <- c_get r (elem_ty i) (elem_ty o) unsafe;
         match c with None => Ok None | Some f => Ok (Some (conv_coll_to_list r (elem_ty o) (Some f))) end
  else if is_sett o && (is_listt i || is_sett i) then
    if is_listt i && negb unsafe then Ok None else
    do c <- c_get r (elem_ty i) (elem_ty o) unsafe;
    if ty_equals (elem_ty i) (elem_ty o) then Ok (Some (conv_coll_to_set (elem_ty o) None))
    else match c with None => Ok None | Some f => Ok (Some (conv_coll_to_set (elem_ty o) (Some f))) end
  else if is_mapt o && is_mapt i then
    do c <- c_get r (elem_ty i) (elem_ty o) unsafe;
    match c with None => Ok None | Some f => Ok (Some (conv_coll_to_map r (elem_ty o) (Some f))) end
  else if is_listt o && is_tupt i then conv_tuple_to_list r i (elem_ty o) unsafe
  else if is_sett o && is_tupt i then conv_tuple_to_set r i (elem_ty o) unsafe
  else if is_mapt o && is_objt i then conv_object_to_map r i (elem_ty o) unsafe
  else if is_objt o && is_mapt i then (if unsafe then conv_map_to_object r i o unsafe else Ok None)
  else Ok None.          (* capsule types without conversion operations, and everything else *)

Definition get_step (r : cfns) (i o : ty) (unsafe : bool) : res (option conv) :=
  do c <- get_known r i o unsafe;
  match c with None => Ok None | Some f => Ok (Some (wrap r o f)) end.

Definition convert_step (r : cfns) (v : value) (want : ty) : res value :=
  if ty_equals (vty v) (strip_opt want) then Ok v else
  do c <- c_get r (vty v) want true;
  match c with None => Err OtherError | Some f => f v end.

(* ---------- compareTypes / sortTypes ---------- *)
Fixpoint compare_types (a b : ty) {struct a} : Z :=
  if is_dyn a || is_dyn b then (if negb (is_dyn a) then -1 else if negb (is_dyn b) then 1 else 0) else
  if is_prim a && is_prim b && (is_strt a || is_strt b) then (if negb (is_strt a) then 1 else if negb (is_strt b) then -1 else 0) else
  match a, b with
  | TList ea, TList eb | TSet ea, TSet eb | TMap ea, TMap eb => compare_types ea eb
  | TTuple _, TList _ => 1      (* swapped: list vs tuple = -1, times -1 *)
  | TObj _ _, TMap _ => 1
  | TSet _, TTuple _ => 1       (* swapped: tuple vs set = -1, times -1 *)
  | TSet _, TList _ => 1
  | (TTuple _ | TList _), TSet _ => -1
  | TList _, TTuple _ => -1
  | TMap _, TObj _ _ => -1
  | TObj aa _, TObj ab _ =>
      if negb (Nat.eqb (length aa) (length ab)) then 0 else
      (fix go (l : list (str * ty)) (sa sb : bool) : Z :=
         match l with
         | [] => if sa && sb then 0 else if sa then -1 else if sb then 1 else 0
         | kt :: l' => match lookup (fst kt) ab with
                       | None => 0
                       | Some tb => let c := compare_types (snd kt) tb in go l' (sa || (c <? 0)) (sb || (0 <? c))
                       end
         end) aa false false
  | TTuple la, TTuple lb =>
      if negb (Nat.eqb (length la) (length lb)) then 0 else
      (fix go (la lb : list ty) (sa sb : bool) : Z :=
         match la, lb with
         | x :: la', y :: lb' => let c := compare_types x y in go la' lb' (sa || (c <? 0)) (sb || (0 <? c))
         | _, _ => if sa && sb then 0 else if sa then -1 else if sb then 1 else 0
         end) la lb false false
  | _, _ => 0
  end.

(* Kahn's algorithm exactly as coded: the queue is the prefix of the result array; entries never
   reached (cycles) stay 0 *)
Definition sort_types (tys : list ty) : list nat :=
  let l := length tys in
  let idx := seq 0 l in
  let cmp i j := compare_types (nth i tys TDyn) (nth j tys TDyn) in
  let edges (i : nat) : list nat :=     (* in the order they are appended: for i<j pairs scanned i-major *)
    flat_map (fun p => let '(a, b) := p in
                       if Nat.ltb a b then
                         (if (cmp a b <? 0) && Nat.eqb a i then [b] else if (0 <? cmp a b) && Nat.eqb b i then [a] else [])
                       else []) (list_prod idx idx) in
  let indeg_full := map (fun j => fold_left (fun n i => (n + length (filter (Nat.eqb j) (edges i)))%nat) idx 0%nat) idx in
  let queue0 := filter (fun i => Nat.eqb (nth i indeg_full 0%nat) 0) idx in
  let fix run (fuel : nat) (queue : list nat) (done : list nat) (indeg : list nat) : list nat :=
    match fuel with
    | O => done
    | S f =>
      match queue with
      | [] => done
      | i :: q' =>
          let '(indeg', newq) :=
            fold_left (fun st j =>
                         let '(dg, nq) := st in
                         let d := Nat.pred (nth j dg 0%nat) in
                         let dg' := map (fun p => if Nat.eqb (fst p) j then d else snd p) (combine idx dg) in
                         (dg', if Nat.eqb d 0 then nq ++ [j] else nq)) (edges i) (indeg, []) in
          run f (q' ++ newq) (done ++ [i]) indeg'
      end
    end in
  let done := run (S l) queue0 [] indeg_full in
  done ++ repeat 0%nat (l - length done).

(* ---------- unify ---------- *)
Definition count_if (f : ty -> bool) (l : list ty) : nat := length (filter f l).

Definition unify_all_dynamic (tys : list ty) : option (ty * list (option conv)) :=
  Some (TDyn, map (fun _ => Some (fun _ : value => Ok v_dyn)) tys).

(* GetConversion / GetConversionUnsafe for each type against the result; None = some conversion missing *)
Fixpoint convs_to (r : cfns) (tys : list ty) (ret : ty) (unsafe : bool) : res (option (list (option conv))) :=
  match tys with
  | [] => Ok (Some [])
  | t :: tys' =>
      if ty_equals t ret then do x <- convs_to r tys' ret unsafe; Ok (match x with Some l => Some (None :: l) | None => None end)
      else do c <- c_get r t ret unsafe;
           match c with
           | None => Ok None
           | Some f => do x <- convs_to r tys' ret unsafe; Ok (match x with Some l => Some (Some f :: l) | None => None end)
           end
  end.

Definition unify_collection (r : cfns) (mk : ty -> ty) (tys : list ty) (unsafe hasdyn : bool) : res (option (ty * list (option conv))) :=
  if hasdyn then Ok (unify_all_dynamic tys) else
  do e <- unify_ty r (map elem_ty tys) unsafe;
  match e with
  | None => Ok None
  | Some et => let ret := mk et in
               do cs <- convs_to r tys ret unsafe;
               Ok (match cs with Some l => Some (ret, l) | None => None end)
  end.

Definition unify_objects_to_map (r : cfns) (tys : list ty) (unsafe : bool) : res (option (ty * list (option conv))) :=
  do e <- unify_ty r (flat_map (fun t => map snd (attrs_of t)) tys) unsafe;
  match e with
  | None => Ok None
  | Some et => let ret := TMap et in
               do cs <- convs_to r tys ret unsafe;
               Ok (match cs with Some l => Some (ret, l) | None => None end)
  end.

Definition unify_tuples_to_list (r : cfns) (tys : list ty) (unsafe : bool) : res (option (ty * list (option conv))) :=
  do e <- unify_ty r (flat_map etys_of tys) unsafe;
  match e with
  | None => Ok None
  | Some et => let ret := TList et in
               do cs <- convs_to r tys ret unsafe;
               Ok (match cs with Some l => Some (ret, l) | None => None end)
  end.

Definition same_attr_names (a b : list (str * ty)) : bool :=
  Nat.eqb (length a) (length b) && forallb (fun kt => match lookup (fst kt) a with Some _ => true | None => false end) b.

Definition unify_objects (r : cfns) (tys : list ty) (unsafe hasdyn : bool) : res (option (ty * list (option conv))) :=
  if hasdyn then Ok (unify_all_dynamic tys) else
  match tys with
  | [] => Panic
  | first :: others =>
    let fa := attrs_of first in
    if negb (forallb (fun t => same_attr_names fa (attrs_of t)) others) then unify_objects_to_map r tys unsafe else
    do ratys <- (fix go (l : list (str * ty)) : res (option (list (str * ty))) :=
                   match l with
                   | [] => Ok (Some [])
                   | kt :: l' =>
                       do u <- unify_ty r (map (fun t => match lookup (fst kt) (attrs_of t) with Some x => x | None => TDyn end) tys) unsafe;
                       match u with
                       | None => Ok None
                       | Some t => do x <- go l'; Ok (match x with Some m => Some ((fst kt, t) :: m) | None => None end)
                       end
                   end) fa;
    match ratys with
    | None => Ok None
    | Some m => let ret := TObj m [] in
                do cs <- convs_to r tys ret unsafe;
                match cs with Some l => Ok (Some (ret, l)) | None => unify_objects_to_map r tys unsafe end
    end
  end.

Definition unify_tuples (r : cfns) (tys : list ty) (unsafe hasdyn : bool) : res (option (ty * list (option conv))) :=
  if hasdyn then Ok (unify_all_dynamic tys) else
  match tys with
  | [] => Panic
  | first :: others =>
    let n := length (etys_of first) in
    if negb (forallb (fun t => Nat.eqb (length (etys_of t)) n) others) then unify_tuples_to_list r tys unsafe else
    do retys <- (fix go (k : list nat) : res (option (list ty)) :=
                   match k with
                   | [] => Ok (Some [])
                   | i :: k' =>
                       do u <- unify_ty r (map (fun t => nth i (etys_of t) TDyn) tys) unsafe;
                       match u with
                       | None => Ok None
                       | Some t => do x <- go k'; Ok (match x with Some m => Some (t :: m) | None => None end)
                       end
                   end) (seq 0 n);
    match retys with
    | None => Ok None
    | Some m => let ret := TTuple m in
                do cs <- convs_to r tys ret unsafe;
                match cs with Some l => Ok (Some (ret, l)) | None => unify_tuples_to_list r tys unsafe end
    end
  end.

(* tuples (objects) among lists (maps): first to a list (map) type among themselves, then everything *)
Definition unify_mixed (r : cfns) (is_struct : ty -> bool) (is_collk : ty -> bool)
  (to_coll : cfns -> list ty -> bool -> res (option (ty * list (option conv))))
  (tys : list ty) (unsafe : bool) : res (option (ty * list (option conv))) :=
  let structs := filter is_struct tys in
  do u <- to_coll r structs unsafe;
  match u with
  | None => Ok None
  | Some (cty, sconvs) =>
    if negb (is_collk cty) then Ok None else
    let listed := map (fun t => if is_struct t then cty else t) tys in
    do u2 <- c_unify r listed unsafe;
    match u2 with
    | None => Ok None
    | Some (newT, convs) =>
      if negb (is_collk newT) then Ok None else
      (* walk both lists: for a struct position compose its own conversion with the list-level one *)
      let fix go (tys : list ty) (convs sconvs : list (option conv)) : list (option conv) :=
        match tys, convs with
        | t :: tys', c :: convs' =>
            if is_struct t then
              match sconvs with
              | sc :: sconvs' =>
                  (match c with
                   | None => sc
                   | Some lc => Some (fun v => match sc with
                                               | Some f => do x <- f v; lc x      (* fix: commit 73e18bb (was applied to the original value) *)
                                               | None => Panic                    (* a nil conversion is called *)
                                               end)
                   end) :: go tys' convs' sconvs'
              | [] => c :: go tys' convs' []
              end
            else c :: go tys' convs' sconvs
        | _, _ => []
        end in
      Ok (Some (newT, go tys convs sconvs))
    end
  end.

(* the general case of unify: try each type in preference order as the result; the first one every other type
   converts to wins.  cs.(i) = None where the i-th type is the chosen one or equal to it, else the conversion found *)
Definition unify_convs_to (r : cfns) (tys : list ty) (unsafe : bool) (w : nat) (want : ty) : res (option (list (option conv))) :=
  (fix go (i : nat) (l : list ty) : res (option (list (option conv))) :=
     match l with
     | [] => Ok (Some [])
     | t :: l' =>
         if Nat.eqb i w || ty_equals t want then
           do x <- go (S i) l'; Ok (match x with Some m => Some (None :: m) | None => None end)
         else
           do c <- c_get r t want unsafe;
           match c with
           | None => Ok None
           | Some f => do x <- go (S i) l'; Ok (match x with Some m => Some (Some f :: m) | None => None end)
           end
     end) 0%nat tys.
Definition unify_generic (r : cfns) (tys : list ty) (unsafe : bool) : res (option (ty * list (option conv))) :=
  (fix prefs (p : list nat) : res (option (ty * list (option conv))) :=
     match p with
     | [] => Ok None
     | w :: p' =>
         let want := nth w tys TDyn in
         do cs <- unify_convs_to r tys unsafe w want;
         match cs with Some l => Ok (Some (want, l)) | None => prefs p' end
     end) (sort_types tys).

Definition unify_step (r : cfns) (tys : list ty) (unsafe : bool) : res (option (ty * list (option conv))) :=
  match tys with
  | [] => Ok None
  | _ =>
    let n := length tys in
    let mapCt := count_if is_mapt tys in let listCt := count_if is_listt tys in let setCt := count_if is_sett tys in
    let objCt := count_if is_objt tys in let tupCt := count_if is_tupt tys in let dynCt := count_if is_dyn tys in
    let generic := unify_generic r tys unsafe in
    if Nat.ltb 0 mapCt && Nat.eqb (mapCt + dynCt) n then unify_collection r TMap tys unsafe (Nat.ltb 0 dynCt)
    else if Nat.ltb 0 mapCt && Nat.eqb (mapCt + objCt + dynCt) n then
      do u <- unify_mixed r is_objt is_mapt unify_objects_to_map tys unsafe;
      match u with Some (t, cs) => if is_mapt t then Ok u else generic | None => generic end
    else if Nat.ltb 0 listCt && Nat.eqb (listCt + dynCt) n then unify_collection r TList tys unsafe (Nat.ltb 0 dynCt)
    else if Nat.ltb 0 listCt && Nat.eqb (listCt + tupCt + dynCt) n then
      do u <- unify_mixed r is_tupt is_listt unify_tuples_to_list tys unsafe;
      match u with Some (t, cs) => if is_listt t then Ok u else generic | None => generic end
    else if Nat.ltb 0 setCt && Nat.eqb (setCt + dynCt) n then unify_collection r TSet tys unsafe (Nat.ltb 0 dynCt)
    else if Nat.ltb 0 objCt && Nat.eqb (objCt + dynCt) n then unify_objects r tys unsafe (Nat.ltb 0 dynCt)
    else if Nat.ltb 0 tupCt && Nat.eqb (tupCt + dynCt) n then unify_tuples r tys unsafe (Nat.ltb 0 dynCt)
    else if Nat.ltb 0 objCt && Nat.ltb 0 tupCt then Ok None
    else generic
  end.

Fixpoint cfns_at (fuel : nat) : cfns :=
  match fuel with
  | O => cfns0
  | S f => let r := cfns_at f in
           {| c_get := get_step r; c_unify := unify_step r; c_convert := convert_step r |}
  end.

Fixpoint ty_depth (t : ty) : nat :=
  match t with
  | TList e | TSet e | TMap e => S (ty_depth e)
  | TTuple l => S (fold_right (fun x n => Nat.max (ty_depth x) n) 0%nat l)
  | TObj a _ => S (fold_right (fun kt n => Nat.max (ty_depth (snd kt)) n) 0%nat a)
  | _ => 1%nat
  end.

Definition cfuel (ts : list ty) : nat := (12 + 6 * fold_right (fun t n => Nat.max (ty_depth t) n) 0%nat ts)%nat.

Definition get_conversion (i o : ty) (unsafe : bool) : res (option conv) := c_get (cfns_at (cfuel [i; o])) i o unsafe.
Definition convert (v : value) (want : ty) : res value := c_convert (cfns_at (cfuel [vty v; want])) v want.
Definition unify (tys : list ty) (unsafe : bool) : res (option (ty * list (option conv))) := c_unify (cfns_at (cfuel tys)) tys unsafe.
