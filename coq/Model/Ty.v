(* Ty.v — cty.Type as implemented: Equals, TestConformance, HasDynamicTypes,
   WithoutOptionalAttributesDeep, MarshalJSON / UnmarshalJSON (token-tree level).
   Executable definitions only; proofs are in Proofs/TyProofs.v. *)
From Coq Require Import String.
From Cty Require Export Base.

Inductive ty :=
| TDyn | TBool | TNum | TStr
| TList (e : ty) | TSet (e : ty) | TMap (e : ty)
| TTuple (es : list ty)
| TObj (attrs : list (str * ty)) (opt : list str)   (* attrs key-sorted; opt sorted, subset of keys *)
| TCap (id : N).

(* well-formed: keys strictly sorted, optional names strictly sorted and declared, recursively *)
Fixpoint wf_ty (t : ty) : bool :=
  match t with
  | TDyn | TBool | TNum | TStr | TCap _ => true
  | TList e | TSet e | TMap e => wf_ty e
  | TTuple es => forallb wf_ty es
  | TObj attrs opt =>
      sorted_keys (map fst attrs) && sorted_keys opt &&
      forallb (fun k => mem k (map fst attrs)) opt &&
      (fix go (l : list (str * ty)) : bool :=
         match l with [] => true | kv :: l' => wf_ty (snd kv) && go l' end) attrs
  end.

(* structural equality (used to compare model output with observed output) *)
Fixpoint ty_eqb (t u : ty) {struct t} : bool :=
  match t, u with
  | TDyn, TDyn | TBool, TBool | TNum, TNum | TStr, TStr => true
  | TList a, TList b | TSet a, TSet b | TMap a, TMap b => ty_eqb a b
  | TTuple as_, TTuple bs =>
      (fix go (l1 l2 : list ty) : bool :=
         match l1, l2 with
         | [], [] => true
         | x :: l1', y :: l2' => ty_eqb x y && go l1' l2'
         | _, _ => false
         end) as_ bs
  | TObj a1 o1, TObj a2 o2 =>
      (fix go (l1 l2 : list (str * ty)) : bool :=
         match l1, l2 with
         | [], [] => true
         | x :: l1', y :: l2' => str_eqb (fst x) (fst y) && ty_eqb (snd x) (snd y) && go l1' l2'
         | _, _ => false
         end) a1 a2 && list_eqb str_eqb o1 o2
  | TCap i, TCap j => N.eqb i j
  | _, _ => false
  end.

(* Type.Equals as implemented (cty/*_type.go): the object case compares the attribute
   counts, then iterates the receiver's attributes and looks each one up in the other. *)
Fixpoint ty_equals (t u : ty) {struct t} : bool :=
  match t, u with
  | TDyn, TDyn | TBool, TBool | TNum, TNum | TStr, TStr => true
  | TList a, TList b | TSet a, TSet b | TMap a, TMap b => ty_equals a b
  | TTuple as_, TTuple bs =>
      Nat.eqb (length as_) (length bs) &&
      (fix go (l1 l2 : list ty) : bool :=
         match l1, l2 with
         | x :: l1', y :: l2' => ty_equals x y && go l1' l2'
         | _, _ => true
         end) as_ bs
  | TObj a1 o1, TObj a2 o2 =>
      Nat.eqb (length a1) (length a2) &&
      (fix go (l : list (str * ty)) : bool :=
         match l with
         | [] => true
         | kv :: l' =>
             match lookup (fst kv) a2 with
             | None => false
             | Some tb => ty_equals (snd kv) tb && Bool.eqb (mem (fst kv) o1) (mem (fst kv) o2) && go l'
             end
         end) a1
  | TCap i, TCap j => N.eqb i j
  | _, _ => false
  end.

(* typesMayBecomeEqual (cty/value_ops.go): false only if no replacement of the placeholders in
   either type could make the two types equal *)
Fixpoint may_become_equal (a b : ty) {struct a} : bool :=
  match a, b with
  | TDyn, _ | _, TDyn => true
  | TList x, TList y | TSet x, TSet y | TMap x, TMap y => may_become_equal x y
  | TTuple as_, TTuple bs =>
      Nat.eqb (length as_) (length bs) &&
      (fix go (l1 l2 : list ty) : bool :=
         match l1, l2 with
         | x :: l1', y :: l2' => may_become_equal x y && go l1' l2'
         | _, _ => true
         end) as_ bs
  | TObj a1 _, TObj a2 _ =>
      Nat.eqb (length a1) (length a2) &&
      (fix go (l : list (str * ty)) : bool :=
         match l with
         | [] => true
         | kv :: l' => match lookup (fst kv) a2 with
                       | None => false
                       | Some tb => may_become_equal (snd kv) tb && go l'
                       end
         end) a1
  | _, _ => ty_equals a b
  end.

(* TestConformance: the list of reported errors, by class *)
Inductive cerr := EUnsupportedAttr | EMissingAttr | ETupleLen | EMismatch.

Fixpoint conformance (given want : ty) {struct want} : list cerr :=
  match want with
  | TDyn => []
  | _ =>
    if ty_equals given want then [] else
    match given, want with
    | TObj ga _, TObj wa _ =>
        map (fun _ => EUnsupportedAttr) (filter (fun k => negb (mem k (keys wa))) (keys ga)) ++
        map (fun _ => EMissingAttr) (filter (fun k => negb (mem k (keys ga))) (keys wa)) ++
        (fix go (l : list (str * ty)) : list cerr :=
           match l with
           | [] => []
           | kv :: l' => match lookup (fst kv) ga with
                         | Some gt => conformance gt (snd kv) ++ go l'
                         | None => go l'
                         end
           end) wa
    | TTuple ge, TTuple we =>
        if Nat.eqb (length ge) (length we) then
          (fix go (w g : list ty) {struct w} : list cerr :=
             match w, g with
             | y :: w', x :: g' => conformance x y ++ go w' g'
             | _, _ => []
             end) we ge
        else [ETupleLen]
    | TList g, TList w => conformance g w
    | TSet g, TSet w => conformance g w
    | TMap g, TMap w => conformance g w
    | _, _ => [EMismatch]
    end
  end.

Definition conforms (given want : ty) : bool :=
  match conformance given want with [] => true | _ => false end.

(* observable summary of an error list: how many of each class (Go map order makes the
   sequence itself unobservable) *)
Definition cerr_count (l : list cerr) : N * N * N * N :=
  fold_left (fun '(a, b, c, d) e =>
               match e with
               | EUnsupportedAttr => (N.succ a, b, c, d)
               | EMissingAttr => (a, N.succ b, c, d)
               | ETupleLen => (a, b, N.succ c, d)
               | EMismatch => (a, b, c, N.succ d)
               end) l (0, 0, 0, 0)%N.

Definition has_dyn := fix has_dyn (t : ty) : bool :=
  match t with
  | TDyn => true
  | TBool | TNum | TStr | TCap _ => false
  | TList e | TSet e | TMap e => has_dyn e
  | TTuple es => existsb has_dyn es
  | TObj attrs _ => (fix go (l : list (str * ty)) : bool :=
                       match l with [] => false | kv :: l' => has_dyn (snd kv) || go l' end) attrs
  end.

Definition strip_opt := fix strip_opt (t : ty) : ty :=
  match t with
  | TList e => TList (strip_opt e) | TSet e => TSet (strip_opt e) | TMap e => TMap (strip_opt e)
  | TTuple es => TTuple (map strip_opt es)
  | TObj attrs _ => TObj ((fix go (l : list (str * ty)) : list (str * ty) :=
                             match l with [] => [] | kv :: l' => (fst kv, strip_opt (snd kv)) :: go l' end) attrs) []
  | _ => t
  end.

Definition has_cap := fix has_cap (t : ty) : bool :=
  match t with
  | TCap _ => true
  | TDyn | TBool | TNum | TStr => false
  | TList e | TSet e | TMap e => has_cap e
  | TTuple es => existsb has_cap es
  | TObj attrs _ => (fix go (l : list (str * ty)) : bool :=
                       match l with [] => false | kv :: l' => has_cap (snd kv) || go l' end) attrs
  end.

Definition has_opt := fix has_opt (t : ty) : bool :=
  match t with
  | TDyn | TBool | TNum | TStr | TCap _ => false
  | TList e | TSet e | TMap e => has_opt e
  | TTuple es => existsb has_opt es
  | TObj attrs opt => match opt with [] => false | _ => true end ||
                      (fix go (l : list (str * ty)) : bool :=
                       match l with [] => false | kv :: l' => has_opt (snd kv) || go l' end) attrs
  end.

Fixpoint ty_size (t : ty) : nat :=
  match t with
  | TList e | TSet e | TMap e => S (ty_size e)
  | TTuple es => S (fold_right (fun e n => ty_size e + n) 0 es)
  | TObj attrs _ => S ((fix go (l : list (str * ty)) : nat :=
                       match l with [] => 0 | kv :: l' => ty_size (snd kv) + go l' end) attrs)
  | _ => 1
  end.

(* Kind predicates and accessors used by the other model files *)
Definition is_prim (t : ty) := match t with TBool | TNum | TStr => true | _ => false end.
Definition is_coll (t : ty) := match t with TList _ | TSet _ | TMap _ => true | _ => false end.
Definition is_list (t : ty) := match t with TList _ => true | _ => false end.
Definition is_set (t : ty) := match t with TSet _ => true | _ => false end.
Definition is_map (t : ty) := match t with TMap _ => true | _ => false end.
Definition is_tuple (t : ty) := match t with TTuple _ => true | _ => false end.
Definition is_obj (t : ty) := match t with TObj _ _ => true | _ => false end.
Definition is_cap (t : ty) := match t with TCap _ => true | _ => false end.
Definition is_dyn (t : ty) := match t with TDyn => true | _ => false end.
Definition elem_ty (t : ty) : option ty :=
  match t with TList e | TSet e | TMap e => Some e | _ => None end.

(* ---------------- JSON token trees and the type codec (cty/json.go) ---------------- *)
Inductive jv :=
| JNull | JBool (b : bool) | JNum (text : str) | JStr (s : str)
| JArr (l : list jv) | JObj (m : list (str * jv)).

Fixpoint jv_eqb (a b : jv) {struct a} : bool :=
  match a, b with
  | JNull, JNull => true
  | JBool x, JBool y => Bool.eqb x y
  | JNum x, JNum y => str_eqb x y
  | JStr x, JStr y => str_eqb x y
  | JArr l1, JArr l2 =>
      (fix go (l1 l2 : list jv) : bool :=
         match l1, l2 with
         | [], [] => true
         | x :: l1', y :: l2' => jv_eqb x y && go l1' l2'
         | _, _ => false
         end) l1 l2
  | JObj m1, JObj m2 =>
      (fix go (l1 l2 : list (str * jv)) : bool :=
         match l1, l2 with
         | [], [] => true
         | x :: l1', y :: l2' => str_eqb (fst x) (fst y) && jv_eqb (snd x) (snd y) && go l1' l2'
         | _, _ => false
         end) m1 m2
  | _, _ => false
  end.

Definition s_bool := b#"bool". Definition s_number := b#"number". Definition s_string := b#"string".
Definition s_dynamic := b#"dynamic". Definition s_list := b#"list". Definition s_map := b#"map".
Definition s_set := b#"set". Definition s_object := b#"object". Definition s_tuple := b#"tuple".

(* Type.MarshalJSON (json.Marshal of a Go map writes keys in sorted order) *)
Definition type_to_json := fix type_to_json (t : ty) : res jv :=
  match t with
  | TBool => Ok (JStr s_bool) | TNum => Ok (JStr s_number) | TStr => Ok (JStr s_string)
  | TDyn => Ok (JStr s_dynamic)
  | TList e => do j <- type_to_json e; Ok (JArr [JStr s_list; j])
  | TMap e => do j <- type_to_json e; Ok (JArr [JStr s_map; j])
  | TSet e => do j <- type_to_json e; Ok (JArr [JStr s_set; j])
  | TTuple es =>
      do js <- (fix go (l : list ty) : res (list jv) :=
                  match l with
                  | [] => Ok []
                  | x :: l' => do j <- type_to_json x; do js <- go l'; Ok (j :: js)
                  end) es;
      Ok (JArr [JStr s_tuple; JArr js])
  | TObj attrs opt =>
      do m <- (fix go (l : list (str * ty)) : res (list (str * jv)) :=
                 match l with
                 | [] => Ok []
                 | kv :: l' => do j <- type_to_json (snd kv); do m <- go l'; Ok ((fst kv, j) :: m)
                 end) attrs;
      Ok (JArr ([JStr s_object; JObj m] ++
                match opt with [] => [] | _ => [JArr (map JStr opt)] end))
  | TCap _ => Err OtherError
  end.

(* Type.UnmarshalJSON over a token tree.  [norm] is cty.NormalizeString.
   json decoding details modelled: a JSON null for a map / slice target leaves it nil (empty),
   a null inside []string gives "", duplicate object keys: the last one wins, any type
   mismatch is an error.  ObjectWithOptionalAttrs panics on an undeclared optional name. *)
Definition strings_of_json (j : jv) : res (list str) :=
  match j with
  | JNull => Ok []
  | JArr l =>
      (fix go (l : list jv) : res (list str) :=
         match l with
         | [] => Ok []
         | JStr s :: l' => do r <- go l'; Ok (s :: r)
         | JNull :: l' => do r <- go l'; Ok ([] :: r)
         | _ :: _ => Err OtherError
         end) l
  | _ => Err OtherError
  end.

Definition mk_object (norm : str -> str) (attrs : list (str * ty)) (optional : list str) : res ty :=
  let attrsn := fold_left (fun acc kv => kv_insert (norm (fst kv)) (snd kv) acc) attrs [] in
  match optional with
  | [] => Ok (TObj attrsn [])
  | _ =>
      if forallb (fun k => mem (norm k) (keys attrsn)) optional
      then Ok (TObj attrsn (fold_left (fun acc k => set_insert (norm k) acc) optional []))
      else Panic
  end.

Definition type_of_json (norm : str -> str) := fix type_of_json (j : jv) : res ty :=
  match j with
  | JStr s =>
      if str_eqb s s_bool then Ok TBool
      else if str_eqb s s_number then Ok TNum
      else if str_eqb s s_string then Ok TStr
      else if str_eqb s s_dynamic then Ok TDyn
      else Err OtherError
  | JArr (JStr kind :: rest) =>
      if str_eqb kind s_list then
        match rest with [e] => rmap TList (type_of_json e) | e :: _ => do _ <- type_of_json e; Err OtherError | [] => Err OtherError end
      else if str_eqb kind s_map then
        match rest with [e] => rmap TMap (type_of_json e) | e :: _ => do _ <- type_of_json e; Err OtherError | [] => Err OtherError end
      else if str_eqb kind s_set then
        match rest with [e] => rmap TSet (type_of_json e) | e :: _ => do _ <- type_of_json e; Err OtherError | [] => Err OtherError end
      else if str_eqb kind s_tuple then
        match rest with
        | [] => Err OtherError
        | e :: more =>
            do es <- match e with
                     | JNull => Ok []
                     | JArr l => (fix go (l : list jv) : res (list ty) :=
                                    match l with
                                    | [] => Ok []
                                    | x :: l' => do t <- type_of_json x; do ts <- go l'; Ok (t :: ts)
                                    end) l
                     | _ => Err OtherError
                     end;
            match more with [] => Ok (TTuple es) | _ => Err OtherError end
        end
      else if str_eqb kind s_object then
        match rest with
        | [] => Err OtherError
        | a :: more =>
            do attrs <- match a with
                        | JNull => Ok []
                        | JObj m => (fix go (l : list (str * jv)) : res (list (str * ty)) :=
                                       match l with
                                       | [] => Ok []
                                       | kv :: l' => do t <- type_of_json (snd kv); do r <- go l'; Ok ((fst kv, t) :: r)
                                       end) m
                        | _ => Err OtherError
                        end;
            match more with
            | [] => mk_object norm attrs []
            | o :: more' =>
                do opt <- strings_of_json o;
                (* an undeclared optional name is a decoding error (fix: commit 96b6b5c); the
                   constructor itself still panics *)
                do t <- match mk_object norm attrs opt with Panic => Err OtherError | r => r end;
                match more' with [] => Ok t | _ => Err OtherError end
            end
        end
      else Err OtherError
  | _ => Err OtherError
  end.
