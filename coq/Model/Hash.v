(* Hash.v — crc32 (IEEE) and Go's %q quoting, as used by Value.Hash (cty/set_internals.go). *)
From Cty Require Import Base.
Open Scope N_scope.

Definition crc_poly : N := 3988292384.   (* 0xEDB88320 *)
Definition crc_bit (c : N) : N := if N.odd c then N.lxor (N.shiftr c 1) crc_poly else N.shiftr c 1.
Definition crc_byte (c b : N) : N :=
  crc_bit (crc_bit (crc_bit (crc_bit (crc_bit (crc_bit (crc_bit (crc_bit (N.lxor c b)))))))).
Definition crc32 (s : str) : N := N.lxor (fold_left crc_byte s 4294967295) 4294967295.

Definition hex_digit (n : N) : N := if n <? 10 then 48 + n else 87 + n.   (* lower case *)

(* strconv.Quote restricted to: ASCII, plus bytes >= 0x80 assumed to belong to valid,
   printable UTF-8 sequences (kept verbatim).  The harness only ships strings for which
   this agrees with fmt.Sprintf with the q verb and counts the ones it had to skip. *)
Definition quote_byte (b : N) : str :=
  if b =? 34 then [92; 34]            (* backslash, double quote *)
  else if b =? 92 then [92; 92]       (* two backslashes *)
  else if b =? 7 then [92; 97]        (* \a *)
  else if b =? 8 then [92; 98]
  else if b =? 12 then [92; 102]
  else if b =? 10 then [92; 110]
  else if b =? 13 then [92; 114]
  else if b =? 9 then [92; 116]
  else if b =? 11 then [92; 118]
  else if (b <? 32) || (b =? 127) then [92; 120; hex_digit (b / 16); hex_digit (b mod 16)]
  else [b].
Definition quote (s : str) : str := 34 :: flat_map quote_byte s ++ [34].

(* bytes.Compare < 0 *)
Definition bytes_ltb := str_ltb.
