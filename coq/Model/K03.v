(* K03.v — correspondence cases for C03: operation cases (KOps) and ValueSet histories. *)
From Cty Require Import Base Ty BigFloat Value Hash Ops Refine KOps SetOps.
Open Scope Z_scope.

Inductive k03 :=
| K03_k (k : kops)
| K03_hist (e : ty) (ops : list setop) (obs : list setobs) (final : list buckets).

Definition k03_check (k : k03) : bool :=
  match k with
  | K03_k k' => kops_check k'
  | K03_hist e ops obs final =>
      match set_run e [] ops with
      | Ok (st, os) => list_eqb setobs_eqb os obs && list_eqb buckets_eqb st final
      | _ => false
      end
  end.
