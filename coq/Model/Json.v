(* Json.v — cty/json: Marshal, Unmarshal, ImpliedType at the JSON token-tree level
   (the byte-level lexer is encoding/json's).  [jv] is defined in Ty.v. *)
From Coq Require Import String.
From Cty Require Import Base Ty BigFloat Value Hash Ops Refine.
Open Scope Z_scope.

Definition s_value := b#"value".
Definition s_type := b#"type".
Definition s_true := b#"true".
Definition s_false := b#"false".
Definition s_1 := b#"1".
Definition s_0 := b#"0".

(* ---------------- Marshal (for a value whose type conforms to t) ---------------- *)
(* one level of the encoder; [rec] encodes the members (the encoder with one unit of fuel less) *)
Definition json_marshal_step (rec : value -> ty -> res jv) (v : value) (t : ty) : res jv :=
    if is_marked v then Err OtherError else
    if negb (is_known v) then Err OtherError else
    if is_dyn t && negb (is_dyn (vty v)) then
      (* marshalDynamic: {"value": ..., "type": ...} *)
      match type_to_json (vty v) with
      | Ok tj => match rec v (vty v) with
                 | Ok j => Ok (JObj [(s_value, j); (s_type, tj)])
                 | Err _ => Err OtherError
                 | r => r
                 end
      | _ => Err OtherError
      end
    else if is_null v then Ok JNull else
    match t, vp v with
    | TStr, PStr s => Ok (JStr s)
    | TNum, PNum x _ => if bf_is_inf x then Err OtherError else Ok (JNum (text_f_shortest x))
    | TBool, PBool b => Ok (JBool b)
    | TList e, PSeq l =>
        do js <- (fix go (l : list payload) : res (list jv) :=
                    match l with
                    | [] => Ok []
                    | x :: l' => do j <- rec (V (match vty v with TList ev => ev | _ => e end) x) e; do r <- go l'; Ok (j :: r)
                    end) l;
        Ok (JArr js)
    | TSet e, PSet bs =>
        let ev := match vty v with TSet ev => ev | _ => e end in
        do l <- set_values ev bs;
        do js <- (fix go (l : list payload) : res (list jv) :=
                    match l with
                    | [] => Ok []
                    | x :: l' => do j <- rec (V ev x) e; do r <- go l'; Ok (j :: r)
                    end) l;
        Ok (JArr js)
    | TMap e, PMap m =>
        let ev := match vty v with TMap ev => ev | _ => e end in
        do kvs <- (fix go (l : list (str * payload)) : res (list (str * jv)) :=
                     match l with
                     | [] => Ok []
                     | kv :: l' => do j <- rec (V ev (snd kv)) e; do r <- go l'; Ok ((fst kv, j) :: r)
                     end) m;
        Ok (JObj kvs)
    | TTuple es, PSeq l =>
        let evs := match vty v with TTuple evs => evs | _ => [] end in
        do js <- (fix go (ts : list ty) (tvs : list ty) (l : list payload) : res (list jv) :=
                    match ts, tvs, l with
                    | te :: ts', tv :: tvs', x :: l' => do j <- rec (V tv x) te; do r <- go ts' tvs' l'; Ok (j :: r)
                    | _, _, [] => Ok []
                    | _, _, _ => Panic       (* etys[i] out of range *)
                    end) es evs l;
        Ok (JArr js)
    | TObj attrs _, PMap m =>
        let avs := match vty v with TObj avs _ => avs | _ => [] end in
        do kvs <- (fix go (l : list (str * ty)) : res (list (str * jv)) :=
                     match l with
                     | [] => Ok []
                     | kt :: l' =>
                         match lookup (fst kt) avs, lookup (fst kt) m with
                         | Some tv, Some x => do j <- rec (V tv x) (snd kt); do r <- go l'; Ok ((fst kt, j) :: r)
                         | _, _ => Panic   (* GetAttr of an undeclared attribute *)
                         end
                     end) attrs;
        Ok (JObj kvs)
    | TCap _, _ => Err OtherError          (* capsule encoding is delegated to encoding/json: not modelled *)
    | _, _ => Panic
    end.
Fixpoint json_marshal_at (fuel : nat) : value -> ty -> res jv :=
  match fuel with
  | O => fun _ _ => OutOfFuel
  | S f => json_marshal_step (json_marshal_at f)
  end.
Definition json_marshal (v : value) (t : ty) : res jv := json_marshal_at (S (psize (vp v)) + ty_size t + ty_size (vty v)) v t.

(* CanListVal / CanSetVal / CanMapVal: the members can be coalesced into one collection *)
Definition can_coll (vs : list value) : bool := match unify_elem_ty TDyn (map vty vs) with Some _ => true | None => false end.

(* ---------------- Unmarshal ---------------- *)
Fixpoint jv_size (j : jv) : nat :=
  match j with
  | JArr l => S (fold_right (fun x n => jv_size x + n)%nat 0%nat l)
  | JObj m => S ((fix go (l : list (str * jv)) : nat := match l with [] => 0 | kv :: l' => jv_size (snd kv) + go l' end)%nat m)
  | _ => 1%nat
  end.

Definition unmarshal_primitive (norm : str -> str) (j : jv) (t : ty) : res value :=
  match t with
  | TBool =>
      match j with
      | JBool b => Ok (v_bool b)
      | JStr s => let s' := norm s in
                  if str_eqb s' s_true || str_eqb s' s_1 then Ok v_true
                  else if str_eqb s' s_false || str_eqb s' s_0 then Ok v_false
                  else Err OtherError
      | _ => Err OtherError
      end
  | TNum =>
      match j with
      | JNum s | JStr s => match bf_parse s 512 with POk x => Ok (v_num x) | PErr => Err OtherError end
      | _ => Err OtherError
      end
  | TStr =>
      match j with
      | JStr s => Ok (v_str (norm s))
      | JNum s => Ok (v_str (norm s))
      | JBool b => Ok (v_str (if b then s_true else s_false))
      | _ => Err OtherError
      end
  | _ => Panic
  end.

(* one level of the decoder; [rec] decodes the members (the decoder with one unit of fuel less) *)
Definition json_unmarshal_step (norm : str -> str) (rec : jv -> ty -> res value) (j : jv) (t : ty) : res value :=
    match j with
    | JNull => Ok (v_null t)
    | _ =>
      match t with
      | TDyn =>
          match j with
          | JObj m =>
              do tb <- (fix go (l : list (str * jv)) (oty : option ty) (body : option jv) : res (option ty * option jv) :=
                          match l with
                          | [] => Ok (oty, body)
                          | kv :: l' =>
                              if str_eqb (fst kv) s_type then
                                match type_of_json norm (snd kv) with
                                | Ok t' => go l' (Some t') body
                                | Err _ => Err OtherError
                                | r => match r with Panic => Panic | _ => OutOfFuel end
                                end
                              else if str_eqb (fst kv) s_value then go l' oty (Some (snd kv))
                              else Err OtherError
                          end) m None None;
              match tb with
              | (Some t', Some body) => match rec body (strip_opt t') with   (* fix: commit bdce01e *)
                                        | Err _ => Err OtherError
                                        | r => r
                                        end
              | _ => Err OtherError
              end
          | _ => Err OtherError
          end
      | TBool | TNum | TStr => unmarshal_primitive norm j t
      | TList e =>
          match j with
          | JArr l =>
              do vs <- (fix go (l : list jv) : res (list value) :=
                          match l with [] => Ok [] | x :: l' => do v <- rec x e; do r <- go l'; Ok (v :: r) end) l;
              match vs with [] => Ok (V (TList e) (PSeq [])) | _ => if can_coll vs then list_val vs else Err OtherError end
          | _ => Err OtherError
          end
      | TSet e =>
          match j with
          | JArr l =>
              do vs <- (fix go (l : list jv) : res (list value) :=
                          match l with [] => Ok [] | x :: l' => do v <- rec x e; do r <- go l'; Ok (v :: r) end) l;
              match vs with [] => Ok (V (TSet e) (PSet [])) | _ => if can_coll (map (fun v => fst (unmark_deep v)) vs) then set_val vs else Err OtherError end
          | _ => Err OtherError
          end
      | TMap e =>
          match j with
          | JObj m =>
              do kvs <- (fix go (l : list (str * jv)) : res (list (str * value)) :=
                           match l with [] => Ok [] | kv :: l' => do v <- rec (snd kv) e; do r <- go l'; Ok ((fst kv, v) :: r) end) m;
              match kvs with [] => Ok (V (TMap e) (PMap [])) | _ => if can_coll (map snd kvs) then map_val norm kvs else Err OtherError end
          | _ => Err OtherError
          end
      | TTuple es =>
          match j with
          | JArr l =>
              do vs <- (fix go (ts : list ty) (l : list jv) : res (list value) :=
                          match l, ts with
                          | [], _ => Ok []
                          | _ :: _, [] => Err OtherError                (* too many elements *)
                          | x :: l', te :: ts' => do v <- rec x te; do r <- go ts' l'; Ok (v :: r)
                          end) es l;
              if negb (Nat.eqb (length vs) (length es)) then Err OtherError else Ok (tuple_val vs)
          | _ => Err OtherError
          end
      | TObj attrs _ =>
          match j with
          | JObj m =>
              do kvs <- (fix go (l : list (str * jv)) : res (list (str * value)) :=
                           match l with
                           | [] => Ok []
                           | kv :: l' =>
                               match lookup (fst kv) attrs with
                               | None => Err OtherError
                               | Some ta => do v <- rec (snd kv) ta; do r <- go l'; Ok ((fst kv, v) :: r)
                               end
                           end) m;
              (* last duplicate wins; attributes not given become null of the attribute type *)
              let given := fold_left (fun acc kv => kv_insert (fst kv) (snd kv) acc) kvs [] in
              let all := map (fun kt => (fst kt, match lookup (fst kt) given with Some v => v | None => v_null (snd kt) end)) attrs in
              Ok (object_val norm all)
          | _ => Err OtherError
          end
      | TCap _ => Err OtherError
      end
    end.
Fixpoint json_unmarshal_at (norm : str -> str) (fuel : nat) : jv -> ty -> res value :=
  match fuel with
  | O => fun _ _ => OutOfFuel
  | S f => json_unmarshal_step norm (json_unmarshal_at norm f)
  end.
Definition json_unmarshal (norm : str -> str) (j : jv) (t : ty) : res value :=
  json_unmarshal_at norm (S (jv_size j)) j t.

(* ---------------- ImpliedType ---------------- *)
Fixpoint json_implied_type (norm : str -> str) (j : jv) : res ty :=
  match j with
  | JNull => Ok TDyn
  | JBool _ => Ok TBool
  | JNum _ => Ok TNum
  | JStr _ => Ok TStr
  | JArr l =>
      do ts <- (fix go (l : list jv) : res (list ty) :=
                  match l with [] => Ok [] | x :: l' => do t <- json_implied_type norm x; do r <- go l'; Ok (t :: r) end) l;
      Ok (TTuple ts)
  | JObj m =>
      (* a repeated property must have the same implied type; keys are normalised by cty.Object *)
      (fix go (l : list (str * jv)) (acc : list (str * ty)) : res ty :=
         match l with
         | [] => Ok (TObj (fold_left (fun a kt => kv_insert (norm (fst kt)) (snd kt) a) acc []) [])   (* cty.Object normalises the names *)
         | kv :: l' =>
             do t <- json_implied_type norm (snd kv);
             let k := norm (fst kv) in             (* fix: commit 2800b09 (names are normalised as they are read) *)
             match lookup k acc with
             | Some t0 => if ty_equals t0 t then go l' acc else Err OtherError
             | None => go l' (kv_insert k t acc)
             end
         end) m []
  end.
