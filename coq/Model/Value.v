(* Value.v — cty.Value exactly as the Go representation shapes it: a value is a type plus an
   untyped payload; nested payloads carry no type (an element read out of a list gets the
   list's element type).  Executable definitions only. *)
From Cty Require Export Base Ty BigFloat.
Open Scope Z_scope.

(* which shared number object a number payload is (the code compares cty.Zero,
   cty.PositiveInfinity and cty.NegativeInfinity with Go ==, i.e. by pointer) *)
Inductive numid := IdFresh | IdZero | IdPInf | IdNInf.
Definition numv := (bf * numid)%type.

Inductive tri := TT | TF | TU.

(* raw refinement of an unknown value (cty/unknown_refinement.go).  RNone = nil refinement. *)
Inductive refinement :=
| RNone
| RNullable (n : tri)
| RStr (n : tri) (prefix : str)
| RNum (n : tri) (lo hi : option numv) (loInc hiInc : bool)
| RColl (n : tri) (minLen maxLen : Z).

Definition mark := N.

Inductive payload :=
| PUnk (r : refinement)
| PNull
| PBool (b : bool)
| PNum (n : bf) (id : numid)
| PStr (s : str)
| PSeq (l : list payload)                      (* list and tuple *)
| PMap (m : list (str * payload))              (* map and object, key-sorted *)
| PSet (bs : list (Z * list payload))          (* hash buckets, ascending hash, members in insertion order *)
| PCap (ptr : N)
| PMarked (ms : list mark) (p : payload).      (* ms sorted, duplicate-free, non-empty *)

Record value := V { vty : ty; vp : payload }.

Definition max_int : Z := 9223372036854775807.

(* ---------- structural equality of model states (to compare with observations) ---------- *)
Definition numid_eqb (a b : numid) : bool :=
  match a, b with IdFresh, IdFresh | IdZero, IdZero | IdPInf, IdPInf | IdNInf, IdNInf => true | _, _ => false end.
Definition tri_eqb (a b : tri) : bool :=
  match a, b with TT, TT | TF, TF | TU, TU => true | _, _ => false end.
Definition numv_eqb (a b : numv) : bool := bf_eqb (fst a) (fst b) && numid_eqb (snd a) (snd b).

Definition refinement_eqb (a b : refinement) : bool :=
  match a, b with
  | RNone, RNone => true
  | RNullable n1, RNullable n2 => tri_eqb n1 n2
  | RStr n1 p1, RStr n2 p2 => tri_eqb n1 n2 && str_eqb p1 p2
  | RNum n1 l1 h1 li1 hi1, RNum n2 l2 h2 li2 hi2 =>
      tri_eqb n1 n2 && option_eqb numv_eqb l1 l2 && option_eqb numv_eqb h1 h2 &&
      (* inclusiveness flags are only meaningful for bounds that are set *)
      (match l1 with Some _ => Bool.eqb li1 li2 | None => true end) &&
      (match h1 with Some _ => Bool.eqb hi1 hi2 | None => true end)
  | RColl n1 a1 b1, RColl n2 a2 b2 => tri_eqb n1 n2 && (a1 =? a2) && (b1 =? b2)
  | _, _ => false
  end.

Fixpoint payload_eqb (a b : payload) {struct a} : bool :=
  match a, b with
  | PUnk r1, PUnk r2 => refinement_eqb r1 r2
  | PNull, PNull => true
  | PBool x, PBool y => Bool.eqb x y
  | PNum x i, PNum y j => bf_eqb x y && numid_eqb i j
  | PStr x, PStr y => str_eqb x y
  | PSeq l1, PSeq l2 =>
      (fix go (l1 l2 : list payload) : bool :=
         match l1, l2 with
         | [], [] => true
         | x :: l1', y :: l2' => payload_eqb x y && go l1' l2'
         | _, _ => false
         end) l1 l2
  | PMap m1, PMap m2 =>
      (fix go (l1 l2 : list (str * payload)) : bool :=
         match l1, l2 with
         | [], [] => true
         | x :: l1', y :: l2' => str_eqb (fst x) (fst y) && payload_eqb (snd x) (snd y) && go l1' l2'
         | _, _ => false
         end) m1 m2
  | PSet b1, PSet b2 =>
      (fix gob (l1 l2 : list (Z * list payload)) : bool :=
         match l1, l2 with
         | [], [] => true
         | x :: l1', y :: l2' =>
             (fst x =? fst y) &&
             (fix go (m1 m2 : list payload) : bool :=
                match m1, m2 with
                | [], [] => true
                | p :: m1', q :: m2' => payload_eqb p q && go m1' m2'
                | _, _ => false
                end) (snd x) (snd y) && gob l1' l2'
         | _, _ => false
         end) b1 b2
  | PCap x, PCap y => N.eqb x y
  | PMarked m1 p1, PMarked m2 p2 => list_eqb N.eqb m1 m2 && payload_eqb p1 p2
  | _, _ => false
  end.

Definition value_eqb (a b : value) : bool := ty_eqb (vty a) (vty b) && payload_eqb (vp a) (vp b).

(* ---------- size (fuel for the structural operations) ---------- *)
Fixpoint psize (p : payload) : nat :=
  match p with
  | PSeq l => S (fold_right (fun x n => psize x + n)%nat 0%nat l)
  | PMap m => S ((fix go (l : list (str * payload)) : nat :=
                    match l with [] => 0 | kv :: l' => psize (snd kv) + go l' end)%nat m)
  | PSet bs => S ((fix gob (l : list (Z * list payload)) : nat :=
                     match l with
                     | [] => 0
                     | b :: l' => (fix go (m : list payload) : nat :=
                                     match m with [] => 0 | x :: m' => psize x + go m' end) (snd b) + gob l'
                     end)%nat bs)
  | PMarked _ p' => S (psize p')
  | _ => 1%nat
  end.

(* ---------- marks ---------- *)
Fixpoint mark_insert (m : mark) (l : list mark) : list mark :=
  match l with
  | [] => [m]
  | x :: l' => if (m <? x)%N then m :: l else if (m =? x)%N then l else x :: mark_insert m l'
  end.
Definition marks_union (a b : list mark) : list mark := fold_left (fun acc m => mark_insert m acc) b a.

Definition is_marked (v : value) : bool := match vp v with PMarked _ _ => true | _ => false end.

(* Value.Unmark *)
Definition unmark (v : value) : value * list mark :=
  match vp v with
  | PMarked ms p => (V (vty v) p, ms)
  | _ => (v, [])
  end.
Definition unmark_force (v : value) : value := fst (unmark v).
Definition marks_of (v : value) : list mark := snd (unmark v).

(* Value.WithMarks: a single marker layer holding the union; no marker when there are no marks *)
Definition with_marks (v : value) (ms : list mark) : value :=
  let '(u, own) := unmark v in
  match marks_union own ms with
  | [] => v
  | all => V (vty v) (PMarked all (vp u))
  end.
Definition mark_value (v : value) (m : mark) : value := with_marks v [m].

(* all marks anywhere inside, and the payload with every marker removed *)
Fixpoint deep_marks (p : payload) : list mark :=
  match p with
  | PMarked ms p' => marks_union ms (deep_marks p')
  | PSeq l => fold_left (fun acc x => marks_union acc (deep_marks x)) l []
  | PMap m => (fix go (l : list (str * payload)) (acc : list mark) : list mark :=
                 match l with [] => acc | kv :: l' => go l' (marks_union acc (deep_marks (snd kv))) end) m []
  | _ => []
  end.
Fixpoint strip_marks (p : payload) : payload :=
  match p with
  | PMarked _ p' => strip_marks p'
  | PSeq l => PSeq (map strip_marks l)
  | PMap m => PMap ((fix go (l : list (str * payload)) : list (str * payload) :=
                       match l with [] => [] | kv :: l' => (fst kv, strip_marks (snd kv)) :: go l' end) m)
  | _ => p
  end.
Definition contains_marked (v : value) : bool := match deep_marks (vp v) with [] => false | _ => true end.
(* Value.UnmarkDeep *)
Definition unmark_deep (v : value) : value * list mark := (V (vty v) (strip_marks (vp v)), deep_marks (vp v)).

(* ---------- basic predicates (integration methods) ---------- *)
(* IsKnown / IsNull look through markers (recursively, as the Go methods do) *)
Fixpoint top_payload (p : payload) : payload := match p with PMarked _ p' => top_payload p' | _ => p end.
Definition is_known (v : value) : bool := match top_payload (vp v) with PUnk _ => false | _ => true end.
Definition is_null (v : value) : bool := match top_payload (vp v) with PNull => true | _ => false end.
Definition p_is_unk (p : payload) : bool := match p with PUnk _ => true | _ => false end.

(* the members of a set in bucket order (before the sort by Less) *)
Definition set_members (bs : list (Z * list payload)) : list payload := flat_map snd bs.

(* element types of the members of a collection / structure payload *)
Definition attr_ty (t : ty) (k : str) : option ty :=
  match t with TObj attrs _ => lookup k attrs | _ => None end.

(* Value.IsWhollyKnown on an unmarked value; nested marked members are looked through,
   exactly as the Go code does (IsMarked -> unmarkForce) *)
Fixpoint p_wholly_known (p : payload) : bool :=
  match p with
  | PUnk _ => false
  | PMarked _ p' => p_wholly_known p'
  | PSeq l => forallb p_wholly_known l
  | PMap m => (fix go (l : list (str * payload)) : bool :=
                 match l with [] => true | kv :: l' => p_wholly_known (snd kv) && go l' end) m
  | PSet bs => (fix gob (l : list (Z * list payload)) : bool :=
                  match l with
                  | [] => true
                  | b :: l' => (fix go (m : list payload) : bool :=
                                  match m with [] => true | x :: m' => p_wholly_known x && go m' end) (snd b) && gob l'
                  end) bs
  | _ => true
  end.
Definition is_wholly_known (v : value) : bool := p_wholly_known (vp v).

(* Value.HasWhollyKnownType (cty/value.go).  Needs the type for unknown members. *)
Fixpoint has_wholly_known_type (t : ty) (p : payload) {struct p} : bool :=
  match p with
  | PNull => true
  | PMarked _ p' =>
      (* IsNull / IsKnown look through the marker; CanIterateElements is false for marked values *)
      match p' with
      | PNull => true
      | PUnk _ => negb (is_dyn t)
      | _ => true
      end
  | PUnk _ =>
      if is_dyn t then false
      else match t with
           | TList _ | TSet _ | TMap _ | TTuple _ | TObj _ _ => negb (has_dyn t)
           | _ => true
           end
  | PSeq l =>
      match t with
      | TList e => forallb (has_wholly_known_type e) l
      | TTuple es => (fix go (l : list payload) (ts : list ty) {struct l} : bool :=
                        match l, ts with
                        | x :: l', te :: ts' => has_wholly_known_type te x && go l' ts'
                        | _, _ => true
                        end) l es
      | _ => true
      end
  | PMap m =>
      match t with
      | TMap e => (fix go (l : list (str * payload)) : bool :=
                     match l with [] => true | kv :: l' => has_wholly_known_type e (snd kv) && go l' end) m
      | TObj attrs _ => (fix go (l : list (str * payload)) : bool :=
                           match l with
                           | [] => true
                           | kv :: l' => match lookup (fst kv) attrs with
                                         | Some ta => has_wholly_known_type ta (snd kv)
                                         | None => true
                                         end && go l'
                           end) m
      | _ => true
      end
  | PSet bs =>
      match t with
      | TSet e => (fix gob (l : list (Z * list payload)) : bool :=
                     match l with
                     | [] => true
                     | b :: l' => (fix go (m : list payload) : bool :=
                                     match m with [] => true | x :: m' => has_wholly_known_type e x && go m' end) (snd b) && gob l'
                     end) bs
      | _ => true
      end
  | _ => true
  end.

(* ---------- simple constructors ---------- *)
Definition v_unknown (t : ty) : value := V t (PUnk RNone).
Definition v_dyn : value := V TDyn (PUnk RNone).
Definition v_null (t : ty) : value := V t PNull.
Definition v_bool (b : bool) : value := V TBool (PBool b).
Definition v_true := v_bool true.
Definition v_false := v_bool false.
Definition v_num (n : bf) : value := V TNum (PNum n IdFresh).
Definition v_int (z : Z) : value := v_num (bf_of_int z).
Definition v_zero : value := V TNum (PNum bf_zero53 IdZero).
Definition v_pinf : value := V TNum (PNum bf_pinf0 IdPInf).
Definition v_ninf : value := V TNum (PNum bf_ninf0 IdNInf).
Definition v_str (s : str) : value := V TStr (PStr s).       (* s already normalised *)
Definition is_dynval (v : value) : bool :=
  match vty v, vp v with TDyn, PUnk RNone => true | _, _ => false end.

(* TupleVal / ObjectVal / ListVal / MapVal (cty/value_init.go); SetVal needs hashing: Ops.v *)
Definition tuple_val (vs : list value) : value := V (TTuple (map vty vs)) (PSeq (map vp vs)).

Definition object_val (norm : str -> str) (attrs : list (str * value)) : value :=
  let tys := fold_left (fun acc kv => kv_insert (norm (fst kv)) (vty (snd kv)) acc) attrs [] in
  let vals := fold_left (fun acc kv => kv_insert (norm (fst kv)) (vp (snd kv)) acc) attrs [] in
  V (TObj tys []) (PMap vals).

(* the element-type unification loop shared by ListVal, MapVal and SetVal:
   None = inconsistent element types (the constructors panic) *)
Fixpoint unify_elem_ty (acc : ty) (ts : list ty) : option ty :=
  match ts with
  | [] => Some acc
  | t :: ts' =>
      if is_dyn acc then unify_elem_ty t ts'
      else if negb (is_dyn t) && negb (ty_equals acc t) then None
      else unify_elem_ty acc ts'
  end.

Definition list_val (vs : list value) : res value :=
  match vs with
  | [] => Panic
  | _ => match unify_elem_ty TDyn (map vty vs) with
         | None => Panic
         | Some et => Ok (V (TList et) (PSeq (map vp vs)))
         end
  end.

(* MapVal iterates a Go map: the element type is the first non-dynamic type met, a panic
   occurs iff two non-dynamic types differ — both independent of the order *)
Definition map_val (norm : str -> str) (kvs : list (str * value)) : res value :=
  match kvs with
  | [] => Panic
  | _ => match unify_elem_ty TDyn (map (fun kv => vty (snd kv)) kvs) with
         | None => Panic
         | Some et => Ok (V (TMap et) (PMap (fold_left (fun acc kv => kv_insert (norm (fst kv)) (vp (snd kv)) acc) kvs [])))
         end
  end.

(* ---------- typed views of nested members ---------- *)
(* the members of a known, non-null, unmarked collection/structure as typed values, in the
   order of ElementIterator (lists/tuples by index, maps/objects by key); sets: Ops.v *)
Definition seq_members (t : ty) (l : list payload) : list value :=
  match t with
  | TList e => map (V e) l
  | TTuple es => map (fun '(te, p) => V te p) (combine es l)
  | _ => []
  end.
Definition map_members (t : ty) (m : list (str * payload)) : list (str * value) :=
  match t with
  | TMap e => map (fun kv => (fst kv, V e (snd kv))) m
  | TObj attrs _ => map (fun kv => (fst kv, V (match lookup (fst kv) attrs with Some ta => ta | None => TDyn end) (snd kv))) m
  | _ => []
  end.
