(* Ops.v — the operation methods of cty.Value (cty/value_ops.go), ranges (cty/value_range.go),
   the refinement builder (cty/unknown_refinement.go) and set internals (cty/set_internals.go,
   cty/set/ops.go), as implemented.  Executable definitions only.

   Recursion that follows Go's call graph (Equals -> Includes -> GreaterThanOrEqualTo -> Equals,
   hash bytes -> set iteration order -> Less -> hash bytes) is expressed with fuel-indexed
   records of functions: [xxx_at (S n)] is built from plain, non-recursive step functions that
   call [xxx_at n].  Exhausted fuel yields OutOfFuel, which no theorem treats as a value. *)
From Cty Require Export Value Hash.
Open Scope Z_scope.

(* ------------------------------------------------------------------ *)
(* known numbers                                                       *)
(* ------------------------------------------------------------------ *)
Definition fix_negzero (s : str) : str := if str_eqb s [45; 48]%N then [48]%N else s.

(* rawNumberEqual (cty/primitive_type.go) *)
Definition raw_number_equal (a b : bf) : bool :=
  if negb (bf_sign a =? bf_sign b) then false else
  let '(ai, aa) := bf_int a in
  let '(bi, ba) := bf_int b in
  if negb (acc_eqb aa ba) then false else
  match aa with
  | Exact => option_eqb Z.eqb ai bi
  | _ => str_eqb (fix_negzero (text_f_shortest a)) (fix_negzero (text_f_shortest b))
  end.

Definition pnum (v : value) : option numv :=
  match vty v, vp v with TNum, PNum n id => Some (n, id) | _, _ => None end.
Definition v_of_numv (x : numv) : value := V TNum (PNum (fst x) (snd x)).

(* ------------------------------------------------------------------ *)
(* typeCheck / forceShortCircuitType (cty/helper.go)                   *)
(* ------------------------------------------------------------------ *)
Inductive shortc := SC_none | SC_dyn | SC_unk.

(* values are unmarked here (callers unmark first).  Panic = type mismatch *)
Fixpoint type_check (required : ty) (vs : list value) (hasDyn hasUnk : bool) : res shortc :=
  match vs with
  | [] => Ok (if hasDyn then SC_dyn else if hasUnk then SC_unk else SC_none)
  | v :: vs' =>
      if is_dyn (vty v) then type_check required vs' true hasUnk
      else if negb (ty_equals (vty v) required) then Panic
      else type_check required vs' hasDyn (hasUnk || p_is_unk (vp v))
  end.

(* ------------------------------------------------------------------ *)
(* Length of known collections (no hashing needed)                     *)
(* ------------------------------------------------------------------ *)
Definition set_store_len (bs : list (Z * list payload)) : Z := Z.of_nat (length (set_members bs)).

(* Value.LengthInt on an unmarked value *)
Definition length_int (v : value) : res Z :=
  match vty v with
  | TTuple es => Ok (Z.of_nat (length es))
  | TObj attrs _ => Ok (Z.of_nat (length attrs))
  | _ =>
    match vp v with
    | PUnk _ => Panic
    | PNull => Panic
    | PSeq l => if is_list (vty v) then Ok (Z.of_nat (length l)) else Panic
    | PSet bs => if is_set (vty v) then Ok (set_store_len bs) else Panic
    | PMap m => if is_map (vty v) then Ok (Z.of_nat (length m)) else Panic
    | _ => Panic
    end
  end.

(* ------------------------------------------------------------------ *)
(* Ranges                                                              *)
(* ------------------------------------------------------------------ *)
Record vrange := { rty : ty; rraw : refinement }.

Definition rfn_null (r : refinement) : tri :=
  match r with
  | RNone => TU | RNullable n => n | RStr n _ => n | RNum n _ _ _ _ => n | RColl n _ _ => n
  end.
Definition rfn_set_null (r : refinement) (t : tri) : refinement :=
  match r with
  | RNone => RNone | RNullable _ => RNullable t | RStr _ p => RStr t p
  | RNum _ a b c d => RNum t a b c d | RColl _ a b => RColl t a b
  end.

Definition unk_not_null : value := V TBool (PUnk (RNullable TF)).   (* UnknownVal(Bool).RefineNotNull() *)
Definition unk_num (r : refinement) : value := V TNum (PUnk r).

(* builder collapse of number refinements happens in NewValue; here just construct *)

(* Value.Length on an unmarked value whose result does not need the builder:
   returns either a known length or the refinement to apply *)
Inductive lenres := LenKnown (n : Z) | LenRange (lo hi : Z).

Definition range_len_bounds (t : ty) (r : refinement) : res (Z * Z) :=
  if is_dyn t then Ok (0, max_int)
  else if negb (is_coll t) then Panic
  else match r with RColl _ a b => Ok (a, b) | _ => Ok (0, max_int) end.

Definition length_core (v : value) : res lenres :=
  match vty v with
  | TTuple es => Ok (LenKnown (Z.of_nat (length es)))
  | _ =>
    match vp v with
    | PUnk r =>
        (* rng := val.Range(); LengthLowerBound / UpperBound panic for non-collection types *)
        do b <- range_len_bounds (vty v) (match r with RNone => RNullable TU | _ => r end);
        Ok (LenRange (fst b) (snd b))
    | PSet bs =>
        if is_set (vty v) then
          let n := set_store_len bs in
          if (n =? 1) || p_wholly_known (vp v) then Ok (LenKnown n) else Ok (LenRange 1 n)
        else rmap LenKnown (length_int v)
    | _ => rmap LenKnown (length_int v)
    end
  end.

(* Value.Range on an unmarked value (marked: panic).  For known collections the synthetic
   range uses Length: known -> exact, unknown -> (0, MaxInt). *)
Definition range_of (v : value) : res vrange :=
  match vp v with
  | PMarked _ _ => Panic
  | PUnk r => Ok {| rty := vty v; rraw := match r with RNone => RNullable TU | _ => r end |}
  | PNull => Ok {| rty := vty v; rraw := RNullable TT |}
  | _ =>
      let t := vty v in
      match t with
      | TStr => match vp v with PStr s => Ok {| rty := t; rraw := RStr TF s |} | _ => Panic end
      | TNum => match vp v with
                | PNum n id => Ok {| rty := t; rraw := RNum TF (Some (n, id)) (Some (n, id)) true true |}
                | _ => Panic end
      | TList _ | TSet _ | TMap _ =>
          do l <- length_core v;
          match l with
          | LenKnown n => Ok {| rty := t; rraw := RColl TF n n |}
          | LenRange _ _ => Ok {| rty := t; rraw := RColl TF 0 max_int |}
          end
      | _ => Ok {| rty := t; rraw := RNullable TF |}
      end
  end.

Definition definitely_not_null_r (r : vrange) : bool := match rfn_null (rraw r) with TF => true | _ => false end.

(* NumberLowerBound / NumberUpperBound *)
Definition num_lower (r : vrange) : res (value * bool) :=
  if is_dyn (rty r) then Ok (v_unknown TNum, false)
  else match rty r with
       | TNum => match rraw r with
                 | RNum _ (Some b) _ inc _ => Ok (v_of_numv b, inc)
                 | _ => Ok (v_ninf, true)
                 end
       | _ => Panic
       end.
Definition num_upper (r : vrange) : res (value * bool) :=
  if is_dyn (rty r) then Ok (v_unknown TNum, false)
  else match rty r with
       | TNum => match rraw r with
                 | RNum _ _ (Some b) _ inc => Ok (v_of_numv b, inc)
                 | _ => Ok (v_pinf, true)
                 end
       | _ => Panic
       end.
Definition str_prefix (r : vrange) : res str :=
  if is_dyn (rty r) then Ok []
  else match rty r with
       | TStr => match rraw r with RStr _ p => Ok p | _ => Ok [] end
       | _ => Panic
       end.
Definition len_lower (r : vrange) : res Z := rmap fst (range_len_bounds (rty r) (rraw r)).
Definition len_upper (r : vrange) : res Z := rmap snd (range_len_bounds (rty r) (rraw r)).

(* definitelyNotNull (cty/value_range.go) on an unmarked value *)
Definition definitely_not_null (v : value) : res bool :=
  match vp v with
  | PUnk _ => do r <- range_of v; Ok (definitely_not_null_r r)
  | PNull => Ok false
  | PMarked _ _ => Panic
  | _ => Ok true
  end.

(* ------------------------------------------------------------------ *)
(* marks wrappers                                                      *)
(* ------------------------------------------------------------------ *)
Definition unary_marks (f : value -> res value) (v : value) : res value :=
  if is_marked v then let '(u, ms) := unmark v in do r <- f u; Ok (with_marks r ms) else f v.
Definition binary_marks (f : value -> value -> res value) (a b : value) : res value :=
  if is_marked a || is_marked b then
    let '(ua, ma) := unmark a in let '(ub, mb) := unmark b in
    do r <- f ua ub; Ok (with_marks r (marks_union ma mb))
  else f a b.

(* ------------------------------------------------------------------ *)
(* Not / And / Or                                                      *)
(* ------------------------------------------------------------------ *)
Definition pbool (v : value) : option bool :=
  match vp v with PBool b => Some b | _ => None end.
(* val == False / val == True: Go struct comparison of (type, payload) *)
Definition is_go_bool (v : value) (b : bool) : bool :=
  match vty v, vp v with TBool, PBool x => Bool.eqb x b | _, _ => false end.

Definition not_u (v : value) : res value :=
  do sc <- type_check TBool [v] false false;
  match sc with
  | SC_none => match pbool v with Some b => Ok (v_bool (negb b)) | None => Panic end
  | _ => Ok unk_not_null
  end.
Definition not_v := unary_marks not_u.

Definition and_u (a b : value) : res value :=
  do sc <- type_check TBool [a; b] false false;
  match sc with
  | SC_none => match pbool a, pbool b with Some x, Some y => Ok (v_bool (x && y)) | _, _ => Panic end
  | _ => if is_go_bool a false || is_go_bool b false then Ok v_false else Ok unk_not_null
  end.
Definition and_v := binary_marks and_u.

Definition or_u (a b : value) : res value :=
  do sc <- type_check TBool [a; b] false false;
  match sc with
  | SC_none => match pbool a, pbool b with Some x, Some y => Ok (v_bool (x || y)) | _, _ => Panic end
  | _ => if is_go_bool a true || is_go_bool b true then Ok v_true else Ok unk_not_null
  end.
Definition or_v := binary_marks or_u.

(* ------------------------------------------------------------------ *)
(* LessThan / GreaterThan                                              *)
(* ------------------------------------------------------------------ *)
Definition known_cmp (a b : value) : res comparison :=
  match pnum a, pnum b with
  | Some x, Some y => Ok (bf_cmp (fst x) (fst y))
  | _, _ => Panic      (* nil *big.Float: null operand *)
  end.

(* the bound-vs-bound comparisons inside the shortcuts are on known numbers (or skipped) *)
Definition known_ltb (a b : value) : bool :=
  match pnum a, pnum b with Some x, Some y => bf_ltb (fst x) (fst y) | _, _ => false end.
Definition is_known_u (v : value) : bool := negb (p_is_unk (vp v)).

Definition cmp_shortcut (a b : value) (want_lt : bool) : res (option bool) :=
  do ra <- range_of a; do rb <- range_of b;
  match rty ra, rty rb with
  | TNum, TNum =>
      do amax <- num_upper ra; do bmin <- num_lower rb;
      do amin <- num_lower ra; do bmax <- num_upper rb;
      (* "a < b for sure" and "a > b for sure" *)
      let sure_lt := is_known_u (fst amax) && is_known_u (fst bmin) && known_ltb (fst amax) (fst bmin) in
      let sure_gt := is_known_u (fst amin) && is_known_u (fst bmax) && known_ltb (fst bmax) (fst amin) in
      if want_lt then
        (if sure_lt then Ok (Some true) else if sure_gt then Ok (Some false) else Ok None)
      else
        (if sure_gt then Ok (Some true) else if sure_lt then Ok (Some false) else Ok None)
  | _, _ => Ok None
  end.

Definition lt_u (a b : value) : res value :=
  do sc <- type_check TNum [a; b] false false;
  match sc with
  | SC_none => do c <- known_cmp a b; Ok (v_bool (match c with Lt => true | _ => false end))
  | _ => do s <- cmp_shortcut a b true;
         match s with Some r => Ok (v_bool r) | None => Ok unk_not_null end
  end.
Definition lt_v := binary_marks lt_u.

Definition gt_u (a b : value) : res value :=
  do sc <- type_check TNum [a; b] false false;
  match sc with
  | SC_none => do c <- known_cmp a b; Ok (v_bool (match c with Gt => true | _ => false end))
  | _ => do s <- cmp_shortcut a b false;
         match s with Some r => Ok (v_bool r) | None => Ok unk_not_null end
  end.
Definition gt_v := binary_marks gt_u.

(* ------------------------------------------------------------------ *)
(* hash bytes, RawEquals, set iteration order  (fuel-indexed record)   *)
(* ------------------------------------------------------------------ *)
Definition buckets := list (Z * list payload).

Record hfns := {
  h_hash : ty -> payload -> res (str * bool);           (* bytes, "marks were met" *)
  h_raw : value -> value -> res bool;                    (* RawEquals *)
  h_values : ty -> buckets -> res (list payload)         (* Set.Values(): sorted by Less *)
}.

Definition hfns0 : hfns :=
  {| h_hash := fun _ _ => OutOfFuel; h_raw := fun _ _ => OutOfFuel; h_values := fun _ _ => OutOfFuel |}.

Fixpoint concat_hash (f : payload -> res (str * bool)) (sep : str) (l : list payload) : res (str * bool) :=
  match l with
  | [] => Ok ([], false)
  | x :: l' => do a <- f x; do b <- concat_hash f sep l'; Ok (fst a ++ sep ++ fst b, snd a || snd b)
  end.

Definition hash_step (r : hfns) (t : ty) (p0 : payload) : res (str * bool) :=
  let '(p, m) := match p0 with PMarked _ p' => (p', true) | _ => (p0, false) end in
  let ret (x : res (str * bool)) := do a <- x; Ok (fst a, snd a || m) in
  match p with
  | PUnk _ => Ok ([63]%N, m)
  | PNull => Ok ([126]%N, m)
  | PMarked _ _ => Panic
  | _ =>
    match t with
    | TNum => match p with PNum n _ => Ok (text_g10 n, m) | _ => Panic end
    | TBool => match p with PBool b => Ok ((if b then [84] else [70])%N, m) | _ => Panic end
    | TStr => match p with PStr s => Ok (quote s, m) | _ => Panic end
    | TMap e =>
        match p with
        | PMap kvs =>
            ret (do body <- (fix go (l : list (str * payload)) : res (str * bool) :=
                         match l with
                         | [] => Ok ([], false)
                         | kv :: l' => do a <- r.(h_hash) e (snd kv); do b <- go l';
                                       Ok (quote (fst kv) ++ [58]%N ++ fst a ++ [59]%N ++ fst b, snd a || snd b)
                         end) kvs;
                 Ok ([123]%N ++ fst body ++ [125]%N, snd body))
        | _ => Panic
        end
    | TList e =>
        match p with
        | PSeq l => ret (do body <- concat_hash (r.(h_hash) e) [59]%N l; Ok ([91]%N ++ fst body ++ [93]%N, snd body))
        | _ => Panic
        end
    | TSet e =>
        match p with
        | PSet bs => ret (do l <- r.(h_values) e bs;
                          do body <- concat_hash (r.(h_hash) e) [59]%N l; Ok ([91]%N ++ fst body ++ [93]%N, snd body))
        | _ => Panic
        end
    | TObj attrs _ =>
        match p with
        | PMap kvs =>
            ret (do body <- (fix go (l : list (str * payload)) : res (str * bool) :=
                         match l with
                         | [] => Ok ([], false)
                         | kv :: l' =>
                             match lookup (fst kv) attrs with
                             | None => Panic
                             | Some ta => do a <- r.(h_hash) ta (snd kv); do b <- go l';
                                          Ok (fst a ++ [59]%N ++ fst b, snd a || snd b)
                             end
                         end) kvs;
                 Ok ([60]%N ++ fst body ++ [62]%N, snd body))
        | _ => Panic
        end
    | TTuple es =>
        match p with
        | PSeq l =>
            ret (do body <- (fix go (ts : list ty) (l : list payload) : res (str * bool) :=
                         match ts, l with
                         | te :: ts', x :: l' => do a <- r.(h_hash) te x; do b <- go ts' l';
                                                 Ok (fst a ++ [59]%N ++ fst b, snd a || snd b)
                         | _, _ => Ok ([], false)
                         end) es l;
                 Ok ([60]%N ++ fst body ++ [62]%N, snd body))
        | _ => Panic
        end
    | TCap _ => Ok ([194; 171; 63; 194; 187]%N, m)     (* «?» : no HashKey operation *)
    | TDyn => Panic
    end
  end.

(* refinement.rawEqual *)
Definition numv_raw_equal (a b : option numv) : bool :=
  match a, b with
  | None, None => true
  | Some x, Some y => raw_number_equal (fst x) (fst y)
  | _, _ => false
  end.
Definition rfn_raw_equal (a b : refinement) : bool :=
  match a, b with
  | RNone, RNone => true
  | RNullable n1, RNullable n2 => tri_eqb n1 n2
  | RStr n1 p1, RStr n2 p2 => tri_eqb n1 n2 && str_eqb p1 p2
  | RNum n1 l1 h1 li1 hi1, RNum n2 l2 h2 li2 hi2 =>
      tri_eqb n1 n2 && numv_raw_equal l1 l2 && numv_raw_equal h1 h2 && Bool.eqb li1 li2 && Bool.eqb hi1 hi2
  | RColl n1 a1 b1, RColl n2 a2 b2 => tri_eqb n1 n2 && (a1 =? a2) && (b1 =? b2)
  | _, _ => false
  end.

Fixpoint all_ok {A B} (f : A -> B -> res bool) (l1 : list A) (l2 : list B) : res bool :=
  match l1, l2 with
  | x :: l1', y :: l2' => do b <- f x y; if b then all_ok f l1' l2' else Ok false
  | _, _ => Ok true
  end.

Definition raw_step (r : hfns) (a b : value) : res bool :=
  if negb (ty_equals (vty a) (vty b)) then Ok false else
  if negb (list_eqb N.eqb (marks_of a) (marks_of b)) then Ok false else
  let a := unmark_force a in let b := unmark_force b in
  let t := vty a in
  match vp a, vp b with
  | PUnk ra, PUnk rb => Ok (rfn_raw_equal ra rb)
  | PUnk _, _ | _, PUnk _ => Ok false
  | PNull, PNull => Ok true
  | PNull, _ | _, PNull => Ok false
  | pa, pb =>
    match t with
    | TDyn => Ok true
    | TNum => match pa, pb with PNum x _, PNum y _ => Ok (raw_number_equal x y) | _, _ => Panic end
    | TBool => match pa, pb with PBool x, PBool y => Ok (Bool.eqb x y) | _, _ => Panic end
    | TStr => match pa, pb with PStr x, PStr y => Ok (str_eqb x y) | _, _ => Panic end
    | TObj attrs _ =>
        match pa, pb with
        | PMap ma, PMap mb =>
            (* every attribute of the type is compared; the result is the conjunction *)
            (fix go (l : list (str * ty)) : res bool :=
               match l with
               | [] => Ok true
               | kt :: l' =>
                   match lookup (fst kt) ma, lookup (fst kt) mb with
                   | Some x, Some y => do e <- r.(h_raw) (V (snd kt) x) (V (snd kt) y);
                                       do rest <- go l'; Ok (e && rest)
                   | _, _ => Panic
                   end
               end) attrs
        | _, _ => Panic
        end
    | TTuple es =>
        match pa, pb with
        | PSeq la, PSeq lb =>
            (fix go (ts : list ty) (la lb : list payload) : res bool :=
               match ts, la, lb with
               | te :: ts', x :: la', y :: lb' => do e <- r.(h_raw) (V te x) (V te y); do rest <- go ts' la' lb'; Ok (e && rest)
               | [], _, _ => Ok true
               | _, _, _ => Panic
               end) es la lb
        | _, _ => Panic
        end
    | TList e =>
        match pa, pb with
        | PSeq la, PSeq lb =>
            if negb (Nat.eqb (length la) (length lb)) then Ok false
            else all_ok (fun x y => r.(h_raw) (V e x) (V e y)) la lb
        | _, _ => Panic
        end
    | TSet e =>
        match pa, pb with
        | PSet sa, PSet sb =>
            do la <- r.(h_values) e sa; do lb <- r.(h_values) e sb;
            if negb (Nat.eqb (length la) (length lb)) then Ok false
            else all_ok (fun x y => r.(h_raw) (V e x) (V e y)) la lb
        | _, _ => Panic
        end
    | TMap e =>
        match pa, pb with
        | PMap ma, PMap mb =>
            if negb (Nat.eqb (length ma) (length mb)) then Ok false
            else (fix go (l : list (str * payload)) : res bool :=
                    match l with
                    | [] => Ok true
                    | kv :: l' =>
                        match lookup (fst kv) mb with
                        | None => Ok false
                        | Some y => do e' <- r.(h_raw) (V e (snd kv)) (V e y); do rest <- go l'; Ok (e' && rest)
                        end
                    end) ma
        | _, _ => Panic
        end
    | TCap _ => match pa, pb with PCap x, PCap y => Ok (N.eqb x y) | _, _ => Panic end
    end
  end.

(* setRules.Less *)
Definition less_step (r : hfns) (e : ty) (p1 p2 : payload) : res bool :=
  do eq <- r.(h_raw) (V e p1) (V e p2);
  if eq then Ok false else
  let n1 := match p1 with PNull => true | _ => false end in
  let n2 := match p2 with PNull => true | _ => false end in
  if n2 && negb n1 then Ok true else if n1 then Ok false else
  let k1 := negb (p_is_unk p1) in let k2 := negb (p_is_unk p2) in
  if k1 && negb k2 then Ok true else if negb k1 then Ok false else
  match e with
  | TStr => match p1, p2 with PStr a, PStr b => Ok (str_ltb a b) | _, _ => Panic end
  | TBool => match p1, p2 with PBool a, PBool b => Ok (b || negb a) | _, _ => Panic end
  | TNum => match p1, p2 with PNum a _, PNum b _ => Ok (bf_ltb a b) | _, _ => Panic end
  | _ => do h1 <- r.(h_hash) e p1; do h2 <- r.(h_hash) e p2; Ok (bytes_ltb (fst h1) (fst h2))
  end.

(* stable insertion sort by Less: x (which precedes the rest originally) goes after every
   y with Less y x and before the others *)
Fixpoint insert_by (less : payload -> payload -> res bool) (x : payload) (l : list payload) : res (list payload) :=
  match l with
  | [] => Ok [x]
  | y :: l' => do b <- less y x; if b then (do t <- insert_by less x l'; Ok (y :: t)) else Ok (x :: l)
  end.
Fixpoint sort_by (less : payload -> payload -> res bool) (l : list payload) : res (list payload) :=
  match l with
  | [] => Ok []
  | x :: l' => do s <- sort_by less l'; insert_by less x s
  end.

Definition values_step (r : hfns) (e : ty) (bs : buckets) : res (list payload) :=
  sort_by (less_step r e) (set_members bs).

Fixpoint hfns_at (fuel : nat) : hfns :=
  match fuel with
  | O => hfns0
  | S n => let r := hfns_at n in
           {| h_hash := hash_step r; h_raw := raw_step r; h_values := values_step r |}
  end.

Definition hfuel (p : payload) : nat := (2 * psize p + 4)%nat.

Definition raw_equals (a b : value) : res bool := (hfns_at (hfuel (vp a) + hfuel (vp b))).(h_raw) a b.
Definition hash_bytes (v : value) : res (str * bool) := (hfns_at (hfuel (vp v))).(h_hash) (vty v) (vp v).
(* Value.Hash: panics when marks are met *)
Definition hash_value (v : value) : res Z :=
  do h <- hash_bytes v; if snd h then Panic else Ok (Z.of_N (crc32 (fst h))).
Definition set_values (e : ty) (bs : buckets) : res (list payload) :=
  (hfns_at (hfuel (PSet bs))).(h_values) e bs.
Definition set_less (e : ty) (p1 p2 : payload) : res bool :=
  less_step (hfns_at (hfuel p1 + hfuel p2)) e p1 p2.

(* ------------------------------------------------------------------ *)
(* Equals / Includes (fuel-indexed)                                    *)
(* ------------------------------------------------------------------ *)
Record efns := {
  e_equals : value -> value -> res value;
  e_includes : vrange -> value -> res value
}.
Definition efns0 : efns := {| e_equals := fun _ _ => OutOfFuel; e_includes := fun _ _ => OutOfFuel |}.

Definition known_false (v : value) : bool := is_go_bool v false && negb (is_marked v).
Definition is_known_v (v : value) : bool := is_known v.

(* GreaterThanOrEqualTo / LessThanOrEqualTo: Or of the strict comparison and Equals *)
Definition gte_with (eq : value -> value -> res value) (a b : value) : res value :=
  do g <- gt_v a b; do e <- eq a b; or_v g e.
Definition lte_with (eq : value -> value -> res value) (a b : value) : res value :=
  do l <- lt_v a b; do e <- eq a b; or_v l e.

(* "ok.IsKnown() && ok.False()" *)
Definition known_and_false (v : value) : bool :=
  match vp v with PBool false => true | _ => false end.
Definition known_and_true (v : value) : bool :=
  match vp v with PBool true => true | _ => false end.

(* Value.Length as a value (needs the builder's collapse only in the trivial way: bounds
   lo = hi never occurs for LenRange 1 n with n > 1; for unknown collections the builder
   may collapse lo = hi to a known number) *)
Definition length_value (v : value) : res value :=
  do l <- length_core v;
  match l with
  | LenKnown n => Ok (v_int n)
  | LenRange lo hi =>
      if lo =? hi then Ok (v_int lo)
      else Ok (V TNum (PUnk (RNum TF (Some (bf_of_int lo, IdFresh)) (Some (bf_of_int hi, IdFresh)) true true)))
  end.
Definition length_v := unary_marks length_value.

Definition includes_step (r : efns) (rg : vrange) (v : value) : res value :=
  let vnull := is_null v in
  match rfn_null (rraw rg) with
  | TT => Ok (v_bool vnull)
  | n =>
    if (match n with TF => true | _ => false end) && vnull then Ok v_false
    else if vnull then Ok v_true
    else if negb (may_become_equal (vty v) (rty rg)) then Ok v_false      (* fix: commit 3ea1da3 (was: conformance in one direction) *)
    else if is_dyn (vty v) then Ok unk_not_null
    else
      match rraw rg with
      | RStr _ _ =>
          if is_known v then
            do pre <- str_prefix rg;
            match vp v with
            | PStr got => if is_prefix pre got then Ok unk_not_null else Ok v_false
            | _ => Panic     (* AsString on a marked or non-string value *)
            end
          else Ok unk_not_null
      | RColl _ _ _ =>
          do lenv <- length_v v;
          do lo <- len_lower rg; do hi <- len_upper rg;
          do minok <- gte_with r.(e_equals) lenv (v_int lo);
          if known_and_false minok then Ok v_false else
          do maxok <- lte_with r.(e_equals) lenv (v_int hi);
          if known_and_false maxok then Ok v_false else Ok unk_not_null
      | RNum _ _ _ _ _ =>
          do lo <- num_lower rg; do hi <- num_upper rg;
          do minok <- (if snd lo then gte_with r.(e_equals) v (fst lo) else gt_v v (fst lo));
          do maxok <- (if snd hi then lte_with r.(e_equals) v (fst hi) else lt_v v (fst hi));
          if known_and_false minok then Ok v_false
          else if known_and_false maxok then Ok v_false
          else Ok unk_not_null
      | _ => Ok unk_not_null
      end
  end.

(* set.Has with setRules: same bucket (by hash) and Equals known true *)
Definition bucket_of (h : Z) (bs : buckets) : list payload :=
  match find (fun b => fst b =? h) bs with Some b => snd b | None => [] end.

Definition set_has_with (eq : value -> value -> res value) (e : ty) (bs : buckets) (p : payload) : res bool :=
  do h <- hash_value (V e p);
  (fix go (l : list payload) : res bool :=
     match l with
     | [] => Ok false
     | m :: l' => do r <- eq (V e p) (V e m); if known_and_true r then Ok true else go l'
     end) (bucket_of h bs).

(* iteration over a Go map with a data-dependent early exit: the visiting order is a
   parameter (a list of keys); see DESIGN.md 3.9 *)
Inductive eqacc := EqTrue | EqFalse | EqUnknown.

Definition equals_step (r : efns) (order : list str -> list str) (a0 b0 : value) : res value :=
  if contains_marked a0 || contains_marked b0 then
    let '(a, ma) := unmark_deep a0 in let '(b, mb) := unmark_deep b0 in
    do res <- r.(e_equals) a b; Ok (with_marks res (marks_union ma mb))
  else
  let a := a0 in let b := b0 in
  do nna <- definitely_not_null a; do nnb <- definitely_not_null b;
  if is_null a && nnb then Ok v_false else
  if is_null b && nna then Ok v_false else
  let ka := is_known a in let kb := is_known b in
  do early <- (if ka && negb kb then
                 do rb <- range_of b; do ok <- r.(e_includes) rb a; Ok (known_and_false ok)
               else if kb && negb ka then
                 do ra <- range_of a; do ok <- r.(e_includes) ra b; Ok (known_and_false ok)
               else Ok false);
  if early then Ok v_false else
  if negb ka && negb kb then Ok unk_not_null else
  if ka && negb kb then
    (if is_null a || has_dyn (vty b) then Ok unk_not_null
     else if negb (may_become_equal (vty a) (vty b)) then Ok v_false else Ok unk_not_null)   (* fix: commit f29c1fc (was: type equality) *)
  else if kb && negb ka then
    (if is_null b || has_dyn (vty a) then Ok unk_not_null
     else if negb (may_become_equal (vty b) (vty a)) then Ok v_false else Ok unk_not_null)
  else
  if is_null a && is_null b then Ok v_true else
  if is_null a || is_null b then Ok v_false else
  if negb (has_wholly_known_type (vty a) (vp a)) || negb (has_wholly_known_type (vty b) (vp b)) then
    (if negb (may_become_equal (vty a) (vty b)) then Ok v_false else Ok unk_not_null)   (* fix: commit ac6172c (was: conformance in one direction at a time) *)
  else
  if negb (ty_equals (vty a) (vty b)) then Ok v_false else
  let t := vty a in
  (* member-wise comparison with early exit: unknown -> unknown result, false -> stop *)
  let members (pairs : list (value * value)) : res value :=
    (fix go (l : list (value * value)) : res value :=
       match l with
       | [] => Ok v_true
       | xy :: l' =>
           do e <- r.(e_equals) (fst xy) (snd xy);
           if negb (is_known e) then Ok unk_not_null
           else if known_and_false e then Ok v_false
           else go l'
       end) pairs in
  (* objects (and maps below): a known inequality wins over an unknown comparison, so the
     answer does not depend on the visiting order (fix: commit in /repo) *)
  let members_ou (pairs : list (value * value)) (saw0 : bool) : res value :=
    (fix go (l : list (value * value)) (saw : bool) : res value :=
       match l with
       | [] => Ok (if saw then unk_not_null else v_true)
       | xy :: l' =>
           do e <- r.(e_equals) (fst xy) (snd xy);
           if negb (is_known e) then go l' true
           else if known_and_false e then Ok v_false
           else go l' saw
       end) pairs saw0 in
  match t, vp a, vp b with
  | TNum, PNum x _, PNum y _ => Ok (v_bool (raw_number_equal x y))
  | TBool, PBool x, PBool y => Ok (v_bool (Bool.eqb x y))
  | TStr, PStr x, PStr y => Ok (v_bool (str_eqb x y))
  | TObj attrs _, PMap ma, PMap mb =>
      members_ou (flat_map (fun k => match lookup k attrs, lookup k ma, lookup k mb with
                                     | Some ta, Some x, Some y => [(V ta x, V ta y)]
                                     | _, _, _ => []
                                     end) (order (keys attrs))) false
  | TTuple es, PSeq la, PSeq lb =>
      members (map (fun '(te, (x, y)) => (V te x, V te y)) (combine es (combine la lb)))
  | TList e, PSeq la, PSeq lb =>
      if Nat.eqb (length la) (length lb) then members (map (fun '(x, y) => (V e x, V e y)) (combine la lb))
      else Ok v_false
  | TSet e, PSet sa, PSet sb =>
      do la <- set_values e sa; do lb <- set_values e sb;
      (* first loop: unknown member -> unknown; otherwise note members missing from the other set *)
      let pass (l : list payload) (other : buckets) : res eqacc :=
        (fix go (l : list payload) (acc : eqacc) : res eqacc :=
           match l with
           | [] => Ok acc
           | m :: l' =>
               if negb (p_wholly_known m) then Ok EqUnknown          (* fix: commit e670d77 (was: the member itself unknown) *)
               else do h <- set_has_with r.(e_equals) e other m;
                    go l' (if h then acc else EqFalse)
           end) l EqTrue in
      do p1 <- pass la sb;
      match p1 with
      | EqUnknown => Ok unk_not_null
      | _ => do p2 <- pass lb sa;
             match p2 with
             | EqUnknown => Ok unk_not_null
             | _ => Ok (v_bool (match p1, p2 with EqTrue, EqTrue => true | _, _ => false end))
             end
      end
  | TMap e, PMap ma, PMap mb =>
      if Nat.eqb (length ma) (length mb) then
        (fix go (l : list str) (saw : bool) : res value :=
           match l with
           | [] => Ok (if saw then unk_not_null else v_true)
           | k :: l' =>
               match lookup k ma, lookup k mb with
               | Some x, Some y =>
                   do e' <- r.(e_equals) (V e x) (V e y);
                   if negb (is_known e') then go l' true
                   else if known_and_false e' then Ok v_false
                   else go l' saw
               | _, _ => Ok v_false
               end
           end) (order (keys ma)) false
      else Ok v_false
  | TCap _, PCap x, PCap y => Ok (v_bool (N.eqb x y))
  | _, _, _ => Panic
  end.

Fixpoint efns_at (order : list str -> list str) (fuel : nat) : efns :=
  match fuel with
  | O => efns0
  | S n => let r := efns_at order n in
           {| e_equals := equals_step r order; e_includes := includes_step r |}
  end.

Definition efuel (a b : value) : nat := (4 * (psize (vp a) + psize (vp b)) + 24)%nat.

(* Value.Equals, for a given visiting order of Go maps (identity = sorted keys) *)
Definition equals_ord (order : list str -> list str) (a b : value) : res value :=
  (efns_at order (efuel a b)).(e_equals) a b.
Definition equals_v := equals_ord (fun l => l).
Definition includes_v (rg : vrange) (v : value) : res value :=
  (efns_at (fun l => l) (4 * psize (vp v) + 24)).(e_includes) rg v.

Definition not_equal_v (a b : value) : res value := do e <- equals_v a b; not_v e.
Definition gte_v := gte_with equals_v.
Definition lte_v := lte_with equals_v.

(* setRules.Equivalent and set.Add / Has / Remove *)
Definition set_has (e : ty) (bs : buckets) (p : payload) : res bool := set_has_with equals_v e bs p.

Fixpoint bucket_insert (h : Z) (p : payload) (bs : buckets) : buckets :=
  match bs with
  | [] => [(h, [p])]
  | b :: bs' => if h <? fst b then (h, [p]) :: bs
                else if h =? fst b then (h, snd b ++ [p]) :: bs'
                else b :: bucket_insert h p bs'
  end.
Definition set_add (e : ty) (bs : buckets) (p : payload) : res buckets :=
  do has <- set_has e bs p;
  if has then Ok bs else do h <- hash_value (V e p); Ok (bucket_insert h p bs).

Fixpoint remove_first (f : payload -> res bool) (l : list payload) : res (list payload) :=
  match l with
  | [] => Ok []
  | m :: l' => do b <- f m; if b then Ok l' else do t <- remove_first f l'; Ok (m :: t)
  end.
Definition set_remove (e : ty) (bs : buckets) (p : payload) : res buckets :=
  do h <- hash_value (V e p);
  (fix go (bs : buckets) : res buckets :=
     match bs with
     | [] => Ok []
     | b :: bs' =>
         if fst b =? h then
           do nb <- remove_first (fun m => do r <- equals_v (V e p) (V e m); Ok (known_and_true r)) (snd b);
           match nb with [] => Ok bs' | _ => Ok ((fst b, nb) :: bs') end
         else do t <- go bs'; Ok (b :: t)
     end) bs.
Definition set_from_list (e : ty) (l : list payload) : res buckets :=
  fold_left (fun acc p => do bs <- acc; set_add e bs p) l (Ok []).

(* SetVal (cty/value_init.go): members are deeply unmarked, their marks move to the set *)
Definition set_val (vs : list value) : res value :=
  match vs with
  | [] => Panic
  | _ =>
      let us := map unmark_deep vs in
      let marks := fold_left (fun acc um => marks_union acc (snd um)) us [] in
      match unify_elem_ty TDyn (map (fun um => vty (fst um)) us) with
      | None => Panic
      | Some et =>
          do bs <- set_from_list et (map (fun um => vp (fst um)) us);
          Ok (with_marks (V (TSet et) (PSet bs)) marks)
      end
  end.
