(* Base.v — shared executable definitions (no proofs here).
   Strings are byte lists; results of modelled API calls are [res]. *)
From Coq Require Export List Bool Arith NArith ZArith.
Export ListNotations.

Definition str := list N.

Fixpoint str_eqb (a b : str) : bool :=
  match a, b with
  | [], [] => true
  | x :: a', y :: b' => N.eqb x y && str_eqb a' b'
  | _, _ => false
  end.

(* bytewise strict order: Go's string comparison *)
Fixpoint str_ltb (a b : str) : bool :=
  match a, b with
  | [], [] => false
  | [], _ :: _ => true
  | _ :: _, [] => false
  | x :: a', y :: b' => if N.ltb x y then true else if N.eqb x y then str_ltb a' b' else false
  end.

Definition str_leb (a b : str) : bool := negb (str_ltb b a).

Fixpoint is_prefix (p s : str) : bool :=
  match p, s with
  | [], _ => true
  | x :: p', y :: s' => N.eqb x y && is_prefix p' s'
  | _ :: _, [] => false
  end.

Fixpoint lookup {A} (k : str) (l : list (str * A)) : option A :=
  match l with [] => None | (k', v) :: l' => if str_eqb k k' then Some v else lookup k l' end.

Definition mem (k : str) (l : list str) : bool := existsb (str_eqb k) l.

Definition keys {A} (l : list (str * A)) : list str := map fst l.

Fixpoint sorted_keys (l : list str) : bool :=
  match l with
  | [] => true
  | a :: l' => match l' with [] => true | b :: _ => str_ltb a b && sorted_keys l' end
  end.

(* insertion into a key-sorted association list, replacing an existing binding
   (what assigning into a Go map and later iterating in key order amounts to) *)
Fixpoint kv_insert {A} (k : str) (v : A) (l : list (str * A)) : list (str * A) :=
  match l with
  | [] => [(k, v)]
  | (k', v') :: l' =>
      if str_ltb k k' then (k, v) :: l
      else if str_eqb k k' then (k, v) :: l'
      else (k', v') :: kv_insert k v l'
  end.

Fixpoint set_insert (k : str) (l : list str) : list str :=
  match l with
  | [] => [k]
  | k' :: l' =>
      if str_ltb k k' then k :: l
      else if str_eqb k k' then l
      else k' :: set_insert k l'
  end.

(* outcome of a modelled API call *)
Inductive errclass := ArgError (i : Z) | ConvError | PathError | OtherError | PanicError.
Inductive res (A : Type) := Ok (a : A) | Err (e : errclass) | Panic | OutOfFuel.
Arguments Ok {A} _. Arguments Err {A} _. Arguments Panic {A}. Arguments OutOfFuel {A}.

Definition bind {A B} (r : res A) (f : A -> res B) : res B :=
  match r with Ok a => f a | Err e => Err e | Panic => Panic | OutOfFuel => OutOfFuel end.
Definition rmap {A B} (f : A -> B) (r : res A) : res B := bind r (fun a => Ok (f a)).

Notation "'do' x <- r ; k" := (bind r (fun x => k)) (at level 200, x name, r at level 100, k at level 200).

Definition errclass_eqb (a b : errclass) : bool :=
  match a, b with
  | ArgError i, ArgError j => Z.eqb i j
  | ConvError, ConvError | PathError, PathError | OtherError, OtherError | PanicError, PanicError => true
  | _, _ => false
  end.

Definition res_eqb {A} (eqb : A -> A -> bool) (a b : res A) : bool :=
  match a, b with
  | Ok x, Ok y => eqb x y
  | Err e, Err f => errclass_eqb e f
  | Panic, Panic => true
  | OutOfFuel, OutOfFuel => true
  | _, _ => false
  end.

(* comparison of error outcomes ignoring the error class (only "some ordinary error") *)
Definition res_eqb_anyerr {A} (eqb : A -> A -> bool) (a b : res A) : bool :=
  match a, b with
  | Ok x, Ok y => eqb x y
  | Err _, Err _ => true
  | Panic, Panic => true
  | _, _ => false
  end.

Fixpoint list_eqb {A} (eqb : A -> A -> bool) (a b : list A) : bool :=
  match a, b with
  | [], [] => true
  | x :: a', y :: b' => eqb x y && list_eqb eqb a' b'
  | _, _ => false
  end.

Definition option_eqb {A} (eqb : A -> A -> bool) (a b : option A) : bool :=
  match a, b with
  | None, None => true
  | Some x, Some y => eqb x y
  | _, _ => false
  end.

(* indices of the cases on which a check function answers false *)
Fixpoint failing {A} (f : A -> bool) (l : list (N * A)) : list N :=
  match l with
  | [] => []
  | (i, a) :: l' => if f a then failing f l' else i :: failing f l'
  end.

(* ASCII helper for readable literals in the model: bytes of a Coq string *)
From Coq Require Import String Ascii.
Fixpoint bytes_of_string (s : string) : str :=
  match s with
  | EmptyString => []
  | String c s' => N_of_ascii c :: bytes_of_string s'
  end.
Notation "'b#' s" := (bytes_of_string s%string) (at level 1, only parsing).
