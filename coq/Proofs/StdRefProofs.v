(* StdRefProofs.v — algebraic laws of the reference semantics of the collection functions (C13).
   The correspondence check ties the implementation to this reference; these theorems say the
   reference itself is what the documentation promises, for all inputs. *)
From Coq Require Import Lia Sorting.Permutation.
From Cty Require Import Base Ty BigFloat Value Hash Ops Refine Walk Convert StdRef BaseProofs.
Open Scope Z_scope.

(* ---------- views of list values ---------- *)
Lemma combine_seq_map {A B} (f : A -> B) (l : list A) n :
  map (fun p : nat * A => f (snd p)) (combine (seq n (length l)) l) = map f l.
Proof. revert n. induction l as [|x l IH]; intros n; [reflexivity|]. cbn [length seq combine map snd]. rewrite IH. reflexivity. Qed.

Lemma members_list e l : members (V (TList e) (PSeq l)) = Ok (map (V e) l).
Proof.
  unfold members, members_of. cbn [vty vp bind]. f_equal.
  rewrite map_map. rewrite <- (combine_seq_map (V e) l 0). apply map_ext. intros [i p]. reflexivity.
Qed.

Lemma map_vp_V e l : map vp (map (V e) l) = l.
Proof. rewrite map_map. cbn [vp]. apply map_id. Qed.

(* reverse: reversing a list twice gives the list back; the length is preserved *)
Theorem reverse_list e l : ref_reverse (V (TList e) (PSeq l)) = Ok (V (TList e) (PSeq (rev l))).
Proof.
  unfold ref_reverse. rewrite members_list. cbn [bind vty]. unfold mk_list. rewrite <- map_rev, map_vp_V. reflexivity.
Qed.
Theorem reverse_involution e l :
  (do r <- ref_reverse (V (TList e) (PSeq l)); ref_reverse r) = Ok (V (TList e) (PSeq l)).
Proof. rewrite reverse_list. cbn [bind]. rewrite reverse_list, rev_involutive. reflexivity. Qed.

(* chunklist: the chunks, concatenated, are the list; every chunk has at most n elements *)
Lemma chunks_concat n : (0 < n)%nat -> forall fuel (l : list value), (length l <= fuel)%nat -> concat (chunks fuel n l) = l.
Proof.
  intros Hn. induction fuel as [|f IH]; intros l Hl.
  - destruct l; [reflexivity|cbn in Hl; lia].
  - destruct l as [|x l]; [reflexivity|]. cbn [chunks concat].
    rewrite IH; [apply firstn_skipn|].
    rewrite skipn_length. cbn [length] in *. lia.
Qed.
Lemma chunks_bounded n fuel (l : list value) : Forall (fun c => (length c <= n)%nat) (chunks fuel n l).
Proof.
  revert l. induction fuel as [|f IH]; intros l; [constructor|].
  destruct l as [|x l]; [constructor|]. cbn [chunks]. constructor; [apply firstn_le_length|apply IH].
Qed.
Lemma chunks_nonempty n : (0 < n)%nat -> forall fuel (l : list value), Forall (fun c => c <> []) (chunks fuel n l).
Proof.
  intros Hn. induction fuel as [|f IH]; intros l; [constructor|].
  destruct l as [|x l]; [constructor|]. cbn [chunks]. constructor; [|apply IH].
  destruct n; [lia|]. discriminate.
Qed.

(* slice: the part from position i up to, not including, position j *)
Lemma firstn_plus {A} a b (m : list A) : firstn a m ++ firstn b (skipn a m) = firstn (a + b) m.
Proof.
  revert m. induction a as [|a IH]; intros m; [reflexivity|].
  destruct m as [|x m]; [cbn; rewrite firstn_nil; reflexivity|]. cbn [firstn skipn Nat.add app]. f_equal. apply IH.
Qed.
Lemma skipn_plus {A} a b (l : list A) : skipn a (skipn b l) = skipn (b + a) l.
Proof.
  revert l. induction b as [|b IH]; intros l; [reflexivity|].
  destruct l as [|x l]; [cbn; apply skipn_nil|]. cbn [skipn Nat.add]. apply IH.
Qed.
Lemma slice_length {A} (l : list A) i j : (i <= j)%nat -> (j <= length l)%nat -> length (firstn (j - i) (skipn i l)) = (j - i)%nat.
Proof. intros H1 H2. rewrite firstn_length, skipn_length. lia. Qed.
Lemma slice_whole {A} (l : list A) : firstn (length l - 0) (skipn 0 l) = l.
Proof. cbn [skipn]. rewrite Nat.sub_0_r. apply firstn_all. Qed.
Lemma slice_adjacent {A} (l : list A) i j k : (i <= j)%nat -> (j <= k)%nat ->
  firstn (j - i) (skipn i l) ++ firstn (k - j) (skipn j l) = firstn (k - i) (skipn i l).
Proof.
  intros H1 H2. replace (skipn j l) with (skipn (j - i) (skipn i l)) by (rewrite skipn_plus; f_equal; lia).
  rewrite firstn_plus. f_equal. lia.
Qed.

(* element: the index wraps around the length in both directions *)
Lemma wrap_index k n : 0 < n -> 0 <= k mod n < n /\ (k + n) mod n = k mod n /\ (k - n) mod n = k mod n.
Proof.
  intros Hn. split; [apply Z.mod_pos_bound; lia|]. split.
  - replace (k + n) with (k + 1 * n) by lia. apply Z.mod_add. lia.
  - replace (k - n) with (k + (-1) * n) by lia. apply Z.mod_add. lia.
Qed.

(* setproduct: the number of combinations is the product of the operand sizes *)
Lemma product_length (parts : list (list value)) :
  length (product parts) = fold_right (fun p n => (length p * n)%nat) 1%nat parts.
Proof.
  induction parts as [|p rest IH]; [reflexivity|]. cbn [product fold_right]. rewrite <- IH.
  induction p as [|x p IHp]; [reflexivity|]. cbn [flat_map length]. rewrite app_length, map_length, IHp. lia.
Qed.
Lemma product_widths (parts : list (list value)) : Forall (fun t => length t = length parts) (product parts).
Proof.
  induction parts as [|p rest IH]; [repeat constructor|]. cbn [product].
  apply Forall_forall. intros t Ht. apply in_flat_map in Ht as [x [_ Ht]]. apply in_map_iff in Ht as [t' [<- Ht']].
  cbn [length]. f_equal. rewrite Forall_forall in IH. apply IH. exact Ht'.
Qed.

(* sort: the result is ascending and a rearrangement of the input *)
Definition str_le (a b : str) : bool := str_ltb a b || str_eqb a b.
Fixpoint ascending (l : list str) : bool :=
  match l with a :: ((b :: _) as t) => str_le a b && ascending t | _ => true end.

Lemma str_le_total a b : str_le a b = false -> str_le b a = true.
Proof.
  unfold str_le. intros H. apply Bool.orb_false_iff in H as [H1 H2].
  destruct (str_ltb b a) eqn:E; [reflexivity|]. cbn [orb]. apply str_eqb_eq. symmetry. apply str_ltb_total; assumption.
Qed.

Lemma insert_sorted_perm s l : Permutation (s :: l) (insert_sorted s l).
Proof.
  induction l as [|x l IH]; [apply Permutation_refl|]. cbn [insert_sorted].
  destruct (str_ltb x s || str_eqb x s); [|apply Permutation_refl].
  eapply Permutation_trans; [apply perm_swap|]. apply perm_skip. exact IH.
Qed.

Lemma insert_sorted_ascending s l : ascending l = true -> ascending (insert_sorted s l) = true.
Proof.
  induction l as [|x l IH]; intros H; [reflexivity|]. cbn [insert_sorted].
  change (str_ltb x s || str_eqb x s) with (str_le x s).
  destruct (str_le x s) eqn:E.
  - destruct l as [|y l]; cbn [insert_sorted ascending].
    + rewrite E. reflexivity.
    + cbn [ascending] in H. apply andb_true_iff in H as [Hxy Hl].
      change (str_ltb y s || str_eqb y s) with (str_le y s) in *.
      specialize (IH Hl). cbn [insert_sorted] in IH.
      change (str_ltb y s || str_eqb y s) with (str_le y s) in IH.
      destruct (str_le y s) eqn:E2.
      * cbn [ascending]. rewrite Hxy. exact IH.
      * cbn [ascending]. rewrite E. cbn [andb]. rewrite (str_le_total _ _ E2). exact Hl.
  - cbn [ascending]. rewrite (str_le_total _ _ E). exact H.
Qed.

Theorem sort_strings_sorted l : ascending (fold_left (fun acc s => insert_sorted s acc) l []) = true.
Proof.
  assert (G : forall acc, ascending acc = true -> ascending (fold_left (fun acc s => insert_sorted s acc) l acc) = true).
  { induction l as [|x l IH]; intros acc H; [exact H|]. cbn [fold_left]. apply IH. apply insert_sorted_ascending. exact H. }
  apply G. reflexivity.
Qed.
Theorem sort_strings_perm l : Permutation l (fold_left (fun acc s => insert_sorted s acc) l []).
Proof.
  assert (G : forall acc, Permutation (l ++ acc) (fold_left (fun acc s => insert_sorted s acc) l acc)).
  { induction l as [|x l IH]; intros acc; [apply Permutation_refl|]. cbn [fold_left app].
    eapply Permutation_trans; [|apply IH].
    eapply Permutation_trans; [apply Permutation_middle|]. apply Permutation_app_head. apply insert_sorted_perm. }
  specialize (G []). rewrite app_nil_r in G. exact G.
Qed.
