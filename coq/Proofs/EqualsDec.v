(* EqualsDec.v — C03: on wholly known values of the structural fragment (one type, nulls anywhere) the equality
   operation is decided at every depth: it answers True or False, never unknown, and True only for identical
   values; together with EqualsRefl it agrees with RawEquals there. *)
From Coq Require Import Lia.
From Cty Require Import Base Ty BigFloat Value Hash Ops Refine Wf Json Walk BaseProofs TyProofs WfProofs OpsProofs FuncProofs JsonProofs MsgpackProofs DecodeProofs JsonRoundTrip WalkProofs WalkIdentity WfRT RawRefl RawEq EqualsRefl.
Open Scope Z_scope.

Definition idord : list str -> list str := fun l => l.
Definition tf (r : value) (P : Prop) : Prop := (r = v_true /\ P) \/ r = v_false.

Lemma members_dec (r : efns) (pairs : list (value * value)) :
  (forall xy, In xy pairs -> forall e, e_equals r (fst xy) (snd xy) = Ok e -> tf e (vp (fst xy) = vp (snd xy))) ->
  forall rv,
  (fix go (l : list (value * value)) : res value :=
     match l with
     | [] => Ok v_true
     | xy :: l' =>
         do e <- e_equals r (fst xy) (snd xy);
         if negb (is_known e) then Ok unk_not_null
         else if known_and_false e then Ok v_false
         else go l'
     end) pairs = Ok rv -> tf rv (forall xy, In xy pairs -> vp (fst xy) = vp (snd xy)).
Proof.
  induction pairs as [|xy l IHl]; intros H rv E.
  { injection E as <-. left. split; [reflexivity|intros ? []]. }
  destruct (e_equals r (fst xy) (snd xy)) as [e| | |] eqn:Ee; cbn [bind] in E; try discriminate E.
  destruct (H xy (or_introl eq_refl) e Ee) as [[-> Pe]| ->];
    cbn [v_true v_false v_bool is_known vp top_payload negb known_and_false] in E.
  - destruct (IHl (fun xy0 Hin => H xy0 (or_intror Hin)) rv E) as [[-> Pl]| ->]; [left|right; reflexivity].
    split; [reflexivity|]. intros xy0 [<-|Hin]; [exact Pe|apply Pl; exact Hin].
  - injection E as <-. right. reflexivity.
Qed.

Lemma members_ou_dec (r : efns) (pairs : list (value * value)) :
  (forall xy, In xy pairs -> forall e, e_equals r (fst xy) (snd xy) = Ok e -> tf e (vp (fst xy) = vp (snd xy))) ->
  forall rv,
  (fix go (l : list (value * value)) (saw : bool) : res value :=
     match l with
     | [] => Ok (if saw then unk_not_null else v_true)
     | xy :: l' =>
         do e <- e_equals r (fst xy) (snd xy);
         if negb (is_known e) then go l' true
         else if known_and_false e then Ok v_false
         else go l' saw
     end) pairs false = Ok rv -> tf rv (forall xy, In xy pairs -> vp (fst xy) = vp (snd xy)).
Proof.
  induction pairs as [|xy l IHl]; intros H rv E.
  { injection E as <-. left. split; [reflexivity|intros ? []]. }
  destruct (e_equals r (fst xy) (snd xy)) as [e| | |] eqn:Ee; cbn [bind] in E; try discriminate E.
  destruct (H xy (or_introl eq_refl) e Ee) as [[-> Pe]| ->];
    cbn [v_true v_false v_bool is_known vp top_payload negb known_and_false] in E.
  - destruct (IHl (fun xy0 Hin => H xy0 (or_intror Hin)) rv E) as [[-> Pl]| ->]; [left|right; reflexivity].
    split; [reflexivity|]. intros xy0 [<-|Hin]; [exact Pe|apply Pl; exact Hin].
  - injection E as <-. right. reflexivity.
Qed.

Lemma combine_all_eq {A} : forall (la lb : list A), length la = length lb ->
  (forall xy, In xy (combine la lb) -> fst xy = snd xy) -> la = lb.
Proof.
  induction la as [|x la IH]; intros [|y lb] L H; try discriminate; [reflexivity|].
  cbn [combine] in H. f_equal; [exact (H (x, y) (or_introl eq_refl))|].
  apply IH; [injection L as L; exact L|intros xy Hin; apply H; right; exact Hin].
Qed.

Section EqualsDec.
  Variable norm : str -> str.
  Notation KRT := (RT norm false).

  Theorem equals_dec_at : forall n t p q, KRT t p -> KRT t q -> wf_ty t = true -> (pdepth p <= n)%nat ->
    forall f r, e_equals (efns_at idord f) (V t p) (V t q) = Ok r -> tf r (p = q).
  Proof.
    induction n as [|n IH]; intros t p q R1 R2 W D f r E.
    { destruct p; cbn [pdepth] in D; lia. }
    destruct f as [|f]; [discriminate E|].
    change (e_equals (efns_at idord (S f))) with (equals_step (efns_at idord f) idord) in E.
    destruct (KRT_clean_at norm (S n) t p R1 D) as [C1 C2].
    destruct (KRT_clean_at norm (pdepth q) t q R2 (le_n _)) as [C1q C2q].
    unfold equals_step in E. unfold contains_marked in E. cbn [vp] in E. rewrite C1, C1q in E. cbn [orb] in E.
    inversion R1 as [t0 Hk Hd|t0|b|s Hs|e l We Fl|es l F2|e m We Sm Nm Fm|attrs m Sa Na F2]; subst; try discriminate;
    inversion R2 as [t1 Hk1 Hd1|t1|b1|s1 Hs1|e1 l1 We1 Fl1|es1 l1 F21|e1 m1 We1 Sm1 Nm1 Fm1|attrs1 m1 Sa1 Na1 F21]; subst; try discriminate;
      cbn [definitely_not_null vp vty bind is_null is_known top_payload andb orb negb] in E;
      try (injection E as <-; first [left; split; reflexivity | right; reflexivity]);
      rewrite C2, C2q in E; cbn [negb orb] in E; rewrite (ty_equals_refl _ W) in E; cbn [negb] in E.
    - (* bool *)
      destruct (Bool.eqb b b1) eqn:Eb; injection E as <-; [left|right; reflexivity].
      apply Bool.eqb_prop in Eb. subst. split; reflexivity.
    - (* string *)
      destruct (str_eqb s s1) eqn:Es; injection E as <-; [left|right; reflexivity].
      apply str_eqb_eq in Es. subst. split; reflexivity.
    - (* list *)
      destruct (Nat.eqb (length l) (length l1)) eqn:L; [|injection E as <-; right; reflexivity].
      apply Nat.eqb_eq in L. apply members_dec in E.
      + destruct E as [[-> P]| ->]; [left|right; reflexivity]. split; [reflexivity|]. f_equal.
        apply combine_all_eq; [exact L|]. intros [x y] Hin.
        exact (P (V e x, V e y) (in_map (fun '(x0, y0) => (V e x0, V e y0)) _ (x, y) Hin)).
      + intros xy Hin e0 Ee. apply in_map_iff in Hin as ([x y] & <- & Hin). cbn [fst snd vp] in *.
        assert (Hx : In x l) by (eapply in_combine_l; eauto). assert (Hy : In y l1) by (eapply in_combine_r; eauto).
        rewrite Forall_forall in Fl, Fl1.
        eapply IH; [exact (Fl x Hx)|exact (Fl1 y Hy)|exact We| |exact Ee].
        assert (Dm : (S (fold_right (fun y k => Nat.max (pdepth y) k) 0 l) <= S n)%nat) by exact D.
        pose proof (depth_in_list l x Hx). lia.
    - (* tuple *)
      assert (La : length es = length l) by (eapply Forall2_length; eauto).
      assert (Lb : length es = length l1) by (eapply Forall2_length; eauto).
      apply members_dec in E.
      + destruct E as [[-> P]| ->]; [left|right; reflexivity]. split; [reflexivity|]. f_equal.
        apply combine_all_eq; [congruence|]. intros [x y] Hin.
        assert (Hte : exists te, In (te, (x, y)) (combine es (combine l l1))).
        { clear -Hin La Lb. revert l l1 La Lb Hin. induction es as [|te es IHe]; intros [|a l] [|b l1] La Lb Hin; try discriminate; [contradiction|].
          cbn [combine] in *. destruct Hin as [E|Hin]; [exists te; left; rewrite E; reflexivity|].
          injection La as La. injection Lb as Lb. destruct (IHe l l1 La Lb Hin) as (te0 & H0). exists te0. right. exact H0. }
        destruct Hte as (te & Hte).
        exact (P (V te x, V te y) (in_map (fun '(te0, (x0, y0)) => (V te0 x0, V te0 y0)) _ (te, (x, y)) Hte)).
      + intros xy Hin e0 Ee. apply in_map_iff in Hin as ([te [x y]] & <- & Hin). cbn [fst snd vp] in *.
        assert (Hr : KRT te x /\ KRT te y /\ wf_ty te = true /\ In x l).
        { cbn [wf_ty] in W. clear -Hin F2 F21 W. revert l1 F21 Hin. induction F2 as [|te0 a es' l' Ra _ IHf]; intros l1 F21 Hin; [contradiction|].
          inversion F21 as [|te1 b es1 l1' Rb F21']; subst. cbn [forallb] in W. apply andb_true_iff in W as [W1 W2].
          cbn [combine] in Hin. destruct Hin as [E|Hin]; [injection E as <- <- <-; repeat split; [exact Ra|exact Rb|exact W1|left; reflexivity]|].
          destruct (IHf W2 l1' F21' Hin) as (H1 & H2 & H3 & H4). repeat split; [exact H1|exact H2|exact H3|right; exact H4]. }
        destruct Hr as (Rx & Ry & Wt & Hx).
        eapply IH; [exact Rx|exact Ry|exact Wt| |exact Ee].
        assert (Dm : (S (fold_right (fun y k => Nat.max (pdepth y) k) 0 l) <= S n)%nat) by exact D.
        pose proof (depth_in_list l x Hx). lia.
    - (* map *)
      destruct (Nat.eqb (length m) (length m1)) eqn:L; [|injection E as <-; right; reflexivity].
      apply Nat.eqb_eq in L.
      assert (G : forall ks, (forall k, In k ks -> In k (keys m)) -> forall rv,
         (fix go (l : list str) (saw : bool) : res value :=
            match l with
            | [] => Ok (if saw then unk_not_null else v_true)
            | k :: l' =>
                match lookup k m, lookup k m1 with
                | Some x, Some y =>
                    do e' <- e_equals (efns_at idord f) (V e x) (V e y);
                    if negb (is_known e') then go l' true
                    else if known_and_false e' then Ok v_false
                    else go l' saw
                | _, _ => Ok v_false
                end
            end) ks false = Ok rv -> tf rv (forall k, In k ks -> exists x, lookup k m = Some x /\ lookup k m1 = Some x)).
      { induction ks as [|k ks IHk]; intros Hk rv Eg.
        { injection Eg as <-. left. split; [reflexivity|intros ? []]. }
        destruct (lookup k m) as [x|] eqn:Lx; [|injection Eg as <-; right; reflexivity].
        destruct (lookup k m1) as [y|] eqn:Ly; [|injection Eg as <-; right; reflexivity].
        destruct (e_equals (efns_at idord f) (V e x) (V e y)) as [e'| | |] eqn:Ee; cbn [bind] in Eg; try discriminate Eg.
        apply lookup_In in Lx as Ix. apply lookup_In in Ly as Iy. rewrite Forall_forall in Fm, Fm1.
        assert (T : tf e' (x = y)).
        { eapply IH; [exact (Fm (k, x) Ix)|exact (Fm1 (k, y) Iy)|exact We| |exact Ee].
          assert (Dm : (S ((fix go (l : list (str * payload)) : nat :=
                              match l with [] => 0%nat | kv :: l' => Nat.max (pdepth (snd kv)) (go l') end) m) <= S n)%nat) by exact D.
          pose proof (depth_in_map m (k, x) Ix). cbn [snd] in *. lia. }
        destruct T as [[-> Pe]| ->]; cbn [v_true v_false v_bool is_known vp top_payload negb known_and_false] in Eg.
        - destruct (IHk (fun k0 H0 => Hk k0 (or_intror H0)) rv Eg) as [[-> Pl]| ->]; [left|right; reflexivity].
          split; [reflexivity|]. intros k0 [<-|Hin]; [exists x; subst y; split; assumption|apply Pl; exact Hin].
        - injection Eg as <-. right. reflexivity. }
      apply G in E; [|intros k Hk; exact Hk].
      destruct E as [[-> P]| ->]; [left|right; reflexivity]. split; [reflexivity|]. f_equal.
      assert (Hsub : forall kv, In kv m -> In kv m1).
      { intros kv Hin. destruct (P (fst kv)) as (x & L1 & L2); [unfold idord, keys; apply in_map; exact Hin|].
        assert (Lk : lookup (fst kv) m = Some (snd kv)) by (apply lookup_sorted_self; [apply sorted_NoDup; exact Sm|exact Hin]).
        rewrite Lk in L1. injection L1 as <-. apply lookup_In in L2. destruct kv; exact L2. }
      apply pairs_eq_of_keys; [apply sorted_NoDup; exact Sm1| |exact Hsub].
      apply sorted_incl_eq; [exact Sm|exact Sm1|unfold keys; rewrite !map_length; exact L|].
      intros k Hk. apply in_map_iff in Hk as (kv & <- & Hin). apply in_map. apply Hsub. exact Hin.
    - (* object *)
      pose proof (F2_keys (RT norm false) attrs m F2) as Km.
      pose proof (F2_keys (RT norm false) attrs m1 F21) as Km1.
      assert (Skm : sorted_keys (keys m) = true) by (rewrite Km; exact Sa).
      assert (Skm1 : sorted_keys (keys m1) = true) by (rewrite Km1; exact Sa).
      apply members_ou_dec in E.
      + destruct E as [[-> P]| ->]; [left|right; reflexivity]. split; [reflexivity|]. f_equal.
        apply pairs_eq_of_keys; [apply sorted_NoDup; exact Skm1|unfold keys in *; congruence|].
        intros kv Hin.
        destruct (obj_member_ty (RT norm false) attrs m Sa F2 kv Hin) as (ta & La & Rk).
        assert (Lm : lookup (fst kv) m = Some (snd kv)) by (apply lookup_sorted_self; [apply sorted_NoDup; exact Skm|exact Hin]).
        assert (Hk1 : In (fst kv) (keys m1)) by (rewrite Km1, <- Km; unfold keys; apply in_map; exact Hin).
        apply in_map_iff in Hk1 as (kv1 & Ek & Hin1).
        assert (Lm1 : lookup (fst kv) m1 = Some (snd kv1)) by (rewrite <- Ek; apply lookup_sorted_self; [apply sorted_NoDup; exact Skm1|exact Hin1]).
        assert (Hp : In (V ta (snd kv), V ta (snd kv1))
                   (flat_map (fun k => match lookup k attrs, lookup k m, lookup k m1 with
                                       | Some ta0, Some x, Some y => [(V ta0 x, V ta0 y)]
                                       | _, _, _ => []
                                       end) (idord (keys attrs)))).
        { apply in_flat_map. exists (fst kv). split; [unfold idord; rewrite <- Km; unfold keys; apply in_map; exact Hin|].
          rewrite La, Lm, Lm1. left. reflexivity. }
        pose proof (P _ Hp) as Ev. cbn [fst snd vp] in Ev. destruct kv as [k x], kv1 as [k1 y]. cbn [fst snd] in *. subst. exact Hin1.
      + intros xy Hin e0 Ee. apply in_flat_map in Hin as (k & Hk & Hin).
        destruct (lookup k attrs) as [ta|] eqn:La; [|contradiction].
        destruct (lookup k m) as [x|] eqn:Lm; [|contradiction].
        destruct (lookup k m1) as [y|] eqn:Lm1; [|contradiction].
        destruct Hin as [<-|[]]. cbn [fst snd vp] in *.
        apply lookup_In in Lm. apply lookup_In in Lm1.
        destruct (obj_member_ty (RT norm false) attrs m Sa F2 (k, x) Lm) as (ta2 & La2 & Rx). cbn [fst snd] in La2, Rx.
        destruct (obj_member_ty (RT norm false) attrs m1 Sa F21 (k, y) Lm1) as (ta3 & La3 & Ry). cbn [fst snd] in La3, Ry.
        rewrite La in La2, La3. injection La2 as <-. injection La3 as <-.
        eapply IH; [exact Rx|exact Ry|eapply (wf_ty_obj_attr attrs [] (k, ta)); [exact W|apply lookup_In; exact La]| |exact Ee].
        assert (Dm : (S ((fix go (l : list (str * payload)) : nat :=
                            match l with [] => 0%nat | kv :: l' => Nat.max (pdepth (snd kv)) (go l') end) m) <= S n)%nat) by exact D.
        pose proof (depth_in_map m (k, x) Lm). cbn [snd] in *. lia.
  Qed.
End EqualsDec.

(* the public entry point: whatever Equals answers on two wholly known values of one type is True or False, True
   exactly when the values are identical, which is exactly when RawEquals answers true *)
Theorem equals_v_decides norm t p q r : RT norm false t p -> RT norm false t q -> wf_ty t = true ->
  equals_v (V t p) (V t q) = Ok r -> (r = v_true /\ p = q) \/ (r = v_false /\ p <> q).
Proof.
  intros R1 R2 W E. unfold equals_v, equals_ord in E.
  destruct (equals_dec_at norm (pdepth p) t p q R1 R2 W (le_n _) _ r E) as [[-> P]| ->]; [left; split; [reflexivity|exact P]|].
  right. split; [reflexivity|]. intros ->.
  pose proof (equals_v_refl norm t q R2 W) as Hr. unfold equals_v, equals_ord in Hr. rewrite Hr in E. discriminate E.
Qed.
Theorem equals_v_agrees_raw norm t p q r : RT norm false t p -> RT norm false t q -> wf_ty t = true ->
  equals_v (V t p) (V t q) = Ok r -> (r = v_true <-> raw_equals (V t p) (V t q) = Ok true) /\ (r = v_true \/ r = v_false).
Proof.
  intros R1 R2 W E. destruct (equals_v_decides norm t p q r R1 R2 W E) as [[-> P]|[-> P]].
  - split; [|left; reflexivity]. split; [intros _; subst q; apply (raw_equals_refl norm false); assumption|reflexivity].
  - split; [|right; reflexivity]. split; [discriminate|]. intros Hr. exfalso. apply P. apply (raw_equals_true_eq norm false t); assumption.
Qed.
