(* MpRoundTrip.v — C16: the MessagePack encoder and decoder are mutually inverse on every known, unmarked value
   built from booleans, strings, nulls, lists, tuples, maps and objects, nested to any depth (the same
   fragment as JsonRoundTrip.v; numbers: MsgpackProofs.number_int_roundtrip; unknowns and sets: per input). *)
From Coq Require Import Lia.
From Cty Require Import Base Ty BigFloat Value Hash Ops Refine Wf Json Msgpack BaseProofs TyProofs WfProofs FuncProofs JsonProofs MsgpackProofs DecodeProofs JsonRoundTrip.
Open Scope Z_scope.

Section MpRoundTrip.
  Variable norm : str -> str.
  Variable unk : bool.
  Variable trunc : str -> str.
  Variable jp : str -> option jv.

  Theorem mp_roundtrip_at : forall n t p, RT norm unk t p -> (pdepth p <= n)%nat ->
    forall f f', (n < f)%nat -> (n < f')%nat ->
    exists m, mp_marshal_at trunc f (V t p) t = Ok m /\ mp_unmarshal_at norm jp f' m t = Ok (V t p) /\ (pdepth p <= mp_size m)%nat.
  Proof.
    induction n as [|n IH]; intros t p R D f f' Hf Hf'.
    { destruct p; cbn [pdepth] in D; lia. }
    destruct f as [|f]; [lia|]. destruct f' as [|f']; [lia|].
    assert (Hf0 : (n < f)%nat) by lia. assert (Hf0' : (n < f')%nat) by lia.
    cbn [mp_marshal_at mp_unmarshal_at]. unfold mp_marshal_step, mp_unmarshal_step.
    inversion R as [t0 Hk Hd|t0|b|s Hs|e l We Fl|es l F2|e m We Sm Nm Fm|attrs m Sa Na F2]; subst; cbn [vty vp is_marked is_known is_null top_payload negb].
    - (* an unrefined unknown: encoded as an extension item without entries, decoded to the same unknown *)
      exists (MUnk 0 []). rewrite Hd. cbn [andb]. split; [|split; [|cbn; lia]].
      + destruct t; try discriminate; reflexivity.
      + reflexivity.
    - (* null *)
      exists MNil. split; [|split; [|cbn; lia]].
      + destruct (is_dyn t); reflexivity.
      + destruct t; reflexivity.
    - exists (MBool b). split; [|split]; [reflexivity|reflexivity|cbn; lia].
    - exists (MStr s). split; [reflexivity|split; [|cbn; lia]]. rewrite Hs. reflexivity.
    - (* list *)
      cbn [is_dyn andb].
      assert (G : exists ms,
        (fix go (l0 : list payload) : res (list mp) :=
           match l0 with
           | [] => Ok []
           | x :: l' => do m <- mp_marshal_at trunc f (V e x) e; do r <- go l'; Ok (m :: r)
           end) l = Ok ms /\
        (fix go (l0 : list mp) : res (list value) :=
           match l0 with
           | [] => Ok []
           | x :: l' => do v <- mp_unmarshal_at norm jp f' x e; do r <- go l'; Ok (v :: r)
           end) ms = Ok (map (fun x => V e x) l) /\
        (fold_right (fun x k => Nat.max (pdepth x) k) 0 l <= fold_right (fun x k => mp_size x + k) 0 ms)%nat).
      { cbn [pdepth] in D. assert (Dl : (fold_right (fun x k => Nat.max (pdepth x) k) 0 l <= n)%nat) by lia. clear D R.
        induction Fl as [|x l Rx Fl IHl]; [exists []; split; [|split]; [reflexivity|reflexivity|cbn; lia]|].
        cbn [fold_right] in Dl.
        assert (Dx : (pdepth x <= n)%nat) by lia.
        assert (Dl' : (fold_right (fun x k => Nat.max (pdepth x) k) 0 l <= n)%nat) by lia.
        destruct (IH e x Rx Dx f f' Hf0 Hf0') as (j & Mj & Uj & Sj).
        destruct (IHl Dl') as (js & Mjs & Ujs & Sjs).
        exists (j :: js). split; [|split].
        - rewrite Mj. cbn [bind]. rewrite Mjs. reflexivity.
        - rewrite Uj. cbn [bind]. rewrite Ujs. reflexivity.
        - cbn [fold_right]. lia. }
      destruct G as (js & Mjs & Ujs & Sjs). exists (MArr js). split; [rewrite Mjs; reflexivity|].
      split; [|cbn [pdepth mp_size]; lia].
      rewrite Ujs. cbn [bind].
      destruct l as [|x l]; [reflexivity|]. cbn [map].
      change ({| vty := e; vp := x |} :: map (fun x0 : payload => {| vty := e; vp := x0 |}) l)
        with (map (fun x0 : payload => {| vty := e; vp := x0 |}) (x :: l)).
      unfold can_coll, list_val. rewrite map_vty_V, map_vp_V. cbn [length map].
      rewrite (unify_dyn_same e (length l) We). reflexivity.
    - (* tuple *)
      cbn [is_dyn andb].
      assert (G : exists ms,
        (fix go (ts tvs : list ty) (l0 : list payload) {struct ts} : res (list mp) :=
           match ts, tvs, l0 with
           | te :: ts', tv :: tvs', x :: l' => do m <- mp_marshal_at trunc f (V tv x) te; do r <- go ts' tvs' l'; Ok (m :: r)
           | _, _, [] => Ok []
           | _, _, _ => Panic
           end) es es l = Ok ms /\
        (fix go (ts : list ty) (l0 : list mp) {struct ts} : res (list value) :=
           match l0, ts with
           | x :: l', te :: ts' => do v <- mp_unmarshal_at norm jp f' x te; do r <- go ts' l'; Ok (v :: r)
           | _, _ => Ok []
           end) es ms = Ok (map (fun tx => V (fst tx) (snd tx)) (combine es l)) /\
        (fold_right (fun x k => Nat.max (pdepth x) k) 0 l <= fold_right (fun x k => mp_size x + k) 0 ms)%nat /\ length ms = length es).
      { cbn [pdepth] in D. assert (Dl : (fold_right (fun x k => Nat.max (pdepth x) k) 0 l <= n)%nat) by lia. clear D R.
        induction F2 as [|te x es l Rx F2 IHl]; [exists []; split; [|split; [|split]]; [reflexivity|reflexivity|cbn; lia|reflexivity]|].
        cbn [fold_right] in Dl.
        assert (Dx : (pdepth x <= n)%nat) by lia.
        assert (Dl' : (fold_right (fun x k => Nat.max (pdepth x) k) 0 l <= n)%nat) by lia.
        destruct (IH te x Rx Dx f f' Hf0 Hf0') as (j & Mj & Uj & Sj).
        destruct (IHl Dl') as (js & Mjs & Ujs & Sjs & Ljs).
        exists (j :: js). split; [|split; [|split]].
        - rewrite Mj. cbn [bind]. rewrite Mjs. reflexivity.
        - rewrite Uj. cbn [bind]. rewrite Ujs. reflexivity.
        - cbn [fold_right]. lia.
        - cbn [length]. lia. }
      destruct G as (js & Mjs & Ujs & Sjs & Ljs). exists (MArr js). split; [rewrite Mjs; reflexivity|].
      split; [|cbn [pdepth mp_size]; lia].
      rewrite Ljs, Nat.eqb_refl. cbn [negb]. rewrite Ujs. cbn [bind].
      assert (L : length l = length es) by (symmetry; eapply Forall2_length; eauto).
      unfold tuple_val. rewrite (map_vty_combine es l L), (map_vp_combine es l L). reflexivity.
    - (* map *)
      cbn [is_dyn andb].
      assert (G : exists ms,
        (fix go (l0 : list (str * payload)) : res (list (mp * mp)) :=
           match l0 with
           | [] => Ok []
           | kv :: l' => do x <- mp_marshal_at trunc f (V e (snd kv)) e; do r <- go l'; Ok ((MStr (fst kv), x) :: r)
           end) m = Ok ms /\
        (fix go (l0 : list (mp * mp)) : res (list (str * value)) :=
           match l0 with
           | [] => Ok []
           | kv :: l' => match dec_string (fst kv) with
                         | Some k => do v <- mp_unmarshal_at norm jp f' (snd kv) e; do r <- go l'; Ok ((k, v) :: r)
                         | None => Err OtherError
                         end
           end) ms = Ok (map (fun kv => (fst kv, V e (snd kv))) m) /\
        ((fix go (l : list (str * payload)) : nat :=
            match l with [] => 0%nat | kv :: l' => Nat.max (pdepth (snd kv)) (go l') end) m <=
         (fix go (l : list (mp * mp)) : nat := match l with [] => 0 | kv :: l' => mp_size (fst kv) + mp_size (snd kv) + go l' end) ms)%nat).
      { cbn [pdepth] in D.
        assert (Dl : ((fix go (l : list (str * payload)) : nat :=
                         match l with [] => 0%nat | kv :: l' => Nat.max (pdepth (snd kv)) (go l') end) m <= n)%nat) by lia.
        clear D R Sm Nm.
        induction Fm as [|kv m Rx Fm IHm]; [exists []; split; [|split]; [reflexivity|reflexivity|lia]|].
        assert (Dx : (pdepth (snd kv) <= n)%nat) by lia.
        assert (Dl' : ((fix go (l : list (str * payload)) : nat :=
                         match l with [] => 0%nat | kv :: l' => Nat.max (pdepth (snd kv)) (go l') end) m <= n)%nat) by lia.
        destruct (IH e (snd kv) Rx Dx f f' Hf0 Hf0') as (j & Mj & Uj & Sj).
        destruct (IHm Dl') as (js & Mjs & Ujs & Sjs).
        exists ((MStr (fst kv), j) :: js). split; [|split].
        - rewrite Mj. cbn [bind]. rewrite Mjs. reflexivity.
        - cbn [fst snd dec_string]. rewrite Uj. cbn [bind]. rewrite Ujs. reflexivity.
        - cbn [fst snd mp_size]. lia. }
      destruct G as (js & Mjs & Ujs & Sjs). exists (MMap js). split; [rewrite Mjs; reflexivity|].
      split; [|cbn [pdepth mp_size]; lia].
      rewrite Ujs. cbn [bind].
      destruct m as [|kv m]; [reflexivity|].
      destruct (map_val_rebuild norm e (kv :: m) We ltac:(discriminate) Sm Nm) as [C V0].
      cbv zeta in C, V0.
      remember (map (fun kv0 : str * payload => (fst kv0, {| vty := e; vp := snd kv0 |})) (kv :: m)) as K eqn:EK.
      destruct K as [|k0 K]; [discriminate EK|]. rewrite C. exact V0.
    - (* object *)
      cbn [is_dyn andb].
      pose proof (F2_keys (RT norm unk) attrs m F2) as Km.
      assert (HA : forall kt, In kt attrs -> lookup (fst kt) attrs = Some (snd kt)).
      { intros kt Hin. apply lookup_sorted_self; [apply sorted_NoDup; exact Sa|exact Hin]. }
      assert (HM : forall kv, In kv m -> lookup (fst kv) m = Some (snd kv)).
      { intros kv Hin. apply lookup_sorted_self; [|exact Hin]. change (map fst m) with (keys m). rewrite Km. apply sorted_NoDup; exact Sa. }
      assert (G : forall a' m', Forall2 (fun (kt : str * ty) (kv : str * payload) => fst kv = fst kt /\ RT norm unk (snd kt) (snd kv)) a' m' ->
                 (forall kt, In kt a' -> In kt attrs) -> (forall kv, In kv m' -> In kv m) ->
                 (forall kv, In kv m' -> (pdepth (snd kv) <= n)%nat) ->
        exists ms,
        (fix go (l0 : list (str * ty)) : res (list (mp * mp)) :=
           match l0 with
           | [] => Ok []
           | kt :: l' =>
               match lookup (fst kt) attrs, lookup (fst kt) m with
               | Some tv, Some x => do y <- mp_marshal_at trunc f (V tv x) (snd kt); do r <- go l'; Ok ((MStr (fst kt), y) :: r)
               | _, _ => Panic
               end
           end) a' = Ok ms /\
        (fix go (l0 : list (mp * mp)) : res (list (str * value)) :=
           match l0 with
           | [] => Ok []
           | kv :: l' =>
               match dec_string (fst kv) with
               | Some k => match lookup k attrs with
                           | None => Err OtherError
                           | Some ta => do v <- mp_unmarshal_at norm jp f' (snd kv) ta; do r <- go l'; Ok ((k, v) :: r)
                           end
               | None => Err OtherError
               end
           end) ms = Ok (map pair_val (combine a' m')) /\
        ((fix go (l : list (str * payload)) : nat :=
            match l with [] => 0%nat | kv :: l' => Nat.max (pdepth (snd kv)) (go l') end) m' <=
         (fix go (l : list (mp * mp)) : nat := match l with [] => 0 | kv :: l' => mp_size (fst kv) + mp_size (snd kv) + go l' end) ms)%nat /\
        length ms = length a').
      { induction 1 as [|kt kv a' m' [E Rx] F2' IHf]; intros Ia Im Dm; [exists []; split; [|split; [|split]]; [reflexivity|reflexivity|lia|reflexivity]|].
        assert (La : lookup (fst kt) attrs = Some (snd kt)) by (apply HA; apply Ia; left; reflexivity).
        assert (Lm : lookup (fst kt) m = Some (snd kv)) by (rewrite <- E; apply HM; apply Im; left; reflexivity).
        assert (Dx : (pdepth (snd kv) <= n)%nat) by (apply Dm; left; reflexivity).
        destruct (IH (snd kt) (snd kv) Rx Dx f f' Hf0 Hf0') as (j & Mj & Uj & Sj).
        destruct (IHf (fun kt0 H => Ia kt0 (or_intror H)) (fun kv0 H => Im kv0 (or_intror H)) (fun kv0 H => Dm kv0 (or_intror H))) as (js & Mjs & Ujs & Sjs & Ljs).
        exists ((MStr (fst kt), j) :: js). split; [|split; [|split]].
        - rewrite La, Lm, Mj. cbn [bind]. rewrite Mjs. reflexivity.
        - cbn [fst snd dec_string]. rewrite La, Uj. cbn [bind]. rewrite Ujs. cbn [combine map pair_val fst snd]. reflexivity.
        - cbn [fst snd mp_size]. lia.
        - cbn [length]. lia. }
      assert (Dm : forall kv, In kv m -> (pdepth (snd kv) <= n)%nat).
      { cbn [pdepth] in D. clear -D. induction m as [|x m IHm]; intros kv Hin; [contradiction|]. destruct Hin as [<-|Hin]; [lia|]. apply IHm; [lia|exact Hin]. }
      destruct (G attrs m F2 (fun kt H => H) (fun kv H => H) Dm) as (js & Mjs & Ujs & Sjs & Ljs).
      exists (MMap js). split; [rewrite Mjs; reflexivity|].
      split; [|cbn [pdepth mp_size]; lia].
      rewrite Ljs, Nat.eqb_refl. cbn [negb]. rewrite Ujs. cbn [bind].
      set (kvs := map pair_val (combine attrs m)).
      destruct (pair_tys (RT norm unk) attrs m F2) as [PT PV]. fold kvs in PT, PV.
      assert (Kk : keys kvs = keys attrs).
      { unfold keys. transitivity (map fst (map (fun kv : str * value => (fst kv, vty (snd kv))) kvs)); [rewrite map_map; reflexivity|rewrite PT; reflexivity]. }
      assert (Gv : fold_left (fun acc kv => kv_insert (fst kv) (snd kv) acc) kvs [] = kvs).
      { rewrite (fold_kv_insert_sorted (fun s => s) kvs []); [reflexivity|cbn [app]; rewrite Kk; exact Sa|reflexivity]. }
      rewrite Gv.
      assert (Lk : length kvs = length attrs).
      { transitivity (length (keys kvs)); [unfold keys; rewrite map_length; reflexivity|rewrite Kk; unfold keys; rewrite map_length; reflexivity]. }
      rewrite Lk, Nat.eqb_refl. cbn [negb].
      unfold object_val.
      rewrite (fold_conv vty norm kvs []), (fold_conv vp norm kvs []), PT, PV.
      rewrite (fold_kv_insert_sorted norm attrs []); [|exact Sa|intros kv Hin; apply Na; unfold keys; apply in_map; exact Hin].
      rewrite (fold_kv_insert_sorted norm m []); [reflexivity|cbn [app]; rewrite Km; exact Sa|].
      intros kv Hin. apply Na. rewrite <- Km. unfold keys. apply in_map. exact Hin.
  Qed.
End MpRoundTrip.

(* the public entry points, with the fuel they compute themselves *)
Theorem mp_roundtrip norm unk trunc jp t p : RT norm unk t p ->
  exists m, mp_marshal trunc (V t p) t = Ok m /\ mp_unmarshal norm jp m t = Ok (V t p).
Proof.
  intros R. unfold mp_marshal, mp_unmarshal. cbn [vp vty].
  pose proof (pdepth_le_psize p) as Dp.
  destruct (mp_roundtrip_at norm unk trunc jp (pdepth p) t p R (le_n _) (S (psize p) + ty_size t + ty_size t) (S (pdepth p)) ltac:(lia) ltac:(lia)) as (j & Mj & _ & Sj).
  destruct (mp_roundtrip_at norm unk trunc jp (pdepth p) t p R (le_n _) (S (psize p) + ty_size t + ty_size t) (S (mp_size j)) ltac:(lia) ltac:(lia)) as (j' & Mj' & Uj' & _).
  rewrite Mj in Mj'. injection Mj' as <-. exists j. split; assumption.
Qed.
