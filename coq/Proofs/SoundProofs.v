(* SoundProofs.v — operations on unknown values are sound approximations (C01):
   comparison and logical operations, for every weakening of number / bool operands. *)
From Coq Require Import Lia.
From Cty Require Import Base Ty BigFloat Value Hash Ops Refine Admits CmpProofs.
Open Scope Z_scope.

(* [a] stands for the known number [x] (with identity [i]): it is that number, the dynamic
   value, or an unknown number whose refinement admits x *)
Inductive num_weakens : value -> bf -> numid -> Prop :=
| nw_same x i : num_weakens (V TNum (PNum x i)) x i
| nw_dyn x i : num_weakens v_dyn x i
| nw_unk r x i : rfn_admits r TNum (PNum x i) = true -> num_weakens (V TNum (PUnk r)) x i.

Inductive bool_weakens : value -> bool -> Prop :=
| bw_same b : bool_weakens (v_bool b) b
| bw_dyn b : bool_weakens v_dyn b
| bw_unk r b : rfn_admits r TBool (PBool b) = true -> bool_weakens (V TBool (PUnk r)) b.

Lemma admits_bool_refl b : admits_b (v_bool b) (v_bool b) = true.
Proof. destruct b; reflexivity. Qed.
Lemma admits_unk_bool b : admits_b unk_not_null (v_bool b) = true.
Proof. destruct b; reflexivity. Qed.

Lemma lt_u_known x i y j : lt_u (V TNum (PNum x i)) (V TNum (PNum y j)) = Ok (v_bool (bf_ltb x y)).
Proof. unfold lt_u, bf_ltb. cbn. destruct (bf_cmp x y); reflexivity. Qed.
Lemma gt_u_known x i y j : gt_u (V TNum (PNum x i)) (V TNum (PNum y j)) = Ok (v_bool (bf_ltb y x)).
Proof. unfold gt_u, bf_ltb. cbn. rewrite (bf_cmp_antisym x y). destruct (bf_cmp x y); reflexivity. Qed.

(* the bounds reported for a stand-in of x enclose x *)
Definition encloses (a : value) (x : bf) : Prop :=
  exists rg lo li loInc hi hj hiInc,
    range_of a = Ok rg /\ rty rg = TNum /\
    num_lower rg = Ok (V TNum (PNum lo li), loInc) /\ num_upper rg = Ok (V TNum (PNum hi hj), hiInc) /\
    bf_leb lo x = true /\ bf_leb x hi = true.

Lemma encloses_same x i : encloses (V TNum (PNum x i)) x.
Proof.
  exists {| rty := TNum; rraw := RNum TF (Some (x, i)) (Some (x, i)) true true |}, x, i, true, x, i, true.
  repeat split; try reflexivity; apply bf_leb_refl.
Qed.

Lemma encloses_unk r x i : rfn_admits r TNum (PNum x i) = true -> encloses (V TNum (PUnk r)) x.
Proof.
  intros H. unfold rfn_admits in H.
  destruct r as [|n|n p|n lo hi loInc hiInc|n a b].
  - exists {| rty := TNum; rraw := RNullable TU |}, bf_ninf0, IdNInf, true, bf_pinf0, IdPInf, true.
    repeat split; try reflexivity. apply bf_leb_ninf. apply bf_leb_pinf.
  - exists {| rty := TNum; rraw := RNullable n |}, bf_ninf0, IdNInf, true, bf_pinf0, IdPInf, true.
    repeat split; try reflexivity. apply bf_leb_ninf. apply bf_leb_pinf.
  - destruct n; discriminate.
  - assert (Hb : (match lo with None => true | Some b => if loInc then bf_leb (bf_of_numv b) x else bf_ltb (bf_of_numv b) x end) = true /\
                 (match hi with None => true | Some b => if hiInc then bf_leb x (bf_of_numv b) else bf_ltb x (bf_of_numv b) end) = true).
    { destruct n; try discriminate; apply andb_true_iff in H; exact H. }
    destruct Hb as [Hlo Hhi].
    destruct lo as [[l li]|], hi as [[h hj]|].
    + exists {| rty := TNum; rraw := RNum n (Some (l, li)) (Some (h, hj)) loInc hiInc |}, l, li, loInc, h, hj, hiInc.
      repeat split; try reflexivity.
      * cbn in Hlo. destruct loInc; auto using bf_ltb_leb.
      * cbn in Hhi. destruct hiInc; auto using bf_ltb_leb.
    + exists {| rty := TNum; rraw := RNum n (Some (l, li)) None loInc hiInc |}, l, li, loInc, bf_pinf0, IdPInf, true.
      repeat split; try reflexivity.
      * cbn in Hlo. destruct loInc; auto using bf_ltb_leb.
      * apply bf_leb_pinf.
    + exists {| rty := TNum; rraw := RNum n None (Some (h, hj)) loInc hiInc |}, bf_ninf0, IdNInf, true, h, hj, hiInc.
      repeat split; try reflexivity.
      * apply bf_leb_ninf.
      * cbn in Hhi. destruct hiInc; auto using bf_ltb_leb.
    + exists {| rty := TNum; rraw := RNum n None None loInc hiInc |}, bf_ninf0, IdNInf, true, bf_pinf0, IdPInf, true.
      repeat split; try reflexivity. apply bf_leb_ninf. apply bf_leb_pinf.
  - destruct n; discriminate.
Qed.

(* the shortcut of LessThan / GreaterThan only ever answers what the concrete comparison answers *)
Lemma shortcut_sound a1 a2 x1 x2 want :
  encloses a1 x1 -> encloses a2 x2 ->
  exists s, cmp_shortcut a1 a2 want = Ok s /\
    match s with
    | Some r => r = (if want then bf_ltb x1 x2 else bf_ltb x2 x1)
    | None => True
    end.
Proof.
  intros (rg1 & lo1 & li1 & loInc1 & hi1 & hj1 & hiInc1 & R1 & T1 & L1 & U1 & A1 & B1).
  intros (rg2 & lo2 & li2 & loInc2 & hi2 & hj2 & hiInc2 & R2 & T2 & L2 & U2 & A2 & B2).
  unfold cmp_shortcut. rewrite R1, R2. cbn [bind]. rewrite T1, T2. rewrite U1, L2, L1, U2. cbn [bind fst].
  unfold is_known_u, known_ltb. cbn [vp p_is_unk negb andb pnum vty fst].
  destruct (bf_ltb hi1 lo2) eqn:SL; destruct (bf_ltb hi2 lo1) eqn:SG.
  - (* both: impossible, but either answer must be justified; derive the facts *)
    assert (X : bf_ltb x1 x2 = true) by (eapply bf_le_lt_trans; [exact B1|]; eapply bf_lt_le_trans; [exact SL|exact A2]).
    assert (Y : bf_ltb x2 x1 = true) by (eapply bf_le_lt_trans; [exact B2|]; eapply bf_lt_le_trans; [exact SG|exact A1]).
    rewrite (bf_ltb_not_gt _ _ X) in Y. discriminate.
  - assert (X : bf_ltb x1 x2 = true) by (eapply bf_le_lt_trans; [exact B1|]; eapply bf_lt_le_trans; [exact SL|exact A2]).
    destruct want; eexists; split; try reflexivity; cbn.
    + symmetry; exact X.
    + symmetry. apply bf_ltb_not_gt. exact X.
  - assert (Y : bf_ltb x2 x1 = true) by (eapply bf_le_lt_trans; [exact B2|]; eapply bf_lt_le_trans; [exact SG|exact A1]).
    destruct want; eexists; split; try reflexivity; cbn.
    + symmetry. apply bf_ltb_not_gt. exact Y.
    + symmetry; exact Y.
  - destruct want; eexists; split; try reflexivity; exact I.
Qed.

Lemma encloses_of_weakens a x i : num_weakens a x i -> a = v_dyn \/ encloses a x.
Proof. intros [x' i'|x' i'|r x' i' H]; [right; apply encloses_same|left; reflexivity|right; eapply encloses_unk; exact H]. Qed.

Lemma weakens_ty a x i : num_weakens a x i -> (vty a = TNum \/ a = v_dyn) /\ (match vp a with PMarked _ _ | PNull => False | _ => True end).
Proof. intros [x' i'|x' i'|r x' i' H]; cbn; auto. Qed.

(* LessThan is sound for every weakening of its operands *)
Theorem lt_sound a1 a2 x1 i1 x2 i2 :
  num_weakens a1 x1 i1 -> num_weakens a2 x2 i2 ->
  exists ra, lt_u a1 a2 = Ok ra /\ admits_b ra (v_bool (bf_ltb x1 x2)) = true.
Proof.
  intros W1 W2.
  destruct W1 as [x1 i1|x1 i1|r1 x1 i1 H1]; destruct W2 as [x2 i2|x2 i2|r2 x2 i2 H2].
  - rewrite lt_u_known. eexists; split; [reflexivity|apply admits_bool_refl].
  - exists unk_not_null. split; [reflexivity|apply admits_unk_bool].
  - destruct (shortcut_sound _ _ x1 x2 true (encloses_same x1 i1) (encloses_unk _ _ _ H2)) as (s & Hs & Hr).
    unfold lt_u. cbn [type_check vty vp is_dyn ty_equals negb p_is_unk orb bind]. rewrite Hs. cbn [bind].
    destruct s as [r|]; [subst r; eexists; split; [reflexivity|apply admits_bool_refl]|eexists; split; [reflexivity|apply admits_unk_bool]].
  - exists unk_not_null. split; [reflexivity|apply admits_unk_bool].
  - exists unk_not_null. split; [reflexivity|apply admits_unk_bool].
  - exists unk_not_null. split; [reflexivity|apply admits_unk_bool].
  - destruct (shortcut_sound _ _ x1 x2 true (encloses_unk _ _ _ H1) (encloses_same x2 i2)) as (s & Hs & Hr).
    unfold lt_u. cbn [type_check vty vp is_dyn ty_equals negb p_is_unk orb bind]. rewrite Hs. cbn [bind].
    destruct s as [r|]; [subst r; eexists; split; [reflexivity|apply admits_bool_refl]|eexists; split; [reflexivity|apply admits_unk_bool]].
  - exists unk_not_null. split; [reflexivity|apply admits_unk_bool].
  - destruct (shortcut_sound _ _ x1 x2 true (encloses_unk _ _ _ H1) (encloses_unk _ _ _ H2)) as (s & Hs & Hr).
    unfold lt_u. cbn [type_check vty vp is_dyn ty_equals negb p_is_unk orb bind]. rewrite Hs. cbn [bind].
    destruct s as [r|]; [subst r; eexists; split; [reflexivity|apply admits_bool_refl]|eexists; split; [reflexivity|apply admits_unk_bool]].
Qed.

Theorem gt_sound a1 a2 x1 i1 x2 i2 :
  num_weakens a1 x1 i1 -> num_weakens a2 x2 i2 ->
  exists ra, gt_u a1 a2 = Ok ra /\ admits_b ra (v_bool (bf_ltb x2 x1)) = true.
Proof.
  intros W1 W2.
  destruct W1 as [x1 i1|x1 i1|r1 x1 i1 H1]; destruct W2 as [x2 i2|x2 i2|r2 x2 i2 H2].
  - rewrite gt_u_known. eexists; split; [reflexivity|apply admits_bool_refl].
  - exists unk_not_null. split; [reflexivity|apply admits_unk_bool].
  - destruct (shortcut_sound _ _ x1 x2 false (encloses_same x1 i1) (encloses_unk _ _ _ H2)) as (s & Hs & Hr).
    unfold gt_u. cbn [type_check vty vp is_dyn ty_equals negb p_is_unk orb bind]. rewrite Hs. cbn [bind].
    destruct s as [r|]; [subst r; eexists; split; [reflexivity|apply admits_bool_refl]|eexists; split; [reflexivity|apply admits_unk_bool]].
  - exists unk_not_null. split; [reflexivity|apply admits_unk_bool].
  - exists unk_not_null. split; [reflexivity|apply admits_unk_bool].
  - exists unk_not_null. split; [reflexivity|apply admits_unk_bool].
  - destruct (shortcut_sound _ _ x1 x2 false (encloses_unk _ _ _ H1) (encloses_same x2 i2)) as (s & Hs & Hr).
    unfold gt_u. cbn [type_check vty vp is_dyn ty_equals negb p_is_unk orb bind]. rewrite Hs. cbn [bind].
    destruct s as [r|]; [subst r; eexists; split; [reflexivity|apply admits_bool_refl]|eexists; split; [reflexivity|apply admits_unk_bool]].
  - exists unk_not_null. split; [reflexivity|apply admits_unk_bool].
  - destruct (shortcut_sound _ _ x1 x2 false (encloses_unk _ _ _ H1) (encloses_unk _ _ _ H2)) as (s & Hs & Hr).
    unfold gt_u. cbn [type_check vty vp is_dyn ty_equals negb p_is_unk orb bind]. rewrite Hs. cbn [bind].
    destruct s as [r|]; [subst r; eexists; split; [reflexivity|apply admits_bool_refl]|eexists; split; [reflexivity|apply admits_unk_bool]].
Qed.

(* the concrete runs, for reference: LessThan / GreaterThan of the known numbers are these booleans *)
Lemma lt_concrete x1 i1 x2 i2 : lt_u (V TNum (PNum x1 i1)) (V TNum (PNum x2 i2)) = Ok (v_bool (bf_ltb x1 x2)).
Proof. apply lt_u_known. Qed.
Lemma gt_concrete x1 i1 x2 i2 : gt_u (V TNum (PNum x1 i1)) (V TNum (PNum x2 i2)) = Ok (v_bool (bf_ltb x2 x1)).
Proof. apply gt_u_known. Qed.

(* ---------- Not / And / Or ---------- *)
Theorem not_sound a b : bool_weakens a b -> exists ra, not_u a = Ok ra /\ admits_b ra (v_bool (negb b)) = true.
Proof.
  intros [b'|b'|r b' H].
  - exists (v_bool (negb b')). split; [reflexivity|apply admits_bool_refl].
  - exists unk_not_null. split; [reflexivity|apply admits_unk_bool].
  - exists unk_not_null. split; [reflexivity|apply admits_unk_bool].
Qed.

Theorem and_sound a1 a2 b1 b2 : bool_weakens a1 b1 -> bool_weakens a2 b2 ->
  exists ra, and_u a1 a2 = Ok ra /\ admits_b ra (v_bool (b1 && b2)) = true.
Proof.
  intros W1 W2. destruct W1 as [b1|b1|r1 b1 H1]; destruct W2 as [b2|b2|r2 b2 H2].
  - exists (v_bool (b1 && b2)). split; [destruct b1, b2; reflexivity|apply admits_bool_refl].
  - destruct b1; [exists unk_not_null; split; [reflexivity|apply admits_unk_bool]|exists v_false; split; reflexivity].
  - destruct b1; [exists unk_not_null; split; [reflexivity|apply admits_unk_bool]|exists v_false; split; reflexivity].
  - destruct b2; [exists unk_not_null; split; [reflexivity|apply admits_unk_bool]|exists v_false; split; [reflexivity|rewrite andb_false_r; reflexivity]].
  - exists unk_not_null. split; [reflexivity|apply admits_unk_bool].
  - exists unk_not_null. split; [reflexivity|apply admits_unk_bool].
  - destruct b2; [exists unk_not_null; split; [reflexivity|apply admits_unk_bool]|exists v_false; split; [reflexivity|rewrite andb_false_r; reflexivity]].
  - exists unk_not_null. split; [reflexivity|apply admits_unk_bool].
  - exists unk_not_null. split; [reflexivity|apply admits_unk_bool].
Qed.

Theorem or_sound a1 a2 b1 b2 : bool_weakens a1 b1 -> bool_weakens a2 b2 ->
  exists ra, or_u a1 a2 = Ok ra /\ admits_b ra (v_bool (b1 || b2)) = true.
Proof.
  intros W1 W2. destruct W1 as [b1|b1|r1 b1 H1]; destruct W2 as [b2|b2|r2 b2 H2].
  - exists (v_bool (b1 || b2)). split; [destruct b1, b2; reflexivity|apply admits_bool_refl].
  - destruct b1; [exists v_true; split; reflexivity|exists unk_not_null; split; [reflexivity|apply admits_unk_bool]].
  - destruct b1; [exists v_true; split; reflexivity|exists unk_not_null; split; [reflexivity|apply admits_unk_bool]].
  - destruct b2; [exists v_true; split; [reflexivity|rewrite orb_true_r; reflexivity]|exists unk_not_null; split; [reflexivity|apply admits_unk_bool]].
  - exists unk_not_null. split; [reflexivity|apply admits_unk_bool].
  - exists unk_not_null. split; [reflexivity|apply admits_unk_bool].
  - destruct b2; [exists v_true; split; [reflexivity|rewrite orb_true_r; reflexivity]|exists unk_not_null; split; [reflexivity|apply admits_unk_bool]].
  - exists unk_not_null. split; [reflexivity|apply admits_unk_bool].
  - exists unk_not_null. split; [reflexivity|apply admits_unk_bool].
Qed.

(* ---------- refuted as coded: range arithmetic across precisions (known finding) ---------- *)
Definition w_c1 : value := v_num (BFin false 3 (-1) 53).          (* 1.5 as float64 *)
Definition w_c2 : value := v_num (BFin false 1 60 53).            (* 2^60 as float64 *)
Definition w_a1 : value := V TNum (PUnk (RNum TF (Some (BFin false 1 0 512, IdFresh)) None true false)).  (* unknown >= 1 (parsed) *)
Definition w_rc : res value := Eval vm_compute in add_v w_c1 w_c2.
Definition w_ra : res value := Eval vm_compute in add_v w_a1 w_c2.
Definition w_sound : bool := Eval vm_compute in
  match w_ra, w_rc with Ok ra, Ok rc => admits_b ra rc | _, _ => true end.
Lemma add_rounding_refuted :
  admits_b w_a1 w_c1 = true /\ admits_b w_c2 w_c2 = true /\
  add_v w_c1 w_c2 = w_rc /\ add_v w_a1 w_c2 = w_ra /\
  match w_ra, w_rc with Ok ra, Ok rc => admits_b ra rc | _, _ => true end = false.
Proof. split; [|split; [|split; [|split]]]; vm_compute; reflexivity. Qed.

(* refuted as coded: Equals is decided by shortest decimal text, the range disproof by value *)
Definition w_f01 : value := v_num (BFin false 7205759403792794 (-56) 53).      (* 0.1 as float64 *)
Definition w_p01 : value := Eval vm_compute in match bf_parse (map (fun c => c) [48; 46; 49]%N) 512 with POk x => v_num x | PErr => w_f01 end.   (* "0.1" parsed *)
Definition w_bound : bf := Eval vm_compute in match bf_parse [48; 46; 49; 48; 48; 48; 48; 48; 48; 48; 48; 48; 48; 48; 48; 48; 48; 48; 48; 50; 55]%N 512 with POk x => x | PErr => bf_zero53 end.
Definition w_a01 : value := V TNum (PUnk (RNum TF (Some (w_bound, IdFresh)) None true false)).
Lemma equals_text_vs_value_refuted :
  admits_b w_a01 w_f01 = true /\
  equals_v w_f01 w_p01 = Ok v_true /\ equals_v w_a01 w_p01 = Ok v_false.
Proof. split; [|split]; vm_compute; reflexivity. Qed.
